import Qentem.Model.FmtSpec
import Qentem.Proofs.NumToStrDefaultLt1
import Mathlib.Tactic.Linarith
import Mathlib.Tactic.Positivity
import Mathlib.Tactic.FieldSimp
import Mathlib.Tactic.NormNum
import Mathlib.Tactic.Ring
import Mathlib.Algebra.Order.Field.Power
import Mathlib.Data.Rat.Cast.Order
import Mathlib.Data.Nat.Log
/-! C11 helper — **17 (9) correctly rounded significant digits identify a binary64 (binary32) value**, a theorem about
the reference (`FmtSpec`) only.  Parts: reading the reference texts back (`readCore`, `read_fixed`, `read_sci`,
`generalBody_value`: the `%.{p}g` text denotes `⌊v·10^s⌉·10^(-s)` exactly); round-half-even, `⌊log10⌋` and
`scaleRound` in ℚ; `nearestBits_eq`: `nearestBits` returns the pattern whose rounding interval contains the rational;
`decode_fin`; `readBits_format` (any format with `2^(mb+1) < 10^(P-1)`); `spec_identifies17`, `spec_identifies9`. -/
set_option linter.unusedSimpArgs false
set_option linter.unusedVariables false
namespace Qentem.Proofs.Ident
open Qentem Qentem.Proofs.NumToStr

/-! ### reading the reference texts back -/

/-- `readDecimal` after the sign -/
def readCore (neg : Bool) (t : List Nat) : Option (Bool × Nat × Nat) :=
  let ip := t.takeWhile FmtSpec.isDigit
  let t := t.dropWhile FmtSpec.isDigit
  if ip.isEmpty then none else
  let (fp, t, okf) := match t with
    | 46 :: r => (r.takeWhile FmtSpec.isDigit, r.dropWhile FmtSpec.isDigit, !(r.takeWhile FmtSpec.isDigit).isEmpty)
    | _ => ([], t, true)
  if !okf then none else
  let mant := FmtSpec.digitsValue (ip ++ fp)
  match t with
  | [] => some (neg, mant, 10 ^ fp.length)
  | 101 :: r =>
    let (eneg, r) := match r with
      | 45 :: r' => (true, r')
      | 43 :: r' => (false, r')
      | _ => (false, r)
    if r.isEmpty || !(r.all FmtSpec.isDigit) then none else
    let e := FmtSpec.digitsValue r
    if eneg then some (neg, mant, 10 ^ fp.length * 10 ^ e)
    else some (neg, mant * 10 ^ e, 10 ^ fp.length)
  | _ => none

theorem readDecimal_neg (t : List Nat) : FmtSpec.readDecimal (45 :: t) = readCore true t := by
  unfold FmtSpec.readDecimal readCore; rfl

theorem readDecimal_pos (t : List Nat) (h : ∀ r, t ≠ 45 :: r) : FmtSpec.readDecimal t = readCore false t := by
  unfold FmtSpec.readDecimal readCore
  split
  · rename_i r heq
    split at heq
    · rename_i r'
      exact absurd rfl (h r')
    · simp only [Prod.mk.injEq] at heq
      obtain ⟨h1, h2⟩ := heq
      subst h2; subst h1; rfl

theorem readDecimal_signed (neg : Bool) (t : List Nat) (h : ∀ r, t ≠ 45 :: r) :
    FmtSpec.readDecimal (FmtSpec.signed neg t) = readCore neg t := by
  cases neg
  · simpa [FmtSpec.signed] using readDecimal_pos t h
  · simpa [FmtSpec.signed, FmtSpec.cMinus] using readDecimal_neg t


theorem takeWhile_stop (p : Nat → Bool) (ip rest : List Nat) (hip : ∀ c ∈ ip, p c = true)
    (hrest : rest = [] ∨ ∃ a r, rest = a :: r ∧ p a = false) :
    (ip ++ rest).takeWhile p = ip ∧ (ip ++ rest).dropWhile p = rest := by
  induction ip with
  | nil =>
    rcases hrest with rfl | ⟨a, r, rfl, ha⟩
    · simp
    · simp [List.takeWhile, List.dropWhile, ha]
  | cons c t ih =>
    have hc := hip c (by simp)
    obtain ⟨i1, i2⟩ := ih (fun x hx => hip x (by simp [hx]))
    simp [List.takeWhile, List.dropWhile, hc, i1, i2]

/-- digits, optional `.digits`, nothing else -/
theorem readCore_plain (neg : Bool) (ip fp : List Nat) (hip0 : ip ≠ []) (hip : ∀ c ∈ ip, FmtSpec.isDigit c = true)
    (hfp : ∀ c ∈ fp, FmtSpec.isDigit c = true) :
    readCore neg (ip ++ (if fp = [] then [] else 46 :: fp)) =
      some (neg, FmtSpec.digitsValue (ip ++ fp), 10 ^ fp.length) := by
  unfold readCore
  by_cases hf : fp = []
  · subst hf
    obtain ⟨t1, t2⟩ := takeWhile_stop FmtSpec.isDigit ip [] hip (Or.inl rfl)
    simp only [if_true, t1, t2]
    simp [hip0]
  · obtain ⟨t1, t2⟩ := takeWhile_stop FmtSpec.isDigit ip (46 :: fp) hip (Or.inr ⟨46, fp, rfl, by decide⟩)
    obtain ⟨u1, u2⟩ := takeWhile_stop FmtSpec.isDigit fp [] hfp (Or.inl rfl)
    rw [List.append_nil] at u1 u2
    simp only [hf, if_false, t1, t2, u1, u2]
    simp [hip0, hf]

/-- digits, optional `.digits`, `e`, a sign, digits -/
theorem readCore_exp (neg : Bool) (ip fp r : List Nat) (eneg : Bool) (hip0 : ip ≠ [])
    (hip : ∀ c ∈ ip, FmtSpec.isDigit c = true) (hfp : ∀ c ∈ fp, FmtSpec.isDigit c = true)
    (hr0 : r ≠ []) (hr : ∀ c ∈ r, FmtSpec.isDigit c = true) :
    readCore neg (ip ++ (if fp = [] then [] else 46 :: fp) ++ 101 :: (if eneg then 45 else 43) :: r) =
      some (if eneg then (neg, FmtSpec.digitsValue (ip ++ fp), 10 ^ fp.length * 10 ^ FmtSpec.digitsValue r)
            else (neg, FmtSpec.digitsValue (ip ++ fp) * 10 ^ FmtSpec.digitsValue r, 10 ^ fp.length)) := by
  have hrall : r.all FmtSpec.isDigit = true := by simpa using hr
  unfold readCore
  by_cases hf : fp = []
  · subst hf
    obtain ⟨t1, t2⟩ := takeWhile_stop FmtSpec.isDigit ip (101 :: (if eneg then 45 else 43) :: r) hip
      (Or.inr ⟨101, _, rfl, by decide⟩)
    simp only [if_true, List.append_nil, t1, t2]
    cases eneg <;> simp [hip0, hr0, hrall]
  · obtain ⟨t1, t2⟩ := takeWhile_stop FmtSpec.isDigit ip (46 :: fp ++ 101 :: (if eneg then 45 else 43) :: r) hip
      (Or.inr ⟨46, _, rfl, by decide⟩)
    obtain ⟨u1, u2⟩ := takeWhile_stop FmtSpec.isDigit fp (101 :: (if eneg then 45 else 43) :: r) hfp
      (Or.inr ⟨101, _, rfl, by decide⟩)
    simp only [hf, if_false, List.append_assoc, List.cons_append] at t1 t2 ⊢
    simp only [t1, t2, u1, u2]
    cases eneg <;> simp [hip0, hf, hr0, hrall]


/-! ### digit strings and their values -/

theorem foldl_digits (l : List Nat) : ∀ a : Nat,
    l.foldl (fun a c => a * 10 + (c - 48)) a = a * 10 ^ l.length + l.foldl (fun a c => a * 10 + (c - 48)) 0 := by
  induction l with
  | nil => intro a; simp
  | cons c t ih =>
    intro a
    simp only [List.foldl_cons, List.length_cons]
    rw [ih (a * 10 + (c - 48)), ih (0 * 10 + (c - 48)), Nat.pow_succ]
    ring

theorem digitsValue_app (l1 l2 : List Nat) :
    FmtSpec.digitsValue (l1 ++ l2) = FmtSpec.digitsValue l1 * 10 ^ l2.length + FmtSpec.digitsValue l2 := by
  unfold FmtSpec.digitsValue
  rw [List.foldl_append, foldl_digits l2]

theorem digitsValue_Dk : ∀ (k x : Nat), FmtSpec.digitsValue (Dk k x) = x % 10 ^ k := by
  intro k
  induction k with
  | zero => intro x; simp [Dk, FmtSpec.digitsValue, Nat.mod_one]
  | succ k ih =>
    intro x
    rw [Dk, digitsValue_app, ih]
    have : FmtSpec.digitsValue [48 + x % 10] = x % 10 := by simp [FmtSpec.digitsValue]
    rw [this, Nat.pow_succ, Nat.mul_comm (10 ^ k) 10, Nat.mod_mul]
    simp
    ring

theorem isDigit_Dk : ∀ (k x : Nat), ∀ c ∈ Dk k x, FmtSpec.isDigit c = true := by
  intro k
  induction k with
  | zero => intro x c hc; simp [Dk] at hc
  | succ k ih =>
    intro x c hc
    rw [Dk, List.mem_append] at hc
    rcases hc with hc | hc
    · exact ih _ c hc
    · simp at hc; subst hc
      have := Nat.mod_lt x (show 0 < 10 by decide)
      simp [FmtSpec.isDigit]; omega

theorem Dk_split (a : Nat) : ∀ (b x : Nat), Dk (a + b) x = Dk a (x / 10 ^ b) ++ Dk b x := by
  intro b
  induction b with
  | zero => intro x; simp [Dk]
  | succ b ih =>
    intro x
    rw [← Nat.add_assoc, Dk, ih, Dk, List.append_assoc, Nat.div_div_eq_div_mul, Nat.pow_succ, Nat.mul_comm]

theorem Dk_mod : ∀ (k x : Nat), Dk k (x % 10 ^ k) = Dk k x := by
  intro k
  induction k with
  | zero => intro x; rfl
  | succ k ih =>
    intro x
    rw [Dk, Dk]
    have h1 : x % 10 ^ (k + 1) % 10 = x % 10 := Nat.mod_mod_of_dvd _ (by rw [Nat.pow_succ]; exact Nat.dvd_mul_left _ _)
    have h2 : x % 10 ^ (k + 1) / 10 = (x / 10) % 10 ^ k := by
      rw [Nat.pow_succ, Nat.mul_comm, Nat.mod_mul_right_div_self]
    rw [h1, h2, ih]

theorem trailing_zeros : ∀ c : Nat, 0 < c → ∃ c' t, c = c' * 10 ^ t ∧ c' % 10 ≠ 0 := by
  intro c
  induction c using Nat.strong_induction_on with
  | _ c ih =>
    intro hc
    by_cases h : c % 10 = 0
    · obtain ⟨c', t, h1, h2⟩ := ih (c / 10) (by omega) (by omega)
      refine ⟨c', t + 1, ?_, h2⟩
      rw [Nat.pow_succ, ← Nat.mul_assoc, ← h1]; omega
    · exact ⟨c, 0, by simp, h⟩

/-! ### round-half-even in ℚ -/

theorem rhe_cases (n d : Nat) :
    FmtSpec.roundHalfEven n d = n / d ∨ FmtSpec.roundHalfEven n d = n / d + 1 := by
  unfold FmtSpec.roundHalfEven; simp only; split <;> simp

/-- the rounded integer is within one half of the exact quotient -/
theorem rhe_close (n d : Nat) (hd : 0 < d) :
    |((FmtSpec.roundHalfEven n d : Nat) : ℚ) - (n : ℚ) / d| ≤ 1 / 2 := by
  have hdq : (0 : ℚ) < d := by exact_mod_cast hd
  have hdm := Nat.div_add_mod n d
  have hr : n % d < d := Nat.mod_lt _ hd
  have hq : (n : ℚ) / d = (n / d : Nat) + ((n % d : Nat) : ℚ) / d := by
    field_simp
    have : (n : ℚ) = (d : ℚ) * (n / d : Nat) + (n % d : Nat) := by exact_mod_cast hdm.symm
    linarith
  have hfr : (0 : ℚ) ≤ ((n % d : Nat) : ℚ) / d := by positivity
  have hfr1 : ((n % d : Nat) : ℚ) / d < 1 := by rw [div_lt_one hdq]; exact_mod_cast hr
  unfold FmtSpec.roundHalfEven
  simp only
  rw [hq]
  split
  · rename_i hc
    have h2 : (d : ℚ) ≤ 2 * ((n % d : Nat) : ℚ) := by
      rcases hc with hc | hc
      · exact_mod_cast Nat.le_of_lt hc
      · exact_mod_cast Nat.le_of_eq hc.1.symm
    have h3 : (1 : ℚ) / 2 ≤ ((n % d : Nat) : ℚ) / d := by rw [div_le_div_iff₀ (by norm_num) hdq]; linarith
    push_cast
    rw [abs_le]; constructor <;> linarith
  · rename_i hc
    have h2 : 2 * ((n % d : Nat) : ℚ) ≤ d := by
      have : 2 * (n % d) ≤ d := by
        by_contra hcon
        exact hc (Or.inl (by omega))
      exact_mod_cast this
    have h3 : ((n % d : Nat) : ℚ) / d ≤ 1 / 2 := by rw [div_le_div_iff₀ hdq (by norm_num)]; linarith
    rw [abs_le]; constructor <;> linarith

/-- a quotient strictly within one half of an integer rounds to it -/
theorem rhe_unique (n d k : Nat) (hd : 0 < d) (h : |(n : ℚ) / d - k| < 1 / 2) : FmtSpec.roundHalfEven n d = k := by
  have hc := rhe_close n d hd
  have h1 : |((FmtSpec.roundHalfEven n d : Nat) : ℚ) - k| < 1 := by
    calc |((FmtSpec.roundHalfEven n d : Nat) : ℚ) - k|
        = |(((FmtSpec.roundHalfEven n d : Nat) : ℚ) - (n : ℚ) / d) + ((n : ℚ) / d - k)| := by ring_nf
      _ ≤ |((FmtSpec.roundHalfEven n d : Nat) : ℚ) - (n : ℚ) / d| + |(n : ℚ) / d - k| := abs_add_le _ _
      _ < 1 := by linarith
  rw [abs_lt] at h1
  have h2 : ((FmtSpec.roundHalfEven n d : Nat) : ℚ) < (k : ℚ) + 1 := by linarith
  have h3 : (k : ℚ) < ((FmtSpec.roundHalfEven n d : Nat) : ℚ) + 1 := by linarith
  have h2' : FmtSpec.roundHalfEven n d < k + 1 := by exact_mod_cast h2
  have h3' : k < FmtSpec.roundHalfEven n d + 1 := by exact_mod_cast h3
  omega


/-! ### the binary exponent computed by `nearestBits` -/

/-- `⌊log2 (num/den)⌋` as `nearestBits` computes it -/
def flog2 (num den : Nat) : Int :=
  let e0 : Int := (Nat.log2 num : Int) - (Nat.log2 den : Int)
  let ge : Bool := if 0 ≤ e0 then decide (den * 2 ^ e0.toNat ≤ num) else decide (den ≤ num * 2 ^ (-e0).toNat)
  if ge then e0 else e0 - 1

theorem pow2_le_iff (rn rd : Nat) (hrd : 0 < rd) (k : Int) :
    (if 0 ≤ k then decide (rd * 2 ^ k.toNat ≤ rn) else decide (rd ≤ rn * 2 ^ (-k).toNat)) = true ↔
      (2 : ℚ) ^ k ≤ (rn : ℚ) / rd := by
  have hrdq : (0 : ℚ) < rd := by exact_mod_cast hrd
  by_cases hk : 0 ≤ k
  · obtain ⟨n, rfl⟩ := Int.eq_ofNat_of_zero_le hk
    simp only [hk, if_true, Int.toNat_natCast, decide_eq_true_eq, zpow_natCast]
    rw [le_div_iff₀ hrdq]
    constructor
    · intro h
      have : ((rd * 2 ^ n : Nat) : ℚ) ≤ rn := by exact_mod_cast h
      push_cast at this; linarith
    · intro h
      have : ((rd * 2 ^ n : Nat) : ℚ) ≤ rn := by push_cast; linarith
      exact_mod_cast this
  · have hk' : k < 0 := by omega
    obtain ⟨n, hn⟩ : ∃ n : Nat, k = -(n : Int) := ⟨(-k).toNat, by omega⟩
    subst hn
    simp only [hk, if_false, neg_neg, Int.toNat_natCast, decide_eq_true_eq, zpow_neg, zpow_natCast]
    rw [le_div_iff₀ hrdq, inv_mul_le_iff₀ (by positivity)]
    constructor
    · intro h
      have : ((rd : Nat) : ℚ) ≤ (rn * 2 ^ n : Nat) := by exact_mod_cast h
      push_cast at this; linarith
    · intro h
      have : ((rd : Nat) : ℚ) ≤ (rn * 2 ^ n : Nat) := by push_cast; linarith
      exact_mod_cast this

theorem log2_bounds (n : Nat) (hn : n ≠ 0) : (2 : ℚ) ^ (Nat.log2 n : Int) ≤ n ∧ (n : ℚ) < 2 ^ ((Nat.log2 n : Int) + 1) := by
  constructor
  · rw [zpow_natCast]; exact_mod_cast Nat.log2_self_le hn
  · have : n < 2 ^ (Nat.log2 n + 1) := (Nat.log2_lt hn).mp (Nat.lt_succ_self _)
    have h2 : ((Nat.log2 n : Int) + 1) = ((Nat.log2 n + 1 : Nat) : Int) := by push_cast; ring
    rw [h2, zpow_natCast]; exact_mod_cast this

theorem flog2_spec (rn rd : Nat) (hrn : 0 < rn) (hrd : 0 < rd) :
    (2 : ℚ) ^ (flog2 rn rd) ≤ (rn : ℚ) / rd ∧ (rn : ℚ) / rd < 2 ^ (flog2 rn rd + 1) := by
  have hrdq : (0 : ℚ) < rd := by exact_mod_cast hrd
  obtain ⟨a1, a2⟩ := log2_bounds rn (by omega)
  obtain ⟨b1, b2⟩ := log2_bounds rd (by omega)
  have hup : (rn : ℚ) / rd < 2 ^ ((Nat.log2 rn : Int) - (Nat.log2 rd : Int) + 1) := by
    rw [div_lt_iff₀ hrdq]
    calc (rn : ℚ) < 2 ^ ((Nat.log2 rn : Int) + 1) := a2
      _ = 2 ^ ((Nat.log2 rn : Int) - (Nat.log2 rd : Int) + 1) * 2 ^ (Nat.log2 rd : Int) := by
          rw [← zpow_add₀ (by norm_num)]; congr 1; ring
      _ ≤ 2 ^ ((Nat.log2 rn : Int) - (Nat.log2 rd : Int) + 1) * rd := by
          apply mul_le_mul_of_nonneg_left b1; positivity
  have hlo : (2 : ℚ) ^ ((Nat.log2 rn : Int) - (Nat.log2 rd : Int) - 1) ≤ (rn : ℚ) / rd := by
    rw [le_div_iff₀ hrdq]
    calc (2 : ℚ) ^ ((Nat.log2 rn : Int) - (Nat.log2 rd : Int) - 1) * rd
        ≤ 2 ^ ((Nat.log2 rn : Int) - (Nat.log2 rd : Int) - 1) * 2 ^ ((Nat.log2 rd : Int) + 1) := by
          apply mul_le_mul_of_nonneg_left (le_of_lt b2); positivity
      _ = 2 ^ (Nat.log2 rn : Int) := by rw [← zpow_add₀ (by norm_num)]; congr 1; ring
      _ ≤ rn := a1
  unfold flog2
  simp only
  have hiff := pow2_le_iff rn rd hrd ((Nat.log2 rn : Int) - (Nat.log2 rd : Int))
  by_cases hge : (if 0 ≤ (Nat.log2 rn : Int) - (Nat.log2 rd : Int) then
      decide (rd * 2 ^ ((Nat.log2 rn : Int) - (Nat.log2 rd : Int)).toNat ≤ rn)
      else decide (rd ≤ rn * 2 ^ (-((Nat.log2 rn : Int) - (Nat.log2 rd : Int))).toNat)) = true
  · rw [if_pos hge]
    exact ⟨hiff.mp hge, hup⟩
  · rw [if_neg hge]
    refine ⟨hlo, ?_⟩
    rw [show (Nat.log2 rn : Int) - (Nat.log2 rd : Int) - 1 + 1 = (Nat.log2 rn : Int) - (Nat.log2 rd : Int) by ring]
    exact lt_of_not_ge (fun h => hge (hiff.mpr h))


/-! ### `nearestBits` returns the neighbour whose rounding interval contains the value -/

theorem nearestBits_unfold (mb eb : Nat) (neg : Bool) (rn rd : Nat) (hrn : rn ≠ 0) :
    FmtSpec.nearestBits mb eb neg rn rd =
      (if neg then 2 ^ (mb + eb) else 0) +
        (if (2 ^ eb - 1) * 2 ^ mb ≤
            (((if flog2 rn rd < 1 - ((2 : Int) ^ (eb - 1) - 1) then 1 - ((2 : Int) ^ (eb - 1) - 1) else flog2 rn rd) +
                ((2 : Int) ^ (eb - 1) - 1) - 1).toNat) * 2 ^ mb +
              (if 0 ≤ (if flog2 rn rd < 1 - ((2 : Int) ^ (eb - 1) - 1) then 1 - ((2 : Int) ^ (eb - 1) - 1) else flog2 rn rd) - mb
                then FmtSpec.roundHalfEven rn (rd * 2 ^ ((if flog2 rn rd < 1 - ((2 : Int) ^ (eb - 1) - 1) then 1 - ((2 : Int) ^ (eb - 1) - 1) else flog2 rn rd) - mb).toNat)
                else FmtSpec.roundHalfEven (rn * 2 ^ (-((if flog2 rn rd < 1 - ((2 : Int) ^ (eb - 1) - 1) then 1 - ((2 : Int) ^ (eb - 1) - 1) else flog2 rn rd) - mb)).toNat) rd)
          then (2 ^ eb - 1) * 2 ^ mb
          else
            (((if flog2 rn rd < 1 - ((2 : Int) ^ (eb - 1) - 1) then 1 - ((2 : Int) ^ (eb - 1) - 1) else flog2 rn rd) +
                ((2 : Int) ^ (eb - 1) - 1) - 1).toNat) * 2 ^ mb +
              (if 0 ≤ (if flog2 rn rd < 1 - ((2 : Int) ^ (eb - 1) - 1) then 1 - ((2 : Int) ^ (eb - 1) - 1) else flog2 rn rd) - mb
                then FmtSpec.roundHalfEven rn (rd * 2 ^ ((if flog2 rn rd < 1 - ((2 : Int) ^ (eb - 1) - 1) then 1 - ((2 : Int) ^ (eb - 1) - 1) else flog2 rn rd) - mb).toNat)
                else FmtSpec.roundHalfEven (rn * 2 ^ (-((if flog2 rn rd < 1 - ((2 : Int) ^ (eb - 1) - 1) then 1 - ((2 : Int) ^ (eb - 1) - 1) else flog2 rn rd) - mb)).toNat) rd)) := by
  unfold FmtSpec.nearestBits flog2
  simp only [hrn, if_false]


theorem mAt_eq (rn rd : Nat) (hrd : 0 < rd) (q : Int) (k : Nat) (h : |(rn : ℚ) / rd / 2 ^ q - k| < 1 / 2) :
    (if 0 ≤ q then FmtSpec.roundHalfEven rn (rd * 2 ^ q.toNat) else FmtSpec.roundHalfEven (rn * 2 ^ (-q).toNat) rd) = k := by
  have hrdq : (0 : ℚ) < rd := by exact_mod_cast hrd
  by_cases hq : 0 ≤ q
  · obtain ⟨n, rfl⟩ := Int.eq_ofNat_of_zero_le hq
    rw [if_pos hq, Int.toNat_natCast]
    apply rhe_unique _ _ _ (Nat.mul_pos hrd (Nat.pow_pos (by decide)))
    rw [zpow_natCast] at h
    have : ((rn : ℚ) / ((rd * 2 ^ n : Nat) : ℚ)) = (rn : ℚ) / rd / 2 ^ n := by push_cast; rw [div_div]
    rw [this]; exact h
  · obtain ⟨n, hn⟩ : ∃ n : Nat, q = -(n : Int) := ⟨(-q).toNat, by omega⟩
    subst hn
    rw [if_neg hq, neg_neg, Int.toNat_natCast]
    apply rhe_unique _ _ _ hrd
    rw [zpow_neg, zpow_natCast, div_inv_eq_mul] at h
    have : (((rn * 2 ^ n : Nat) : ℚ) / rd) = (rn : ℚ) / rd * 2 ^ n := by push_cast; ring
    rw [this]; exact h

/-- **`nearestBits` finds the pattern `(e1, M)`** (biased exponent field `e1 ≥ 1` read as in IEEE 754, integer
significand `M`, value `M·2^(e1 - bias - mb)`) whenever the rational lies strictly inside its rounding interval:
half an ulp on both sides, a quarter below when `M` is the power of two at the bottom of a binade above the lowest -/
theorem nearestBits_eq (mb eb : Nat) (neg : Bool) (rn rd : Nat) (hrn : 0 < rn) (hrd : 0 < rd)
    (e1 M : Nat) (heb : 1 ≤ eb) (he1 : 1 ≤ e1) (he1' : e1 + 2 ≤ 2 ^ eb) (hM : M < 2 ^ (mb + 1))
    (hnorm : 1 < e1 → 2 ^ mb ≤ M) (hsub : e1 = 1 ∨ 2 ^ mb ≤ M)
    (H1l : ((2 * M : ℚ) - 1) * 2 ^ ((e1 : Int) - ((2 : Int) ^ (eb - 1) - 1) - mb - 1) < (rn : ℚ) / rd)
    (H1u : (rn : ℚ) / rd < (2 * M + 1) * 2 ^ ((e1 : Int) - ((2 : Int) ^ (eb - 1) - 1) - mb - 1))
    (H2 : M = 2 ^ mb → 1 < e1 →
      ((4 * M : ℚ) - 1) * 2 ^ ((e1 : Int) - ((2 : Int) ^ (eb - 1) - 1) - mb - 2) < (rn : ℚ) / rd) :
    FmtSpec.nearestBits mb eb neg rn rd = (if neg then 2 ^ (mb + eb) else 0) + ((e1 - 1) * 2 ^ mb + M) := by
  rw [nearestBits_unfold mb eb neg rn rd (by omega)]
  obtain ⟨hlo, hhi⟩ := flog2_spec rn rd hrn hrd
  generalize flog2 rn rd = e at *
  generalize hbias : (2 : Int) ^ (eb - 1) - 1 = bias at *
  generalize hr : (rn : ℚ) / rd = r at *
  have h2 : (1 : ℚ) < 2 := by norm_num
  have hMq : (M : ℚ) < 2 ^ (mb + 1) := by exact_mod_cast hM
  have hmbz : ((2 : ℚ) ^ (mb : Int)) = 2 ^ mb := zpow_natCast 2 mb
  -- the binade of r
  have hup : r < 2 ^ ((e1 : Int) - bias + 1) := by
    calc r < (2 * M + 1) * 2 ^ ((e1 : Int) - bias - mb - 1) := H1u
      _ ≤ (2 * 2 ^ (mb + 1)) * 2 ^ ((e1 : Int) - bias - mb - 1) := by
          apply mul_le_mul_of_nonneg_right _ (by positivity)
          have : (M : ℚ) + 1 ≤ 2 ^ (mb + 1) := by exact_mod_cast hM
          linarith
      _ = 2 ^ ((e1 : Int) - bias + 1) := by
          rw [show (2 : ℚ) * 2 ^ (mb + 1) = 2 ^ ((mb : Int) + 2) by
            rw [zpow_add₀ (by norm_num), hmbz]; ring, ← zpow_add₀ (by norm_num)]
          congr 1; ring
  have he_le : e ≤ (e1 : Int) - bias := by
    have : (2 : ℚ) ^ e < 2 ^ ((e1 : Int) - bias + 1) := lt_of_le_of_lt hlo hup
    have := (zpow_lt_zpow_iff_right₀ h2).mp this
    omega
  have hbias0 : 0 ≤ bias := by
    rw [← hbias]
    have : (1 : Int) ≤ 2 ^ (eb - 1) := one_le_pow₀ (by norm_num)
    omega
  have hlow2 : 1 < e1 → (e1 : Int) - bias - 1 ≤ e := by
    intro h1
    have hMn := hnorm h1
    have hMnq : (2 : ℚ) ^ mb ≤ M := by exact_mod_cast hMn
    have h2mb : (1 : ℚ) ≤ 2 ^ mb := one_le_pow₀ (by norm_num)
    have : (2 : ℚ) ^ ((e1 : Int) - bias - 1) < 2 ^ (e + 1) := by
      calc (2 : ℚ) ^ ((e1 : Int) - bias - 1) = 2 ^ mb * 2 ^ ((e1 : Int) - bias - mb - 1) := by
            rw [← hmbz, ← zpow_add₀ (by norm_num)]; congr 1; ring
        _ ≤ ((2 * M : ℚ) - 1) * 2 ^ ((e1 : Int) - bias - mb - 1) := by
            apply mul_le_mul_of_nonneg_right _ (by positivity); linarith
        _ < r := H1l
        _ < 2 ^ (e + 1) := hhi
    have := (zpow_lt_zpow_iff_right₀ h2).mp this
    omega
  have key : (if e < 1 - bias then 1 - bias else e) = (e1 : Int) - bias ∨
      ((if e < 1 - bias then 1 - bias else e) = (e1 : Int) - bias - 1 ∧ 1 < e1 ∧ r < 2 ^ ((e1 : Int) - bias)) := by
    by_cases h1 : 1 < e1
    · have := hlow2 h1
      have hne : ¬ (e < 1 - bias) := by omega
      rw [if_neg hne]
      by_cases hee : e = (e1 : Int) - bias
      · left; exact hee
      · right
        have heq : e = (e1 : Int) - bias - 1 := by omega
        refine ⟨heq, h1, ?_⟩
        have : e + 1 = (e1 : Int) - bias := by omega
        rw [← this]; exact hhi
    · have h11 : e1 = 1 := by omega
      left
      split <;> omega
  generalize (if e < 1 - bias then 1 - bias else e) = e' at *
  have hfieldlt : (e1 - 1) * 2 ^ mb + M < (2 ^ eb - 1) * 2 ^ mb := by
    have h3 : e1 - 1 + 2 ≤ 2 ^ eb - 1 := by omega
    calc (e1 - 1) * 2 ^ mb + M < (e1 - 1) * 2 ^ mb + 2 * 2 ^ mb := by
          have : 2 ^ (mb + 1) = 2 * 2 ^ mb := by rw [Nat.pow_succ]; ring
          omega
      _ = (e1 - 1 + 2) * 2 ^ mb := by ring
      _ ≤ (2 ^ eb - 1) * 2 ^ mb := Nat.mul_le_mul_right _ h3
  rcases key with hk | ⟨hk, h1, hrlt⟩
  · subst hk
    have hm := mAt_eq rn rd hrd ((e1 : Int) - bias - mb) M (by
      rw [hr, abs_lt]
      have hpos : (0 : ℚ) < 2 ^ ((e1 : Int) - bias - mb) := by positivity
      have hsplit : (2 : ℚ) ^ ((e1 : Int) - bias - mb) = 2 * 2 ^ ((e1 : Int) - bias - mb - 1) := by
        rw [show (e1 : Int) - bias - mb = 1 + ((e1 : Int) - bias - mb - 1) by ring, zpow_add₀ (by norm_num)]; simp
      have hp1 : (0 : ℚ) < 2 ^ ((e1 : Int) - bias - mb - 1) := by positivity
      constructor
      · rw [lt_sub_iff_add_lt, lt_div_iff₀ hpos, hsplit]; nlinarith
      · rw [sub_lt_iff_lt_add, div_lt_iff₀ hpos, hsplit]; nlinarith)
    rw [hm]
    have ht : ((e1 : Int) - bias + bias - 1).toNat = e1 - 1 := by omega
    rw [ht, if_neg (Nat.not_le.mpr hfieldlt)]
  · subst hk
    have hM2 : M = 2 ^ mb := by
      have hMn := hnorm h1
      by_contra hne
      have hgt : 2 ^ mb + 1 ≤ M := by omega
      have hgtq : (2 : ℚ) ^ mb + 1 ≤ M := by exact_mod_cast hgt
      have : r < r := by
        calc r < 2 ^ ((e1 : Int) - bias) := hrlt
          _ = (2 * 2 ^ mb) * 2 ^ ((e1 : Int) - bias - mb - 1) := by
              rw [show (2 : ℚ) * 2 ^ mb = 2 ^ ((mb : Int) + 1) by rw [zpow_add₀ (by norm_num), hmbz]; ring,
                ← zpow_add₀ (by norm_num)]
              congr 1; ring
          _ ≤ ((2 * M : ℚ) - 1) * 2 ^ ((e1 : Int) - bias - mb - 1) := by
              apply mul_le_mul_of_nonneg_right _ (by positivity); linarith
          _ < r := H1l
      exact lt_irrefl _ this
    have H2' := H2 hM2 h1
    have hm := mAt_eq rn rd hrd ((e1 : Int) - bias - 1 - mb) (2 ^ (mb + 1)) (by
      rw [hr, abs_lt]
      have hpos : (0 : ℚ) < 2 ^ ((e1 : Int) - bias - 1 - mb) := by positivity
      have hsplit : (2 : ℚ) ^ ((e1 : Int) - bias - 1 - mb) = 2 * 2 ^ ((e1 : Int) - bias - mb - 2) := by
        rw [show (e1 : Int) - bias - 1 - mb = 1 + ((e1 : Int) - bias - mb - 2) by ring, zpow_add₀ (by norm_num)]; simp
      have hp1 : (0 : ℚ) < 2 ^ ((e1 : Int) - bias - mb - 2) := by positivity
      have hMq2 : (M : ℚ) = 2 ^ mb := by exact_mod_cast hM2
      have hE : (2 : ℚ) ^ ((e1 : Int) - bias) = 2 ^ (mb + 1) * 2 ^ ((e1 : Int) - bias - 1 - mb) := by
        rw [← zpow_natCast, ← zpow_add₀ (by norm_num)]; congr 1; push_cast; ring
      push_cast
      constructor
      · rw [lt_sub_iff_add_lt, lt_div_iff₀ hpos, hsplit]
        rw [hMq2] at H2'
        have : (2 : ℚ) ^ (mb + 1) = 2 * 2 ^ mb := by rw [pow_succ]; ring
        rw [this]; nlinarith
      · rw [sub_lt_iff_lt_add, div_lt_iff₀ hpos]
        rw [hE] at hrlt
        nlinarith)
    rw [hm]
    have ht : ((e1 : Int) - bias - 1 + bias - 1).toNat = e1 - 2 := by omega
    have hfe : (e1 - 2) * 2 ^ mb + 2 ^ (mb + 1) = (e1 - 1) * 2 ^ mb + M := by
      rw [hM2, Nat.pow_succ]
      have : e1 - 1 = (e1 - 2) + 1 := by omega
      rw [this]; ring
    rw [ht, hfe, if_neg (Nat.not_le.mpr hfieldlt)]


/-! ### the decoded value -/

/-- a finite non-zero pattern: field `e1` (1 for subnormals), integer significand `M`, value `M·2^(e1-bias-mb)` -/
theorem decode_fin (mb eb bits : Nat) (hmb : 1 ≤ mb) (heb : 2 ≤ eb)
    (hfin : (bits / 2 ^ mb) % 2 ^ eb ≠ 2 ^ eb - 1) (hnz : (bits / 2 ^ mb) % 2 ^ eb ≠ 0 ∨ bits % 2 ^ mb ≠ 0)
    (hb : bits < 2 ^ (mb + eb + 1)) :
    ∃ (num den e1 M : Nat), FmtSpec.decode mb eb bits = .fin (decide ((bits / 2 ^ (mb + eb)) % 2 = 1)) num den ∧
      e1 = (if (bits / 2 ^ mb) % 2 ^ eb = 0 then 1 else (bits / 2 ^ mb) % 2 ^ eb) ∧
      M = (if (bits / 2 ^ mb) % 2 ^ eb = 0 then bits % 2 ^ mb else 2 ^ mb + bits % 2 ^ mb) ∧
      0 < num ∧ 0 < den ∧ 1 ≤ e1 ∧ e1 + 2 ≤ 2 ^ eb ∧ 0 < M ∧ M < 2 ^ (mb + 1) ∧ (1 < e1 → 2 ^ mb ≤ M) ∧
      (num : ℚ) / den = (M : ℚ) * 2 ^ ((e1 : Int) - ((2 : Int) ^ (eb - 1) - 1) - mb) ∧
      bits = (if decide ((bits / 2 ^ (mb + eb)) % 2 = 1) then 2 ^ (mb + eb) else 0) + ((e1 - 1) * 2 ^ mb + M) ∧
      den ≤ num * 2 ^ (2 ^ (eb - 1) - 1 + mb) := by
  have hf : bits % 2 ^ mb < 2 ^ mb := Nat.mod_lt _ (Nat.two_pow_pos _)
  have he : (bits / 2 ^ mb) % 2 ^ eb < 2 ^ eb := Nat.mod_lt _ (Nat.two_pow_pos _)
  have hrec : bits = (bits / 2 ^ (mb + eb)) * 2 ^ (mb + eb) + ((bits / 2 ^ mb) % 2 ^ eb) * 2 ^ mb + bits % 2 ^ mb := by
    have h1 := Nat.div_add_mod bits (2 ^ mb)
    have h2 := Nat.div_add_mod (bits / 2 ^ mb) (2 ^ eb)
    have h3 : bits / 2 ^ mb / 2 ^ eb = bits / 2 ^ (mb + eb) := by rw [Nat.div_div_eq_div_mul, ← Nat.pow_add]
    rw [h3] at h2
    calc bits = 2 ^ mb * (bits / 2 ^ mb) + bits % 2 ^ mb := h1.symm
      _ = 2 ^ mb * (2 ^ eb * (bits / 2 ^ (mb + eb)) + (bits / 2 ^ mb) % 2 ^ eb) + bits % 2 ^ mb := by rw [h2]
      _ = _ := by rw [Nat.pow_add]; ring
  have hsg : bits / 2 ^ (mb + eb) < 2 := by
    rw [Nat.div_lt_iff_lt_mul (Nat.two_pow_pos _)]
    calc bits < 2 ^ (mb + eb + 1) := hb
      _ = 2 * 2 ^ (mb + eb) := by rw [Nat.pow_succ]; ring
  have hb1 : (1 : Nat) ≤ 2 ^ (eb - 1) := Nat.one_le_two_pow
  have h2eb : 2 ^ eb = 2 * 2 ^ (eb - 1) := by
    rw [show eb = (eb - 1) + 1 by omega, Nat.pow_succ]; simp; ring
  have hbiasc : ((2 : Int) ^ (eb - 1) - 1) = ((2 ^ (eb - 1) - 1 : Nat) : Int) := by
    rw [Nat.cast_sub hb1]; push_cast; ring
  have h2ge : 2 ≤ 2 ^ (eb - 1) := by
    calc 2 = 2 ^ 1 := rfl
      _ ≤ 2 ^ (eb - 1) := Nat.pow_le_pow_right (by decide) (by omega)
  unfold FmtSpec.decode
  simp only [hfin, if_false]
  generalize hE : (bits / 2 ^ mb) % 2 ^ eb = e at *
  generalize hF : bits % 2 ^ mb = f at *
  generalize hS : bits / 2 ^ (mb + eb) = sg at *
  generalize hB : 2 ^ (eb - 1) - 1 = bias at *
  have hB1 : 1 ≤ bias := by omega
  have hsign : (if decide (sg % 2 = 1) then 2 ^ (mb + eb) else 0) = sg * 2 ^ (mb + eb) := by
    have : sg = 0 ∨ sg = 1 := by omega
    rcases this with h | h <;> simp [h]
  have hmbz : ((2 : ℚ) ^ (mb : Int)) = 2 ^ mb := zpow_natCast 2 mb
  by_cases he0 : e = 0
  · subst he0
    have hf0 : f ≠ 0 := by omega
    simp only [if_true]
    have h1 : ¬ (bias + mb ≤ 1) := by omega
    rw [if_neg h1]
    refine ⟨f, 2 ^ (bias + mb - 1), 1, f, rfl, by simp, by simp, by omega, Nat.two_pow_pos _, by omega, by omega, by omega,
      by rw [Nat.pow_succ]; omega, by omega, ?_, ?_, ?_⟩
    · rw [hbiasc]
      push_cast
      rw [div_eq_mul_inv, ← zpow_natCast, ← zpow_neg]
      congr 2
      have : ((bias + mb - 1 : Nat) : Int) = (bias : Int) + mb - 1 := by omega
      rw [this]; ring
    · rw [hsign]; omega
    · calc 2 ^ (bias + mb - 1) ≤ 2 ^ (bias + mb) := Nat.pow_le_pow_right (by decide) (by omega)
        _ ≤ f * 2 ^ (bias + mb) := Nat.le_mul_of_pos_left _ (by omega)
  · simp only [he0, if_false]
    by_cases hbig : bias + mb ≤ e
    · rw [if_pos hbig]
      refine ⟨(2 ^ mb + f) * 2 ^ (e - (bias + mb)), 1, e, 2 ^ mb + f, rfl, by simp [he0], by simp [he0],
        Nat.mul_pos (by omega) (Nat.two_pow_pos _), by decide, by omega, by omega, by omega,
        by rw [Nat.pow_succ]; omega, fun _ => Nat.le_add_right _ _, ?_, ?_, ?_⟩
      · rw [hbiasc]
        push_cast
        rw [div_one, ← zpow_natCast (2 : ℚ) (e - (bias + mb))]
        congr 2
        omega
      · rw [hsign]
        have : (e - 1) * 2 ^ mb + (2 ^ mb + f) = e * 2 ^ mb + f := by
          have : e = (e - 1) + 1 := by omega
          conv_rhs => rw [this]
          ring
        omega
      · exact Nat.mul_pos (Nat.mul_pos (by omega) (Nat.two_pow_pos _)) (Nat.two_pow_pos _)
    · rw [if_neg hbig]
      refine ⟨2 ^ mb + f, 2 ^ (bias + mb - e), e, 2 ^ mb + f, rfl, by simp [he0], by simp [he0], by omega, Nat.two_pow_pos _, by omega, by omega,
        by omega, by rw [Nat.pow_succ]; omega, fun _ => Nat.le_add_right _ _, ?_, ?_, ?_⟩
      · rw [hbiasc]
        push_cast
        rw [div_eq_mul_inv, ← zpow_natCast (2 : ℚ) (bias + mb - e), ← zpow_neg]
        congr 2
        have : ((bias + mb - e : Nat) : Int) = (bias : Int) + mb - e := by omega
        rw [this]; ring
      · rw [hsign]
        have : (e - 1) * 2 ^ mb + (2 ^ mb + f) = e * 2 ^ mb + f := by
          have : e = (e - 1) + 1 := by omega
          conv_rhs => rw [this]
          ring
        omega
      · calc 2 ^ (bias + mb - e) ≤ 2 ^ (bias + mb) := Nat.pow_le_pow_right (by decide) (by omega)
          _ ≤ (2 ^ mb + f) * 2 ^ (bias + mb) := Nat.le_mul_of_pos_left _ (by omega)


/-! ### the decimal exponent and the scaled rounding of the reference -/

theorem floorLog10_spec (num den : Nat) (hnum : 0 < num) (hden : 0 < den) (hsmall : den ≤ num * 10 ^ 1199) :
    (10 : ℚ) ^ (FmtSpec.floorLog10 num den) ≤ (num : ℚ) / den ∧
    (num : ℚ) / den < 10 ^ (FmtSpec.floorLog10 num den + 1) := by
  have hdq : (0 : ℚ) < den := by exact_mod_cast hden
  unfold FmtSpec.floorLog10
  by_cases hge : den ≤ num
  · rw [if_pos hge]
    have hn1 : 1 ≤ num / den := Nat.div_pos hge hden
    have hLpos : 0 < (D (num / den)).length := List.length_pos_iff.mpr (D_ne_nil _)
    have hlow : 10 ^ ((D (num / den)).length - 1) ≤ num / den := by
      by_cases h1 : (D (num / den)).length = 1
      · rw [h1]; exact hn1
      · exact pow_le_of_len (by omega) (by omega)
    have hhigh : num / den < 10 ^ (D (num / den)).length := (D_length_le_iff hLpos).mp (Nat.le_refl _)
    have h1 : (num / den) * den ≤ num := Nat.div_mul_le_self _ _
    have h2 : num < (num / den + 1) * den := by rw [Nat.mul_comm]; exact Nat.lt_mul_div_succ _ hden
    have h1q : ((num / den : Nat) : ℚ) ≤ (num : ℚ) / den := by
      rw [le_div_iff₀ hdq]; exact_mod_cast h1
    have h2q : (num : ℚ) / den < ((num / den : Nat) : ℚ) + 1 := by
      rw [div_lt_iff₀ hdq]; exact_mod_cast h2
    show (10 : ℚ) ^ (((D (num / den)).length - 1 : Nat) : Int) ≤ _ ∧ _ < (10 : ℚ) ^ ((((D (num / den)).length - 1 : Nat) : Int) + 1)
    have e1 : ((((D (num / den)).length - 1 : Nat) : Int) + 1) = (((D (num / den)).length : Nat) : Int) := by omega
    rw [e1, zpow_natCast, zpow_natCast]
    constructor
    · calc (10 : ℚ) ^ ((D (num / den)).length - 1) ≤ ((num / den : Nat) : ℚ) := by exact_mod_cast hlow
        _ ≤ _ := h1q
    · calc (num : ℚ) / den < ((num / den : Nat) : ℚ) + 1 := h2q
        _ ≤ (10 : ℚ) ^ (D (num / den)).length := by exact_mod_cast hhigh
  · rw [if_neg hge]
    have hex : ∃ k, 1 ≤ k ∧ den ≤ num * 10 ^ k := ⟨1199, by decide, hsmall⟩
    have hK := Nat.find_spec hex
    have hKle : Nat.find hex ≤ 1199 := Nat.find_min' hex ⟨by decide, hsmall⟩
    have hmin : ∀ k, 1 ≤ k → k < Nat.find hex → ¬ den ≤ num * 10 ^ k := by
      intro k hk1 hk2 hc
      exact Nat.find_min hex hk2 ⟨hk1, hc⟩
    rw [firstScale_eq 1200 1 (Nat.find hex) hK.1 (by omega) hK.2 hmin]
    generalize Nat.find hex = K at *
    constructor
    · rw [zpow_neg, zpow_natCast, le_div_iff₀ hdq, inv_mul_le_iff₀ (by positivity)]
      have : ((den : Nat) : ℚ) ≤ ((num * 10 ^ K : Nat) : ℚ) := by exact_mod_cast hK.2
      push_cast at this; linarith
    · by_cases hK1 : K = 1
      · subst hK1
        simp only [Nat.cast_one, neg_add_cancel, zpow_zero]
        rw [div_lt_one hdq]; exact_mod_cast (Nat.lt_of_not_le hge)
      · have hlt : num * 10 ^ (K - 1) < den := Nat.lt_of_not_le (hmin (K - 1) (by omega) (by omega))
        have e1 : (-(K : Int) + 1) = -((K - 1 : Nat) : Int) := by omega
        rw [e1, zpow_neg, zpow_natCast, div_lt_iff₀ hdq, lt_inv_mul_iff₀ (by positivity)]
        have : ((num * 10 ^ (K - 1) : Nat) : ℚ) < den := by exact_mod_cast hlt
        push_cast at this; linarith

theorem scaleRound_close (num den : Nat) (hden : 0 < den) (k : Int) :
    |((FmtSpec.scaleRound num den k : Nat) : ℚ) - (num : ℚ) / den * 10 ^ k| ≤ 1 / 2 := by
  have hdq : (0 : ℚ) < den := by exact_mod_cast hden
  unfold FmtSpec.scaleRound
  by_cases hk : 0 ≤ k
  · obtain ⟨n, rfl⟩ := Int.eq_ofNat_of_zero_le hk
    rw [if_pos hk, Int.toNat_natCast]
    have := rhe_close (num * 10 ^ n) den hden
    rw [zpow_natCast]
    have e : ((num * 10 ^ n : Nat) : ℚ) / den = (num : ℚ) / den * 10 ^ n := by push_cast; ring
    rw [e] at this; exact this
  · obtain ⟨n, hn⟩ : ∃ n : Nat, k = -(n : Int) := ⟨(-k).toNat, by omega⟩
    subst hn
    rw [if_neg hk, neg_neg, Int.toNat_natCast]
    have := rhe_close num (den * 10 ^ n) (Nat.mul_pos hden (Nat.pow_pos (by decide)))
    rw [zpow_neg, zpow_natCast]
    have e : (num : ℚ) / ((den * 10 ^ n : Nat) : ℚ) = (num : ℚ) / den * (10 ^ n)⁻¹ := by
      push_cast; rw [div_mul_eq_div_div]; ring
    rw [e] at this; exact this


/-! ### the shape and value of `%f` texts after zero stripping -/

/-- `stripFraction (fixedText r q)`: the integer part, then nothing or a point and digits; the value is `r / 10^q` -/
theorem strip_fixedText_shape (r q : Nat) :
    ∃ fp : List Nat, (∀ c ∈ fp, FmtSpec.isDigit c = true) ∧
      FmtSpec.stripFraction (fixedText r q) = D (r / 10 ^ q) ++ (if fp = [] then [] else 46 :: fp) ∧
      ((FmtSpec.digitsValue (D (r / 10 ^ q) ++ fp) : Nat) : ℚ) / 10 ^ fp.length = (r : ℚ) / 10 ^ q := by
  have hdm := Nat.div_add_mod r (10 ^ q)
  have h10 : (0 : ℚ) < 10 ^ q := by positivity
  by_cases hc : r % 10 ^ q = 0
  · refine ⟨[], by simp, ?_, ?_⟩
    · unfold fixedText
      rw [hc, Dk_zero, stripFraction_int]; simp
    · rw [List.append_nil, digitsValue_D]
      simp only [List.length_nil, pow_zero, div_one]
      rw [eq_div_iff (ne_of_gt h10)]
      have : r = 10 ^ q * (r / 10 ^ q) := by omega
      have hq : ((r : Nat) : ℚ) = ((10 ^ q * (r / 10 ^ q) : Nat) : ℚ) := by rw [← this]
      rw [hq]; push_cast; ring
  · have hq0 : q ≠ 0 := by
      intro h; subst h; simp [Nat.mod_one] at hc
    have hcpos : 0 < r % 10 ^ q := by omega
    have hclt : r % 10 ^ q < 10 ^ q := Nat.mod_lt _ (Nat.pow_pos (by decide))
    obtain ⟨c', t, hct, hc10⟩ := trailing_zeros _ hcpos
    have hc'pos : 0 < c' := by
      by_contra h0
      have : c' = 0 := by omega
      subst this; simp at hc10
    have htq : t < q := by
      by_contra hge
      have h1 : 10 ^ q ≤ 10 ^ t := Nat.pow_le_pow_right (by decide) (by omega)
      have h2 : 10 ^ t ≤ c' * 10 ^ t := Nat.le_mul_of_pos_left _ hc'pos
      omega
    obtain ⟨k, hk⟩ : ∃ k, q - t = k + 1 := ⟨q - t - 1, by omega⟩
    have hDk : Dk q (r % 10 ^ q) = Dk (k + 1) c' ++ List.replicate t 48 := by
      have := Dk_mul_pow (k + 1) t c'
      rw [show k + 1 + t = q by omega, ← hct] at this
      exact this
    have hc'lt : c' < 10 ^ (k + 1) := by
      by_contra hge
      have h1 : 10 ^ (k + 1) * 10 ^ t ≤ c' * 10 ^ t := Nat.mul_le_mul_right _ (by omega)
      rw [← Nat.pow_add, show k + 1 + t = q by omega] at h1
      omega
    refine ⟨Dk (k + 1) c', isDigit_Dk _ _, ?_, ?_⟩
    · unfold fixedText
      rw [if_neg hq0, hDk, stripFraction_exact _ _ _ _ hc10]
      have : Dk (k + 1) c' ≠ [] := by
        intro h; have := congrArg List.length h; simp [Dk_length] at this
      simp [this]
    · rw [digitsValue_app, digitsValue_D, digitsValue_Dk, Nat.mod_eq_of_lt hc'lt, Dk_length]
      rw [div_eq_div_iff (by positivity) (ne_of_gt h10)]
      have e1 : (10 : ℚ) ^ q = 10 ^ (k + 1) * 10 ^ t := by rw [← pow_add]; congr 1; omega
      have hr : (r : ℚ) = (10 : ℚ) ^ q * ((r / 10 ^ q : Nat) : ℚ) + (c' : ℚ) * 10 ^ t := by
        have : r = 10 ^ q * (r / 10 ^ q) + c' * 10 ^ t := by omega
        have hq : ((r : Nat) : ℚ) = ((10 ^ q * (r / 10 ^ q) + c' * 10 ^ t : Nat) : ℚ) := by rw [← this]
        rw [hq]; push_cast; ring
      push_cast
      rw [hr, e1]; ring

/-- the `%e` significand (digits padded to `P`, point after the first) is the `%f` text of the same integer with
`P - 1` decimals -/
theorem sci_eq_fixedText (d P : Nat) (hP : 0 < P) (hd : d < 10 ^ P) :
    dotAfterFirst (FmtSpec.padLeft P (D d)) = fixedText d (P - 1) := by
  rw [padLeft_D hP hd]
  obtain ⟨k, rfl⟩ : ∃ k, P = k + 1 := ⟨P - 1, by omega⟩
  rw [Nat.add_sub_cancel, Nat.add_comm k 1, Dk_split 1 k d]
  have hy : d / 10 ^ k < 10 := by
    rw [Nat.div_lt_iff_lt_mul (Nat.pow_pos (by decide)), Nat.mul_comm, ← Nat.pow_succ]; exact hd
  have h1 : Dk 1 (d / 10 ^ k) = [48 + d / 10 ^ k] := by simp [Dk, Nat.mod_eq_of_lt hy]
  unfold fixedText
  rw [h1, D_lt10 hy, Dk_mod]
  by_cases hk : k = 0
  · subst hk; simp [Dk, dotAfterFirst]
  · have : Dk k d ≠ [] := by
      intro h; have := congrArg List.length h; simp [Dk_length] at this; exact hk this
    simp [dotAfterFirst, this, hk]


theorem digitsValue_zeros (z : Nat) : FmtSpec.digitsValue (List.replicate z 48) = 0 := by
  induction z with
  | zero => rfl
  | succ z ih => rw [List.replicate_succ', digitsValue_app, ih]; simp [FmtSpec.digitsValue]

theorem D_head_not_minus (n : Nat) (rest : List Nat) : ∀ r, D n ++ rest ≠ 45 :: r := by
  intro r h
  cases hD : D n with
  | nil => exact D_ne_nil n hD
  | cons a t =>
    rw [hD] at h
    have ha := D_mem_range n a (by rw [hD]; simp)
    simp at h; omega

/-- reading a stripped `%f` text: the value is `r / 10^q` -/
theorem read_fixed (neg : Bool) (r q : Nat) :
    ∃ m d : Nat, 0 < d ∧
      FmtSpec.readDecimal (FmtSpec.signed neg (FmtSpec.stripFraction (fixedText r q))) = some (neg, m, d) ∧
      (m : ℚ) / d = (r : ℚ) / 10 ^ q := by
  obtain ⟨fp, hfp, hshape, hval⟩ := strip_fixedText_shape r q
  refine ⟨FmtSpec.digitsValue (D (r / 10 ^ q) ++ fp), 10 ^ fp.length, Nat.pow_pos (by decide), ?_, ?_⟩
  · rw [hshape, readDecimal_signed _ _ (D_head_not_minus _ _),
      readCore_plain neg _ fp (D_ne_nil _) (isDigit_D _) hfp]
  · push_cast; exact hval

/-- reading a stripped `%e` text: significand times the power of ten -/
theorem read_sci (neg : Bool) (r q : Nat) (X : Int) :
    ∃ m d : Nat, 0 < d ∧
      FmtSpec.readDecimal (FmtSpec.signed neg (FmtSpec.stripFraction (fixedText r q) ++ FmtSpec.expText X)) =
        some (neg, m, d) ∧
      (m : ℚ) / d = (r : ℚ) / 10 ^ q * 10 ^ X := by
  obtain ⟨fp, hfp, hshape, hval⟩ := strip_fixedText_shape r q
  have hexp : FmtSpec.expText X = 101 :: (if decide (X < 0) then 45 else 43) :: FmtSpec.padLeft 2 (D X.natAbs) := by
    unfold FmtSpec.expText
    by_cases hx : X < 0 <;> simp [hx, FmtSpec.cE, FmtSpec.cMinus, FmtSpec.cPlus, D]
  have hr0 : FmtSpec.padLeft 2 (D X.natAbs) ≠ [] := by
    unfold FmtSpec.padLeft; simp [D_ne_nil]
  have hrd : ∀ c ∈ FmtSpec.padLeft 2 (D X.natAbs), FmtSpec.isDigit c = true := by
    intro c hc
    unfold FmtSpec.padLeft at hc
    rw [List.mem_append] at hc
    rcases hc with hc | hc
    · simp [FmtSpec.cZero] at hc; rw [hc.2]; decide
    · exact isDigit_D _ c hc
  have hrv : FmtSpec.digitsValue (FmtSpec.padLeft 2 (D X.natAbs)) = X.natAbs := by
    unfold FmtSpec.padLeft
    rw [digitsValue_app, show FmtSpec.cZero = 48 from rfl, digitsValue_zeros, digitsValue_D]; simp
  rw [hshape, hexp, readDecimal_signed _ _ (by rw [List.append_assoc]; exact D_head_not_minus _ _),
    readCore_exp neg _ fp _ (decide (X < 0)) (D_ne_nil _) (isDigit_D _) hfp hr0 hrd, hrv]
  have h10 : (0 : ℚ) < 10 ^ fp.length := by positivity
  by_cases hx : X < 0
  · refine ⟨FmtSpec.digitsValue (D (r / 10 ^ q) ++ fp), 10 ^ fp.length * 10 ^ X.natAbs,
      Nat.mul_pos (Nat.pow_pos (by decide)) (Nat.pow_pos (by decide)), by simp [hx], ?_⟩
    have hX : X = -((X.natAbs : Nat) : Int) := by omega
    rw [← hval]
    conv_rhs => rw [hX, zpow_neg, zpow_natCast]
    push_cast
    rw [div_mul_eq_div_div]
    field_simp
  · refine ⟨FmtSpec.digitsValue (D (r / 10 ^ q) ++ fp) * 10 ^ X.natAbs, 10 ^ fp.length, Nat.pow_pos (by decide),
      by simp [hx], ?_⟩
    have hX : X = ((X.natAbs : Nat) : Int) := by omega
    rw [← hval]
    conv_rhs => rw [hX, zpow_natCast]
    push_cast
    field_simp


/-! ### the value of a `%.{p}g` text -/

theorem scaleRound_nat (num den n : Nat) :
    FmtSpec.scaleRound num den (n : Int) = FmtSpec.roundHalfEven (num * 10 ^ n) den := by
  unfold FmtSpec.scaleRound
  rw [if_pos (Int.natCast_nonneg n), Int.toNat_natCast]

/-- **the `%.{p}g` text reads back as the value rounded to `P` significant digits**: with `x0 = ⌊log10 v⌋` and
`s = P - 1 - x0`, the text denotes `⌊v·10^s⌉ · 10^(-s)` exactly -/
theorem generalBody_value (num den p : Nat) (neg : Bool) (hnum : 0 < num) (hden : 0 < den)
    (hsmall : den ≤ num * 10 ^ 1199) :
    ∃ m d : Nat, 0 < d ∧
      FmtSpec.readDecimal (FmtSpec.signed neg (FmtSpec.generalBody num den p)) = some (neg, m, d) ∧
      (m : ℚ) / d =
        ((FmtSpec.scaleRound num den (((if p = 0 then 1 else p : Nat) : Int) - 1 - FmtSpec.floorLog10 num den) : Nat) : ℚ) *
          10 ^ (-((((if p = 0 then 1 else p : Nat) : Int)) - 1 - FmtSpec.floorLog10 num den)) ∧
      (10 : ℚ) ^ ((if p = 0 then 1 else p) - 1) ≤
        (num : ℚ) / den * 10 ^ ((((if p = 0 then 1 else p : Nat) : Int)) - 1 - FmtSpec.floorLog10 num den) := by
  generalize hP : (if p = 0 then 1 else p) = P at *
  have hPpos : 0 < P := by rw [← hP]; split <;> omega
  have hnd : num ≠ 0 := by omega
  have hdq : (0 : ℚ) < den := by exact_mod_cast hden
  obtain ⟨hlo, hhi⟩ := floorLog10_spec num den hnum hden hsmall
  have hclose := scaleRound_close num den hden ((P : Int) - 1 - FmtSpec.floorLog10 num den)
  generalize hx0 : FmtSpec.floorLog10 num den = x0 at *
  generalize hK0 : FmtSpec.scaleRound num den ((P : Int) - 1 - x0) = K0 at *
  generalize hv : (num : ℚ) / den = v at *
  have h10 : (0 : ℚ) < 10 := by norm_num
  have hs_lo : (10 : ℚ) ^ (P - 1) ≤ v * 10 ^ ((P : Int) - 1 - x0) := by
    calc (10 : ℚ) ^ (P - 1) = 10 ^ x0 * 10 ^ ((P : Int) - 1 - x0) := by
          rw [← zpow_add₀ (by norm_num), ← zpow_natCast]; congr 1; omega
      _ ≤ v * 10 ^ ((P : Int) - 1 - x0) := mul_le_mul_of_nonneg_right hlo (by positivity)
  have hs_hi : v * 10 ^ ((P : Int) - 1 - x0) < 10 ^ P := by
    calc v * 10 ^ ((P : Int) - 1 - x0) < 10 ^ (x0 + 1) * 10 ^ ((P : Int) - 1 - x0) :=
          mul_lt_mul_of_pos_right hhi (by positivity)
      _ = 10 ^ P := by rw [← zpow_add₀ (by norm_num), ← zpow_natCast]; congr 1; omega
  rw [abs_le] at hclose
  have hK0lo : 10 ^ (P - 1) ≤ K0 := by
    have : ((10 ^ (P - 1) : Nat) : ℚ) < (K0 : ℚ) + 1 := by push_cast; linarith
    have : 10 ^ (P - 1) < K0 + 1 := by exact_mod_cast this
    omega
  have hK0hi : K0 ≤ 10 ^ P := by
    have : (K0 : ℚ) < ((10 ^ P : Nat) : ℚ) + 1 := by push_cast; linarith
    have : K0 < 10 ^ P + 1 := by exact_mod_cast this
    omega
  have hsci : FmtSpec.sciDigits num den P = (if K0 = 10 ^ P then (10 ^ (P - 1), x0 + 1) else (K0, x0)) := by
    unfold FmtSpec.sciDigits
    simp only [hx0, hK0]
  have hK0q : (10 : ℚ) ^ (P - 1) ≤ (K0 : ℚ) := by exact_mod_cast hK0lo
  unfold FmtSpec.generalBody
  simp only [hP, hnd, if_false]
  by_cases hc : K0 = 10 ^ P
  · -- the rounding produced a new leading digit
    have hsci' : FmtSpec.sciDigits num den P = (10 ^ (P - 1), x0 + 1) := by rw [hsci, if_pos hc]
    simp only [hsci']
    by_cases hrange : (-4 : Int) ≤ x0 + 1 ∧ x0 + 1 < (P : Int)
    · rw [if_pos hrange, fixedBody_eq_text]
      obtain ⟨q, hq⟩ : ∃ q : Nat, (P : Int) - 1 - (x0 + 1) = (q : Int) := ⟨((P : Int) - 1 - (x0 + 1)).toNat, by omega⟩
      rw [hq, Int.toNat_natCast]
      have hs : (P : Int) - 1 - x0 = ((q + 1 : Nat) : Int) := by omega
      have hdown : FmtSpec.roundHalfEven (num * 10 ^ q) den = 10 ^ (P - 1) := by
        apply roundHalfEven_carry_down hden (Nat.pow_pos (by decide))
        · -- v · 10^q < 10^(P-1)
          have h1 : v * 10 ^ (q : Int) < 10 ^ (P - 1) := by
            calc v * 10 ^ (q : Int) < 10 ^ (x0 + 1) * 10 ^ (q : Int) := mul_lt_mul_of_pos_right hhi (by positivity)
              _ = 10 ^ (P - 1) := by rw [← zpow_add₀ (by norm_num), ← zpow_natCast]; congr 1; omega
          rw [zpow_natCast, ← hv, div_mul_eq_mul_div, div_lt_iff₀ hdq] at h1
          exact_mod_cast h1
        · have : FmtSpec.scaleRound num den ((q + 1 : Nat) : Int) = FmtSpec.roundHalfEven (num * 10 ^ (q + 1)) den :=
            scaleRound_nat _ _ _
          rw [Nat.mul_assoc, ← Nat.pow_succ, ← this, ← hs, hK0, hc, Nat.mul_comm, ← Nat.pow_succ]
          congr 1; omega
      rw [hdown]
      obtain ⟨m, d, hd, hread, hval⟩ := read_fixed neg (10 ^ (P - 1)) q
      refine ⟨m, d, hd, hread, ?_, hs_lo⟩
      rw [hval, hc, hs, zpow_neg, zpow_natCast]
      push_cast
      rw [← div_eq_mul_inv, div_eq_div_iff (by positivity) (by positivity), ← pow_add, ← pow_add]
      congr 1; omega
    · rw [if_neg hrange, sciBody_eq]
      simp only [hnd, if_false, hsci']
      rw [show FmtSpec.digitsOf (10 ^ (P - 1)) = D (10 ^ (P - 1)) from rfl,
        sci_eq_fixedText _ P hPpos (Nat.pow_lt_pow_right (by decide) (by omega))]
      obtain ⟨m, d, hd, hread, hval⟩ := read_sci neg (10 ^ (P - 1)) (P - 1) (x0 + 1)
      refine ⟨m, d, hd, hread, ?_, hs_lo⟩
      rw [hval, hc]
      push_cast
      rw [div_self (by positivity), one_mul, ← zpow_natCast (10 : ℚ) P, ← zpow_add₀ (by norm_num)]
      congr 1; omega
  · have hK0lt : K0 < 10 ^ P := by omega
    have hsci' : FmtSpec.sciDigits num den P = (K0, x0) := by rw [hsci, if_neg hc]
    simp only [hsci']
    by_cases hrange : (-4 : Int) ≤ x0 ∧ x0 < (P : Int)
    · rw [if_pos hrange, fixedBody_eq_text]
      obtain ⟨q, hq⟩ : ∃ q : Nat, (P : Int) - 1 - x0 = (q : Int) := ⟨((P : Int) - 1 - x0).toNat, by omega⟩
      rw [hq, Int.toNat_natCast]
      have hKq : FmtSpec.roundHalfEven (num * 10 ^ q) den = K0 := by
        rw [← hK0, hq, scaleRound_nat]
      rw [hKq]
      obtain ⟨m, d, hd, hread, hval⟩ := read_fixed neg K0 q
      refine ⟨m, d, hd, hread, ?_, by rw [← hq]; exact hs_lo⟩
      rw [hval, zpow_neg, zpow_natCast, div_eq_mul_inv]
    · rw [if_neg hrange, sciBody_eq]
      simp only [hnd, if_false, hsci']
      rw [show FmtSpec.digitsOf K0 = D K0 from rfl, sci_eq_fixedText _ P hPpos hK0lt]
      obtain ⟨m, d, hd, hread, hval⟩ := read_sci neg K0 (P - 1) x0
      refine ⟨m, d, hd, hread, ?_, hs_lo⟩
      rw [hval, div_mul_eq_mul_div, div_eq_mul_inv, mul_assoc, ← zpow_natCast, ← zpow_neg, ← zpow_add₀ (by norm_num)]
      congr 2; omega


/-! ### `P` correctly rounded significant digits identify the value -/

/-- **A finite non-zero value of a binary format with `mb` stored significand bits, printed with `%.{p}g` where
`2^(mb+1) < 10^(P-1)`, reads back (exactly, then round-to-nearest-even) as the same bit pattern.** -/
theorem readBits_format (mb eb p bits : Nat) (hmb : 1 ≤ mb) (heb : 2 ≤ eb)
    (hdig : 2 ^ (mb + 1) < 10 ^ ((if p = 0 then 1 else p) - 1))
    (hrange : 2 ^ (2 ^ (eb - 1) - 1 + mb) ≤ 10 ^ 1199)
    (hb : bits < 2 ^ (mb + eb + 1))
    (hfin : (bits / 2 ^ mb) % 2 ^ eb ≠ 2 ^ eb - 1) (hnz : (bits / 2 ^ mb) % 2 ^ eb ≠ 0 ∨ bits % 2 ^ mb ≠ 0) :
    FmtSpec.readBits mb eb (FmtSpec.formatVal (FmtSpec.decode mb eb bits) p .default) = some bits := by
  obtain ⟨num, den, e1, M, hdec, _, _, hnum, hden, he1, he1', hM0, hM, hnorm, hv, hbits, hdb⟩ :=
    decode_fin mb eb bits hmb heb hfin hnz hb
  have hsmall : den ≤ num * 10 ^ 1199 := le_trans hdb (Nat.mul_le_mul_left _ hrange)
  generalize hneg : decide ((bits / 2 ^ (mb + eb)) % 2 = 1) = neg at *
  obtain ⟨m, d, hd, hread, hval, hslo⟩ := generalBody_value num den p neg hnum hden hsmall
  clear hsmall hrange hdb
  have hclose := scaleRound_close num den hden (((if p = 0 then 1 else p : Nat) : Int) - 1 - FmtSpec.floorLog10 num den)
  generalize hP : (if p = 0 then 1 else p) = P at *
  generalize hs : (P : Int) - 1 - FmtSpec.floorLog10 num den = s at *
  generalize hK0 : FmtSpec.scaleRound num den s = K0 at *
  generalize hq0 : (e1 : Int) - ((2 : Int) ^ (eb - 1) - 1) - mb = q0 at *
  generalize hvv : (num : ℚ) / den = v at *
  rw [hdec]
  show FmtSpec.readBits mb eb (FmtSpec.signed neg (FmtSpec.generalBody num den p)) = some bits
  unfold FmtSpec.readBits
  have hne1 : FmtSpec.signed neg (FmtSpec.generalBody num den p) ≠ FmtSpec.inf := by
    intro h; rw [h] at hread
    have : FmtSpec.readDecimal FmtSpec.inf = none := by decide
    rw [this] at hread; cases hread
  have hne2 : FmtSpec.signed neg (FmtSpec.generalBody num den p) ≠ FmtSpec.cMinus :: FmtSpec.inf := by
    intro h; rw [h] at hread
    have : FmtSpec.readDecimal (FmtSpec.cMinus :: FmtSpec.inf) = none := by decide
    rw [this] at hread; cases hread
  rw [if_neg hne1, if_neg hne2, hread]
  simp only []
  -- the numbers
  have hS : (0 : ℚ) < 10 ^ (-s) := by positivity
  have h2q : (0 : ℚ) < 2 ^ q0 := by positivity
  have hMq : (M : ℚ) + 1 ≤ 2 ^ (mb + 1) := by exact_mod_cast hM
  have hM0q : (1 : ℚ) ≤ M := by exact_mod_cast hM0
  have hdigq : (2 : ℚ) ^ (mb + 1) + 1 ≤ 10 ^ (P - 1) := by exact_mod_cast hdig
  have hvS : v = v * 10 ^ s * 10 ^ (-s) := by
    rw [mul_assoc, ← zpow_add₀ (by norm_num)]; simp
  -- the decimal step is smaller than the binary one
  have hstep : 10 ^ (P - 1) * (10 : ℚ) ^ (-s) ≤ v := by
    rw [hvS]; exact mul_le_mul_of_nonneg_right hslo (le_of_lt hS)
  have hSlt : (10 : ℚ) ^ (-s) < 2 ^ q0 := by
    have h1 : (2 : ℚ) ^ (mb + 1) * 10 ^ (-s) < 2 ^ (mb + 1) * 2 ^ q0 := by
      calc (2 : ℚ) ^ (mb + 1) * 10 ^ (-s) < 10 ^ (P - 1) * 10 ^ (-s) := by
            apply mul_lt_mul_of_pos_right _ hS; linarith
        _ ≤ v := hstep
        _ = M * 2 ^ q0 := hv
        _ < 2 ^ (mb + 1) * 2 ^ q0 := by apply mul_lt_mul_of_pos_right _ h2q; linarith
    exact lt_of_mul_lt_mul_left h1 (by positivity)
  rw [abs_le] at hclose
  have hVlo : v - 10 ^ (-s) / 2 ≤ (m : ℚ) / d := by
    rw [hval]
    have : v * 10 ^ s - 1 / 2 ≤ (K0 : ℚ) := by linarith
    calc v - 10 ^ (-s) / 2 = (v * 10 ^ s - 1 / 2) * 10 ^ (-s) := by rw [sub_mul, ← hvS]; ring
      _ ≤ (K0 : ℚ) * 10 ^ (-s) := mul_le_mul_of_nonneg_right this (le_of_lt hS)
  have hVhi : (m : ℚ) / d ≤ v + 10 ^ (-s) / 2 := by
    rw [hval]
    have : (K0 : ℚ) ≤ v * 10 ^ s + 1 / 2 := by linarith
    calc (K0 : ℚ) * 10 ^ (-s) ≤ (v * 10 ^ s + 1 / 2) * 10 ^ (-s) := mul_le_mul_of_nonneg_right this (le_of_lt hS)
      _ = v + 10 ^ (-s) / 2 := by rw [add_mul, ← hvS]; ring
  have hsplit : (2 : ℚ) ^ q0 = 2 * 2 ^ (q0 - 1) := by
    rw [show q0 = 1 + (q0 - 1) by ring, zpow_add₀ (by norm_num)]; simp
  have hsplit2 : (2 : ℚ) ^ (q0 - 1) = 2 * 2 ^ (q0 - 2) := by
    rw [show q0 - 1 = 1 + (q0 - 2) by ring, zpow_add₀ (by norm_num)]; simp
  have hp1 : (0 : ℚ) < 2 ^ (q0 - 1) := by positivity
  have hp2 : (0 : ℚ) < 2 ^ (q0 - 2) := by positivity
  have hmpos : 0 < m := by
    have : (0 : ℚ) < (m : ℚ) / d := by
      have : (0 : ℚ) < v - 10 ^ (-s) / 2 := by rw [hv]; nlinarith
      linarith
    have hdq : (0 : ℚ) < d := by exact_mod_cast hd
    have := (div_pos_iff_of_pos_right hdq).mp this
    exact_mod_cast this
  have hres := nearestBits_eq mb eb neg m d hmpos hd e1 M (by omega) he1 he1' hM hnorm (by
      by_cases h : 1 < e1
      · right; exact hnorm h
      · left; omega)
    (by rw [hq0]; rw [hv] at hVlo; rw [hsplit] at hSlt; nlinarith)
    (by rw [hq0]; rw [hv] at hVhi; rw [hsplit] at hSlt; nlinarith)
    (by
      intro hM2 h1
      rw [hq0]
      have hM2q : (M : ℚ) = 2 ^ mb := by exact_mod_cast hM2
      -- a power of two: the decimal step is less than half the binary one
      have hS2 : (10 : ℚ) ^ (-s) < 2 ^ (q0 - 1) := by
        have h1 : (2 : ℚ) ^ (mb + 1) * 10 ^ (-s) < 2 ^ (mb + 1) * 2 ^ (q0 - 1) := by
          calc (2 : ℚ) ^ (mb + 1) * 10 ^ (-s) < 10 ^ (P - 1) * 10 ^ (-s) := by
                apply mul_lt_mul_of_pos_right _ hS; linarith
            _ ≤ v := hstep
            _ = 2 ^ mb * 2 ^ q0 := by rw [hv, hM2q]
            _ = 2 ^ (mb + 1) * 2 ^ (q0 - 1) := by rw [hsplit, pow_succ]; ring
        exact lt_of_mul_lt_mul_left h1 (by positivity)
      rw [hv, hsplit, hsplit2] at hVlo
      rw [hsplit2] at hS2
      nlinarith)
  rw [hres, ← hbits]


/-- every finite double: `%.17g`, read exactly and rounded to nearest-even, gives back the bits -/
theorem spec_identifies17 (b : Nat) (hb : b < 2 ^ 64) (hfin : (b / 2 ^ 52) % 2 ^ 11 ≠ 2 ^ 11 - 1) :
    FmtSpec.readBits64 (FmtSpec.format64 b 17 .default) = some b := by
  by_cases hnz : (b / 2 ^ 52) % 2 ^ 11 ≠ 0 ∨ b % 2 ^ 52 ≠ 0
  · exact readBits_format 52 11 17 b (by decide) (by decide) (by norm_num)
      (le_trans (Nat.pow_le_pow_right (by decide) (show 2 ^ (11 - 1) - 1 + 52 ≤ 1199 by decide))
        (Nat.pow_le_pow_left (by decide) 1199)) hb hfin hnz
  · simp only [not_or, ne_eq, not_not] at hnz
    have : b = 0 ∨ b = 2 ^ 63 := by omega
    rcases this with rfl | rfl <;> decide +kernel

/-- every finite float: `%.9g` -/
theorem spec_identifies9 (b : Nat) (hb : b < 2 ^ 32) (hfin : (b / 2 ^ 23) % 2 ^ 8 ≠ 2 ^ 8 - 1) :
    FmtSpec.readBits32 (FmtSpec.format32 b 9 .default) = some b := by
  by_cases hnz : (b / 2 ^ 23) % 2 ^ 8 ≠ 0 ∨ b % 2 ^ 23 ≠ 0
  · exact readBits_format 23 8 9 b (by decide) (by decide) (by norm_num)
      (le_trans (Nat.pow_le_pow_right (by decide) (show 2 ^ (8 - 1) - 1 + 23 ≤ 1199 by decide))
        (Nat.pow_le_pow_left (by decide) 1199)) hb hfin hnz
  · simp only [not_or, ne_eq, not_not] at hnz
    have : b = 0 ∨ b = 2 ^ 31 := by omega
    rcases this with rfl | rfl <;> decide +kernel

end Qentem.Proofs.Ident
