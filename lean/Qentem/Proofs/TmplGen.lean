import Qentem.Proofs.TmplSvarParse
/-!
# C02 stage 7/8/9 — trees of segments, inline `{if}`s, super variables, `<if>` chains and `<loop>`s: the parse
-/
set_option linter.unusedSectionVars false
set_option linter.unusedVariables false
set_option linter.unnecessarySimpa false
namespace Qentem.Tmpl
open Qentem.Expr (Fault rd ScanCfg VarRef Item Num Val Env RealLike)
open Qentem.Generated.Tmpl

variable {R : Type}

/-! ### trees with loops -/

mutual
inductive GT where
  | segs (l : List Seg)
  | ifc (e : List Nat) (body : GTs) (tail : GTail)
  | loop (S V : List Nat) (body : GTs)
  | iif (e : List Nat) (ts fs : Option (List Seg))
  | svar (path : List Nat) (args : List Seg)
inductive GTs where
  | nil
  | cons (b : GT) (r : GTs)
inductive GTail where
  | fin
  | els (body : GTs)
  | elif (e : List Nat) (body : GTs) (tail : GTail)
end

mutual
def printGT : GT → List Nat
  | .segs l => printSegs l
  | .ifc e body tail => IFOPEN ++ e ++ [34, 62] ++ printGTs body ++ printGTail tail
  | .loop S V body => LOOPW ++ (hdrOf S V ++ ([62] ++ (printGTs body ++ LOOPEND)))
  | .iif e ts fs => printIif e ts fs
  | .svar pa ar => printSvar pa ar
def printGTs : GTs → List Nat
  | .nil => []
  | .cons b r => printGT b ++ printGTs r
def printGTail : GTail → List Nat
  | .fin => IFEND
  | .els body => ELSE ++ printGTs body ++ IFEND
  | .elif e body tail => ELIF ++ e ++ ELIFEND ++ printGTs body ++ printGTail tail
end

mutual
def GT.toTpls : GT → List Tpl
  | .segs l => segsTpl l
  | .ifc e body tail => [.ifc ((some e, gtsTpl body) :: tailBrG tail)]
  | .loop S V body => [.loop S V (gtsTpl body)]
  | .iif e ts fs => [.iif e (ts.map segsTpl) (fs.map segsTpl)]
  | .svar pa ar => [.svar pa (segsTpl ar)]
def gtsTpl : GTs → List Tpl
  | .nil => []
  | .cons b r => b.toTpls ++ gtsTpl r
def tailBrG : GTail → List (Option (List Nat) × List Tpl)
  | .fin => []
  | .els body => [(none, gtsTpl body)]
  | .elif e body tail => (some e, gtsTpl body) :: tailBrG tail
end

mutual
theorem printGT_eq : ∀ (b : GT), printList b.toTpls = printGT b
  | .segs l => by simp only [GT.toTpls, printGT]; exact printSegs_eq l
  | .ifc e body tail => by
    have h1 : str "<if case=\"" = IFOPEN := by rfl
    have h2 : str "\">" = [34, 62] := by rfl
    simp only [GT.toTpls, printGT, printList, printTpl, printBranches, if_true, h1, h2, printGTs_eq body,
      printGTail_eq tail, List.append_nil, List.append_assoc]
  | .loop S V body => by
    simp only [GT.toTpls, printGT, printList, printTpl, printGTs_eq body, hdrOf, List.append_nil]
    cases S <;> simp [str, LOOPW, LOOPEND, List.append_assoc]
  | .iif e ts fs => by
    cases ts <;> cases fs <;>
      simp [GT.toTpls, printGT, printList, printTpl, printIif, attrText, IIF1, TRUEA, FALSEA, str, printSegs_eq,
        List.append_assoc]
  | .svar pa ar => by
    simp only [GT.toTpls, printGT, printList, printTpl, printArgs_segs, printSvar, SVAR1]
    simp [str, List.append_assoc]
theorem printGTs_eq : ∀ (bs : GTs), printList (gtsTpl bs) = printGTs bs
  | .nil => rfl
  | .cons b r => by simp only [gtsTpl, printGTs, printList_append, printGT_eq b, printGTs_eq r]
theorem printGTail_eq : ∀ (t : GTail), printBranches false (tailBrG t) ++ str "</if>" = printGTail t
  | .fin => by rfl
  | .els body => by
    have h4 : str "<else />" = ELSE := by rfl
    have h3 : str "</if>" = IFEND := by rfl
    simp only [tailBrG, printBranches, printGTail, h4, h3, printGTs_eq body, List.append_nil, List.append_assoc]
  | .elif e body tail => by
    have h1 : str "<elseif case=\"" = ELIF := by rfl
    have h2 : str "\" />" = ELIFEND := by rfl
    simp only [tailBrG, printBranches, printGTail, Bool.false_eq_true, if_false, h1, h2, printGTs_eq body,
      List.append_assoc, printGTail_eq tail]
end

mutual
def GT.ok : GT → Prop
  | .segs l => ∀ s ∈ l, s.ok
  | .ifc e body tail => (∀ x ∈ e, x ≠ 34) ∧ GTs.ok body ∧ GTail.ok tail
  | .loop S V body => HdrOk S V ∧ GTs.ok body
  | .iif e ts fs => MathOk e ∧ (∀ x ∈ e, x ≠ 34) ∧ ValOk ts ∧ ValOk fs ∧ (ts ≠ none ∨ fs ≠ none) ∧
      (printIif e ts fs).length < 65536
  | .svar pa ar => plainL pa ∧ (∀ x ∈ pa, x ≠ 44) ∧ 0 < pa.length ∧ pa.length ≤ 255 ∧
      (∀ a ∈ ar, a.ok ∧ a.isArg) ∧ ar ≠ [] ∧ ar.length ≤ 10
def GTs.ok : GTs → Prop
  | .nil => True
  | .cons b r => GT.ok b ∧ GTs.ok r
def GTail.ok : GTail → Prop
  | .fin => True
  | .els body => GTs.ok body
  | .elif e body tail => (∀ x ∈ e, x ≠ 34) ∧ GTs.ok body ∧ GTail.ok tail
end

mutual
/-- number of `step`s of the main loop -/
def costGT : GT → Nat
  | .segs l => nTags l
  | .ifc _ body tail => 1 + costGTs body + costGTail tail
  | .loop _ _ body => 1 + costGTs body + 1
  | .iif _ ts fs => 2 + nTagsVal ts + nTagsVal fs
  | .svar _ ar => 2 + nTags (argSegs ar)
def costGTs : GTs → Nat
  | .nil => 0
  | .cons b r => costGT b + costGTs r
def costGTail : GTail → Nat
  | .fin => 1
  | .els body => 1 + costGTs body + 1
  | .elif _ body tail => 1 + costGTs body + costGTail tail
end

mutual
def tagsGT (cfg : ScanCfg R) (c : List Nat) (D : List LoopD) (dep : Nat) (p : Nat) : GT → List (Tag R)
  | .segs l => tagsOfD cfg c D p l
  | .ifc e body tail =>
    [.ifT (.mk (itemsAtC cfg c (refsD D) (p + 10) (p + 10 + e.length)) (tagsGTs cfg c D (dep + 1) (p + 12 + e.length) body)
        (p + 12 + e.length) (p + 12 + e.length + (printGTs body).length) ::
      casesG cfg c D (dep + 1) (p + 12 + e.length + (printGTs body).length) tail) p
      (p + 12 + e.length + (printGTs body).length + (printGTail tail).length)]
  | .loop S V body =>
    [.loop (tagsGTs cfg c (⟨p + voOf S, V, trunc bits_LoopTag_Level dep⟩ :: D) (dep + 1)
        (p + 6 + (hdrOf S V).length) body)
      { loopFG D p (trunc bits_LoopTag_Level dep) S V with
        endOff := p + 6 + (hdrOf S V).length + (printGTs body).length }]
  | .iif e ts fs => [iifTag cfg c D p e ts fs]
  | .svar pa ar => [svarTag cfg c D p pa ar]
def tagsGTs (cfg : ScanCfg R) (c : List Nat) (D : List LoopD) (dep : Nat) (p : Nat) : GTs → List (Tag R)
  | .nil => []
  | .cons b r => tagsGT cfg c D dep p b ++ tagsGTs cfg c D dep (p + (printGT b).length) r
def casesG (cfg : ScanCfg R) (c : List Nat) (D : List LoopD) (dep : Nat) (q : Nat) : GTail → List (IfCase R)
  | .fin => []
  | .els body => [.mk [] (tagsGTs cfg c D dep (q + 8) body) (q + 8) (q + 8 + (printGTs body).length)]
  | .elif e body tail =>
    .mk (itemsAtC cfg c (refsD D) (q + 14) (q + 14 + e.length)) (tagsGTs cfg c D dep (q + 18 + e.length) body)
      (q + 18 + e.length) (q + 18 + e.length + (printGTs body).length) ::
    casesG cfg c D dep (q + 18 + e.length + (printGTs body).length) tail
end

theorem printGTail_pos (t : GTail) : 5 ≤ (printGTail t).length := by
  cases t <;> simp [printGTail, IFEND, ELSE, ELIF, ELIFEND] <;> omega


/-! ### parse of a tree (any chain, any stack) -/

mutual
theorem parse_gt (cfg : ScanCfg R) (c : List Nat) (hn : c.length + 16 < 4294967296) :
    ∀ (b : GT) (D : List LoopD) (stk : List (Frame R)) (pre post : List Nat) (acc : List (Tag R)) (fuel o m o' m' : Nat),
      c = pre ++ (printGT b ++ post) → b.ok → ChainD c D →
      next c pre.length = .ok (o, m) → next c (pre.length + (printGT b).length) = .ok (o', m') →
      parseMain cfg c (fuel + costGT b) (stAtL (refsD D) stk acc o m) =
        parseMain cfg c fuel (stAtL (refsD D) stk (acc ++ tagsGT cfg c D stk.length pre.length b) o' m')
  | .segs l, D, stk, pre, post, acc, fuel, o, m, o', m', hc, hok, hD, hnext, hfin => by
    simp only [printGT] at hc hfin
    simp only [GT.ok] at hok
    simp only [costGT, tagsGT]
    exact parseMain_segsL cfg c hn D hD stk post l pre acc fuel o m o' m' hc hok hnext hfin
  | .ifc e body tail, D, stk, pre, post, acc, fuel, o, m, o', m', hc, hok, hD, hnext, hfin => by
    simp only [GT.ok] at hok
    obtain ⟨hq34, hbody, htail⟩ := hok
    simp only [printGT] at hc hfin
    have htp := printGTail_pos tail
    have hc1 : c = pre ++ (IFOPEN ++ e ++ [34, 62] ++ (printGTs body ++ printGTail tail ++ post)) := by
      rw [hc]; simp [List.append_assoc]
    have ht := ifText_of c pre e _ hc1
    have g := fun i (hi : i < 10) => ht.open_ i hi
    have hat : next c pre.length = .ok (pre.length + 3, 9) :=
      next_at_if c pre.length hn (g 0 (by omega)) (g 1 (by omega)) (g 2 (by omega)) (g 4 (by omega)) (g 6 (by omega))
    rw [hat] at hnext
    simp only [Except.ok.injEq, Prod.mk.injEq] at hnext
    obtain ⟨rfl, rfl⟩ := hnext
    obtain ⟨items', hex0⟩ := Qentem.Expr.parseTop_total
      ({ cfg with loopVar := loopVarPure c (refsD D) } : ScanCfg R) c (pre.length + 10) (pre.length + 10 + e.length)
      (by have := ht.len; omega)
    have hex : exprs cfg c (refsD D) (pre.length + 10) (pre.length + 10 + e.length) = .ok items' := hex0
    obtain ⟨o1, m1, hn1, _⟩ := next_safe_total c (pre.length + 12 + e.length) ht.len
    have hstep := stepIf_printL cfg c pre e _ (refsD D) hc1 hq34 (by simp only [List.length_append]; omega) stk acc items' hex o1 m1 hn1
    have hl2 : (pre ++ (IFOPEN ++ e ++ [34, 62])).length = pre.length + 12 + e.length := by simp [IFOPEN]; omega
    have hc2 : c = (pre ++ (IFOPEN ++ e ++ [34, 62])) ++ (printGTs body ++ (printGTail tail ++ post)) := by
      rw [hc1]; simp [List.append_assoc]
    have hq_le : pre.length + 12 + e.length + (printGTs body).length ≤ c.length := by
      rw [hc1]; simp [IFOPEN]; omega
    obtain ⟨o2, m2, hn2, _⟩ := next_safe_total c _ hq_le
    have hbody_run := parse_gts cfg c hn body D (.ifT acc [] items' (pre.length + 12 + e.length) pre.length :: stk)
      (pre ++ (IFOPEN ++ e ++ [34, 62])) (printGTail tail ++ post) [] (fuel + costGTail tail) o1 m1 o2 m2
      hc2 hbody hD (by rw [hl2]; exact hn1) (by rw [hl2]; exact hn2)
    rw [hl2] at hbody_run
    simp only [List.nil_append, List.length_cons] at hbody_run
    have hc3 : c = (pre ++ (IFOPEN ++ e ++ [34, 62]) ++ printGTs body) ++ (printGTail tail ++ post) := by
      rw [hc1]; simp [List.append_assoc]
    have hl3 : (pre ++ (IFOPEN ++ e ++ [34, 62]) ++ printGTs body).length = pre.length + 12 + e.length + (printGTs body).length := by
      rw [List.length_append, hl2]
    have htail_run := parse_gtail cfg c hn tail D stk acc [] items' (pre.length + 12 + e.length) pre.length
      (tagsGTs cfg c D (stk.length + 1) (pre.length + 12 + e.length) body) (pre ++ (IFOPEN ++ e ++ [34, 62]) ++ printGTs body) post
      fuel o2 m2 o' m' hc3 htail hD (by rw [hl3]; exact hn2)
      (by rw [hl3, ← hfin]; congr 1; simp [IFOPEN, List.length_append]; omega)
    rw [hl3] at htail_run
    rw [show fuel + costGT (.ifc e body tail) = (fuel + costGTail tail + costGTs body) + 1 by simp only [costGT]; omega]
    have hd9 : step cfg c (stAtL (refsD D) stk acc (pre.length + 3) 9) = stepIf cfg c (stAtL (refsD D) stk acc (pre.length + 3) 9) := by
      simp only [step, stAtL]; rfl
    rw [parseMain_step cfg c _ _ _ (by simp [stAtL]) (hd9.trans hstep), hbody_run, htail_run]
    have hia : itemsAtC cfg c (refsD D) (pre.length + 10) (pre.length + 10 + e.length) = items' := by simp only [itemsAtC, hex]
    simp only [tagsGT, hia, List.nil_append]
  | .loop S V body, D, stk, pre, post, acc, fuel, o, m, o', m', hc, hok, hD, hnext, hfin => by
    simp only [GT.ok] at hok
    obtain ⟨hh, hbody⟩ := hok
    simp only [printGT] at hc hfin
    have hc1 : c = pre ++ (LOOPW ++ (hdrOf S V ++ ([62] ++ (printGTs body ++ (LOOPEND ++ post))))) := by
      rw [hc]; simp [List.append_assoc]
    have gl := fun i (hi : i < 5) => get_mid pre LOOPW (hdrOf S V ++ ([62] ++ (printGTs body ++ (LOOPEND ++ post)))) i
      (by simpa [LOOPW] using hi)
    have hloop : next c pre.length = .ok (pre.length + 5, 7) := by
      apply next_at_loop c _ hn
      · rw [hc1]; exact gl 0 (by omega)
      · rw [hc1]; exact gl 1 (by omega)
      · rw [hc1]; exact gl 2 (by omega)
      · rw [hc1]; exact gl 3 (by omega)
      · rw [hc1]; exact gl 4 (by omega)
    rw [hloop] at hnext
    simp only [Except.ok.injEq, Prod.mk.injEq] at hnext
    obtain ⟨rfl, rfl⟩ := hnext
    have hcl : c.length = pre.length + 6 + (hdrOf S V).length + (printGTs body).length + 7 + post.length := by
      rw [hc1]; simp [LOOPW, LOOPEND]; omega
    obtain ⟨o1, m1, hn1, _⟩ := next_safe_total c (pre.length + 6 + (hdrOf S V).length) (by omega)
    obtain ⟨hstep, hD'⟩ := stepLoop_hdr c pre S V _ hc1 hn hh D hD stk acc o1 m1 hn1
    -- the body
    have hcb : c = (pre ++ (LOOPW ++ (hdrOf S V ++ [62]))) ++ (printGTs body ++ (LOOPEND ++ post)) := by
      rw [hc1]; simp [List.append_assoc]
    have hlb : (pre ++ (LOOPW ++ (hdrOf S V ++ [62]))).length = pre.length + 6 + (hdrOf S V).length := by
      simp [LOOPW]; omega
    have hcq : c = (pre ++ (LOOPW ++ (hdrOf S V ++ ([62] ++ printGTs body)))) ++ (LOOPEND ++ post) := by
      rw [hc1]; simp [List.append_assoc]
    have hlq : (pre ++ (LOOPW ++ (hdrOf S V ++ ([62] ++ printGTs body)))).length =
        pre.length + 6 + (hdrOf S V).length + (printGTs body).length := by
      simp [LOOPW]; omega
    have gq : ∀ i (hi : i < 7), c[pre.length + 6 + (hdrOf S V).length + (printGTs body).length + i]? = LOOPEND[i]? := by
      intro i hi
      have := get_mid (pre ++ (LOOPW ++ (hdrOf S V ++ ([62] ++ printGTs body)))) LOOPEND post i (by simpa [LOOPEND] using hi)
      rw [hlq] at this
      rw [hcq]; exact this
    have hend : next c (pre.length + 6 + (hdrOf S V).length + (printGTs body).length) =
        .ok (pre.length + 6 + (hdrOf S V).length + (printGTs body).length + 7, 8) :=
      next_at_loopend c _ hn (gq 0 (by omega)) (gq 1 (by omega)) (gq 2 (by omega)) (gq 3 (by omega)) (gq 4 (by omega))
        (gq 5 (by omega)) (gq 6 (by omega))
    have hbody_run := parse_gts cfg c hn body (⟨pre.length + voOf S, V, trunc bits_LoopTag_Level stk.length⟩ :: D)
      (.loop acc (loopFG D pre.length (trunc bits_LoopTag_Level stk.length) S V) (refsD D) :: stk)
      (pre ++ (LOOPW ++ (hdrOf S V ++ [62]))) (LOOPEND ++ post) [] (fuel + 1) o1 m1 _ _ hcb hbody hD'
      (by rw [hlb]; exact hn1) (by rw [hlb]; exact hend)
    rw [hlb] at hbody_run
    simp only [List.nil_append, List.length_cons] at hbody_run
    rw [show refsD (⟨pre.length + voOf S, V, trunc bits_LoopTag_Level stk.length⟩ :: D) =
      LoopD.ref ⟨pre.length + voOf S, V, trunc bits_LoopTag_Level stk.length⟩ :: refsD D from rfl] at hbody_run hstep
    have hfin' : next c (pre.length + 6 + (hdrOf S V).length + (printGTs body).length + 7) = .ok (o', m') := by
      rw [← hfin]; congr 1; simp [LOOPW, LOOPEND]; omega
    have hclose := stepLoopEnd_printL c (refsD D) (LoopD.ref ⟨pre.length + voOf S, V, trunc bits_LoopTag_Level stk.length⟩) acc
      (tagsGTs cfg c (⟨pre.length + voOf S, V, trunc bits_LoopTag_Level stk.length⟩ :: D) (stk.length + 1)
        (pre.length + 6 + (hdrOf S V).length) body)
      (loopFG D pre.length (trunc bits_LoopTag_Level stk.length) S V) stk _ o' m' (by simp [loopFG]; omega) hfin'
    have hd7 : step cfg c (stAtL (refsD D) stk acc (pre.length + 5) 7) = stepLoop c (stAtL (refsD D) stk acc (pre.length + 5) 7) := by
      simp only [step, stAtL]; rfl
    have hd8 : ∀ st : PState R, st.mtch = 8 → step cfg c st = stepLoopEnd c st := by
      intro st hst; simp only [step, hst]; first | done | rfl
    rw [show fuel + costGT (.loop S V body) = (fuel + 1 + costGTs body) + 1 by simp only [costGT]; omega]
    rw [parseMain_step cfg c _ _ _ (by simp [stAtL]) (hd7.trans hstep), hbody_run,
      parseMain_step cfg c _ _ _ (by simp [stAtL]) ((hd8 _ rfl).trans hclose)]
    simp [tagsGT]
  | .iif e ts fs, D, stk, pre, post, acc, fuel, o, m, o', m', hc, hok, hD, hnext, hfin => by
    simp only [GT.ok] at hok
    obtain ⟨he, he34, hts, hfs, hone, hsz⟩ := hok
    simp only [printGT] at hc hfin
    have := parse_iif cfg c hn D hD stk e ts fs pre post acc fuel o m o' m' hc he he34 hts hfs hone hsz hnext hfin
    simpa [costGT, tagsGT, stAtL, stAtC] using this
  | .svar pa ar, D, stk, pre, post, acc, fuel, o, m, o', m', hc, hok, hD, hnext, hfin => by
    simp only [GT.ok] at hok
    obtain ⟨hp, hp44, hp0, hp255, hargs, hne, _⟩ := hok
    simp only [printGT] at hc hfin
    have := parse_svar cfg c hn D hD stk pa ar pre post acc fuel o m o' m' hc hp hp44 hp0 hp255
      (fun a ha => (hargs a ha).1) hne hnext hfin
    simpa [costGT, tagsGT, stAtL, stAtC] using this
theorem parse_gts (cfg : ScanCfg R) (c : List Nat) (hn : c.length + 16 < 4294967296) :
    ∀ (bs : GTs) (D : List LoopD) (stk : List (Frame R)) (pre post : List Nat) (acc : List (Tag R)) (fuel o m o' m' : Nat),
      c = pre ++ (printGTs bs ++ post) → bs.ok → ChainD c D →
      next c pre.length = .ok (o, m) → next c (pre.length + (printGTs bs).length) = .ok (o', m') →
      parseMain cfg c (fuel + costGTs bs) (stAtL (refsD D) stk acc o m) =
        parseMain cfg c fuel (stAtL (refsD D) stk (acc ++ tagsGTs cfg c D stk.length pre.length bs) o' m')
  | .nil, D, stk, pre, post, acc, fuel, o, m, o', m', hc, hok, hD, hnext, hfin => by
    simp only [printGTs, List.length_nil, Nat.add_zero] at hfin
    rw [hnext] at hfin
    simp only [Except.ok.injEq, Prod.mk.injEq] at hfin
    obtain ⟨rfl, rfl⟩ := hfin
    simp [costGTs, tagsGTs]
  | .cons b r, D, stk, pre, post, acc, fuel, o, m, o', m', hc, hok, hD, hnext, hfin => by
    simp only [GTs.ok] at hok
    simp only [printGTs] at hc hfin
    have hmid_le : pre.length + (printGT b).length ≤ c.length := by rw [hc]; simp [Nat.add_assoc]
    obtain ⟨o1, m1, hn1, _⟩ := next_safe_total c _ hmid_le
    have h1 := parse_gt cfg c hn b D stk pre (printGTs r ++ post) acc (fuel + costGTs r) o m o1 m1
      (by rw [hc]; simp [List.append_assoc]) hok.1 hD hnext hn1
    have h2 := parse_gts cfg c hn r D stk (pre ++ printGT b) post (acc ++ tagsGT cfg c D stk.length pre.length b) fuel o1 m1 o' m'
      (by rw [hc]; simp [List.append_assoc]) hok.2 hD (by rw [List.length_append]; exact hn1)
      (by rw [← hfin]; congr 1; simp only [List.length_append]; omega)
    rw [show fuel + costGTs (.cons b r) = fuel + costGTs r + costGT b by simp only [costGTs]; omega, h1, h2]
    simp [tagsGTs, List.length_append, List.append_assoc]
theorem parse_gtail (cfg : ScanCfg R) (c : List Nat) (hn : c.length + 16 < 4294967296) :
    ∀ (t : GTail) (D : List LoopD) (stk : List (Frame R)) (accO : List (Tag R)) (done : List (IfCase R)) (cur : List (Item R))
      (curOff p : Nat) (sub : List (Tag R)) (pre post : List Nat) (fuel o m o' m' : Nat),
      c = pre ++ (printGTail t ++ post) → t.ok → ChainD c D →
      next c pre.length = .ok (o, m) → next c (pre.length + (printGTail t).length) = .ok (o', m') →
      parseMain cfg c (fuel + costGTail t) (stAtL (refsD D) (.ifT accO done cur curOff p :: stk) sub o m) =
        parseMain cfg c fuel (stAtL (refsD D) stk (accO ++ [.ifT (done ++ .mk cur sub curOff pre.length ::
          casesG cfg c D (stk.length + 1) pre.length t) p (pre.length + (printGTail t).length)]) o' m')
  | .fin, D, stk, accO, done, cur, curOff, p, sub, pre, post, fuel, o, m, o', m', hc, hok, hD, hnext, hfin => by
    simp only [printGTail] at hc hfin
    have hq : ∀ i (hi : i < 5), c[pre.length + i]? = some (IFEND[i]'(by simp [IFEND]; exact hi)) := by
      intro i hi; rw [hc]; exact get_at pre IFEND post i (by simp [IFEND]; exact hi)
    have hend : next c pre.length = .ok (pre.length + 5, 10) :=
      next_at_ifend c _ hn (hq 0 (by omega)) (hq 1 (by omega)) (hq 2 (by omega)) (hq 3 (by omega)) (hq 4 (by omega))
    rw [hend] at hnext
    simp only [Except.ok.injEq, Prod.mk.injEq] at hnext
    obtain ⟨rfl, rfl⟩ := hnext
    have hfin' : next c (pre.length + 5) = .ok (o', m') := by simpa [IFEND] using hfin
    have hclose := stepIfEnd_printL c (refsD D) stk accO done cur curOff p sub pre.length o' m' hfin'
    have hd10 : step cfg c (stAtL (refsD D) (.ifT accO done cur curOff p :: stk) sub (pre.length + 5) 10) =
        stepIfEnd c (stAtL (refsD D) (.ifT accO done cur curOff p :: stk) sub (pre.length + 5) 10) := by
      simp only [step, stAtL]; rfl
    simp only [costGTail]
    rw [parseMain_step cfg c _ _ _ (by simp [stAtL]) (hd10.trans hclose)]
    simp [casesG, printGTail, IFEND]
  | .els body, D, stk, accO, done, cur, curOff, p, sub, pre, post, fuel, o, m, o', m', hc, hok, hD, hnext, hfin => by
    simp only [GTail.ok] at hok
    simp only [printGTail] at hc hfin
    have hc1 : c = pre ++ (ELSE ++ (printGTs body ++ IFEND ++ post)) := by rw [hc]; simp [List.append_assoc]
    have hel : ∀ i (hi : i < 8), c[pre.length + i]? = some (ELSE[i]'(by simp [ELSE]; exact hi)) := by
      intro i hi; rw [hc1]; exact get_at pre ELSE _ i (by simp [ELSE]; exact hi)
    have helse : next c pre.length = .ok (pre.length + 5, 11) :=
      next_at_else c _ hn (hel 0 (by omega)) (hel 1 (by omega)) (hel 2 (by omega)) (hel 3 (by omega)) (hel 4 (by omega))
        (hel 6 (by omega))
    rw [helse] at hnext
    simp only [Except.ok.injEq, Prod.mk.injEq] at hnext
    obtain ⟨rfl, rfl⟩ := hnext
    have hb_le : pre.length + 8 ≤ c.length := by rw [hc1]; simp [ELSE] <;> omega
    obtain ⟨o3, m3, hn3, _⟩ := next_safe_total c (pre.length + 8) hb_le
    have hels := stepElse_printL cfg c (refsD D) stk accO done cur curOff p sub pre.length o3 m3
      (hel 5 (by omega)) (hel 6 (by omega)) (hel 7 (by omega)) hn3
    have hl4 : (pre ++ ELSE).length = pre.length + 8 := by simp [ELSE]
    have hc4 : c = (pre ++ ELSE) ++ (printGTs body ++ (IFEND ++ post)) := by rw [hc1]; simp [List.append_assoc]
    have hq : ∀ i (hi : i < 5), c[pre.length + 8 + (printGTs body).length + i]? = some (IFEND[i]'(by simp [IFEND]; exact hi)) := by
      intro i hi
      have hc5 : c = (pre ++ ELSE ++ printGTs body) ++ (IFEND ++ post) := by rw [hc1]; simp [List.append_assoc]
      have := get_at (pre ++ ELSE ++ printGTs body) IFEND post i (by simp [IFEND]; exact hi)
      have hl5 : (pre ++ ELSE ++ printGTs body).length = pre.length + 8 + (printGTs body).length := by
        rw [List.length_append, hl4]
      rw [hl5] at this; rw [hc5]; exact this
    have hend : next c (pre.length + 8 + (printGTs body).length) = .ok (pre.length + 8 + (printGTs body).length + 5, 10) :=
      next_at_ifend c _ hn (hq 0 (by omega)) (hq 1 (by omega)) (hq 2 (by omega)) (hq 3 (by omega)) (hq 4 (by omega))
    have hrun := parse_gts cfg c hn body D (.ifT accO (done ++ [.mk cur sub curOff pre.length]) [] (pre.length + 8) p :: stk)
      (pre ++ ELSE) (IFEND ++ post) [] (fuel + 1) o3 m3 _ _ hc4 hok hD (by rw [hl4]; exact hn3) (by rw [hl4]; exact hend)
    rw [hl4] at hrun
    simp only [List.nil_append, List.length_cons] at hrun
    have hlen8 : (ELSE ++ printGTs body ++ IFEND).length = 8 + (printGTs body).length + 5 := by
      simp [ELSE, IFEND] <;> omega
    have hfin' : next c (pre.length + 8 + (printGTs body).length + 5) = .ok (o', m') := by
      rw [← hfin, hlen8]; congr 1; omega
    have hclose := stepIfEnd_printL c (refsD D) stk accO (done ++ [.mk cur sub curOff pre.length]) [] (pre.length + 8) p
      (tagsGTs cfg c D (stk.length + 1) (pre.length + 8) body) (pre.length + 8 + (printGTs body).length) o' m' hfin'
    have hd11 : step cfg c (stAtL (refsD D) (.ifT accO done cur curOff p :: stk) sub (pre.length + 5) 11) =
        stepElse cfg c (stAtL (refsD D) (.ifT accO done cur curOff p :: stk) sub (pre.length + 5) 11) := by
      simp only [step, stAtL]; rfl
    have hd10 : ∀ st : PState R, st.mtch = 10 → step cfg c st = stepIfEnd c st := by
      intro st h; simp only [step, h]; rfl
    rw [show fuel + costGTail (.els body) = (fuel + 1 + costGTs body) + 1 by simp only [costGTail]; omega]
    rw [parseMain_step cfg c _ _ _ (by simp [stAtL]) (hd11.trans hels), hrun,
      parseMain_step cfg c _ _ _ (by simp [stAtL]) ((hd10 _ rfl).trans hclose)]
    have hendp : pre.length + 8 + (printGTs body).length + 5 = pre.length + (printGTail (GTail.els body)).length := by
      simp only [printGTail, hlen8]; omega
    rw [hendp]
    simp only [casesG, List.append_assoc, List.singleton_append]
  | .elif e body tail, D, stk, accO, done, cur, curOff, p, sub, pre, post, fuel, o, m, o', m', hc, hok, hD, hnext, hfin => by
    simp only [GTail.ok] at hok
    obtain ⟨hq34, hbody, htail⟩ := hok
    simp only [printGTail] at hc hfin
    have htp := printGTail_pos tail
    have hc1 : c = pre ++ (ELIF ++ e ++ ELIFEND ++ (printGTs body ++ printGTail tail ++ post)) := by
      rw [hc]; simp [List.append_assoc]
    obtain ⟨g, hct⟩ := elifText_of c pre e _ hc1
    have helse : next c pre.length = .ok (pre.length + 5, 11) :=
      next_at_else' c _ hn (g 0 (by omega)) (g 1 (by omega)) (g 2 (by omega)) (g 3 (by omega)) (g 4 (by omega))
        (by intro x hx; rw [g 6 (by omega)] at hx; cases hx; simp [ELIF])
    rw [helse] at hnext
    simp only [Except.ok.injEq, Prod.mk.injEq] at hnext
    obtain ⟨rfl, rfl⟩ := hnext
    -- the case expression
    have hlt0 : pre.length + 18 + e.length < c.length := by
      rw [hc1]; simp [ELIF, ELIFEND, List.length_append]; omega
    obtain ⟨items2, hex00⟩ := Qentem.Expr.parseTop_total
      ({ cfg with loopVar := loopVarPure c (refsD D) } : ScanCfg R) c (pre.length + 14) (pre.length + 14 + e.length)
      (by omega)
    have hex0 : exprs cfg c (refsD D) (pre.length + 14) (pre.length + 14 + e.length) = .ok items2 := hex00
    have hlt : pre.length + 18 + e.length < c.length := by
      rw [hc1]; simp [ELIF, ELIFEND, List.length_append]; omega
    obtain ⟨o3, m3, hn3, _⟩ := next_safe_total c (pre.length + 18 + e.length) (by omega)
    have hels := stepElif_printL cfg c (refsD D) stk accO done cur curOff p sub pre.length e (g 5 (by omega)) hct hq34 hlt items2 hex0 o3 m3 hn3
    -- the body
    have hl4 : (pre ++ (ELIF ++ e ++ ELIFEND)).length = pre.length + 18 + e.length := by simp [ELIF, ELIFEND]; omega
    have hc4 : c = (pre ++ (ELIF ++ e ++ ELIFEND)) ++ (printGTs body ++ (printGTail tail ++ post)) := by
      rw [hc1]; simp [List.append_assoc]
    have hq_le : pre.length + 18 + e.length + (printGTs body).length ≤ c.length := by
      rw [hc1]; simp [ELIF, ELIFEND, List.length_append]; omega
    obtain ⟨o2, m2, hn2, _⟩ := next_safe_total c _ hq_le
    have hrun := parse_gts cfg c hn body D
      (.ifT accO (done ++ [.mk cur sub curOff pre.length]) items2 (pre.length + 18 + e.length) p :: stk)
      (pre ++ (ELIF ++ e ++ ELIFEND)) (printGTail tail ++ post) [] (fuel + costGTail tail) o3 m3 o2 m2 hc4 hbody hD
      (by rw [hl4]; exact hn3) (by rw [hl4]; exact hn2)
    rw [hl4] at hrun
    simp only [List.nil_append, List.length_cons] at hrun
    have hc5 : c = (pre ++ (ELIF ++ e ++ ELIFEND) ++ printGTs body) ++ (printGTail tail ++ post) := by
      rw [hc1]; simp [List.append_assoc]
    have hl5 : (pre ++ (ELIF ++ e ++ ELIFEND) ++ printGTs body).length = pre.length + 18 + e.length + (printGTs body).length := by
      rw [List.length_append, hl4]
    have htail_run := parse_gtail cfg c hn tail D stk accO (done ++ [.mk cur sub curOff pre.length]) items2
      (pre.length + 18 + e.length) p (tagsGTs cfg c D (stk.length + 1) (pre.length + 18 + e.length) body)
      (pre ++ (ELIF ++ e ++ ELIFEND) ++ printGTs body) post fuel o2 m2 o' m' hc5 htail hD (by rw [hl5]; exact hn2)
      (by rw [hl5, ← hfin]; congr 1; simp [ELIF, ELIFEND, List.length_append]; omega)
    rw [hl5] at htail_run
    have hd11 : step cfg c (stAtL (refsD D) (.ifT accO done cur curOff p :: stk) sub (pre.length + 5) 11) =
        stepElse cfg c (stAtL (refsD D) (.ifT accO done cur curOff p :: stk) sub (pre.length + 5) 11) := by
      simp only [step, stAtL]; rfl
    rw [show fuel + costGTail (.elif e body tail) = (fuel + costGTail tail + costGTs body) + 1 by simp only [costGTail]; omega]
    rw [parseMain_step cfg c _ _ _ (by simp [stAtL]) (hd11.trans hels), hrun, htail_run]
    have hia : itemsAtC cfg c (refsD D) (pre.length + 14) (pre.length + 14 + e.length) = items2 := by simp only [itemsAtC, hex0]
    have hendp : pre.length + 18 + e.length + (printGTs body).length + (printGTail tail).length =
        pre.length + (printGTail (GTail.elif e body tail)).length := by
      simp [printGTail, ELIF, ELIFEND, List.length_append]; omega
    rw [hendp]
    simp only [casesG, hia, List.append_assoc, List.singleton_append]
end
/-! ### top level -/

mutual
theorem costGT_le : ∀ (b : GT), costGT b ≤ (printGT b).length
  | .segs l => by simp only [costGT, printGT]; exact nTags_le l
  | .ifc e body tail => by
    have := costGTs_le body; have := costGTail_le tail
    simp [costGT, printGT, IFOPEN]; omega
  | .loop S V body => by
    have := costGTs_le body
    simp [costGT, printGT, LOOPW, LOOPEND]; omega
  | .iif e ts fs => by
    have h1 : nTagsVal ts ≤ tLen ts := by
      cases ts with
      | none => simp [nTagsVal, tLen]
      | some l => have := nTags_le l; simp only [nTagsVal, tLen]; omega
    have h2 : nTagsVal fs ≤ fLen fs := by
      cases fs with
      | none => simp [nTagsVal, fLen]
      | some l => have := nTags_le l; simp only [nTagsVal, fLen]; omega
    simp only [costGT, printGT, printIif_len]; omega
  | .svar pa ar => by
    have := nTags_le (argSegs ar)
    simp only [costGT, printGT, printSvar_len]; omega
theorem costGTs_le : ∀ (bs : GTs), costGTs bs ≤ (printGTs bs).length
  | .nil => by simp [costGTs]
  | .cons b r => by
    have := costGT_le b; have := costGTs_le r
    simp [costGTs, printGTs]; omega
theorem costGTail_le : ∀ (t : GTail), costGTail t ≤ (printGTail t).length
  | .fin => by simp [costGTail, printGTail, IFEND]
  | .els body => by have := costGTs_le body; simp [costGTail, printGTail, ELSE, IFEND]; omega
  | .elif e body tail => by
    have := costGTs_le body; have := costGTail_le tail
    simp [costGTail, printGTail, ELIF, ELIFEND]; omega
end

/-- `parse_gtree`: the printed tree parses to exactly the implied tags -/
theorem parse_gtree (cfg : ScanCfg R) (bs : GTs) (hok : bs.ok)
    (hn : (printGTs bs).length + 16 < 4294967296) :
    parse cfg (printGTs bs) = .ok (tagsGTs cfg (printGTs bs) [] 0 0 bs) := by
  obtain ⟨o, m, hnx, _⟩ := next_safe_total (printGTs bs) 0 (Nat.zero_le _)
  have h0 : finderNext (printGTs bs) ({} : PState R) = .ok (stAtL (refsD []) [] [] o m) := by
    simp [finderNext, hnx, bind, Except.bind, stAtL, refsD]
  have hend : next (printGTs bs) (([] : List Nat).length + (printGTs bs).length) = .ok ((printGTs bs).length, 0) := by
    rw [List.length_nil, Nat.zero_add]
    apply next_plain_end _ _ (Nat.le_refl _)
    intro i h1 h2; omega
  have hcost := costGTs_le bs
  have hm := parse_gts cfg (printGTs bs) hn bs [] [] [] [] ([] : List (Tag R))
    (2 * (printGTs bs).length + 4 - costGTs bs) o m _ _ (by simp) hok (by intro d hd; cases hd) hnx hend
  rw [show 2 * (printGTs bs).length + 4 - costGTs bs + costGTs bs = 2 * (printGTs bs).length + 4 by omega] at hm
  have hlast : parseMain cfg (printGTs bs) (2 * (printGTs bs).length + 4 - costGTs bs)
      (stAtL (refsD []) [] ([] ++ tagsGTs cfg (printGTs bs) [] ([] : List (Frame R)).length ([] : List Nat).length bs) (printGTs bs).length 0) =
      .ok (stAtL (refsD []) [] ([] ++ tagsGTs cfg (printGTs bs) [] ([] : List (Frame R)).length ([] : List Nat).length bs) (printGTs bs).length 0) := by
    rw [show 2 * (printGTs bs).length + 4 - costGTs bs = (2 * (printGTs bs).length + 3 - costGTs bs) + 1 by omega]
    simp [parseMain, stAtL]
  rw [hlast] at hm
  simp only [stAtL, refsD, List.map_nil] at h0 hm
  simp only [parse, h0, bind, Except.bind, hm, cleanup, List.nil_append, List.length_nil]

end Qentem.Tmpl
