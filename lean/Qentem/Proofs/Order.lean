import Qentem.Model.Order
/-! Helper lemmas for C15: the string comparison routines (all strings = all `List Nat`). -/
namespace Qentem.Order

/-! ### `isEqualN` -/

theorem isEqualN_self_length (a b : List Nat) (h : a.length = b.length) :
    isEqualN a b a.length = some (decide (a = b)) := by
  induction a generalizing b with
  | nil => cases b <;> simp_all [isEqualN]
  | cons x xs ih =>
    cases b with
    | nil => simp at h
    | cons y ys =>
      simp only [List.length_cons, Nat.add_right_cancel_iff] at h
      by_cases hxy : x = y
      · subst hxy; simp [isEqualN, ih ys h]
      · simp [isEqualN, hxy]

/-- `IsEqual` never reads past either operand when called with a length both have. -/
theorem isEqualN_ne_none (a b : List Nat) (n : Nat) (ha : n ≤ a.length) (hb : n ≤ b.length) :
    isEqualN a b n ≠ none := by
  induction n generalizing a b with
  | zero => simp [isEqualN]
  | succ n ih =>
    cases a with
    | nil => simp at ha
    | cons x xs =>
      cases b with
      | nil => simp at hb
      | cons y ys =>
        simp only [isEqualN]
        split
        · exact ih xs ys (by simpa using ha) (by simpa using hb)
        · simp

theorem str_eq_iff (a b : List Nat) : Str.eq a b = decide (a = b) := by
  unfold Str.eq
  by_cases h : a.length = b.length
  · rw [isEqualN_self_length a b h]; simp [h]
  · have : a ≠ b := fun e => h (by rw [e])
    simp [h, this]

/-! ### `isLess` / `isGreater` -/

theorem isGreater_eq_isLess_swap (a b : List Nat) (e : Bool) : isGreater a b e = isLess b a e := by
  fun_induction isGreater a b e with
  | case1 a as b bs e h => simp [isLess, h]
  | case2 a as b bs e h1 h2 => simp [isLess, h1, h2]
  | case3 a as b bs e h1 h2 ih => simp [isLess, h1, h2, ih]
  | case4 l r e h =>
    cases l with
    | nil => cases r <;> simp [isLess]
    | cons x xs =>
      cases r with
      | nil => simp [isLess]
      | cons y ys => exact (h _ _ _ _ rfl rfl).elim

theorem isLess_false_eq_lexLt (a b : List Nat) : isLess a b false = lexLt a b := by
  fun_induction lexLt a b with
  | case1 => simp [isLess]
  | case2 => simp [isLess]
  | case3 => simp [isLess]
  | case4 a as b bs ih =>
    simp only [isLess]
    by_cases h1 : a > b
    · have : ¬ a < b := by omega
      have : ¬ a = b := by omega
      simp [*]
    · by_cases h2 : a < b
      · simp [h1, h2]
      · have : a = b := by omega
        simp [this, ih]

theorem isLess_orEqual (a b : List Nat) (e : Bool) :
    isLess a b e = (isLess a b false || (e && decide (a = b))) := by
  fun_induction isLess a b e with
  | case1 a as b bs e h =>
    have : a ≠ b := by omega
    simp [isLess, h, this]
  | case2 a as b bs e h1 h2 => simp [isLess, h1, h2]
  | case3 a as b bs e h1 h2 ih =>
    have : a = b := by omega
    subst this
    simp [isLess, ih]
  | case4 l r e h =>
    cases l with
    | nil => cases r <;> simp [isLess]
    | cons x xs =>
      cases r with
      | nil => simp [isLess]
      | cons y ys => exact (h _ _ _ _ rfl rfl).elim

theorem isLess_true_eq (a b : List Nat) : isLess a b true = (isLess a b false || decide (a = b)) := by
  rw [isLess_orEqual a b true]; simp

/-! ### `lexLt` is a strict linear order -/

theorem lexLt_irrefl (a : List Nat) : lexLt a a = false := by
  induction a with
  | nil => rfl
  | cons x xs ih => simp [lexLt, ih]

theorem lexLt_asymm (a b : List Nat) : lexLt a b = true → lexLt b a = false := by
  fun_induction lexLt a b with
  | case1 => simp
  | case2 => simp [lexLt]
  | case3 => simp
  | case4 a as b bs ih =>
    intro h
    simp only [lexLt, Bool.or_eq_true, decide_eq_true_eq, Bool.and_eq_true, beq_iff_eq] at h ⊢
    rcases h with h | ⟨h1, h2⟩
    · have h3 : ¬ b < a := by omega
      have h4 : ¬ b = a := by omega
      simp [h3, h4]
    · subst h1
      simp [ih h2]

theorem lexLt_total (a b : List Nat) : lexLt a b = false → lexLt b a = false → a = b := by
  fun_induction lexLt a b with
  | case1 => simp
  | case2 => simp
  | case3 => simp [lexLt]
  | case4 a as b bs ih =>
    intro h1 h2
    simp only [lexLt, Bool.or_eq_false_iff, decide_eq_false_iff_not, Bool.and_eq_false_imp,
      beq_iff_eq] at h1 h2
    have hab : a = b := by omega
    subst hab
    rw [ih (h1.2 rfl) (h2.2 rfl)]

theorem lexLt_trans (a b c : List Nat) : lexLt a b = true → lexLt b c = true → lexLt a c = true := by
  induction a generalizing b c with
  | nil =>
    cases b <;> cases c <;> simp [lexLt]
  | cons x xs ih =>
    cases b with
    | nil => simp [lexLt]
    | cons y ys =>
      cases c with
      | nil => simp [lexLt]
      | cons z zs =>
        simp only [lexLt, Bool.or_eq_true, decide_eq_true_eq, Bool.and_eq_true, beq_iff_eq]
        intro h1 h2
        rcases h1 with h1 | ⟨h1, h1'⟩ <;> rcases h2 with h2 | ⟨h2, h2'⟩
        · left; omega
        · left; omega
        · left; omega
        · right; exact ⟨by omega, ih ys zs h1' h2'⟩

/-- First differing unit decides; a proper prefix is smaller. -/
theorem lexLt_iff (a b : List Nat) :
    lexLt a b = true ↔
      (∃ p x y ra rb, a = p ++ x :: ra ∧ b = p ++ y :: rb ∧ x < y) ∨ (∃ c r, b = a ++ c :: r) := by
  constructor
  · fun_induction lexLt a b with
    | case1 => simp
    | case2 b bs => intro _; right; exact ⟨b, bs, rfl⟩
    | case3 => simp
    | case4 a as b bs ih =>
      intro h
      simp only [Bool.or_eq_true, decide_eq_true_eq, Bool.and_eq_true, beq_iff_eq] at h
      rcases h with h | ⟨h1, h2⟩
      · left; exact ⟨[], a, b, as, bs, rfl, rfl, h⟩
      · subst h1
        rcases ih h2 with ⟨p, x, y, ra, rb, e1, e2, hxy⟩ | ⟨c, r, e⟩
        · left; exact ⟨a :: p, x, y, ra, rb, by simp [e1], by simp [e2], hxy⟩
        · right; exact ⟨c, r, by simp [e]⟩
  · rintro (⟨p, x, y, ra, rb, rfl, rfl, hxy⟩ | ⟨c, r, rfl⟩)
    · induction p with
      | nil => simp [lexLt, hxy]
      | cons q qs ih => simp [lexLt, ih]
    · induction a with
      | nil => simp [lexLt]
      | cons q qs ih => simp [lexLt, ih]

/-! ### Cursor model = suffix model -/

theorem drop_cons_of_getElem? (l : Array Nat) (off a : Nat) (h : l[off]? = some a) :
    l.toList.drop off = a :: l.toList.drop (off + 1) := by
  have hlt : off < l.size := by
    rcases Nat.lt_or_ge off l.size with h1 | h1
    · exact h1
    · rw [Array.getElem?_eq_none h1] at h; cases h
  rw [List.drop_eq_getElem_cons (by simpa using hlt)]
  rw [Array.getElem?_eq_getElem hlt] at h
  simp only [Array.getElem_toList, List.cons.injEq, and_true]
  exact Option.some.inj h

theorem isLess_nil_left (r : List Nat) (e : Bool) :
    isLess [] r e = (decide (0 < r.length) || (e && 0 == r.length)) := by
  cases r <;> simp [isLess]

theorem isLess_nil_right (l : List Nat) (e : Bool) :
    isLess l [] e = (decide (l.length < 0) || (e && l.length == 0)) := by
  cases l <;> simp [isLess]

theorem isLessA_eq (l r : Array Nat) (e : Bool) (off : Nat) (h : off ≤ l.size) (h' : off ≤ r.size) :
    isLessA l r l.size r.size e off = some (isLess (l.toList.drop off) (r.toList.drop off) e) := by
  fun_induction isLessA l r l.size r.size e off with
  | case1 off hc a b _ _ hab =>
    have hl := drop_cons_of_getElem? l off a (by assumption)
    have hr := drop_cons_of_getElem? r off b (by assumption)
    simp [hl, hr, isLess, hab]
  | case2 off hc a b _ _ hab hab' =>
    have hl := drop_cons_of_getElem? l off a (by assumption)
    have hr := drop_cons_of_getElem? r off b (by assumption)
    simp [hl, hr, isLess, hab, hab']
  | case3 off hc a b _ _ hab hab' ih =>
    simp only [gt_iff_lt, Bool.and_eq_true, decide_eq_true_eq] at hc
    have hl := drop_cons_of_getElem? l off a (by assumption)
    have hr := drop_cons_of_getElem? r off b (by assumption)
    rw [ih (by omega) (by omega)]
    simp [hl, hr, isLess, hab, hab']
  | case4 off hc hx =>
    simp only [gt_iff_lt, Bool.and_eq_true, decide_eq_true_eq] at hc
    exfalso
    exact hx _ _ (Array.getElem?_eq_getElem hc.1) (Array.getElem?_eq_getElem hc.2)
  | case5 off hc =>
    simp only [gt_iff_lt, Bool.and_eq_true, decide_eq_true_eq, not_and, Nat.not_lt] at hc
    by_cases h1 : l.size ≤ off
    · have : off = l.size := by omega
      subst this
      have hl : l.toList.drop l.size = [] := by simp
      rw [hl, isLess_nil_left]
      simp only [List.length_drop, Array.length_toList]
      rcases Nat.lt_or_eq_of_le h' with hlt | heq
      · have h3 : 0 < r.size - l.size := by omega
        have e1 : (l.size == r.size) = false := by simpa using (by omega : l.size ≠ r.size)
        have e2 : (0 == r.size - l.size) = false := by simpa using (by omega : 0 ≠ r.size - l.size)
        simp [hlt, h3, e1, e2]
      · simp [← heq]
    · have h2 : r.size ≤ off := hc (by omega)
      have : off = r.size := by omega
      subst this
      have hr : r.toList.drop r.size = [] := by simp
      rw [hr, isLess_nil_right]
      simp only [List.length_drop, Array.length_toList]
      have h5 : ¬ l.size < r.size := by omega
      have h6 : ¬ l.size = r.size := by omega
      have h7 : ¬ l.size - r.size = 0 := by omega
      have e1 : (l.size == r.size) = false := by simpa using h6
      have e2 : (l.size - r.size == 0) = false := by simpa using h7
      simp [h5, e1, e2]

/-- The driver's cursor run from offset 0 is the list recursion, and never reads out of range. -/
theorem isLessA_zero (l r : Array Nat) (e : Bool) :
    isLessA l r l.size r.size e 0 = some (isLess l.toList r.toList e) := by
  simpa using isLessA_eq l r e 0 (Nat.zero_le _) (Nat.zero_le _)

theorem isGreaterA_eq_isLessA_swap (l r : Array Nat) (ll rl : Nat) (e : Bool) (off : Nat) :
    isGreaterA l r ll rl e off = isLessA r l rl ll e off := by
  fun_induction isGreaterA l r ll rl e off with
  | case1 off hc a b ha hb hab =>
    rw [isLessA]; simp_all
  | case2 off hc a b ha hb hab hab' =>
    rw [isLessA]; simp_all
  | case3 off hc a b ha hb hab hab' ih =>
    rw [isLessA]
    have h1 : a = b := by omega
    subst h1
    simp_all
  | case4 off hc hx =>
    rw [isLessA]; simp_all
    split <;> simp_all
  | case5 off hc =>
    rw [isLessA]
    have h1 : ¬ ((decide (rl > off) && decide (ll > off)) = true) := by
      intro hh; apply hc; simp only [Bool.and_eq_true] at hh ⊢; exact ⟨hh.2, hh.1⟩
    rw [if_neg h1]
    have : (ll == rl) = (rl == ll) := BEq.comm
    simp [this]

theorem isEqualA_eq (l r : Array Nat) (n off : Nat) (h : off ≤ n) (hl : n ≤ l.size) (hr : n ≤ r.size) :
    isEqualA l r n off = isEqualN (l.toList.drop off) (r.toList.drop off) (n - off) := by
  fun_induction isEqualA l r n off with
  | case1 off hc a b _ _ hab ih =>
    have h1 := drop_cons_of_getElem? l off a (by assumption)
    have h2 := drop_cons_of_getElem? r off b (by assumption)
    have : n - off = (n - (off + 1)) + 1 := by omega
    rw [h1, h2, this, ih (by omega)]
    simp_all [isEqualN]
  | case2 off hc a b _ _ hab =>
    have h1 := drop_cons_of_getElem? l off a (by assumption)
    have h2 := drop_cons_of_getElem? r off b (by assumption)
    have : n - off = (n - (off + 1)) + 1 := by omega
    rw [h1, h2, this]
    have : (n == off) = false := by simpa using (by omega : n ≠ off)
    simp_all [isEqualN]
  | case3 off hc hx =>
    exfalso
    exact hx _ _ (Array.getElem?_eq_getElem (by omega)) (Array.getElem?_eq_getElem (by omega))
  | case4 off hc =>
    have : n = off := by omega
    subst this
    simp [isEqualN]

theorem isGreaterA_zero (l r : Array Nat) (e : Bool) :
    isGreaterA l r l.size r.size e 0 = some (isGreater l.toList r.toList e) := by
  rw [isGreaterA_eq_isLessA_swap, isLessA_zero, isGreater_eq_isLess_swap]

/-- `IsEqual` as called by `operator==` (equal lengths) reads in range and decides equality. -/
theorem isEqualA_zero (l r : Array Nat) (h : l.size = r.size) :
    isEqualA l r l.size 0 = some (decide (l.toList = r.toList)) := by
  rw [isEqualA_eq l r l.size 0 (Nat.zero_le _) (Nat.le_refl _) (by omega)]
  simpa using isEqualN_self_length l.toList r.toList (by simpa using h)

end Qentem.Order
