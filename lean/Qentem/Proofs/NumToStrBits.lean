import Qentem.Model.NumToStr
import Qentem.Model.FmtSpec
import Mathlib.Tactic.Ring
/-! Helper lemmas for C10: the masks of `RealNumberInfo` extract the IEEE 754 fields, and the
model prints the reference text for every non-finite pattern and every zero. -/
set_option linter.unusedSimpArgs false
namespace Qentem.Proofs.NumToStr
open Qentem.NumToStr Qentem.Generated.NumToStr Qentem

theorem and_field (n j k : Nat) : n &&& ((2 ^ j - 1) * 2 ^ k) = ((n / 2 ^ k) % 2 ^ j) * 2 ^ k := by
  apply Nat.eq_of_testBit_eq
  intro i
  simp only [Nat.testBit_and, Nat.testBit_mul_two_pow, Nat.testBit_mod_two_pow, Nat.testBit_div_two_pow, Nat.testBit_two_pow_sub_one]
  by_cases h : k ≤ i
  · simp [h]
    by_cases h2 : i - k < j <;> simp [h2, Bool.and_comm]
  · simp [h]

/-- the three fields of a binary64 pattern as the formatter's masks extract them -/
theorem fields64 (bits : Nat) :
    bits &&& 9218868437227405312 = ((bits / 2 ^ 52) % 2 ^ 11) * 2 ^ 52 ∧
    bits &&& 4503599627370495 = bits % 2 ^ 52 ∧
    bits &&& 9223372036854775808 = ((bits / 2 ^ 63) % 2) * 2 ^ 63 := by
  refine ⟨?_, ?_, ?_⟩
  · exact and_field bits 11 52
  · exact Nat.and_two_pow_sub_one_eq_mod bits 52
  · exact and_field bits 1 63

theorem fields32 (bits : Nat) :
    bits &&& 2139095040 = ((bits / 2 ^ 23) % 2 ^ 8) * 2 ^ 23 ∧
    bits &&& 8388607 = bits % 2 ^ 23 ∧
    bits &&& 2147483648 = ((bits / 2 ^ 31) % 2) * 2 ^ 31 := by
  refine ⟨?_, ?_, ?_⟩
  · exact and_field bits 8 23
  · exact Nat.and_two_pow_sub_one_eq_mod bits 23
  · exact and_field bits 1 31

def fmtOf (f : Nat) : FmtSpec.Fmt := if f = fmtFixed then .fixed else if f = fmtSemiFixed then .semiFixed else .default

/-- non-finite patterns (exponent field all ones): `inf`, `-inf`, `nan` as the reference prints them -/
theorem nonfinite64 (pre : List Nat) (bits p f : Nat)
    (he : (bits / 2 ^ 52) % 2 ^ 11 = 2 ^ 11 - 1) :
    realToString f64 pre bits p f = .ok (pre ++ FmtSpec.format64 bits p (fmtOf f)) := by
  obtain ⟨h1, h2, h3⟩ := fields64 bits
  simp only [realToString, f64, F64.exponentMask, F64.mantissaMask, F64.signMask, h1, h2, h3, he]
  unfold FmtSpec.format64 FmtSpec.decode64 FmtSpec.decode FmtSpec.formatVal
  simp only [he, if_true]
  by_cases hf : bits % 4503599627370496 = 0
  · by_cases hs : bits / 9223372036854775808 % 2 = 1
    · simp [hf, hs, FmtSpec.signed, FmtSpec.inf, S1.infinity, Ch.negative, FmtSpec.cMinus, pure, Except.pure]
    · simp [hf, hs, FmtSpec.signed, FmtSpec.inf, S1.infinity, pure, Except.pure]
  · simp [hf, FmtSpec.nan, S1.notANumber, pure, Except.pure]

/-! ### the zero class -/

theorem dropWhile_replicate_append (k : Nat) (t : List Nat) :
    List.dropWhile (· == FmtSpec.cZero) (List.replicate k 48 ++ t) = List.dropWhile (· == FmtSpec.cZero) t := by
  induction k with
  | zero => rfl
  | succ k ih => simp [List.replicate_succ, FmtSpec.cZero]

theorem replicate_pred_append {p : Nat} (hp : p ≠ 0) : List.replicate (p - 1) 48 ++ [48] = List.replicate p 48 := by
  obtain ⟨k, rfl⟩ := Nat.exists_eq_succ_of_ne_zero hp
  simp [List.replicate_succ']

theorem roundHalfEven_zero {d : Nat} (_hd : 0 < d) : FmtSpec.roundHalfEven 0 d = 0 := by
  simp [FmtSpec.roundHalfEven]

theorem fixedBody_zero {den : Nat} (hd : 0 < den) (p : Nat) :
    FmtSpec.fixedBody 0 den p = 48 :: (if p = 0 then [] else 46 :: List.replicate p 48) := by
  have hD : FmtSpec.digitsOf 0 = [48] := by decide
  unfold FmtSpec.fixedBody
  simp only [Nat.zero_mul, roundHalfEven_zero hd, Nat.zero_div, Nat.zero_mod, hD]
  by_cases hp : p = 0
  · simp [hp]
  · simp [hp, FmtSpec.padLeft, FmtSpec.cDot, FmtSpec.cZero, replicate_pred_append hp]

theorem stripFraction_zero (p : Nat) :
    FmtSpec.stripFraction (48 :: (if p = 0 then [] else 46 :: List.replicate p 48)) = [48] := by
  by_cases hp : p = 0
  · simp [hp, FmtSpec.stripFraction, FmtSpec.cDot]
  · simp only [hp, if_false, FmtSpec.stripFraction]
    have hc : (48 :: 46 :: List.replicate p 48).contains FmtSpec.cDot = true := by simp [FmtSpec.cDot]
    rw [if_pos hc]
    have : (48 :: 46 :: List.replicate p 48).reverse = List.replicate p 48 ++ [46, 48] := by
      simp [List.reverse_cons, List.reverse_replicate]
    rw [this, dropWhile_replicate_append]
    simp [List.dropWhile, FmtSpec.cZero, FmtSpec.cDot]

/-- what both the formatter and the reference print for a zero (after the sign) -/
def zeroBody (p : Nat) (fmt : FmtSpec.Fmt) : List Nat :=
  match fmt with
  | .fixed => 48 :: (if p = 0 then [] else 46 :: List.replicate p 48)
  | _ => [48]

theorem formatVal_zero (neg : Bool) {den : Nat} (hd : 0 < den) (p : Nat) (fmt : FmtSpec.Fmt) :
    FmtSpec.formatVal (.fin neg 0 den) p fmt = FmtSpec.signed neg (zeroBody p fmt) := by
  cases fmt
  · -- default
    simp only [FmtSpec.formatVal, zeroBody, FmtSpec.generalBody]
    have hx : (-4 : Int) ≤ 0 ∧ (0 : Int) < ((if p = 0 then 1 else p : Nat) : Int) := by
      constructor
      · norm_num
      · split <;> omega
    simp only [if_true, hx, and_self, fixedBody_zero hd]
    congr 1
    exact stripFraction_zero _
  · simp [FmtSpec.formatVal, zeroBody, fixedBody_zero hd]
  · simp [FmtSpec.formatVal, zeroBody, fixedBody_zero hd, stripFraction_zero]

theorem zero64 (pre : List Nat) (bits p f : Nat) (hp : p ≤ 1048576)
    (he : (bits / 2 ^ 52) % 2 ^ 11 = 0) (hf : bits % 2 ^ 52 = 0) :
    realToString f64 pre bits p f = .ok (pre ++ FmtSpec.format64 bits p (fmtOf f)) := by
  obtain ⟨h1, h2, h3⟩ := fields64 bits
  simp only [realToString, f64, F64.exponentMask, F64.mantissaMask, F64.signMask, h1, h2, h3, he, hf]
  unfold FmtSpec.format64 FmtSpec.decode64 FmtSpec.decode
  simp only [he, hf]
  norm_num
  rw [formatVal_zero _ (Nat.two_pow_pos 1074)]
  have hz : zerosLarge p = .ok (List.replicate p 48) := by simp [zerosLarge, hp, Ch.zero, pure, Except.pure]
  by_cases hfx : f = fmtFixed
  · subst hfx
    have : fmtOf 1 = .fixed := by decide
    by_cases hp0 : p = 0
    · by_cases hs : bits / 9223372036854775808 % 2 = 1 <;>
        simp [hp0, hs, this, zeroBody, FmtSpec.signed, fmtFixed, fmtDefault, Ch.negative, Ch.zero, FmtSpec.cMinus, pure, Except.pure]
    · by_cases hs : bits / 9223372036854775808 % 2 = 1 <;>
        simp [hp0, hs, hz, this, zeroBody, FmtSpec.signed, fmtFixed, fmtDefault, Ch.negative, Ch.zero, Ch.dot, FmtSpec.cMinus, pure, Except.pure]
  · have hb : zeroBody p (fmtOf f) = [48] := by
      unfold fmtOf; simp only [hfx, if_false]; split <;> rfl
    by_cases hs : bits / 9223372036854775808 % 2 = 1 <;>
      simp [hfx, hs, hb, FmtSpec.signed, Ch.negative, Ch.zero, FmtSpec.cMinus, pure, Except.pure]

/-- non-finite patterns (exponent field all ones): `inf`, `-inf`, `nan` as the reference prints them -/
theorem nonfinite32 (pre : List Nat) (bits p f : Nat)
    (he : (bits / 2 ^ 23) % 2 ^ 8 = 2 ^ 8 - 1) :
    realToString f32 pre bits p f = .ok (pre ++ FmtSpec.format32 bits p (fmtOf f)) := by
  obtain ⟨h1, h2, h3⟩ := fields32 bits
  simp only [realToString, f32, F32.exponentMask, F32.mantissaMask, F32.signMask, h1, h2, h3, he]
  unfold FmtSpec.format32 FmtSpec.decode32 FmtSpec.decode FmtSpec.formatVal
  simp only [he, if_true]
  by_cases hf : bits % 8388608 = 0
  · by_cases hs : bits / 2147483648 % 2 = 1
    · simp [hf, hs, FmtSpec.signed, FmtSpec.inf, S1.infinity, Ch.negative, FmtSpec.cMinus, pure, Except.pure]
    · simp [hf, hs, FmtSpec.signed, FmtSpec.inf, S1.infinity, pure, Except.pure]
  · simp [hf, FmtSpec.nan, S1.notANumber, pure, Except.pure]


theorem zero32 (pre : List Nat) (bits p f : Nat) (hp : p ≤ 1048576)
    (he : (bits / 2 ^ 23) % 2 ^ 8 = 0) (hf : bits % 2 ^ 23 = 0) :
    realToString f32 pre bits p f = .ok (pre ++ FmtSpec.format32 bits p (fmtOf f)) := by
  obtain ⟨h1, h2, h3⟩ := fields32 bits
  simp only [realToString, f32, F32.exponentMask, F32.mantissaMask, F32.signMask, h1, h2, h3, he, hf]
  unfold FmtSpec.format32 FmtSpec.decode32 FmtSpec.decode
  simp only [he, hf]
  norm_num
  rw [formatVal_zero _ (Nat.two_pow_pos 149)]
  have hz : zerosLarge p = .ok (List.replicate p 48) := by simp [zerosLarge, hp, Ch.zero, pure, Except.pure]
  by_cases hfx : f = fmtFixed
  · subst hfx
    have : fmtOf 1 = .fixed := by decide
    by_cases hp0 : p = 0
    · by_cases hs : bits / 2147483648 % 2 = 1 <;>
        simp [hp0, hs, this, zeroBody, FmtSpec.signed, fmtFixed, fmtDefault, Ch.negative, Ch.zero, FmtSpec.cMinus, pure, Except.pure]
    · by_cases hs : bits / 2147483648 % 2 = 1 <;>
        simp [hp0, hs, hz, this, zeroBody, FmtSpec.signed, fmtFixed, fmtDefault, Ch.negative, Ch.zero, Ch.dot, FmtSpec.cMinus, pure, Except.pure]
  · have hb : zeroBody p (fmtOf f) = [48] := by
      unfold fmtOf; simp only [hfx, if_false]; split <;> rfl
    by_cases hs : bits / 2147483648 % 2 = 1 <;>
      simp [hfx, hs, hb, FmtSpec.signed, Ch.negative, Ch.zero, FmtSpec.cMinus, pure, Except.pure]


end Qentem.Proofs.NumToStr
