import Qentem.Model.Value
import Qentem.Model.ValueOps
/-! Frame lemmas for operations over the forest. -/
namespace Qentem.Value
open Doc

/-- the roots an operation may write. -/
def touched : Op → List Nat
  | .assign t _ | .touch t | .setType t _ | .setPtr t _ | .append t _ | .addPtr t _ | .insert t _ _
  | .remove t _ | .removeIdx t _ | .reset t | .compress t | .reserve t _ _ | .clear t => [t.root]
  | .copy t _ | .assignObj t _ | .assignArr t _ | .appendCopy t _ | .appendObj t _ | .appendArr t _
  | .mergeCopy t _ => [t.root]
  | .move t s | .appendMove t s | .insertMove t _ s | .mergeMove t s | .container t s _ _ _ => [t.root, s.root]
  | .groupBy dest _ _ => [dest]

theorem envGet_envSet_other (env : Env) (r q : Nat) (d : Doc) (h : q ≠ r) :
    envGet (envSet env r d) q = envGet env q := by
  simp [envGet, envSet, Ne.symm h]

theorem envGet_onTarget_other (env : Env) (t : Loc) (f : Doc → Doc) (q : Nat) (h : q ≠ t.root) :
    envGet (onTarget env t f) q = envGet env q := envGet_envSet_other _ _ _ _ h

theorem envGet_clearSource_other (env : Env) (s : Loc) (q : Nat) (h : q ≠ s.root) :
    envGet (clearSource env s) q = envGet env q := envGet_envSet_other _ _ _ _ h

/-- **independence (frame)**: an operation changes no root other than its target (and, for the moving
overloads, its source).  In particular a copy never changes its source, and whatever is later done to
a copy leaves the original alone. -/
theorem step_frame (fmtReal : Nat → List Nat) (op : Op) (env : Env) (q : Nat) (h : q ∉ touched op) :
    envGet (step fmtReal op env).1 q = envGet env q := by
  cases op with
  | setPtr t r => cases r <;> simp [touched] at h <;> simp [step] <;> exact envGet_onTarget_other _ _ _ _ h
  | addPtr t r => cases r <;> simp [touched] at h <;> simp [step] <;> exact envGet_onTarget_other _ _ _ _ h
  | assign t x => simp [touched] at h; simp [step]; exact envGet_onTarget_other _ _ _ _ h
  | touch t => simp [touched] at h; simp [step]; exact envGet_onTarget_other _ _ _ _ h
  | setType t k => simp [touched] at h; simp [step]; exact envGet_onTarget_other _ _ _ _ h
  | append t x => simp [touched] at h; simp [step]; exact envGet_onTarget_other _ _ _ _ h
  | insert t k x => simp [touched] at h; simp [step]; exact envGet_onTarget_other _ _ _ _ h
  | remove t k => simp [touched] at h; simp [step]; exact envGet_onTarget_other _ _ _ _ h
  | removeIdx t i => simp [touched] at h; simp [step]; exact envGet_onTarget_other _ _ _ _ h
  | reset t => simp [touched] at h; simp [step]; exact envGet_onTarget_other _ _ _ _ h
  | compress t => simp [touched] at h; simp [step]; exact envGet_onTarget_other _ _ _ _ h
  | clear t => simp [touched] at h; simp [step]; exact envGet_onTarget_other _ _ _ _ h
  | reserve t k n =>
    simp [touched] at h; simp only [step]
    split <;> exact envGet_onTarget_other _ _ _ _ h
  | copy t s => simp [touched] at h; simp only [step]; split <;> first | rfl | exact envGet_onTarget_other _ _ _ _ h
  | assignObj t s => simp [touched] at h; simp only [step]; split <;> first | rfl | exact envGet_onTarget_other _ _ _ _ h
  | assignArr t s => simp [touched] at h; simp only [step]; split <;> first | rfl | exact envGet_onTarget_other _ _ _ _ h
  | appendCopy t s => simp [touched] at h; simp only [step]; split <;> first | rfl | exact envGet_onTarget_other _ _ _ _ h
  | appendObj t s => simp [touched] at h; simp only [step]; split <;> first | rfl | exact envGet_onTarget_other _ _ _ _ h
  | appendArr t s => simp [touched] at h; simp only [step]; split <;> first | rfl | exact envGet_onTarget_other _ _ _ _ h
  | mergeCopy t s => simp [touched] at h; simp only [step]; split <;> first | rfl | exact envGet_onTarget_other _ _ _ _ h
  | move t s =>
    simp [touched] at h; simp only [step]
    split <;> first | rfl | (rw [envGet_onTarget_other _ _ _ _ h.1, envGet_clearSource_other _ _ _ h.2])
  | appendMove t s =>
    simp [touched] at h; simp only [step]
    split <;> first | rfl | (rw [envGet_onTarget_other _ _ _ _ h.1, envGet_clearSource_other _ _ _ h.2])
  | insertMove t k s =>
    simp [touched] at h; simp only [step]
    split <;> first | rfl | (rw [envGet_onTarget_other _ _ _ _ h.1, envGet_clearSource_other _ _ _ h.2])
  | mergeMove t s =>
    simp [touched] at h; simp only [step]
    split <;> first | rfl | (rw [envGet_onTarget_other _ _ _ _ h.1, envGet_clearSource_other _ _ _ h.2])
  | container t s kind add mv =>
    simp [touched] at h
    simp only [step]
    split
    · split
      · rw [envGet_envSet_other _ _ _ _ h.1]
        cases mv
        · simp only [Bool.false_eq_true, if_false]; exact envGet_onTarget_other _ _ _ _ h.1
        · simp only [if_true]; rw [envGet_envSet_other _ _ _ _ h.2]; exact envGet_onTarget_other _ _ _ _ h.1
      · exact envGet_onTarget_other _ _ _ _ h.1
    · exact envGet_onTarget_other _ _ _ _ h.1
  | groupBy dest s k =>
    simp [touched] at h; simp only [step]
    split
    · rfl
    · split <;> first | rfl | exact envGet_envSet_other _ _ _ _ h

end Qentem.Value
