import Qentem.Model.SeqLedger
import Qentem.Proofs.Ledger
import Qentem.Proofs.SeqArray
/-! C16 for the flat containers: the pointer-level primitives keep the allocator's view (the live
set of `Ledger.run`) and the objects' view (`blks`) in agreement, so every primitive list followed by
the destruction of every register it mentions is `Balanced`. -/
namespace Qentem.SeqLedger
open Qentem.Seq Qentem.Ledger

theorem isLive_iff (h : Heap) (id : Nat) : isLive h id = true ↔ ∃ e ∈ h, e.1 = id := by
  simp [isLive]

theorem isLive_release (h : Heap) (b id : Nat) : isLive (release h b) id = (id != b && isLive h id) := by
  rw [Bool.eq_iff_iff]
  simp only [Bool.and_eq_true, bne_iff_ne, ne_eq, isLive_iff, release, List.mem_filter]
  constructor
  · rintro ⟨e, ⟨he, hne⟩, rfl⟩; exact ⟨hne, e, he, rfl⟩
  · rintro ⟨hne, e, he, rfl⟩; exact ⟨e, ⟨he, hne⟩, rfl⟩

/-- The allocator's live set is exactly the set of blocks some register points to; ids are older than
the counter; no block has two owners. -/
def Sim (h : Heap) (w : LW) : Prop :=
  (∀ id, isLive h id = true ↔ ∃ x, w.blks x = some id) ∧
  (∀ x id, w.blks x = some id → id < w.next) ∧
  (∀ x y id, w.blks x = some id → w.blks y = some id → x = y)

theorem sim_init : Sim [] LW.init := by
  refine ⟨?_, ?_, ?_⟩ <;> simp [isLive, LW.init]

theorem mFree_sim (x : Nat) (h : Heap) (w : LW) (hs : Sim h w) :
    ∃ h', run (mFree x w).2 h = some h' ∧ Sim h' (mFree x w).1 ∧ (mFree x w).1.blks x = none ∧
      (∀ y, y ≠ x → (mFree x w).1.blks y = w.blks y) := by
  unfold mFree
  cases hb : w.blks x with
  | none => exact ⟨h, by simp [run], hs, hb, fun _ _ => rfl⟩
  | some b =>
    obtain ⟨h1, h2, h3⟩ := hs
    have hlive : isLive h b = true := (h1 b).2 ⟨x, hb⟩
    refine ⟨release h b, by simp [run, step, hlive], ⟨?_, ?_, ?_⟩, by simp, fun y hy => by simp [setR, hy]⟩
    · intro id
      rw [isLive_release]
      constructor
      · intro hh
        simp only [Bool.and_eq_true, bne_iff_ne, ne_eq] at hh
        obtain ⟨y, hy⟩ := (h1 id).1 hh.2
        refine ⟨y, ?_⟩
        have : y ≠ x := by
          intro e; subst e; rw [hb] at hy; injection hy with hy; exact hh.1 hy.symm
        simp [setR, this, hy]
      · rintro ⟨y, hy⟩
        simp only [setR] at hy
        split at hy
        · simp at hy
        · next hyx =>
          simp only [Bool.and_eq_true, bne_iff_ne, ne_eq]
          refine ⟨?_, (h1 id).2 ⟨y, hy⟩⟩
          intro e; subst e
          exact hyx (h3 y x id hy hb)
    · intro y id hy
      simp only [setR] at hy
      split at hy
      · simp at hy
      · exact h2 y id hy
    · intro y z id hy hz
      simp only [setR] at hy hz
      split at hy
      · simp at hy
      · split at hz
        · simp at hz
        · exact h3 y z id hy hz

theorem mAlloc_sim (x sz : Nat) (h : Heap) (w : LW) (hs : Sim h w) (hx : w.blks x = none) :
    ∃ h', run (mAlloc x sz w).2 h = some h' ∧ Sim h' (mAlloc x sz w).1 := by
  obtain ⟨h1, h2, h3⟩ := hs
  have hfresh : isLive h w.next = false := by
    cases hl : isLive h w.next with
    | false => rfl
    | true =>
      obtain ⟨y, hy⟩ := (h1 w.next).1 hl
      exact absurd (h2 y _ hy) (Nat.lt_irrefl _)
  refine ⟨(w.next, sz) :: h, by simp [mAlloc, run, step, hfresh], ⟨?_, ?_, ?_⟩⟩
  · intro id
    rw [isLive_cons]
    simp only [mAlloc, Bool.or_eq_true, beq_iff_eq]
    constructor
    · rintro (e | hl)
      · exact ⟨x, by simp [setR, e]⟩
      · obtain ⟨y, hy⟩ := (h1 id).1 hl
        have : y ≠ x := by intro e; subst e; rw [hx] at hy; simp at hy
        exact ⟨y, by simp [setR, this, hy]⟩
    · rintro ⟨y, hy⟩
      simp only [setR] at hy
      split at hy
      · injection hy with hy; exact Or.inl hy
      · exact Or.inr ((h1 id).2 ⟨y, hy⟩)
  · intro y id hy
    simp only [mAlloc, setR] at hy ⊢
    split at hy
    · injection hy with hy; omega
    · have := h2 y id hy; omega
  · intro y z id hy hz
    simp only [mAlloc, setR] at hy hz
    split at hy <;> split at hz
    · omega
    · injection hy with hy; subst hy; exact absurd (h2 z _ hz) (Nat.lt_irrefl _)
    · injection hz with hz; subst hz; exact absurd (h2 y _ hy) (Nat.lt_irrefl _)
    · exact h3 y z id hy hz

theorem mMove_sim (x y : Nat) (h : Heap) (w : LW) (hs : Sim h w) (hx : w.blks x = none) (hxy : x ≠ y) :
    Sim h (mMove x y w) := by
  obtain ⟨h1, h2, h3⟩ := hs
  have get : ∀ z, (mMove x y w).blks z = if z = y then none else if z = x then w.blks y else w.blks z := by
    intro z; simp only [mMove, setR]
  refine ⟨?_, ?_, ?_⟩
  · intro id
    rw [h1 id]
    constructor
    · rintro ⟨z, hz⟩
      by_cases e : z = y
      · subst e; exact ⟨x, by rw [get]; simp [hxy, hz]⟩
      · have : z ≠ x := by intro e2; subst e2; rw [hx] at hz; simp at hz
        exact ⟨z, by rw [get]; simp [e, this, hz]⟩
    · rintro ⟨z, hz⟩
      rw [get] at hz
      split at hz
      · simp at hz
      · split at hz
        · exact ⟨y, hz⟩
        · exact ⟨z, hz⟩
  · intro z id hz
    rw [get] at hz
    show id < w.next
    split at hz
    · simp at hz
    · split at hz
      · exact h2 y id hz
      · exact h2 z id hz
  · intro z z' id hz hz'
    rw [get] at hz hz'
    split at hz
    · simp at hz
    · split at hz'
      · simp at hz'
      · split at hz <;> split at hz'
        · omega
        · next a b c d => have := h3 y z' id hz hz'; exact absurd this.symm b
        · next a b c d => have := h3 z y id hz hz'; exact absurd this a
        · exact h3 z z' id hz hz'

/-- Registers outside `ks` hold no block. -/
def Within (n : Nat) (w : LW) : Prop := ∀ x, n ≤ x → w.blks x = none

theorem exec_sim (p : Prim) (h : Heap) (w : LW) (hs : Sim h w) :
    ∃ h', run (p.exec w).2 h = some h' ∧ Sim h' (p.exec w).1 := by
  cases p with
  | refresh x sz =>
    obtain ⟨h1, r1, s1, n1, _⟩ := mFree_sim x h w hs
    obtain ⟨h2, r2, s2⟩ := mAlloc_sim x sz h1 _ s1 n1
    refine ⟨h2, ?_, s2⟩
    simp only [Prim.exec]
    rw [run_append, r1]; simpa using r2
  | drop x =>
    obtain ⟨h1, r1, s1, _, _⟩ := mFree_sim x h w hs
    exact ⟨h1, r1, s1⟩
  | take x y =>
    simp only [Prim.exec]
    split
    · exact ⟨h, by simp [run], hs⟩
    · next hxy =>
      obtain ⟨h1, r1, s1, n1, _⟩ := mFree_sim x h w hs
      exact ⟨h1, r1, mMove_sim x y h1 _ s1 n1 hxy⟩

theorem exec_within (n : Nat) (p : Prim) (w : LW) (hw : Within n w) (hp : ∀ x ∈ p.regs, x < n) :
    Within n (p.exec w).1 := by
  intro z hz
  have hwz := hw z hz
  cases p with
  | refresh x sz =>
    have : z ≠ x := by have := hp x (by simp [Prim.regs]); omega
    simp only [Prim.exec, mAlloc, mFree]
    cases w.blks x <;> simp [setR, this, hwz]
  | drop x =>
    simp only [Prim.exec, mFree]
    cases w.blks x <;> simp [setR, hwz]
  | take x y =>
    have hx : z ≠ x := by have := hp x (by simp [Prim.regs]); omega
    have hy : z ≠ y := by have := hp y (by simp [Prim.regs]); omega
    simp only [Prim.exec]
    split
    · exact hwz
    · simp only [mMove, mFree]
      cases w.blks x <;> simp [setR, hx, hy, hwz]

theorem execAll_sim (ps : List Prim) : ∀ (h : Heap) (w : LW), Sim h w →
    ∃ h', run (execAll ps w).2 h = some h' ∧ Sim h' (execAll ps w).1 := by
  induction ps with
  | nil => intro h w hs; exact ⟨h, by simp [execAll, run], hs⟩
  | cons p ps ih =>
    intro h w hs
    obtain ⟨h1, r1, s1⟩ := exec_sim p h w hs
    obtain ⟨h2, r2, s2⟩ := ih h1 _ s1
    refine ⟨h2, ?_, s2⟩
    simp only [execAll]
    rw [run_append, r1]; simpa using r2

theorem execAll_within (n : Nat) (ps : List Prim) : ∀ (w : LW), Within n w → (∀ p ∈ ps, ∀ x ∈ p.regs, x < n) →
    Within n (execAll ps w).1 := by
  induction ps with
  | nil => intro w hw _; exact hw
  | cons p ps ih =>
    intro w hw hp
    simp only [execAll]
    exact ih _ (exec_within n p w hw (hp p (by simp))) (fun q hq => hp q (by simp [hq]))

theorem execAll_append (a b : List Prim) (w : LW) :
    execAll (a ++ b) w = ((execAll b (execAll a w).1).1, (execAll a w).2 ++ (execAll b (execAll a w).1).2) := by
  induction a generalizing w with
  | nil => simp [execAll]
  | cons p ps ih => simp only [List.cons_append, execAll, ih]; simp

/-- Dropping registers `0 .. n-1` leaves them all null (and emits only `free`s of live blocks). -/
theorem drops_clear (n : Nat) : ∀ (w : LW) (x : Nat), x < n →
    (execAll ((List.range n).map Prim.drop) w).1.blks x = none := by
  induction n with
  | zero => intro w x hx; omega
  | succ n ih =>
    intro w x hx
    rw [List.range_succ, List.map_append, execAll_append]
    simp only [List.map_cons, List.map_nil, execAll, Prim.exec]
    by_cases e : x = n
    · subst e
      unfold mFree
      cases hb : (execAll (List.map Prim.drop (List.range x)) w).1.blks x <;> simp [hb]
    · have hlt : x < n := by omega
      have := ih w x hlt
      unfold mFree
      cases hb : (execAll (List.map Prim.drop (List.range n)) w).1.blks n <;> simp [setR, e, this]

/-- **Every primitive list over registers `< n`, followed by the destruction of registers `0..n-1`, emits a
balanced trace**: no release of a block that is not live, no id allocated twice, nothing left. -/
theorem balanced_of_prims (n : Nat) (ps : List Prim) (hp : ∀ p ∈ ps, ∀ x ∈ p.regs, x < n) :
    Balanced (execAll (ps ++ (List.range n).map Prim.drop) LW.init).2 := by
  have hall : ∀ p ∈ ps ++ (List.range n).map Prim.drop, ∀ x ∈ p.regs, x < n := by
    intro p hmem x hx
    rcases List.mem_append.1 hmem with h1 | h1
    · exact hp p h1 x hx
    · obtain ⟨k, hk, rfl⟩ := List.mem_map.1 h1
      simp [Prim.regs] at hx; subst hx; simpa using hk
  obtain ⟨h, r, s⟩ := execAll_sim (ps ++ (List.range n).map Prim.drop) [] LW.init sim_init
  have hwithin := execAll_within n _ LW.init (by intro x _; rfl) hall
  unfold Balanced
  rw [r]
  have hnone : ∀ x, (execAll (ps ++ (List.range n).map Prim.drop) LW.init).1.blks x = none := by
    intro x
    by_cases hx : x < n
    · rw [execAll_append]; exact drops_clear n _ x hx
    · exact hwithin x (by omega)
  cases h with
  | nil => rfl
  | cons e t =>
    have : isLive (e :: t) e.1 = true := by simp [isLive]
    obtain ⟨x, hx⟩ := (s.1 e.1).1 this
    rw [hnone x] at hx; simp at hx

/-! ### The same with an arbitrary final destruction list (owning arrays: one slot per item) -/

/-- Registers outside `ks` hold no block. -/
def WithinL (ks : List Nat) (w : LW) : Prop := ∀ x, x ∉ ks → w.blks x = none

theorem exec_withinL (ks : List Nat) (p : Prim) (w : LW) (hw : WithinL ks w) (hp : ∀ x ∈ p.regs, x ∈ ks) :
    WithinL ks (p.exec w).1 := by
  intro z hz
  have hwz := hw z hz
  cases p with
  | refresh x sz =>
    have : z ≠ x := by intro e; subst e; exact hz (hp z (by simp [Prim.regs]))
    simp only [Prim.exec, mAlloc, mFree]
    cases w.blks x <;> simp [setR, this, hwz]
  | drop x =>
    simp only [Prim.exec, mFree]
    cases w.blks x <;> simp [setR, hwz]
  | take x y =>
    have hx : z ≠ x := by intro e; subst e; exact hz (hp z (by simp [Prim.regs]))
    have hy : z ≠ y := by intro e; subst e; exact hz (hp z (by simp [Prim.regs]))
    simp only [Prim.exec]
    split
    · exact hwz
    · simp only [mMove, mFree]
      cases w.blks x <;> simp [setR, hx, hy, hwz]

theorem execAll_withinL (ks : List Nat) (ps : List Prim) : ∀ (w : LW), WithinL ks w →
    (∀ p ∈ ps, ∀ x ∈ p.regs, x ∈ ks) → WithinL ks (execAll ps w).1 := by
  induction ps with
  | nil => intro w hw _; exact hw
  | cons p ps ih =>
    intro w hw hp
    simp only [execAll]
    exact ih _ (exec_withinL ks p w hw (hp p (by simp))) (fun q hq => hp q (by simp [hq]))

theorem drop_keeps_none (k x : Nat) (w : LW) (h : w.blks x = none) : ((Prim.drop k).exec w).1.blks x = none := by
  simp only [Prim.exec, mFree]
  cases hb : w.blks k with
  | none => simpa [hb] using h
  | some b => simp only [setR]; split <;> simp [h]

theorem drop_clears (k : Nat) (w : LW) : ((Prim.drop k).exec w).1.blks k = none := by
  simp only [Prim.exec, mFree]
  cases hb : w.blks k <;> simp [hb]

theorem drops_keep_none (ks : List Nat) : ∀ (w : LW) (x : Nat), w.blks x = none →
    (execAll (ks.map Prim.drop) w).1.blks x = none := by
  induction ks with
  | nil => intro w x h; exact h
  | cons k ks ih =>
    intro w x h
    simp only [List.map_cons, execAll]
    exact ih _ x (drop_keeps_none k x w h)

theorem dropsL_clear (ks : List Nat) : ∀ (w : LW) (x : Nat), x ∈ ks →
    (execAll (ks.map Prim.drop) w).1.blks x = none := by
  induction ks with
  | nil => intro w x hx; simp at hx
  | cons k ks ih =>
    intro w x hx
    simp only [List.map_cons, execAll]
    rcases List.mem_cons.1 hx with e | hmem
    · subst e; exact drops_keep_none ks _ x (drop_clears x w)
    · exact ih _ x hmem

/-- Every primitive list followed by a `drop` of (at least) every register it mentions is balanced. -/
theorem balanced_of_prims_list (ps : List Prim) (ks : List Nat) (hp : ∀ p ∈ ps, ∀ x ∈ p.regs, x ∈ ks) :
    Balanced (execAll (ps ++ ks.map Prim.drop) LW.init).2 := by
  have hall : ∀ p ∈ ps ++ ks.map Prim.drop, ∀ x ∈ p.regs, x ∈ ks := by
    intro p hmem x hx
    rcases List.mem_append.1 hmem with h1 | h1
    · exact hp p h1 x hx
    · obtain ⟨k, hk, rfl⟩ := List.mem_map.1 h1
      simp [Prim.regs] at hx; subst hx; exact hk
  obtain ⟨h, r, s⟩ := execAll_sim (ps ++ ks.map Prim.drop) [] LW.init sim_init
  have hwithin := execAll_withinL ks _ LW.init (by intro x _; rfl) hall
  unfold Balanced
  rw [r]
  have hnone : ∀ x, (execAll (ps ++ ks.map Prim.drop) LW.init).1.blks x = none := by
    intro x
    by_cases hx : x ∈ ks
    · rw [execAll_append]; exact dropsL_clear ks _ x hx
    · exact hwithin x hx
  cases h with
  | nil => rfl
  | cons e t =>
    have : isLive (e :: t) e.1 = true := by simp [isLive]
    obtain ⟨x, hx⟩ := (s.1 e.1).1 this
    rw [hnone x] at hx; simp at hx

theorem closedTrace_balanced (ps fin : List Prim) : Balanced (closedTrace ps fin) := by
  unfold closedTrace
  apply balanced_of_prims_list
  intro p hp x hx
  exact List.mem_flatMap.2 ⟨p, hp, hx⟩

end Qentem.SeqLedger
