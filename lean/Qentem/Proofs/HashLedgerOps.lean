import Qentem.Proofs.HashLedger
/-!
Per-operation ledger lemmas, in continuation form: if the rest of the trace runs from what the
table owns afterwards (plus any frame `X` of blocks owned by somebody else), then the operation's
events followed by the rest run from what the table owned before (plus the same frame).
-/
namespace Qentem.HashLedger
open Qentem.Ledger Qentem.HashTable

/-- A table without capacity owns nothing. -/
def WF (t : Tab) : Prop := t.cap = 0 → t.blk = none ∧ t.slots = []

def OpOK (t : Tab) (next : Nat) (r : Res) : Prop :=
  WF r.2.1 ∧ ∀ (X : List Nat) (evs : List Ev) (L1 : List Nat) (n1 : Nat),
    Exec evs (owned r.2.1 ++ X) r.2.2 L1 n1 → Exec (r.1 ++ evs) (owned t ++ X) next L1 n1

theorem OpOK.nop {t : Tab} {next : Nat} (h : WF t) : OpOK t next ([], t, next) :=
  ⟨h, fun _ _ _ _ hk => hk⟩

theorem OpOK.seq {t : Tab} {next : Nat} {r r' : Res} (h1 : OpOK t next r) (h2 : OpOK r.2.1 r.2.2 r') :
    OpOK t next (r.1 ++ r'.1, r'.2.1, r'.2.2) :=
  ⟨h2.1, fun X evs L1 n1 hk => by
    simp only [List.append_assoc]
    exact h1.2 X _ L1 n1 (h2.2 X evs L1 n1 hk)⟩

theorem allocCap_ne_zero (n : Nat) : allocCap n ≠ 0 := by
  obtain ⟨k, hk⟩ := allocCap_pow n
  rw [hk]; exact Nat.ne_of_gt (Nat.two_pow_pos k)

theorem WF_empty : WF Tab.empty := fun _ => ⟨rfl, rfl⟩

theorem realloc_ok (cfg : Cfg) (t : Tab) (n next : Nat) : OpOK t next (realloc cfg t n next) := by
  refine ⟨fun h => absurd h (allocCap_ne_zero n), ?_⟩
  intro X evs L1 n1 hk
  simp only [realloc, allocB, List.cons_append]
  apply Exec.step_alloc
  refine exec_optFree t.blk (L' := next :: slotsIds t.slots ++ X) (by perm_count) ?_
  refine hk.permL ?_
  simp only [realloc, owned, optIds, Option.toList, List.map_cons, List.map_nil, slotsIds_compact]
  perm_count

theorem growIfFull_ok (cfg : Cfg) (t : Tab) (next : Nat) (hwf : WF t) : OpOK t next (growIfFull cfg t next) := by
  unfold growIfFull
  split
  · exact realloc_ok cfg t _ next
  · exact OpOK.nop hwf

/-- After `growIfFull` there is capacity (so appending a slot keeps `WF`). -/
theorem growIfFull_cap (cfg : Cfg) (t : Tab) (next : Nat) (hwf : WF t) : (growIfFull cfg t next).2.1.cap ≠ 0 := by
  unfold growIfFull
  split
  · exact allocCap_ne_zero _
  · rename_i h
    intro h0
    simp only at h0
    have := (hwf h0).2
    rw [this, h0] at h
    exact h rfl

theorem WF_of_cap {t : Tab} (h : t.cap ≠ 0) : WF t := fun h0 => absurd h0 h

theorem insert_ok (cfg : Cfg) (t : Tab) (next : Nat) (k : List Nat) (vid : Nat) (hwf : WF t) :
    OpOK t next (insert cfg t next k vid) := by
  cases hv : cfg.hasValue
  · -- HList: key temporary only
    have hg := growIfFull_ok cfg t (next + 1) hwf
    have hcap := growIfFull_cap cfg t (next + 1) hwf
    cases hf : findSlot (growIfFull cfg t (next + 1)).2.1.slots k with
    | none =>
      simp only [insert, hv, hf, Bool.false_eq_true, if_false, Option.toList, List.map_nil]
      refine ⟨WF_of_cap hcap, ?_⟩
      intro X evs L1 n1 hk
      simp only [allocB, List.cons_append, List.nil_append, List.append_assoc]
      apply Exec.step_alloc
      refine Exec.permL (L0 := owned t ++ (next :: X)) (by perm_count) ?_
      refine hg.2 (next :: X) _ L1 n1 ?_
      refine hk.permL ?_
      simp only [owned, slotsIds_append, slotsIds_cons, slotsIds_nil]
      perm_count
    | some r =>
      obtain ⟨i, old⟩ := r
      obtain ⟨pre, post, hsl, hlen⟩ := findSlot_some hf
      simp only [insert, hv, hf, Bool.false_eq_true, if_false, Option.toList, List.map_nil]
      refine ⟨WF_of_cap hcap, ?_⟩
      intro X evs L1 n1 hk
      simp only [allocB, freeB, List.cons_append, List.nil_append, List.append_assoc]
      apply Exec.step_alloc
      refine Exec.permL (L0 := owned t ++ (next :: X)) (by perm_count) ?_
      refine hg.2 (next :: X) _ L1 n1 ?_
      refine exec_optFree old.vb (L' := optIds (growIfFull cfg t (next + 1)).2.1.blk ++ slotsIds pre ++
        [old.kb.id] ++ slotsIds post ++ (next :: X)) (by simp only [owned, hsl]; perm_count) ?_
      refine Exec.step_free (x := next) (L' := optIds (growIfFull cfg t (next + 1)).2.1.blk ++ slotsIds pre ++
        [old.kb.id] ++ slotsIds post ++ X) (by perm_count) ?_
      refine hk.permL ?_
      simp only [owned, hsl, ← hlen, set_at_length]
      perm_count
  · have hg := growIfFull_ok cfg t (next + 2) hwf
    have hcap := growIfFull_cap cfg t (next + 2) hwf
    cases hf : findSlot (growIfFull cfg t (next + 2)).2.1.slots k with
    | none =>
      simp only [insert, hv, hf, if_true, Option.toList, List.map_cons, List.map_nil]
      refine ⟨WF_of_cap hcap, ?_⟩
      intro X evs L1 n1 hk
      simp only [allocB, List.cons_append, List.nil_append, List.append_assoc]
      apply Exec.step_alloc
      apply Exec.step_alloc
      refine Exec.permL (L0 := owned t ++ ((next + 1) :: next :: X)) (by perm_count) ?_
      refine hg.2 ((next + 1) :: next :: X) _ L1 n1 ?_
      refine hk.permL ?_
      simp only [owned, slotsIds_append, slotsIds_cons, slotsIds_nil]
      perm_count
    | some r =>
      obtain ⟨i, old⟩ := r
      obtain ⟨pre, post, hsl, hlen⟩ := findSlot_some hf
      simp only [insert, hv, hf, if_true, Option.toList, List.map_cons, List.map_nil]
      refine ⟨WF_of_cap hcap, ?_⟩
      intro X evs L1 n1 hk
      simp only [allocB, freeB, List.cons_append, List.nil_append, List.append_assoc]
      apply Exec.step_alloc
      apply Exec.step_alloc
      refine Exec.permL (L0 := owned t ++ ((next + 1) :: next :: X)) (by perm_count) ?_
      refine hg.2 ((next + 1) :: next :: X) _ L1 n1 ?_
      refine exec_optFree old.vb (L' := optIds (growIfFull cfg t (next + 2)).2.1.blk ++ slotsIds pre ++
        [old.kb.id] ++ slotsIds post ++ ((next + 1) :: next :: X)) (by simp only [owned, hsl]; perm_count) ?_
      refine Exec.step_free (x := next) (L' := optIds (growIfFull cfg t (next + 2)).2.1.blk ++ slotsIds pre ++
        [old.kb.id] ++ slotsIds post ++ ((next + 1) :: X)) (by perm_count) ?_
      refine hk.permL ?_
      simp only [owned, hsl, ← hlen, set_at_length]
      perm_count

theorem get_ok (cfg : Cfg) (t : Tab) (next : Nat) (k : List Nat) (hwf : WF t) : OpOK t next (get cfg t next k) := by
  have hg := growIfFull_ok cfg t next hwf
  have hcap := growIfFull_cap cfg t next hwf
  cases hf : findSlot (growIfFull cfg t next).2.1.slots k with
  | some r => simp only [get, hf]; exact hg
  | none =>
    simp only [get, hf]
    refine ⟨WF_of_cap hcap, ?_⟩
    intro X evs L1 n1 hk
    simp only [allocB, List.append_assoc, List.cons_append, List.nil_append]
    refine hg.2 X _ L1 n1 ?_
    apply Exec.step_alloc
    refine hk.permL ?_
    simp only [owned, slotsIds_append, slotsIds_cons, slotsIds_nil]
    perm_count

theorem assign_ok (cfg : Cfg) (t : Tab) (next : Nat) (k : List Nat) (vid : Nat) (hwf : WF t) :
    OpOK t next (assign cfg t next k vid) := by
  have hg := growIfFull_ok cfg t (next + 1) hwf
  have hcap := growIfFull_cap cfg t (next + 1) hwf
  cases hf : findSlot (growIfFull cfg t (next + 1)).2.1.slots k with
  | none =>
    simp only [assign, hf]
    refine ⟨WF_of_cap hcap, ?_⟩
    intro X evs L1 n1 hk
    simp only [allocB, List.append_assoc, List.cons_append, List.nil_append]
    apply Exec.step_alloc
    refine Exec.permL (L0 := owned t ++ (next :: X)) (by perm_count) ?_
    refine hg.2 (next :: X) _ L1 n1 ?_
    apply Exec.step_alloc
    refine hk.permL ?_
    simp only [owned, slotsIds_append, slotsIds_cons, slotsIds_nil]
    perm_count
  | some r =>
    obtain ⟨i, old⟩ := r
    obtain ⟨pre, post, hsl, hlen⟩ := findSlot_some hf
    simp only [assign, hf]
    refine ⟨WF_of_cap hcap, ?_⟩
    intro X evs L1 n1 hk
    simp only [allocB, List.append_assoc, List.cons_append, List.nil_append]
    apply Exec.step_alloc
    refine Exec.permL (L0 := owned t ++ (next :: X)) (by perm_count) ?_
    refine hg.2 (next :: X) _ L1 n1 ?_
    refine exec_optFree old.vb (L' := optIds (growIfFull cfg t (next + 1)).2.1.blk ++ slotsIds pre ++
      [old.kb.id] ++ slotsIds post ++ (next :: X)) (by simp only [owned, hsl]; perm_count) ?_
    refine hk.permL ?_
    simp only [owned, hsl, ← hlen, set_at_length]
    perm_count

theorem WF_set {t : Tab} (hwf : WF t) (i : Nat) (o : Option Slot) : WF { t with slots := t.slots.set i o } := by
  intro h0
  obtain ⟨h1, h2⟩ := hwf h0
  exact ⟨h1, by simp only [h2, List.set_nil]⟩

theorem remove_ok (t : Tab) (next : Nat) (k : List Nat) (hwf : WF t) : OpOK t next (remove t next k) := by
  cases hf : findSlot t.slots k with
  | none => simp only [remove, hf]; exact OpOK.nop hwf
  | some r =>
    obtain ⟨i, s⟩ := r
    obtain ⟨pre, post, hsl, hlen⟩ := findSlot_some hf
    simp only [remove, hf]
    refine ⟨WF_set hwf i none, ?_⟩
    intro X evs L1 n1 hk
    rw [clearSlot_eq]
    refine Exec.step_frees _ (L' := optIds t.blk ++ slotsIds pre ++ slotsIds post ++ X)
      (by simp only [owned, hsl]; perm_count) ?_
    refine hk.permL ?_
    simp only [owned, hsl, ← hlen, set_at_length]
    perm_count

theorem getElem?_split {α : Type} : ∀ {l : List α} {i : Nat} {x : α}, l[i]? = some x →
    ∃ pre post, l = pre ++ x :: post ∧ pre.length = i
  | [], i, x, h => by simp at h
  | a :: t, 0, x, h => by
    simp only [List.getElem?_cons_zero, Option.some.injEq] at h
    exact ⟨[], t, by rw [h]; rfl, rfl⟩
  | a :: t, i + 1, x, h => by
    simp only [List.getElem?_cons_succ] at h
    obtain ⟨pre, post, hl, hlen⟩ := getElem?_split h
    exact ⟨a :: pre, post, by rw [hl]; rfl, by simp [hlen]⟩

theorem removeIdx_ok (t : Tab) (next : Nat) (i : Nat) (hwf : WF t) : OpOK t next (removeIdx t next i) := by
  cases hf : t.slots[i]? with
  | none => simp only [removeIdx, hf]; exact OpOK.nop hwf
  | some o =>
    cases o with
    | none => simp only [removeIdx, hf]; exact OpOK.nop hwf
    | some s =>
      obtain ⟨pre, post, hsl, hlen⟩ := getElem?_split hf
      simp only [removeIdx, hf]
      refine ⟨WF_set hwf i none, ?_⟩
      intro X evs L1 n1 hk
      rw [clearSlot_eq]
      refine Exec.step_frees _ (L' := optIds t.blk ++ slotsIds pre ++ slotsIds post ++ X)
        (by simp only [owned, hsl]; perm_count) ?_
      refine hk.permL ?_
      simp only [owned, hsl, ← hlen, set_at_length]
      perm_count

theorem rename_fail (t : Tab) (next : Nat) (a b : List Nat) (hwf : WF t) :
    OpOK t next ([allocB ⟨next, a.length + 1⟩, allocB ⟨next + 1, b.length + 1⟩,
      freeB ⟨next + 1, b.length + 1⟩, freeB ⟨next, a.length + 1⟩], t, next + 2) := by
  refine ⟨hwf, ?_⟩
  intro X evs L1 n1 hk
  simp only [allocB, freeB, List.cons_append, List.nil_append]
  apply Exec.step_alloc
  apply Exec.step_alloc
  refine Exec.step_free (x := next + 1) (L' := next :: (owned t ++ X)) (by perm_count) ?_
  refine Exec.step_free (x := next) (L' := owned t ++ X) (by perm_count) ?_
  exact hk

theorem rename_ok (t : Tab) (next : Nat) (a b : List Nat) (hwf : WF t) : OpOK t next (rename t next a b) := by
  cases hfa : findSlot t.slots a with
  | none => simp only [rename, hfa]; exact rename_fail t next a b hwf
  | some r =>
    obtain ⟨i, s⟩ := r
    cases hfb : findSlot t.slots b with
    | some r' => simp only [rename, hfa, hfb]; exact rename_fail t next a b hwf
    | none =>
      obtain ⟨pre, post, hsl, hlen⟩ := findSlot_some hfa
      simp only [rename, hfa, hfb]
      refine ⟨WF_set hwf i _, ?_⟩
      intro X evs L1 n1 hk
      simp only [allocB, freeB, List.cons_append, List.nil_append]
      apply Exec.step_alloc
      apply Exec.step_alloc
      refine Exec.step_free (x := s.kb.id) (L' := optIds t.blk ++ slotsIds pre ++ optIds s.vb ++ slotsIds post ++
        ((next + 1) :: next :: X)) (by simp only [owned, hsl]; perm_count) ?_
      refine Exec.step_free (x := next) (L' := optIds t.blk ++ slotsIds pre ++ optIds s.vb ++ slotsIds post ++
        ((next + 1) :: X)) (by perm_count) ?_
      refine hk.permL ?_
      simp only [owned, hsl, ← hlen, set_at_length]
      perm_count

theorem reset_ok (t : Tab) (next : Nat) (hwf : WF t) : OpOK t next (reset t next) := by
  unfold reset
  split
  · refine ⟨WF_empty, ?_⟩
    intro X evs L1 n1 hk
    simp only [List.append_assoc]
    refine exec_disposeAll t.slots (L' := optIds t.blk ++ X) (by perm_count) ?_
    refine exec_optFree t.blk (L' := X) (List.Perm.refl _) ?_
    exact hk.permL (by simp [owned, Tab.empty, optIds])
  · exact OpOK.nop hwf

theorem reset_owned (t : Tab) (next : Nat) (hwf : WF t) :
    (reset t next).2.1.slots = [] ∧ (reset t next).2.1.blk = none ∧ (reset t next).2.2 = next := by
  unfold reset
  split
  · exact ⟨rfl, rfl, rfl⟩
  · rename_i h
    simp only [ne_eq, not_not] at h
    exact ⟨(hwf h).2, (hwf h).1, rfl⟩

theorem reserve_ok (cfg : Cfg) (t : Tab) (next : Nat) (n : Nat) (hwf : WF t) : OpOK t next (reserve cfg t next n) := by
  have hr := reset_ok t next hwf
  obtain ⟨h1, h2, h3⟩ := reset_owned t next hwf
  unfold reserve
  simp only
  split
  · refine ⟨WF_of_cap (allocCap_ne_zero n), ?_⟩
    intro X evs L1 n1 hk
    simp only [List.append_assoc, List.cons_append, List.nil_append, allocB]
    refine hr.2 X _ L1 n1 ?_
    rw [h3]
    apply Exec.step_alloc
    refine hk.permL ?_
    simp only [owned, h1, h2, optIds]
    perm_count
  · exact hr

theorem clear_ok (t : Tab) (next : Nat) (hwf : WF t) : OpOK t next (clear t next) := by
  unfold clear
  split
  · refine ⟨fun h0 => ⟨(hwf h0).1, rfl⟩, ?_⟩
    intro X evs L1 n1 hk
    refine exec_disposeAll t.slots (L' := optIds t.blk ++ X) (by perm_count) ?_
    exact hk.permL (by simp [owned])
  · exact OpOK.nop hwf

theorem resizeTo_ok (cfg : Cfg) (t : Tab) (next : Nat) (n : Nat) (hwf : WF t) : OpOK t next (resizeTo cfg t next n) := by
  unfold resizeTo
  split
  · exact reset_ok t next hwf
  · have hr := realloc_ok cfg { t with slots := t.slots.take n } n next
    refine ⟨hr.1, ?_⟩
    intro X evs L1 n1 hk
    simp only [List.append_assoc]
    have hsplit : slotsIds t.slots = slotsIds (t.slots.take n) ++ slotsIds (t.slots.drop n) := by
      rw [← slotsIds_append, List.take_append_drop]
    refine exec_disposeAll (t.slots.drop n) (L' := owned { t with slots := t.slots.take n } ++ X)
      (by simp only [owned, hsplit]; perm_count) ?_
    exact hr.2 X evs L1 n1 hk

theorem expect_ok (cfg : Cfg) (t : Tab) (next : Nat) (c : Nat) (hwf : WF t) : OpOK t next (expect cfg t next c) := by
  unfold expect
  split
  · exact realloc_ok cfg t _ next
  · exact OpOK.nop hwf

theorem compress_ok (cfg : Cfg) (t : Tab) (next : Nat) (hwf : WF t) : OpOK t next (compress cfg t next) := by
  unfold compress
  simp only
  split
  · split
    · exact realloc_ok cfg t _ next
    · exact OpOK.nop hwf
  · exact reset_ok t next hwf

theorem sort_ok (cfg : Cfg) (t : Tab) (next : Nat) (asc : Bool) (hwf : WF t) : OpOK t next (sort cfg t next asc) := by
  have hperm : ((sortSeg (slotCmp cfg.ord asc) (t.slots.length + 1) t.slots.toArray 0 t.slots.length).toList).Perm t.slots := by
    have := (sortSeg_spec (slotCmp cfg.ord asc) (slotCmp cfg.ord asc) id (t.slots.length + 1)
      t.slots.toArray 0 t.slots.length (fun _ _ _ _ => rfl)).2
    simpa using this.toList
  refine ⟨?_, ?_⟩
  · intro h0
    obtain ⟨h1, h2⟩ := hwf h0
    refine ⟨h1, ?_⟩
    simp only [sort]
    have : ((sortSeg (slotCmp cfg.ord asc) (t.slots.length + 1) t.slots.toArray 0 t.slots.length).toList).Perm [] := by
      rw [h2] at hperm ⊢; exact hperm
    exact this.eq_nil
  · intro X evs L1 n1 hk
    simp only [sort, List.nil_append]
    refine hk.permL ?_
    simp only [owned, sort, slotsIds]
    exact (List.Perm.append_left _ (hperm.flatMap_right slotIds).symm).append_right X

end Qentem.HashLedger
