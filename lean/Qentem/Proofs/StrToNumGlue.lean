import Qentem.Proofs.StrToNumGood
import Qentem.Proofs.StrToNumTailInt
import Qentem.Proofs.StrToNumCut
/-! C09: from a scan result (`finishReal …`) to the outcome `Good` on the exact value of the whole numeral, for every
continuation of the text after the scan stop. Dot regime (`glueD_*`: a dot was seen by the scan, or the fraction-only
path; the digits after the stop are dropped fraction digits) and integer regime (`glueI_*`: no dot seen; the digits after
the stop are ignored integer digits, possibly followed by a late dot and fraction digits). -/
set_option linter.unusedSimpArgs false
namespace Qentem.StrToNum
open Qentem.Round

/-- the exact fraction of mantissa `M` (an integer), decimal exponent `±k` and `f` fraction digits -/
def valFrac (M k : Nat) (eneg : Bool) (f : Nat) : Nat × Nat :=
  if eneg then (M, 10 ^ (k + f)) else if k ≥ f then (M * 10 ^ (k - f), 1) else (M, 10 ^ (f - k))

theorem truncFrac_netExp (vt k : Nat) (kneg fo : Bool) (f j : Nat) :
    truncFrac vt (netExp fo k kneg f).1 (netExp fo k kneg f).2 j = valFrac vt k kneg (f + j) ∨
    (j = 0 ∧ f = 0 ∧ k = 0 ∧ kneg = true ∧ fo = false ∧
      truncFrac vt (netExp fo k kneg f).1 (netExp fo k kneg f).2 j = (vt * 10 ^ 0, 1) ∧ valFrac vt k kneg (f + j) = (vt, 10 ^ 0)) := by
  unfold truncFrac netExp valFrac
  cases kneg <;> cases fo <;> simp only [Bool.false_and, Bool.true_and, Bool.false_or, Bool.true_or, Bool.false_eq_true,
    if_false, if_true, ge_iff_le]
  all_goals (try (left; congr 2; omega))
  · -- positive exponent, !fo
    left
    by_cases h : f ≤ k
    · simp only [h, if_true, Bool.false_eq_true, if_false]
      by_cases h2 : j ≤ k - f
      · rw [if_pos h2, if_pos (by omega)]; congr 3; omega
      · rw [if_neg h2, if_neg (by omega)]; congr 2; omega
    · simp only [h, if_false, if_true]
      rw [if_neg (by omega)]; congr 2; omega
  · -- positive exponent, fo
    left
    by_cases h : f ≤ k
    · simp only [h, if_true, Bool.false_eq_true, if_false]
      by_cases h2 : j ≤ k - f
      · rw [if_pos h2, if_pos (by omega)]; congr 3; omega
      · rw [if_neg h2, if_neg (by omega)]; congr 2; omega
    · simp only [h, if_false, if_true]
      rw [if_neg (by omega)]; congr 2; omega
  · -- negative exponent, !fo
    by_cases hk : k = 0
    · subst hk
      simp only [ne_eq, not_true_eq_false, decide_false, Bool.false_eq_true, if_false, Nat.zero_le, Nat.zero_add]
      by_cases h : f ≤ 0
      · have hf : f = 0 := by omega
        subst hf
        simp only [Nat.le_refl, if_true, Bool.false_eq_true, if_false, Nat.sub_self, Nat.zero_add]
        by_cases hj : j = 0
        · subst hj
          right
          simp
        · left
          rw [if_neg (by omega), Nat.sub_zero]
      · left
        simp only [h, if_false, if_true, Nat.sub_zero]
    · left
      simp only [ne_eq, hk, not_false_eq_true, decide_true, if_true]
      congr 2; omega

theorem good_truncFrac_netExp {neg : Bool} {vt k : Nat} {kneg fo : Bool} {f j fin : Nat} {res : Option Res}
    (h : Good neg (truncFrac vt (netExp fo k kneg f).1 (netExp fo k kneg f).2 j).1
      (truncFrac vt (netExp fo k kneg f).1 (netExp fo k kneg f).2 j).2 fin res) :
    Good neg (valFrac vt k kneg (f + j)).1 (valFrac vt k kneg (f + j)).2 fin res := by
  rcases truncFrac_netExp vt k kneg fo f j with h1 | ⟨_, _, _, _, _, h2, h3⟩
  · rw [← h1]; exact h
  · rw [h2] at h; rw [h3]; simpa using h

/-- what a nonzero-leading digit string is worth -/
theorem decVal_bounds (K : List Nat) (k1 : Nat) (kt : List Nat) (hK : K = k1 :: kt) (h1 : isNonZeroDigit k1 = true)
    (hd : AllDigits K) : 10 ^ (K.length - 1) ≤ decVal K ∧ decVal K < 10 ^ K.length ∧ 0 < decVal K := by
  subst hK
  have hge := decVal_ge k1 kt h1
  have hlt := decVal_lt_pow (k1 :: kt) hd
  refine ⟨by simpa using hge, hlt, Nat.lt_of_lt_of_le (Nat.pow_pos (by decide)) hge⟩

/-- out of range: a mantissa with `n + j` digits, `f + j` fraction digits (`j` of them dropped by the scan) and a decimal
exponent of magnitude `≥ 10^8`, when `f + n + 400 ≤ 10^8` -/
theorem valFrac_out_of_range (vt k : Nat) (eneg : Bool) (n j f : Nat) (hlo : 10 ^ (n - 1 + j) ≤ vt)
    (hvt : vt < 10 ^ (n + j)) (hn1 : 1 ≤ n) (hk : 100000000 ≤ k) (hF : f + n + 400 ≤ 100000000) :
    (valFrac vt k eneg (f + j)).1 * 2 ^ 1074 < (valFrac vt k eneg (f + j)).2 ∨
    (2 ^ 53 - 1) * 2 ^ 971 * (valFrac vt k eneg (f + j)).2 < (valFrac vt k eneg (f + j)).1 := by
  unfold valFrac
  cases eneg with
  | true =>
    left
    simp only [if_true]
    have h1 : n + j + 325 ≤ k + (f + j) := by omega
    calc vt * 2 ^ 1074 < 10 ^ (n + j) * 2 ^ 1074 := Nat.mul_lt_mul_of_pos_right hvt (Nat.pow_pos (by decide))
      _ ≤ 10 ^ (n + j) * 10 ^ 325 := Nat.mul_le_mul_left _ minSub_pow325
      _ = 10 ^ (n + j + 325) := (Nat.pow_add _ _ _).symm
      _ ≤ 10 ^ (k + (f + j)) := Nat.pow_le_pow_right (by decide) h1
  | false =>
    right
    simp only [Bool.false_eq_true, if_false]
    by_cases hkF : k ≥ f + j
    · rw [if_pos hkF]
      simp only [Nat.mul_one]
      have h1 : 309 ≤ n - 1 + j + (k - (f + j)) := by omega
      calc (2 ^ 53 - 1) * 2 ^ 971 < 10 ^ 309 := maxFinite_lt_pow309
        _ ≤ 10 ^ (n - 1 + j + (k - (f + j))) := Nat.pow_le_pow_right (by decide) h1
        _ = 10 ^ (n - 1 + j) * 10 ^ (k - (f + j)) := Nat.pow_add _ _ _
        _ ≤ vt * 10 ^ (k - (f + j)) := Nat.mul_le_mul_right _ hlo
    · rw [if_neg hkF]
      simp only
      have h1 : 309 + (f + j - k) ≤ n - 1 + j := by omega
      calc (2 ^ 53 - 1) * 2 ^ 971 * 10 ^ (f + j - k) < 10 ^ 309 * 10 ^ (f + j - k) :=
            Nat.mul_lt_mul_of_pos_right maxFinite_lt_pow309 (Nat.pow_pos (by decide))
        _ = 10 ^ (309 + (f + j - k)) := (Nat.pow_add _ _ _).symm
        _ ≤ 10 ^ (n - 1 + j) := Nat.pow_le_pow_right (by decide) h1
        _ ≤ vt := hlo

/-- dot regime, the numeral ends after the dropped fraction digits `R` -/
theorem glueD_end (c : List Nat) (e : Nat) (neg : Bool) (stop start : Nat) (fo : Bool) (dotOff : Nat)
    (K : List Nat) (k1 : Nat) (kt R : List Nat) (n f : Nat) (he : e < 2 ^ 32)
    (hK : K = k1 :: kt) (hk1 : isNonZeroDigit k1 = true) (hKd : AllDigits K) (hn : K.length = n) (hn19 : n ≤ 19)
    (hR : AllDigits R) (hur : unitsAt c e stop R) (hQ : stop + R.length = e)
    (hep : sub32 (sub32 stop start) (b2n (!fo && true)) = n)
    (hen : (if fo then add32 n (sub32 (sub32 start dotOff) 1) else if true then sub32 (sub32 stop dotOff) 1 else 0) = f)
    (hf : f < 2 ^ 31)
    (htr : R = [] ∨ (10 ^ 16 ≤ decVal K ∧ 10 ^ 17 * decVal (K ++ R) < (10 ^ 17 + 1) * (decVal K * 10 ^ R.length))) :
    Good neg (valFrac (decVal (K ++ R)) 0 false (f + R.length)).1 (valFrac (decVal (K ++ R)) 0 false (f + R.length)).2 e
      (finishReal c e neg (decVal K) stop stop start fo true dotOff) := by
  obtain ⟨hlo, hhi, hv0⟩ := decVal_bounds K k1 kt hK hk1 hKd
  rw [hn] at hlo hhi
  have hv64 : decVal K < 2 ^ 64 :=
    Nat.lt_of_lt_of_le hhi (Nat.le_trans (Nat.pow_le_pow_right (by decide) hn19) (by decide))
  have hn1 : 1 ≤ n := by rw [← hn, hK]; simp
  have hdr := digitsOn_of_unitsAt c e R stop hR hur
  rw [hQ] at hdr
  rw [finishReal_end_skip c e neg _ stop stop start fo true dotOff e hdr (by omega) (Nat.le_refl _) (Or.inl rfl)
    (Or.inl rfl) n f hep hen hf]
  have hX : (netExp fo 0 false f).1 < 2 ^ 31 := by
    unfold netExp; simp; split <;> simp <;> omega
  apply good_truncFrac_netExp (fo := fo)
  rcases htr with hnil | ⟨h16, hrel⟩
  · subst hnil
    have hcl := good_of_class (realResult_class_all neg (decVal K) n (netExp fo 0 false f).1 (netExp fo 0 false f).2 e
      hv0 hv64 hlo hhi hn1 hn19 hX)
    simp only [List.append_nil, List.length_nil]
    unfold truncFrac
    generalize (netExp fo 0 false f).1 = X at *
    generalize (netExp fo 0 false f).2 = FLAG at *
    cases FLAG <;> simpa using hcl
  · have ht1 := (decVal_trunc K R hR).1
    exact realResult_trunc neg (decVal K) n _ _ e R.length (decVal (K ++ R)) h16 hv64 hlo hhi hn1 (by omega) hX ht1 hrel

/-- dot regime, an exponent follows the dropped fraction digits `R` -/
theorem glueD_exp (c : List Nat) (e : Nat) (neg : Bool) (stop start : Nat) (fo : Bool) (dotOff : Nat)
    (K : List Nat) (k1 : Nat) (kt R : List Nat) (n f m : Nat) (es ks : List Nat) (he : e < 2 ^ 32)
    (hK : K = k1 :: kt) (hk1 : isNonZeroDigit k1 = true) (hKd : AllDigits K) (hn : K.length = n) (hn19 : n ≤ 19)
    (hR : AllDigits R) (hur : unitsAt c e stop R)
    (hm : rd c e (stop + R.length) = some m) (hmE : m = 101 ∨ m = 69)
    (hes : es = [] ∨ es = [43] ∨ es = [45]) (hks : AllDigits ks) (hk0 : ks ≠ [])
    (hu : unitsAt c e (stop + R.length + 1) (es ++ ks)) (hQ : stop + R.length + 1 + es.length + ks.length = e)
    (hep : sub32 (sub32 stop start) (b2n (!fo && true)) = n)
    (hen : (if fo then add32 n (sub32 (sub32 start dotOff) 1) else if true then sub32 (sub32 stop dotOff) 1 else 0) = f)
    (hbound : f + R.length + n + 400 ≤ 100000000)
    (htr : R = [] ∨ (10 ^ 16 ≤ decVal K ∧ 10 ^ 17 * decVal (K ++ R) < (10 ^ 17 + 1) * (decVal K * 10 ^ R.length))) :
    Good neg (valFrac (decVal (K ++ R)) (decVal ks) (decide (es = [45])) (f + R.length)).1
      (valFrac (decVal (K ++ R)) (decVal ks) (decide (es = [45])) (f + R.length)).2 e
      (finishReal c e neg (decVal K) stop stop start fo true dotOff) := by
  obtain ⟨hlo, hhi, hv0⟩ := decVal_bounds K k1 kt hK hk1 hKd
  rw [hn] at hlo hhi
  have hv64 : decVal K < 2 ^ 64 :=
    Nat.lt_of_lt_of_le hhi (Nat.le_trans (Nat.pow_le_pow_right (by decide) hn19) (by decide))
  have hn1 : 1 ≤ n := by rw [← hn, hK]; simp
  have hdr := digitsOn_of_unitsAt c e R stop hR hur
  have hend : endsAt c e (stop + R.length + 1 + es.length + ks.length) isDigit := Or.inl hQ
  obtain ⟨t1, t2⟩ := decVal_trunc K R hR
  rcases Nat.lt_or_ge (decVal ks) 100000000 with hsmall | hbig
  · rw [finishReal_exp_skip c e neg _ stop stop start fo true dotOff (stop + R.length) m es ks hdr (by omega) hm hmE he
      hes hks hk0 hu hend (Or.inl rfl) hsmall n f hep hen (by omega)]
    rw [hQ]
    have hX : (netExp fo (decVal ks) (decide (es = [45])) f).1 < 2 ^ 31 := by
      unfold netExp
      split
      · simp; omega
      · split <;> simp <;> omega
    apply good_truncFrac_netExp (fo := fo)
    rcases htr with hnil | ⟨h16, hrel⟩
    · subst hnil
      have hcl := good_of_class (realResult_class_all neg (decVal K) n (netExp fo (decVal ks) (decide (es = [45])) f).1
        (netExp fo (decVal ks) (decide (es = [45])) f).2 e hv0 hv64 hlo hhi hn1 hn19 hX)
      simp only [List.append_nil, List.length_nil]
      unfold truncFrac
      generalize (netExp fo (decVal ks) (decide (es = [45])) f).1 = X at *
      generalize (netExp fo (decVal ks) (decide (es = [45])) f).2 = FLAG at *
      cases FLAG <;> simpa using hcl
    · exact realResult_trunc neg (decVal K) n _ _ e R.length (decVal (K ++ R)) h16 hv64 hlo hhi hn1 (by omega) hX t1 hrel
  · rw [finishReal_exp_sat c e neg _ stop stop start fo true dotOff (stop + R.length) m es ks hdr (by omega) hm hmE
      hes hks hk0 hu hend (by omega) hbig]
    rw [hQ]
    have hvtlo : 10 ^ (n - 1 + R.length) ≤ decVal (K ++ R) := by
      rw [Nat.pow_add]
      exact Nat.le_trans (Nat.mul_le_mul_right _ hlo) t1
    have hvt : decVal (K ++ R) < 10 ^ (n + R.length) := by
      rw [Nat.pow_add]
      exact Nat.lt_of_lt_of_le t2 (Nat.mul_le_mul_right _ (by omega))
    exact ⟨_, rfl, rfl, Or.inl ⟨rfl, valFrac_out_of_range _ _ _ n R.length f hvtlo hvt hn1 hbig (by omega)⟩⟩

end Qentem.StrToNum
