import Qentem.Proofs.StrToNumGood
import Qentem.Proofs.StrToNumTailInt
import Qentem.Proofs.StrToNumCut
/-! C09: from a scan result (`finishReal …`) to the outcome `Good` on the exact value of the whole numeral, for every
continuation of the text after the scan stop. Dot regime (`glueD_*`: a dot was seen by the scan, or the fraction-only
path; the digits after the stop are dropped fraction digits) and integer regime (`glueI_*`: no dot seen; the digits after
the stop are ignored integer digits, possibly followed by a late dot and fraction digits). -/
set_option linter.unusedSimpArgs false
namespace Qentem.StrToNum
open Qentem.Round

/-- the exact fraction of mantissa `M` (an integer), decimal exponent `±k` and `f` fraction digits -/
def valFrac (M k : Nat) (eneg : Bool) (f : Nat) : Nat × Nat :=
  if eneg then (M, 10 ^ (k + f)) else if k ≥ f then (M * 10 ^ (k - f), 1) else (M, 10 ^ (f - k))

theorem truncFrac_netExp (vt k : Nat) (kneg fo : Bool) (f j : Nat) :
    truncFrac vt (netExp fo k kneg f).1 (netExp fo k kneg f).2 j = valFrac vt k kneg (f + j) ∨
    (j = 0 ∧ f = 0 ∧ k = 0 ∧ kneg = true ∧ fo = false ∧
      truncFrac vt (netExp fo k kneg f).1 (netExp fo k kneg f).2 j = (vt * 10 ^ 0, 1) ∧ valFrac vt k kneg (f + j) = (vt, 10 ^ 0)) := by
  unfold truncFrac netExp valFrac
  cases kneg <;> cases fo <;> simp only [Bool.false_and, Bool.true_and, Bool.false_or, Bool.true_or, Bool.false_eq_true,
    if_false, if_true, ge_iff_le]
  all_goals (try (left; congr 2; omega))
  · -- positive exponent, !fo
    left
    by_cases h : f ≤ k
    · simp only [h, if_true, Bool.false_eq_true, if_false]
      by_cases h2 : j ≤ k - f
      · rw [if_pos h2, if_pos (by omega)]; congr 3; omega
      · rw [if_neg h2, if_neg (by omega)]; congr 2; omega
    · simp only [h, if_false, if_true]
      rw [if_neg (by omega)]; congr 2; omega
  · -- positive exponent, fo
    left
    by_cases h : f ≤ k
    · simp only [h, if_true, Bool.false_eq_true, if_false]
      by_cases h2 : j ≤ k - f
      · rw [if_pos h2, if_pos (by omega)]; congr 3; omega
      · rw [if_neg h2, if_neg (by omega)]; congr 2; omega
    · simp only [h, if_false, if_true]
      rw [if_neg (by omega)]; congr 2; omega
  · -- negative exponent, !fo
    by_cases hk : k = 0
    · subst hk
      simp only [ne_eq, not_true_eq_false, decide_false, Bool.false_eq_true, if_false, Nat.zero_le, Nat.zero_add]
      by_cases h : f ≤ 0
      · have hf : f = 0 := by omega
        subst hf
        simp only [Nat.le_refl, if_true, Bool.false_eq_true, if_false, Nat.sub_self, Nat.zero_add]
        by_cases hj : j = 0
        · subst hj
          right
          simp
        · left
          rw [if_neg (by omega), Nat.sub_zero]
      · left
        simp only [h, if_false, if_true, Nat.sub_zero]
    · left
      simp only [ne_eq, hk, not_false_eq_true, decide_true, if_true]
      congr 2; omega

theorem good_truncFrac_netExp {neg : Bool} {vt k : Nat} {kneg fo : Bool} {f j fin : Nat} {res : Option Res}
    (h : Good neg (truncFrac vt (netExp fo k kneg f).1 (netExp fo k kneg f).2 j).1
      (truncFrac vt (netExp fo k kneg f).1 (netExp fo k kneg f).2 j).2 fin res) :
    Good neg (valFrac vt k kneg (f + j)).1 (valFrac vt k kneg (f + j)).2 fin res := by
  rcases truncFrac_netExp vt k kneg fo f j with h1 | ⟨_, _, _, _, _, h2, h3⟩
  · rw [← h1]; exact h
  · rw [h2] at h; rw [h3]; simpa using h

/-! ### conversions from the `ClassOutcome` statements of the shape theorems -/

theorem good_of_class_netExp {neg : Bool} {v k : Nat} {kneg fo : Bool} {f fin : Nat} {res : Option Res}
    (h : ClassOutcome neg v (netExp fo k kneg f).1 (netExp fo k kneg f).2 fin res) :
    Good neg (valFrac v k kneg f).1 (valFrac v k kneg f).2 fin res := by
  have hg := good_of_class h
  have := good_truncFrac_netExp (neg := neg) (vt := v) (k := k) (kneg := kneg) (fo := fo) (f := f) (j := 0) (fin := fin)
    (res := res) (by
      unfold truncFrac
      generalize (netExp fo k kneg f).1 = X at *
      generalize (netExp fo k kneg f).2 = FLAG at *
      cases FLAG <;> simpa using hg)
  simpa using this

/-- appending `j` zero fraction digits does not change the value -/
theorem good_valFrac_zeros {neg : Bool} {M k : Nat} {eneg : Bool} {f j fin : Nat} {res : Option Res} (hM : 0 < M)
    (h : Good neg (valFrac M k eneg f).1 (valFrac M k eneg f).2 fin res) :
    Good neg (valFrac (M * 10 ^ j) k eneg (f + j)).1 (valFrac (M * 10 ^ j) k eneg (f + j)).2 fin res := by
  have h10 : ∀ t : Nat, 0 < 10 ^ t := fun t => Nat.pow_pos (by decide)
  unfold valFrac at h ⊢
  cases eneg with
  | true =>
    simp only [if_true] at h ⊢
    have := good_scale hM (h10 _) (h10 j) h
    rw [← Nat.pow_add] at this
    rw [show k + (f + j) = k + f + j by omega]; exact this
  | false =>
    simp only [Bool.false_eq_true, if_false, ge_iff_le] at h ⊢
    by_cases h1 : f ≤ k
    · rw [if_pos h1] at h
      by_cases h2 : f + j ≤ k
      · rw [if_pos h2]
        have e : M * 10 ^ j * 10 ^ (k - (f + j)) = M * 10 ^ (k - f) := by
          rw [Nat.mul_assoc, ← Nat.pow_add]; congr 2; omega
        rw [e]; exact h
      · rw [if_neg h2]
        have := good_scale (Nat.mul_pos hM (h10 _)) (by decide : 0 < 1) (h10 (f + j - k)) h
        have e : M * 10 ^ (k - f) * 10 ^ (f + j - k) = M * 10 ^ j := by
          rw [Nat.mul_assoc, ← Nat.pow_add]; congr 2; omega
        rw [e, Nat.one_mul] at this
        exact this
    · rw [if_neg h1] at h
      rw [if_neg (by omega)]
      have := good_scale hM (h10 _) (h10 j) h
      rw [← Nat.pow_add] at this
      rw [show f + j - k = f - k + j by omega]; exact this

/-- what a nonzero-leading digit string is worth -/
theorem decVal_bounds (K : List Nat) (k1 : Nat) (kt : List Nat) (hK : K = k1 :: kt) (h1 : isNonZeroDigit k1 = true)
    (hd : AllDigits K) : 10 ^ (K.length - 1) ≤ decVal K ∧ decVal K < 10 ^ K.length ∧ 0 < decVal K := by
  subst hK
  have hge := decVal_ge k1 kt h1
  have hlt := decVal_lt_pow (k1 :: kt) hd
  refine ⟨by simpa using hge, hlt, Nat.lt_of_lt_of_le (Nat.pow_pos (by decide)) hge⟩

/-- out of range: a mantissa with `n + j` digits, `f + j` fraction digits (`j` of them dropped by the scan) and a decimal
exponent of magnitude `≥ 10^8`, when `f + n + 400 ≤ 10^8` -/
theorem valFrac_out_of_range (vt k : Nat) (eneg : Bool) (n j f : Nat) (hlo : 10 ^ (n - 1 + j) ≤ vt)
    (hvt : vt < 10 ^ (n + j)) (hn1 : 1 ≤ n) (hk : 100000000 ≤ k) (hF : f + n + 400 ≤ 100000000) :
    (valFrac vt k eneg (f + j)).1 * 2 ^ 1074 < (valFrac vt k eneg (f + j)).2 ∨
    (2 ^ 53 - 1) * 2 ^ 971 * (valFrac vt k eneg (f + j)).2 < (valFrac vt k eneg (f + j)).1 := by
  unfold valFrac
  cases eneg with
  | true =>
    left
    simp only [if_true]
    have h1 : n + j + 325 ≤ k + (f + j) := by omega
    calc vt * 2 ^ 1074 < 10 ^ (n + j) * 2 ^ 1074 := Nat.mul_lt_mul_of_pos_right hvt (Nat.pow_pos (by decide))
      _ ≤ 10 ^ (n + j) * 10 ^ 325 := Nat.mul_le_mul_left _ minSub_pow325
      _ = 10 ^ (n + j + 325) := (Nat.pow_add _ _ _).symm
      _ ≤ 10 ^ (k + (f + j)) := Nat.pow_le_pow_right (by decide) h1
  | false =>
    right
    simp only [Bool.false_eq_true, if_false]
    by_cases hkF : k ≥ f + j
    · rw [if_pos hkF]
      simp only [Nat.mul_one]
      have h1 : 309 ≤ n - 1 + j + (k - (f + j)) := by omega
      calc (2 ^ 53 - 1) * 2 ^ 971 < 10 ^ 309 := maxFinite_lt_pow309
        _ ≤ 10 ^ (n - 1 + j + (k - (f + j))) := Nat.pow_le_pow_right (by decide) h1
        _ = 10 ^ (n - 1 + j) * 10 ^ (k - (f + j)) := Nat.pow_add _ _ _
        _ ≤ vt * 10 ^ (k - (f + j)) := Nat.mul_le_mul_right _ hlo
    · rw [if_neg hkF]
      simp only
      have h1 : 309 + (f + j - k) ≤ n - 1 + j := by omega
      calc (2 ^ 53 - 1) * 2 ^ 971 * 10 ^ (f + j - k) < 10 ^ 309 * 10 ^ (f + j - k) :=
            Nat.mul_lt_mul_of_pos_right maxFinite_lt_pow309 (Nat.pow_pos (by decide))
        _ = 10 ^ (309 + (f + j - k)) := (Nat.pow_add _ _ _).symm
        _ ≤ 10 ^ (n - 1 + j) := Nat.pow_le_pow_right (by decide) h1
        _ ≤ vt := hlo

/-- dot regime, the numeral ends after the dropped fraction digits `R` -/
theorem glueD_end (c : List Nat) (e : Nat) (neg : Bool) (stop start : Nat) (fo : Bool) (dotOff : Nat)
    (K : List Nat) (k1 : Nat) (kt R : List Nat) (n f : Nat) (he : e < 2 ^ 32)
    (hK : K = k1 :: kt) (hk1 : isNonZeroDigit k1 = true) (hKd : AllDigits K) (hn : K.length = n) (hn19 : n ≤ 19)
    (hR : AllDigits R) (hur : unitsAt c e stop R) (hQ : stop + R.length = e)
    (hep : sub32 (sub32 stop start) (b2n (!fo && true)) = n)
    (hen : (if fo then add32 n (sub32 (sub32 start dotOff) 1) else if true then sub32 (sub32 stop dotOff) 1 else 0) = f)
    (hf : f < 2 ^ 31)
    (htr : decVal (K ++ R) = decVal K * 10 ^ R.length ∨
      (10 ^ 16 ≤ decVal K ∧ 10 ^ 17 * decVal (K ++ R) < (10 ^ 17 + 1) * (decVal K * 10 ^ R.length))) :
    Good neg (valFrac (decVal (K ++ R)) 0 false (f + R.length)).1 (valFrac (decVal (K ++ R)) 0 false (f + R.length)).2 e
      (finishReal c e neg (decVal K) stop stop start fo true dotOff) := by
  obtain ⟨hlo, hhi, hv0⟩ := decVal_bounds K k1 kt hK hk1 hKd
  rw [hn] at hlo hhi
  have hv64 : decVal K < 2 ^ 64 :=
    Nat.lt_of_lt_of_le hhi (Nat.le_trans (Nat.pow_le_pow_right (by decide) hn19) (by decide))
  have hn1 : 1 ≤ n := by rw [← hn, hK]; simp
  have hdr := digitsOn_of_unitsAt c e R stop hR hur
  rw [hQ] at hdr
  rw [finishReal_end_skip c e neg _ stop stop start fo true dotOff e hdr (by omega) (Nat.le_refl _) (Or.inl rfl)
    (Or.inl rfl) n f hep hen hf]
  have hX : (netExp fo 0 false f).1 < 2 ^ 31 := by
    unfold netExp; simp; split <;> simp <;> omega
  rcases htr with hex | ⟨h16, hrel⟩
  · have hcl := good_of_class_netExp (realResult_class_all neg (decVal K) n (netExp fo 0 false f).1 (netExp fo 0 false f).2 e
      hv0 hv64 hlo hhi hn1 hn19 hX)
    rw [hex]
    exact good_valFrac_zeros hv0 hcl
  · apply good_truncFrac_netExp (fo := fo)
    have ht1 := (decVal_trunc K R hR).1
    exact realResult_trunc neg (decVal K) n _ _ e R.length (decVal (K ++ R)) h16 hv64 hlo hhi hn1 (by omega) hX ht1 hrel

/-- dot regime, an exponent follows the dropped fraction digits `R` -/
theorem glueD_exp (c : List Nat) (e : Nat) (neg : Bool) (stop start : Nat) (fo : Bool) (dotOff : Nat)
    (K : List Nat) (k1 : Nat) (kt R : List Nat) (n f m : Nat) (es ks : List Nat) (he : e < 2 ^ 32)
    (hK : K = k1 :: kt) (hk1 : isNonZeroDigit k1 = true) (hKd : AllDigits K) (hn : K.length = n) (hn19 : n ≤ 19)
    (hR : AllDigits R) (hur : unitsAt c e stop R)
    (hm : rd c e (stop + R.length) = some m) (hmE : m = 101 ∨ m = 69)
    (hes : es = [] ∨ es = [43] ∨ es = [45]) (hks : AllDigits ks) (hk0 : ks ≠ [])
    (hu : unitsAt c e (stop + R.length + 1) (es ++ ks)) (hQ : stop + R.length + 1 + es.length + ks.length = e)
    (hep : sub32 (sub32 stop start) (b2n (!fo && true)) = n)
    (hen : (if fo then add32 n (sub32 (sub32 start dotOff) 1) else if true then sub32 (sub32 stop dotOff) 1 else 0) = f)
    (hbound : f + R.length + n + 400 ≤ 100000000)
    (htr : decVal (K ++ R) = decVal K * 10 ^ R.length ∨
      (10 ^ 16 ≤ decVal K ∧ 10 ^ 17 * decVal (K ++ R) < (10 ^ 17 + 1) * (decVal K * 10 ^ R.length))) :
    Good neg (valFrac (decVal (K ++ R)) (decVal ks) (decide (es = [45])) (f + R.length)).1
      (valFrac (decVal (K ++ R)) (decVal ks) (decide (es = [45])) (f + R.length)).2 e
      (finishReal c e neg (decVal K) stop stop start fo true dotOff) := by
  obtain ⟨hlo, hhi, hv0⟩ := decVal_bounds K k1 kt hK hk1 hKd
  rw [hn] at hlo hhi
  have hv64 : decVal K < 2 ^ 64 :=
    Nat.lt_of_lt_of_le hhi (Nat.le_trans (Nat.pow_le_pow_right (by decide) hn19) (by decide))
  have hn1 : 1 ≤ n := by rw [← hn, hK]; simp
  have hdr := digitsOn_of_unitsAt c e R stop hR hur
  have hend : endsAt c e (stop + R.length + 1 + es.length + ks.length) isDigit := Or.inl hQ
  obtain ⟨t1, t2⟩ := decVal_trunc K R hR
  rcases Nat.lt_or_ge (decVal ks) 100000000 with hsmall | hbig
  · rw [finishReal_exp_skip c e neg _ stop stop start fo true dotOff (stop + R.length) m es ks hdr (by omega) hm hmE he
      hes hks hk0 hu hend (Or.inl rfl) hsmall n f hep hen (by omega)]
    rw [hQ]
    have hX : (netExp fo (decVal ks) (decide (es = [45])) f).1 < 2 ^ 31 := by
      unfold netExp
      split
      · simp; omega
      · split <;> simp <;> omega
    rcases htr with hex | ⟨h16, hrel⟩
    · have hcl := good_of_class_netExp (realResult_class_all neg (decVal K) n (netExp fo (decVal ks) (decide (es = [45])) f).1
        (netExp fo (decVal ks) (decide (es = [45])) f).2 e hv0 hv64 hlo hhi hn1 hn19 hX)
      rw [hex]
      exact good_valFrac_zeros hv0 hcl
    · apply good_truncFrac_netExp (fo := fo)
      exact realResult_trunc neg (decVal K) n _ _ e R.length (decVal (K ++ R)) h16 hv64 hlo hhi hn1 (by omega) hX t1 hrel
  · rw [finishReal_exp_sat c e neg _ stop stop start fo true dotOff (stop + R.length) m es ks hdr (by omega) hm hmE
      hes hks hk0 hu hend (by omega) hbig]
    rw [hQ]
    have hvtlo : 10 ^ (n - 1 + R.length) ≤ decVal (K ++ R) := by
      rw [Nat.pow_add]
      exact Nat.le_trans (Nat.mul_le_mul_right _ hlo) t1
    have hvt : decVal (K ++ R) < 10 ^ (n + R.length) := by
      rw [Nat.pow_add]
      exact Nat.lt_of_lt_of_le t2 (Nat.mul_le_mul_right _ (by omega))
    exact ⟨_, rfl, rfl, Or.inl ⟨rfl, valFrac_out_of_range _ _ _ n R.length f hvtlo hvt hn1 hbig (by omega)⟩⟩

/-! ### integer regime -/

theorem good_truncFrac_intExp {neg : Bool} {vt k : Nat} {kneg : Bool} {g F fin : Nat} {res : Option Res}
    (h : Good neg (truncFrac vt (intExp k kneg g).1 (intExp k kneg g).2 (g + F)).1
      (truncFrac vt (intExp k kneg g).1 (intExp k kneg g).2 (g + F)).2 fin res) :
    Good neg (valFrac vt k kneg F).1 (valFrac vt k kneg F).2 fin res := by
  unfold truncFrac intExp at h
  unfold valFrac
  cases kneg with
  | false =>
    simp only [Bool.not_false, if_true, Bool.false_eq_true, if_false, ge_iff_le] at h ⊢
    by_cases hk : F ≤ k
    · rw [if_pos hk]
      rw [if_pos (by omega), show k + g - (g + F) = k - F by omega] at h
      exact h
    · rw [if_neg hk]
      rw [if_neg (by omega), show g + F - (k + g) = F - k by omega] at h
      exact h
  | true =>
    simp only [Bool.not_true, Bool.false_eq_true, if_false, if_true] at h ⊢
    by_cases hkg : k ≤ g
    · simp only [hkg, if_true, Bool.false_eq_true, if_false, ge_iff_le] at h
      by_cases hc : g + F ≤ g - k
      · have hk0 : k = 0 := by omega
        have hF0 : F = 0 := by omega
        subst hk0; subst hF0
        rw [if_pos hc] at h
        simpa using h
      · rw [if_neg hc, show g + F - (g - k) = k + F by omega] at h
        exact h
    · simp only [hkg, if_false, if_true] at h
      rw [show k - g + (g + F) = k + F by omega] at h
      exact h

/-- the common part of the integer-regime glue: from `realResult` on the kept mantissa to `Good` on the exact value -/
theorem glueI_core (neg : Bool) (K R F : List Nat) (k1 : Nat) (kt : List Nat) (n k : Nat) (kneg : Bool) (fin : Nat)
    (hK : K = k1 :: kt) (hk1 : isNonZeroDigit k1 = true) (hKd : AllDigits K) (hn : K.length = n) (hn19 : 19 ≤ n)
    (hn20 : n ≤ 20) (hv64 : decVal K < 2 ^ 64) (hR : AllDigits R) (hF : AllDigits F)
    (hX : (intExp k kneg R.length).1 < 2 ^ 31) :
    Good neg (valFrac (decVal (K ++ R ++ F)) k kneg F.length).1 (valFrac (decVal (K ++ R ++ F)) k kneg F.length).2 fin
      (realResult neg (decVal K) n (intExp k kneg R.length).1 (intExp k kneg R.length).2 fin) := by
  obtain ⟨hlo, hhi, hv0⟩ := decVal_bounds K k1 kt hK hk1 hKd
  rw [hn] at hlo hhi
  have h18 : 10 ^ 18 ≤ decVal K := Nat.le_trans (Nat.pow_le_pow_right (by decide) (by omega)) hlo
  have hRF : AllDigits (R ++ F) := by
    intro y hy
    rcases List.mem_append.1 hy with h | h
    · exact hR y h
    · exact hF y h
  obtain ⟨t1, t2⟩ := decVal_trunc K (R ++ F) hRF
  rw [← List.append_assoc] at t1 t2
  rw [List.length_append] at t1 t2
  apply good_truncFrac_intExp
  exact realResult_trunc neg (decVal K) n _ _ fin (R.length + F.length) (decVal (K ++ R ++ F))
    (Nat.le_trans (by decide) h18) hv64 hlo hhi (by omega) hn20 hX t1
    (trunc_rel_of_abs _ _ _ (Nat.le_trans (by decide) h18) t2)

/-- the exponent part of a numeral text: absent, or `(e|E) [+-]? digits` -/
def ExpPart (EP : List Nat) (es ks : List Nat) : Prop :=
  (EP = [] ∧ es = [] ∧ ks = []) ∨
  (∃ m, (m = 101 ∨ m = 69) ∧ EP = m :: (es ++ ks) ∧ (es = [] ∨ es = [43] ∨ es = [45]) ∧ AllDigits ks ∧ ks ≠ [])

/-- dot regime: both continuations -/
theorem glueD (c : List Nat) (e : Nat) (neg : Bool) (stop start : Nat) (fo : Bool) (dotOff : Nat)
    (K : List Nat) (k1 : Nat) (kt R EP es ks : List Nat) (n f : Nat) (he : e < 2 ^ 32)
    (hK : K = k1 :: kt) (hk1 : isNonZeroDigit k1 = true) (hKd : AllDigits K) (hn : K.length = n) (hn19 : n ≤ 19)
    (hR : AllDigits R) (hur : unitsAt c e stop R) (hEP : ExpPart EP es ks)
    (hEPu : unitsAt c e (stop + R.length) EP) (hQ : stop + R.length + EP.length = e)
    (hep : sub32 (sub32 stop start) (b2n (!fo && true)) = n)
    (hen : (if fo then add32 n (sub32 (sub32 start dotOff) 1) else if true then sub32 (sub32 stop dotOff) 1 else 0) = f)
    (hbound : f + R.length + n + 400 ≤ 100000000)
    (htr : decVal (K ++ R) = decVal K * 10 ^ R.length ∨
      (10 ^ 16 ≤ decVal K ∧ 10 ^ 17 * decVal (K ++ R) < (10 ^ 17 + 1) * (decVal K * 10 ^ R.length))) :
    Good neg (valFrac (decVal (K ++ R)) (decVal ks) (decide (es = [45])) (f + R.length)).1
      (valFrac (decVal (K ++ R)) (decVal ks) (decide (es = [45])) (f + R.length)).2 e
      (finishReal c e neg (decVal K) stop stop start fo true dotOff) := by
  rcases hEP with ⟨rfl, rfl, rfl⟩ | ⟨m, hmE, rfl, hes, hks, hk0⟩
  · simp only [List.length_nil, Nat.add_zero] at hQ
    have := glueD_end c e neg stop start fo dotOff K k1 kt R n f he hK hk1 hKd hn hn19 hR hur hQ hep hen (by omega) htr
    simpa [decVal] using this
  · have hm : rd c e (stop + R.length) = some m := hEPu.1
    have hu : unitsAt c e (stop + R.length + 1) (es ++ ks) := hEPu.2
    simp only [List.length_cons, List.length_append] at hQ
    exact glueD_exp c e neg stop start fo dotOff K k1 kt R n f m es ks he hK hk1 hKd hn hn19 hR hur hm hmE hes hks hk0 hu
      (by omega) hep hen hbound htr

/-- integer regime: every continuation after the kept digits `K` (19 or 20): ignored integer digits `R`, an optional
late dot with fraction digits `F` (all dropped), an optional exponent -/
theorem glueI (c : List Nat) (e : Nat) (neg : Bool) (stop start : Nat)
    (K : List Nat) (k1 : Nat) (kt R F DF EP es ks : List Nat) (n : Nat) (he : e ≤ 99999000)
    (hK : K = k1 :: kt) (hk1 : isNonZeroDigit k1 = true) (hKd : AllDigits K) (hn : K.length = n) (hn19 : 19 ≤ n)
    (hn20 : n ≤ 20) (hv64 : decVal K < 2 ^ 64) (hstop0 : stop ≠ 0)
    (hR : AllDigits R) (hF : AllDigits F) (hur : unitsAt c e stop R)
    (hDF : (DF = [] ∧ F = []) ∨ (DF = 46 :: F ∧ F ≠ [])) (hDFu : unitsAt c e (stop + R.length) DF)
    (hEP : ExpPart EP es ks) (hEPu : unitsAt c e (stop + R.length + DF.length) EP)
    (hQ : stop + R.length + DF.length + EP.length = e)
    (hne : R ≠ [] ∨ DF ≠ [] ∨ EP ≠ [])
    (hep : sub32 (sub32 stop start) (b2n (!false && false)) = n) :
    Good neg (valFrac (decVal (K ++ R ++ F)) (decVal ks) (decide (es = [45])) F.length).1
      (valFrac (decVal (K ++ R ++ F)) (decVal ks) (decide (es = [45])) F.length).2 e
      (finishReal c e neg (decVal K) stop stop start false false 0) := by
  have he32 : e < 2 ^ 32 - 100000000 := by omega
  obtain ⟨hlo, hhi, hv0⟩ := decVal_bounds K k1 kt hK hk1 hKd
  rw [hn] at hlo hhi
  have hdr := digitsOn_of_unitsAt c e R stop hR hur
  have hcore : ∀ k kneg, k < 100000000 →
      Good neg (valFrac (decVal (K ++ R ++ F)) k kneg F.length).1 (valFrac (decVal (K ++ R ++ F)) k kneg F.length).2 e
        (realResult neg (decVal K) n (intExp k kneg R.length).1 (intExp k kneg R.length).2 e) := by
    intro k kneg hk
    have hlenR : R.length ≤ e := by omega
    have hX : (intExp k kneg R.length).1 < 2 ^ 31 := by
      cases kneg with
      | false => simp [intExp]; omega
      | true =>
        simp only [intExp, Bool.not_true, Bool.false_eq_true, if_false]
        split <;> simp <;> omega
    exact glueI_core neg K R F k1 kt n k kneg e hK hk1 hKd hn hn19 hn20 hv64 hR hF hX
  -- out of range for a saturated exponent
  have hsat : ∀ k kneg, 100000000 ≤ k →
      (valFrac (decVal (K ++ R ++ F)) k kneg F.length).1 * 2 ^ 1074 < (valFrac (decVal (K ++ R ++ F)) k kneg F.length).2 ∨
      (2 ^ 53 - 1) * 2 ^ 971 * (valFrac (decVal (K ++ R ++ F)) k kneg F.length).2 <
        (valFrac (decVal (K ++ R ++ F)) k kneg F.length).1 := by
    intro k kneg hk
    have hRF : AllDigits (R ++ F) := by
      intro y hy
      rcases List.mem_append.1 hy with h | h
      · exact hR y h
      · exact hF y h
    obtain ⟨t1, t2⟩ := decVal_trunc K (R ++ F) hRF
    rw [← List.append_assoc, List.length_append] at t1 t2
    have hvlo : 10 ^ (n + R.length - 1 + F.length) ≤ decVal (K ++ R ++ F) := by
      have e1 : n + R.length - 1 + F.length = (n - 1) + (R.length + F.length) := by omega
      rw [e1, Nat.pow_add]
      exact Nat.le_trans (Nat.mul_le_mul_right _ hlo) t1
    have hvhi : decVal (K ++ R ++ F) < 10 ^ (n + R.length + F.length) := by
      have e1 : n + R.length + F.length = n + (R.length + F.length) := by omega
      rw [e1, Nat.pow_add]
      exact Nat.lt_of_lt_of_le t2 (Nat.mul_le_mul_right _ (by omega))
    have := valFrac_out_of_range (decVal (K ++ R ++ F)) k kneg (n + R.length) F.length 0 hvlo hvhi (by omega) hk (by omega)
    simpa using this
  rcases hDF with ⟨rfl, rfl⟩ | ⟨rfl, hF0⟩
  · -- no dot
    simp only [List.length_nil, Nat.add_zero, List.append_nil] at hEPu hQ hcore hsat ⊢
    rcases hEP with ⟨rfl, rfl, rfl⟩ | ⟨m, hmE, rfl, hes, hks, hk0⟩
    · have hRne : R ≠ [] := by
        rcases hne with h | h | h
        · exact h
        · exact absurd rfl h
        · exact absurd rfl h
      have hRl : 0 < R.length := by
        cases R with
        | nil => exact absurd rfl hRne
        | cons a b => simp
      simp only [List.length_nil, Nat.add_zero] at hQ
      rw [hQ] at hdr
      rw [finishReal_end_ignored c e neg _ stop stop start 0 e hdr (by omega) (Nat.le_refl _) (by omega) (Or.inl rfl) n hep]
      have := hcore 0 false (by decide)
      have hie : intExp 0 false R.length = (R.length, false) := by simp [intExp]
      rw [hie] at this
      rw [show e - stop = R.length by omega]
      simpa [decVal] using this
    · have hm : rd c e (stop + R.length) = some m := hEPu.1
      have hu : unitsAt c e (stop + R.length + 1) (es ++ ks) := hEPu.2
      simp only [List.length_cons, List.length_append] at hQ
      have hend : endsAt c e (stop + R.length + 1 + es.length + ks.length) isDigit := Or.inl (by omega)
      rcases Nat.lt_or_ge (decVal ks) 100000000 with hsmall | hbig
      · rw [finishReal_int_exp c e neg _ stop stop start 0 (stop + R.length) m es ks hdr (by omega) (by omega) hm hmE he32
          hes hks hk0 hu hend hsmall n hep]
        rw [show stop + R.length + 1 + es.length + ks.length = e by omega, show stop + R.length - stop = R.length by omega]
        exact hcore _ _ hsmall
      · rw [finishReal_exp_sat c e neg _ stop stop start false false 0 (stop + R.length) m es ks hdr (by omega) hm hmE
          hes hks hk0 hu hend (by omega) hbig]
        rw [show stop + R.length + 1 + es.length + ks.length = e by omega]
        exact ⟨_, rfl, rfl, Or.inl ⟨rfl, hsat _ _ hbig⟩⟩
  · -- a late dot
    have hdot : rd c e (stop + R.length) = some 46 := hDFu.1
    have hFu : unitsAt c e (stop + R.length + 1) F := hDFu.2
    have hdr2 := digitsOn_of_unitsAt c e F _ hF hFu
    have hFl : 0 < F.length := by
      cases F with
      | nil => exact absurd rfl hF0
      | cons a b => simp
    simp only [List.length_cons] at hEPu hQ
    rcases hEP with ⟨rfl, rfl, rfl⟩ | ⟨m, hmE, rfl, hes, hks, hk0⟩
    · simp only [List.length_nil, Nat.add_zero] at hQ
      rw [finishReal_int_dot_end c e neg _ stop stop start 0 (stop + R.length) e hdr (by omega) (by omega) hdot
        (by have := hdr2; rwa [show stop + R.length + 1 + F.length = e by omega] at this) (by omega) (Nat.le_refl _) he32
        (Or.inl rfl) n hep]
      have := hcore 0 false (by decide)
      have hie : intExp 0 false R.length = (R.length, false) := by simp [intExp]
      rw [hie] at this
      rw [show stop + R.length - stop = R.length by omega]
      simpa [decVal] using this
    · have hm : rd c e (stop + R.length + 1 + F.length) = some m := by
        have := hEPu.1
        rw [show stop + R.length + (F.length + 1) = stop + R.length + 1 + F.length by omega] at this; exact this
      have hu : unitsAt c e (stop + R.length + 1 + F.length + 1) (es ++ ks) := by
        have := hEPu.2
        rw [show stop + R.length + (F.length + 1) + 1 = stop + R.length + 1 + F.length + 1 by omega] at this; exact this
      simp only [List.length_cons, List.length_append] at hQ
      have hend : endsAt c e (stop + R.length + 1 + F.length + 1 + es.length + ks.length) isDigit := Or.inl (by omega)
      rcases Nat.lt_or_ge (decVal ks) 100000000 with hsmall | hbig
      · rw [finishReal_int_dot_exp c e neg _ stop stop start 0 (stop + R.length) (stop + R.length + 1 + F.length) m es ks
          hdr (by omega) (by omega) hdot hdr2 (by omega) hm hmE he32 hes hks hk0 hu hend hsmall n hep]
        rw [show stop + R.length + 1 + F.length + 1 + es.length + ks.length = e by omega,
          show stop + R.length - stop = R.length by omega]
        exact hcore _ _ hsmall
      · rw [finishReal_int_dot_exp_sat c e neg _ stop stop start 0 (stop + R.length) (stop + R.length + 1 + F.length) m es ks
          hdr (by omega) hdot hdr2 (by omega) hm hmE hes hks hk0 hu hend (by omega) hbig]
        rw [show stop + R.length + 1 + F.length + 1 + es.length + ks.length = e by omega]
        exact ⟨_, rfl, rfl, Or.inl ⟨rfl, hsat _ _ hbig⟩⟩

end Qentem.StrToNum
