import Qentem.Proofs.ExprScanWf
/-!
# C04 / C02 — the expression scanner and evaluator do not depend on where the expression sits

`c' = A ++ c ++ P`: the same expression text inside a longer content, `k = |A|` units further.
When the scan of `c` over `[off, endO)` succeeds, the scan of `c'` over `[k + off, k + endO)`
succeeds with the same list, text operands moved by `k` (`RelItems`), provided
* the unit before the expression in `c'` does not make a leading sign an operator
  (`isExpression c' k = false`: in a template the unit is the `:` of `{math:` or a quote), and
* the expression contains no `{` (no variable operands: stage "constants only").
Evaluation of related lists over related contents gives the same number (`evaluateTop_reloc`).
-/
set_option linter.unusedSectionVars false
set_option linter.unusedVariables false
namespace Qentem.Expr
open Qentem.Generated.Expr

variable {R : Type}

theorem bind_ok {α β : Type} {x : Except Fault α} {g : α → Except Fault β} {r : β}
    (h : (x >>= g) = .ok r) : ∃ a, x = .ok a ∧ g a = .ok r := by
  cases x with
  | error e => cases h
  | ok a => exact ⟨a, rfl, h⟩

theorem rd_ok_iff (c : List Nat) (i x : Nat) : rd c i = .ok x ↔ c[i]? = some x := by
  unfold rd
  cases h : c[i]? <;> simp

/-- the relocated content -/
structure Reloc (c c' : List Nat) (k : Nat) : Prop where
  get : ∀ i x, c[i]? = some x → c'[k + i]? = some x
  slice : ∀ off m, off + m ≤ c.length → (c'.drop (k + off)).take m = (c.drop off).take m
  before : isExpression c' k = .ok false

theorem Reloc.of_append (A c P : List Nat) (h : isExpression (A ++ c ++ P) A.length = .ok false) :
    Reloc c (A ++ c ++ P) A.length := by
  refine ⟨?_, ?_, h⟩
  · intro i x hx
    rw [List.append_assoc, List.getElem?_append_right (by omega)]
    have hi : i < c.length := by
      rcases Nat.lt_or_ge i c.length with h | h
      · exact h
      · rw [List.getElem?_eq_none h] at hx; cases hx
    simp [List.getElem?_append_left hi, hx]
  · intro off m hm
    rw [List.append_assoc, List.drop_append, List.drop_of_length_le (by omega : A.length ≤ A.length + off)]
    simp only [List.nil_append, Nat.add_sub_cancel_left]
    rw [List.drop_append_of_le_length (by omega), List.take_append_of_le_length (by simp; omega)]

variable {c c' : List Nat} {k : Nat}

theorem rdOk (h : Reloc c c' k) {i x : Nat} (hx : rd c i = .ok x) : rd c' (k + i) = .ok x :=
  (rd_ok_iff _ _ _).mpr (h.get i x ((rd_ok_iff _ _ _).mp hx))

theorem isExpression_reloc (h : Reloc c c' k) : ∀ (off : Nat) (b : Bool),
    isExpression c off = .ok b → isExpression c' (k + off) = .ok b := by
  intro off
  induction off with
  | zero =>
    intro b hb
    simp only [isExpression, Except.ok.injEq] at hb
    subst hb; exact h.before
  | succ off ih =>
    intro b hb
    simp only [isExpression] at hb
    obtain ⟨ch, hch, hb⟩ := bind_ok hb
    rw [show k + (off + 1) = (k + off) + 1 by omega]
    simp only [isExpression, rdOk h hch, bind, Except.bind]
    split
    · rename_i hsp; simp only [hsp, if_true] at hb; exact ih b hb
    · rename_i hsp; simp only [hsp, if_false] at hb; exact hb

theorem skipParen_reloc (h : Reloc c c' k) (endO : Nat) : ∀ (f off skip r : Nat),
    skipParen c endO f off skip = .ok r → ∀ f', f ≤ f' →
    skipParen c' (k + endO) f' (k + off) skip = .ok (k + r) := by
  intro f
  induction f with
  | zero => intro off skip r hr; simp [skipParen] at hr
  | succ f ih =>
    intro off skip r hr f' hf
    cases f' with
    | zero => omega
    | succ g =>
      simp only [skipParen] at hr ⊢
      by_cases hlt : off < endO
      · simp only [hlt, if_true] at hr
        obtain ⟨ch, hch, hr⟩ := bind_ok hr
        simp only [show k + off < k + endO by omega, if_true, rdOk h hch, bind, Except.bind]
        by_cases h1 : ch = cPClose
        · simp only [h1, if_true] at hr ⊢
          by_cases h2 : skip = 0
          · simp only [h2, if_true] at hr ⊢; simp at hr; rw [hr]
          · simp only [h2, if_false] at hr ⊢
            exact ih _ _ _ hr g (by omega)
        · simp only [h1, if_false] at hr ⊢
          by_cases h2 : ch = cPOpen
          · simp only [h2, if_true] at hr ⊢; exact ih _ _ _ hr g (by omega)
          · simp only [h2, if_false] at hr ⊢; exact ih _ _ _ hr g (by omega)
      · simp only [hlt, if_false] at hr
        simp only [show ¬ k + off < k + endO by omega, if_false]
        simp at hr; rw [hr]

theorem skipBracket_reloc (h : Reloc c c' k) (endO : Nat) : ∀ (f off r : Nat),
    skipBracket c endO f off = .ok r → ∀ f', f ≤ f' →
    skipBracket c' (k + endO) f' (k + off) = .ok (k + r) := by
  intro f
  induction f with
  | zero => intro off r hr; simp [skipBracket] at hr
  | succ f ih =>
    intro off r hr f' hf
    cases f' with
    | zero => omega
    | succ g =>
      have e : k + off + 1 = k + (off + 1) := by omega
      simp only [skipBracket] at hr
      simp only [skipBracket, e]
      by_cases hlt : off + 1 < endO
      · simp only [hlt, if_true] at hr
        obtain ⟨ch, hch, hr⟩ := bind_ok hr
        simp only [show k + (off + 1) < k + endO by omega, if_true, rdOk h hch, bind, Except.bind]
        by_cases h1 : ch ≠ cBClose
        · rw [if_pos h1] at hr ⊢; exact ih _ _ hr g (by omega)
        · rw [if_neg h1] at hr ⊢; simp at hr; rw [hr]
      · simp only [hlt, if_false] at hr
        simp only [show ¬ k + (off + 1) < k + endO by omega, if_false]
        simp at hr; rw [← hr]

theorem trimLeft_reloc (h : Reloc c c' k) (endO : Nat) : ∀ (f off r : Nat),
    trimLeft c endO f off = .ok r → trimLeft c' (k + endO) f (k + off) = .ok (k + r) := by
  intro f
  induction f with
  | zero => intro off r hr; simp [trimLeft] at hr ⊢; rw [hr]
  | succ f ih =>
    intro off r hr
    simp only [trimLeft] at hr ⊢
    by_cases hlt : off < endO
    · simp only [hlt, if_true] at hr
      obtain ⟨ch, hch, hr⟩ := bind_ok hr
      simp only [show k + off < k + endO by omega, if_true, rdOk h hch, bind, Except.bind]
      by_cases hw : isWs ch = true
      · simp only [hw, if_true] at hr ⊢; exact ih _ _ hr
      · simp only [hw] at hr ⊢; simp at hr ⊢; rw [hr]
    · simp only [hlt, if_false] at hr
      simp only [show ¬ k + off < k + endO by omega, if_false]
      simp at hr; rw [hr]

theorem trimRight_reloc (h : Reloc c c' k) (off : Nat) : ∀ (e r : Nat),
    trimRight c off e = .ok r → trimRight c' (k + off) (k + e) = .ok (k + r) := by
  intro e
  induction e with
  | zero =>
    intro r hr
    simp only [trimRight, Except.ok.injEq] at hr
    subst hr
    cases k with
    | zero => simp [trimRight]
    | succ k' =>
      simp only [trimRight, Nat.add_zero]
      rw [if_neg (by omega)]
  | succ e ih =>
    intro r hr
    rw [show k + (e + 1) = (k + e) + 1 by omega]
    simp only [trimRight] at hr ⊢
    by_cases hlt : e + 1 > off
    · simp only [hlt, if_true] at hr
      obtain ⟨ch, hch, hr⟩ := bind_ok hr
      simp only [show k + e + 1 > k + off by omega, if_true, rdOk h hch, bind, Except.bind]
      by_cases hw : isWs ch = true
      · simp only [hw, if_true] at hr ⊢; exact ih _ hr
      · simp only [hw] at hr ⊢; simp at hr ⊢; omega
    · simp only [hlt, if_false] at hr
      simp only [show ¬ k + e + 1 > k + off by omega, if_false]
      simp at hr ⊢; omega


theorem getOperation_reloc (h : Reloc c c' k) (endO : Nat) : ∀ (f off : Nat) (op : Op) (r : Nat),
    getOperation c endO f off = .ok (op, r) →
    getOperation c' (k + endO) f (k + off) = .ok (op, k + r) := by
  intro f
  induction f with
  | zero => intro off op r hr; simp [getOperation] at hr
  | succ f ih =>
    intro off op r hr
    have e : k + off + 1 = k + (off + 1) := by omega
    simp only [getOperation] at hr
    simp only [getOperation, e]
    by_cases hlt : off < endO
    · simp only [hlt, if_true] at hr
      obtain ⟨ch, hch, hr⟩ := bind_ok hr
      simp only [show k + off < k + endO by omega, if_true, rdOk h hch, bind, Except.bind]
      cases hcl : classify ch with
      | two yes no second =>
        simp only [hcl] at hr ⊢
        obtain ⟨nx, hnx, hr⟩ := bind_ok hr
        simp only [rdOk h hnx]
        simp only [Except.ok.injEq, Prod.mk.injEq] at hr ⊢
        exact ⟨hr.1, by omega⟩
      | sign o =>
        simp only [hcl] at hr ⊢
        obtain ⟨b, hb, hr⟩ := bind_ok hr
        simp only [isExpression_reloc h off b hb]
        cases b with
        | true =>
          simp only [if_true, Except.ok.injEq, Prod.mk.injEq] at hr ⊢
          exact ⟨hr.1, by omega⟩
        | false =>
          simp only [Bool.false_eq_true, if_false] at hr ⊢
          exact ih _ _ _ hr
      | single o =>
        simp only [hcl] at hr ⊢
        simp only [Except.ok.injEq, Prod.mk.injEq] at hr ⊢
        exact ⟨hr.1, by omega⟩
      | paren =>
        simp only [hcl] at hr ⊢
        obtain ⟨off2, h2, hr⟩ := bind_ok hr
        have := skipParen_reloc h endO _ _ _ _ h2 (k + endO + 1) (by omega)
        simp only [this]
        by_cases hl2 : off2 < endO
        · simp only [hl2, if_true] at hr
          simp only [show k + off2 < k + endO by omega, if_true]
          exact ih _ _ _ hr
        · simp only [hl2, if_false] at hr
          simp only [show ¬ k + off2 < k + endO by omega, if_false]
          simp only [Except.ok.injEq, Prod.mk.injEq] at hr ⊢
          exact ⟨hr.1, by omega⟩
      | bracket =>
        simp only [hcl] at hr ⊢
        obtain ⟨off2, h2, hr⟩ := bind_ok hr
        have := skipBracket_reloc h endO _ _ _ h2 (k + endO + 1) (by omega)
        simp only [this]
        by_cases hl2 : off2 < endO
        · simp only [hl2, if_true] at hr
          simp only [show k + off2 < k + endO by omega, if_true]
          exact ih _ _ _ hr
        · simp only [hl2, if_false] at hr
          simp only [show ¬ k + off2 < k + endO by omega, if_false]
          simp only [Except.ok.injEq, Prod.mk.injEq] at hr ⊢
          exact ⟨hr.1, by omega⟩
      | other =>
        simp only [hcl] at hr ⊢
        exact ih _ _ _ hr
    · simp only [hlt, if_false] at hr
      simp only [show ¬ k + off < k + endO by omega, if_false]
      simp only [Except.ok.injEq, Prod.mk.injEq] at hr ⊢
      exact ⟨hr.1, by omega⟩


/-! ### the scanner's result, moved by `k` -/

/-- no variable operands on either side -/
abbrev NoV : VarRef → VarRef → Prop := fun _ _ => False

mutual
/-- `Pv v v'`: what is known about a variable operand and its relocated copy -/
inductive RelOperand (Pv : VarRef → VarRef → Prop) (k n : Nat) : Operand R → Operand R → Prop
  | num (x : Num R) : RelOperand Pv k n (.num x) (.num x)
  | text (off len : Nat) : off + len ≤ n → RelOperand Pv k n (.text off len) (.text (k + off) len)
  | var (v v' : VarRef) : Pv v v' → RelOperand Pv k n (.var v) (.var v')
  | sub (a b : List (Item R)) : RelItems Pv k n a b → RelOperand Pv k n (.sub a) (.sub b)
inductive RelItems (Pv : VarRef → VarRef → Prop) (k n : Nat) : List (Item R) → List (Item R) → Prop
  | nil : RelItems Pv k n [] []
  | cons (x y : Operand R) (o : Op) (a b : List (Item R)) :
      RelOperand Pv k n x y → RelItems Pv k n a b → RelItems Pv k n ((x, o) :: a) ((y, o) :: b)
end

theorem RelItems.snoc {Pv : VarRef → VarRef → Prop} {k n : Nat} {x y : Operand R} (o : Op)
    (hxy : RelOperand Pv k n x y) :
    ∀ (a b : List (Item R)), RelItems Pv k n a b → RelItems Pv k n (a ++ [(x, o)]) (b ++ [(y, o)]) := by
  intro a
  induction a with
  | nil => intro b hab; cases hab; exact .cons _ _ _ _ _ hxy .nil
  | cons p a ih =>
    intro b hab
    cases hab with
    | cons x1 y1 o1 a1 b1 h1 h2 => exact .cons _ _ _ _ _ h1 (ih _ h2)

theorem RelItems.isEmpty {Pv : VarRef → VarRef → Prop} {k n : Nat} {a b : List (Item R)}
    (h : RelItems Pv k n a b) : a.isEmpty = b.isEmpty := by
  cases h <;> rfl

/-- result of `parseValue` -/
def RelOpt (Pv : VarRef → VarRef → Prop) (k n : Nat) (r r' : Option (List (Item R))) : Prop :=
  (r = none ∧ r' = none) ∨ ∃ l l', r = some l ∧ r' = some l' ∧ RelItems Pv k n l l'

theorem safe_ok {α : Type} {x : Except Fault α} {P : α → Prop} {a : α} (hs : Safe x P) (hx : x = .ok a) :
    P a := by
  rw [hx] at hs; exact hs

/-- the variable operand the scanner makes of `{…}` at `off … e` -/
def scanVar (cfg : ScanCfg R) (off e : Nat) : VarRef :=
  ⟨off + 5, (e - (off + 5)) % 2 ^ variableLengthBits, (cfg.loopVar (off + 5)).1, (cfg.loopVar (off + 5)).2⟩

theorem scan_relocV (cfg cfg' : ScanCfg R) (hrn : cfg'.readNum = cfg.readNum) (h : Reloc c c' k)
    (Pv : VarRef → VarRef → Prop)
    (hvar : ∀ off e, c[off]? = some cBOpen → off + 5 < e → c[e]? = some 125 →
      Pv (scanVar cfg off e) (scanVar cfg' (k + off) (k + e))) : ∀ f,
    (∀ off endO items, endO < c.length → parseExpressions cfg c f off endO = .ok items →
      ∃ items', parseExpressions cfg' c' f (k + off) (k + endO) = .ok items' ∧
        RelItems Pv k c.length items items') ∧
    (∀ endO off exprs exprs' lastOp items, endO < c.length → RelItems Pv k c.length exprs exprs' →
      parseLoop cfg c f endO off exprs lastOp = .ok items →
      ∃ items', parseLoop cfg' c' f (k + endO) (k + off) exprs' lastOp = .ok items' ∧
        RelItems Pv k c.length items items') ∧
    (∀ exprs exprs' oper lastOp off0 end0 r, end0 < c.length → RelItems Pv k c.length exprs exprs' →
      parseValue cfg c f exprs oper lastOp off0 end0 = .ok r →
      ∃ r', parseValue cfg' c' f exprs' oper lastOp (k + off0) (k + end0) = .ok r' ∧
        RelOpt Pv k c.length r r') := by
  intro f
  induction f with
  | zero =>
    refine ⟨?_, ?_, ?_⟩ <;> intros <;> simp [parseExpressions, parseLoop, parseValue] at *
  | succ f ih =>
    obtain ⟨ihE, ihL, ihV⟩ := ih
    refine ⟨?_, ?_, ?_⟩
    · intro off endO items he hp
      simp only [parseExpressions] at hp ⊢
      exact ihL _ _ _ _ _ _ he .nil hp
    · intro endO off exprs exprs' lastOp items he hex hp
      simp only [parseLoop] at hp ⊢
      by_cases hlt : off < endO
      · simp only [hlt, if_true] at hp
        obtain ⟨⟨oper, opOff⟩, hg, hp⟩ := bind_ok hp
        have hpost : opOff ≤ endO := by
          have := getOperation_safe c endO he (2 * (endO - off) + 2) off (by omega); rw [hg] at this; exact this.1
        simp only [show k + off < k + endO by omega, if_true, Nat.add_sub_add_left,
          getOperation_reloc h endO _ _ _ _ hg, bind, Except.bind]
        simp only [] at hp ⊢
        by_cases hoe : oper = .error
        · simp only [hoe, if_true] at hp ⊢
          simp only [Except.ok.injEq] at hp; subst hp
          exact ⟨[], rfl, .nil⟩
        · simp only [hoe, if_false] at hp ⊢
          obtain ⟨v, hv, hp⟩ := bind_ok hp
          obtain ⟨v', hv', hrel⟩ := ihV exprs exprs' oper lastOp off opOff v (by omega) hex hv
          simp only [hv']
          rcases hrel with ⟨h1, h2⟩ | ⟨l, l', h1, h2, h3⟩
          · subst h1 h2
            simp only [Except.ok.injEq] at hp ⊢; subst hp
            exact ⟨[], rfl, .nil⟩
          · subst h1 h2
            simp only [] at hp ⊢
            have := ihL endO _ l l' oper items he h3 hp
            rw [show k + opOff + 1 + (if oper.rank < Op.greater.rank then 1 else 0) =
              k + (opOff + 1 + (if oper.rank < Op.greater.rank then 1 else 0)) by omega]
            exact this
      · simp only [hlt, if_false] at hp
        simp only [show ¬ k + off < k + endO by omega, if_false]
        by_cases hgt : off > endO ∧ lastOp = .noOp
        · simp only [hgt, and_self, if_true, Except.ok.injEq] at hp
          subst hp
          simp only [show k + off > k + endO by omega, hgt.2, and_self, if_true]
          exact ⟨exprs', rfl, hex⟩
        · simp only [hgt, if_false, Except.ok.injEq] at hp
          subst hp
          have : ¬ (k + off > k + endO ∧ lastOp = .noOp) := by
            intro hh; exact hgt ⟨by omega, hh.2⟩
          simp only [this, if_false]
          exact ⟨[], rfl, .nil⟩
    · intro exprs exprs' oper lastOp off0 end0 r he hex hp
      simp only [parseValue] at hp ⊢
      obtain ⟨off, ho, hp⟩ := bind_ok hp
      obtain ⟨endO, hE, hp⟩ := bind_ok hp
      have hEle : endO ≤ end0 := by
        have := trimRight_safe c off end0 (by omega); rw [hE] at this; exact this
      simp only [Nat.add_sub_add_left, trimLeft_reloc h end0 _ _ _ ho, trimRight_reloc h off _ _ hE,
        bind, Except.bind]
      by_cases hlt : off < endO
      · simp only [hlt, if_true] at hp
        obtain ⟨ch, hch, hp⟩ := bind_ok hp
        simp only [show k + off < k + endO by omega, if_true, rdOk h hch]
        by_cases hpo : ch = cPOpen
        · simp only [hpo, if_true] at hp ⊢
          obtain ⟨sub, hs, hp⟩ := bind_ok hp
          obtain ⟨sub', hs', hrel⟩ := ihE (off + 1) (endO - 1) sub (by omega) hs
          rw [show k + off + 1 = k + (off + 1) by omega, show k + endO - 1 = k + (endO - 1) by omega, hs']
          simp only []
          have hemp := hrel.isEmpty
          by_cases hcond : lastOp ≠ oper ∨ oper ≠ .noOp
          · simp only [hcond, if_true, Except.ok.injEq] at hp ⊢
            subst hp
            refine ⟨_, rfl, ?_⟩
            rw [← hemp]
            cases hse : sub.isEmpty
            · exact Or.inr ⟨_, _, by simp, by simp, RelItems.snoc oper (.sub _ _ hrel) _ _ hex⟩
            · exact Or.inl ⟨by simp, by simp⟩
          · simp only [hcond, if_false, Except.ok.injEq] at hp ⊢
            subst hp
            refine ⟨_, rfl, ?_⟩
            rw [← hemp]
            cases hse : sub.isEmpty
            · exact Or.inr ⟨_, _, by simp, by simp, hrel⟩
            · exact Or.inl ⟨by simp, by simp⟩
        · by_cases hbo : ch = cBOpen
          · have hpo' : ¬ (cBOpen = cPOpen) := by decide
            subst hbo
            simp only [hpo', if_false, if_true] at hp ⊢
            by_cases hfl : endO - off > W1.variableFullLength
            · simp only [hfl, if_true] at hp ⊢
              have hfl' : endO - off > 6 := hfl
              obtain ⟨last, hlast, hp⟩ := bind_ok hp
              have hlast' : rd c' (k + endO - W1.inLineSuffixLength) = .ok last := by
                rw [show k + endO - W1.inLineSuffixLength = k + (endO - W1.inLineSuffixLength) by
                  simp only [show W1.inLineSuffixLength = 1 by decide]; omega]
                exact rdOk h hlast
              simp only [hlast']
              by_cases hl : last = W1.inLineLastChar
              · simp only [hl, if_true] at hp ⊢
                simp only [Except.ok.injEq] at hp
                subst hp
                refine ⟨_, rfl, Or.inr ⟨_, _, rfl, rfl, RelItems.snoc oper ?_ _ _ hex⟩⟩
                have hv := hvar off (endO - 1) ((rd_ok_iff _ _ _).mp hch) (by omega)
                  (by rw [hl] at hlast; exact (rd_ok_iff _ _ _).mp hlast)
                have e1 : k + off + W1.variablePrefixLength = k + off + 5 := rfl
                have e2 : off + W1.variablePrefixLength = off + 5 := rfl
                have e3 : k + endO - W1.inLineSuffixLength - (k + off + 5) = endO - 1 - (off + 5) := by
                  simp only [show W1.inLineSuffixLength = 1 by decide]; omega
                have e4 : endO - W1.inLineSuffixLength - (off + 5) = endO - 1 - (off + 5) := rfl
                have e5 : k + (endO - 1) - (k + off + 5) = endO - 1 - (off + 5) := by omega
                simp only [scanVar, e5] at hv
                simp only [e1, e2, e3, e4]
                exact .var _ _ hv
              · simp only [hl, if_false] at hp ⊢
                simp only [Except.ok.injEq] at hp
                subst hp
                exact ⟨_, rfl, Or.inl ⟨rfl, rfl⟩⟩
            · simp only [hfl, if_false] at hp ⊢
              simp only [Except.ok.injEq] at hp
              subst hp
              exact ⟨_, rfl, Or.inl ⟨rfl, rfl⟩⟩
          · simp only [hpo, hbo, if_false] at hp ⊢
            rw [hrn, h.slice off (endO - off) (by omega)]
            cases hnum : cfg.readNum ((c.drop off).take (endO - off)) with
            | some nn =>
              simp only [hnum, Except.ok.injEq] at hp ⊢
              subst hp
              exact ⟨_, rfl, Or.inr ⟨_, _, rfl, rfl, RelItems.snoc oper (.num nn) _ _ hex⟩⟩
            | none =>
              simp only [hnum] at hp ⊢
              by_cases heq : (lastOp.isEq || oper.isEq) = true
              · simp only [heq, if_true, Except.ok.injEq] at hp ⊢
                subst hp
                exact ⟨_, rfl, Or.inr ⟨_, _, rfl, rfl,
                  RelItems.snoc oper (.text off (endO - off) (by omega)) _ _ hex⟩⟩
              · simp only [heq, Bool.false_eq_true, if_false, Except.ok.injEq] at hp ⊢
                subst hp
                exact ⟨_, rfl, Or.inl ⟨rfl, rfl⟩⟩
      · simp only [hlt, if_false, Except.ok.injEq] at hp
        subst hp
        simp only [show ¬ k + off < k + endO by omega, if_false]
        exact ⟨_, rfl, Or.inl ⟨rfl, rfl⟩⟩

theorem parseTop_relocV (cfg cfg' : ScanCfg R) (hrn : cfg'.readNum = cfg.readNum) (h : Reloc c c' k)
    (Pv : VarRef → VarRef → Prop)
    (hvar : ∀ off e, c[off]? = some cBOpen → off + 5 < e → c[e]? = some 125 →
      Pv (scanVar cfg off e) (scanVar cfg' (k + off) (k + e)))
    (off endO : Nat) (he : endO < c.length)
    (items : List (Item R)) (hp : parseTop cfg c off endO = .ok items) :
    ∃ items', parseTop cfg' c' (k + off) (k + endO) = .ok items' ∧ RelItems Pv k c.length items items' := by
  unfold parseTop at hp ⊢
  rw [Nat.add_sub_add_left]
  exact (scan_relocV cfg cfg' hrn h Pv hvar _).1 off endO items he hp

/-- constants only: no `{` in the expression -/
theorem parseTop_reloc (cfg cfg' : ScanCfg R) (hrn : cfg'.readNum = cfg.readNum) (h : Reloc c c' k)
    (hno : ∀ (i x : Nat), c[i]? = some x → x ≠ cBOpen) (off endO : Nat) (he : endO < c.length)
    (items : List (Item R)) (hp : parseTop cfg c off endO = .ok items) :
    ∃ items', parseTop cfg' c' (k + off) (k + endO) = .ok items' ∧ RelItems NoV k c.length items items' :=
  parseTop_relocV cfg cfg' hrn h NoV (fun off e h1 _ _ => absurd rfl (hno off _ h1)) off endO he items hp

/-! ### evaluation of relocated lists -/

section
variable [RealLike R]

inductive RelVal (Pv : VarRef → VarRef → Prop) (k n : Nat) : Val R → Val R → Prop
  | num (x : Num R) : RelVal Pv k n (.num x) (.num x)
  | text (off len : Nat) : off + len ≤ n → RelVal Pv k n (.text off len) (.text (k + off) len)
  | var (v v' : VarRef) : Pv v v' → RelVal Pv k n (.var v) (.var v')

/-- the two environments: same number reader, the second content holds the first `k` units later -/
structure RelEnv (env env' : Env R) (k : Nat) : Prop where
  readNum : env'.readNum = env.readNum
  slice : ∀ off m, off + m ≤ env.content.length →
    (env'.content.drop (k + off)).take m = (env.content.drop off).take m

/-- related variables have the same value -/
def RelLookup (Pv : VarRef → VarRef → Prop) (env env' : Env R) : Prop :=
  ∀ v v', Pv v v' → env'.lookup v' = env.lookup v

theorem setNumber_env {env env' : Env R} (h : env'.readNum = env.readNum) (x : VarVal R) :
    x.setNumber env' = x.setNumber env := by
  cases x <;> simp [VarVal.setNumber, h]

theorem eqSide_reloc {Pv : VarRef → VarRef → Prop} {env env' : Env R} {k : Nat} (he : RelEnv env env' k)
    (hlk : RelLookup Pv env env') {v v' : Val R}
    (hv : RelVal Pv k env.content.length v v') : eqSide env' v' = eqSide env v := by
  cases hv with
  | num x => rfl
  | text off len hl => simp [eqSide, he.slice off len hl]
  | var a b hab => simp only [eqSide, hlk a b hab, setNumber_env he.readNum]

theorem forceNumber_env {env env' : Env R} (h : env'.readNum = env.readNum) (s : EqSide R) :
    s.forceNumber env' = s.forceNumber env := by
  cases s with
  | number n => rfl
  | chars s v => cases v <;> simp [EqSide.forceNumber, setNumber_env h]

theorem isEqual_reloc {Pv : VarRef → VarRef → Prop} {env env' : Env R} {k : Nat} (he : RelEnv env env' k)
    (hlk : RelLookup Pv env env') {l l' r r' : Val R}
    (hl : RelVal Pv k env.content.length l l') (hr : RelVal Pv k env.content.length r r') :
    isEqual env' l' r' = isEqual env l r := by
  unfold isEqual
  rw [eqSide_reloc he hlk hl, eqSide_reloc he hlk hr]
  simp only [forceNumber_env he.readNum]

theorem applyOp_reloc {Pv : VarRef → VarRef → Prop} {env env' : Env R} {k : Nat} (he : RelEnv env env' k)
    (hlk : RelLookup Pv env env') (op : Op) {l l' r r' : Val R}
    (hl : RelVal Pv k env.content.length l l') (hr : RelVal Pv k env.content.length r r') :
    applyOp env' op l' r' = applyOp env op l r := by
  unfold applyOp
  have hi := isEqual_reloc he hlk hl hr
  cases hl <;> cases hr <;> cases op <;> simp [applyChk, hi]

theorem applyOp_num (env : Env R) (op : Op) (l r v : Val R) (h : applyOp env op l r = some v) :
    ∃ x, v = .num x := by
  unfold applyOp at h
  cases hc : applyChk env op l r with
  | error e => simp [hc] at h
  | ok x =>
    simp only [hc] at h; subst h
    unfold applyChk at hc
    split at hc
    · simp only [Except.ok.injEq, Option.map_eq_some_iff] at hc
      obtain ⟨b, _, hb⟩ := hc
      exact ⟨_, hb.symm⟩
    · simp only [Except.ok.injEq, Option.map_eq_some_iff] at hc
      obtain ⟨b, _, hb⟩ := hc
      exact ⟨_, hb.symm⟩
    · split at hc
      · simp only [Except.ok.injEq] at hc
        rename_i y _
        cases y <;> simp at hc
        exact ⟨_, hc.symm⟩
      · cases hc
    · cases hc


/-- results of `evaluate` / `loop`: a number (never a text or a variable) and the rest of the list -/
def RelCur (Pv : VarRef → VarRef → Prop) (k n : Nat) (r r' : Option (Cursor R)) : Prop :=
  (r = none ∧ r' = none) ∨
  ∃ x o rest rest', r = some (.num x, o, rest) ∧ r' = some (.num x, o, rest') ∧ RelItems Pv k n rest rest'

/-- results of `GetExpressionValue`: related values; a variable is handed on only to `==` / `!=` -/
def RelOV (Pv : VarRef → VarRef → Prop) (k n : Nat) (a : Op) (r r' : Option (Val R)) : Prop :=
  (r = none ∧ r' = none) ∨
  ∃ v v', r = some v ∧ r' = some v' ∧ RelVal Pv k n v v' ∧ (∀ w, v = .var w → a.isEq = true)

theorem getVar_reloc {Pv : VarRef → VarRef → Prop} {env env' : Env R} {k : Nat} (he : RelEnv env env' k)
    (hlk : RelLookup Pv env env') (v v' : VarRef) (hv : Pv v v') (a b : Op) :
    RelOV Pv k env.content.length a (getVar env v a b) (getVar env' v' a b) := by
  unfold getVar
  by_cases ha : a.isEq = true
  · simp only [ha, if_true]
    exact Or.inr ⟨_, _, rfl, rfl, .var _ _ hv, fun _ _ => ha⟩
  · simp only [ha, Bool.false_eq_true, if_false, hlk v v' hv]
    have hs : (env.lookup v).bind (VarVal.setNumber env') = (env.lookup v).bind (VarVal.setNumber env) := by
      cases env.lookup v with
      | none => rfl
      | some x => simp only [Option.bind, setNumber_env he.readNum]
    rw [hs]
    cases (env.lookup v).bind (VarVal.setNumber env) with
    | some n => exact Or.inr ⟨_, _, rfl, rfl, .num n, fun w hw => by cases hw⟩
    | none =>
      simp only []
      by_cases hc : a = .noOp ∧ b = .noOp
      · simp only [hc, and_self, if_true]
        exact Or.inr ⟨_, _, rfl, rfl, .num _, fun w hw => by cases hw⟩
      · simp only [hc, if_false]
        exact Or.inl ⟨rfl, rfl⟩

theorem eval_reloc {Pv : VarRef → VarRef → Prop} {env env' : Env R} {k : Nat} (he : RelEnv env env' k)
    (hlk : RelLookup Pv env env') (chk : Bool) : ∀ f,
    (∀ prev items items', RelItems Pv k env.content.length items items' →
      RelCur Pv k env.content.length (evaluate env chk f prev items) (evaluate env' chk f prev items')) ∧
    (∀ prev left left' op rest rest', RelVal Pv k env.content.length left left' →
      (∀ w, left = .var w → op.isEq = true) →
      RelItems Pv k env.content.length rest rest' →
      RelCur Pv k env.content.length (loop env chk f prev left op rest) (loop env' chk f prev left' op rest')) ∧
    (∀ x x' a b, RelOperand Pv k env.content.length x x' →
      RelOV Pv k env.content.length a (getVal env chk f x a b) (getVal env' chk f x' a b)) := by
  intro f
  induction f with
  | zero =>
    refine ⟨?_, ?_, ?_⟩
    · intro prev items items' _; exact Or.inl ⟨by simp [evaluate], by simp [evaluate]⟩
    · intro prev left left' op rest rest' _ _ _; exact Or.inl ⟨by simp [loop], by simp [loop]⟩
    · intro x x' a b _; exact Or.inl ⟨by simp [getVal], by simp [getVal]⟩
  | succ f ih =>
    obtain ⟨ihE, ihL, ihV⟩ := ih
    refine ⟨?_, ?_, ?_⟩
    · intro prev items items' hrel
      cases hrel with
      | nil => exact Or.inl ⟨by simp [evaluate], by simp [evaluate]⟩
      | cons x y o a b hxy hab =>
        simp only [evaluate]
        rcases ihV x y o o hxy with ⟨h1, h2⟩ | ⟨v, v', h1, h2, hv, hw⟩
        · rw [h1, h2]; exact Or.inl ⟨rfl, rfl⟩
        · rw [h1, h2]; exact ihL prev v v' o a b hv hw hab
    · intro prev left left' op rest rest' hl hlw hrest
      simp only [loop]
      by_cases hop : op = .noOp
      · simp only [hop, if_true]
        cases hl with
        | num x => exact Or.inr ⟨x, .noOp, rest, rest', by simp [Val.isText], by simp [Val.isText], hrest⟩
        | text off len hb => exact Or.inl ⟨by simp [Val.isText], by simp [Val.isText]⟩
        | var a b hab =>
          have := hlw a rfl
          rw [hop] at this
          cases this
      · simp only [hop, if_false]
        cases hrest with
        | nil => exact Or.inl ⟨rfl, rfl⟩
        | cons x y o' a b hxy hab =>
          simp only []
          by_cases hrk : op.rank ≥ o'.rank
          · simp only [hrk, if_true]
            rcases ihV x y op o' hxy with ⟨h1, h2⟩ | ⟨v, v', h1, h2, hv, _⟩
            · rw [h1, h2]; exact Or.inl ⟨rfl, rfl⟩
            · rw [h1, h2]
              simp only [applyOp_reloc he hlk op hl hv]
              cases hap : applyOp env op left v with
              | none => exact Or.inl ⟨rfl, rfl⟩
              | some w =>
                obtain ⟨z, hz⟩ := applyOp_num env op left v w hap
                subst hz
                simp only []
                by_cases hpr : prev.rank < o'.rank
                · simp only [hpr, if_true]
                  exact ihL prev _ _ o' a b (.num z) (fun w hw => by cases hw) hab
                · simp only [hpr, if_false]; exact Or.inr ⟨z, o', a, b, rfl, rfl, hab⟩
          · simp only [hrk, if_false]
            rcases ihE op ((x, o') :: a) ((y, o') :: b) (.cons _ _ _ _ _ hxy hab) with
              ⟨h1, h2⟩ | ⟨z, o'', r1, r2, h1, h2, hr12⟩
            · rw [h1, h2]; exact Or.inl ⟨rfl, rfl⟩
            · rw [h1, h2]
              simp only [applyOp_reloc he hlk op hl (.num z)]
              cases hap : applyOp env op left (.num z) with
              | none => exact Or.inl ⟨rfl, rfl⟩
              | some w =>
                obtain ⟨z2, hz⟩ := applyOp_num env op left _ w hap
                subst hz
                simp only []
                cases chk with
                | true =>
                  simp only [if_true]
                  by_cases hpr : prev.rank < o''.rank
                  · simp only [hpr, if_true]
                    exact ihL prev _ _ o'' r1 r2 (.num z2) (fun w hw => by cases hw) hr12
                  · simp only [hpr, if_false]; exact Or.inr ⟨z2, o'', r1, r2, rfl, rfl, hr12⟩
                | false =>
                  simp only [Bool.false_eq_true, if_false]
                  exact ihL prev _ _ o'' r1 r2 (.num z2) (fun w hw => by cases hw) hr12
    · intro x x' a b hxx
      cases hxx with
      | num n => exact Or.inr ⟨_, _, by simp [getVal], by simp [getVal], .num n, fun w hw => by cases hw⟩
      | text off len hb =>
        exact Or.inr ⟨_, _, by simp [getVal], by simp [getVal], .text off len hb, fun w hw => by cases hw⟩
      | var v v' hv =>
        simp only [getVal]
        exact getVar_reloc he hlk v v' hv a b
      | sub l l' hll =>
        simp only [getVal]
        rcases ihE .noOp l l' hll with ⟨h1, h2⟩ | ⟨z, o, r1, r2, h1, h2, _⟩
        · rw [h1, h2]; exact Or.inl ⟨rfl, rfl⟩
        · rw [h1, h2]; exact Or.inr ⟨_, _, rfl, rfl, .num z, fun w hw => by cases hw⟩

theorem size_reloc {Pv : VarRef → VarRef → Prop} {k n : Nat} : ∀ m,
    (∀ (a b : List (Item R)), sizeItems a ≤ m → RelItems Pv k n a b → sizeItems b = sizeItems a) ∧
    (∀ (x y : Operand R), x.size ≤ m → RelOperand Pv k n x y → y.size = x.size) := by
  intro m
  induction m with
  | zero =>
    refine ⟨?_, ?_⟩
    · intro a b hs hab
      cases hab with
      | nil => rfl
      | cons x y o a b _ _ => simp [sizeItems] at hs
    · intro x y hs hxy
      cases hxy with
      | num _ => rfl
      | text _ _ _ => rfl
      | var _ _ _ => rfl
      | sub a b _ => simp [Operand.size] at hs
  | succ m ih =>
    refine ⟨?_, ?_⟩
    · intro a b hs hab
      cases hab with
      | nil => rfl
      | cons x y o a b hxy hab =>
        simp only [sizeItems] at hs ⊢
        rw [ih.2 x y (by omega) hxy, ih.1 a b (by omega) hab]
    · intro x y hs hxy
      cases hxy with
      | num _ => rfl
      | text _ _ _ => rfl
      | var _ _ _ => rfl
      | sub a b hab =>
        simp only [Operand.size] at hs ⊢
        rw [ih.1 a b (by omega) hab]

/-- the evaluator gives the same number on the relocated list and content; it never returns a
text or a variable -/
theorem evaluateTop_reloc {Pv : VarRef → VarRef → Prop} {env env' : Env R} {k : Nat} (he : RelEnv env env' k)
    (hlk : RelLookup Pv env env') (chk : Bool)
    (items items' : List (Item R)) (hrel : RelItems Pv k env.content.length items items') :
    evaluateTop env' chk items' = evaluateTop env chk items ∧
    (∀ v, evaluateTop env chk items = some v → ∃ x, v = .num x) := by
  unfold evaluateTop fuelFor
  rw [(size_reloc (sizeItems items)).1 items items' (Nat.le_refl _) hrel]
  rcases (eval_reloc he hlk chk (2 * sizeItems items + 2)).1 .noOp items items' hrel with
    ⟨h1, h2⟩ | ⟨z, o, r1, r2, h1, h2, _⟩
  · rw [h1, h2]; simp
  · rw [h1, h2]; simp

theorem relLookup_noV (env env' : Env R) : RelLookup NoV env env' := fun _ _ h => h.elim

end

end Qentem.Expr
