import Qentem.Proofs.NumToStrFixedRound
/-! C10 helper, Default format for values ≥ 1 in the no-fraction block: `generalBody_sci'` (reference, any
`num/den ≥ 1` with more integer digits than the precision), `keptUp_shift'`, `default_extra64`: every double
≥ 1 whose digit estimate exceeds the precision prints `%.{p}g` (always the `e+XX` style). -/
set_option linter.unusedSimpArgs false
set_option linter.unusedVariables false
namespace Qentem.Proofs.NumToStr
open Qentem.NumToStr Qentem.Generated.NumToStr Qentem

/-! ### Default format, no-fraction block, for any value ≥ 1 (integer or not) -/

/-- dropping `d` digits of the integer part `n = ⌊num/den⌋` first: the sticky flag carries the fraction and the
dropped digits -/
theorem keptUp_shift' {n d i : Nat} {ru ru' : Bool} (hru : ru = true ↔ (ru' = true ∨ n % 10 ^ d ≠ 0)) :
    keptUp n (i + d) ru' = keptUp (n / 10 ^ d) i ru := by
  have hdig : n / 10 ^ (i + d) = n / 10 ^ d / 10 ^ i := by rw [Nat.div_div_eq_div_mul, ← Nat.pow_add, Nat.add_comm]
  have hK : n / 10 ^ (i + d + 1) = n / 10 ^ d / 10 ^ (i + 1) := by
    rw [Nat.div_div_eq_div_mul, ← Nat.pow_add]; congr 2; omega
  have hlow := mod_mul_ne_zero_iff n (10 ^ d) (10 ^ i) (Nat.pow_pos (by decide))
  rw [← Nat.pow_add, Nat.add_comm d i] at hlow
  unfold keptUp upCode
  rw [hdig, hK]
  have hb : (ru' || decide (n % 10 ^ (i + d) ≠ 0)) = (ru || decide (n / 10 ^ d % 10 ^ i ≠ 0)) := by
    rw [Bool.eq_iff_iff]
    simp only [Bool.or_eq_true, decide_eq_true_eq]
    rw [← hlow, hru]
    tauto
  rw [hb]

/-- `%.{p}g` of a value `num/den ≥ 1` whose integer part `n` has more than `P` digits: the `e` style -/
theorem generalBody_sci' {num den p T z : Nat} (hd : 0 < den) (hge : den ≤ num)
    (hL : (if p = 0 then 1 else p) < (D (num / den)).length) (hT : 0 < T) (hT10 : T % 10 ≠ 0)
    (hk : keptUp (num / den) ((D (num / den)).length - (if p = 0 then 1 else p) - 1) (decide (num % den ≠ 0)) = T * 10 ^ z)
    (hle : keptUp (num / den) ((D (num / den)).length - (if p = 0 then 1 else p) - 1) (decide (num % den ≠ 0)) ≤
      10 ^ (if p = 0 then 1 else p)) :
    FmtSpec.generalBody num den p =
      sciText T ((D (num / den)).length - 1 +
        (if keptUp (num / den) ((D (num / den)).length - (if p = 0 then 1 else p) - 1) (decide (num % den ≠ 0)) =
          10 ^ (if p = 0 then 1 else p) then 1 else 0)) := by
  generalize hP : (if p = 0 then 1 else p) = P at *
  generalize hn : num / den = n at *
  have hPpos : 0 < P := by rw [← hP]; split <;> omega
  have hnpos : 0 < n := by rw [← hn]; exact Nat.div_pos hge hd
  have hnd : num ≠ 0 := by omega
  have hx0 : FmtSpec.floorLog10 num den = (((D n).length - 1 : Nat) : Int) := by
    unfold FmtSpec.floorLog10; rw [if_pos hge, hn]
  have hkk : (P : Int) - 1 - (((D n).length - 1 : Nat) : Int) = - (((D n).length - P : Nat) : Int) := by omega
  have hneg : ¬ ((0 : Int) ≤ - (((D n).length - P : Nat) : Int)) := by omega
  have hsr : FmtSpec.scaleRound num den ((P : Int) - 1 - (((D n).length - 1 : Nat) : Int)) =
      keptUp n ((D n).length - P - 1) (decide (num % den ≠ 0)) := by
    rw [hkk]; unfold FmtSpec.scaleRound
    rw [if_neg hneg, Int.neg_neg, Int.toNat_natCast]
    have := roundHalfEven_digits (N := num) (den := den) (b := n) (i := (D n).length - P - 1) (ru := decide (num % den ≠ 0)) hd hn.symm
      (by simp)
    rw [show (D n).length - P - 1 + 1 = (D n).length - P by omega] at this
    rw [this]; unfold keptUp
    rw [show (D n).length - P - 1 + 1 = (D n).length - P by omega]
  generalize hK : keptUp n ((D n).length - P - 1) (decide (num % den ≠ 0)) = K at *
  have hsci : FmtSpec.sciDigits num den P =
      (if K = 10 ^ P then (10 ^ (P - 1), (((D n).length - 1 : Nat) : Int) + 1) else (K, (((D n).length - 1 : Nat) : Int))) := by
    unfold FmtSpec.sciDigits
    simp only [hx0, hsr]
  unfold FmtSpec.generalBody
  simp only [hP, hnd, if_false]
  have hrange : ¬ ((-4 : Int) ≤ (FmtSpec.sciDigits num den P).2 ∧ (FmtSpec.sciDigits num den P).2 < (P : Int)) := by
    rw [hsci]; split <;> simp <;> omega
  rw [if_neg hrange, sciBody_eq]
  simp only [hnd, if_false, hsci]
  by_cases hc : K = 10 ^ P
  · simp only [hc, if_true]
    obtain ⟨rfl, rfl⟩ := pow10_factor hT10 (by rw [← hk, hc])
    have hD : D (10 ^ (z - 1)) = D 1 ++ List.replicate (z - 1) 48 := by
      have := D_mul_pow 1 (z - 1) (by decide); rwa [Nat.one_mul] at this
    have hlen : z ≤ (D (10 ^ (z - 1))).length := by rw [hD]; simp [show D 1 = [49] by decide]; omega
    rw [padLeft_full z _ hlen]
    have hs := strip_sci 1 (z - 1) (by decide) (by decide)
    rw [Nat.one_mul] at hs
    rw [hs]
    have hX : (((D n).length - 1 : Nat) : Int) + 1 = (((D n).length - 1 + 1 : Nat) : Int) := by push_cast; ring
    rw [hX, expText_nat]
    simp [sciText, List.append_assoc]
  · simp only [hc, if_false, Nat.add_zero]
    have hKlt : K < 10 ^ P := by omega
    have hn1 : 10 ^ ((D n).length - 1) ≤ n := pow_le_of_len (by omega) (by omega)
    have hKge : 10 ^ (P - 1) ≤ K := by
      rw [← hK]; unfold keptUp
      have h1 : 10 ^ (P - 1) = 10 ^ ((D n).length - 1) / 10 ^ ((D n).length - P) := by
        rw [Nat.pow_div (by omega) (by decide)]; congr 1; omega
      have h2 : 10 ^ ((D n).length - 1) / 10 ^ ((D n).length - P) ≤ n / 10 ^ ((D n).length - P) := Nat.div_le_div_right hn1
      rw [show (D n).length - P - 1 + 1 = (D n).length - P by omega]
      omega
    have hlen : P ≤ (D K).length := by
      have := D_length_gt hKge; omega
    rw [padLeft_full P _ hlen]
    have hs := strip_sci T z hT hT10
    rw [← hk] at hs
    rw [hs, expText_nat]
    simp [sciText, List.append_assoc]

theorem decode64_ge_pow {bits num den : Nat} {neg : Bool} (h : FmtSpec.decode64 bits = .fin neg num den)
    (he : 1023 ≤ (bits / 2 ^ 52) % 2 ^ 11) : 2 ^ ((bits / 2 ^ 52) % 2 ^ 11 - 1023) * den ≤ num := by
  unfold FmtSpec.decode64 FmtSpec.decode at h
  have hlt : (bits / 2 ^ 52) % 2 ^ 11 < 2 ^ 11 := Nat.mod_lt _ (by norm_num)
  generalize (bits / 2 ^ 52) % 2 ^ 11 = e at *
  generalize hf : bits % 2 ^ 52 = f at *
  simp only [show (2:Nat) ^ (11 - 1) - 1 = 1023 by norm_num, show ¬ (e = 0) by omega, if_false] at h
  by_cases hinf : e = 2 ^ 11 - 1
  · rw [if_pos hinf] at h; split at h <;> cases h
  · rw [if_neg hinf] at h
    by_cases hbig : 1023 + 52 ≤ e
    · rw [if_pos hbig] at h
      injection h with _ hn hd
      rw [← hn, ← hd, Nat.mul_one, show e - 1023 = 52 + (e - (1023 + 52)) by omega, Nat.pow_add]
      exact Nat.mul_le_mul_right _ (Nat.le_add_right _ _)
    · rw [if_neg hbig] at h
      injection h with _ hn hd
      rw [← hn, ← hd, ← Nat.pow_add, show e - 1023 + (1023 + 52 - e) = 52 by omega]
      exact Nat.le_add_right _ _

/-- the closed-form digit run in the Default format when the digit estimate exceeds the precision (value ≥ 1) -/
theorem runSpec_default_extra {f e P : Nat} (hpos : 1023 ≤ e) (he0 : e ≠ 0)
    (hx : P < (e - 1023) * 30103 / 100000 + 1) :
    (runSpec 52 1023 f e P 0).2.1 = (e - 1023) * 30103 / 100000 + 1 ∧
    (runSpec 52 1023 f e P 0).2.2.1 = 0 ∧ (runSpec 52 1023 f e P 0).2.2.2.1 = true ∧
    runDrop 52 1023 f e P 0 = (e - 1023) * 30103 / 100000 + 1 - (P + 1) := by
  have hfix : (decide ((0:Nat) = fmtSemiFixed) || decide ((0:Nat) = fmtFixed)) = false := by decide
  have hest : ∀ j, estDigits 52 j (e - 1023) e = (e - 1023) * 30103 / 100000 + 1 := by
    intro j; unfold estDigits; rw [if_neg he0]; simp
  simp only [runSpec, runDrop, hpos, if_true, decide_true, Bool.true_and, hfix, Bool.not_false, Bool.and_true, hest, hx,
    Bool.or_true]
  exact ⟨trivial, trivial, trivial, trivial⟩

/-- **Default format, every double ≥ 1 whose digit estimate exceeds the precision** (so it has more integer digits
than `P`): the integer part is cut `d` digits short, the fraction and the dropped digits go into the sticky flag,
and the text is `%.{p}g` in the `e+XX` style. -/
theorem default_extra64 (pre : List Nat) (bits p : Nat) (hp : p ≤ 40)
    (hfin : (bits / 2 ^ 52) % 2 ^ 11 ≠ 2 ^ 11 - 1) (hge1 : 1023 ≤ (bits / 2 ^ 52) % 2 ^ 11)
    (hx : (if p = 0 then 1 else p) < ((bits / 2 ^ 52) % 2 ^ 11 - 1023) * 30103 / 100000 + 1) :
    realToString f64 pre bits p 0 = .ok (pre ++ FmtSpec.format64 bits p .default) := by
  have hnz : (bits / 2 ^ 52) % 2 ^ 11 ≠ 0 ∨ bits % 2 ^ 52 ≠ 0 := Or.inl (by omega)
  have hfl : bits % 2 ^ 52 < 2 ^ 52 := Nat.mod_lt _ (by norm_num)
  have hlt : (bits / 2 ^ 52) % 2 ^ 11 < 2 ^ 11 := Nat.mod_lt _ (by norm_num)
  have hel : (bits / 2 ^ 52) % 2 ^ 11 ≤ 2 * 1023 := by omega
  have hpp : (if (0:Nat) = fmtDefault ∧ p = 0 then 1 else p) = (if p = 0 then 1 else p) := by simp [fmtDefault]
  generalize hP : (if p = 0 then 1 else p) = P at *
  have hPpos : 0 < P := by rw [← hP]; split <;> omega
  have hP40 : P ≤ 40 := by rw [← hP]; split <;> omega
  obtain ⟨num, den, hden, hdec, hex⟩ := runSpec_exact_decode (M := 52) (X := 11) (by decide) (by decide) (by decide)
    bits P 0 hfin hnz
  have hB : (2:Nat) ^ (11 - 1) - 1 = 1023 := by norm_num
  rw [hB] at hex
  have hdec64 : FmtSpec.decode64 bits = .fin (decide (bits / 2 ^ 63 % 2 = 1)) num den := hdec
  have hpow := decode64_ge_pow hdec64 hge1
  obtain ⟨hdg, hfl0, hpos, hdrop⟩ := runSpec_default_extra (f := bits % 2 ^ 52) (P := P) hge1 (by omega) hx
  generalize hpe : (bits / 2 ^ 52) % 2 ^ 11 - 1023 = pe at *
  have hpe1130 : pe ≤ 1130 := by omega
  obtain ⟨ht1, ht2⟩ := est_table pe hpe1130
  generalize hr : runSpec 52 1023 (bits % 2 ^ 52) ((bits / 2 ^ 52) % 2 ^ 11) P 0 = r at *
  obtain ⟨b, dg, fl, pos, ru⟩ := r
  simp only at hdg hfl0 hpos hex
  subst hfl0; subst hpos
  generalize hd : runDrop 52 1023 (bits % 2 ^ 52) ((bits / 2 ^ 52) % 2 ^ 11) P 0 = d at *
  obtain ⟨hb, hru⟩ := hex
  rw [Nat.pow_zero, Nat.mul_one] at hb hru
  -- the integer part
  generalize hn : num / den = n at *
  have hn2 : 2 ^ pe ≤ n := by
    rw [← hn, Nat.le_div_iff_mul_le hden]; exact hpow
  have hnge : 10 ^ (pe * 30103 / 100000) ≤ n := le_trans ht1 hn2
  have hLn : pe * 30103 / 100000 < (D n).length := D_length_gt hnge
  have hnpos : 0 < n := lt_of_lt_of_le (Nat.pow_pos (by decide)) hnge
  have hdenle : den ≤ num := decode64_ge1 hdec64 hge1
  have hbn : b = n / 10 ^ d := by rw [hb, ← Nat.div_div_eq_div_mul, hn]
  have hrun : ru = true ↔ (decide (num % den ≠ 0) = true ∨ n % 10 ^ d ≠ 0) := by
    rw [hru, ← mod_mul_ne_zero_iff num den (10 ^ d) hden, hn]; simp
  have hdd : d + P + 1 ≤ (D n).length := by omega
  have hge : 10 ^ d ≤ n := by
    by_cases hd0 : d = 0
    · subst hd0; rw [Nat.pow_zero]; exact hnpos
    · exact pow_le_of_len (by omega) (by omega)
  have hLnb : (D n).length = (D b).length + d := by rw [hbn]; exact D_length_div hge
  have hbpos : 0 < b := by rw [hbn]; exact Nat.div_pos hge (Nat.pow_pos (by decide))
  have hLb : P < (D b).length := by omega
  have hblen : (D b).length ≤ 1344 := by
    have hb1344 := runSpec_lt shape64 (fmt := 0) hfl hel hnz hP40
    rw [hr] at hb1344
    exact D_length_le _ 1344 (by decide) (lt_of_lt_of_le hb1344 (Nat.pow_le_pow_left (by decide) 1344))
  -- model side
  rw [realToString_finite64 pre bits p 0 hfin hnz, hpp, realFinite_reduce shape64 _ hfl hel hnz hP40, hr]
  have hR : R b = Rl b := by simp [R, Rl]; omega
  unfold layout
  have e1 : ¬ ((0:Nat) = fmtSemiFixed) := by decide
  have e2 : ¬ ((0:Nat) = fmtFixed) := by decide
  simp only [e1, e2, if_false, hR]
  obtain ⟨T, z, pi, hfmt, hT0, hT10, hk, hpi, hpi2⟩ :=
    formatDefault_round_int (if bits / 2 ^ 63 % 2 = 1 then pre ++ [45] else pre) (dg := dg) ru hbpos hPpos hLb (by omega)
  rw [hfmt]
  -- reference side
  have hshift : keptUp n ((D n).length - P - 1) (decide (num % den ≠ 0)) = keptUp b ((D b).length - P - 1) ru := by
    rw [show (D n).length - P - 1 = ((D b).length - P - 1) + d by omega, hbn]
    exact keptUp_shift' hrun
  have hle : keptUp n ((D n).length - P - 1) (decide (num % den ≠ 0)) ≤ 10 ^ P := by
    rw [hshift]
    cases hpi' : pi
    · exact Nat.le_of_lt (hpi2 hpi')
    · exact Nat.le_of_eq (hpi.mp hpi')
  have hbody := generalBody_sci' (p := p) hden hdenle (by rw [hP, hn]; omega) hT0 hT10
    (by rw [hP, hn, hshift]; exact hk) (by rw [hP, hn]; exact hle)
  rw [format64_finite bits p _ hdec64]
  simp only []
  rw [hbody, hP, hn, hshift]
  have hX : (D b).length + (if dg ≤ P then 0 else dg - (P + 1)) - (if pi = true then 0 else 1) =
      (D n).length - 1 + (if keptUp b ((D b).length - P - 1) ru = 10 ^ P then 1 else 0) := by
    have hdd2 : (if dg ≤ P then 0 else dg - (P + 1)) = d := by rw [hdrop, hdg]; split <;> omega
    rw [hdd2]
    cases hpi' : pi
    · have : ¬ (keptUp b ((D b).length - P - 1) ru = 10 ^ P) := fun hc => by have := hpi.mpr hc; rw [hpi'] at this; cases this
      simp [this]; omega
    · have : keptUp b ((D b).length - P - 1) ru = 10 ^ P := hpi.mp hpi'
      simp [this]; omega
  rw [hX]
  by_cases hs : bits / 9223372036854775808 % 2 = 1 <;> simp [hs, FmtSpec.signed, FmtSpec.cMinus]

end Qentem.Proofs.NumToStr
