import Qentem.Proofs.StrToNumExact
/-! C09/C11 helper lemmas: texts as whole buffers, and the formatter area's `readDecimal` on the
`%.17g` shapes. -/
namespace Qentem.StrToNum
open Qentem Qentem.Round

theorem rd_append (pre : List Nat) (x : Nat) (post : List Nat) (e : Nat) (h : pre.length < e) :
    rd (pre ++ x :: post) e pre.length = some x := by
  unfold rd; simp [h]

theorem unitsAt_mid (pre : List Nat) : ∀ (l post : List Nat) (e : Nat), pre.length + l.length ≤ e →
    unitsAt (pre ++ l ++ post) e pre.length l
  | [], _, _, _ => trivial
  | x :: xs, post, e, h => by
    refine ⟨?_, ?_⟩
    · rw [List.append_assoc, List.cons_append]
      exact rd_append pre x (xs ++ post) e (by simp at h; omega)
    · have := unitsAt_mid (pre ++ [x]) xs post e (by simp at h ⊢; omega)
      simpa [List.append_assoc] using this

/-- a text is its own buffer -/
theorem unitsAt_self (t : List Nat) : unitsAt t t.length 0 t := by
  have := unitsAt_mid [] t [] t.length (by simp)
  simpa using this

theorem nearestMag_le_inf (n d : Nat) : nearestMag n d ≤ infBits := by
  by_cases h : n = 0 ∨ d = 0
  · unfold nearestMag; simp only [h, if_true]; unfold infBits; omega
  · rw [nearestMag_pair n d (by omega) (by omega)]
    unfold cap
    split
    · exact Nat.le_refl _
    · omega

theorem or_sign_add (p : Nat) (neg : Bool) (hp : p < 2 ^ 63) :
    (p ||| (if neg then 0x8000000000000000 else 0)) = (if neg then 2 ^ 63 else 0) + p := by
  cases neg with
  | false => simp
  | true =>
    simp only [if_true]
    have := Nat.two_pow_add_eq_or_of_lt (i := 63) (b := p) hp 1
    rw [Nat.or_comm]
    simp at this; omega

/-! ### `FmtSpec.readDecimal` on digit runs -/

theorem fmt_isDigit_eq (c : Nat) : FmtSpec.isDigit c = isDigit c := by
  unfold FmtSpec.isDigit isDigit; simp

theorem digitsValue_eq (l : List Nat) : FmtSpec.digitsValue l = decVal l := rfl

theorem takeWhile_digits (ds rest : List Nat) (hds : AllDigits ds) (hr : ∀ x, rest.head? = some x → isDigit x = false) :
    (ds ++ rest).takeWhile FmtSpec.isDigit = ds ∧ (ds ++ rest).dropWhile FmtSpec.isDigit = rest := by
  induction ds with
  | nil =>
    cases rest with
    | nil => simp
    | cons x xs =>
      have := hr x rfl
      simp [List.takeWhile, List.dropWhile, fmt_isDigit_eq, this]
  | cons d ds ih =>
    have hd : isDigit d = true := hds d (by simp)
    have := ih (fun y hy => hds y (by simp [hy]))
    simp [List.takeWhile, List.dropWhile, fmt_isDigit_eq, hd, this]

end Qentem.StrToNum
