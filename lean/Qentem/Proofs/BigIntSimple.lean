import Qentem.Proofs.BigIntAdd
/-! The operations without carries: set, or/and with a word, comparisons, predicates, narrowing,
FindLastBit, Clear. -/
namespace Qentem.BigInt

/-- a generic "zero the words i, i-1, …, lo+1" loop result -/
theorem zeroDownTo_spec (lo : Nat) : ∀ (i : Nat) (ws : List Nat), i < ws.length →
    ∃ ws', zeroDownTo lo ws i = .ok ws' ∧ ws'.length = ws.length ∧
      (∀ k, lo < k → k ≤ i → ws'.getD k 0 = 0) ∧ (∀ k, (k ≤ lo ∨ i < k) → ws'.getD k 0 = ws.getD k 0)
  | 0, ws, _ => ⟨ws, rfl, rfl, fun k h1 h2 => by omega, fun _ _ => rfl⟩
  | i + 1, ws, hi => by
    unfold zeroDownTo
    by_cases hgt : i + 1 > lo
    · rw [if_pos hgt, wr_ok _ hi]
      simp only [bind, Except.bind]
      obtain ⟨ws', hrun, hl, hz, hfr⟩ := zeroDownTo_spec lo i (ws.set (i + 1) 0) (by simp; omega)
      refine ⟨ws', hrun, by simpa using hl, ?_, ?_⟩
      · intro k h1 h2
        by_cases hk : k = i + 1
        · subst hk; rw [hfr (i + 1) (Or.inr (by omega)), getD_set_eq hi]
        · exact hz k h1 (by omega)
      · intro k hk
        rw [hfr k (by omega)]; exact getD_set_ne (by omega)
    · rw [if_neg hgt]
      exact ⟨ws, rfl, rfl, fun k h1 h2 => by omega, fun _ _ => rfl⟩

theorem zeroHigh_spec : ∀ (i : Nat) (ws : List Nat), i < ws.length →
    ∃ ws', zeroHigh ws i = .ok ws' ∧ ws'.length = ws.length ∧
      (∀ k, 0 < k → k ≤ i → ws'.getD k 0 = 0) ∧ (∀ k, (k = 0 ∨ i < k) → ws'.getD k 0 = ws.getD k 0)
  | 0, ws, _ => ⟨ws, rfl, rfl, fun k h1 h2 => by omega, fun _ _ => rfl⟩
  | i + 1, ws, hi => by
    unfold zeroHigh
    rw [wr_ok _ hi]
    simp only [bind, Except.bind]
    obtain ⟨ws', hrun, hl, hz, hfr⟩ := zeroHigh_spec i (ws.set (i + 1) 0) (by simp; omega)
    refine ⟨ws', hrun, by simpa using hl, ?_, ?_⟩
    · intro k h1 h2
      by_cases hk : k = i + 1
      · subst hk; rw [hfr (i + 1) (Or.inr (by omega)), getD_set_eq hi]
      · exact hz k h1 (by omega)
    · intro k hk
      rw [hfr k (by omega)]; exact getD_set_ne (by omega)

theorem clearFrom_spec : ∀ (i : Nat) (ws : List Nat), i < ws.length →
    ∃ ws', clearFrom ws i = .ok ws' ∧ ws'.length = ws.length ∧
      (∀ k, k ≤ i → ws'.getD k 0 = 0) ∧ (∀ k, i < k → ws'.getD k 0 = ws.getD k 0)
  | 0, ws, h => by
    unfold clearFrom
    refine ⟨_, wr_ok 0 h, by simp, ?_, ?_⟩
    · intro k hk
      have : k = 0 := by omega
      subst this; exact getD_set_eq h
    · intro k hk; exact getD_set_ne (by omega)
  | i + 1, ws, hi => by
    unfold clearFrom
    rw [wr_ok _ hi]
    simp only [bind, Except.bind]
    obtain ⟨ws', hrun, hl, hz, hfr⟩ := clearFrom_spec i (ws.set (i + 1) 0) (by simp; omega)
    refine ⟨ws', hrun, by simpa using hl, ?_, ?_⟩
    · intro k h1
      by_cases hk : k = i + 1
      · subst hk; rw [hfr (i + 1) (by omega), getD_set_eq hi]
      · exact hz k (by omega)
    · intro k hk
      rw [hfr k (by omega)]; exact getD_set_ne (by omega)

/-- a list that is zero from word 1 on has the value of its first word -/
theorem valW_of_zeroFrom_one (W : Nat) (ws : List Nat) (h0 : 0 < ws.length) (hz : ZeroFrom ws 1) :
    valW W ws = ws[0] := by
  rw [valW_of_zeroFrom W ws 1 h0 hz]
  match ws, h0 with
  | w :: ws, _ => simp [valW]

theorem bounded_of_getD {W : Nat} {ws : List Nat} (h : ∀ k, k < ws.length → ws.getD k 0 < 2 ^ W) : Bounded W ws := by
  intro w hw
  obtain ⟨k, hk, rfl⟩ := List.getElem_of_mem hw
  have := h k hk
  rwa [getD_eq_getElem hk] at this

theorem Bounded.getD {W : Nat} {ws : List Nat} (hb : Bounded W ws) (k : Nat) : ws.getD k 0 < 2 ^ W := by
  by_cases hk : k < ws.length
  · rw [getD_eq_getElem hk]; exact hb.getElem hk
  · simp [List.getD_eq_getElem?_getD, List.getElem?_eq_none (by omega : ws.length ≤ k)]

/-- A state whose words above 0 are all zero and whose first word is `x`. -/
theorem inv_single {W : Nat} {ws : List Nat} {x : Nat} (hW : 0 < W) (h0 : 0 < ws.length) (hx : x < 2 ^ W)
    (hw0 : ws.getD 0 0 = x) (hz : ZeroFrom ws 1) : Inv W ⟨ws, 0⟩ ∧ valW W ws = x := by
  have hb : Bounded W ws := by
    apply bounded_of_getD
    intro k hk
    by_cases h : k = 0
    · subst h; rw [hw0]; exact hx
    · rw [hz k (by omega)]; exact Nat.pow_pos (by decide)
  refine ⟨⟨⟨hW, hb, h0, hz⟩, fun h => absurd rfl h⟩, ?_⟩
  rw [valW_of_zeroFrom_one W ws h0 hz, ← getD_eq_getElem h0]; exact hw0

/-- `x = number` for an operand that fits one word (`K ≤ W`). -/
theorem assign_small_spec {W K : Nat} (s : Big) (x : Nat) (h : Inv W s) (hK : K ≤ W) (hx : x < 2 ^ K) :
    ∃ s', assign W K s x = .ok s' ∧ Inv W s' ∧ s'.words.length = s.words.length ∧ s'.val W = x := by
  have hxW : x < 2 ^ W := Nat.lt_of_lt_of_le hx (Nat.pow_le_pow_right (by decide) hK)
  have h0 : 0 < s.words.length := Nat.lt_of_le_of_lt (Nat.zero_le _) h.idx_lt
  have hset : opK W K .set s x = .ok ⟨s.words.set 0 x, 0⟩ := by
    unfold opK
    by_cases hKW : K = W
    · simp [hKW, opNarrow, wr_ok _ h0, bind, Except.bind, pure, Except.pure]
    · have hlt : K < W := by omega
      have hdiv : K / W = 0 := Nat.div_eq_of_lt hlt
      have hne : (K == W) = false := by simp [hKW]
      simp [hne, opWide, Nat.mod_eq_of_lt hxW, wr_ok _ h0, bind, Except.bind, pure, Except.pure, hdiv]
  obtain ⟨ws', hrun, hl, hz, hfr⟩ := zeroDownTo_spec 0 s.idx (s.words.set 0 x) (by simpa using h.idx_lt)
  unfold assign
  rw [hset]
  simp only [bind, Except.bind]
  rw [hrun]
  have hl' : ws'.length = s.words.length := by simpa using hl
  have hzf : ZeroFrom ws' 1 := by
    intro k hk
    by_cases hk2 : k ≤ s.idx
    · exact hz k (by omega) hk2
    · rw [hfr k (Or.inr (by omega)), getD_set_ne (by omega)]; exact h.above k (by omega)
  have hw0 : ws'.getD 0 0 = x := by rw [hfr 0 (Or.inl (Nat.le_refl _)), getD_set_eq h0]
  obtain ⟨hinv, hval⟩ := inv_single h.wpos (by omega : 0 < ws'.length) hxW hw0 hzf
  exact ⟨_, rfl, hinv, hl', hval⟩

theorem clear_spec {W : Nat} (s : Big) (h : Inv W s) :
    ∃ s', clear s = .ok s' ∧ Inv W s' ∧ s'.words.length = s.words.length ∧ s'.val W = 0 := by
  obtain ⟨ws', hrun, hl, hz, hfr⟩ := clearFrom_spec s.idx s.words h.idx_lt
  unfold clear
  rw [hrun]
  have hzf : ZeroFrom ws' 1 := by
    intro k hk
    by_cases hk2 : k ≤ s.idx
    · exact hz k hk2
    · rw [hfr k (by omega)]; exact h.above k (by omega)
  obtain ⟨hinv, hval⟩ := inv_single (x := 0) h.wpos (by have := h.idx_lt; omega : 0 < ws'.length)
    (Nat.pow_pos (by decide)) (hz 0 (Nat.zero_le _)) hzf
  exact ⟨_, rfl, hinv, hl, hval⟩

/-- value = first word + 2^W · rest -/
theorem valW_eq_head_add (W : Nat) (ws : List Nat) (h0 : 0 < ws.length) :
    ∃ r, valW W ws = ws[0] + 2 ^ W * r := by
  match ws, h0 with
  | w :: ws, _ => exact ⟨valW W ws, rfl⟩

theorem or_low (W w0 r x : Nat) (hw : w0 < 2 ^ W) (hx : x < 2 ^ W) :
    (w0 + 2 ^ W * r) ||| x = (w0 ||| x) + 2 ^ W * r := by
  rw [Nat.add_comm, Nat.two_pow_add_eq_or_of_lt hw, Nat.or_assoc,
    ← Nat.two_pow_add_eq_or_of_lt (Nat.or_lt_two_pow hw hx), Nat.add_comm]

theorem and_low (W w0 r x : Nat) (hw : w0 < 2 ^ W) (hx : x < 2 ^ W) :
    (w0 + 2 ^ W * r) &&& x = w0 &&& x := by
  have h1 : (w0 + 2 ^ W * r) &&& x < 2 ^ W := Nat.lt_of_le_of_lt Nat.and_le_right hx
  rw [← Nat.mod_eq_of_lt h1, Nat.and_mod_two_pow, Nat.mod_eq_of_lt hx, Nat.add_mul_mod_self_left,
    Nat.mod_eq_of_lt hw]

/-- `|= number` for an operand that fits one word. -/
theorem or_small_spec {W K : Nat} (s : Big) (x : Nat) (h : Inv W s) (hK : K ≤ W) (hx : x < 2 ^ K) :
    ∃ s', opK W K .or s x = .ok s' ∧ Inv W s' ∧ s'.words.length = s.words.length ∧ s'.val W = s.val W ||| x := by
  have hxW : x < 2 ^ W := Nat.lt_of_lt_of_le hx (Nat.pow_le_pow_right (by decide) hK)
  have h0 : 0 < s.words.length := Nat.lt_of_le_of_lt (Nat.zero_le _) h.idx_lt
  have hrun : opK W K .or s x = .ok ⟨s.words.set 0 (s.words[0] ||| x), s.idx⟩ := by
    unfold opK
    by_cases hKW : K = W
    · simp [hKW, opNarrow, rd_ok h0, wr_ok _ h0, bind, Except.bind, pure, Except.pure]
    · have hlt : K < W := by omega
      have hdiv : K / W = 0 := Nat.div_eq_of_lt hlt
      have hne : (K == W) = false := by simp [hKW]
      simp [hne, opWide, Nat.mod_eq_of_lt hxW, rd_ok h0, wr_ok _ h0, bind, Except.bind, pure, Except.pure, hdiv]
  have hw0 : s.words[0] < 2 ^ W := h.bound.getElem h0
  have hor : s.words[0] ||| x < 2 ^ W := Nat.or_lt_two_pow hw0 hxW
  refine ⟨_, hrun, ⟨⟨h.wpos, h.bound.set _ hor, by simpa using h.idx_lt, ?_⟩, ?_⟩, by simp, ?_⟩
  · intro k hk
    have hk' : s.idx + 1 ≤ k := hk
    show (s.words.set 0 _).getD k 0 = 0
    rw [getD_set_ne (by omega)]; exact h.above k hk
  · intro hne
    have hne' : s.idx ≠ 0 := hne
    show (s.words.set 0 _).getD s.idx 0 ≠ 0
    rw [getD_set_ne (by omega)]; exact h.top hne'
  · obtain ⟨r, hr⟩ : ∃ r, s.val W = s.words[0] + 2 ^ W * r := valW_eq_head_add W s.words h0
    have hset := valW_set W s.words 0 (s.words[0] ||| x) h0
    simp only [Nat.mul_zero, Nat.pow_zero, Nat.mul_one] at hset
    show valW W (s.words.set 0 _) = s.val W ||| x
    rw [hr, or_low W _ r x hw0 hxW]
    unfold Big.val at hr
    omega

/-- `&= number` for an operand that fits one word (as repaired: the result is canonical). -/
theorem and_small_spec {W K : Nat} (s : Big) (x : Nat) (h : Inv W s) (hK : K ≤ W) (hx : x < 2 ^ K) :
    ∃ s', opK W K .and s x = .ok s' ∧ Inv W s' ∧ s'.words.length = s.words.length ∧ s'.val W = s.val W &&& x := by
  have hxW : x < 2 ^ W := Nat.lt_of_lt_of_le hx (Nat.pow_le_pow_right (by decide) hK)
  have h0 : 0 < s.words.length := Nat.lt_of_le_of_lt (Nat.zero_le _) h.idx_lt
  have hw0 : s.words[0] < 2 ^ W := h.bound.getElem h0
  have hand : s.words[0] &&& x < 2 ^ W := Nat.lt_of_le_of_lt Nat.and_le_right hxW
  obtain ⟨r, hr⟩ : ∃ r, s.val W = s.words[0] + 2 ^ W * r := valW_eq_head_add W s.words h0
  have hvalue : s.val W &&& x = s.words[0] &&& x := by rw [hr]; exact and_low W _ r x hw0 hxW
  by_cases hKW : K = W
  · obtain ⟨ws', hrun, hl, hz, hfr⟩ := zeroHigh_spec s.idx (s.words.set 0 (s.words[0] &&& x)) (by simpa using h.idx_lt)
    have hl' : ws'.length = s.words.length := by simpa using hl
    have hzf : ZeroFrom ws' 1 := by
      intro k hk
      by_cases hk2 : k ≤ s.idx
      · exact hz k (by omega) hk2
      · rw [hfr k (Or.inr (by omega)), getD_set_ne (by omega)]; exact h.above k (by omega)
    have hw0' : ws'.getD 0 0 = s.words[0] &&& x := by rw [hfr 0 (Or.inl rfl), getD_set_eq h0]
    obtain ⟨hinv, hval⟩ := inv_single h.wpos (by omega : 0 < ws'.length) hand hw0' hzf
    refine ⟨⟨ws', 0⟩, ?_, hinv, hl', by rw [hvalue]; exact hval⟩
    unfold opK
    simp only [hKW, beq_self_eq_true, if_true, opNarrow, rd_ok h0, bind, Except.bind, wr_ok _ h0]
    subst hKW
    rw [hrun]; rfl
  · have hlt : K < W := by omega
    have hdiv : K / W = 0 := Nat.div_eq_of_lt hlt
    have hne : (K == W) = false := by simp [hKW]
    -- the wide overload with no further chunk: zero the words 1 .. last
    have hzu : ∀ (fuel : Nat) (ws : List Nat) (index : Nat), s.idx < ws.length → s.idx + 1 - index < fuel →
        ∃ ws', zeroUpTo s.idx fuel ws index = .ok ws' ∧ ws'.length = ws.length ∧
          (∀ k, index ≤ k → k ≤ s.idx → ws'.getD k 0 = 0) ∧ (∀ k, (k < index ∨ s.idx < k) → ws'.getD k 0 = ws.getD k 0) := by
      intro fuel
      induction fuel with
      | zero => intro ws index _ hf; omega
      | succ fuel ih =>
        intro ws index hlen hf
        unfold zeroUpTo
        by_cases hle : index ≤ s.idx
        · rw [if_pos hle, wr_ok _ (by omega : index < ws.length)]
          simp only [bind, Except.bind]
          obtain ⟨ws', hrun, hl, hz, hfr⟩ := ih (ws.set index 0) (index + 1) (by simpa using hlen) (by omega)
          refine ⟨ws', hrun, by simpa using hl, ?_, ?_⟩
          · intro k h1 h2
            by_cases hk : k = index
            · subst hk; rw [hfr k (Or.inl (by omega)), getD_set_eq (by omega)]
            · exact hz k (by omega) h2
          · intro k hk
            rw [hfr k (by omega)]; exact getD_set_ne (by omega)
        · rw [if_neg hle]
          exact ⟨ws, rfl, rfl, fun k h1 h2 => by omega, fun _ _ => rfl⟩
    obtain ⟨ws', hrun, hl, hz, hfr⟩ := hzu (s.idx + 2) (s.words.set 0 (s.words[0] &&& x)) 1
      (by simpa using h.idx_lt) (by omega)
    have hl' : ws'.length = s.words.length := by simpa using hl
    have hzf : ZeroFrom ws' 1 := by
      intro k hk
      by_cases hk2 : k ≤ s.idx
      · exact hz k hk hk2
      · rw [hfr k (Or.inr (by omega)), getD_set_ne (by omega)]; exact h.above k (by omega)
    have hw0' : ws'.getD 0 0 = s.words[0] &&& x := by rw [hfr 0 (Or.inl (by omega)), getD_set_eq h0]
    obtain ⟨hinv, hval⟩ := inv_single h.wpos (by omega : 0 < ws'.length) hand hw0' hzf
    refine ⟨⟨ws', 0⟩, ?_, hinv, hl', by rw [hvalue]; exact hval⟩
    unfold opK
    simp only [hne, Bool.false_eq_true, if_false, opWide, Nat.mod_eq_of_lt hxW, rd_ok h0, bind, Except.bind,
      wr_ok _ h0, hdiv]
    simp only [show ¬ (0 > 1) by omega, if_false, pure, Except.pure]
    simp only [show (BOp.and == BOp.and) = true by rfl, if_true]
    rw [hrun]

end Qentem.BigInt
