import Qentem.Model.JsonDeps
import Qentem.Proofs.UnicodeUnEscape
import Qentem.Props.C09
/-! The concrete sub-routines meet the contracts the parser theorems assume. -/
namespace Qentem.Json
open Qentem.Unicode

/-- `UnEscape` model: never reads outside the `len` units it is given, returns at most `len`. -/
theorem unEscapeDep_ok (w : Nat) (c : Array Nat) (start len : Nat) (h : start + len ≤ c.size) :
    ∃ r s, unEscapeDep w c start len = .ok (r, s) ∧ r ≤ len := by
  have hlen : len ≤ (c.toList.drop start).length := by simp; omega
  have hB := unEscapeA_eq_B w (c.toList.drop start) len [] hlen
  unfold unEscapeDep
  rw [hB]
  refine ⟨_, _, rfl, ?_⟩
  have := unEscapeA_ret_le w (c.toList.drop start) len [] _ _ hlen hB
  exact this

/-- `StringToNumber` model: never reads outside `[0, length)`; on success the new offset lies
strictly after the old one and inside the buffer. -/
theorem strToNumDep_ok (c : Array Nat) (offset : Nat) (hsz : c.size < 2 ^ 32) (_h : offset < c.size) :
    ∃ r, strToNumDep c offset c.size = .ok r ∧
      (r.kind ≠ .notANumber → offset < r.newOffset ∧ r.newOffset ≤ c.size) := by
  have hc : c.size ≤ c.toList.length := by simp
  obtain ⟨r, hr⟩ := Qentem.Props.C09.strToNum_no_fault c.toList offset c.size hc hsz
  unfold strToNumDep
  rw [hr]
  refine ⟨_, rfl, ?_⟩
  intro hk
  have hk' : r.kind ≠ .notANumber := by
    intro e; apply hk; simp [kindOf, e]
  exact Qentem.Props.C09.strToNum_offset_bounds c.toList offset c.size r hc hsz hr hk'

/-- The sub-routines the parser is really linked with meet its contracts, for every width. -/
theorem jsonDeps_safe (w : Nat) : DepsSafe (jsonDeps w) :=
  ⟨fun c start len h => unEscapeDep_ok w c start len h, fun c offset hsz h => strToNumDep_ok c offset hsz h⟩

end Qentem.Json
