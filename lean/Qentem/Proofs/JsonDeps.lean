import Qentem.Model.JsonDeps
import Qentem.Proofs.UnicodeUnEscape
/-! The concrete sub-routines meet the contracts the parser theorems assume. -/
namespace Qentem.Json
open Qentem.Unicode

/-- `UnEscape` model: never reads outside the `len` units it is given, returns at most `len`. -/
theorem unEscapeDep_ok (w : Nat) (c : Array Nat) (start len : Nat) (h : start + len ≤ c.size) :
    ∃ r s, unEscapeDep w c start len = .ok (r, s) ∧ r ≤ len := by
  have hlen : len ≤ (c.toList.drop start).length := by simp; omega
  have hB := unEscapeA_eq_B w (c.toList.drop start) len [] hlen
  unfold unEscapeDep
  rw [hB]
  refine ⟨_, _, rfl, ?_⟩
  have := unEscapeA_ret_le w (c.toList.drop start) len [] _ _ hlen hB
  exact this

end Qentem.Json
