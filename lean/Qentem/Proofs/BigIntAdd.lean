import Qentem.Proofs.BigIntBasic
/-! `Add`, `Subtract`, the trim loop. -/
namespace Qentem.BigInt

theorem maxIndex_lt {ws : List Nat} (h : 0 < ws.length) (i : Nat) : i ≤ maxIndex ws ↔ i < ws.length := by
  unfold maxIndex; omega

/-- The carry loop of `Add`. Either it stops at a word `j` inside the storage (exact sum, that word
is non-zero) or it runs off the end (`j = n`, the sum does not fit). -/
theorem addLoop_spec {W : Nat} : ∀ (fuel : Nat) (ws : List Nat) (number index : Nat),
    Bounded W ws → 0 < number → number < 2 ^ W → index ≤ ws.length → 0 < ws.length →
    ws.length - index < fuel →
    ∃ ws' j, addLoop W fuel ws number index = .ok (ws', j) ∧ ws'.length = ws.length ∧ Bounded W ws' ∧
      index ≤ j ∧ (∀ i, j < i → ws'.getD i 0 = ws.getD i 0) ∧ (∀ i, i < index → ws'.getD i 0 = ws.getD i 0) ∧
      ((j < ws.length ∧ valW W ws' = valW W ws + number * 2 ^ (W * index) ∧ ws'.getD j 0 ≠ 0) ∨
       (j = ws.length ∧ valW W ws' + 2 ^ (W * ws.length) ≤ valW W ws + number * 2 ^ (W * index)))
  | 0, _, _, _, _, _, _, _, _, hf => by omega
  | fuel + 1, ws, number, index, hb, hn0, hn, hi, hlen, hf => by
    unfold addLoop
    by_cases hlt : index < ws.length
    · have hB : 0 < 2 ^ W := Nat.pow_pos (by decide)
      rw [if_pos ((maxIndex_lt hlen index).2 hlt), rd_ok hlt]
      simp only [bind, Except.bind]
      have hnw : (ws[index] + number) % 2 ^ W < 2 ^ W := Nat.mod_lt _ hB
      rw [wr_ok _ hlt]
      simp only []
      have htmp : ws[index] < 2 ^ W := hb.getElem hlt
      have hset := valW_set W ws index ((ws[index] + number) % 2 ^ W) hlt
      by_cases hgt : (ws[index] + number) % 2 ^ W > ws[index]
      · rw [if_pos hgt]
        have hsum : ws[index] + number < 2 ^ W := by
          by_contra hc
          have : (ws[index] + number) % 2 ^ W = ws[index] + number - 2 ^ W := by
            rw [Nat.mod_eq_sub_mod (by omega), Nat.mod_eq_of_lt (by omega)]
          omega
        have hmod : (ws[index] + number) % 2 ^ W = ws[index] + number := Nat.mod_eq_of_lt hsum
        refine ⟨_, _, rfl, by simp, hb.set _ hnw, Nat.le_refl _, ?_, ?_, Or.inl ⟨hlt, ?_, ?_⟩⟩
        · intro i hi'; exact getD_set_ne (by omega)
        · intro i hi'; exact getD_set_ne (by omega)
        · rw [hmod] at hset ⊢
          rw [Nat.add_mul] at hset; omega
        · rw [getD_set_eq hlt]; omega
      · rw [if_neg hgt]
        have hsum : 2 ^ W ≤ ws[index] + number := by
          by_contra hc
          have : (ws[index] + number) % 2 ^ W = ws[index] + number := Nat.mod_eq_of_lt (by omega)
          omega
        have hmod : (ws[index] + number) % 2 ^ W + 2 ^ W = ws[index] + number := by
          rw [Nat.mod_eq_sub_mod hsum, Nat.mod_eq_of_lt (by omega)]; omega
        have hb1 : Bounded W (ws.set index ((ws[index] + number) % 2 ^ W)) := hb.set _ hnw
        obtain ⟨ws', j, hrun, hl', hb', hij, hfr, hfr2, hcase⟩ :=
          addLoop_spec fuel (ws.set index ((ws[index] + number) % 2 ^ W)) 1 (index + 1) hb1 (by decide)
            (Nat.one_lt_two_pow (by
              intro h0; subst h0; simp at htmp hn; omega)) (by simp; omega) (by simpa using hlen)
            (by simp; omega)
        have key : valW W (ws.set index ((ws[index] + number) % 2 ^ W)) + 1 * 2 ^ (W * (index + 1))
            = valW W ws + number * 2 ^ (W * index) := by
          have e := congrArg (· * 2 ^ (W * index)) hmod
          simp only [Nat.add_mul] at e
          rw [pow_mul_succ]
          omega
        refine ⟨ws', j, hrun, by simpa using hl', hb', by omega, ?_, ?_, ?_⟩
        · intro i hi'; rw [hfr i hi']; exact getD_set_ne (by omega)
        · intro i hi'; rw [hfr2 i (by omega)]; exact getD_set_ne (by omega)
        · simp only [List.length_set] at hcase
          rcases hcase with ⟨h1, h2, h3⟩ | ⟨h1, h2⟩
          · exact Or.inl ⟨h1, by omega, h3⟩
          · exact Or.inr ⟨h1, by omega⟩
    · have he : index = ws.length := by omega
      rw [if_neg (by rw [maxIndex_lt hlen]; exact hlt)]
      refine ⟨ws, index, rfl, rfl, hb, Nat.le_refl _, fun _ _ => rfl, fun _ _ => rfl, Or.inr ⟨he, ?_⟩⟩
      subst he
      have : 1 * 2 ^ (W * ws.length) ≤ number * 2 ^ (W * ws.length) := Nat.mul_le_mul_right _ hn0
      omega

/-- `Add(number, index)`: when the exact sum fits, no fault, the (weak) invariant is kept, the value
is exact; `index_` becomes `max index_ j` where word `j` is non-zero. -/
theorem add_spec {W : Nat} (s : Big) (number index : Nat) (h : WInv W s) (hn : number < 2 ^ W)
    (hi : index ≤ s.words.length)
    (hfit : s.val W + number * 2 ^ (W * index) < 2 ^ (W * s.words.length)) :
    ∃ s', add W s number index = .ok s' ∧ WInv W s' ∧ s'.words.length = s.words.length ∧
      s'.val W = s.val W + number * 2 ^ (W * index) ∧ s.idx ≤ s'.idx ∧
      (∀ i, i < index → s'.words.getD i 0 = s.words.getD i 0) ∧
      ((s.idx ≠ 0 → s.words.getD s.idx 0 ≠ 0) → (s'.idx ≠ 0 → s'.words.getD s'.idx 0 ≠ 0)) := by
  unfold add
  by_cases h0 : number = 0
  · subst h0
    exact ⟨s, rfl, h, rfl, by simp, Nat.le_refl _, fun _ _ => rfl, id⟩
  · have hlen : 0 < s.words.length := Nat.lt_of_le_of_lt (Nat.zero_le _) h.idx_lt
    obtain ⟨ws', j, hrun, hl', hb', hij, hfr, hfr2, hcase⟩ :=
      addLoop_spec (W := W) (s.words.length + 1) s.words number index h.bound (by omega) hn hi hlen (by omega)
    have hne : (number != 0) = true := by simp [h0]
    rw [if_pos hne, hrun]
    simp only [bind, Except.bind]
    rcases hcase with ⟨h1, h2, h3⟩ | ⟨h1, h2⟩
    · have hnot : ¬ j > maxIndex ws' := by
        unfold maxIndex
        omega
      rw [if_neg hnot]
      by_cases hj : j > s.idx
      · rw [if_pos hj]
        refine ⟨_, rfl, ⟨h.wpos, hb', by simpa [hl'] using h1, ?_⟩, hl', h2, Nat.le_of_lt hj, hfr2, fun _ _ => h3⟩
        intro i hi'
        have hi2 : j + 1 ≤ i := hi'
        rw [hfr i hi2]; exact h.above i (by omega)
      · rw [if_neg hj]
        refine ⟨_, rfl, ⟨h.wpos, hb', by simpa [hl'] using h.idx_lt, ?_⟩, hl', h2, Nat.le_refl _, hfr2, ?_⟩
        · intro i hi'
          have hi2 : s.idx + 1 ≤ i := hi'
          rw [hfr i (by omega)]; exact h.above i hi2
        · intro ht hne0
          simp only at hne0 ⊢
          by_cases hje : j = s.idx
          · rw [← hje]; exact h3
          · rw [hfr s.idx (by omega)]; exact ht hne0
    · exfalso
      unfold Big.val at hfit
      omega

theorem trim_spec (ws : List Nat) : ∀ (i : Nat), i < ws.length →
    ∃ j, trim ws i = .ok j ∧ j ≤ i ∧ (∀ k, j < k → k ≤ i → ws.getD k 0 = 0) ∧ (j ≠ 0 → ws.getD j 0 ≠ 0)
  | 0, _ => ⟨0, rfl, Nat.le_refl _, fun k h1 h2 => by omega, fun h => absurd rfl h⟩
  | i + 1, hi => by
    unfold trim
    rw [rd_ok hi]
    simp only [bind, Except.bind]
    by_cases hz : ws[i + 1] = 0
    · obtain ⟨j, hrun, hle, hzero, htop⟩ := trim_spec ws i (by omega)
      simp only [hz, beq_self_eq_true, if_true]
      refine ⟨j, hrun, by omega, ?_, htop⟩
      intro k h1 h2
      by_cases hk : k = i + 1
      · subst hk; rw [getD_eq_getElem hi]; exact hz
      · exact hzero k h1 (by omega)
    · have : (ws[i + 1] == 0) = false := by simp [hz]
      simp only [this]
      refine ⟨i + 1, rfl, Nat.le_refl _, fun k h1 h2 => by omega, fun _ => ?_⟩
      rw [getD_eq_getElem hi]; exact hz

/-- trimming turns the weak invariant into the full one -/
theorem trim_inv {W : Nat} (s : Big) (h : WInv W s) :
    ∃ j, trim s.words s.idx = .ok j ∧ Inv W ⟨s.words, j⟩ ∧ j ≤ s.idx := by
  obtain ⟨j, hrun, hle, hzero, htop⟩ := trim_spec s.words s.idx h.idx_lt
  refine ⟨j, hrun, ⟨⟨h.wpos, h.bound, Nat.lt_of_le_of_lt hle h.idx_lt, ?_⟩, htop⟩, hle⟩
  intro k hk
  by_cases hk2 : k ≤ s.idx
  · exact hzero k hk hk2
  · exact h.above k (by omega)



theorem zeroFrom_of_val_lt {W : Nat} {ws : List Nat} (k : Nat) (hv : valW W ws < 2 ^ (W * k)) : ZeroFrom ws k := by
  intro i hi
  by_cases hl : i < ws.length
  · rw [getD_eq_getElem hl]
    by_contra hne
    have h1 := le_valW_of_getElem W ws i hl
    have h2 : 2 ^ (W * k) ≤ 2 ^ (W * i) := Nat.pow_le_pow_right (by decide) (Nat.mul_le_mul_left _ hi)
    have h3 : 1 * 2 ^ (W * i) ≤ ws[i] * 2 ^ (W * i) := Nat.mul_le_mul_right _ (by omega)
    omega
  · simp [List.getD_eq_getElem?_getD, List.getElem?_eq_none (by omega : ws.length ≤ i)]

/-- The borrow loop of `Subtract`. -/
theorem subLoop_spec {W : Nat} : ∀ (fuel : Nat) (ws : List Nat) (number index : Nat),
    Bounded W ws → 0 < number → number < 2 ^ W → index ≤ ws.length → 0 < ws.length →
    ws.length - index < fuel →
    ∃ ws' j, subLoop W fuel ws number index = .ok (ws', j) ∧ ws'.length = ws.length ∧ Bounded W ws' ∧
      index ≤ j ∧ (∀ i, j < i → ws'.getD i 0 = ws.getD i 0) ∧
      ((j < ws.length ∧ valW W ws' + number * 2 ^ (W * index) = valW W ws) ∨
       (j = ws.length ∧ valW W ws + 2 ^ (W * ws.length) ≤ valW W ws' + number * 2 ^ (W * index)))
  | 0, _, _, _, _, _, _, _, _, hf => by omega
  | fuel + 1, ws, number, index, hb, hn0, hn, hi, hlen, hf => by
    unfold subLoop
    by_cases hlt : index < ws.length
    · have hB : 0 < 2 ^ W := Nat.pow_pos (by decide)
      rw [if_pos ((maxIndex_lt hlen index).2 hlt), rd_ok hlt]
      simp only [bind, Except.bind]
      have hnw : (ws[index] + 2 ^ W - number) % 2 ^ W < 2 ^ W := Nat.mod_lt _ hB
      rw [wr_ok _ hlt]
      simp only []
      have htmp : ws[index] < 2 ^ W := hb.getElem hlt
      have hset := valW_set W ws index ((ws[index] + 2 ^ W - number) % 2 ^ W) hlt
      by_cases hge : number ≤ ws[index]
      · have hmod : (ws[index] + 2 ^ W - number) % 2 ^ W = ws[index] - number := by
          have : ws[index] + 2 ^ W - number = (ws[index] - number) + 2 ^ W := by omega
          rw [this, Nat.add_mod_right, Nat.mod_eq_of_lt (by omega)]
        have hlt2 : (ws[index] + 2 ^ W - number) % 2 ^ W < ws[index] := by rw [hmod]; omega
        rw [if_pos hlt2]
        refine ⟨_, _, rfl, by simp, hb.set _ hnw, Nat.le_refl _, ?_, Or.inl ⟨hlt, ?_⟩⟩
        · intro i hi'; exact getD_set_ne (by omega)
        · rw [hmod] at hset ⊢
          have e : (ws[index] - number) * 2 ^ (W * index) + number * 2 ^ (W * index) = ws[index] * 2 ^ (W * index) := by
            rw [← Nat.add_mul]; congr 1; omega
          omega
      · have hmod : (ws[index] + 2 ^ W - number) % 2 ^ W = ws[index] + 2 ^ W - number :=
          Nat.mod_eq_of_lt (by omega)
        have hnlt : ¬ (ws[index] + 2 ^ W - number) % 2 ^ W < ws[index] := by rw [hmod]; omega
        rw [if_neg hnlt]
        have hb1 : Bounded W (ws.set index ((ws[index] + 2 ^ W - number) % 2 ^ W)) := hb.set _ hnw
        obtain ⟨ws', j, hrun, hl', hb', hij, hfr, hcase⟩ :=
          subLoop_spec fuel (ws.set index ((ws[index] + 2 ^ W - number) % 2 ^ W)) 1 (index + 1) hb1 (by decide)
            (Nat.one_lt_two_pow (by
              intro h0; subst h0; simp at htmp hn; omega)) (by simp; omega) (by simpa using hlen)
            (by simp; omega)
        have key : valW W (ws.set index ((ws[index] + 2 ^ W - number) % 2 ^ W)) + number * 2 ^ (W * index)
            = valW W ws + 1 * 2 ^ (W * (index + 1)) := by
          rw [hmod] at hset ⊢
          have e : (ws[index] + 2 ^ W - number) * 2 ^ (W * index) + number * 2 ^ (W * index)
              = ws[index] * 2 ^ (W * index) + 2 ^ W * 2 ^ (W * index) := by
            rw [← Nat.add_mul, ← Nat.add_mul]; congr 1; omega
          rw [pow_mul_succ]
          omega
        refine ⟨ws', j, hrun, by simpa using hl', hb', by omega, ?_, ?_⟩
        · intro i hi'; rw [hfr i hi']; exact getD_set_ne (by omega)
        · simp only [List.length_set] at hcase
          rcases hcase with ⟨h1, h2⟩ | ⟨h1, h2⟩
          · exact Or.inl ⟨h1, by omega⟩
          · exact Or.inr ⟨h1, by omega⟩
    · have he : index = ws.length := by omega
      rw [if_neg (by rw [maxIndex_lt hlen]; exact hlt)]
      refine ⟨ws, index, rfl, rfl, hb, Nat.le_refl _, fun _ _ => rfl, Or.inr ⟨he, ?_⟩⟩
      subst he
      have : 1 * 2 ^ (W * ws.length) ≤ number * 2 ^ (W * ws.length) := Nat.mul_le_mul_right _ hn0
      omega

/-- `Subtract(number, index)` when the subtrahend does not exceed the value. -/
theorem sub_spec {W : Nat} (s : Big) (number index : Nat) (h : Inv W s) (hn : number < 2 ^ W)
    (hi : index ≤ s.words.length) (hfit : number * 2 ^ (W * index) ≤ s.val W) :
    ∃ s', sub W s number index = .ok s' ∧ Inv W s' ∧ s'.words.length = s.words.length ∧
      s'.val W + number * 2 ^ (W * index) = s.val W := by
  unfold sub
  by_cases h0 : number = 0
  · subst h0
    exact ⟨s, rfl, h, rfl, by simp⟩
  · have hlen : 0 < s.words.length := Nat.lt_of_le_of_lt (Nat.zero_le _) h.idx_lt
    obtain ⟨ws', j, hrun, hl', hb', hij, hfr, hcase⟩ :=
      subLoop_spec (W := W) (s.words.length + 1) s.words number index h.bound (by omega) hn hi hlen (by omega)
    have hne : (number != 0) = true := by simp [h0]
    rw [if_pos hne, hrun]
    simp only [bind, Except.bind]
    unfold Big.val at hfit
    rcases hcase with ⟨h1, h2⟩ | ⟨h1, h2⟩
    · have hnot : ¬ j > maxIndex ws' := by unfold maxIndex; omega
      rw [if_neg hnot]
      have hvlt : valW W ws' < 2 ^ (W * (s.idx + 1)) := by
        have := h.toWInv.val_lt; unfold Big.val at this; omega
      have hw : WInv W ⟨ws', s.idx⟩ :=
        ⟨h.wpos, hb', by simpa [hl'] using h.idx_lt, zeroFrom_of_val_lt _ hvlt⟩
      by_cases hj : j ≥ s.idx
      · rw [if_pos hj]
        obtain ⟨t, htrim, hinv, _⟩ := trim_inv _ hw
        simp only at htrim
        rw [htrim]
        exact ⟨_, rfl, hinv, hl', h2⟩
      · rw [if_neg hj]
        refine ⟨_, rfl, ⟨hw, ?_⟩, hl', h2⟩
        intro hne0
        simp only at hne0 ⊢
        rw [hfr s.idx (by omega)]; exact h.top hne0
    · exfalso
      have := valW_lt hb'
      rw [hl'] at this
      omega

end Qentem.BigInt
