import Qentem.Proofs.HashTableRemove
/-!
The allocation family: Clear, Reset, Reserve, Resize, Expect, Compress, copy, move.
-/
namespace Qentem.HashTable
variable {V : Type}

theorem inv_fresh (H : List Nat → Nat) {c : Nat} (hc : c = 0 ∨ ∃ k, c = 2 ^ k) :
    Inv H (⟨c, Array.replicate c 0, #[]⟩ : HT V) := by
  refine ⟨hc, by simp, by simp, by simp, by simp, by simp, ⟨fun _ => [], ?_, by simp, by simp, by simp⟩⟩
  intro b hb
  simp only [Chain, getLink, Array.getElem?_replicate]
  simp only at hb
  simp [hb]

/-- The default-constructed table satisfies the invariant. -/
theorem inv_empty (H : List Nat → Nat) : Inv H (HT.empty : HT V) := inv_fresh H (Or.inl rfl)

theorem abs_empty : abs (HT.empty : HT V) = Spec.empty := rfl

theorem items_empty_of_cap_zero {H : List Nat → Nat} {s : HT V} (hI : Inv H s) (h : s.cap = 0) : s.items = #[] := by
  have := hI.size_le
  exact Array.eq_empty_of_size_eq_zero (by omega)

theorem abs_of_cap_zero {H : List Nat → Nat} {s : HT V} (hI : Inv H s) (h : s.cap = 0) : abs s = Spec.empty := by
  simp [abs, absSlots, items_empty_of_cap_zero hI h, h, Spec.empty]

/-- `Reset()`. -/
theorem reset_spec {H : List Nat → Nat} {s : HT V} (hI : Inv H s) : Inv H (reset s) ∧ abs (reset s) = Spec.empty := by
  unfold reset
  by_cases h : s.cap = 0
  · simp only [h, ne_eq, not_true_eq_false, if_false]
    exact ⟨hI, abs_of_cap_zero hI h⟩
  · simp only [h, ne_eq, not_false_eq_true, if_true]
    exact ⟨inv_empty H, rfl⟩

/-- `Clear()`. -/
theorem clear_spec {H : List Nat → Nat} {s : HT V} (hI : Inv H s) :
    Inv H (clear s) ∧ abs (clear s) = Spec.clear (abs s) := by
  unfold clear
  by_cases h : s.size = 0
  · simp only [h, ne_eq, not_true_eq_false, if_false]
    refine ⟨hI, ?_⟩
    have : s.items = #[] := Array.eq_empty_of_size_eq_zero h
    simp [abs, absSlots, Spec.clear, this]
  · simp only [h, ne_eq, not_false_eq_true, if_true]
    exact ⟨inv_fresh H hI.cap_pow, by simp [abs, absSlots, Spec.clear]⟩

/-- `Reserve(n)`. -/
theorem reserve_spec {H : List Nat → Nat} {s : HT V} (hI : Inv H s) (n : Nat) :
    Inv H (reserve s n) ∧ abs (reserve s n) = Spec.reserve (abs s) n := by
  have hr := reset_spec hI
  have hitems : (reset s).items = #[] := by
    unfold reset
    by_cases h : s.cap = 0
    · simp only [h, ne_eq, not_true_eq_false, if_false]; exact items_empty_of_cap_zero hI h
    · simp only [h, ne_eq, not_false_eq_true, if_true]; rfl
  unfold reserve
  by_cases hn : n = 0
  · simp only [hn, ne_eq, not_true_eq_false, if_false]
    exact ⟨hr.1, by rw [hr.2]; simp [Spec.reserve]⟩
  · simp only [hn, ne_eq, not_false_eq_true, if_true, allocate, hitems]
    exact ⟨inv_fresh H (Or.inr (allocCap_pow n)), by simp [abs, absSlots, Spec.reserve, hn]⟩

theorem StatOK.sublist {H : List Nat → Nat} {l l' : List (List Nat × Nat × V)} (h : StatOK H l)
    (hs : l'.Sublist l) : StatOK H l' :=
  ⟨fun x hx => h.1 x (hs.subset hx), h.2.1.sublist hs, fun x hx => h.2.2 x (hs.subset hx)⟩

/-- `resize(n)` only looks at the items (the links are rebuilt): enough that their keys/hashes are fine. -/
theorem resize_spec' {H : List Nat → Nat} {s : HT V} (hst : StatOK H (stats s)) (n : Nat)
    (hfit : (s.items.filter live).size ≤ allocCap n) :
    ∃ s', resize s n = some s' ∧ Inv H s' ∧ abs s' = ⟨allocCap n, Spec.compact (absSlots s)⟩ := by
  obtain ⟨s', hrun, hcap, hheads, hsize, hst1, hch⟩ := rebuild_spec n (s.items.filter live) hfit
  have hst' : stats s' = (stats s).filter (fun x => x.2.1 != 0) := by rw [hst1, stats_filter_live]; rfl
  refine ⟨s', hrun, ?_, ?_⟩
  · refine inv_of_stat (Or.inr (by rw [hcap]; exact allocCap_pow n)) hheads (by rw [hsize, hcap]; exact hfit) ?_ hch
    rw [hst']; exact hst.filter _
  · simp only [abs, hcap, absSlots_eq, hst', compact_map_slotOf]

/-- `Resize(n)`: slots from `n` on are dropped, the rest is compacted into a new block. -/
theorem resizeTo_spec {H : List Nat → Nat} {s : HT V} (hI : Inv H s) (n : Nat) :
    ∃ s', resizeTo s n = some s' ∧ Inv H s' ∧ abs s' = Spec.resizeTo (abs s) n := by
  unfold resizeTo
  by_cases hn : n = 0
  · simp only [hn, if_true]
    exact ⟨_, rfl, (reset_spec hI).1, by rw [(reset_spec hI).2]; simp [Spec.resizeTo]⟩
  · simp only [hn, if_false]
    set s2 : HT V := if s.size > n then { s with items := s.items.extract 0 n } else s with hs2
    have hstats : stats s2 = (stats s).take n := by
      by_cases hgt : s.size > n
      · simp only [hs2, hgt, if_true, stats, Array.toList_extract]
        rw [List.extract_eq_take_drop]
        simp
      · simp only [hs2, hgt, if_false]
        rw [List.take_of_length_le]
        simp only [stats, List.length_map, Array.length_toList]
        simp only [HT.size] at hgt; omega
    have hst2 : StatOK H (stats s2) := by rw [hstats]; exact hI.statOK.sublist (List.take_sublist _ _)
    have hlen : s2.items.size ≤ n := by
      have : (stats s2).length ≤ n := by rw [hstats]; simp; omega
      simpa [stats] using this
    have hfit : (s2.items.filter live).size ≤ allocCap n := by
      have := filter_live_size_le s2
      have := allocCap_ge n
      omega
    obtain ⟨s', hrun, hI', habs⟩ := resize_spec' hst2 n hfit
    refine ⟨s', hrun, hI', ?_⟩
    rw [habs]
    simp only [Spec.resizeTo, hn, if_false, abs, absSlots_eq, hstats, List.map_take]

/-- `Expect(count)`. -/
theorem expect_spec {H : List Nat → Nat} {s : HT V} (hI : Inv H s) (count : Nat) :
    ∃ s', expect s count = some s' ∧ Inv H s' ∧ abs s' = Spec.expect (abs s) count := by
  unfold expect
  by_cases h : count + s.size > s.cap
  · simp only [h, if_true]
    have hfit : (s.items.filter live).size ≤ allocCap (count + s.size) := by
      have := filter_live_size_le s
      have := allocCap_ge (count + s.size)
      simp only [HT.size] at *; omega
    obtain ⟨s', hrun, hI', habs⟩ := resize_spec hI _ hfit
    refine ⟨s', hrun, hI', ?_⟩
    rw [habs]
    show _ = Spec.expect (abs s) count
    unfold Spec.expect
    rw [show (abs s).slots.length = s.items.size from absSlots_length s, if_pos (show count + s.items.size > (abs s).cap from h)]
    rfl
  · simp only [h, if_false]
    refine ⟨s, rfl, hI, ?_⟩
    have : ¬ count + (absSlots s).length > s.cap := by rw [absSlots_length]; exact h
    simp [Spec.expect, abs, this]

theorem liveCount_abs (s : HT V) : Spec.liveCount (abs s) = (s.items.filter live).size := by
  simp only [Spec.liveCount, abs, absSlots_eq, compact_map_slotOf, List.length_map]
  have := congrArg List.length (stats_filter_live s.items)
  simp only [List.length_map, Array.length_toList] at this
  rw [this]; rfl

/-- `Compress()`. -/
theorem compress_spec {H : List Nat → Nat} {s : HT V} (hI : Inv H s) :
    ∃ s', compress s = some s' ∧ Inv H s' ∧ abs s' = Spec.compress (abs s) := by
  unfold compress actualSize
  rw [Array.countP_eq_size_filter]
  have hlc := liveCount_abs s
  by_cases h0 : (s.items.filter live).size = 0
  · simp only [h0, ne_eq, not_true_eq_false, if_false]
    refine ⟨_, rfl, (reset_spec hI).1, ?_⟩
    rw [(reset_spec hI).2]
    simp [Spec.compress, hlc, h0]
  · simp only [h0, ne_eq, not_false_eq_true, if_true]
    by_cases hlt : (s.items.filter live).size < s.size
    · simp only [hlt, if_true]
      obtain ⟨s', hrun, hI', habs⟩ := resize_spec hI _ (allocCap_ge _)
      refine ⟨s', hrun, hI', ?_⟩
      rw [habs]
      show _ = Spec.compress (abs s)
      unfold Spec.compress
      rw [hlc, if_pos h0, show (abs s).slots.length = s.items.size from absSlots_length s,
        if_pos (show (s.items.filter live).size < s.items.size from hlt)]
      rfl
    · simp only [hlt, if_false]
      refine ⟨s, rfl, hI, ?_⟩
      show _ = Spec.compress (abs s)
      unfold Spec.compress
      rw [hlc, if_pos h0, show (abs s).slots.length = s.items.size from absSlots_length s,
        if_neg (show ¬ (s.items.filter live).size < s.items.size from hlt)]

/-- Copy construction / copy assignment (`copyTable`). -/
theorem copy_spec {H : List Nat → Nat} {s : HT V} (hI : Inv H s) :
    ∃ s', copy s = some s' ∧ Inv H s' ∧ abs s' = Spec.copy (abs s) := by
  unfold copy
  by_cases h0 : s.size = 0
  · simp only [h0, ne_eq, not_true_eq_false, if_false]
    refine ⟨_, rfl, inv_empty H, ?_⟩
    show abs HT.empty = Spec.copy (abs s)
    unfold Spec.copy
    rw [show (abs s).slots.length = s.items.size from absSlots_length s,
      if_neg (by simp only [HT.size] at h0; omega)]
    rfl
  · simp only [h0, ne_eq, not_false_eq_true, if_true]
    have hfit : (s.items.filter live).size ≤ allocCap s.size := by
      have := filter_live_size_le s
      have := allocCap_ge s.size
      simp only [HT.size] at *; omega
    obtain ⟨s', hrun, hI', habs⟩ := resize_spec hI _ hfit
    refine ⟨s', hrun, hI', ?_⟩
    rw [habs]
    show _ = Spec.copy (abs s)
    unfold Spec.copy
    rw [show (abs s).slots.length = s.items.size from absSlots_length s, if_pos (show s.items.size ≠ 0 from h0)]
    rfl

/-- Move construction / move assignment: the destination is the old source, the source is empty. -/
theorem move_spec {H : List Nat → Nat} {s : HT V} (hI : Inv H s) :
    Inv H (moveFrom s).1 ∧ abs (moveFrom s).1 = abs s ∧ Inv H (moveFrom s).2 ∧ abs (moveFrom s).2 = Spec.empty :=
  ⟨hI, rfl, inv_empty H, rfl⟩

end Qentem.HashTable
