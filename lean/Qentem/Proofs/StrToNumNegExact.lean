import Qentem.Proofs.StrToNumNegUlp
import Qentem.Proofs.StrToNumC11
/-! C09/C11 helper lemmas: the negative-exponent path is *correctly rounded* when the exact value
keeps 1/32 ulp away from the half-way points and the big integer has at least 65 bits. -/
namespace Qentem.Round
open Qentem.StrToNum

/-- `A/B` has a fractional part `≤ 1/2 − 1/32` or `≥ 1/2 + 1/32` -/
def MarginPair (A B : Nat) : Prop := 32 * (A % B) + B ≤ 16 * B ∨ 17 * B ≤ 32 * (A % B)

theorem MarginPair_scale (A B c : Nat) (hc : 0 < c) : MarginPair (A * c) (B * c) ↔ MarginPair A B := by
  unfold MarginPair
  rw [Nat.mul_mod_mul_right]
  constructor
  · rintro (h | h)
    · left
      have : (32 * (A % B) + B) * c ≤ (16 * B) * c := by
        calc (32 * (A % B) + B) * c = 32 * (A % B * c) + B * c := by ring
          _ ≤ 16 * (B * c) := h
          _ = 16 * B * c := by ring
      exact Nat.le_of_mul_le_mul_right this hc
    · right
      have : (17 * B) * c ≤ (32 * (A % B)) * c := by
        calc 17 * B * c = 17 * (B * c) := by ring
          _ ≤ 32 * (A % B * c) := h
          _ = 32 * (A % B) * c := by ring
      exact Nat.le_of_mul_le_mul_right this hc
  · rintro (h | h)
    · left
      calc 32 * (A % B * c) + B * c = (32 * (A % B) + B) * c := by ring
        _ ≤ 16 * B * c := Nat.mul_le_mul_right _ h
        _ = 16 * (B * c) := by ring
    · right
      calc 17 * (B * c) = 17 * B * c := by ring
        _ ≤ 32 * (A % B) * c := Nat.mul_le_mul_right _ h
        _ = 32 * (A % B * c) := by ring

/-- same unit `4g`, the code within (strictly) 1/32 of a unit of the exact `N/D`, the exact value
1/32 away from the half-way points: the code's half-up equals round-half-even -/
theorem rat_same_unit_exact (b N D g : Nat) (hD : 0 < D) (hg : 0 < g)
    (h1 : 8 * (b * D) < 8 * N + g * D) (h2 : 8 * N < 8 * (b * D) + g * D)
    (hm : MarginPair N (D * (4 * g))) :
    halfUp b (2 * g) = rne N (D * (4 * g)) := by
  obtain ⟨m1, m2⟩ := halfUp_bounds b g hg
  have hX : 0 < g * D := Nat.mul_pos hg hD
  have hden : D * (4 * g) = 4 * (g * D) := by ring
  have M1 : 4 * (g * D * halfUp b (2 * g)) ≤ b * D + 2 * (g * D) := by
    have := Nat.mul_le_mul_right D m1
    calc 4 * (g * D * halfUp b (2 * g)) = 4 * g * halfUp b (2 * g) * D := by ring
      _ ≤ (b + 2 * g) * D := this
      _ = b * D + 2 * (g * D) := by ring
  have M2 : b * D < 4 * (g * D * halfUp b (2 * g)) + 2 * (g * D) := by
    have := Nat.mul_lt_mul_of_pos_right m2 hD
    calc b * D < (4 * g * halfUp b (2 * g) + 2 * g) * D := this
      _ = 4 * (g * D * halfUp b (2 * g)) + 2 * (g * D) := by ring
  generalize halfUp b (2 * g) = m at *
  obtain ⟨q, r, hN, hr⟩ : ∃ q r, N = D * (4 * g) * q + r ∧ r < D * (4 * g) :=
    ⟨N / (D * (4 * g)), N % (D * (4 * g)), (Nat.div_add_mod N _).symm, Nat.mod_lt _ (by rw [hden]; omega)⟩
  have hmod : N % (D * (4 * g)) = r := by rw [hN, Nat.mul_add_mod, Nat.mod_eq_of_lt hr]
  unfold MarginPair at hm
  rw [hmod, hden] at hm
  have hNq : N = 4 * (g * D * q) + r := by rw [hN]; ring
  rw [hN, rne_decomp q r (D * (4 * g)) hr, hden]
  rw [hden] at hr
  rcases hm with hm | hm
  · have hlt : 2 * r < 4 * (g * D) := by omega
    simp only [hlt, if_true]
    -- m = q
    rcases Nat.lt_trichotomy m q with h | h | h
    · exfalso
      have : g * D * (m + 1) ≤ g * D * q := Nat.mul_le_mul_left _ h
      have e : g * D * (m + 1) = g * D * m + g * D := by ring
      omega
    · exact h
    · exfalso
      have : g * D * (q + 1) ≤ g * D * m := Nat.mul_le_mul_left _ h
      have e : g * D * (q + 1) = g * D * q + g * D := by ring
      omega
  · have hn1 : ¬ (2 * r < 4 * (g * D)) := by omega
    have hgt : 2 * r > 4 * (g * D) := by omega
    simp only [hn1, if_false, hgt, if_true]
    rcases Nat.lt_trichotomy m (q + 1) with h | h | h
    · exfalso
      have : g * D * (m + 1) ≤ g * D * (q + 1) := Nat.mul_le_mul_left _ h
      have e : g * D * (m + 1) = g * D * m + g * D := by ring
      have e2 : g * D * (q + 1) = g * D * q + g * D := by ring
      omega
    · exact h
    · exfalso
      have : g * D * (q + 2) ≤ g * D * m := Nat.mul_le_mul_left _ h
      have e : g * D * (q + 2) = g * D * q + 2 * (g * D) := by ring
      omega

/-- **Patterns are equal** under the 1/32 margin when the code is within 1/32 of a unit. -/
theorem raw_exact_rat (b sh N D L : Nat) (hD : 0 < D) (hb54 : 2 ^ 54 ≤ b)
    (h1' : 8 * (b * D) < 8 * N + 2 ^ (Nat.log2 b - 54) * D) (h2' : 8 * N < 8 * (b * D) + 2 ^ (Nat.log2 b - 54) * D)
    (hL1 : D * 2 ^ L ≤ N) (hL2 : N < D * 2 ^ (L + 1))
    (hm : MarginPair N (D * 2 ^ (max L (sh - 1022) - 52))) :
    ratRaw N D sh L = codeRawNeg b sh := by
  have h1 : b * D ≤ N + 2 ^ (Nat.log2 b - 54) * D := by omega
  have h2 : N ≤ b * D + 2 ^ (Nat.log2 b - 54) * D := by omega
  have hb0 : b ≠ 0 := by intro h; subst h; exact absurd hb54 (by decide)
  obtain ⟨hlo, hhi⟩ := log2_bounds b hb0
  have hbit54 : 54 ≤ Nat.log2 b := (Nat.le_log2 hb0).2 hb54
  unfold ratRaw codeRawNeg
  generalize hbit : Nat.log2 b = bit at *
  obtain ⟨j, hj⟩ : ∃ j, bit = 54 + j := ⟨bit - 54, by omega⟩
  subst hj
  rw [show 54 + j - 54 = j by omega] at h1 h2 h1' h2'
  have hg : 0 < 2 ^ j := Nat.pow_pos (by decide)
  have hblo : 2 ^ 54 * 2 ^ j ≤ b := by rw [← Nat.pow_add]; exact hlo
  have hbhi : b < 2 ^ 55 * 2 ^ j := by rw [← Nat.pow_add, show 55 + j = 54 + j + 1 by omega]; exact hhi
  have hpw : ∀ a, 2 ^ (a + j) = 2 ^ a * 2 ^ j := fun a => Nat.pow_add 2 a j
  -- L is bit-1, bit or bit+1
  have hLlo : 53 + j ≤ L := by
    by_contra hcon
    have hLlt : L + 1 ≤ 53 + j := by omega
    have : N < D * 2 ^ (53 + j) := Nat.lt_of_lt_of_le hL2 (Nat.mul_le_mul_left _ (Nat.pow_le_pow_right (by decide) hLlt))
    rw [hpw 53] at this
    -- but N ≥ b*D − g*D ≥ (2^54 − 1)·g·D
    have hbD : 2 ^ 54 * (2 ^ j * D) ≤ b * D := by
      calc 2 ^ 54 * (2 ^ j * D) = 2 ^ 54 * 2 ^ j * D := by ring
        _ ≤ b * D := Nat.mul_le_mul_right _ hblo
    have e : D * (2 ^ 53 * 2 ^ j) = 2 ^ 53 * (2 ^ j * D) := by ring
    have hX : 0 < 2 ^ j * D := Nat.mul_pos hg hD
    rw [e] at this
    omega
  have hLhi : L ≤ 55 + j := by
    by_contra hcon
    have hLgt : 56 + j ≤ L := by omega
    have : D * 2 ^ (56 + j) ≤ N := Nat.le_trans (Nat.mul_le_mul_left _ (Nat.pow_le_pow_right (by decide) hLgt)) hL1
    rw [hpw 56] at this
    have hbD : b * D < 2 ^ 55 * (2 ^ j * D) := by
      calc b * D < 2 ^ 55 * 2 ^ j * D := Nat.mul_lt_mul_of_pos_right hbhi hD
        _ = 2 ^ 55 * (2 ^ j * D) := by ring
    have e : D * (2 ^ 56 * 2 ^ j) = 2 ^ 56 * (2 ^ j * D) := by ring
    have hX : 0 < 2 ^ j * D := Nat.mul_pos hg hD
    rw [e] at this
    omega
  by_cases hsame : max L (sh - 1022) = max (54 + j) (sh - 1022)
  · -- same effective binade: one unit, quarter g' ≥ g
    rw [hsame] at hm ⊢
    generalize hB0 : max (54 + j) (sh - 1022) = B0 at hm ⊢
    have hB0ge : 54 + j ≤ B0 := by omega
    obtain ⟨i, hi⟩ : ∃ i, B0 = 54 + j + i := ⟨B0 - (54 + j), by omega⟩
    have hgi : 0 < 2 ^ (j + i) := Nat.pow_pos (by decide)
    have hgle : 2 ^ j * D ≤ 2 ^ (j + i) * D :=
      Nat.mul_le_mul_right _ (Nat.pow_le_pow_right (by decide) (by omega))
    have e1 : 2 ^ (B0 - 53) = 2 * 2 ^ (j + i) := by
      rw [hi, show 54 + j + i - 53 = 1 + (j + i) by omega, Nat.pow_add]
    have e2 : 2 ^ (B0 - 52) = 4 * 2 ^ (j + i) := by
      rw [hi, show 54 + j + i - 52 = 2 + (j + i) by omega, Nat.pow_add]
    rw [e2] at hm
    rw [e1, e2, rat_same_unit_exact b N D (2 ^ (j + i)) hD hgi (by omega) (by omega) hm]
  · -- the exact value is in a neighbouring binade and `b` is in the normal range
    have hnorm : sh - 1022 ≤ 54 + j := by
      by_contra hc
      apply hsame
      omega
    have hBe : max (54 + j) (sh - 1022) = 54 + j := by omega
    rw [hBe]
    rcases Nat.lt_or_ge L (54 + j) with hl | hl
    · -- L = bit − 1, and still normal
      have hLe : L = 53 + j := by omega
      subst hLe
      have hsub : sh - 1022 ≤ 53 + j := by
        by_contra hc
        apply hsame; omega
      have hLm : max (53 + j) (sh - 1022) = 53 + j := by omega
      rw [hLm]
      obtain ⟨c1, c2⟩ := rat_cross_down b N D (2 ^ j) hD hg hblo h1 (by rw [← hpw 54, show 54 + j = 53 + j + 1 by omega]; exact hL2)
      have e1 : 2 ^ (54 + j - 53) = 2 * 2 ^ j := by rw [show 54 + j - 53 = 1 + j by omega, Nat.pow_add]
      have e2 : 2 ^ (53 + j - 52) = 2 * 2 ^ j := by rw [show 53 + j - 52 = 1 + j by omega, Nat.pow_add]
      rw [e1, e2, c1, c2]
      have : (54 + j + 1022 - sh) * 2 ^ 52 = (53 + j + 1022 - sh) * 2 ^ 52 + 2 ^ 52 := by
        rw [show 54 + j + 1022 - sh = (53 + j + 1022 - sh) + 1 by omega]; ring
      rw [this]; ring
    · have hLe : L = 55 + j := by
        rcases Nat.lt_or_ge (54 + j) L with h | h
        · omega
        · exfalso; apply hsame
          have : L = 54 + j := by omega
          rw [this]
      subst hLe
      have hLm : max (55 + j) (sh - 1022) = 55 + j := by omega
      rw [hLm]
      obtain ⟨c1, c2⟩ := rat_cross_up b N D (2 ^ j) hD hg hbhi h2 (by rw [← hpw 55]; exact hL1)
      have e1 : 2 ^ (54 + j - 53) = 2 * 2 ^ j := by rw [show 54 + j - 53 = 1 + j by omega, Nat.pow_add]
      have e2 : 2 ^ (55 + j - 52) = 8 * 2 ^ j := by rw [show 55 + j - 52 = 3 + j by omega, Nat.pow_add]
      rw [e1, e2, c1, c2]
      have : (55 + j + 1022 - sh) * 2 ^ 52 = (54 + j + 1022 - sh) * 2 ^ 52 + 2 ^ 52 := by
        rw [show 55 + j + 1022 - sh = (54 + j + 1022 - sh) + 1 by omega]; ring
      rw [this]; ring


/-- from the pipeline error bound to "within 1/32 of a unit" (`G/8` with `G` a quarter unit) once the big
integer has at least 65 bits -/
theorem eighth_of_error (b N D k G : Nat) (hD : 0 < D) (hk : k ≤ 13) (hG : 1024 * k + 1 ≤ (128 - 8 * k) * G)
    (hb : b < 2 ^ 55 * G)
    (e1 : b * D * 2 ^ 62 ≤ N * (2 ^ 62 + k)) (e2 : N * 2 ^ 62 ≤ (b + k) * D * (2 ^ 62 + k)) :
    8 * (b * D) < 8 * N + G * D ∧ 8 * N < 8 * (b * D) + G * D := by
  have hG0 : 0 < G := by
    rcases Nat.eq_zero_or_pos G with h | h
    · subst h; simp at hG
    · exact h
  have hkk : k * k ≤ 13 * k := Nat.mul_le_mul_right _ hk
  have hbk : b * k ≤ 2 ^ 55 * G * k := Nat.mul_le_mul_right _ (Nat.le_of_lt hb)
  -- (2): 8(b+k)(2^62+k) < (8b+G)·2^62
  have A : 8 * ((b + k) * (2 ^ 62 + k)) < (8 * b + G) * 2 ^ 62 := by
    have e : 8 * ((b + k) * (2 ^ 62 + k)) = 8 * b * 2 ^ 62 + (8 * (b * k) + 8 * (k * 2 ^ 62) + 8 * (k * k)) := by ring
    have e' : (8 * b + G) * 2 ^ 62 = 8 * b * 2 ^ 62 + G * 2 ^ 62 := by ring
    rw [e, e']
    apply Nat.add_lt_add_left
    -- 8bk + 8k·2^62 + 8k² < G·2^62, from (128 − 8k)·G ≥ 1024k + 1
    have h8k : 8 * k ≤ 104 := by omega
    obtain ⟨w, hw⟩ : ∃ w, 128 = 8 * k + w := ⟨128 - 8 * k, by omega⟩
    have hwG : 1024 * k + 1 ≤ w * G := by rw [show 128 - 8 * k = w by omega] at hG; exact hG
    have s1 : 8 * (b * k) ≤ 8 * k * (2 ^ 55 * G) := by
      calc 8 * (b * k) ≤ 8 * (2 ^ 55 * G * k) := Nat.mul_le_mul_left _ hbk
        _ = 8 * k * (2 ^ 55 * G) := by ring
    have s2 : 8 * (k * 2 ^ 62) + 8 * (k * k) < (1024 * k + 1) * 2 ^ 55 := by
      have : 8 * (k * k) ≤ 104 * k := by omega
      have e2 : 8 * (k * 2 ^ 62) = 1024 * k * 2 ^ 55 := by rw [show (2 : Nat) ^ 62 = 128 * 2 ^ 55 by decide]; ring
      have e3 : (1024 * k + 1) * 2 ^ 55 = 1024 * k * 2 ^ 55 + 2 ^ 55 := by ring
      have : 104 * k < 2 ^ 55 := by
        have : 104 * k ≤ 104 * 13 := Nat.mul_le_mul_left _ hk
        have : (104 : Nat) * 13 < 2 ^ 55 := by decide
        omega
      omega
    have s3 : (1024 * k + 1) * 2 ^ 55 ≤ w * G * 2 ^ 55 := Nat.mul_le_mul_right _ hwG
    have e4 : G * 2 ^ 62 = 8 * k * (2 ^ 55 * G) + w * G * 2 ^ 55 := by
      rw [show (2 : Nat) ^ 62 = 128 * 2 ^ 55 by decide, hw]; ring
    rw [e4]
    omega
  have P2 : 8 * N < 8 * (b * D) + G * D := by
    have : 8 * N * 2 ^ 62 < (8 * (b * D) + G * D) * 2 ^ 62 := by
      calc 8 * N * 2 ^ 62 = 8 * (N * 2 ^ 62) := by ring
        _ ≤ 8 * ((b + k) * D * (2 ^ 62 + k)) := Nat.mul_le_mul_left _ e2
        _ = 8 * ((b + k) * (2 ^ 62 + k)) * D := by ring
        _ < (8 * b + G) * 2 ^ 62 * D := Nat.mul_lt_mul_of_pos_right A hD
        _ = (8 * (b * D) + G * D) * 2 ^ 62 := by ring
    exact Nat.lt_of_mul_lt_mul_right this
  refine ⟨?_, P2⟩
  -- (1): 8·b·D·2^62 ≤ 8N·2^62 + 8N·k and 8N·k < G·D·2^62
  have hN : N ≤ (b + G) * D := by
    have : 8 * N ≤ 8 * ((b + G) * D) := by
      have e : 8 * ((b + G) * D) = 8 * (b * D) + 8 * (G * D) := by ring
      rw [e]
      have : G * D ≤ 8 * (G * D) := Nat.le_mul_of_pos_left _ (by decide)
      omega
    exact Nat.le_of_mul_le_mul_left this (by decide)
  have B : 8 * (N * k) < G * D * 2 ^ 62 := by
    calc 8 * (N * k) ≤ 8 * ((b + G) * D * 13) :=
          Nat.mul_le_mul_left _ (Nat.mul_le_mul hN hk)
      _ = 104 * (b + G) * D := by ring
      _ ≤ 104 * (2 ^ 55 * G + G) * D :=
          Nat.mul_le_mul_right _ (Nat.mul_le_mul_left _ (by omega))
      _ = (104 * (2 ^ 55 + 1)) * (G * D) := by ring
      _ < 2 ^ 62 * (G * D) := Nat.mul_lt_mul_of_pos_right (by decide) (Nat.mul_pos hG0 hD)
      _ = G * D * 2 ^ 62 := by ring
  have : 8 * (b * D) * 2 ^ 62 < (8 * N + G * D) * 2 ^ 62 := by
    calc 8 * (b * D) * 2 ^ 62 = 8 * (b * D * 2 ^ 62) := by ring
      _ ≤ 8 * (N * (2 ^ 62 + k)) := Nat.mul_le_mul_left _ e1
      _ = 8 * N * 2 ^ 62 + 8 * (N * k) := by ring
      _ < 8 * N * 2 ^ 62 + G * D * 2 ^ 62 := Nat.add_lt_add_left B _
      _ = (8 * N + G * D) * 2 ^ 62 := by ring
  exact Nat.lt_of_mul_lt_mul_right this

/-- the pair rounded by the specification for `n/(D·2^x)` and the pair in big-integer units have the
same margin (they are the same fraction up to powers of two) -/
theorem margin_bunits (n D x sh L : Nat) (hn : 0 < n) (hD : 0 < D) (hx : x ≤ sh) (hL : 52 ≤ L)
    (h1 : D * 2 ^ L ≤ n * 2 ^ (sh - x)) (h2 : n * 2 ^ (sh - x) < D * 2 ^ (L + 1)) :
    MarginPair (roundPair n (D * 2 ^ x)).1 (roundPair n (D * 2 ^ x)).2 ↔
      MarginPair (n * 2 ^ (sh - x)) (D * 2 ^ (max L (sh - 1022) - 52)) := by
  have hP : ∀ k : Nat, 0 < 2 ^ k := fun k => Nat.pow_pos (by decide)
  have hd : 0 < D * 2 ^ x := Nat.mul_pos hD (hP x)
  have hsh : 2 ^ (sh - x) * 2 ^ x = 2 ^ sh := by rw [← Nat.pow_add]; congr 1; omega
  have hfl : floorLog2Frac n (D * 2 ^ x) = (L : Int) - (sh : Int) := by
    apply floorLog2Frac_shift n (D * 2 ^ x) L sh hn hd
    · calc D * 2 ^ x * 2 ^ L = D * 2 ^ L * 2 ^ x := by ring
        _ ≤ n * 2 ^ (sh - x) * 2 ^ x := Nat.mul_le_mul_right _ h1
        _ = n * 2 ^ sh := by rw [Nat.mul_assoc, hsh]
    · calc n * 2 ^ sh = n * 2 ^ (sh - x) * 2 ^ x := by rw [Nat.mul_assoc, hsh]
        _ < D * 2 ^ (L + 1) * 2 ^ x := Nat.mul_lt_mul_of_pos_right h2 (hP x)
        _ = D * 2 ^ x * 2 ^ (L + 1) := by ring
  generalize hLe : max L (sh - 1022) = Le
  have hLe1 : L ≤ Le := by omega
  have hLe2 : sh - 1022 ≤ Le := by omega
  have hLe3 : Le = L ∨ Le = sh - 1022 := by omega
  have hE : binadeExp n (D * 2 ^ x) = (Le : Int) - (sh : Int) := by
    unfold binadeExp; rw [hfl]; split <;> omega
  -- the common form
  have common : MarginPair (n * 2 ^ (sh - x)) (D * 2 ^ (Le - 52)) ↔ MarginPair (n * 2 ^ sh) (D * 2 ^ (Le - 52) * 2 ^ x) := by
    rw [← MarginPair_scale (n * 2 ^ (sh - x)) (D * 2 ^ (Le - 52)) (2 ^ x) (hP x), Nat.mul_assoc, hsh]
  rw [common]
  unfold roundPair
  rw [hE]
  rcases Nat.lt_or_ge (52 + sh) Le with hc | hc
  · have hq : (0 : Int) ≤ (Le : Int) - (sh : Int) - 52 := by omega
    have t2 : ((Le : Int) - (sh : Int) - 52).toNat = Le - 52 - sh := by omega
    rw [if_pos hq, t2]
    simp only
    rw [← MarginPair_scale n (D * 2 ^ x * 2 ^ (Le - 52 - sh)) (2 ^ sh) (hP sh)]
    have : 2 ^ (Le - 52 - sh) * 2 ^ sh = 2 ^ (Le - 52) := by rw [← Nat.pow_add]; congr 1; omega
    have e : D * 2 ^ x * 2 ^ (Le - 52 - sh) * 2 ^ sh = D * 2 ^ (Le - 52) * 2 ^ x := by
      calc D * 2 ^ x * 2 ^ (Le - 52 - sh) * 2 ^ sh = D * 2 ^ x * (2 ^ (Le - 52 - sh) * 2 ^ sh) := by ring
        _ = D * 2 ^ (Le - 52) * 2 ^ x := by rw [this]; ring
    rw [e]
  · have hq : ¬ ((0 : Int) ≤ (Le : Int) - (sh : Int) - 52) ∨ Le = 52 + sh := by omega
    rcases hq with hq | hq
    · have t1 : (-((Le : Int) - (sh : Int) - 52)).toNat = 52 + sh - Le := by omega
      rw [if_neg hq, t1]
      simp only
      rw [← MarginPair_scale (n * 2 ^ (52 + sh - Le)) (D * 2 ^ x) (2 ^ (Le - 52)) (hP _)]
      have : 2 ^ (52 + sh - Le) * 2 ^ (Le - 52) = 2 ^ sh := by rw [← Nat.pow_add]; congr 1; omega
      have e1 : n * 2 ^ (52 + sh - Le) * 2 ^ (Le - 52) = n * 2 ^ sh := by rw [Nat.mul_assoc, this]
      have e2 : D * 2 ^ x * 2 ^ (Le - 52) = D * 2 ^ (Le - 52) * 2 ^ x := by ring
      rw [e1, e2]
    · have hq0 : (0 : Int) ≤ (Le : Int) - (sh : Int) - 52 := by omega
      have t2 : ((Le : Int) - (sh : Int) - 52).toNat = 0 := by omega
      rw [if_pos hq0, t2, Nat.pow_zero, Nat.mul_one]
      simp only
      rw [← MarginPair_scale n (D * 2 ^ x) (2 ^ sh) (hP sh)]
      have e : D * 2 ^ x * 2 ^ sh = D * 2 ^ (Le - 52) * 2 ^ x := by
        rw [hq, show 52 + sh - 52 = sh by omega]; ring
      rw [e]

end Qentem.Round

namespace Qentem.StrToNum
open Qentem.Round Qentem.Generated.StrToNum

/-- the big integer is wide enough for `k` steps: at least 60 bits, and a quarter unit `G = 2^(bit−54)`
with `1024k + 1 ≤ (128 − 8k)·G` (the pipeline error `k` units + relative `k·2^-62` is below `G/8`) -/
def Wide (b k : Nat) : Prop := 2 ^ 59 ≤ b ∧ 1024 * k + 1 ≤ (128 - 8 * k) * 2 ^ (Nat.log2 b - 54)

theorem Wide.mono {b bb k : Nat} (h : Wide b k) (hb : b ≤ bb) : Wide bb k := by
  obtain ⟨h1, h2⟩ := h
  refine ⟨Nat.le_trans h1 hb, Nat.le_trans h2 (Nat.mul_le_mul_left _ (Nat.pow_le_pow_right (by decide) ?_))⟩
  have hb0 : b ≠ 0 := by intro h; subst h; exact absurd h1 (by decide)
  have hb0' : bb ≠ 0 := by omega
  have : Nat.log2 b ≤ Nat.log2 bb := (Nat.le_log2 hb0').2 (Nat.le_trans (log2_bounds b hb0).1 hb)
  omega

/-- **Negative-exponent scaling is correctly rounded under the margin** whenever the big integer the
pipeline ends with is `Wide` for the number of steps taken. -/
theorem powerOfNegativeTen_exact_wide (num x b s : Nat) (hn0 : 0 < num) (hn : num < 2 ^ 64) (hx : x ≤ 350)
    (hps0 : negScale num x = some (b, s)) (hw : Wide b (stepsOf x))
    (hm : MarginPair (roundPair num (10 ^ x)).1 (roundPair num (10 ^ x)).2) :
    powerOfNegativeTen num x = some (nearestMag num (10 ^ x)) := by
  obtain ⟨bb, S, hps, hS, e1, e2⟩ := negScale_error_steps num x hn (by omega)
  have hbb : bb = b ∧ x + 64 + S = s := by
    rw [hps] at hps0
    simpa using hps0
  obtain ⟨hbe, _⟩ := hbb
  subst hbe
  have hdiv : x / 27 ≤ 12 := by omega
  have hk13 : stepsOf x ≤ 13 := Nat.le_trans (stepsOf_le x) (by omega)
  generalize stepsOf x = k at *
  have hb256 := negScale_lt num x bb _ hps
  obtain ⟨hb59, hG⟩ := hw
  have hb62 : 2 ^ 59 ≤ bb := hb59
  have hb0 : bb ≠ 0 := by intro h; subst h; exact absurd hb62 (by decide)
  obtain ⟨hlo, hhi⟩ := log2_bounds bb hb0
  have hbit62 : 59 ≤ Nat.log2 bb := (Nat.le_log2 hb0).2 hb62
  have hD : 0 < 5 ^ x := Nat.pow_pos (by decide)
  have hbG : bb < 2 ^ 55 * 2 ^ (Nat.log2 bb - 54) := by
    rw [← Nat.pow_add, show 55 + (Nat.log2 bb - 54) = Nat.log2 bb + 1 by omega]; exact hhi
  obtain ⟨q1, q2⟩ := eighth_of_error bb (num * 2 ^ (64 + S)) (5 ^ x) k (2 ^ (Nat.log2 bb - 54)) hD hk13 hG hbG e1 e2
  have hGb : 2 * 2 ^ (Nat.log2 bb - 54) ≤ bb := by
    calc 2 * 2 ^ (Nat.log2 bb - 54) = 2 ^ (Nat.log2 bb - 54 + 1) := by rw [Nat.pow_succ]; ring
      _ ≤ 2 ^ Nat.log2 bb := Nat.pow_le_pow_right (by decide) (by omega)
      _ ≤ bb := hlo
  generalize hN : num * 2 ^ (64 + S) = N at *
  generalize hGd : 2 ^ (Nat.log2 bb - 54) = G at *
  have hNlow : 2 ^ 58 * 5 ^ x ≤ N := by
    have h1 : (bb - G) * 5 ^ x ≤ N := by
      rw [Nat.sub_mul]; omega
    have h2 : 2 ^ 58 ≤ bb - G := by
      have : (2 : Nat) ^ 59 = 2 ^ 58 + 2 ^ 58 := by decide
      omega
    exact Nat.le_trans (Nat.mul_le_mul_right _ h2) h1
  have hq0 : N / 5 ^ x ≠ 0 := by
    intro h
    have := (Nat.div_eq_zero_iff).1 h
    rcases this with h | h
    · omega
    · have : 1 * 5 ^ x ≤ 2 ^ 58 * 5 ^ x := Nat.mul_le_mul_right _ (by decide)
      omega
  obtain ⟨l1, l2⟩ := log2_bounds (N / 5 ^ x) hq0
  generalize hL : Nat.log2 (N / 5 ^ x) = L at *
  have hL1 : 5 ^ x * 2 ^ L ≤ N := Nat.le_trans (Nat.mul_le_mul_left _ l1) (Nat.mul_div_le _ _)
  have hL2 : N < 5 ^ x * 2 ^ (L + 1) := by
    have := (Nat.div_lt_iff_lt_mul hD).1 l2
    rw [Nat.mul_comm]; exact this
  have hL52 : 52 ≤ L := by
    by_contra hc
    have : 2 ^ (L + 1) ≤ 2 ^ 58 := Nat.pow_le_pow_right (by decide) (by omega)
    have : 5 ^ x * 2 ^ (L + 1) ≤ 5 ^ x * 2 ^ 58 := Nat.mul_le_mul_left _ this
    rw [Nat.mul_comm (5 ^ x) (2 ^ 58)] at this
    omega
  have h10 : (10 : Nat) ^ x = 5 ^ x * 2 ^ x := by rw [show (10 : Nat) = 5 * 2 by decide, Nat.mul_pow]
  have hshx : x + 64 + S - x = 64 + S := by omega
  -- margin in big-integer units
  have hm' : MarginPair N (5 ^ x * 2 ^ (max L (x + 64 + S - 1022) - 52)) := by
    rw [h10] at hm
    have := (margin_bunits num (5 ^ x) x (x + 64 + S) L hn0 hD (by omega) hL52
      (by rw [hshx, hN]; exact hL1) (by rw [hshx, hN]; exact hL2)).1 hm
    rw [hshx, hN] at this
    exact this
  have hexact := raw_exact_rat bb (x + 64 + S) N (5 ^ x) L hD (Nat.le_trans (by decide) hb62)
    (by rw [hGd]; exact q1) (by rw [hGd]; exact q2) hL1 hL2 hm'
  have hspec : nearestMag num (10 ^ x) = cap (ratRaw N (5 ^ x) (x + 64 + S) L) := by
    rw [h10]
    have := nearestMag_bunits num (5 ^ x) x (x + 64 + S) L hn0 hD (by omega) hL52
      (by rw [hshx, hN]; exact hL1) (by rw [hshx, hN]; exact hL2)
    rw [hshx, hN] at this
    exact this
  have hb53 : 2 ^ 53 ≤ bb := Nat.le_trans (by decide) hb62
  have hcap : cap (codeRawNeg bb (x + 64 + S)) = codeRawNeg bb (x + 64 + S) := by
    have := codeRawNeg_lt_inf bb (x + 64 + S) hb53 hb256
    unfold cap; simp [Nat.not_le.2 this]
  rw [hspec, hexact, hcap]
  simp [powerOfNegativeTen, hps, negFinish_eq bb (x + 64 + S) hb53 hb256 (by omega)]

/-- the earlier sufficient condition: `2^(x/27+1) ≤ num` (or `2^(x/27) ≤ 2·num` when `x < 216`) makes the big integer wide enough -/
theorem powerOfNegativeTen_exact (num x : Nat) (hn0 : 0 < num)
    (hnx : (x < 216 ∧ 2 ^ (x / 27) ≤ 2 * num) ∨ 2 ^ (x / 27 + 1) ≤ num) (hn : num < 2 ^ 64)
    (hx : x ≤ 350) (hm : MarginPair (roundPair num (10 ^ x)).1 (roundPair num (10 ^ x)).2) :
    powerOfNegativeTen num x = some (nearestMag num (10 ^ x)) := by
  obtain ⟨b, S, hps, hS, e1, e2⟩ := negScale_error_steps num x hn (by omega)
  have hdiv : x / 27 ≤ 12 := by omega
  have hk := stepsOf_le x
  have hlow := negScale_lower num x b _ hn hps
  have hbig : (2 ^ 62 ≤ b ∧ stepsOf x ≤ 8) ∨ 2 ^ 64 ≤ b := by
    rcases hnx with ⟨hx216, h2⟩ | h2
    · left
      constructor
      · have h3 : 2 ^ (x / 27 + 1) * 2 ^ 62 ≤ num * 2 ^ 64 := by
          calc 2 ^ (x / 27 + 1) * 2 ^ 62 = 2 ^ (x / 27) * 2 ^ 63 := by rw [Nat.pow_succ]; ring
            _ ≤ 2 * num * 2 ^ 63 := Nat.mul_le_mul_right _ h2
            _ = num * 2 ^ 64 := by rw [show (2 : Nat) ^ 64 = 2 * 2 ^ 63 by decide]; ring
        have h4 : 2 ^ (x / 27 + 1) * 2 ^ 62 < 2 ^ (x / 27 + 1) * (b + 1) := by omega
        have := Nat.lt_of_mul_lt_mul_left h4
        omega
      · omega
    · right
      have h3 : 2 ^ (x / 27 + 1) * 2 ^ 64 ≤ num * 2 ^ 64 := Nat.mul_le_mul_right _ h2
      have h4 : 2 ^ (x / 27 + 1) * 2 ^ 64 < 2 ^ (x / 27 + 1) * (b + 1) := by omega
      have := Nat.lt_of_mul_lt_mul_left h4
      omega
  have hb62 : 2 ^ 62 ≤ b := by
    rcases hbig with h | h
    · exact h.1
    · exact Nat.le_trans (by decide) h
  have hb0 : b ≠ 0 := by intro h; subst h; exact absurd hb62 (by decide)
  have hbit62 : 62 ≤ Nat.log2 b := (Nat.le_log2 hb0).2 hb62
  refine powerOfNegativeTen_exact_wide num x b _ hn0 hn hx hps ⟨Nat.le_trans (by decide) hb62, ?_⟩ hm
  generalize stepsOf x = k at *
  rcases hbig with ⟨_, hk8⟩ | h64
  · have h1 : 2 ^ 8 ≤ 2 ^ (Nat.log2 b - 54) := Nat.pow_le_pow_right (by decide) (by omega)
    have h2 : 64 ≤ 128 - 8 * k := by omega
    calc 1024 * k + 1 ≤ 64 * 2 ^ 8 := by omega
      _ ≤ (128 - 8 * k) * 2 ^ (Nat.log2 b - 54) := Nat.mul_le_mul h2 h1
  · have hbit64 : 64 ≤ Nat.log2 b := (Nat.le_log2 hb0).2 h64
    have h1 : 2 ^ 10 ≤ 2 ^ (Nat.log2 b - 54) := Nat.pow_le_pow_right (by decide) (by omega)
    have h2 : 24 ≤ 128 - 8 * k := by omega
    calc 1024 * k + 1 ≤ 24 * 2 ^ 10 := by omega
      _ ≤ (128 - 8 * k) * 2 ^ (Nat.log2 b - 54) := Nat.mul_le_mul h2 h1

end Qentem.StrToNum
