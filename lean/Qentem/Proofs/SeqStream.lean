import Qentem.Proofs.SeqArray
/-! Helper lemmas for C14, `StringStream` (for every sound capacity policy) and `StringView`. -/
namespace Qentem.Seq

/-- What the proofs need from a capacity policy: a request is never under-served. -/
def Policy.Sound (P : Policy) : Prop := (∀ n, n ≤ P.alloc n) ∧ (∀ n, n ≤ P.grow n)

theorem alignSize_ge (n : Nat) : n ≤ alignSize n := by
  unfold alignSize
  dsimp only
  split
  · have := @Nat.lt_log2_self n
    rw [Nat.shiftLeft_eq, Nat.shiftLeft_eq, Nat.one_mul]
    rw [Nat.pow_succ] at this
    omega
  · omega

theorem policyStd_sound : policyStd.Sound := ⟨alignSize_ge, fun n => by simp [policyStd]; omega⟩
theorem policyExact_sound : policyExact.Sound := ⟨fun n => by simp [policyExact], fun n => by simp [policyExact]⟩

namespace StreamM
variable (P : Policy)

/-- `Length() ≤ Capacity()` -/
def Inv (s : StreamM) : Prop := s.data.length ≤ s.cap

@[simp] theorem empty_data : empty.data = [] := rfl
theorem empty_inv : empty.Inv := by simp [Inv, empty]

theorem expand_ge (hP : P.Sound) (s : StreamM) (n : Nat) : n ≤ (s.expand P n).cap := by
  unfold expand; exact Nat.le_trans (hP.2 n) (hP.1 _)

@[simp] theorem expand_data (s : StreamM) (n : Nat) : (s.expand P n).data = s.data := rfl

@[simp] theorem write_data (s : StreamM) (u : List Nat) : (s.write P u).data = s.data ++ u := by
  unfold write; dsimp only; split <;> rfl

theorem write_inv (hP : P.Sound) (s : StreamM) (u : List Nat) : (s.write P u).Inv := by
  unfold write Inv len; dsimp only
  split
  · have := expand_ge P hP s (s.data.length + u.length)
    simp; omega
  · simp; omega

@[simp] theorem ofSize_data (n : Nat) : (ofSize P n).data = [] := by
  unfold ofSize; split <;> rfl

theorem ofSize_inv (n : Nat) : (ofSize P n).Inv := by
  unfold ofSize Inv; split <;> simp [empty]

@[simp] theorem ofCopy_data (u : List Nat) : (ofCopy P u).data = u := by
  unfold ofCopy
  split
  · simp
  · next h => simp at h; simp [h]

theorem ofCopy_inv (hP : P.Sound) (u : List Nat) : (ofCopy P u).Inv := by
  unfold ofCopy
  split
  · exact write_inv P hP _ _
  · exact empty_inv

@[simp] theorem clear_data (s : StreamM) : s.clear.data = [] := rfl
theorem clear_inv (s : StreamM) : s.clear.Inv := by simp [Inv, clear]

@[simp] theorem pushChar_data (s : StreamM) (c : Nat) : (s.pushChar P c).data = s.data ++ [c] := by
  unfold pushChar; dsimp only; split <;> rfl

theorem pushChar_inv (hP : P.Sound) (s : StreamM) (c : Nat) (h : s.Inv) : (s.pushChar P c).Inv := by
  unfold pushChar Inv len at *; dsimp only
  split
  · have := expand_ge P hP s (s.data.length + 1)
    simp; omega
  · simp; omega

@[simp] theorem expect_data (s : StreamM) (n : Nat) : (s.expect P n).data = s.data := by
  unfold expect; dsimp only; split <;> rfl

theorem expect_inv (hP : P.Sound) (s : StreamM) (n : Nat) (h : s.Inv) : (s.expect P n).Inv := by
  unfold expect Inv len at *; dsimp only
  split
  · have := expand_ge P hP s (n + s.data.length)
    simp; omega
  · exact h

/-- After `Expect(n)` a write of `n` units does not reallocate (this is what makes `s += s` safe). -/
theorem expect_room (hP : P.Sound) (s : StreamM) (n : Nat) : s.data.length + n ≤ (s.expect P n).cap := by
  unfold expect len; dsimp only
  split
  · have := expand_ge P hP s (n + s.data.length); omega
  · omega

@[simp] theorem appendStream_data (s : StreamM) (u : List Nat) : (s.appendStream P u).data = s.data ++ u := by
  simp [appendStream]

theorem appendStream_inv (hP : P.Sound) (s : StreamM) (u : List Nat) : (s.appendStream P u).Inv :=
  write_inv P hP _ _

/-- …and indeed keeps the capacity chosen by `Expect`. -/
theorem appendStream_no_realloc (hP : P.Sound) (s : StreamM) (u : List Nat) :
    (s.appendStream P u).cap = (s.expect P u.length).cap := by
  have := expect_room P hP s u.length
  unfold appendStream write len; dsimp only
  rw [expect_data]
  split
  · omega
  · rfl

@[simp] theorem stepBack_data (s : StreamM) (n : Nat) :
    (s.stepBack n).data = if n ≤ s.data.length then s.data.take (s.data.length - n) else s.data := by
  unfold stepBack len; split <;> rfl

theorem stepBack_inv (s : StreamM) (n : Nat) (h : s.Inv) : (s.stepBack n).Inv := by
  unfold stepBack Inv len at *
  split <;> simp_all <;> omega

@[simp] theorem reverse_data (s : StreamM) (i : Nat) : (s.reverse i).data = s.data.take i ++ (s.data.drop i).reverse := rfl

theorem reverse_inv (s : StreamM) (i : Nat) (h : s.Inv) : (s.reverse i).Inv := by
  unfold reverse Inv at *; simp; omega

theorem insertAt_data (s : StreamM) (c i : Nat) :
    (s.insertAt P c i).data = if i < s.data.length then s.data.take i ++ [c] ++ s.data.drop i else s.data := by
  unfold insertAt len
  split
  · have hne : s.data.take i ++ [c] ++ s.data.drop i ≠ [] := by simp
    rw [List.getLast?_eq_some_getLast hne]
    simp only [pushChar_data]
    exact List.dropLast_concat_getLast hne
  · rfl

theorem insertAt_inv (hP : P.Sound) (s : StreamM) (c i : Nat) (h : s.Inv) : (s.insertAt P c i).Inv := by
  unfold insertAt len
  split
  · have hne : s.data.take i ++ [c] ++ s.data.drop i ≠ [] := by simp
    rw [List.getLast?_eq_some_getLast hne]
    dsimp only
    apply pushChar_inv P hP
    unfold Inv at *
    simp; omega
  · exact h

theorem setLength_data (s : StreamM) (n : Nat) (f : List Nat) :
    (s.setLength P n f).data = if n ≤ s.data.length then s.data.take n else s.data ++ f.take (n - s.data.length) := by
  unfold setLength len; dsimp only
  split <;> split <;> rfl

theorem setLength_inv (hP : P.Sound) (s : StreamM) (n : Nat) (f : List Nat) : (s.setLength P n f).Inv := by
  unfold setLength Inv len; dsimp only
  have he := expand_ge P hP s n
  by_cases h1 : s.cap < n <;> by_cases h2 : n ≤ s.data.length <;> simp [h1, h2] <;> omega

@[simp] theorem buffer_data (s : StreamM) (f : List Nat) : (s.buffer P f).data = s.data ++ f := by
  unfold buffer; dsimp only; split <;> rfl

theorem buffer_inv (hP : P.Sound) (s : StreamM) (f : List Nat) : (s.buffer P f).Inv := by
  unfold buffer Inv len; dsimp only
  split
  · have := expand_ge P hP s (s.data.length + f.length)
    simp; omega
  · simp; omega

@[simp] theorem insertNull_data (s : StreamM) : (s.insertNull P).data = s.data := by
  unfold insertNull; split <;> rfl

theorem insertNull_inv (hP : P.Sound) (s : StreamM) (h : s.Inv) : (s.insertNull P).Inv := by
  unfold insertNull Inv len at *
  split
  · have := expand_ge P hP s (s.data.length + 1); simp; omega
  · exact h

/-- `InsertNull` / `GetStringView` leave a cell for the terminator: `Length() < Capacity()`. -/
theorem insertNull_room (hP : P.Sound) (s : StreamM) (h : s.Inv) : s.data.length < (s.insertNull P).cap := by
  unfold insertNull Inv len at *
  split
  · have := expand_ge P hP s (s.data.length + 1); omega
  · omega

end StreamM

/-! ### stream programs -/

def ssAbs (st : SsSt) : SeqAbs := fun i => (st i).data
def SsInv (st : SsSt) : Prop := ∀ i, (st i).Inv

@[simp] theorem ssAbs_apply (st : SsSt) (i : Nat) : ssAbs st i = (st i).data := rfl

theorem ssAbs_setR (st : SsSt) (r : Nat) (v : StreamM) :
    ssAbs (setR st r v) = setR (ssAbs st) r v.data := map_setR (fun a => a.data) st r v

@[simp] theorem setR_ssAbs_self (st : SsSt) (r : Nat) : setR (ssAbs st) r (st r).data = ssAbs st :=
  setR_self (ssAbs st) r

theorem ssInit_inv : SsInv ssInit := fun _ => StreamM.empty_inv

theorem ss_step_refines (P : Policy) (op : SsOp) (st : SsSt) :
    ssAbs (op.step P st).1 = (op.spec (ssAbs st)).1 ∧ (op.step P st).2 = (op.spec (ssAbs st)).2 := by
  cases op with
  | ctorN r n => simp [SsOp.step, SsOp.spec, ssAbs_setR]
  | ctorC r s => simp [SsOp.step, SsOp.spec, ssAbs_setR]
  | ctorM r s => simp [SsOp.step, SsOp.spec, ssAbs_setR]
  | asgC r s =>
    by_cases e : r = s
    · subst e; simp [SsOp.step, SsOp.spec]
    · simp [SsOp.step, SsOp.spec, ssAbs_setR, e]
  | asgM r s =>
    by_cases e : r = s
    · subst e; simp [SsOp.step, SsOp.spec]
    · simp [SsOp.step, SsOp.spec, ssAbs_setR, e]
  | asgU v r u => simp [SsOp.step, SsOp.spec, ssAbs_setR]
  | pushCh v r c => simp [SsOp.step, SsOp.spec, ssAbs_setR]
  | appS r s => simp [SsOp.step, SsOp.spec, ssAbs_setR]
  | shlS r s => simp [SsOp.step, SsOp.spec, ssAbs_setR]
  | appU v r u => simp [SsOp.step, SsOp.spec, ssAbs_setR]
  | appOwn v r off n =>
    simp only [SsOp.step, SsOp.spec]
    split <;> (try split) <;> simp [ssAbs_setR]
  | asgOwn v r off n =>
    simp only [SsOp.step, SsOp.spec]
    split <;> simp [ssAbs_setR]
  | clear r => simp [SsOp.step, SsOp.spec, ssAbs_setR]
  | reset r => simp [SsOp.step, SsOp.spec, ssAbs_setR]
  | detach r => simp [SsOp.step, SsOp.spec, ssAbs_setR]
  | stepBack r n =>
    simp only [SsOp.step, SsOp.spec, ssAbs_setR, StreamM.stepBack_data, ssAbs_apply, and_true]
    congr
  | reverse r i => simp [SsOp.step, SsOp.spec, ssAbs_setR]
  | insertAt r c i =>
    simp only [SsOp.step, SsOp.spec, ssAbs_setR, StreamM.insertAt_data, ssAbs_apply, and_true]
    congr
  | setLength r n f =>
    simp only [SsOp.step, SsOp.spec, ssAbs_setR, StreamM.setLength_data, ssAbs_apply, and_true]
    congr
  | buffer r f => simp [SsOp.step, SsOp.spec, ssAbs_setR]
  | expect r n => simp [SsOp.step, SsOp.spec, ssAbs_setR]
  | reserve r n => simp [SsOp.step, SsOp.spec, ssAbs_setR]
  | getString r => simp [SsOp.step, SsOp.spec, ssAbs_setR]
  | getView r => simp [SsOp.step, SsOp.spec, ssAbs_setR]
  | insertNull r => simp [SsOp.step, SsOp.spec, ssAbs_setR]
  | eqS k r s => simp [SsOp.step, SsOp.spec]
  | eqU v k r u => simp [SsOp.step, SsOp.spec]

theorem ss_step_inv (P : Policy) (hP : P.Sound) (op : SsOp) (st : SsSt) (h : SsInv st) : SsInv (op.step P st).1 := by
  unfold SsInv at *
  cases op with
  | ctorN r n => exact all_setR st r _ h (StreamM.ofSize_inv P _)
  | ctorC r s => exact all_setR st r _ h (StreamM.ofCopy_inv P hP _)
  | ctorM r s => exact all_setR _ r _ (all_setR st s _ h StreamM.empty_inv) (h s)
  | asgC r s =>
    simp only [SsOp.step]; split
    · exact h
    · exact all_setR st r _ h (StreamM.write_inv P hP _ _)
  | asgM r s =>
    simp only [SsOp.step]; split
    · exact h
    · exact all_setR _ s _ (all_setR st r _ h (h s)) StreamM.empty_inv
  | asgU v r u => exact all_setR st r _ h (StreamM.write_inv P hP _ _)
  | pushCh v r c => exact all_setR st r _ h (StreamM.pushChar_inv P hP _ _ (h r))
  | appS r s => exact all_setR st r _ h (StreamM.appendStream_inv P hP _ _)
  | shlS r s => exact all_setR st r _ h (StreamM.appendStream_inv P hP _ _)
  | appU v r u => exact all_setR st r _ h (StreamM.write_inv P hP _ _)
  | appOwn v r off n =>
    simp only [SsOp.step]
    split <;> (try split) <;> exact all_setR st r _ h (StreamM.write_inv P hP _ _)
  | asgOwn v r off n =>
    simp only [SsOp.step]
    split <;> exact all_setR st r _ h (StreamM.write_inv P hP _ _)
  | clear r => exact all_setR st r _ h (StreamM.clear_inv _)
  | reset r => exact all_setR st r _ h StreamM.empty_inv
  | detach r => exact all_setR st r _ h StreamM.empty_inv
  | stepBack r n => exact all_setR st r _ h (StreamM.stepBack_inv _ _ (h r))
  | reverse r i => exact all_setR st r _ h (StreamM.reverse_inv _ _ (h r))
  | insertAt r c i => exact all_setR st r _ h (StreamM.insertAt_inv P hP _ _ _ (h r))
  | setLength r n f => exact all_setR st r _ h (StreamM.setLength_inv P hP _ _ _)
  | buffer r f => exact all_setR st r _ h (StreamM.buffer_inv P hP _ _)
  | expect r n => exact all_setR st r _ h (StreamM.expect_inv P hP _ _ (h r))
  | reserve r n => exact all_setR st r _ h (StreamM.ofSize_inv P _)
  | getString r => exact all_setR st r _ h StreamM.empty_inv
  | getView r => exact all_setR st r _ h (StreamM.insertNull_inv P hP _ (h r))
  | insertNull r => exact all_setR st r _ h (StreamM.insertNull_inv P hP _ (h r))
  | eqS k r s => exact h
  | eqU v k r u => exact h

theorem ss_run_refines (P : Policy) (hP : P.Sound) (ops : List SsOp) : ∀ (st : SsSt), SsInv st →
    ssAbs (ssRun P ops st) = ssSpecRun ops (ssAbs st) ∧ SsInv (ssRun P ops st) := by
  induction ops with
  | nil => intro st h; exact ⟨rfl, h⟩
  | cons op ops ih =>
    intro st h
    simp only [ssRun, ssSpecRun]
    rw [← (ss_step_refines P op st).1]
    exact ih _ (ss_step_inv P hP op st h)

theorem ss_outs_refine (P : Policy) (ops : List SsOp) : ∀ (st : SsSt),
    ssOuts P ops st = ssSpecOuts ops (ssAbs st) := by
  induction ops with
  | nil => intro st; rfl
  | cons op ops ih =>
    intro st
    simp only [ssOuts, ssSpecOuts]
    rw [← (ss_step_refines P op st).1, ← (ss_step_refines P op st).2, ih]

/-! ### StringView -/
namespace ViewM

@[simp] theorem empty_data : empty.data = [] := rfl
@[simp] theorem ofPtr_data (b : List Nat) (n : Nat) : (ofPtr b n).data = b.take n := rfl

theorem takeWhile_append_zero (b : List Nat) :
    (b ++ [0]).takeWhile (· != 0) = b.takeWhile (· != 0) := by
  induction b with
  | nil => simp
  | cons a t ih =>
    simp only [List.cons_append, List.takeWhile_cons]
    split
    · rw [ih]
    · rfl

theorem take_length_takeWhile (p : Nat → Bool) (l : List Nat) : l.take (l.takeWhile p).length = l.takeWhile p := by
  induction l with
  | nil => simp
  | cons a t ih =>
    simp only [List.takeWhile_cons]
    split
    · simp [ih]
    · simp

/-- `StringView(const Char_T*)`: the view is the C string in the buffer. -/
@[simp] theorem ofCStr_data (b : List Nat) : (ofCStr (b ++ [0])).data = b.takeWhile (· != 0) := by
  unfold ofCStr data
  simp only
  rw [take_length_takeWhile, takeWhile_append_zero]

end ViewM

def svAbs (st : SvSt) : SeqAbs := fun i => (st i).data

@[simp] theorem svAbs_apply (st : SvSt) (i : Nat) : svAbs st i = (st i).data := rfl

theorem svAbs_setR (st : SvSt) (r : Nat) (v : ViewM) :
    svAbs (setR st r v) = setR (svAbs st) r v.data := map_setR (fun a => a.data) st r v

@[simp] theorem setR_svAbs_self (st : SvSt) (r : Nat) : setR (svAbs st) r (st r).data = svAbs st :=
  setR_self (svAbs st) r

theorem sv_step_refines (op : SvOp) (st : SvSt) :
    svAbs (op.step st).1 = (op.spec (svAbs st)).1 ∧ (op.step st).2 = (op.spec (svAbs st)).2 := by
  cases op with
  | ctorP r b n => simp [SvOp.step, SvOp.spec, svAbs_setR]
  | ctorZ r b => simp [SvOp.step, SvOp.spec, svAbs_setR]
  | ctorC r s => simp [SvOp.step, SvOp.spec, svAbs_setR]
  | ctorM r s => simp [SvOp.step, SvOp.spec, svAbs_setR]
  | asgC r s =>
    by_cases e : r = s
    · subst e; simp [SvOp.step, SvOp.spec]
    · simp [SvOp.step, SvOp.spec, svAbs_setR, e]
  | asgM r s =>
    by_cases e : r = s
    · subst e; simp [SvOp.step, SvOp.spec]
    · simp [SvOp.step, SvOp.spec, svAbs_setR, e]
  | asgZ r b => simp [SvOp.step, SvOp.spec, svAbs_setR]
  | reset r => simp [SvOp.step, SvOp.spec, svAbs_setR]
  | cmp k r s => simp [SvOp.step, SvOp.spec]
  | cmpU k r u => simp [SvOp.step, SvOp.spec]

theorem sv_run_refines (ops : List SvOp) : ∀ (st : SvSt),
    svAbs (svRun ops st) = svSpecRun ops (svAbs st) := by
  induction ops with
  | nil => intro st; rfl
  | cons op ops ih =>
    intro st
    simp only [svRun, svSpecRun]
    rw [← (sv_step_refines op st).1]
    exact ih _

theorem sv_outs_refine (ops : List SvOp) : ∀ (st : SvSt),
    svOuts ops st = svSpecOuts ops (svAbs st) := by
  induction ops with
  | nil => intro st; rfl
  | cons op ops ih =>
    intro st
    simp only [svOuts, svSpecOuts]
    rw [← (sv_step_refines op st).1, ← (sv_step_refines op st).2, ih]

end Qentem.Seq
