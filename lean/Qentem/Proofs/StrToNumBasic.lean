import Qentem.Model.StrToNum
/-! Helper lemmas for C09: digit runs inside a buffer and how the scanning loops traverse them. -/
namespace Qentem.StrToNum

/-- the units `l` sit at positions `off, off+1, …`, all inside `[0, e)` -/
def unitsAt (c : List Nat) (e : Nat) : Nat → List Nat → Prop
  | _, [] => True
  | off, x :: xs => rd c e off = some x ∧ unitsAt c e (off + 1) xs

def AllDigits (l : List Nat) : Prop := ∀ x ∈ l, isDigit x = true

/-- value of a run of digit units (no truncation) -/
def decVal (l : List Nat) : Nat := l.foldl (fun a d => a * 10 + (d - 48)) 0

/-- position `p` ends the numeral: it is `end_offset`, or it holds a unit that `cont` rejects -/
def endsAt (c : List Nat) (e p : Nat) (cont : Nat → Bool) : Prop :=
  p = e ∨ ∃ x, rd c e p = some x ∧ cont x = false

theorem rd_lt {c : List Nat} {e i x : Nat} (h : rd c e i = some x) : i < e := by
  unfold rd at h; split at h <;> simp_all

theorem unitsAt_append (c : List Nat) (e : Nat) : ∀ (l₁ l₂ : List Nat) (off : Nat),
    unitsAt c e off (l₁ ++ l₂) ↔ unitsAt c e off l₁ ∧ unitsAt c e (off + l₁.length) l₂
  | [], l₂, off => by simp [unitsAt]
  | x :: xs, l₂, off => by
    simp only [List.cons_append, unitsAt, List.length_cons, unitsAt_append c e xs l₂ (off + 1)]
    rw [show off + 1 + xs.length = off + (xs.length + 1) by omega]
    exact and_assoc.symm

theorem unitsAt_le (c : List Nat) (e : Nat) : ∀ (l : List Nat) (off : Nat), unitsAt c e off l → l ≠ [] → off + l.length ≤ e
  | [x], off, h, _ => by have := rd_lt h.1; simp; omega
  | x :: y :: ys, off, h, _ => by
    have := unitsAt_le c e (y :: ys) (off + 1) h.2 (by simp)
    simp at this ⊢; omega

theorem pushDigit_lt (n d : Nat) : pushDigit n d < 2 ^ 64 := Nat.mod_lt _ (by decide)

theorem decVal_append_singleton (l : List Nat) (d : Nat) : decVal (l ++ [d]) = decVal l * 10 + (d - 48) := by
  simp [decVal, List.foldl_append]

theorem foldl_dec (l : List Nat) : ∀ a, l.foldl (fun a d => a * 10 + (d - 48)) a = a * 10 ^ l.length + decVal l := by
  induction l with
  | nil => intro a; simp [decVal]
  | cons x xs ih =>
    intro a
    simp only [List.foldl_cons, List.length_cons, decVal]
    rw [ih, ih (0 * 10 + (x - 48))]
    simp [Nat.pow_succ, Nat.add_mul, Nat.mul_assoc, Nat.mul_comm 10]
    omega

theorem decVal_cons (x : Nat) (xs : List Nat) : decVal (x :: xs) = (x - 48) * 10 ^ xs.length + decVal xs := by
  have := foldl_dec xs (0 * 10 + (x - 48))
  simpa [decVal] using this

/-- folding `pushDigit` (64-bit truncation at every step) over a run whose total stays below `2^64`
never truncates -/
theorem foldl_pushDigit (l : List Nat) : ∀ a, a * 10 ^ l.length + decVal l < 2 ^ 64 →
    l.foldl pushDigit a = a * 10 ^ l.length + decVal l := by
  induction l with
  | nil => intro a _; simp [decVal]
  | cons x xs ih =>
    intro a h
    rw [decVal_cons] at h ⊢
    have hp : 0 < 10 ^ xs.length := Nat.pow_pos (by decide)
    have e1 : (a * 10 + (x - 48)) * 10 ^ xs.length = a * 10 ^ (xs.length + 1) + (x - 48) * 10 ^ xs.length := by
      rw [Nat.add_mul, Nat.pow_succ, Nat.mul_assoc, Nat.mul_comm 10]
    have hx : a * 10 + (x - 48) < 2 ^ 64 := by
      have : (a * 10 + (x - 48)) * 1 ≤ (a * 10 + (x - 48)) * 10 ^ xs.length := Nat.mul_le_mul_left _ hp
      simp only [List.length_cons] at h
      omega
    have hpd : pushDigit a x = a * 10 + (x - 48) := by unfold pushDigit; exact Nat.mod_eq_of_lt hx
    simp only [List.foldl_cons, List.length_cons, hpd]
    rw [ih (a * 10 + (x - 48)) (by simp only [List.length_cons] at h; omega)]
    omega

/-- the inner digit loop walks over a run of digits -/
theorem scanDigits_run (c : List Nat) (e : Nat) : ∀ (ds : List Nat) (k off num dg : Nat),
    AllDigits ds → unitsAt c e off ds → ds.length ≤ k →
    scanDigits c e k off num dg =
      scanDigits c e (k - ds.length) (off + ds.length) (ds.foldl pushDigit num) (ds.getLast?.getD dg)
  | [], k, off, num, dg, _, _, _ => by simp
  | x :: xs, 0, _, _, _, _, _, hk => by simp at hk
  | x :: xs, k + 1, off, num, dg, hd, hu, hk => by
    have hx : isDigit x = true := hd x (by simp)
    rw [scanDigits, hu.1]
    simp only [hx, if_true]
    rw [scanDigits_run c e xs k (off + 1) (pushDigit num x) x (fun y hy => hd y (by simp [hy])) hu.2
      (by simp at hk; omega)]
    simp only [List.length_cons, List.foldl_cons]
    rw [show k + 1 - (xs.length + 1) = k - xs.length by omega, show off + 1 + xs.length = off + (xs.length + 1) by omega]
    congr 1
    cases xs with
    | nil => simp
    | cons y ys =>
      have h1 := List.getLast?_eq_some_getLast (l := y :: ys) (by simp)
      simp [h1]

theorem getLast_digit (ds : List Nat) (dg : Nat) (hd : AllDigits ds) (hne : ds ≠ []) :
    isDigit (ds.getLast?.getD dg) = true := by
  have := List.getLast?_eq_some_getLast hne
  rw [this]; exact hd _ (List.getLast_mem hne)

end Qentem.StrToNum
