import Qentem.Proofs.ExprClimb
/-!
# C04 — Stage 2: evaluating while scanning = evaluating the tree

`loop`/`evaluate`/`getVal` (values, as coded, repaired) against `loopT`/`evaluateT` (trees,
`Proofs/ExprClimb.lean`): by induction on the fuel, the value computed on the fly is `evalTree` of
the tree built so far.  Together with `loopT_eq_run` and `run_noOp_wf` this gives
`evaluate_eq_tree`.
-/
namespace Qentem.Expr
set_option linter.unusedSectionVars false
variable {R : Type} [RealLike R]

theorem applyOp_isNum (env : Env R) (op : Op) (l r v : Val R) (h : applyOp env op l r = some v) :
    ∃ n, v = .num n := by
  unfold applyOp at h
  split at h
  · rename_i x hx
    subst h
    unfold applyChk at hx
    split at hx
    · cases hi : isEqual env l r <;> simp_all
      exact ⟨_, hx.symm⟩
    · cases hi : isEqual env l r <;> simp_all
      exact ⟨_, hx.symm⟩
    · split at hx
      · rename_i y hy
        cases y <;> simp_all
        exact ⟨_, hx.symm⟩
      · simp at hx
    · simp at hx
  · simp at h

theorem applyOp_notText (env : Env R) (op : Op) (l r v : Val R) (h : applyOp env op l r = some v) :
    v.isText = false := by
  obtain ⟨n, rfl⟩ := applyOp_isNum env op l r v h
  rfl

def Tree.isBin : Tree R → Bool
  | .bin _ _ _ => true
  | _ => false

theorem attach_isBin (t : Tree R) (op : Op) (x : Tree R) : (attach t op x).isBin = true := by
  cases t with
  | leaf y => simp [attach, Tree.isBin]
  | paren t => simp [attach, Tree.isBin]
  | bin o l r => simp only [attach]; split <;> simp [Tree.isBin]

theorem run_isBin (p : Op) (rest : List (Item R)) :
    ∀ (t : Tree R) (op : Op), t.isBin = true → (run p t op rest).1.isBin = true := by
  induction rest with
  | nil => intro t op h; simpa [run] using h
  | cons it rest ih =>
    intro t op h
    obtain ⟨x, o'⟩ := it
    by_cases hp : p.rank < op.rank
    · simp only [run, hp, if_true]; exact ih _ _ (attach_isBin _ _ _)
    · simpa [run, hp] using h

/-- after at least one step the result of `run` is an operator node -/
theorem run_isBin_of_lt (p : Op) (t : Tree R) (op : Op) (x : Operand R) (o' : Op)
    (rest : List (Item R)) (h : p.rank < op.rank) :
    (run p t op ((x, o') :: rest)).1.isBin = true := by
  simp only [run, h, if_true]
  exact run_isBin _ _ _ _ (attach_isBin _ _ _)

theorem evalTree_bin_ctx (env : Env R) (t : Tree R) (h : t.isBin = true) (c c' : Op) :
    evalTree env c t = evalTree env c' t := by
  cases t <;> simp_all [Tree.isBin, evalTree]

theorem evalTree_bin_notText (env : Env R) (t : Tree R) (h : t.isBin = true) (c : Op) (v : Val R)
    (hv : evalTree env c t = some v) : v.isText = false := by
  cases t with
  | leaf y => simp [Tree.isBin] at h
  | paren t => simp [Tree.isBin] at h
  | bin op l r =>
    simp only [evalTree] at hv
    split at hv
    · simp at hv
    · split at hv
      · simp at hv
      · exact applyOp_notText _ _ _ _ _ hv

/-- what the caller of `loopT` does with the tree to obtain what `loop` returns -/
def fin (env : Env R) (r : Tree R × Op × List (Item R)) : Option (Cursor R) :=
  (evalTree env r.2.1 r.1).bind
    (fun v => if v.isText && r.2.1 == .noOp then none else some (v, r.2.1, r.2.2))

theorem fin_bin (env : Env R) (t : Tree R) (o : Op) (rest : List (Item R)) (h : t.isBin = true)
    (c : Op) : fin env (t, o, rest) = (evalTree env c t).map (fun v => (v, o, rest)) := by
  unfold fin
  simp only []
  rw [evalTree_bin_ctx env t h o c]
  cases hv : evalTree env c t with
  | none => simp
  | some v =>
    have := evalTree_bin_notText env t h c v hv
    simp [this]

theorem getVar_ctx (env : Env R) (v : VarRef) (ctx io : Op) (h : io = ctx ∨ ctx ≠ .noOp) :
    getVar env v ctx io = getVar env v ctx ctx := by
  rcases h with h | h
  · rw [h]
  · simp [getVar, h]

/-- the three statements proved together by induction on the fuel -/
def StA (env : Env R) (f : Nat) : Prop :=
  ∀ (x : Operand R) (ctx io : Op), x.wf = true → 2 * x.size + 1 ≤ f → (io = ctx ∨ ctx ≠ .noOp) →
    getVal env true f x ctx io = evalTree env ctx (climbOperand x)

def StB (env : Env R) (f : Nat) : Prop :=
  ∀ (prev : Op) (t : Tree R) (op : Op) (rest : List (Item R)) (lo : Option (Val R)),
    2 * sizeItems rest + 1 ≤ f → wfTail op rest = true → closedFor t op →
    (op = .noOp ∨ prev.rank < op.rank) → evalTree env op t = lo →
    (lo.bind fun left => loop env true f prev left op rest) = (loopT f prev t op rest).bind (fin env)

def StC (env : Env R) (f : Nat) : Prop :=
  ∀ (prev : Op) (x : Operand R) (o : Op) (rest : List (Item R)),
    2 * sizeItems ((x, o) :: rest) ≤ f → x.wf = true → wfTail o rest = true →
    (o = .noOp ∨ prev.rank < o.rank) →
    evaluate env true f prev ((x, o) :: rest) = (evaluateT f prev ((x, o) :: rest)).bind (fin env)

theorem stA_succ (env : Env R) (f : Nat) (hC : StC env f) : StA env (f + 1) := by
  intro x ctx io hwf hsz hctx
  cases x with
  | num n => simp [getVal, climbOperand, evalTree, evalLeaf]
  | text off len => simp [getVal, climbOperand, evalTree, evalLeaf]
  | var v => simp [getVal, climbOperand, evalTree, evalLeaf]; exact getVar_ctx env v ctx io hctx
  | sub items =>
    cases items with
    | nil => simp [Operand.wf, wfItems] at hwf
    | cons it rest =>
      obtain ⟨x0, o0⟩ := it
      simp only [Operand.wf, wfItems, Bool.and_eq_true] at hwf
      simp only [Operand.size] at hsz
      have hsz' : sizeItems ((x0, o0) :: rest) = x0.size + 1 + sizeItems rest := by simp [sizeItems]
      have hp : o0 = .noOp ∨ Op.noOp.rank < o0.rank := by
        by_cases h : o0 = .noOp
        · exact Or.inl h
        · right; rw [rank_noOp]; exact rank_pos _ h
      have hc := hC .noOp x0 o0 rest (by omega) hwf.1 hwf.2 hp
      cases f with
      | zero => omega
      | succ g =>
        have hT : loopT g .noOp (climbOperand x0) o0 rest =
            some (run .noOp (climbOperand x0) o0 rest) :=
          loopT_eq_run g .noOp _ o0 rest (by omega) hwf.2 (closedFor_climbOperand _ _) hp
        rw [run_noOp_wf _ _ _ hwf.2] at hT
        simp only [getVal, hc, evaluateT, hT, climbOperand, evalTree, climb]
        simp only [Option.bind, fin]
        cases hv : evalTree env .noOp (climbGo (climbOperand x0) o0 rest) with
        | none => simp
        | some v => cases hvt : v.isText <;> simp [notText, hvt]

theorem stC_succ (env : Env R) (f : Nat) (hA : StA env f) (hB : StB env f) : StC env (f + 1) := by
  intro prev x o rest hsz hwf hw hp
  have hsz' : sizeItems ((x, o) :: rest) = x.size + 1 + sizeItems rest := by simp [sizeItems]
  have ha := hA x o o hwf (by omega) (Or.inl rfl)
  have hb := hB prev (climbOperand x) o rest _ (by omega) hw (closedFor_climbOperand _ _) hp rfl
  simp only [evaluate, evaluateT, ha]
  rw [← hb]
  cases evalTree env o (climbOperand x) <;> rfl

theorem loopT_rec (f : Nat) (prev : Op) (left : Tree R) (op : Op) (x : Operand R) (o' : Op)
    (rest' : List (Item R)) (rt : Tree R) (o'' : Op) (rest'' : List (Item R)) (hop : op ≠ .noOp)
    (hge : ¬ op.rank ≥ o'.rank) (h : evaluateT f op ((x, o') :: rest') = some (rt, o'', rest'')) :
    loopT (f + 1) prev left op ((x, o') :: rest') =
      if prev.rank < o''.rank then loopT f prev (.bin op left rt) o'' rest''
      else some (.bin op left rt, o'', rest'') := by
  simp only [loopT, hop, if_false, hge, h]

theorem loop_rec (env : Env R) (f : Nat) (prev : Op) (left : Val R) (op : Op) (x : Operand R)
    (o' : Op) (rest' : List (Item R)) (hop : op ≠ .noOp) (hge : ¬ op.rank ≥ o'.rank) :
    loop env true (f + 1) prev left op ((x, o') :: rest') =
      match evaluate env true f op ((x, o') :: rest') with
      | none => none
      | some (right, o'', rest'') =>
        match applyOp env op left right with
        | none => none
        | some left' =>
          if prev.rank < o''.rank then loop env true f prev left' o'' rest''
          else some (left', o'', rest'') := by
  simp only [loop, hop, if_false, hge, if_true]
  cases evaluate env true f op ((x, o') :: rest') with
  | none => rfl
  | some r =>
    obtain ⟨right, o'', rest''⟩ := r
    simp only []
    cases applyOp env op left right <;> rfl

theorem stB_succ (env : Env R) (f : Nat) (hA : StA env f) (hB : StB env f) (hC : StC env f) :
    StB env (f + 1) := by
  intro prev t op rest lo hf hw hc hp hlo
  by_cases hop : op = .noOp
  · subst hop
    cases lo with
    | none => simp [loopT, fin, hlo]
    | some left =>
      simp only [Option.bind, loop, loopT, fin, hlo, if_true]
      cases left.isText <;> simp
  · have hlt : prev.rank < op.rank := by
      rcases hp with h | h
      · exact absurd h hop
      · exact h
    cases rest with
    | nil => simp [wfTail] at hw; exact absurd hw hop
    | cons it rest' =>
      obtain ⟨x, o'⟩ := it
      have hwx : x.wf = true := by simp [wfTail] at hw; exact hw.1.2
      have hw' : wfTail o' rest' = true := by simp [wfTail] at hw; exact hw.2
      have hsz : sizeItems ((x, o') :: rest') = x.size + 1 + sizeItems rest' := by simp [sizeItems]
      rw [hsz] at hf
      by_cases hge : op.rank ≥ o'.rank
      · -- direct branch
        have ha := hA x op o' hwx (by omega) (Or.inr hop)
        have hc' : closedFor (Tree.bin op t (climbOperand x)) o' := by simp [closedFor]; omega
        by_cases hcont : prev.rank < o'.rank
        · have hb := hB prev (.bin op t (climbOperand x)) o' rest' _ (by omega) hw' hc'
            (Or.inr hcont) rfl
          simp only [loopT, hop, if_false, hge, if_true, hcont]
          rw [← hb]
          simp only [evalTree, hlo]
          cases lo with
          | none => rfl
          | some left =>
            simp only [Option.bind, loop, hop, if_false, hge, if_true, ha, hcont]
            cases evalTree env op (climbOperand x) with
            | none => simp
            | some right => cases hap : applyOp env op left right <;> simp [hap]
        · simp only [loopT, hop, if_false, hge, if_true, hcont, Option.bind]
          rw [fin_bin env _ _ _ rfl op]
          simp only [evalTree, hlo]
          cases lo with
          | none => rfl
          | some left =>
            simp only [loop, hop, if_false, hge, if_true, ha, hcont]
            cases evalTree env op (climbOperand x) with
            | none => simp
            | some right => cases hap : applyOp env op left right <;> simp [hap]
      · -- recursive branch
        have hlt' : op.rank < o'.rank := by omega
        cases f with
        | zero => omega
        | succ g =>
          have hinner : loopT g op (climbOperand x) o' rest' =
              some (run op (climbOperand x) o' rest') :=
            loopT_eq_run g op _ o' rest' (by omega) hw' (closedFor_climbOperand x o') (Or.inr hlt')
          have hcc := hC op x o' rest' (by rw [hsz]; omega) hwx hw' (Or.inr hlt')
          -- facts about the inner run
          have hstop := run_stop op rest' (climbOperand x) o'
          have hwf'' := run_wfTail op rest' (climbOperand x) o' hw'
          have hsize := run_size op rest' (climbOperand x) o'
          have hbin : (run op (climbOperand x) o' rest').1.isBin = true := by
            cases rest' with
            | nil =>
              simp [wfTail] at hw'
              rw [hw', rank_noOp] at hlt'; omega
            | cons it2 r2 => obtain ⟨x2, o2⟩ := it2; exact run_isBin_of_lt _ _ _ _ _ _ hlt'
          generalize hr : run op (climbOperand x) o' rest' = r at hinner hstop hwf'' hsize hbin
          obtain ⟨rt, o'', rest''⟩ := r
          simp only [] at hstop hwf'' hsize hbin
          have hnl : ¬ op.rank < o''.rank := by
            rcases hstop with h | h
            · subst h
              simp [wfTail] at hwf''
              rw [hwf'', rank_noOp]; omega
            · exact h
          have hev : evaluate env true (g + 1) op ((x, o') :: rest') =
              (evalTree env op rt).map (fun v => (v, o'', rest'')) := by
            rw [hcc]
            simp only [evaluateT, hinner, Option.bind]
            exact fin_bin env rt o'' rest'' hbin op
          have hevT : evaluateT (g + 1) op ((x, o') :: rest') = some (rt, o'', rest'') := by
            simp only [evaluateT, hinner]
          rw [loopT_rec (g + 1) prev t op x o' rest' rt o'' rest'' hop hge hevT]
          by_cases hcont : prev.rank < o''.rank
          · have hb := hB prev (.bin op t rt) o'' rest'' _ (by omega) hwf''
              (by simp [closedFor]; omega) (Or.inr hcont) rfl
            simp only [hcont, if_true]
            rw [← hb]
            simp only [evalTree, hlo]
            cases lo with
            | none => rfl
            | some left =>
              simp only [Option.bind]
              rw [loop_rec env (g + 1) prev left op x o' rest' hop hge, hev]
              cases evalTree env op rt with
              | none => rfl
              | some right =>
                simp only [Option.map]
                cases hap : applyOp env op left right <;> simp [hcont]
          · simp only [hcont, if_false, Option.bind]
            rw [fin_bin env _ _ _ rfl op]
            simp only [evalTree, hlo]
            cases lo with
            | none => rfl
            | some left =>
              simp only []
              rw [loop_rec env (g + 1) prev left op x o' rest' hop hge, hev]
              cases evalTree env op rt with
              | none => rfl
              | some right =>
                simp only [Option.map]
                cases hap : applyOp env op left right <;> simp [hcont]

theorem stAll (env : Env R) : ∀ f, StA env f ∧ StB env f ∧ StC env f := by
  intro f
  induction f with
  | zero =>
    refine ⟨?_, ?_, ?_⟩
    · intro x ctx io _ h; omega
    · intro prev t op rest lo h; omega
    · intro prev x o rest h
      have : sizeItems ((x, o) :: rest) = x.size + 1 + sizeItems rest := by simp [sizeItems]
      omega
  | succ f ih =>
    exact ⟨stA_succ env f ih.2.2, stB_succ env f ih.1 ih.2.1 ih.2.2, stC_succ env f ih.1 ih.2.1⟩

/-- Main theorem (C04): for every well-formed flat list, of any length and nesting, the value
computed by the (repaired) `evaluate` recursion is the value of the precedence tree. -/
theorem evaluateTop_eq_tree (env : Env R) (items : List (Item R)) (hwf : wfItems items = true) :
    evaluateTop env true items = evalTop env (climb items) := by
  cases items with
  | nil => simp [wfItems] at hwf
  | cons it rest =>
    obtain ⟨x, o⟩ := it
    simp only [wfItems, Bool.and_eq_true] at hwf
    have hsz : sizeItems ((x, o) :: rest) = x.size + 1 + sizeItems rest := by simp [sizeItems]
    have hp : o = .noOp ∨ Op.noOp.rank < o.rank := by
      by_cases h : o = .noOp
      · exact Or.inl h
      · right; rw [rank_noOp]; exact rank_pos _ h
    have hc := (stAll env (fuelFor ((x, o) :: rest))).2.2 .noOp x o rest
      (by unfold fuelFor; omega) hwf.1 hwf.2 hp
    have hT : loopT (2 * sizeItems ((x, o) :: rest) + 1) .noOp (climbOperand x) o rest =
        some (run .noOp (climbOperand x) o rest) :=
      loopT_eq_run _ .noOp _ o rest (by omega) hwf.2 (closedFor_climbOperand _ _) hp
    rw [run_noOp_wf _ _ _ hwf.2] at hT
    unfold evaluateTop
    rw [hc]
    simp only [fuelFor, evaluateT, hT, climb, evalTop, Option.bind, fin]
    cases hv : evalTree env .noOp (climbGo (climbOperand x) o rest) with
    | none => simp
    | some v => cases hvt : v.isText <;> simp [notText, hvt]

end Qentem.Expr
