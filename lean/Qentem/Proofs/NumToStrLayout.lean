import Qentem.Proofs.NumToStrReduce
import Qentem.Proofs.NumToStrIntClass
/-! C10 helper: digit strings split at a decimal position; `formatStringNumberFixed` on an exact
digit run that needs no rounding (`0 < fl ≤ precision`); the bit-pattern bridges
(`realToString_finite64`, `format64_finite`); and the class theorem `short_fraction64`:
doubles with `k` binary fraction digits, `0 < k ≤ precision`, print the reference text in Fixed and
SemiFixed. -/
set_option linter.unusedSimpArgs false
set_option linter.unusedVariables false
namespace Qentem.Proofs.NumToStr
open Qentem.NumToStr Qentem.Generated.NumToStr Qentem

/-! ### digit strings: splitting `D b` at a decimal position -/

theorem D_split {b k : Nat} (h : 10 ^ k ≤ b) : D b = D (b / 10 ^ k) ++ Dk k (b % 10 ^ k) := by
  have hq : 0 < b / 10 ^ k := Nat.div_pos h (Nat.pow_pos (by decide))
  have hr : b % 10 ^ k < 10 ^ k := Nat.mod_lt _ (Nat.pow_pos (by decide))
  conv_lhs => rw [← Nat.div_add_mod b (10 ^ k), Nat.mul_comm]
  exact D_mul_pow_add k _ _ hq hr

theorem D_length_gt {b k : Nat} (h : 10 ^ k ≤ b) : k < (D b).length := by
  rw [D_split h, List.length_append, Dk_length]
  have := List.length_pos_iff.mpr (D_ne_nil (b / 10 ^ k))
  omega

theorem D_length_le_iff {b k : Nat} (hk : 0 < k) : (D b).length ≤ k ↔ b < 10 ^ k := by
  constructor
  · intro h; by_contra hcon
    have := D_length_gt (Nat.le_of_not_lt hcon); omega
  · exact D_length_le b k hk

theorem D_take {b k : Nat} (h : 10 ^ k ≤ b) : (D b).take ((D b).length - k) = D (b / 10 ^ k) := by
  have hs := D_split h
  have hl : (D b).length - k = (D (b / 10 ^ k)).length := by
    rw [hs, List.length_append, Dk_length]; omega
  rw [hl]; conv_lhs => rw [hs]
  exact List.take_left' rfl

theorem D_drop {b k : Nat} (h : 10 ^ k ≤ b) : (D b).drop ((D b).length - k) = Dk k (b % 10 ^ k) := by
  have hs := D_split h
  have hl : (D b).length - k = (D (b / 10 ^ k)).length := by
    rw [hs, List.length_append, Dk_length]; omega
  rw [hl]; conv_lhs => rw [hs]
  exact List.drop_left' rfl

theorem Dk_mul_pow (k t x : Nat) : Dk (k + t) (x * 10 ^ t) = Dk k x ++ List.replicate t 48 := by
  induction t with
  | zero => simp
  | succ t ih =>
    have e1 : x * 10 ^ (t + 1) / 10 = x * 10 ^ t := by
      rw [Nat.pow_succ, ← Nat.mul_assoc, Nat.mul_div_cancel _ (by decide)]
    have e2 : x * 10 ^ (t + 1) % 10 = 0 := by
      rw [Nat.pow_succ, ← Nat.mul_assoc]; exact Nat.mul_mod_left _ _
    rw [← Nat.add_assoc, Dk, e1, e2, ih, List.replicate_succ']
    simp

theorem padLeft_D {p y : Nat} (hp : 0 < p) (hy : y < 10 ^ p) : FmtSpec.padLeft p (D y) = Dk p y := by
  rw [Dk_eq_pad p y hy hp]; rfl

/-! ### `%.{p}f` of a value with a finite decimal expansion of `fl ≤ p` fractional digits -/

/-- reference side: `v = b / 10^fl` exactly -/
theorem fixedBody_exact {num den b fl p : Nat} (hd : 0 < den) (hex : num * 10 ^ fl = b * den) (hfl : fl ≤ p) (hp : 0 < p) :
    FmtSpec.fixedBody num den p =
      D (b / 10 ^ fl) ++ 46 :: (Dk fl (b % 10 ^ fl) ++ List.replicate (p - fl) 48) := by
  have h10 : 0 < 10 ^ (p - fl) := Nat.pow_pos (by decide)
  have hpp : 10 ^ p = 10 ^ fl * 10 ^ (p - fl) := by rw [← Nat.pow_add]; congr 1; omega
  have e : num * 10 ^ p = (b * 10 ^ (p - fl)) * den := by
    rw [hpp, ← Nat.mul_assoc, hex]; ring
  have hq : b * 10 ^ (p - fl) / 10 ^ p = b / 10 ^ fl := by
    rw [hpp, Nat.mul_div_mul_right _ _ h10]
  have hr : b * 10 ^ (p - fl) % 10 ^ p = (b % 10 ^ fl) * 10 ^ (p - fl) := by
    rw [hpp, Nat.mul_mod_mul_right]
  have hlt : (b % 10 ^ fl) * 10 ^ (p - fl) < 10 ^ p := by
    rw [hpp]; exact Nat.mul_lt_mul_of_pos_right (Nat.mod_lt _ (Nat.pow_pos (by decide))) h10
  unfold FmtSpec.fixedBody
  simp only [e, roundHalfEven_mul _ hd, hq, hr, show ¬ (p = 0) by omega, if_false, FmtSpec.cDot]
  have hpd : FmtSpec.padLeft p (FmtSpec.digitsOf (b % 10 ^ fl * 10 ^ (p - fl))) = Dk p (b % 10 ^ fl * 10 ^ (p - fl)) :=
    padLeft_D hp hlt
  rw [hpd]
  have := Dk_mul_pow fl (p - fl) (b % 10 ^ fl)
  rw [show fl + (p - fl) = p by omega] at this
  rw [this]

theorem reverse_insert (l : List Nat) (k c : Nat) (hk : k ≤ l.length) :
    (l.reverse.take k ++ c :: l.reverse.drop k).reverse = l.take (l.length - k) ++ c :: l.drop (l.length - k) := by
  rw [List.reverse_append, List.reverse_cons, List.append_assoc]
  have h1 : (l.reverse.drop k).reverse = l.take (l.length - k) := by
    rw [List.drop_reverse, List.reverse_reverse]
  have h2 : (l.reverse.take k).reverse = l.drop (l.length - k) := by
    rw [List.take_reverse, List.reverse_reverse]
  rw [h1, h2]; simp

theorem finishNumber_start (s t : List Nat) : finishNumber s.length (s ++ t) s.length = .ok (s ++ t.reverse) := by
  unfold finishNumber
  simp only [csub, Nat.le_refl, if_true, Nat.sub_self, pure_bind, reverseFrom_append]
  simp [stepBack, pure, Except.pure]
  exact List.take_of_length_le (by simp)

theorem zerosLarge_ok {n : Nat} (h : n ≤ 1048576) : zerosLarge n = .ok (List.replicate n 48) := by
  simp [zerosLarge, h, Ch.zero, pure, Except.pure]

/-- model side: `formatStringNumberFixed` on an exact digit run with `0 < fl ≤ p` fractional digits -/
theorem formatFixed_exact (fixedT : Bool) (s : List Nat) {b fl p : Nat} (hb : 0 < b) (hfl0 : 0 < fl) (hfl : fl ≤ p)
    (hp : p ≤ 1048576) :
    formatFixed fixedT s.length (s ++ (D b).reverse) p fl false =
      .ok (s ++ D (b / 10 ^ fl) ++ 46 :: (Dk fl (b % 10 ^ fl) ++ (if fixedT then List.replicate (p - fl) 48 else []))) := by
  have hL : 0 < (D b).length := List.length_pos_iff.mpr (D_ne_nil b)
  have h8 : csub 8 (s ++ (D b).reverse).length s.length = .ok (D b).length := by simp [csub, pure, Except.pure]
  have hz : zerosLarge (p - fl) = .ok (List.replicate (p - fl) 48) := zerosLarge_ok (by omega)
  unfold formatFixed
  rw [h8]
  simp only [ok_bind, pure_bind, ne_eq, show ¬ (fl = 0) by omega, not_false_eq_true, if_true, fixedRound,
    show ¬ (p < fl) by omega, if_false]
  by_cases hlen : (D b).length ≤ fl
  · -- fraction only: 0.000ddd
    have hblt : b < 10 ^ fl := (D_length_le_iff hfl0).mp hlen
    have hdiff : (if (D b).length < fl then fl - (D b).length else 0) = fl - (D b).length := by split <;> omega
    have hdle : fl - (D b).length ≤ p := by omega
    simp only [hdiff, hdle, if_true, ok_bind]
    have hff : fixedFraction s.length (s ++ (D b).reverse) s.length (D b).length fl (fl - (D b).length) false =
        .ok (s ++ ((D b).reverse ++ List.replicate (fl - (D b).length) 48 ++ [46, 48]), s.length) := by
      unfold fixedFraction
      have hlt : s.length < (s ++ (D b).reverse).length := by simp; omega
      simp only [hlen, if_true, hlt, true_or, Bool.false_eq_true, if_false, csub, Nat.sub_zero, Nat.zero_le, pure_bind,
        Bool.not_false]
      by_cases hd0 : fl - (D b).length = 0
      · simp [hd0, Ch.dot, Ch.zero, pure, Except.pure]
      · simp only [hd0, ne_eq, not_false_eq_true, if_true, zerosLarge_ok (by omega : fl - (D b).length ≤ 1048576), ok_bind]
        simp [Ch.dot, Ch.zero, pure, Except.pure]
    rw [hff, ok_bind]
    simp only []
    rw [finishNumber_start, ok_bind]
    have hq : b / 10 ^ fl = 0 := Nat.div_eq_of_lt hblt
    have hr : b % 10 ^ fl = b := Nat.mod_eq_of_lt hblt
    have hD0 : D 0 = [48] := by decide
    have hDk : Dk fl b = List.replicate (fl - (D b).length) 48 ++ D b := Dk_eq_pad fl b hblt hfl0
    rw [hq, hr, hD0, hDk]
    cases fixedT
    · simp [pure, Except.pure]
    · simp only [if_true, fixedPad]
      have hp0 : ¬ (p = 0) := by omega
      have hc1 : ¬ (s.length + fl = s.length ∨
          (s ++ ((D b).reverse ++ List.replicate (fl - (D b).length) 48 ++ [46, 48]).reverse).length - s.length = 1 ∨
          (!decide ((D b).length ≤ fl)) = true ∧ false = true) := by
        simp; omega
      simp only [hp0, if_false, hc1, decide_eq_true_eq, hlen, if_true]
      have hlen2 : (s ++ ((D b).reverse ++ List.replicate (fl - (D b).length) 48 ++ [46, 48]).reverse).length = s.length + 2 + fl := by
        simp; omega
      simp only [hlen2, csub, show s.length + 2 ≤ s.length + 2 + fl by omega, if_true, pure_bind,
        show s.length + 2 + fl - (s.length + 2) = fl by omega, hfl, hz, ok_bind]
      simp [pure, Except.pure]
      intro h; omega
  · have hge : 10 ^ fl ≤ b := by
      by_contra hcon
      exact hlen ((D_length_le_iff hfl0).mpr (by omega))
    have hdiff : (if (D b).length < fl then fl - (D b).length else 0) = 0 := by split <;> omega
    simp only [hdiff, Nat.zero_le, if_true, ok_bind]
    have hff : fixedFraction s.length (s ++ (D b).reverse) s.length (D b).length fl 0 false =
        .ok (s ++ ((D b).reverse.take fl ++ 46 :: (D b).reverse.drop fl), s.length) := by
      unfold fixedFraction
      have hlt : s.length + fl < (s ++ (D b).reverse).length := by simp; omega
      simp only [hlen, if_false, show s.length < s.length + fl by omega, if_true, insertAt, Nat.lt_irrefl,
        show ¬ (s.length + fl < s.length) by omega, hlt, pure_bind, ok_bind]
      simp [List.take_append, List.drop_append, Ch.dot, pure, Except.pure]
      rw [List.take_of_length_le (by omega), List.drop_of_length_le (by omega)]; simp
    rw [hff, ok_bind]
    simp only []
    rw [finishNumber_start, ok_bind, reverse_insert _ _ _ (by omega), D_take hge, D_drop hge]
    cases fixedT
    · simp [pure, Except.pure]
    · simp only [if_true, fixedPad]
      have hp0 : ¬ (p = 0) := by omega
      simp only [hp0, if_false]
      have hlen2 : (s ++ (D (b / 10 ^ fl) ++ 46 :: Dk fl (b % 10 ^ fl))).length - s.length = (D (b / 10 ^ fl)).length + 1 + fl := by
        simp [Dk_length]; omega
      have hqpos : 0 < (D (b / 10 ^ fl)).length := List.length_pos_iff.mpr (D_ne_nil _)
      have hc1 : ¬ (s.length + fl = s.length ∨ (s ++ (D (b / 10 ^ fl) ++ 46 :: Dk fl (b % 10 ^ fl))).length - s.length = 1 ∨
          (!decide ((D b).length ≤ fl)) = true ∧ false = true) := by
        rw [hlen2]; simp; omega
      rw [if_neg hc1]
      simp only [decide_eq_true_eq, hlen, if_false, csub, show s.length + fl - s.length = fl by omega, hfl, if_true, pure_bind,
        hz, ok_bind]
      simp [pure, Except.pure]


/-- stripping the padding zeros of `%.{p}f` when the last kept fractional digit is not zero -/
theorem stripFraction_exact (A : List Nat) (k x t : Nat) (hx : x % 10 ≠ 0) :
    FmtSpec.stripFraction (A ++ 46 :: (Dk (k + 1) x ++ List.replicate t 48)) = A ++ 46 :: Dk (k + 1) x := by
  unfold FmtSpec.stripFraction
  have hc : (A ++ 46 :: (Dk (k + 1) x ++ List.replicate t 48)).contains FmtSpec.cDot = true := by simp [FmtSpec.cDot]
  rw [if_pos hc]
  have hrev : (A ++ 46 :: (Dk (k + 1) x ++ List.replicate t 48)).reverse =
      List.replicate t 48 ++ ((48 + x % 10) :: ((Dk k (x / 10)).reverse ++ 46 :: A.reverse)) := by
    simp [Dk, List.reverse_append, List.reverse_replicate]
  rw [hrev, dropWhile_replicate_append]
  have hne : ((48 + x % 10) == FmtSpec.cZero) = false := by simp [FmtSpec.cZero]; omega
  have hnd : ((48 + x % 10) == FmtSpec.cDot) = false := by simp [FmtSpec.cDot]; omega
  simp only [List.dropWhile, hne, hnd, Bool.false_eq_true, if_false]
  simp [Dk, List.reverse_append]

/-! ### from bit patterns to `realFinite` -/

theorem realToString_finite64 (pre : List Nat) (bits p f : Nat)
    (hfin : (bits / 2 ^ 52) % 2 ^ 11 ≠ 2 ^ 11 - 1)
    (hnz : (bits / 2 ^ 52) % 2 ^ 11 ≠ 0 ∨ bits % 2 ^ 52 ≠ 0) :
    realToString f64 pre bits p f =
      realFinite f64 (if bits / 2 ^ 63 % 2 = 1 then pre ++ [45] else pre) (bits % 2 ^ 52)
        ((bits / 2 ^ 52) % 2 ^ 11 * 2 ^ 52) (if f = fmtDefault ∧ p = 0 then 1 else p) f := by
  obtain ⟨h1, h2, h3⟩ := fields64 bits
  have hx : f64.exponentMask = 9218868437227405312 := rfl
  have hy : f64.mantissaMask = 4503599627370495 := rfl
  have hz : f64.signMask = 9223372036854775808 := rfl
  have hpw : (2:Nat) ^ 52 = 4503599627370496 := by norm_num
  have hlt : (bits / 2 ^ 52) % 2 ^ 11 < 2 ^ 11 := Nat.mod_lt _ (by norm_num)
  have hne : ¬ ((bits / 2 ^ 52) % 2 ^ 11 * 2 ^ 52 = 9218868437227405312) := by
    generalize (bits / 2 ^ 52) % 2 ^ 11 = E at *
    rw [hpw]; omega
  have hnz' : bits % 2 ^ 52 ≠ 0 ∨ (bits / 2 ^ 52) % 2 ^ 11 * 2 ^ 52 ≠ 0 := by
    rcases hnz with h | h
    · right; generalize (bits / 2 ^ 52) % 2 ^ 11 = E at *; rw [hpw]; omega
    · left; exact h
  unfold realToString
  simp only [hx, hy, hz, h1, h2, h3, hne, hnz', ne_eq, not_false_eq_true, if_true]
  by_cases hs : bits / 2 ^ 63 % 2 = 1
  · have hs' : ¬ (bits / 2 ^ 63 % 2 * 2 ^ 63 = 0) := by rw [hs]; norm_num
    simp only [hs, if_true, Ch.negative]
    norm_num
  · have hs0 : bits / 2 ^ 63 % 2 = 0 := by omega
    simp only [hs0, Nat.zero_mul, not_true_eq_false, if_false, show ¬ ((0:Nat) = 1) by decide]

theorem format64_finite (bits p : Nat) (fmt : FmtSpec.Fmt) {neg : Bool} {num den : Nat}
    (h : FmtSpec.decode64 bits = .fin neg num den) :
    FmtSpec.format64 bits p fmt = FmtSpec.signed neg (match fmt with
      | .default => FmtSpec.generalBody num den p
      | .fixed => FmtSpec.fixedBody num den p
      | .semiFixed => FmtSpec.stripFraction (FmtSpec.fixedBody num den p)) := by
  unfold FmtSpec.format64 FmtSpec.formatVal; rw [h]
  cases fmt <;> rfl

/-! ### values with a short binary fraction -/

/-- number of binary fraction digits of the value (0 for integers) -/
def fracBits (M B f e : Nat) : Nat :=
  let j := findFirstBit (mant M f e)
  if B ≤ e then (M - j) - (e - B) else (M - j) + (B - e)

/-- `runSpec` and `runDrop` with an explicit statement of exactness against the decoded value -/
theorem runSpec_exact_decode {M X : Nat} (hM : 0 < M) (hM2 : M < 63) (hX : 2 ≤ X) (bits p fmt : Nat)
    (hfin : (bits / 2 ^ M) % 2 ^ X ≠ 2 ^ X - 1)
    (hnz : (bits / 2 ^ M) % 2 ^ X ≠ 0 ∨ bits % 2 ^ M ≠ 0) :
    ∃ num den, 0 < den ∧
      FmtSpec.decode M X bits = .fin (decide ((bits / 2 ^ (M + X)) % 2 = 1)) num den ∧
      (let r := runSpec M (2 ^ (X - 1) - 1) (bits % 2 ^ M) ((bits / 2 ^ M) % 2 ^ X) p fmt
       let d := runDrop M (2 ^ (X - 1) - 1) (bits % 2 ^ M) ((bits / 2 ^ M) % 2 ^ X) p fmt
       r.1 = num * 10 ^ r.2.2.1 / (den * 10 ^ d) ∧
       (r.2.2.2.2 = true ↔ (num * 10 ^ r.2.2.1) % (den * 10 ^ d) ≠ 0)) := by
  obtain ⟨k, num, den, hk, hden, hdec, hvn, hvd⟩ := decode_val (bits := bits) hM hX hfin
  have hf : bits % 2 ^ M < 2 ^ M := Nat.mod_lt _ (Nat.two_pow_pos M)
  have hex := runSpec_exact (B := 2 ^ (X - 1) - 1) (p := p) (fmt := fmt) hM2 hf hnz
  rw [hvn, hvd] at hex
  refine ⟨num, den, hden, hdec, ?_⟩
  intro r d
  obtain ⟨_, h2, h3⟩ := hex
  obtain ⟨s1, s2⟩ := scale_floor (a := num) (b := den) (t := 10 ^ r.2.2.1) (u := 10 ^ d) hk
  exact ⟨by rw [← s1]; exact h2, by rw [← s2]; exact h3⟩

/-- on a value with `0 < fracBits ≤ p` the fixed formats take the fraction block without any cut -/
theorem runSpec_short {M B f e p fmt : Nat} (hfmt : fmt = 1 ∨ fmt = 2)
    (h0 : 0 < fracBits M B f e) (hle : fracBits M B f e ≤ p) :
    runSpec M B f e p fmt =
      (mant M f e / 2 ^ findFirstBit (mant M f e) * 5 ^ fracBits M B f e,
       estDigits M (findFirstBit (mant M f e)) (if B ≤ e then e - B else B - e) e,
       fracBits M B f e, decide (B ≤ e), false) ∧
    runDrop M B f e p fmt = 0 := by
  have hfix : (decide (fmt = fmtSemiFixed) || decide (fmt = fmtFixed)) = true := by
    rcases hfmt with rfl | rfl <;> decide
  simp only [runSpec, runDrop, fracBits, hfix, Bool.not_true, Bool.and_false, Bool.or_false] at *
  generalize findFirstBit (mant M f e) = j at *
  by_cases hpos : B ≤ e
  · simp only [hpos, if_true, decide_true, Bool.true_and] at *
    have hnb : ¬ (M - j ≤ e - B) := by omega
    simp only [hnb, decide_false, Bool.false_eq_true, if_false]
    have e1 : fracLen (M - j - (e - B)) p = M - j - (e - B) := by unfold fracLen; split <;> omega
    have e2 : fracShift (M - j - (e - B)) p = 0 := by unfold fracShift; split <;> omega
    have e3 : ¬ (p + 1 < M - j - (e - B)) := by omega
    simp [e1, e2, e3]
  · simp only [hpos, if_false, decide_false, Bool.false_and, Bool.false_eq_true] at *
    generalize estDigits M j (B - e) e = dg
    have e1 : fracLen (M - j + (B - e)) (dg + p) = M - j + (B - e) := by unfold fracLen; split <;> omega
    have e2 : fracShift (M - j + (B - e)) (dg + p) = 0 := by unfold fracShift; split <;> omega
    have e3 : ¬ (dg + p + 1 < M - j + (B - e)) := by omega
    simp [e1, e2, e3]

theorem odd5_mod10 {x : Nat} (h2 : x % 2 = 1) (h5 : x % 5 = 0) : x % 10 = 5 := by omega

/-- **short binary fractions, Fixed and SemiFixed** (doubles): when the value has `k` binary fraction digits,
`0 < k ≤ p`, its decimal expansion is finite with `k` digits, nothing is rounded, and the model prints
exactly the reference text. -/
theorem short_fraction64 (pre : List Nat) (bits p f : Nat) (hf12 : f = 1 ∨ f = 2) (hp : p ≤ 40)
    (hfin : (bits / 2 ^ 52) % 2 ^ 11 ≠ 2 ^ 11 - 1)
    (h0 : 0 < fracBits 52 1023 (bits % 2 ^ 52) ((bits / 2 ^ 52) % 2 ^ 11))
    (hle : fracBits 52 1023 (bits % 2 ^ 52) ((bits / 2 ^ 52) % 2 ^ 11) ≤ p) :
    realToString f64 pre bits p f = .ok (pre ++ FmtSpec.format64 bits p (fmtOf f)) := by
  have hnz : (bits / 2 ^ 52) % 2 ^ 11 ≠ 0 ∨ bits % 2 ^ 52 ≠ 0 := by
    by_contra hcon
    simp only [not_or, ne_eq, not_not] at hcon
    rw [hcon.1, hcon.2] at hle
    have : fracBits 52 1023 0 0 = 1023 := by decide
    omega
  have hfl : bits % 2 ^ 52 < 2 ^ 52 := Nat.mod_lt _ (by norm_num)
  have hel : (bits / 2 ^ 52) % 2 ^ 11 ≤ 2 * 1023 := by
    have := Nat.mod_lt (bits / 2 ^ 52) (show 0 < 2 ^ 11 by norm_num); omega
  have hf0 : ¬ (f = fmtDefault ∧ p = 0) := by rcases hf12 with rfl | rfl <;> simp [fmtDefault]
  obtain ⟨num, den, hden, hdec, hex⟩ := runSpec_exact_decode (M := 52) (X := 11) (by decide) (by decide) (by decide)
    bits p f hfin hnz
  obtain ⟨hrs, hrd⟩ := runSpec_short (M := 52) (B := 1023) (p := p) hf12 h0 hle
  have hB : (2:Nat) ^ (11 - 1) - 1 = 1023 := by norm_num
  rw [hB] at hex
  simp only [hrs, hrd, Nat.pow_zero, Nat.mul_one, Bool.false_eq_true, false_iff, ne_eq, not_not] at hex
  obtain ⟨hb, hrem⟩ := hex
  generalize hfb : fracBits 52 1023 (bits % 2 ^ 52) ((bits / 2 ^ 52) % 2 ^ 11) = fl at *
  have hmm := findFirstBit_mant (M := 52) (by decide) (mant_pos (M := 52) hnz) (mant_lt (e := (bits / 2 ^ 52) % 2 ^ 11) hfl)
  generalize hmo : mant 52 (bits % 2 ^ 52) ((bits / 2 ^ 52) % 2 ^ 11) /
      2 ^ findFirstBit (mant 52 (bits % 2 ^ 52) ((bits / 2 ^ 52) % 2 ^ 11)) = mo at *
  have hbpos : 0 < mo * 5 ^ fl := Nat.mul_pos (by omega) (Nat.pow_pos (by decide))
  have hexact : num * 10 ^ fl = mo * 5 ^ fl * den := by
    rw [hb]; exact (Nat.div_mul_cancel (Nat.dvd_of_mod_eq_zero hrem)).symm
  have hb10 : (mo * 5 ^ fl) % 10 = 5 := by
    apply odd5_mod10 (odd_mul_odd hmm.2.2 (pow5_odd fl))
    obtain ⟨k, rfl⟩ := Nat.exists_eq_succ_of_ne_zero (by omega : fl ≠ 0)
    rw [Nat.pow_succ, ← Nat.mul_assoc]; exact Nat.mul_mod_left _ _
  rw [realToString_finite64 pre bits p f hfin hnz, if_neg hf0,
    realFinite_reduce shape64 _ hfl hel hnz hp, hrs]
  have hR : R (mo * 5 ^ fl) = (D (mo * 5 ^ fl)).reverse := by simp [R]; omega
  unfold layout
  simp only [hR]
  have hdec64 : FmtSpec.decode64 bits = .fin (decide (bits / 2 ^ 63 % 2 = 1)) num den := hdec
  have hbody := fixedBody_exact (p := p) hden hexact hle (by omega)
  obtain ⟨k, hk⟩ := Nat.exists_eq_succ_of_ne_zero (by omega : fl ≠ 0)
  have hxm : (mo * 5 ^ fl % 10 ^ fl) % 10 ≠ 0 := by
    rw [Nat.mod_mod_of_dvd _ (by rw [hk, Nat.pow_succ]; exact Nat.dvd_mul_left _ _), hb10]; decide
  rcases hf12 with rfl | rfl
  · have e1 : ¬ (1 = fmtSemiFixed) := by decide
    have e2 : (1 = fmtFixed) := by decide
    have e3 : fmtOf 1 = .fixed := by decide
    rw [if_neg e1, if_pos e2, formatFixed_exact true _ hbpos h0 hle (by omega), e3, format64_finite bits p _ hdec64]
    simp only [hbody, if_true]
    by_cases hs : bits / 9223372036854775808 % 2 = 1 <;> simp [hs, FmtSpec.signed, FmtSpec.cMinus]
  · have e1 : (2 = fmtSemiFixed) := by decide
    have e3 : fmtOf 2 = .semiFixed := by decide
    rw [if_pos e1, formatFixed_exact false _ hbpos h0 hle (by omega), e3, format64_finite bits p _ hdec64]
    simp only [hbody, hk, stripFraction_exact _ _ _ _ (hk ▸ hxm)]
    by_cases hs : bits / 9223372036854775808 % 2 = 1 <;> simp [hs, FmtSpec.signed, FmtSpec.cMinus]

end Qentem.Proofs.NumToStr
