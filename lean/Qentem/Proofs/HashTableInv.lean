import Qentem.Proofs.HashTableChain
import Qentem.Model.HashTableSpec
/-!
The representation invariant of the hash table and what `find` returns under it.
-/
namespace Qentem.HashTable
variable {V : Type}

/-- `ch b` is the chain of bucket `b`, for every bucket. -/
structure ChainsOK (s : HT V) (ch : Nat → List Nat) : Prop where
  chain : ∀ b, b < s.cap → Chain (getLink s) (.head b) (ch b)
  nodup : ∀ b, b < s.cap → (ch b).Nodup
  /-- an item sits on the chain of the bucket its stored hash selects (a removed item that is still
  chained after `Sort` has hash 0, hence bucket 0) -/
  bucket : ∀ b, b < s.cap → ∀ j ∈ ch b, ∃ it : Item V, s.items[j]? = some it ∧ it.hash &&& (s.cap - 1) = b
  /-- every live item is on its chain -/
  complete : ∀ (j : Nat) (it : Item V), s.items[j]? = some it → it.hash ≠ 0 → j ∈ ch (it.hash &&& (s.cap - 1))

/-- The representation invariant, for a hash function `H`. -/
structure Inv (H : List Nat → Nat) (s : HT V) : Prop where
  cap_pow : s.cap = 0 ∨ ∃ k, s.cap = 2 ^ k
  heads_size : s.heads.size = s.cap
  size_le : s.items.size ≤ s.cap
  hash_ok : ∀ (j : Nat) (it : Item V), s.items[j]? = some it → it.hash ≠ 0 → it.hash = H it.key
  distinct : s.items.toList.Pairwise (fun a b => a.hash ≠ 0 → b.hash ≠ 0 → a.key ≠ b.key)
  dead_key : ∀ (j : Nat) (it : Item V), s.items[j]? = some it → it.hash = 0 → it.key = []
  chains : ∃ ch, ChainsOK s ch

theorem bucket_lt {c k : Nat} (h : Nat) (hc : c = 2 ^ k) : h &&& (c - 1) < c := by
  subst hc
  rw [Nat.and_two_pow_sub_one_eq_mod]
  exact Nat.mod_lt _ (Nat.two_pow_pos k)

theorem Inv.distinct_idx {H : List Nat → Nat} {s : HT V} (hI : Inv H s) {i j : Nat} {a b : Item V}
    (ha : s.items[i]? = some a) (hb : s.items[j]? = some b) (hla : a.hash ≠ 0) (hlb : b.hash ≠ 0)
    (hk : a.key = b.key) : i = j := by
  have hp := List.pairwise_iff_getElem.mp hI.distinct
  simp only [Array.getElem_toList, Array.length_toList] at hp
  rw [Array.getElem?_eq_some_iff] at ha hb
  obtain ⟨hi, rfl⟩ := ha
  obtain ⟨hj, rfl⟩ := hb
  rcases Nat.lt_trichotomy i j with h | h | h
  · exact absurd hk (hp i j hi hj h hla hlb)
  · exact h
  · exact absurd hk.symm (hp j i hj hi h hlb hla)

/-! ### `getLink` after the elementary updates -/

theorem getLink_setLink_self {s : HT V} {l : Link} {w v : Nat} (h : getLink s l = some w) :
    getLink (setLink s l v) l = some v := by
  cases l with
  | head b =>
    simp only [getLink] at h
    have hb : b < s.heads.size := by
      by_contra hcon
      rw [Array.getElem?_eq_none (by omega)] at h; cases h
    simp [getLink, setLink, hb]
  | next i =>
    simp only [getLink, Option.map_eq_some_iff] at h
    obtain ⟨it, hit, _⟩ := h
    simp [getLink, setLink, Array.getElem?_modify, hit]

theorem getLink_setLink_ne {s : HT V} {l l' : Link} {v : Nat} (h : l' ≠ l) :
    getLink (setLink s l v) l' = getLink s l' := by
  cases l with
  | head b =>
    cases l' with
    | head b' =>
      have : b ≠ b' := fun e => h (by rw [e])
      simp [getLink, setLink, this]
    | next i' => simp [getLink, setLink]
  | next i =>
    cases l' with
    | head b' => simp [getLink, setLink]
    | next i' =>
      have : i ≠ i' := fun e => h (by rw [e])
      simp [getLink, setLink, Array.getElem?_modify, this]

/-- `setLink` touches only `Next` fields. -/
theorem setLink_items {s : HT V} {l : Link} {v : Nat} (j : Nat) :
    (setLink s l v).items[j]? =
      (s.items[j]?).map (fun it => { it with next := if l = .next j then v else it.next }) := by
  cases l with
  | head b => simp [setLink]
  | next i =>
    by_cases hij : i = j
    · subst hij; simp [setLink, Array.getElem?_modify]
    · have : ¬ (Link.next i = Link.next j) := fun e => hij (by injection e)
      simp [setLink, Array.getElem?_modify, hij, this]

@[simp] theorem setLink_cap {s : HT V} {l : Link} {v : Nat} : (setLink s l v).cap = s.cap := by
  cases l <;> rfl

@[simp] theorem setLink_size {s : HT V} {l : Link} {v : Nat} : (setLink s l v).items.size = s.items.size := by
  cases l <;> simp [setLink]

@[simp] theorem setLink_heads_size {s : HT V} {l : Link} {v : Nat} : (setLink s l v).heads.size = s.heads.size := by
  cases l <;> simp [setLink]

/-! ### What `find` returns under the invariant -/

theorem chain_length_lt {s : HT V} {ch : Nat → List Nat} (hc : ChainsOK s ch) {b : Nat} (hb : b < s.cap) :
    (ch b).length < s.size + 1 := by
  have : ∀ x ∈ ch b, x < s.items.size := by
    intro x hx
    obtain ⟨it, hit, _⟩ := hc.bucket b hb x hx
    exact (Array.getElem?_eq_some_iff.mp hit).1
  have := nodup_length_le (hc.nodup b hb) this
  simp only [HT.size]; omega

/-- A live item stored under `k` is found, through the link that points to it. -/
theorem find_some {H : List Nat → Nat} {s : HT V} {ch : Nat → List Nat} (hI : Inv H s) (hc : ChainsOK s ch)
    (hH : ∀ k, H k ≠ 0) {j : Nat} {it : Item V} (hit : s.items[j]? = some it) (hl : it.hash ≠ 0) :
    ∃ pre post, ch (H it.key &&& (s.cap - 1)) = pre ++ j :: post ∧
      find s it.key (H it.key) = some (lastLink (.head (H it.key &&& (s.cap - 1))) pre, some j) := by
  have hh := hI.hash_ok j it hit hl
  have hmem := hc.complete j it hit hl
  rw [hh] at hmem
  obtain ⟨pre, post, hsplit⟩ := List.append_of_mem hmem
  refine ⟨pre, post, hsplit, ?_⟩
  have hcap : ∃ k, s.cap = 2 ^ k := by
    rcases hI.cap_pow with h0 | hk
    · have := (Array.getElem?_eq_some_iff.mp hit).1
      have := hI.size_le; omega
    · exact hk
  obtain ⟨k, hk⟩ := hcap
  have hb : H it.key &&& (s.cap - 1) < s.cap := bucket_lt _ hk
  have hchain := hc.chain _ hb
  have hnd := hc.nodup _ hb
  rw [hsplit] at hchain hnd
  have hlen := chain_length_lt hc hb
  rw [hsplit] at hlen
  unfold find base
  refine findLoop_some hchain (by simp at hlen; omega) ?_ hit hh rfl
  intro i hi it' hit' ⟨h1, h2⟩
  have hl' : it'.hash ≠ 0 := by rw [h1]; exact hH _
  have : i = j := hI.distinct_idx hit' hit hl' hl h2
  subst this
  have := List.nodup_append.mp hnd
  exact this.2.2 i hi i (by simp) rfl

/-- A key that no live item carries is not found; `find` stops at the end of its bucket's chain. -/
theorem find_none {H : List Nat → Nat} {s : HT V} {ch : Nat → List Nat} (hc : ChainsOK s ch)
    (hH : ∀ k, H k ≠ 0) {key : List Nat} (hcap : ∃ k, s.cap = 2 ^ k)
    (hno : ∀ (j : Nat) (it : Item V), s.items[j]? = some it → it.hash ≠ 0 → it.key ≠ key) :
    find s key (H key) = some (lastLink (.head (H key &&& (s.cap - 1))) (ch (H key &&& (s.cap - 1))), none) := by
  obtain ⟨k, hk⟩ := hcap
  have hb : H key &&& (s.cap - 1) < s.cap := bucket_lt _ hk
  unfold find base
  refine findLoop_none (hc.chain _ hb) (chain_length_lt hc hb) ?_
  intro j _ it hit ⟨h1, h2⟩
  exact hno j it hit (by rw [h1]; exact hH _) h2

/-! ### Appending an item (`insert`) -/

/-- The part of an item the abstraction sees. -/
def stat (it : Item V) : List Nat × Nat × V := (it.key, it.hash, it.val)

def pushItem (t : HT V) (x : Item V) : HT V := { t with items := t.items.push x }

theorem getLink_pushItem_head {t : HT V} {x : Item V} (b : Nat) :
    getLink (pushItem t x) (.head b) = getLink t (.head b) := rfl

theorem getLink_pushItem_next {t : HT V} {x : Item V} (j : Nat) :
    getLink (pushItem t x) (.next j) = if j = t.items.size then some x.next else getLink t (.next j) := by
  simp only [getLink, pushItem, Array.getElem?_push]
  split <;> simp

theorem insertAt_eq {s : HT V} {l : Link} {key : List Nat} {hash : Nat} {v : V} (h : s.size < s.cap) :
    insertAt s l key hash v = some (pushItem (setLink s l (s.size + 1)) ⟨key, hash, 0, v⟩) := by
  simp [insertAt, h, pushItem]

theorem lastLink_head_cases (b : Nat) (c : List Nat) :
    lastLink (.head b) c = .head b ∧ c = [] ∨ ∃ x, x ∈ c ∧ lastLink (.head b) c = .next x := by
  cases hc : c.getLast? with
  | none => left; simp [lastLink, List.getLast?_eq_none_iff.mp hc]
  | some x => right; exact ⟨x, List.mem_of_getLast? hc, by simp [lastLink, hc]⟩

theorem insertAt_inv {H : List Nat → Nat} {s : HT V} {ch : Nat → List Nat} (hI : Inv H s) (hc : ChainsOK s ch)
    (hH : ∀ k, H k ≠ 0) {key : List Nat} {v : V} (hcap : ∃ k, s.cap = 2 ^ k) (hroom : s.size < s.cap)
    (hno : ∀ (j : Nat) (it : Item V), s.items[j]? = some it → it.hash ≠ 0 → it.key ≠ key) :
    Inv H (pushItem (setLink s (lastLink (.head (H key &&& (s.cap - 1))) (ch (H key &&& (s.cap - 1)))) (s.size + 1))
      ⟨key, H key, 0, v⟩) := by
  obtain ⟨k, hk⟩ := hcap
  set b := H key &&& (s.cap - 1) with hbdef
  set l := lastLink (.head b) (ch b) with hldef
  simp only [HT.size] at hroom ⊢
  set n := s.items.size with hn
  have hb : b < s.cap := bucket_lt _ hk
  have hl0 : getLink s l = some 0 := chain_last (hc.chain b hb)
  set s' := pushItem (setLink s l (n + 1)) ⟨key, H key, 0, v⟩ with hs'
  have hlt : ∀ b', b' < s.cap → ∀ x ∈ ch b', x < n := by
    intro b' hb' x hx
    obtain ⟨it, hit, _⟩ := hc.bucket b' hb' x hx
    exact (Array.getElem?_eq_some_iff.mp hit).1
  -- items of s'
  have hitems : ∀ j, s'.items[j]? = if j = n then some ⟨key, H key, 0, v⟩ else
      (s.items[j]?).map (fun it => { it with next := if l = .next j then n + 1 else it.next }) := by
    intro j
    simp only [hs', pushItem, Array.getElem?_push, setLink_size, setLink_items]
    rfl
  -- links of s'
  have hl_ne_n : l ≠ .next n := by
    rcases lastLink_head_cases b (ch b) with ⟨h, _⟩ | ⟨x, hx, h⟩
    · rw [← hldef] at h; rw [h]; simp
    · rw [← hldef] at h; rw [h]; intro e; have := hlt b hb x hx; injection e with e; omega
  have g1 : getLink s' l = some (n + 1) := by
    cases hl : l with
    | head b0 =>
      rw [hs', getLink_pushItem_head, ← hl]; exact getLink_setLink_self hl0
    | next x =>
      have hx : x ≠ n := fun e => hl_ne_n (by rw [hl, e])
      rw [hs', getLink_pushItem_next, setLink_size, if_neg hx, ← hl]; exact getLink_setLink_self hl0
  have g2 : getLink s' (.next n) = some 0 := by
    rw [hs', getLink_pushItem_next, setLink_size]; simp [hn]
  have g3 : ∀ l', l' ≠ l → l' ≠ .next n → getLink s' l' = getLink s l' := by
    intro l' h1 h2
    cases l' with
    | head b0 => rw [hs', getLink_pushItem_head]; exact getLink_setLink_ne h1
    | next x =>
      have hx : x ≠ n := fun e => h2 (by rw [e])
      rw [hs', getLink_pushItem_next, setLink_size, if_neg hx]; exact getLink_setLink_ne h1
  have hsize : s'.items.size = n + 1 := by simp [hs', pushItem, hn]
  have hcap' : s'.cap = s.cap := by simp [hs', pushItem]
  refine ⟨Or.inr ⟨k, by rw [hcap', hk]⟩, ?_, ?_, ?_, ?_, ?_, ?_⟩
  · simp [hs', pushItem, hI.heads_size]
  · rw [hsize, hcap']; exact hroom
  · intro j it hit hlive
    rw [hitems] at hit
    split at hit
    · cases hit; rfl
    · simp only [Option.map_eq_some_iff] at hit
      obtain ⟨it0, hit0, rfl⟩ := hit
      exact hI.hash_ok j it0 hit0 hlive
  · -- distinct
    have : s'.items.toList = (s.items.toList.map fun it => it) ++ [⟨key, H key, 0, v⟩] ∨ True := Or.inr trivial
    rw [List.pairwise_iff_getElem]
    intro i j hi hj hij ha hb' hkeq
    simp only [Array.length_toList] at hi hj
    have hi' := hitems i
    have hj' := hitems j
    rw [Array.getElem?_eq_getElem hi] at hi'
    rw [Array.getElem?_eq_getElem hj] at hj'
    simp only [Array.getElem_toList] at ha hb' hkeq
    have hin : i ≠ n := by omega
    rw [if_neg hin] at hi'
    obtain ⟨ai, hai, hai'⟩ := Option.map_eq_some_iff.mp hi'.symm
    rw [← hai'] at ha hkeq
    by_cases hjn : j = n
    · rw [if_pos hjn] at hj'
      have hj'' := Option.some.inj hj'
      rw [hj''] at hkeq
      exact hno i ai hai ha hkeq
    · rw [if_neg hjn] at hj'
      obtain ⟨aj, haj, haj'⟩ := Option.map_eq_some_iff.mp hj'.symm
      rw [← haj'] at hb' hkeq
      have := hI.distinct_idx hai haj ha hb' hkeq
      omega
  · intro j it hit hdead
    rw [hitems] at hit
    split at hit
    · cases hit; exact absurd hdead (hH key)
    · simp only [Option.map_eq_some_iff] at hit
      obtain ⟨it0, hit0, rfl⟩ := hit
      exact hI.dead_key j it0 hit0 hdead
  · refine ⟨fun b' => if b' = b then ch b ++ [n] else ch b', ?_, ?_, ?_, ?_⟩
    · intro b' hb'
      rw [hcap'] at hb'
      by_cases hbb : b' = b
      · rw [hbb]
        simp only [if_true]
        refine chain_snoc (hc.chain b hb) (hc.nodup b hb) (by simp) ?_ (by simp) g3 g1 g2
        intro hmem; have := hlt b hb n hmem; omega
      · simp only [if_neg hbb]
        refine chain_congr (hc.chain b' hb') (g3 _ ?_ (by simp)) ?_
        · rcases lastLink_head_cases b (ch b) with ⟨h, _⟩ | ⟨x, _, h⟩
          · rw [← hldef] at h; rw [h]; intro e; injection e with e; exact hbb e
          · rw [← hldef] at h; rw [h]; simp
        · intro x hx
          refine g3 _ ?_ ?_
          · rcases lastLink_head_cases b (ch b) with ⟨h, _⟩ | ⟨y, hy, h⟩
            · rw [← hldef] at h; rw [h]; simp
            · rw [← hldef] at h; rw [h]; intro e; injection e with e
              obtain ⟨it1, h1, h1'⟩ := hc.bucket b' hb' x hx
              obtain ⟨it2, h2, h2'⟩ := hc.bucket b hb y hy
              rw [← e, h1] at h2; cases h2; exact hbb (h1'.symm.trans h2')
          · intro e; injection e with e; have := hlt b' hb' x hx; omega
    · intro b' hb'
      rw [hcap'] at hb'
      by_cases hbb : b' = b
      · rw [hbb]
        simp only [if_true]
        refine List.nodup_append.mpr ⟨hc.nodup b hb, by simp, ?_⟩
        intro x hx y hy e
        simp at hy
        have := hlt b hb x hx; omega
      · simp only [if_neg hbb]; exact hc.nodup b' hb'
    · intro b' hb' j hj
      rw [hcap'] at hb' ⊢
      have old : ∀ b'', b'' < s.cap → j ∈ ch b'' → ∃ it : Item V, s'.items[j]? = some it ∧ it.hash &&& (s.cap - 1) = b'' := by
        intro b'' hb'' hj''
        obtain ⟨it, hit, hbk⟩ := hc.bucket b'' hb'' j hj''
        have : j ≠ n := by have := hlt b'' hb'' j hj''; omega
        refine ⟨_, (by rw [hitems, if_neg this, hit]; rfl), ?_⟩
        exact hbk
      by_cases hbb : b' = b
      · rw [hbb] at hj ⊢
        simp only [if_true, List.mem_append, List.mem_singleton] at hj
        rcases hj with hj | hj
        · exact old b hb hj
        · rw [hj]; exact ⟨_, by rw [hitems, if_pos rfl], rfl⟩
      · simp only [if_neg hbb] at hj; exact old b' hb' hj
    · intro j it hit hlive
      rw [hcap']
      rw [hitems] at hit
      split at hit
      · rename_i hjn; cases hit; simp [← hbdef, hjn]
      · simp only [Option.map_eq_some_iff] at hit
        obtain ⟨it0, hit0, rfl⟩ := hit
        have := hc.complete j it0 hit0 hlive
        simp only
        by_cases hbb : it0.hash &&& (s.cap - 1) = b
        · rw [if_pos hbb]; rw [hbb] at this; exact List.mem_append_left _ this
        · rw [if_neg hbb]; exact this

end Qentem.HashTable
