import Qentem.Proofs.TmplParseVarRaw
/-!
# C01 — `checkLoopVariable`: why its length-unchecked comparison stays inside the content

`checkLoopVariable(content, tag, loop_tag)` compares the text at `tag.Offset` with every enclosing
loop's `value` name with `StringUtils::IsEqual(var, value, ValueLength)` — the variable side is
read without looking at the variable's own length.  It is safe because the comparison stops at the
first difference and
* a loop's value text contains neither `}` nor `>` (`ChainOk`: the text lies inside the `<loop …>`
  tag interior, which the Finder and the `>` search delimit), and
* every compared variable text is followed, inside the content, by a `}` or a `>` (the tag's own
  closing unit).
`checkLoopVariable_safe` proves the comparison from these two facts.  The two facts themselves
(`ChainOk` is kept by `stepLoop`; the callers supply the closing unit) are what the staged proof of
`ParseWF` for `<loop>` / `<if>` still needs: see notes/design-tmpl.md.
-/
set_option linter.unusedSectionVars false
namespace Qentem.Tmpl
open Qentem.Expr (Fault rd Safe ScanCfg RealLike VarRef)
open Qentem.Generated.Tmpl

/-- a closing unit: `}` or `>` -/
def isStop (x : Nat) : Prop := x = 125 ∨ x = 62

/-- every loop of the chain has its value text inside the content and free of `}` / `>` -/
def ChainOk (c : List Nat) (chain : List LoopRef) : Prop :=
  ∀ l ∈ chain, l.valueStart + l.valueLen ≤ c.length ∧
    ∀ i, i < l.valueLen → ∀ x, c[l.valueStart + i]? = some x → ¬ isStop x

theorem isEqualRange_safe (c : List Nat) : ∀ (n a b : Nat),
    b + n ≤ c.length → (∀ i, i < n → ∀ x, c[b + i]? = some x → ¬ isStop x) →
    (∃ j x, a ≤ j ∧ c[j]? = some x ∧ isStop x) →
    Safe (isEqualRange c n a b) (fun _ => True) := by
  intro n
  induction n with
  | zero => intro a b _ _ _; exact Safe.ok _ trivial
  | succ n ih =>
    intro a b hb hv ⟨j, x, haj, hj, hx⟩
    have hjl : j < c.length := by
      rcases Nat.lt_or_ge j c.length with h | h
      · exact h
      · rw [List.getElem?_eq_none h] at hj; cases hj
    have hal : a < c.length := by omega
    have hbl : b < c.length := by omega
    simp only [isEqualRange, rd, List.getElem?_eq_getElem hal, List.getElem?_eq_getElem hbl, bind, Except.bind]
    by_cases he : c[a] = c[b]
    · simp only [he, if_true]
      have hns : ¬ isStop c[b] := hv 0 (by omega) c[b] (by simp [List.getElem?_eq_getElem hbl])
      have hne : a ≠ j := by
        intro h; subst h
        rw [List.getElem?_eq_getElem hal] at hj
        cases hj; rw [he] at hx; exact hns hx
      exact ih (a + 1) (b + 1) (by omega)
        (fun i hi y hy => hv (i + 1) (by omega) y (by rwa [show b + (i + 1) = b + 1 + i by omega]))
        ⟨j, x, by omega, hj, hx⟩
    · simp only [he, if_false]; exact Safe.ok _ trivial

/-- the comparison of `checkLoopVariable` makes no out-of-range read -/
theorem checkLoopVariable_safe (c : List Nat) (varOff : Nat) : ∀ (chain : List LoopRef),
    ChainOk c chain → (∃ j x, varOff ≤ j ∧ c[j]? = some x ∧ isStop x) →
    Safe (checkLoopVariable c varOff chain) (fun _ => True) := by
  intro chain
  induction chain with
  | nil => intro _ _; exact Safe.ok _ trivial
  | cons l rest ih =>
    intro hch hstop
    have hl := hch l (List.mem_cons_self ..)
    simp only [checkLoopVariable]
    apply Safe.bind (isEqualRange_safe c l.valueLen varOff l.valueStart hl.1 hl.2 hstop)
    intro b _
    cases b
    · exact ih (fun x hx => hch x (List.mem_cons_of_mem _ hx)) hstop
    · exact Safe.ok _ trivial

end Qentem.Tmpl
