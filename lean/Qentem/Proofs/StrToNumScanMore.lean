import Qentem.Proofs.StrToNumLongInt
import Qentem.Proofs.StrToNumDotZero
/-! C09 helper lemmas: the remaining scan outcomes — a negative integer beyond `-2^63` (a `Real`), 19 integer digits
followed by a dot or an exponent marker, the 20th digit followed by a dot or a marker, the dot on the window edge. -/
set_option linter.unusedSimpArgs false
namespace Qentem.StrToNum
open Qentem.Round

theorem afterScan_negbig (c : List Nat) (e : Nat) (start : Nat) (fo : Bool) (s : Scan) (v p t : Nat)
    (h : twentieth c e s.num s.off s.isReal = some (v, p, t, false)) (hbig : 2 ^ 63 < v) :
    afterScan c e true start fo s = finishReal c e true v p t start fo s.hasDot s.dotOff := by
  unfold afterScan
  rw [h]
  have h0 : v ≠ 0 := by omega
  have h1 : ¬ (v ≤ 0x8000000000000000) := by
    have : (0x8000000000000000 : Nat) = 2 ^ 63 := by decide
    omega
  simp [h0, h1]

/-- a negative integer of at most 20 digits below `-2^63` that fits 64 bits: the real tail, nothing left to read -/
theorem afterSign_negbig (c : List Nat) (e : Nat) (off d1 : Nat) (xs : List Nat) (he : e < 2 ^ 32)
    (h1 : isNonZeroDigit d1 = true) (hxs : AllDigits xs) (hu : unitsAt c e off (d1 :: xs))
    (hend : endsAt c e (off + 1 + xs.length) contInt)
    (hv : decVal (d1 :: xs) < 2 ^ 64) (hbig : 2 ^ 63 < decVal (d1 :: xs)) :
    afterSign c e true off =
      finishReal c e true (decVal (d1 :: xs)) (off + 1 + xs.length) (off + 1 + xs.length) off false false 0 := by
  have hoff : off < e := rd_lt hu.1
  have hle : off + (xs.length + 1) ≤ e := by
    have := unitsAt_le c e (d1 :: xs) off hu (by simp); simpa using this
  have hge := decVal_ge d1 xs h1
  have hpos : 0 < decVal (d1 :: xs) := Nat.lt_of_lt_of_le (Nat.pow_pos (by decide)) hge
  -- at most 20 digits
  have hlen : xs.length ≤ 19 := by
    rcases Nat.lt_or_ge 19 xs.length with hc | hc
    · exfalso
      have : 10 ^ 20 ≤ 10 ^ xs.length := Nat.pow_le_pow_right (by decide) (by omega)
      have h20 : (10 : Nat) ^ 20 > 2 ^ 64 := by decide
      omega
    · exact hc
  have hd1 : d1 - 48 < 2 ^ 64 := by simp [isNonZeroDigit] at h1; omega
  unfold afterSign
  simp only [hoff, if_true, hu.1, h1]
  rw [windowEnd_eq e off he hoff]
  by_cases h19 : xs.length ≤ 18
  · -- the whole numeral lies inside the 19-unit window
    have hfold : xs.foldl pushDigit (d1 - 48) = decVal (d1 :: xs) := by
      rw [foldl_pushDigit xs (d1 - 48) (by rw [decVal_cons] at hv; exact hv), decVal_cons]
    rw [iter1_digits c e _ xs (off + 1) (d1 - 48) d1 0 false (isDigit_ne_dot (isNonZeroDigit_isDigit h1)) hxs hu.2
      (by split <;> omega)
      (by
        rcases hend with h | ⟨x, hx, hc⟩
        · left; split <;> omega
        · by_cases hk : (if e - off < 19 then e else off + 19) - (off + 1) = xs.length
          · exact Or.inl hk
          · right
            simp only [contInt, Bool.or_eq_false_iff] at hc
            refine ⟨x, hx, hc.1, ?_⟩
            intro h46; subst h46; simp [isDotOrE] at hc)]
    simp only [thenScan]
    rw [afterScan_negbig c e off false _ (decVal (d1 :: xs)) (off + 1 + xs.length) (off + 1 + xs.length)
      (by simp only [hfold]; exact twentieth_stop c e _ _ hend) hbig]
  · -- exactly 20 digits: 19 in the window, the 20th through the overflow test
    have hl : xs.length = 19 := by omega
    obtain ⟨ys, d20, rfl⟩ : ∃ ys d20, xs = ys ++ [d20] := by
      refine ⟨xs.dropLast, xs.getLast (by intro h; simp [h] at hl), ?_⟩
      exact (List.dropLast_concat_getLast _).symm
    have hys : ys.length = 18 := by simp at hl; omega
    have hdys : AllDigits ys := fun y hy => hxs y (by simp [hy])
    have hd20 : isDigit d20 = true := hxs d20 (by simp)
    have hu2 := (unitsAt_append c e ys [d20] (off + 1)).1 hu.2
    have hval : decVal (d1 :: (ys ++ [d20])) = decVal (d1 :: ys) * 10 + (d20 - 48) := by
      rw [← List.cons_append, decVal_append_singleton]
    have hv19 : decVal (d1 :: ys) < 2 ^ 64 := by omega
    have hfold : ys.foldl pushDigit (d1 - 48) = decVal (d1 :: ys) := by
      rw [foldl_pushDigit ys (d1 - 48) (by rw [decVal_cons] at hv19; exact hv19), decVal_cons]
    have hlen2 : (ys ++ [d20]).length = 19 := hl
    have hwin : ¬ (e - off < 19) := by simp at hle; omega
    simp only [hwin, if_false]
    rw [iter1_digits c e _ ys (off + 1) (d1 - 48) d1 0 false (isDigit_ne_dot (isNonZeroDigit_isDigit h1)) hdys hu2.1
      (by omega) (Or.inl (by omega))]
    simp only [thenScan]
    have hr20 : rd c e (off + 1 + ys.length) = some d20 := hu2.2.1
    have hpush : pushDigit (decVal (d1 :: ys)) d20 = decVal (d1 :: (ys ++ [d20])) := by
      unfold pushDigit; rw [hval]; exact Nat.mod_eq_of_lt (by omega)
    have hend' : endsAt c e (off + 1 + ys.length + 1) contInt := by
      have : off + 1 + (ys ++ [d20]).length = off + 1 + ys.length + 1 := by simp; omega
      rw [← this]; exact hend
    rw [afterScan_negbig c e off false _ (decVal (d1 :: (ys ++ [d20]))) (off + 1 + ys.length + 1) (off + 1 + ys.length + 1)
      (by simp only [hfold]; rw [← hpush]
          exact twentieth_push c e _ _ d20 hr20 hd20 (by omega) hend') hbig]
    have : off + 1 + (ys ++ [d20]).length = off + 1 + ys.length + 1 := by simp; omega
    rw [this]


/-- the windowed scan over 19 digits with at least one more unit in the text stops after the 19th -/
theorem scan19' (c : List Nat) (e : Nat) (neg : Bool) (off d1 : Nat) (xs : List Nat) (he : e < 2 ^ 32)
    (h1 : isNonZeroDigit d1 = true) (hxs : AllDigits xs) (hlen : xs.length = 18)
    (hu : unitsAt c e off (d1 :: xs)) (hle : off + 19 ≤ e) :
    afterSign c e neg off = afterScan c e neg off false ⟨decVal (d1 :: xs), off + 19, false, 0, false⟩ := by
  have hoff : off < e := rd_lt hu.1
  have hv64 : decVal (d1 :: xs) < 2 ^ 64 := by
    rw [decVal_cons]
    have hx : decVal xs < 10 ^ xs.length := decVal_lt_pow xs hxs
    simp [isNonZeroDigit] at h1
    have h18 : 10 ^ xs.length ≤ 10 ^ 18 := Nat.pow_le_pow_right (by decide) (by omega)
    have : (d1 - 48) * 10 ^ xs.length ≤ 9 * 10 ^ xs.length := Nat.mul_le_mul_right _ (by omega)
    have : (9 : Nat) * 10 ^ 18 + 10 ^ 18 < 2 ^ 64 := by decide
    omega
  have hfold : xs.foldl pushDigit (d1 - 48) = decVal (d1 :: xs) := by
    rw [foldl_pushDigit xs (d1 - 48) (by rw [decVal_cons] at hv64; exact hv64), decVal_cons]
  rw [afterSign]
  simp only [hoff, if_true, hu.1, h1]
  rw [windowEnd_eq e off he hoff, if_neg (by omega)]
  rw [iter1_digits c e _ xs (off + 1) (d1 - 48) d1 0 false (isDigit_ne_dot (isNonZeroDigit_isDigit h1)) hxs hu.2
    (by omega) (Or.inl (by omega))]
  simp only [thenScan, hfold]
  rw [show off + 1 + xs.length = off + 19 by omega]

/-- exactly 19 integer digits followed by a dot or an exponent marker -/
theorem afterSign_19_sep (c : List Nat) (e : Nat) (neg : Bool) (off d1 : Nat) (xs : List Nat) (u : Nat) (he : e < 2 ^ 32)
    (h1 : isNonZeroDigit d1 = true) (hxs : AllDigits xs) (hlen : xs.length = 18)
    (hu : unitsAt c e off (d1 :: xs)) (hP : rd c e (off + 19) = some u) (hsep : isDotOrE u = true) :
    afterSign c e neg off = finishReal c e neg (decVal (d1 :: xs)) (off + 19) (off + 19) off false false 0 := by
  have hPe := rd_lt hP
  rw [scan19' c e neg off d1 xs he h1 hxs hlen hu (by omega)]
  have ht : twentieth c e (decVal (d1 :: xs)) (off + 19) false = some (decVal (d1 :: xs), off + 19, off + 19, true) := by
    unfold twentieth
    simp only [Bool.not_false, true_and, hPe, if_true, hP, hsep]
  rw [afterScan_of_twentieth_real c e neg off false ⟨decVal (d1 :: xs), off + 19, false, 0, false⟩ _ _ _ ht]

/-- 20 integer digits that fit 64 bits followed by a digit, a dot or an exponent marker -/
theorem afterSign_20_next (c : List Nat) (e : Nat) (neg : Bool) (off d1 : Nat) (xs : List Nat) (d20 u : Nat) (he : e < 2 ^ 32)
    (h1 : isNonZeroDigit d1 = true) (hxs : AllDigits xs) (hlen : xs.length = 18) (hd20 : isDigit d20 = true)
    (hu : unitsAt c e off (d1 :: xs ++ [d20, u])) (hnext : isDigit u = true ∨ isDotOrE u = true)
    (hsmall : ¬ (decVal (d1 :: xs) > 0x1999999999999999 ∨ (decVal (d1 :: xs) = 0x1999999999999999 ∧ d20 > 53))) :
    afterSign c e neg off =
      finishReal c e neg (decVal (d1 :: xs) * 10 + (d20 - 48)) (off + 20) (off + 20) off false false 0 := by
  have hu3 := (unitsAt_append c e (d1 :: xs) [d20, u] off).1 hu
  have hP : rd c e (off + (d1 :: xs).length) = some d20 := hu3.2.1
  have hP2 : rd c e (off + (d1 :: xs).length + 1) = some u := hu3.2.2.1
  simp only [List.length_cons, hlen] at hP hP2
  have hPe := rd_lt hP
  have hP2e := rd_lt hP2
  have hnde : isDotOrE d20 = false := by simp [isDigit] at hd20; simp [isDotOrE]; omega
  rw [scan19' c e neg off d1 xs he h1 hxs hlen hu3.1 (by omega)]
  have hpush : pushDigit (decVal (d1 :: xs)) d20 = decVal (d1 :: xs) * 10 + (d20 - 48) := by
    unfold pushDigit
    apply Nat.mod_eq_of_lt
    simp [isDigit] at hd20
    have h2 : (0x1999999999999999 : Nat) * 10 + 5 < 2 ^ 64 := by decide
    omega
  have hreal : (isDotOrE u || isDigit u) = true := by
    rcases hnext with h | h <;> simp [h]
  have ht : twentieth c e (decVal (d1 :: xs)) (off + 19) false =
      some (decVal (d1 :: xs) * 10 + (d20 - 48), off + 20, off + 20, true) := by
    unfold twentieth
    simp only [Bool.not_false, true_and, hPe, if_true, hP, hnde, Bool.false_eq_true, if_false, hd20, hsmall, hpush,
      show off + 19 + 1 = off + 20 by omega, hP2e, hP2, hreal]
  rw [afterScan_of_twentieth_real c e neg off false ⟨decVal (d1 :: xs), off + 19, false, 0, false⟩ _ _ _ ht]

/-- the dot on the window edge: 18 integer digits and the dot fill the window, or 17 integer digits, the dot and a `0`
(the look-ahead for "just a zero" has no room): the scan stops right after the dot, no fraction digit is taken -/
theorem afterSign_dot_edge (c : List Nat) (e : Nat) (neg : Bool) (off d1 : Nat) (xs : List Nat) (he : e < 2 ^ 32)
    (h1 : isNonZeroDigit d1 = true) (hxs : AllDigits xs) (hle : off + 19 ≤ e)
    (hu : unitsAt c e off (d1 :: xs ++ [46]))
    (hcase : xs.length = 17 ∨ (xs.length = 16 ∧ rd c e (off + 18) = some 48)) :
    afterSign c e neg off =
      finishReal c e neg (decVal (d1 :: xs)) (off + 1 + xs.length + 1) (off + 1 + xs.length + 1) off false true
        (off + 1 + xs.length) := by
  have hlen : xs.length ≤ 17 := by rcases hcase with h | h <;> omega
  have hu2 := (unitsAt_append c e (d1 :: xs) [46] off).1 hu
  have hd1xs : unitsAt c e off (d1 :: xs) := hu2.1
  have hP : rd c e (off + 1 + xs.length) = some 46 := by
    have := hu2.2.1; simp only [List.length_cons] at this
    rw [show off + 1 + xs.length = off + (xs.length + 1) by omega]; exact this
  have hoff : off < e := rd_lt hd1xs.1
  have hd1dig := isNonZeroDigit_isDigit h1
  have hWeq := windowEnd_eq e off he hoff
  have hWe : windowEnd e off ≤ e := (windowEnd_bounds e off he hoff).2
  have hWdot : off + 1 + xs.length < windowEnd e off := by rw [hWeq]; split <;> omega
  have hall : AllDigits (d1 :: xs) := by
    intro y hy
    rcases List.mem_cons.1 hy with h | h
    · subst h; exact hd1dig
    · exact hxs y h
  have hv64 : decVal (d1 :: xs) < 2 ^ 64 := by
    have := decVal_lt_pow _ hall
    exact Nat.lt_of_lt_of_le this (Nat.le_trans (Nat.pow_le_pow_right (by decide) (by simp; omega)) (by decide : (10 : Nat) ^ 19 ≤ 2 ^ 64))
  have hfold : xs.foldl pushDigit (d1 - 48) = decVal (d1 :: xs) := by
    rw [foldl_pushDigit xs (d1 - 48) (by rw [decVal_cons] at hv64; exact hv64), decVal_cons]
  rw [afterSign]
  simp only [hoff, if_true, hd1xs.1, h1]
  have hW19 : windowEnd e off = off + 19 := by rw [hWeq, if_neg (by omega)]
  generalize windowEnd e off = W at hWdot hWe hW19 ⊢
  obtain ⟨dd, hsc, hdd⟩ := scanDigits_stop c e xs (W - (off + 1)) (off + 1) (d1 - 48) d1 hxs hd1xs.2 (by omega)
    (Or.inr ⟨46, hP, by decide⟩)
  have hdd46 : dd = 46 := by
    rcases hdd with h | ⟨h, _⟩
    · exfalso
      rw [scanDigits_run c e xs (W - (off + 1)) (off + 1) (d1 - 48) d1 hxs hd1xs.2 (by omega)] at hsc
      obtain ⟨j, hj⟩ : ∃ j, W - (off + 1) - xs.length = j + 1 := ⟨W - (off + 1) - xs.length - 1, by omega⟩
      rw [hj, scanDigits, hP] at hsc
      simp [isDigit] at hsc
      rw [h] at hsc
      by_cases hnil : xs = []
      · subst hnil; simp at hsc; subst hsc; simp [isDigit] at hd1dig
      · have := getLast_digit xs d1 hxs hnil
        rw [← hsc] at this; simp [isDigit] at this
    · rw [hP] at h; exact (Option.some.inj h).symm
  subst hdd46
  rw [iter1]
  simp only [Bool.false_eq_true, if_false, show off + 1 < e by have := rd_lt hP; omega, if_true, hsc, hfold]
  rcases hcase with h17 | ⟨h16, hZ⟩
  · rw [if_neg (by omega)]
    exact afterScan_mk_real c e neg off false _ _ true _
  · rw [if_pos (by omega)]
    rw [show off + 1 + xs.length + 1 = off + 18 by omega]
    simp only [hZ]
    rw [if_neg (by decide)]
    simp only [true_and]
    rw [if_neg (by omega)]
    rw [show off + 18 = off + 1 + xs.length + 1 by omega]
    exact afterScan_mk_real c e neg off false _ _ true _


end Qentem.StrToNum
