import Qentem.Proofs.HashTableStep
/-!
`remove` (by key and by index): unlinking an item and turning it into a tombstone.
-/
namespace Qentem.HashTable
variable {V : Type}

theorem chain_prefix_last {g : Link → Option Nat} {j : Nat} {post : List Nat} : ∀ {pre : List Nat} {l : Link},
    Chain g l (pre ++ j :: post) → g (lastLink l pre) = some (j + 1)
  | [], _, h => h.1
  | a :: pre, l, h => by rw [lastLink_cons]; exact chain_prefix_last (pre := pre) h.2

def clearItem [Inhabited V] (t : HT V) (j : Nat) : HT V :=
  { t with items := t.items.modify j (fun _ => ⟨[], 0, 0, default⟩) }

theorem removeH_found [Inhabited V] {H : List Nat → Nat} {s : HT V} (hI : Inv H s) (hH : ∀ k, H k ≠ 0)
    {j : Nat} {it : Item V} (hit : s.items[j]? = some it) (hl : it.hash ≠ 0) :
    ∃ s', removeH s it.key (H it.key) = some s' ∧ Inv H s' ∧ s'.cap = s.cap ∧
      absSlots s' = (absSlots s).set j none := by
  obtain ⟨ch, hc⟩ := hI.chains
  obtain ⟨pre, post, hsplit, hfind⟩ := find_some hI hc hH hit hl
  have hj : j < s.items.size := (Array.getElem?_eq_some_iff.mp hit).1
  have hcapk : ∃ k, s.cap = 2 ^ k := by
    rcases hI.cap_pow with h0 | hk
    · have := hI.size_le; omega
    · exact hk
  obtain ⟨k, hk⟩ := hcapk
  set b := H it.key &&& (s.cap - 1) with hbdef
  have hb : b < s.cap := bucket_lt _ hk
  set l := lastLink (.head b) pre with hldef
  have hchain := hc.chain b hb
  have hnd := hc.nodup b hb
  rw [hsplit] at hchain hnd
  have hjpre : j ∉ pre := by
    intro h; exact (List.nodup_append.mp hnd).2.2 j h j (by simp) rfl
  have hjpost : j ∉ post := by
    have := (List.nodup_append.mp hnd).2.1; exact (List.nodup_cons.mp this).1
  have hlj : getLink s l = some (j + 1) := chain_prefix_last hchain
  have hl_cases : l = .head b ∨ ∃ y, y ∈ pre ∧ l = .next y := by
    rcases lastLink_head_cases b pre with ⟨h, _⟩ | ⟨y, hy, h⟩
    · left; rw [hldef, h]
    · right; exact ⟨y, hy, by rw [hldef, h]⟩
  have hl_ne_j : l ≠ .next j := by
    rcases hl_cases with h | ⟨y, hy, h⟩
    · rw [h]; simp
    · rw [h]; intro e; injection e with e; exact hjpre (e ▸ hy)
  have hsize0 : s.size ≠ 0 := by simp only [HT.size]; omega
  set s' : HT V := clearItem (setLink s l it.next) j with hs'
  have hrun : removeH s it.key (H it.key) = some s' := by
    simp only [removeH, hsize0, if_false, hfind, hit]
    rfl
  have hitems : ∀ x : Nat, s'.items[x]? = if x = j then some ⟨[], 0, 0, default⟩ else
      (s.items[x]?).map (fun it0 => { it0 with next := if l = .next x then it.next else it0.next }) := by
    intro x
    simp only [hs', clearItem, Array.getElem?_modify, setLink_items]
    by_cases hx : x = j
    · subst hx; simp [hit]
    · have : ¬ j = x := fun e => hx e.symm
      simp [hx, this]
  have r1 : getLink s' l = some it.next := by
    rcases hl_cases with h | ⟨y, hy, h⟩
    · rw [h]; show getLink (setLink s l it.next) (.head b) = _
      rw [← h]; exact getLink_setLink_self hlj
    · have hyj : y ≠ j := fun e => hjpre (e ▸ hy)
      rw [h]
      simp only [getLink, hitems, if_neg hyj]
      have := hlj; rw [h] at this
      simp only [getLink, Option.map_eq_some_iff] at this
      obtain ⟨ity, hity, _⟩ := this
      simp only [hity, Option.map_some, Option.some.injEq]
      rw [if_pos h]
  have r3 : ∀ l', l' ≠ l → l' ≠ .next j → getLink s' l' = getLink s l' := by
    intro l' h1 h2
    cases l' with
    | head b0 => show getLink (setLink s l it.next) (.head b0) = _; exact getLink_setLink_ne h1
    | next x =>
      have hxj : x ≠ j := fun e => h2 (by rw [e])
      have : ¬ l = .next x := fun e => h1 e.symm
      simp only [getLink, hitems, if_neg hxj, this, if_false, Option.map_map]
      cases s.items[x]? <;> rfl
  have hwj : getLink s (.next j) = some it.next := by simp [getLink, hit]
  have hbucket_j : ∀ b', b' < s.cap → j ∈ ch b' → b' = b := by
    intro b' hb' hjm
    obtain ⟨it1, h1, h1'⟩ := hc.bucket b' hb' j hjm
    rw [hit] at h1; cases h1
    rw [← h1', hbdef, hI.hash_ok j it hit hl]
  have hcap' : s'.cap = s.cap := by simp [hs', clearItem]
  have hold : ∀ (x : Nat) (it0 : Item V), x ≠ j → s.items[x]? = some it0 →
      ∃ it' : Item V, s'.items[x]? = some it' ∧ it'.key = it0.key ∧ it'.hash = it0.hash ∧ it'.val = it0.val := by
    intro x it0 hx h0
    exact ⟨{ it0 with next := if l = .next x then it.next else it0.next },
      by rw [hitems, if_neg hx, h0]; rfl, rfl, rfl, rfl⟩
  have hnew : ∀ (x : Nat) (it' : Item V), s'.items[x]? = some it' → x ≠ j →
      ∃ it0 : Item V, s.items[x]? = some it0 ∧ it'.key = it0.key ∧ it'.hash = it0.hash ∧ it'.val = it0.val := by
    intro x it' h' hx
    rw [hitems, if_neg hx] at h'
    obtain ⟨it0, h0, rfl⟩ := Option.map_eq_some_iff.mp h'
    exact ⟨it0, h0, rfl, rfl, rfl⟩
  have hdeadj : ∀ it' : Item V, s'.items[j]? = some it' → it' = ⟨[], 0, 0, default⟩ := by
    intro it' h'; rw [hitems, if_pos rfl] at h'; exact (Option.some.inj h').symm
  refine ⟨s', hrun, ⟨Or.inr ⟨k, by rw [hcap', hk]⟩, ?_, ?_, ?_, ?_, ?_, ?_⟩, hcap', ?_⟩
  · simp [hs', clearItem, hI.heads_size]
  · simp only [hs', clearItem, Array.size_modify, setLink_size, setLink_cap]; exact hI.size_le
  · intro x it' h' hlive
    by_cases hx : x = j
    · subst hx; rw [hdeadj it' h'] at hlive; exact absurd rfl hlive
    · obtain ⟨it0, h0, hk0, hh0, _⟩ := hnew x it' h' hx
      rw [hk0, hh0]; exact hI.hash_ok x it0 h0 (by rw [← hh0]; exact hlive)
  · rw [List.pairwise_iff_getElem]
    intro x y hx hy hxy ha hb' hkeq
    simp only [Array.length_toList] at hx hy
    simp only [Array.getElem_toList] at ha hb' hkeq
    have hxj : x ≠ j := by
      intro e; subst e
      rw [hdeadj _ (Array.getElem?_eq_getElem hx)] at ha; exact ha rfl
    have hyj : y ≠ j := by
      intro e; subst e
      rw [hdeadj _ (Array.getElem?_eq_getElem hy)] at hb'; exact hb' rfl
    obtain ⟨a0, ha0, hka, hha, _⟩ := hnew x _ (Array.getElem?_eq_getElem hx) hxj
    obtain ⟨b0, hb0, hkb, hhb, _⟩ := hnew y _ (Array.getElem?_eq_getElem hy) hyj
    have := hI.distinct_idx ha0 hb0 (by rw [← hha]; exact ha) (by rw [← hhb]; exact hb') (by rw [← hka, ← hkb]; exact hkeq)
    omega
  · intro x it' h' hd
    by_cases hx : x = j
    · subst hx; rw [hdeadj it' h']
    · obtain ⟨it0, h0, hk0, hh0, _⟩ := hnew x it' h' hx
      rw [hk0]; exact hI.dead_key x it0 h0 (by rw [← hh0]; exact hd)
  · refine ⟨fun b' => if b' = b then pre ++ post else ch b', ?_, ?_, ?_, ?_⟩
    · intro b' hb'
      rw [hcap'] at hb'
      by_cases hbb : b' = b
      · rw [hbb]; simp only [if_true]
        exact chain_remove hchain hnd (by simp) hwj r1 r3
      · simp only [if_neg hbb]
        refine chain_congr (hc.chain b' hb') (r3 _ ?_ (by simp)) ?_
        · rcases hl_cases with h | ⟨y, _, h⟩
          · rw [h]; intro e; injection e with e; exact hbb e
          · rw [h]; simp
        · intro x hx
          refine r3 _ ?_ ?_
          · rcases hl_cases with h | ⟨y, hy, h⟩
            · rw [h]; simp
            · rw [h]; intro e; injection e with e
              obtain ⟨it1, h1, h1'⟩ := hc.bucket b' hb' x hx
              obtain ⟨it2, h2, h2'⟩ := hc.bucket b hb y (by rw [hsplit]; simp [hy])
              rw [← e, h1] at h2; cases h2; exact hbb (h1'.symm.trans h2')
          · intro e; injection e with e
            exact hbb (hbucket_j b' hb' (e ▸ hx))
    · intro b' hb'
      rw [hcap'] at hb'
      by_cases hbb : b' = b
      · rw [hbb]; simp only [if_true]
        exact hnd.sublist ((List.sublist_cons_self j post).append_left pre)
      · simp only [if_neg hbb]; exact hc.nodup b' hb'
    · intro b' hb' x hx
      rw [hcap'] at hb' ⊢
      have hxb : x ∈ ch b' ∧ x ≠ j := by
        by_cases hbb : b' = b
        · rw [hbb] at hx ⊢; simp only [if_true] at hx
          refine ⟨by rw [hsplit]; rcases List.mem_append.mp hx with h | h <;> simp [h], ?_⟩
          intro e; rcases List.mem_append.mp hx with h | h
          · exact hjpre (e ▸ h)
          · exact hjpost (e ▸ h)
        · simp only [if_neg hbb] at hx
          exact ⟨hx, fun e => hbb (hbucket_j b' hb' (e ▸ hx))⟩
      obtain ⟨it0, h0, hbk⟩ := hc.bucket b' hb' x hxb.1
      obtain ⟨it', h', _, hh, _⟩ := hold x it0 hxb.2 h0
      exact ⟨it', h', by rw [hh]; exact hbk⟩
    · intro x it' h' hlive
      rw [hcap']
      have hx : x ≠ j := by
        intro e; subst e; rw [hdeadj it' h'] at hlive; exact hlive rfl
      obtain ⟨it0, h0, _, hh0, _⟩ := hnew x it' h' hx
      have := hc.complete x it0 h0 (by rw [← hh0]; exact hlive)
      rw [hh0]
      by_cases hbb : it0.hash &&& (s.cap - 1) = b
      · simp only [hbb, if_true]
        rw [hbb, hsplit] at this
        rcases List.mem_append.mp this with h | h
        · exact List.mem_append_left _ h
        · rcases List.mem_cons.mp h with h | h
          · exact absurd h hx
          · exact List.mem_append_right _ h
      · simp only [if_neg hbb]; exact this
  · apply List.ext_getElem?
    intro x
    rw [absSlots_getElem?, hitems, List.getElem?_set, absSlots_length, absSlots_getElem?]
    by_cases hx : x = j
    · subst hx; simp [hj]
    · have : ¬ j = x := fun e => hx e.symm
      simp only [if_neg hx, if_neg this, Option.map_map]
      cases s.items[x]? <;> rfl

theorem removeH_absent [Inhabited V] {H : List Nat → Nat} {s : HT V} (hI : Inv H s) (hH : ∀ k, H k ≠ 0)
    {key : List Nat} (hno : ∀ (j : Nat) (it : Item V), s.items[j]? = some it → it.hash ≠ 0 → it.key ≠ key) :
    removeH s key (H key) = some s := by
  obtain ⟨ch, hc⟩ := hI.chains
  unfold removeH
  by_cases h0 : s.size = 0
  · simp [h0]
  · have hcap : ∃ k, s.cap = 2 ^ k := by
      rcases hI.cap_pow with h | h
      · have := hI.size_le; simp only [HT.size] at h0; omega
      · exact h
    simp only [h0, if_false, find_none hc hH hcap hno]

/-- `Remove(key)`. -/
theorem remove_spec [Inhabited V] {H : List Nat → Nat} {s : HT V} (hI : Inv H s) (hH : ∀ k, H k ≠ 0)
    (key : List Nat) :
    ∃ s', remove H s key = some s' ∧ Inv H s' ∧ abs s' = Spec.remove (abs s) key := by
  unfold remove
  rcases key_cases s key with ⟨j, it, hit, hl, rfl⟩ | hno
  · obtain ⟨s', hrun, hI', hcap, habs⟩ := removeH_found hI hH hit hl
    refine ⟨s', hrun, hI', ?_⟩
    simp only [Spec.remove, abs, findKey_abs_some hI hit hl, hcap, habs]
  · refine ⟨s, removeH_absent hI hH hno, hI, ?_⟩
    simp only [Spec.remove, abs, findKey_abs_none hno]

/-- `RemoveIndex(index)`. -/
theorem removeIdx_spec [Inhabited V] {H : List Nat → Nat} {s : HT V} (hI : Inv H s) (hH : ∀ k, H k ≠ 0)
    (i : Nat) :
    ∃ s', removeIdx s i = some s' ∧ Inv H s' ∧ abs s' = Spec.removeIdx (abs s) i := by
  unfold removeIdx
  cases hit : s.items[i]? with
  | none =>
    refine ⟨s, rfl, hI, ?_⟩
    simp [Spec.removeIdx, Spec.lookupIdx, abs, absSlots_getElem?, hit]
  | some it =>
    by_cases hl : it.hash = 0
    · refine ⟨s, by simp [hl], hI, ?_⟩
      simp [Spec.removeIdx, Spec.lookupIdx, abs, absSlots_getElem?, hit, hl]
    · obtain ⟨s', hrun, hI', hcap, habs⟩ := removeH_found hI hH hit hl
      rw [← hI.hash_ok i it hit hl] at hrun
      refine ⟨s', by simp only [hl, ne_eq, not_false_eq_true, if_true]; exact hrun, hI', ?_⟩
      simp [Spec.removeIdx, Spec.lookupIdx, abs, absSlots_getElem?, hit, hl, hcap, habs]

end Qentem.HashTable
