import Qentem.Proofs.BigIntShr
/-! Operands wider than a word: `operator=(N_Number_T)` and the narrowing conversion to a wider type. -/
namespace Qentem.BigInt

/-- the chunk loop of the wide `Set` -/
theorem wideLoop_set_spec {W : Nat} (hW : 0 < W) (chunks : Nat) : ∀ (fuel f : Nat) (s : Big) (number index : Nat),
    index + f ≤ chunks → f < fuel → number < 2 ^ (W * f) → index ≤ s.words.length → number < 2 ^ (W * (s.words.length - index)) →
    s.idx + 1 = index → Bounded W s.words →
    ∃ s' j, wideLoop W .set chunks fuel s number index = .ok (s', j) ∧ s'.words.length = s.words.length ∧
      s'.idx + 1 = j ∧ index ≤ j ∧ j ≤ s.words.length ∧ Bounded W s'.words ∧
      (∀ k, j ≤ k → s'.words.getD k 0 = s.words.getD k 0) ∧
      (∀ k, k < index → s'.words.getD k 0 = s.words.getD k 0) ∧
      valW W (s'.words.take j) = valW W (s.words.take index) + 2 ^ (W * index) * number ∧
      (index < j → s'.words.getD (j - 1) 0 ≠ 0) ∧ (number ≠ 0 → index < j)
  | 0, _, _, _, _, _, hf, _, _, _, _, _ => by omega
  | fuel + 1, f, s, number, index, hcf, hf, hnum, hidx, hroom, hsi, hb => by
    unfold wideLoop
    have hB : 0 < 2 ^ W := Nat.pow_pos (by decide)
    by_cases hz : number = 0
    · subst hz
      rw [if_neg (fun hcon => hcon.2.2 rfl)]
      exact ⟨s, index, rfl, rfl, hsi, Nat.le_refl _, hidx, hb, fun _ _ => rfl, fun _ _ => rfl, by simp, fun h => by omega,
        fun h => absurd rfl h⟩
    · skip
      have hlt : index < s.words.length := by
        by_contra hcon
        have : s.words.length - index = 0 := by omega
        rw [this] at hroom; simp at hroom; omega
      have hfpos : 0 < f := by
        by_contra hcon
        have : f = 0 := by omega
        subst this; simp at hnum; omega
      rw [if_pos ⟨by omega, by unfold maxIndex; omega, hz⟩]
      simp only [bind, Except.bind]
      rw [wr_ok _ hlt]
      simp only [Nat.shiftRight_eq_div_pow]
      have hdiv1 : number / 2 ^ W < 2 ^ (W * (f - 1)) := by
        apply Nat.div_lt_of_lt_mul
        rw [← Nat.pow_add]
        have : W + W * (f - 1) = W * f := by
          have : f = (f - 1) + 1 := by omega
          rw [this, Nat.mul_add]; simp; omega
        rw [this]; exact hnum
      have hdiv2 : number / 2 ^ W < 2 ^ (W * (s.words.length - (index + 1))) := by
        apply Nat.div_lt_of_lt_mul
        rw [← Nat.pow_add]
        have : W + W * (s.words.length - (index + 1)) = W * (s.words.length - index) := by
          have : s.words.length - index = (s.words.length - (index + 1)) + 1 := by omega
          rw [this, Nat.mul_add]; simp; omega
        rw [this]; exact hroom
      have hchunk : number % 2 ^ W < 2 ^ W := Nat.mod_lt _ hB
      obtain ⟨s', j, hrun, hl', hsj, hij, hjn, hb', hfr, hlo, hv, htop, hadv⟩ :=
        wideLoop_set_spec hW chunks fuel (f - 1) ⟨s.words.set index (number % 2 ^ W), s.idx + 1⟩ (number / 2 ^ W) (index + 1)
          (by omega) (by omega) hdiv1 (by simp; omega) (by simpa using hdiv2) (by simp; omega) (hb.set _ hchunk)
      refine ⟨s', j, hrun, by simpa using hl', hsj, by omega, by simpa using hjn, hb', ?_, ?_, ?_, ?_, fun _ => by omega⟩
      · intro k hk
        rw [hfr k hk]; exact getD_set_ne (by omega)
      · intro k hk
        rw [hlo k (by omega)]; exact getD_set_ne (by omega)
      · rw [hv]
        simp only
        rw [valW_take_succ W _ index (by simpa using hlt), List.getElem_set_self,
          take_set_val W s.words index index _ (Nat.le_refl _) hlt, pow_mul_succ]
        have := Nat.mod_add_div number (2 ^ W)
        have e : 2 ^ (W * index) * number = 2 ^ (W * index) * (number % 2 ^ W) + 2 ^ W * 2 ^ (W * index) * (number / 2 ^ W) := by
          conv_lhs => rw [← this]
          ring
        omega
      · intro _
        by_cases hj : index + 1 < j
        · exact htop hj
        · have hje : j = index + 1 := by omega
          subst hje
          simp only [Nat.add_sub_cancel]
          rw [hlo index (by omega)]
          simp only
          rw [getD_set_eq hlt]
          -- the last chunk is the whole (non-zero) remaining number
          have hq : number / 2 ^ W = 0 := by
            by_contra hq0
            have := hadv hq0
            omega
          have : number % 2 ^ W = number := Nat.mod_eq_of_lt ((Nat.div_eq_zero_iff.1 hq).resolve_left (by omega))
          omega

/-- `x = number` for an operand type of `K = m·W` bits (m ≥ 2) whose value fits the storage. -/
theorem assign_wide_spec {W K : Nat} (s : Big) (x : Nat) (h : Inv W s) (hdvd : W ∣ K) (hm : K / W > 1)
    (hx : x < 2 ^ K) (hfit : x < 2 ^ (W * s.words.length)) :
    ∃ s', assign W K s x = .ok s' ∧ Inv W s' ∧ s'.words.length = s.words.length ∧ s'.val W = x := by
  have hW := h.wpos
  have hB : 0 < 2 ^ W := Nat.pow_pos (by decide)
  have hlt := h.idx_lt
  have h0 : 0 < s.words.length := by omega
  have hKW : (K == W) = false := by
    apply beq_false_of_ne
    intro e; subst e; rw [Nat.div_self hW] at hm; omega
  have hKe : K = W * (K / W) := (Nat.mul_div_cancel' hdvd).symm
  have hlow : x % 2 ^ W < 2 ^ W := Nat.mod_lt _ hB
  have hnum1 : x / 2 ^ W < 2 ^ (W * (K / W - 1)) := by
    apply Nat.div_lt_of_lt_mul
    rw [← Nat.pow_add]
    have : W + W * (K / W - 1) = K := by
      have : K / W = (K / W - 1) + 1 := by omega
      conv_rhs => rw [hKe, this, Nat.mul_add]
      simp; omega
    rw [this]; exact hx
  have hnum2 : x / 2 ^ W < 2 ^ (W * (s.words.length - 1)) := by
    apply Nat.div_lt_of_lt_mul
    rw [← Nat.pow_add]
    have : W + W * (s.words.length - 1) = W * s.words.length := by
      have : s.words.length = (s.words.length - 1) + 1 := by omega
      conv_rhs => rw [this, Nat.mul_add]
      simp; omega
    rw [this]; exact hfit
  obtain ⟨s2, j, hrun, hl2, hsj, hij, hjn, hb2, hfr, hlo, hv, htop, _⟩ :=
    wideLoop_set_spec hW (K / W) (K / W + 1) (K / W - 1) ⟨s.words.set 0 (x % 2 ^ W), 0⟩ (x / 2 ^ W) 1 (by omega) (by omega) hnum1
      (by simp; omega) (by simpa using hnum2) rfl (h.bound.set _ hlow)
  simp only [List.length_set] at hl2 hjn
  obtain ⟨ws', hrun3, hl3, hz3, hfr3⟩ := zeroDownTo_spec s2.idx s.idx s2.words (by omega)
  have hval2 : valW W (s2.words.take j) = x := by
    rw [hv]
    have e1 : (s.words.set 0 (x % 2 ^ W)).take 1 = [x % 2 ^ W] := by
      match hs : s.words, h0 with
      | w :: ws, _ => simp
    simp only
    rw [e1]
    simp only [valW, Nat.mul_one, Nat.mul_zero, Nat.add_zero]
    exact Nat.mod_add_div x (2 ^ W)
  have hzf : ZeroFrom ws' j := by
    intro k hk
    by_cases hk2 : k ≤ s.idx
    · exact hz3 k (by omega) hk2
    · rw [hfr3 k (Or.inr (by omega)), hfr k hk]
      simp only
      rw [getD_set_ne (by omega)]; exact h.above k (by omega)
  have htake : valW W (ws'.take j) = valW W (s2.words.take j) :=
    valW_take_congr _ _ _ _ (by omega) (by omega) (fun k hk => hfr3 k (Or.inl (by omega)))
  have hbd : Bounded W ws' := bounded_of_getD (fun k _ => by
    by_cases hk1 : k ≤ s2.idx
    · rw [hfr3 k (Or.inl hk1)]; exact hb2.getD k
    · by_cases hk2 : k ≤ s.idx
      · rw [hz3 k (by omega) hk2]; exact hB
      · rw [hfr3 k (Or.inr (by omega))]; exact hb2.getD k)
  refine ⟨⟨ws', s2.idx⟩, ?_, ⟨⟨hW, hbd, by simp; omega, by rw [hsj]; exact hzf⟩, ?_⟩, by simp; omega, ?_⟩
  · unfold assign opK opWide
    simp only [hKW, Bool.false_eq_true, if_false, bind, Except.bind, wr_ok _ h0, hm, if_true,
      Nat.shiftRight_eq_div_pow]
    simp only [show (BOp.set == BOp.and) = false by rfl, Bool.false_eq_true, if_false, pure, Except.pure]
    rw [hrun]
    simp only []
    rw [hrun3]
  · intro hne
    have hne' : s2.idx ≠ 0 := hne
    show ws'.getD s2.idx 0 ≠ 0
    rw [hfr3 _ (Or.inl (Nat.le_refl _))]
    have := htop (by omega)
    have e : j - 1 = s2.idx := by omega
    rwa [e] at this
  · show valW W ws' = x
    rw [valW_of_zeroFrom W ws' j (by omega) hzf, htake, hval2]

/-- Horner loop of the narrowing conversion: `num = 2^W · (words i+1 … index)` -/
theorem narrowLoop_spec {W K : Nat} (ws : List Nat) (hb : Bounded W ws) (index : Nat) (hidx : index < ws.length)
    (hK : 2 ^ (W * (index + 1)) ≤ 2 ^ K) : ∀ (i : Nat) (num : Nat), i ≤ index →
    num = 2 ^ W * valW W ((ws.take (index + 1)).drop (i + 1)) →
    narrowLoop W K ws i num = .ok (2 ^ W * valW W ((ws.take (index + 1)).drop 1))
  | 0, num, _, hnum => by rw [hnum]; rfl
  | i + 1, num, hi, hnum => by
    unfold narrowLoop
    rw [rd_ok (by omega : i + 1 < ws.length)]
    simp only [bind, Except.bind]
    apply narrowLoop_spec ws hb index hidx hK i _ (by omega)
    have hB : 0 < 2 ^ W := Nat.pow_pos (by decide)
    have hw : ws[i + 1]'(by omega) < 2 ^ W := hb.getElem _
    have hTl : (ws.take (index + 1)).length = index + 1 := by rw [List.length_take]; omega
    have hcons := valW_drop_cons W (ws.take (index + 1)) (i + 1) (by omega)
    have hget : (ws.take (index + 1))[i + 1]'(by omega) = ws[i + 1]'(by omega) := by simp
    rw [hget] at hcons
    rw [hnum, Nat.mul_comm (2 ^ W), Nat.or_comm, lor_eq_add_of_lt rfl hw, Nat.shiftLeft_eq]
    have e : (valW W (List.drop (i + 1 + 1) (List.take (index + 1) ws)) * 2 ^ W + ws[i + 1]) * 2 ^ W
        = 2 ^ W * valW W (List.drop (i + 1) (List.take (index + 1) ws)) := by rw [hcons]; ring
    rw [e]
    apply Nat.mod_eq_of_lt
    have hbT : Bounded W ((ws.take (index + 1)).drop (i + 1)) :=
      fun w hw' => hb w (List.mem_of_mem_take (List.mem_of_mem_drop hw'))
    have hlt := valW_lt hbT
    rw [List.length_drop, hTl] at hlt
    have e1 : 2 ^ W * valW W ((ws.take (index + 1)).drop (i + 1)) < 2 ^ W * 2 ^ (W * (index + 1 - (i + 1))) :=
      Nat.mul_lt_mul_of_pos_left hlt hB
    have e2 : 2 ^ W * 2 ^ (W * (index + 1 - (i + 1))) ≤ 2 ^ (W * (index + 1)) := by
      rw [← Nat.pow_add]
      apply Nat.pow_le_pow_right (by decide)
      have : W + W * (index + 1 - (i + 1)) = W * (index + 1 - i) := by
        have : index + 1 - i = (index + 1 - (i + 1)) + 1 := by omega
        rw [this, Nat.mul_add]; simp; omega
      rw [this]; exact Nat.mul_le_mul_left _ (by omega)
    omega

/-- narrowing conversion to an unsigned type of `K = m·W` bits, m ≥ 2 -/
theorem narrow_wide_spec {W K : Nat} (s : Big) (h : Inv W s) (hdvd : W ∣ K) (hm : K / W > 1) :
    narrow W K s = .ok (s.val W % 2 ^ K) := by
  have hW := h.wpos
  have hB : 0 < 2 ^ W := Nat.pow_pos (by decide)
  have hlt := h.idx_lt
  have h0 : 0 < s.words.length := by omega
  have hKe : K = W * (K / W) := (Nat.mul_div_cancel' hdvd).symm
  have hnle : ¬ K ≤ W := by
    intro hle
    have : K / W ≤ 1 := by
      rcases Nat.eq_or_lt_of_le hle with e | l
      · rw [e, Nat.div_self hW]
      · rw [Nat.div_eq_of_lt l]; omega
    omega
  unfold narrow
  rw [if_neg hnle]
  dsimp only
  generalize hidx : (if K / W - 1 ≤ s.idx then K / W - 1 else s.idx) = index
  have hile : index ≤ K / W - 1 := by rw [← hidx]; split <;> omega
  have hiidx : index ≤ s.idx := by rw [← hidx]; split <;> omega
  have hilt : index < s.words.length := by omega
  have hK : 2 ^ (W * (index + 1)) ≤ 2 ^ K := by
    apply Nat.pow_le_pow_right (by decide)
    conv_rhs => rw [hKe]
    exact Nat.mul_le_mul_left _ (by omega)
  have hrun := narrowLoop_spec (K := K) s.words h.bound index hilt hK index 0 (Nat.le_refl _) (by
    have : (s.words.take (index + 1)).drop (index + 1) = [] := by
      apply List.drop_eq_nil_of_le; rw [List.length_take]; omega
    rw [this]; simp [valW])
  rw [hrun, rd_ok h0]
  simp only [bind, Except.bind, pure, Except.pure]
  congr 1
  have hw0 : s.words[0] < 2 ^ W := h.bound.getElem h0
  rw [Nat.mul_comm, Nat.or_comm, lor_eq_add_of_lt rfl hw0]
  have hTl : (s.words.take (index + 1)).length = index + 1 := by rw [List.length_take]; omega
  have hcons := valW_drop_cons W (s.words.take (index + 1)) 0 (by omega)
  have hget : (s.words.take (index + 1))[0]'(by omega) = s.words[0] := by simp
  rw [hget, List.drop_zero] at hcons
  rw [Nat.mul_comm, Nat.add_comm, ← hcons]
  -- the low index+1 words are the value modulo 2^K
  have hbT : Bounded W (s.words.take (index + 1)) := fun w hw' => h.bound w (List.mem_of_mem_take hw')
  have hTlt := valW_lt hbT
  rw [hTl] at hTlt
  by_cases hcase : index = s.idx
  · have hv : s.val W = valW W (s.words.take (index + 1)) := by
      unfold Big.val; rw [hcase]; exact valW_of_zeroFrom W s.words _ hlt h.above
    rw [hv, Nat.mod_eq_of_lt (by omega)]
  · have hie : index = K / W - 1 := by
      by_cases hc : K / W - 1 ≤ s.idx
      · rw [if_pos hc] at hidx; exact hidx.symm
      · rw [if_neg hc] at hidx; exact absurd hidx.symm hcase
    have hsplit := valW_split W s.words (index + 1) (by omega)
    have hKp : 2 ^ K = 2 ^ (W * (index + 1)) := by
      conv_lhs => rw [hKe]
      congr 2; omega
    unfold Big.val
    rw [hsplit, hKp, Nat.add_mul_mod_self_left, Nat.mod_eq_of_lt hTlt]

end Qentem.BigInt
