import Qentem.Proofs.BigIntPred
/-! `FindFirstBit`: the 2-adic valuation of a non-zero value. -/
namespace Qentem.BigInt

theorem ctzAux_spec : ∀ (f v : Nat), v ≠ 0 → v < 2 ^ f →
    2 ^ ctzAux f v ∣ v ∧ ¬ 2 ^ (ctzAux f v + 1) ∣ v
  | 0, v, h0, hlt => by simp at hlt; omega
  | f + 1, v, h0, hlt => by
    unfold ctzAux
    by_cases hodd : v % 2 = 1
    · simp only [hodd, beq_self_eq_true, if_true]
      refine ⟨by simp, ?_⟩
      intro hd
      have : v % 2 = 0 := Nat.mod_eq_zero_of_dvd (by simpa using hd)
      omega
    · have hev : v % 2 = 0 := by omega
      have hne : (v % 2 == 1) = false := by simp [hev]
      simp only [hne, Bool.false_eq_true, if_false]
      obtain ⟨q, hq⟩ : ∃ q, v = 2 * q := ⟨v / 2, by omega⟩
      subst hq
      have hq2 : 2 * q / 2 = q := Nat.mul_div_cancel_left q (by decide)
      rw [hq2]
      obtain ⟨ih1, ih2⟩ := ctzAux_spec f q (by omega) (by rw [Nat.pow_succ] at hlt; omega)
      constructor
      · rw [Nat.add_comm, Nat.pow_succ, Nat.mul_comm]
        exact Nat.mul_dvd_mul_left 2 ih1
      · intro hd
        apply ih2
        have e : 2 ^ (1 + ctzAux f q + 1) = 2 * 2 ^ (ctzAux f q + 1) := by
          rw [Nat.add_comm 1, Nat.pow_succ, Nat.mul_comm]
        rw [e] at hd
        exact Nat.dvd_of_mul_dvd_mul_left (by decide : 0 < 2) hd

theorem val2_unique {n a b : Nat} (ha : 2 ^ a ∣ n) (ha' : ¬ 2 ^ (a + 1) ∣ n) (hb : 2 ^ b ∣ n)
    (hb' : ¬ 2 ^ (b + 1) ∣ n) : a = b := by
  rcases Nat.lt_trichotomy a b with h | h | h
  · exact absurd (Nat.dvd_trans (Nat.pow_dvd_pow 2 h) hb) ha'
  · exact h
  · exact absurd (Nat.dvd_trans (Nat.pow_dvd_pow 2 h) ha) hb'

theorem ctz_spec (w : Nat) (hw : w ≠ 0) : 2 ^ ctz w ∣ w ∧ ¬ 2 ^ (ctz w + 1) ∣ w :=
  ctzAux_spec _ w hw Nat.lt_log2_self

theorem val2_spec (a : Nat) (ha : a ≠ 0) : 2 ^ val2 a ∣ a ∧ ¬ 2 ^ (val2 a + 1) ∣ a :=
  ctzAux_spec _ a ha (Nat.lt_of_lt_of_le Nat.lt_two_pow_self (Nat.pow_le_pow_right (by decide) (Nat.le_succ _)))

theorem firstNonZero_spec (idx : Nat) (ws : List Nat) (hidx : idx < ws.length) :
    ∀ (fuel index : Nat), index ≤ idx → idx - index < fuel → (∀ k, k < index → ws.getD k 0 = 0) →
    ∃ j, firstNonZero idx fuel ws index = .ok j ∧ j ≤ idx ∧ (∀ k, k < j → ws.getD k 0 = 0) ∧
      (j < idx → ws.getD j 0 ≠ 0)
  | 0, _, _, hf, _ => by omega
  | fuel + 1, index, hle, hf, hz => by
    unfold firstNonZero
    by_cases hlt : index < idx
    · rw [if_pos hlt, rd_ok (by omega : index < ws.length)]
      simp only [bind, Except.bind]
      by_cases hw : ws[index]'(by omega) = 0
      · simp only [hw, beq_self_eq_true, if_true]
        apply firstNonZero_spec idx ws hidx fuel (index + 1) (by omega) (by omega)
        intro k hk
        by_cases hki : k = index
        · subst hki; rw [getD_eq_getElem (by omega)]; exact hw
        · exact hz k (by omega)
      · have hne : (ws[index]'(by omega) == 0) = false := beq_false_of_ne hw
        simp only [hne, Bool.false_eq_true, if_false]
        exact ⟨index, rfl, hle, hz, fun _ => by rw [getD_eq_getElem (by omega)]; exact hw⟩
    · rw [if_neg hlt]
      exact ⟨index, rfl, hle, hz, fun h => by omega⟩

theorem findFirstBit_spec {W : Nat} (s : Big) (h : Inv W s) (hv : s.val W ≠ 0) :
    findFirstBit W s = .ok (val2 (s.val W)) := by
  have hlt := h.idx_lt
  obtain ⟨j, hrun, hj, hz, hnz⟩ := firstNonZero_spec s.idx s.words hlt (s.idx + 1) 0 (Nat.zero_le _) (by omega)
    (fun k hk => by omega)
  have hjl : j < s.words.length := by omega
  -- the scanned word is non-zero
  have hw : s.words[j] ≠ 0 := by
    by_cases hji : j < s.idx
    · have := hnz hji; rwa [getD_eq_getElem hjl] at this
    · have hje : j = s.idx := by omega
      by_cases hi : s.idx = 0
      · intro hzero
        apply hv
        rw [h.val_of_idx_zero hi]
        have e : s.words[0] = s.words[j] := by congr 1; omega
        rw [e]; exact hzero
      · have := h.top hi
        rw [getD_eq_getElem hlt] at this
        have e : s.words[s.idx] = s.words[j] := by congr 1; omega
        rwa [e] at this
  have hwB : s.words[j] < 2 ^ W := h.bound.getElem hjl
  -- value = 2^(W j) · (w + 2^W · rest)
  have hlow : valW W (s.words.take j) = 0 := by
    apply valW_eq_zero_of_zeroFrom0
    intro k _
    by_cases hk : k < j
    · have := hz k hk
      simpa [List.getD_eq_getElem?_getD, List.getElem?_take, hk] using this
    · simp [List.getD_eq_getElem?_getD, List.getElem?_take, hk]
  have hval : s.val W = 2 ^ (W * j) * (s.words[j] + 2 ^ W * valW W (s.words.drop (j + 1))) := by
    unfold Big.val
    rw [valW_split W s.words j (Nat.le_of_lt hjl), hlow, valW_drop_cons W s.words j hjl]; simp
  obtain ⟨c1, c2⟩ := ctz_spec _ hw
  obtain ⟨v1, v2⟩ := val2_spec _ hv
  have hcW : ctz s.words[j] < W := by
    by_contra hcon
    have h1 : 2 ^ W ∣ s.words[j] := Nat.dvd_trans (Nat.pow_dvd_pow 2 (by omega)) c1
    have := Nat.le_of_dvd (by omega) h1
    omega
  have hres : ctz s.words[j] + j * W = val2 (s.val W) := by
    apply val2_unique (n := s.val W) _ _ v1 v2
    · rw [hval, Nat.add_comm, Nat.mul_comm j W, Nat.pow_add]
      apply Nat.mul_dvd_mul_left
      exact (Nat.dvd_add_right c1).2 (Nat.dvd_trans (Nat.pow_dvd_pow 2 (Nat.le_of_lt hcW)) (Nat.dvd_mul_right _ _))
    · intro hd
      apply c2
      have e : 2 ^ (ctz s.words[j] + j * W + 1) = 2 ^ (W * j) * 2 ^ (ctz s.words[j] + 1) := by
        rw [← Nat.pow_add]; congr 1; rw [Nat.mul_comm j W]; omega
      rw [hval, e] at hd
      have hd' := Nat.dvd_of_mul_dvd_mul_left (Nat.pow_pos (by decide)) hd
      exact (Nat.dvd_add_left (Nat.dvd_trans (Nat.pow_dvd_pow 2 hcW) (Nat.dvd_mul_right _ _))).1 hd'
  unfold findFirstBit platFindFirstBit
  rw [hrun]
  simp only [bind, Except.bind]
  rw [rd_ok hjl]
  simp only []
  have hne : (s.words[j] == 0) = false := beq_false_of_ne hw
  simp only [hne, Bool.false_eq_true, if_false, pure, Except.pure]
  rw [hres]

end Qentem.BigInt
