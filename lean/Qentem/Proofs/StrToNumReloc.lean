import Qentem.Proofs.StrToNumBasic
import Qentem.Proofs.JsonTokens
/-! C06/C09 bridge — **relocation of `Digit::StringToNumber`**: the model's result on a numeral embedded at any offset
of any buffer and followed by a delimiter or the end equals its result on the numeral alone (shifted).

Part 1 (`Qentem.StrToNum`): `Emb` (the buffer contains the text at offset `o`, followed by the end or a stopping
unit), simulation lemmas for every loop and block of the model (`scanDigits_sim`, `iter1_sim`, `iter2_sim`,
`twentieth_sim`, `expDigits_sim`, `parseExponent_sim`, `tailLoop_sim`, `finishReal_sim`, `afterScan_sim`,
`skipZeros_sim`, `afterSign_sim`) and `strToNum_sim`.  The only requirements on the text: no `x`/`X` unit (the lenient
hex extension looks further) and no final dot.  Absolute offsets enter the arithmetic only through differences
(`sub32_shiftR`), except `start_offset = 0` on the leading-zero path, where the mantissa is zero and the scaled
exponent is not used.
Part 2 (`Qentem.Json`): `RfcNumeral` (RFC 8259 §6 grammar), `numSpec_of_standalone`. -/
set_option linter.unusedSimpArgs false
set_option linter.unusedVariables false
namespace Qentem.StrToNum

/-- a unit that ends every numeral: not a digit, `.`, `e`, `E`, `+`, `-`, `x`, `X` -/
def stopChar (x : Nat) : Bool :=
  !isDigit x && x != 46 && x != 101 && x != 69 && x != 43 && x != 45 && x != 120 && x != 88

/-- the buffer `(c, e)` contains at offset `o` exactly what `(c', e')` contains from 0, followed by the end or a
stopping unit -/
structure Emb (c : List Nat) (e : Nat) (c' : List Nat) (e' o : Nat) : Prop where
  rdIn : ∀ p, p < e' → ∃ x, rd c' e' p = some x ∧ rd c e (o + p) = some x
  le : o + e' ≤ e
  stop : o + e' = e ∨ ∃ x, rd c e (o + e') = some x ∧ stopChar x = true
  he : e < 2 ^ 32

variable {c : List Nat} {e : Nat} {c' : List Nat} {e' o : Nat}

theorem stopChar_facts {x : Nat} (h : stopChar x = true) :
    isDigit x = false ∧ x ≠ 46 ∧ x ≠ 101 ∧ x ≠ 69 ∧ x ≠ 43 ∧ x ≠ 45 ∧ x ≠ 120 ∧ x ≠ 88 ∧ x ≠ 48 ∧
    isNonZeroDigit x = false ∧ isDotOrE x = false := by
  simp only [stopChar, Bool.and_eq_true, Bool.not_eq_true', bne_iff_ne, ne_eq] at h
  obtain ⟨⟨⟨⟨⟨⟨⟨h1, h2⟩, h3⟩, h4⟩, h5⟩, h6⟩, h7⟩, h8⟩ := h
  refine ⟨h1, h2, h3, h4, h5, h6, h7, h8, ?_, ?_, ?_⟩
  · intro h; subst h; simp [isDigit] at h1
  · simp only [isDigit, isNonZeroDigit] at h1 ⊢
    cases hd : (decide (48 < x) && decide (x ≤ 57)) with
    | false => rfl
    | true =>
      simp only [Bool.and_eq_true, decide_eq_true_eq] at hd
      have : (decide (48 ≤ x) && decide (x ≤ 57)) = true := by simp; omega
      rw [this] at h1; cases h1
  · simp [isDotOrE, h2, h3, h4]

/-- the run of `scanDigits` inside the embedded numeral and standalone -/
theorem scanDigits_sim (h : Emb c e c' e' o) : ∀ (k' k off num dg dg' : Nat), off + k' ≤ e' →
    (k = k' ∨ (off + k' = e' ∧ k' ≤ k ∧ o + off + k ≤ e)) → dg ≠ 46 → dg' ≠ 46 →
    ∃ off1 num1 dA dB, scanDigits c e k (o + off) num dg = some (o + off1, num1, dA) ∧
      scanDigits c' e' k' off num dg' = some (off1, num1, dB) ∧ off ≤ off1 ∧ off1 ≤ off + k' ∧
      (dA = 46 ↔ dB = 46) ∧ (dB = 46 → off1 < off + k' ∧ rd c' e' off1 = some 46) := by
  intro k'
  induction k' with
  | zero =>
    intro k off num dg dg' hle hk hdg hdg'
    cases k with
    | zero => exact ⟨off, num, dg, dg', rfl, rfl, Nat.le_refl _, Nat.le_refl _, by simp [hdg, hdg'], fun h => absurd h hdg'⟩
    | succ k =>
      rcases hk with hk | ⟨h1, h2, h3⟩
      · omega
      · rcases h.stop with hs | ⟨x, hx, hst⟩
        · omega
        · obtain ⟨hxd, hx46, _⟩ := stopChar_facts hst
          have hoff : off = e' := by omega
          subst hoff
          refine ⟨off, num, x, dg', ?_, rfl, Nat.le_refl _, Nat.le_refl _, by simp [hx46, hdg'], fun h => absurd h hdg'⟩
          rw [scanDigits, hx]; simp [hxd]
  | succ k' ih =>
    intro k off num dg dg' hle hk hdg hdg'
    obtain ⟨x, hxB, hxA⟩ := h.rdIn off (by omega)
    obtain ⟨j, hj⟩ : ∃ j, k = j + 1 := by
      rcases hk with hk | ⟨h1, h2, h3⟩
      · exact ⟨k', hk⟩
      · exact ⟨k - 1, by omega⟩
    subst hj
    rw [scanDigits, scanDigits, hxA, hxB]
    by_cases hd : isDigit x = true
    · simp only [hd, if_true]
      have hx46 : x ≠ 46 := by intro hc; subst hc; simp [isDigit] at hd
      obtain ⟨off1, num1, dA, dB, hA, hB, h1, h2, h3, h4⟩ := ih j (off + 1) (pushDigit num x) x x (by omega)
        (by rcases hk with hk | ⟨a, b, c⟩
            · left; omega
            · right; omega) hx46 hx46
      refine ⟨off1, num1, dA, dB, ?_, hB, by omega, by omega, h3, fun hh => ?_⟩
      · rw [← hA]; congr 1
      · obtain ⟨a, b⟩ := h4 hh; exact ⟨by omega, b⟩
    · simp only [hd, if_false]
      exact ⟨off, num, x, x, rfl, rfl, Nat.le_refl _, by omega, Iff.rfl, fun hh => ⟨by omega, by rw [← hh]; exact hxB⟩⟩


/-- the same when the standalone run has fuel: the incoming `digit` values do not matter -/
theorem scanDigits_sim2 (h : Emb c e c' e' o) (k' k off num dg dg' : Nat) (hle : off + k' ≤ e')
    (hk : k = k' ∨ (off + k' = e' ∧ k' ≤ k ∧ o + off + k ≤ e)) (hdg : (dg ≠ 46 ∧ dg' ≠ 46) ∨ 1 ≤ k') :
    ∃ off1 num1 dA dB, scanDigits c e k (o + off) num dg = some (o + off1, num1, dA) ∧
      scanDigits c' e' k' off num dg' = some (off1, num1, dB) ∧ off ≤ off1 ∧ off1 ≤ off + k' ∧
      (dA = 46 ↔ dB = 46) ∧ (dB = 46 → off1 < off + k' ∧ rd c' e' off1 = some 46) := by
  rcases hdg with ⟨a, b⟩ | hk1
  · exact scanDigits_sim h k' k off num dg dg' hle hk a b
  · obtain ⟨j', hj'⟩ : ∃ j', k' = j' + 1 := ⟨k' - 1, by omega⟩
    subst hj'
    obtain ⟨j, hj⟩ : ∃ j, k = j + 1 := by
      rcases hk with hk | ⟨_, h2, _⟩
      · exact ⟨j', hk⟩
      · exact ⟨k - 1, by omega⟩
    subst hj
    obtain ⟨x, hxB, hxA⟩ := h.rdIn off (by omega)
    rw [scanDigits, scanDigits, hxA, hxB]
    by_cases hd : isDigit x = true
    · simp only [hd, if_true]
      have hx46 : x ≠ 46 := by intro hc; subst hc; simp [isDigit] at hd
      obtain ⟨off1, num1, dA, dB, hA, hB, h1, h2, h3, h4⟩ := scanDigits_sim h j' j (off + 1) (pushDigit num x) x x (by omega)
        (by rcases hk with hk | ⟨a, b, c⟩
            · left; omega
            · right; omega) hx46 hx46
      refine ⟨off1, num1, dA, dB, ?_, hB, by omega, by omega, h3, fun hh => ?_⟩
      · rw [← hA]; congr 1
      · obtain ⟨a, b⟩ := h4 hh; exact ⟨by omega, b⟩
    · simp only [hd, if_false]
      exact ⟨off, num, x, x, rfl, rfl, Nat.le_refl _, by omega, Iff.rfl, fun hh => ⟨by omega, by rw [← hh]; exact hxB⟩⟩

/-! ### relations between the two runs -/

def RelRes (o : Nat) (rA rB : Res) : Prop := rA.kind = rB.kind ∧ rA.bits = rB.bits ∧ rA.offset = o + rB.offset

def RelScan (o : Nat) (sA sB : Scan) : Prop :=
  sA.num = sB.num ∧ sA.off = o + sB.off ∧ sA.hasDot = sB.hasDot ∧ sA.isReal = sB.isReal ∧
  (sB.hasDot = true → sA.dotOff = o + sB.dotOff) ∧ (sB.hasDot = false → sA.dotOff = 0 ∧ sB.dotOff = 0)

def RelSum (o e' lo : Nat) : Option (Res ⊕ Scan) → Option (Res ⊕ Scan) → Prop
  | some (.inl rA), some (.inl rB) => RelRes o rA rB
  | some (.inr sA), some (.inr sB) => RelScan o sA sB ∧ sB.off ≤ e' ∧ (sB.hasDot = true → sB.dotOff ≤ e') ∧ lo ≤ sB.off
  | _, _ => False

theorem RelSum.mono {o e' lo lo' : Nat} (hle : lo' ≤ lo) {a b : Option (Res ⊕ Scan)} (h : RelSum o e' lo a b) :
    RelSum o e' lo' a b := by
  match a, b, h with
  | some (.inl _), some (.inl _), hh => exact hh
  | some (.inr _), some (.inr _), hh => exact ⟨hh.1, hh.2.1, hh.2.2.1, Nat.le_trans hle hh.2.2.2⟩

/-- the two scan windows: shifted, or the standalone one is the end of the text -/
def RelWin (o e e' wA wB : Nat) : Prop := (wA = o + wB ∧ wB ≤ e') ∨ (wB = e' ∧ o + e' ≤ wA ∧ wA ≤ e)

theorem iter2_sim (h : Emb c e c' e' o) (wA wB num off dg dg' dotOff : Nat) (hw : RelWin o e e' wA wB)
    (hoff : off ≤ wB) (hdg : (dg ≠ 46 ∧ dg' ≠ 46) ∨ off < wB) (hdotE : dotOff ≤ e') :
    RelSum o e' off (iter2 c e wA num (o + off) dg (o + dotOff)) (iter2 c' e' wB num off dg' dotOff) := by
  have hwB : wB ≤ e' := by rcases hw with ⟨_, h2⟩ | ⟨h1, _, _⟩ <;> omega
  unfold iter2
  by_cases hlt : off < e'
  · have hltA : o + off < e := by have := h.le; omega
    rw [if_pos hltA, if_pos hlt]
    obtain ⟨off1, num1, dA, dB, hA, hB, h1, h2, h3, h4⟩ := scanDigits_sim2 h (wB - off) (wA - (o + off)) off num dg dg'
      (by omega) (by
        rcases hw with ⟨a, b⟩ | ⟨a, b, c⟩
        · left; omega
        · right; omega) (by rcases hdg with hdg | hdg
                            · exact Or.inl hdg
                            · right; omega)
    rw [hA, hB]
    by_cases hd : dB = 46
    · have hdA : dA = 46 := h3.mpr hd
      simp only [hd, hdA, if_true]
      exact ⟨rfl, rfl, rfl⟩
    · have hdA : dA ≠ 46 := fun hc => hd (h3.mp hc)
      simp only [hd, hdA, if_false]
      exact ⟨⟨rfl, rfl, rfl, rfl, fun _ => rfl, fun hc => by cases hc⟩, by show off1 ≤ e'; omega, fun _ => hdotE, h1⟩
  · rw [if_neg hlt]
    have hoe : off = e' := by omega
    subst hoe
    obtain ⟨hdg, hdg'⟩ : dg ≠ 46 ∧ dg' ≠ 46 := by
      rcases hdg with hdg | hdg
      · exact hdg
      · omega
    by_cases hltA : o + off < e
    · rw [if_pos hltA]
      obtain ⟨off1, num1, dA, dB, hA, hB, h1, h2, h3, h4⟩ := scanDigits_sim h 0 (wA - (o + off)) off num dg dg'
        (by omega) (by
          rcases hw with ⟨a, b⟩ | ⟨a, b, c⟩
          · left; omega
          · right; omega) hdg hdg'
      have hB' : scanDigits c' off 0 off num dg' = some (off, num, dg') := rfl
      rw [hB'] at hB
      injection hB with hB
      injection hB with hb1 hb2
      injection hb2 with hb2 hb3
      subst hb1; subst hb2; subst hb3
      rw [hA]
      have hdA : dA ≠ 46 := fun hc => hdg' (h3.mp hc)
      simp only [hdA, if_false]
      exact ⟨⟨rfl, rfl, rfl, rfl, fun _ => rfl, fun hc => by cases hc⟩, Nat.le_refl _, fun _ => hdotE, Nat.le_refl _⟩
    · rw [if_neg hltA]
      exact ⟨⟨rfl, rfl, rfl, rfl, fun _ => rfl, fun hc => by cases hc⟩, Nat.le_refl _, fun _ => hdotE, Nat.le_refl _⟩


theorem relScan_nodot (o num off : Nat) (isReal : Bool) :
    RelScan o ⟨num, o + off, false, 0, isReal⟩ ⟨num, off, false, 0, isReal⟩ := by
  refine ⟨rfl, rfl, rfl, rfl, ?_, ?_⟩
  · intro hc; cases hc
  · intro _; exact ⟨rfl, rfl⟩

theorem relScan_dot (o num off dotOff : Nat) (isReal : Bool) :
    RelScan o ⟨num, o + off, true, o + dotOff, isReal⟩ ⟨num, off, true, dotOff, isReal⟩ := by
  refine ⟨rfl, rfl, rfl, rfl, ?_, ?_⟩
  · intro _; rfl
  · intro hc; cases hc

theorem rd_stop_or_end (h : Emb c e c' e' o) {w : Nat} (hw1 : o + e' < w) (hw2 : w ≤ e) :
    ∃ x, rd c e (o + e') = some x ∧ stopChar x = true := by
  rcases h.stop with hs | hs
  · omega
  · exact hs

theorem iter1_sim (h : Emb c e c' e' o) (wA wB num off dg dg' : Nat) (isReal : Bool) (hw : RelWin o e e' wA wB)
    (hoff : off ≤ wB) (hdg : dg ≠ 46) (hdg' : dg' ≠ 46) :
    RelSum o e' off (iter1 c e wA num (o + off) dg false 0 isReal) (iter1 c' e' wB num off dg' false 0 isReal) := by
  have hwB : wB ≤ e' := by rcases hw with ⟨_, h2⟩ | ⟨h1, _, _⟩ <;> omega
  have hle := h.le
  unfold iter1
  simp only [Bool.false_eq_true, if_false]
  by_cases hlt : off < e'
  · have hltA : o + off < e := by omega
    rw [if_pos hltA, if_pos hlt]
    obtain ⟨off1, num1, dA, dB, hA, hB, h1, h2, h3, h4⟩ := scanDigits_sim h (wB - off) (wA - (o + off)) off num dg dg'
      (by omega) (by
        rcases hw with ⟨a, b⟩ | ⟨a, b, c⟩
        · left; omega
        · right; omega) hdg hdg'
    rw [hA, hB]
    by_cases hd : dB = 46
    · have hdA : dA = 46 := h3.mpr hd
      obtain ⟨h5, h6⟩ := h4 hd
      have hoff2 : off1 + 1 ≤ wB := by omega
      simp only [hd, hdA, if_true]
      have hscan : RelSum o e' off (some (Sum.inr ⟨num1, o + off1 + 1, true, o + off1, true⟩))
          (some (Sum.inr ⟨num1, off1 + 1, true, off1, true⟩)) :=
        ⟨⟨rfl, by show o + off1 + 1 = o + (off1 + 1); omega, rfl, rfl, fun _ => rfl, fun hc => by cases hc⟩,
          by show off1 + 1 ≤ e'; omega, fun _ => by show off1 ≤ e'; omega, by show off ≤ off1 + 1; omega⟩
      by_cases hb : off1 + 1 < wB
      · have ha : o + off1 + 1 < wA := by
          rcases hw with ⟨a, b⟩ | ⟨a, b, c⟩ <;> omega
        rw [if_pos ha, if_pos hb]
        obtain ⟨d2, hd2B, hd2A⟩ := h.rdIn (off1 + 1) (by omega)
        rw [show o + off1 + 1 = o + (off1 + 1) by omega, hd2A, hd2B]
        by_cases hnz : isNonZeroDigit d2 = true
        · simp only [hnz, if_true]
          have hd246 : d2 ≠ 46 := by intro hc; subst hc; simp [isNonZeroDigit] at hnz
          exact (iter2_sim h wA wB num1 (off1 + 1) d2 d2 off1 hw hoff2 (Or.inl ⟨hd246, hd246⟩) (by omega)).mono (by omega)
        · simp only [hnz, Bool.false_eq_true, if_false]
          by_cases hb2 : d2 = 48 ∧ off1 + 1 + 1 < wB
          · have ha2 : d2 = 48 ∧ o + (off1 + 1) + 1 < wA := by
              refine ⟨hb2.1, ?_⟩
              rcases hw with ⟨a, b⟩ | ⟨a, b, c⟩ <;> omega
            rw [if_pos ha2, if_pos hb2]
            obtain ⟨d3, hd3B, hd3A⟩ := h.rdIn (off1 + 1 + 1) (by omega)
            rw [show o + (off1 + 1) + 1 = o + (off1 + 1 + 1) by omega, hd3A, hd3B]
            by_cases hd3 : isDigit d3 = true
            · simp only [hd3, if_true]
              have hd346 : d3 ≠ 46 := by intro hc; subst hc; simp [isDigit] at hd3
              exact (iter2_sim h wA wB num1 (off1 + 1) d3 d3 off1 hw hoff2 (Or.inl ⟨hd346, hd346⟩) (by omega)).mono (by omega)
            · simp only [hd3, Bool.false_eq_true, if_false]
              rw [show o + (off1 + 1) = o + off1 + 1 by omega]; exact hscan
          · rw [if_neg hb2]
            by_cases ha2 : d2 = 48 ∧ o + (off1 + 1) + 1 < wA
            · rw [if_pos ha2]
              have hwe : wB = e' ∧ off1 + 1 + 1 = e' := by
                have := hb2; simp only [ha2.1, true_and] at this
                rcases hw with ⟨a, b⟩ | ⟨a, b, c⟩ <;> omega
              obtain ⟨x, hx, hst⟩ := rd_stop_or_end h (w := wA) (by omega) (by rcases hw with ⟨a, b⟩ | ⟨a, b, c⟩ <;> omega)
              rw [show o + (off1 + 1) + 1 = o + e' by omega, hx]
              simp only [(stopChar_facts hst).1, Bool.false_eq_true, if_false]
              rw [show o + (off1 + 1) = o + off1 + 1 by omega]; exact hscan
            · rw [if_neg ha2, show o + (off1 + 1) = o + off1 + 1 by omega]; exact hscan
      · rw [if_neg hb]
        by_cases ha : o + off1 + 1 < wA
        · rw [if_pos ha]
          have hwe : wB = e' ∧ off1 + 1 = e' := by rcases hw with ⟨a, b⟩ | ⟨a, b, c⟩ <;> omega
          obtain ⟨x, hx, hst⟩ := rd_stop_or_end h (w := wA) (by omega) (by rcases hw with ⟨a, b⟩ | ⟨a, b, c⟩ <;> omega)
          have hf := stopChar_facts hst
          rw [show o + off1 + 1 = o + e' by omega, hx]
          simp only [hf.2.2.2.2.2.2.2.2.2.1, Bool.false_eq_true, if_false, hf.2.2.2.2.2.2.2.2.1, false_and]
          rw [show o + e' = o + off1 + 1 by omega]; exact hscan
        · rw [if_neg ha]; exact hscan
    · have hdA : dA ≠ 46 := fun hc => hd (h3.mp hc)
      simp only [hd, hdA, if_false]
      exact ⟨relScan_nodot o num1 off1 isReal, by show off1 ≤ e'; omega, fun hc => Bool.noConfusion hc, h1⟩
  · rw [if_neg hlt]
    have hoe : off = e' := by omega
    subst hoe
    by_cases hltA : o + off < e
    · rw [if_pos hltA]
      obtain ⟨off1, num1, dA, dB, hA, hB, h1, h2, h3, h4⟩ := scanDigits_sim h 0 (wA - (o + off)) off num dg dg'
        (by omega) (by
          rcases hw with ⟨a, b⟩ | ⟨a, b, c⟩
          · left; omega
          · right; omega) hdg hdg'
      have hB' : scanDigits c' off 0 off num dg' = some (off, num, dg') := rfl
      rw [hB'] at hB
      injection hB with hB
      injection hB with hb1 hb2
      injection hb2 with hb2 hb3
      subst hb1; subst hb2; subst hb3
      rw [hA]
      have hdA : dA ≠ 46 := fun hc => hdg' (h3.mp hc)
      simp only [hdA, if_false]
      exact ⟨relScan_nodot o num off isReal, Nat.le_refl _, fun hc => Bool.noConfusion hc, Nat.le_refl _⟩
    · rw [if_neg hltA]
      exact ⟨relScan_nodot o num off isReal, Nat.le_refl _, fun hc => Bool.noConfusion hc, Nat.le_refl _⟩


theorem twentieth_sim (h : Emb c e c' e' o) (num off : Nat) (isReal : Bool) (hoff : off ≤ e') :
    ∃ n p r, twentieth c e num (o + off) isReal = some (n, o + p, o + p, r) ∧
      twentieth c' e' num off isReal = some (n, p, p, r) ∧ off ≤ p ∧ p ≤ e' ∧
      (n = num ∨ ∃ d, rd c' e' off = some d ∧ isDigit d = true) := by
  have hle := h.le
  unfold twentieth
  cases isReal with
  | true => exact ⟨num, off, true, by simp, by simp, Nat.le_refl _, hoff, Or.inl rfl⟩
  | false =>
    simp only [Bool.not_false, true_and]
    by_cases hlt : off < e'
    · have hltA : o + off < e := by omega
      rw [if_pos hltA, if_pos hlt]
      obtain ⟨d, hdB, hdA⟩ := h.rdIn off hlt
      rw [hdA, hdB]
      by_cases hde : isDotOrE d = true
      · simp only [hde, if_true]
        exact ⟨num, off, true, rfl, rfl, Nat.le_refl _, hoff, Or.inl rfl⟩
      · simp only [hde, Bool.false_eq_true, if_false]
        by_cases hdd : isDigit d = true
        · simp only [hdd, if_true]
          by_cases hov : num > 0x1999999999999999 ∨ (num = 0x1999999999999999 ∧ d > 53)
          · rw [if_pos hov, if_pos hov]
            exact ⟨num, off, true, rfl, rfl, Nat.le_refl _, hoff, Or.inl rfl⟩
          · rw [if_neg hov, if_neg hov]
            by_cases h1 : off + 1 < e'
            · have h1A : o + off + 1 < e := by omega
              rw [if_pos h1A, if_pos h1]
              obtain ⟨d2, hd2B, hd2A⟩ := h.rdIn (off + 1) h1
              rw [show o + off + 1 = o + (off + 1) by omega, hd2A, hd2B]
              exact ⟨pushDigit num d, off + 1, isDotOrE d2 || isDigit d2, rfl, rfl, by omega, by omega, Or.inr ⟨d, rfl, hdd⟩⟩
            · rw [if_neg h1]
              by_cases h1A : o + off + 1 < e
              · rw [if_pos h1A]
                obtain ⟨x, hx, hst⟩ := rd_stop_or_end h (w := e) (by omega) (Nat.le_refl _)
                have hf := stopChar_facts hst
                rw [show o + off + 1 = o + e' by omega, hx]
                refine ⟨pushDigit num d, off + 1, false, ?_, rfl, by omega, by omega, Or.inr ⟨d, rfl, hdd⟩⟩
                simp [hf.1, hf.2.2.2.2.2.2.2.2.2.2]
                omega
              · rw [if_neg h1A]
                exact ⟨pushDigit num d, off + 1, false, by simp; omega, rfl, by omega, by omega, Or.inr ⟨d, rfl, hdd⟩⟩
        · simp only [hdd, Bool.false_eq_true, if_false]
          exact ⟨num, off, false, rfl, rfl, Nat.le_refl _, hoff, Or.inl rfl⟩
    · rw [if_neg hlt]
      have hoe : off = e' := by omega
      subst hoe
      by_cases hltA : o + off < e
      · rw [if_pos hltA]
        obtain ⟨x, hx, hst⟩ := rd_stop_or_end h (w := e) (by omega) (Nat.le_refl _)
        have hf := stopChar_facts hst
        rw [hx]
        simp only [hf.2.2.2.2.2.2.2.2.2.2, Bool.false_eq_true, if_false, hf.1]
        exact ⟨num, off, false, rfl, rfl, Nat.le_refl _, Nat.le_refl _, Or.inl rfl⟩
      · rw [if_neg hltA]
        exact ⟨num, off, false, rfl, rfl, Nat.le_refl _, Nat.le_refl _, Or.inl rfl⟩


theorem expDigits_sim (h : Emb c e c' e' o) : ∀ (k' k off x : Nat), off + k' = e' → o + off + k = e →
    ∃ x1 off1, expDigits c e k (o + off) x = some (x1, o + off1) ∧ expDigits c' e' k' off x = some (x1, off1) ∧
      off ≤ off1 ∧ off1 ≤ e' := by
  intro k'
  induction k' with
  | zero =>
    intro k off x h1 h2
    cases k with
    | zero => exact ⟨x, off, rfl, rfl, Nat.le_refl _, by omega⟩
    | succ k =>
      obtain ⟨y, hy, hst⟩ := rd_stop_or_end h (w := e) (by omega) (Nat.le_refl _)
      have hoe : off = e' := by omega
      subst hoe
      refine ⟨x, off, ?_, rfl, Nat.le_refl _, Nat.le_refl _⟩
      rw [expDigits, hy]; simp [(stopChar_facts hst).1]
  | succ k' ih =>
    intro k off x h1 h2
    have hle := h.le
    obtain ⟨j, hj⟩ : ∃ j, k = j + 1 := ⟨k - 1, by omega⟩
    subst hj
    obtain ⟨d, hdB, hdA⟩ := h.rdIn off (by omega)
    rw [expDigits, expDigits, hdA, hdB]
    by_cases hd : isDigit d = true
    · simp only [hd, if_true]
      obtain ⟨x1, off1, hA, hB, h3, h4⟩ := ih j (off + 1) (if x < 100000000 then (x * 10 + (d - 48)) % 2 ^ 32 else x)
        (by omega) (by omega)
      exact ⟨x1, off1, by rw [← hA]; congr 1, hB, by omega, h4⟩
    · simp only [hd, Bool.false_eq_true, if_false]
      exact ⟨x, off, rfl, rfl, Nat.le_refl _, by omega⟩

theorem parseExponent_sim (h : Emb c e c' e' o) (off : Nat) (hoff : off ≤ e') :
    ∃ ok x neg off1, parseExponent c e (o + off) = some (ok, x, neg, o + off1) ∧
      parseExponent c' e' off = some (ok, x, neg, off1) ∧ off ≤ off1 ∧ off1 ≤ e' := by
  have hle := h.le
  unfold parseExponent
  by_cases hlt : off < e'
  · have hltA : o + off < e := by omega
    rw [if_pos hltA, if_pos hlt]
    obtain ⟨d, hdB, hdA⟩ := h.rdIn off hlt
    rw [hdA, hdB]
    by_cases hs : d = 43 ∨ d = 45
    · simp only [hs, if_true]
      by_cases h1 : off + 1 < e'
      · have h1A : o + off + 1 < e := by omega
        rw [if_pos h1A, if_pos h1]
        obtain ⟨d1, hd1B, hd1A⟩ := h.rdIn (off + 1) h1
        rw [show o + off + 1 = o + (off + 1) by omega, hd1A, hd1B]
        by_cases hs1 : d1 = 43 ∨ d1 = 45
        · simp only [hs1, if_true]
          exact ⟨false, 0, d == 45, off + 1, rfl, rfl, by omega, by omega⟩
        · simp only [hs1, if_false]
          obtain ⟨x1, off2, hA, hB, h3, h4⟩ := expDigits_sim h (e' - (off + 1)) (e - (o + (off + 1))) (off + 1) 0
            (by omega) (by omega)
          rw [hA, hB]
          refine ⟨off2 != off + 1, x1, d == 45, off2, ?_, rfl, by omega, h4⟩
          have : (o + off2 != o + (off + 1)) = (off2 != off + 1) := by
            by_cases hq : off2 = off + 1
            · subst hq; simp
            · have hne : (o + off2 == o + (off + 1)) = false := by
                exact beq_false_of_ne (by omega)
              have hne2 : (off2 == off + 1) = false := by exact beq_false_of_ne hq
              simp only [bne, hne, hne2]
          show some (o + off2 != o + (off + 1), x1, d == 45, o + off2) = _
          rw [this]
      · rw [if_neg h1]
        by_cases h1A : o + off + 1 < e
        · rw [if_pos h1A]
          obtain ⟨y, hy, hst⟩ := rd_stop_or_end h (w := e) (by omega) (Nat.le_refl _)
          have hf := stopChar_facts hst
          rw [show o + off + 1 = o + e' by omega, hy]
          have hns : ¬ (y = 43 ∨ y = 45) := fun hc => hc.elim (fun a => hf.2.2.2.2.1 a) (fun a => hf.2.2.2.2.2.1 a)
          simp only [hns, if_false]
          obtain ⟨j, hj⟩ : ∃ j, e - (o + e') = j + 1 := ⟨e - (o + e') - 1, by omega⟩
          rw [hj, expDigits, hy]
          simp only [hf.1, Bool.false_eq_true, if_false]
          exact ⟨false, 0, d == 45, off + 1, by simp; omega, rfl, by omega, by omega⟩
        · rw [if_neg h1A]
          exact ⟨false, 0, d == 45, off + 1, by simp; omega, rfl, by omega, by omega⟩
    · simp only [hs, if_false]
      obtain ⟨x1, off2, hA, hB, h3, h4⟩ := expDigits_sim h (e' - off) (e - (o + off)) off 0 (by omega) (by omega)
      rw [hA, hB]
      refine ⟨off2 != off, x1, false, off2, ?_, rfl, h3, h4⟩
      have : (o + off2 != o + off) = (off2 != off) := by
        by_cases hq : off2 = off
        · subst hq; simp
        · have hne : (o + off2 == o + off) = false := by
            exact beq_false_of_ne (by omega)
          have hne2 : (off2 == off) = false := by exact beq_false_of_ne hq
          simp only [bne, hne, hne2]
      show some (o + off2 != o + off, x1, false, o + off2) = _
      rw [this]
  · rw [if_neg hlt]
    have hoe : off = e' := by omega
    subst hoe
    by_cases hltA : o + off < e
    · rw [if_pos hltA]
      obtain ⟨y, hy, hst⟩ := rd_stop_or_end h (w := e) (by omega) (Nat.le_refl _)
      have hf := stopChar_facts hst
      rw [hy]
      have hns : ¬ (y = 43 ∨ y = 45) := fun hc => hc.elim (fun a => hf.2.2.2.2.1 a) (fun a => hf.2.2.2.2.2.1 a)
      simp only [hns, if_false]
      obtain ⟨j, hj⟩ : ∃ j, e - (o + off) = j + 1 := ⟨e - (o + off) - 1, by omega⟩
      rw [hj, expDigits, hy]
      simp only [hf.1, Bool.false_eq_true, if_false]
      exact ⟨false, 0, false, off, by simp, rfl, Nat.le_refl _, Nat.le_refl _⟩
    · rw [if_neg hltA]
      exact ⟨false, 0, false, off, rfl, rfl, Nat.le_refl _, Nat.le_refl _⟩


/-- relation between the two results of the tail loop started at `off` with the dot state `(hasDot, dA | dB)` -/
def RelTail (o off : Nat) (hasDot : Bool) (dA dB : Nat) (tA tB : Tail) : Prop :=
  tA.off = o + tB.off ∧ off ≤ tB.off ∧ tA.hasDot = tB.hasDot ∧ tA.exponent = tB.exponent ∧ tA.negExp = tB.negExp ∧
  ((tA.expOff = 0 ∧ tB.expOff = 0) ∨ (off ≤ tB.expOff ∧ tB.expOff ≤ tB.off ∧ tA.expOff = o + tB.expOff)) ∧
  ((tA.dotOff = dA ∧ tB.dotOff = dB ∧ tB.hasDot = hasDot) ∨
   (hasDot = false ∧ tB.hasDot = true ∧ off ≤ tB.dotOff ∧ tB.dotOff ≤ tB.off ∧ tA.dotOff = o + tB.dotOff))

def RelTailSum (o e' off : Nat) (hasDot : Bool) (dA dB : Nat) : Option (Res ⊕ Tail) → Option (Res ⊕ Tail) → Prop
  | some (.inl rA), some (.inl rB) => RelRes o rA rB
  | some (.inr tA), some (.inr tB) => RelTail o off hasDot dA dB tA tB ∧ tB.off ≤ e'
  | _, _ => False

theorem RelTail.mono {o off off' : Nat} {hasDot : Bool} {dA dB : Nat} {tA tB : Tail} (hle : off' ≤ off)
    (h : RelTail o off hasDot dA dB tA tB) : RelTail o off' hasDot dA dB tA tB := by
  obtain ⟨h1, h2, h3, h4, h5, h6, h7⟩ := h
  refine ⟨h1, by omega, h3, h4, h5, ?_, ?_⟩
  · rcases h6 with h6 | ⟨a, b⟩
    · exact Or.inl h6
    · exact Or.inr ⟨by omega, b⟩
  · rcases h7 with h7 | ⟨a, b, c, d⟩
    · exact Or.inl h7
    · exact Or.inr ⟨a, b, by omega, d⟩

theorem tailLoop_sim (h : Emb c e c' e' o) (num : Nat) : ∀ (k' k off : Nat) (hasDot : Bool) (dA dB : Nat),
    off + k' = e' → o + off + k = e →
    RelTailSum o e' off hasDot dA dB (tailLoop c e num k (o + off) hasDot dA) (tailLoop c' e' num k' off hasDot dB) := by
  intro k'
  induction k' with
  | zero =>
    intro k off hasDot dA dB h1 h2
    have hB : tailLoop c' e' num 0 off hasDot dB = some (.inr ⟨off, hasDot, dB, 0, 0, false⟩) := rfl
    rw [hB]
    have hrel : RelTail o off hasDot dA dB ⟨o + off, hasDot, dA, 0, 0, false⟩ ⟨off, hasDot, dB, 0, 0, false⟩ :=
      ⟨rfl, Nat.le_refl _, rfl, rfl, rfl, Or.inl ⟨rfl, rfl⟩, Or.inl ⟨rfl, rfl, rfl⟩⟩
    cases k with
    | zero => exact ⟨hrel, by show off ≤ e'; omega⟩
    | succ k =>
      obtain ⟨y, hy, hst⟩ := rd_stop_or_end h (w := e) (by omega) (Nat.le_refl _)
      have hf := stopChar_facts hst
      have hoe : off = e' := by omega
      subst hoe
      rw [tailLoop, hy]
      have hne : ¬ (y = 101 ∨ y = 69) := fun hc => hc.elim (fun a => hf.2.2.1 a) (fun a => hf.2.2.2.1 a)
      simp only [hf.1, Bool.false_eq_true, if_false, hf.2.1, hne]
      exact ⟨hrel, Nat.le_refl _⟩
  | succ k' ih =>
    intro k off hasDot dA dB h1 h2
    have hle := h.le
    obtain ⟨j, hj⟩ : ∃ j, k = j + 1 := ⟨k - 1, by omega⟩
    subst hj
    obtain ⟨d, hdB, hdA⟩ := h.rdIn off (by omega)
    rw [tailLoop, tailLoop, hdA, hdB]
    by_cases hd : isDigit d = true
    · simp only [hd, if_true]
      have := ih j (off + 1) hasDot dA dB (by omega) (by omega)
      rw [show o + (off + 1) = o + off + 1 by omega] at this
      revert this
      generalize tailLoop c e num j (o + off + 1) hasDot dA = rA
      generalize tailLoop c' e' num k' (off + 1) hasDot dB = rB
      intro this
      match rA, rB, this with
      | some (.inl a), some (.inl b), hh => exact hh
      | some (.inr a), some (.inr b), hh => exact ⟨hh.1.mono (by omega), hh.2⟩
    · simp only [hd, Bool.false_eq_true, if_false]
      by_cases h46 : d = 46
      · simp only [h46, if_true]
        cases hasDot with
        | false =>
          simp only [Bool.not_false, if_true]
          have := ih j (off + 1) true (o + off) off (by omega) (by omega)
          rw [show o + (off + 1) = o + off + 1 by omega] at this
          revert this
          generalize tailLoop c e num j (o + off + 1) true (o + off) = rA
          generalize tailLoop c' e' num k' (off + 1) true off = rB
          intro this
          match rA, rB, this with
          | some (.inl a), some (.inl b), hh => exact hh
          | some (.inr a), some (.inr b), hh =>
            obtain ⟨⟨g1, g2, g3, g4, g5, g6, g7⟩, g8⟩ := hh
            refine ⟨⟨g1, by omega, g3, g4, g5, ?_, ?_⟩, g8⟩
            · rcases g6 with g6 | ⟨a1, b1⟩
              · exact Or.inl g6
              · exact Or.inr ⟨by omega, b1⟩
            · rcases g7 with ⟨a1, b1, c1⟩ | ⟨a1, _⟩
              · exact Or.inr ⟨rfl, c1, by omega, by omega, by rw [a1, b1]⟩
              · cases a1
        | true =>
          simp only [Bool.not_true, Bool.false_eq_true, if_false]
          exact ⟨rfl, rfl, rfl⟩
      · simp only [h46, if_false]
        by_cases hE : d = 101 ∨ d = 69
        · simp only [hE, if_true]
          obtain ⟨ok, x, neg, off1, hA, hB, g1, g2⟩ := parseExponent_sim h (off + 1) (by omega)
          rw [show o + off + 1 = o + (off + 1) by omega, hA, hB]
          cases ok with
          | true =>
            simp only [if_true]
            exact ⟨⟨rfl, by show off ≤ off1; omega, rfl, rfl, rfl, Or.inr ⟨Nat.le_refl _, by show off ≤ off1; omega, rfl⟩, Or.inl ⟨rfl, rfl, rfl⟩⟩, g2⟩
          | false =>
            simp only [Bool.false_eq_true, if_false]
            exact ⟨rfl, rfl, rfl⟩
        · simp only [hE, if_false]
          exact ⟨⟨rfl, Nat.le_refl _, rfl, rfl, rfl, Or.inl ⟨rfl, rfl⟩, Or.inl ⟨rfl, rfl, rfl⟩⟩, by show off ≤ e'; omega⟩


theorem sub32_shiftR (o a b : Nat) (ha : o + a < 2 ^ 32) (hb : o + b < 2 ^ 32) : sub32 (o + a) (o + b) = sub32 a b := by
  unfold sub32
  rw [Nat.mod_eq_of_lt hb, Nat.mod_eq_of_lt (show b < 2 ^ 32 by omega)]
  congr 1
  omega

theorem adjustExponent_sim (o : Nat) (fo : Bool) (off dA dB en10 : Nat) (hasDot : Bool) (tA tB : Tail) (E : Nat)
    (hE : o + E < 2 ^ 32) (hoff : 1 ≤ off) (hofE : off ≤ E) (htE : tB.off ≤ E)
    (hrel : RelTail o off hasDot dA dB tA tB) (hdot : hasDot = false → dA = 0 ∧ dB = 0) :
    adjustExponent fo (o + off) dA en10 tA = adjustExponent fo off dB en10 tB := by
  obtain ⟨h1, h2, h3, h4, h5, h6, h7⟩ := hrel
  unfold adjustExponent
  have hc : (o + off ≠ tA.off) ↔ (off ≠ tB.off) := by rw [h1]; omega
  have hextra :
      (if !tA.hasDot then (if tA.expOff = 0 then sub32 tA.off (o + off) else sub32 tA.expOff (o + off))
        else if tA.dotOff ≠ dA then sub32 tA.dotOff (o + off) else 0) =
      (if !tB.hasDot then (if tB.expOff = 0 then sub32 tB.off off else sub32 tB.expOff off)
        else if tB.dotOff ≠ dB then sub32 tB.dotOff off else 0) := by
    rw [h3]
    cases htd : tB.hasDot with
    | false =>
      simp only [Bool.not_false, if_true]
      rcases h6 with ⟨a, b⟩ | ⟨a, b, c⟩
      · rw [a, b, h1]; simp only [if_true]
        exact sub32_shiftR o _ _ (by omega) (by omega)
      · have hn0 : tB.expOff ≠ 0 := by omega
        have hn0A : tA.expOff ≠ 0 := by omega
        rw [if_neg hn0, if_neg hn0A, c]
        exact sub32_shiftR o _ _ (by omega) (by omega)
    | true =>
      simp only [Bool.not_true, Bool.false_eq_true, if_false]
      rcases h7 with ⟨a, b, _⟩ | ⟨a, b, c, d, f⟩
      · rw [a, b]; simp
      · obtain ⟨z1, z2⟩ := hdot a
        subst z1; subst z2
        have hn0 : tB.dotOff ≠ 0 := by omega
        have hn0A : tA.dotOff ≠ 0 := by omega
        rw [if_pos hn0, if_pos hn0A, f]
        exact sub32_shiftR o _ _ (by omega) (by omega)
  simp only [hc, hextra, h4, h5]

def RelOpt (o : Nat) : Option Res → Option Res → Prop
  | some a, some b => RelRes o a b
  | none, none => True
  | _, _ => False

theorem RelOpt.refl_shift (o : Nat) (r : Option Res) : RelOpt o (r.map (fun x => ⟨x.kind, x.bits, o + x.offset⟩)) r := by
  cases r with
  | none => trivial
  | some x => exact ⟨rfl, rfl, rfl⟩

theorem realResult_shift (o : Nat) (neg : Bool) (num ep10 x : Nat) (ne : Bool) (off : Nat) :
    RelOpt o (realResult neg num ep10 x ne (o + off)) (realResult neg num ep10 x ne off) := by
  unfold realResult
  simp only []
  by_cases hn : num ≠ 0
  · rw [if_pos hn, if_pos hn]
    by_cases hr : (ne = true ∧ x > ep10 ∧ sub32 x ep10 > 324) ∨ ((!ne) = true ∧ add32 x ep10 > 309)
    · rw [if_pos hr, if_pos hr]; exact ⟨rfl, rfl, rfl⟩
    · rw [if_neg hr, if_neg hr]
      cases (if ne = true then powerOfNegativeTen num x else powerOfPositiveTen num x) with
      | none => trivial
      | some v => exact ⟨rfl, rfl, rfl⟩
  · rw [if_neg hn, if_neg hn]; exact ⟨rfl, rfl, rfl⟩

theorem finishReal_sim (h : Emb c e c' e' o) (neg : Bool) (num off tmp startA startB : Nat) (fo hasDot : Bool)
    (dA dB : Nat) (hoff1 : 1 ≤ off) (hoff : off ≤ e') (htmp : tmp ≤ e') (hstartB : startB ≤ e')
    (hstart : startA = o + startB ∨ num = 0) (hfo : fo = true → hasDot = true)
    (hdotT : hasDot = true → dA = o + dB ∧ dB ≤ e') (hdotF : hasDot = false → dA = 0 ∧ dB = 0) :
    RelOpt o (finishReal c e neg num (o + off) (o + tmp) startA fo hasDot dA)
      (finishReal c' e' neg num off tmp startB fo hasDot dB) := by
  have hle := h.le
  have he := h.he
  unfold finishReal
  have htl := tailLoop_sim h num (e' - off) (e - (o + off)) off hasDot dA dB (by omega) (by omega)
  revert htl
  generalize tailLoop c e num (e - (o + off)) (o + off) hasDot dA = RA
  generalize tailLoop c' e' num (e' - off) off hasDot dB = RB
  intro htl
  match RA, RB, htl with
  | some (.inl a), some (.inl b), hh => exact hh
  | some (.inr tA), some (.inr tB), hh =>
    obtain ⟨hrel, htE⟩ := hh
    simp only []
    by_cases hn : num = 0
    · subst hn
      unfold realResult
      simp only [ne_eq, not_true_eq_false, if_false, and_false]
      exact ⟨rfl, rfl, hrel.1⟩
    · have hexp : tA.exponent = tB.exponent := hrel.2.2.2.1
      by_cases hsat : tB.exponent ≥ 100000000 ∧ num ≠ 0
      · rw [if_pos (by rw [hexp]; exact hsat), if_pos hsat]
        exact ⟨rfl, rfl, hrel.1⟩
      rw [if_neg (by rw [hexp]; exact hsat), if_neg hsat]
      have hs : startA = o + startB := by
        rcases hstart with hs | hs
        · exact hs
        · exact absurd hs hn
      subst hs
      have hep : sub32 (sub32 (o + tmp) (o + startB)) (b2n (!fo && hasDot)) = sub32 (sub32 tmp startB) (b2n (!fo && hasDot)) := by
        rw [sub32_shiftR o tmp startB (by omega) (by omega)]
      have hen : (if fo then add32 (sub32 (sub32 (o + tmp) (o + startB)) (b2n (!fo && hasDot))) (sub32 (sub32 (o + startB) dA) 1)
              else if hasDot then sub32 (sub32 (o + off) dA) 1 else 0) =
          (if fo then add32 (sub32 (sub32 tmp startB) (b2n (!fo && hasDot))) (sub32 (sub32 startB dB) 1)
              else if hasDot then sub32 (sub32 off dB) 1 else 0) := by
        rw [hep]
        cases hasDot with
        | true =>
          obtain ⟨z1, z2⟩ := hdotT rfl
          subst z1
          rw [sub32_shiftR o startB dB (by omega) (by omega), sub32_shiftR o off dB (by omega) (by omega)]
        | false =>
          have hfo' : fo = false := by
            cases fo with
            | false => rfl
            | true => exact absurd (hfo rfl) (by decide)
          subst hfo'
          simp
      rw [hen, hep, adjustExponent_sim o fo off dA dB _ hasDot tA tB e' (by omega) hoff1 hoff htE hrel hdotF, hrel.1]
      exact realResult_shift o neg num _ _ _ tB.off


theorem afterScan_sim (h : Emb c e c' e' o) (neg : Bool) (startA startB : Nat) (fo : Bool) (sA sB : Scan)
    (hrel : RelScan o sA sB) (hoff : sB.off ≤ e') (hoff1 : 1 ≤ sB.off)
    (hdotE : sB.hasDot = true → sB.dotOff ≤ e') (hfo : fo = true → sB.hasDot = true) (hstartB : startB ≤ e')
    (hstart : startA = o + startB ∨
      (sB.num = 0 ∧ (sB.off = e' ∨ ∃ x, rd c' e' sB.off = some x ∧ isDigit x = false))) :
    RelOpt o (afterScan c e neg startA fo sA) (afterScan c' e' neg startB fo sB) := by
  obtain ⟨numA, offA, hdA, dotA, irA⟩ := sA
  obtain ⟨numB, offB, hdB, dotB, irB⟩ := sB
  obtain ⟨r1, r2, r3, r4, r5, r6⟩ := hrel
  simp only at r1 r2 r3 r4 r5 r6 hoff hoff1 hdotE hfo hstart
  subst r1; subst r2; subst r3; subst r4
  unfold afterScan
  simp only []
  obtain ⟨n, p, r, hA, hB, g1, g2, g3⟩ := twentieth_sim h numA offB irA hoff
  rw [hA, hB]
  simp only []
  by_cases c1 : (!r) = true ∧ (!neg) = true
  · rw [if_pos c1, if_pos c1]; exact ⟨rfl, rfl, rfl⟩
  · rw [if_neg c1, if_neg c1]
    by_cases c2 : (!r) = true ∧ n = 0
    · rw [if_pos c2, if_pos c2]; exact ⟨rfl, rfl, rfl⟩
    · rw [if_neg c2, if_neg c2]
      by_cases c3 : (!r) = true ∧ n ≤ 0x8000000000000000
      · rw [if_pos c3, if_pos c3]; exact ⟨rfl, rfl, rfl⟩
      · rw [if_neg c3, if_neg c3]
        apply finishReal_sim h neg n p p startA startB fo hdA dotA dotB (by omega) g2 g2 hstartB ?_ hfo ?_ ?_
        · rcases hstart with hs | ⟨hn0, hnd⟩
          · exact Or.inl hs
          · right
            rcases g3 with g3 | ⟨d, hd1, hd2⟩
            · rw [g3]; exact hn0
            · rcases hnd with hnd | ⟨x, hx1, hx2⟩
              · have := rd_lt hd1; omega
              · rw [hx1] at hd1; injection hd1 with hd1; subst hd1; rw [hx2] at hd2; cases hd2
        · intro hh; exact ⟨r5 hh, hdotE hh⟩
        · intro hh; exact r6 hh


theorem skipZeros_sim (h : Emb c e c' e' o) : ∀ (k' k off dgA dgB : Nat), off + k' = e' → o + off + k = e →
    ∃ off2 dA dB, skipZeros c e k (o + off) dgA = some (o + off2, dA) ∧ skipZeros c' e' k' off dgB = some (off2, dB) ∧
      off ≤ off2 ∧ off2 ≤ e' ∧
      ((off2 < e' ∧ dA = dB ∧ rd c' e' off2 = some dB ∧ dB ≠ 48) ∨
       (off2 = e' ∧ off < off2 ∧ dB = 48 ∧ (dA = 48 ∨ stopChar dA = true)) ∨
       (off2 = e' ∧ off = off2 ∧ dB = dgB ∧ (dA = dgA ∨ stopChar dA = true))) := by
  intro k'
  induction k' with
  | zero =>
    intro k off dgA dgB h1 h2
    cases k with
    | zero => exact ⟨off, dgA, dgB, rfl, rfl, Nat.le_refl _, by omega, Or.inr (Or.inr ⟨by omega, rfl, rfl, Or.inl rfl⟩)⟩
    | succ k =>
      obtain ⟨y, hy, hst⟩ := rd_stop_or_end h (w := e) (by omega) (Nat.le_refl _)
      have hoe : off = e' := by omega
      subst hoe
      refine ⟨off, y, dgB, ?_, rfl, Nat.le_refl _, Nat.le_refl _, Or.inr (Or.inr ⟨rfl, rfl, rfl, Or.inr hst⟩)⟩
      rw [skipZeros, hy]; simp [(stopChar_facts hst).2.2.2.2.2.2.2.2.1]
  | succ k' ih =>
    intro k off dgA dgB h1 h2
    have hle := h.le
    obtain ⟨j, hj⟩ : ∃ j, k = j + 1 := ⟨k - 1, by omega⟩
    subst hj
    obtain ⟨d, hdB, hdA⟩ := h.rdIn off (by omega)
    rw [skipZeros, skipZeros, hdA, hdB]
    by_cases hd : d = 48
    · simp only [hd, if_true]
      obtain ⟨off2, dA, dB, hA, hB, g1, g2, g3⟩ := ih j (off + 1) 48 48 (by omega) (by omega)
      refine ⟨off2, dA, dB, by rw [← hA]; congr 1, hB, by omega, g2, ?_⟩
      rcases g3 with g3 | ⟨a1, a2, a3, a4⟩ | ⟨a1, a2, a3, a4⟩
      · exact Or.inl g3
      · exact Or.inr (Or.inl ⟨a1, by omega, a3, a4⟩)
      · exact Or.inr (Or.inl ⟨a1, by omega, a3, a4⟩)
    · simp only [hd, if_false]
      exact ⟨off, d, d, rfl, rfl, Nat.le_refl _, by omega, Or.inl ⟨by omega, rfl, hdB, hd⟩⟩

theorem sub32_subR (a b : Nat) (hb : b ≤ a) (ha : a < 2 ^ 32) : sub32 a b = a - b := by
  unfold sub32
  rw [Nat.mod_eq_of_lt (show b < 2 ^ 32 by omega)]
  have : a + 2 ^ 32 - b = (a - b) + 2 ^ 32 := by omega
  rw [this, Nat.add_mod_right, Nat.mod_eq_of_lt (by omega)]

theorem windowEnd_rel (h : Emb c e c' e' o) (off : Nat) (hoff : off ≤ e') :
    RelWin o e e' (windowEnd e (o + off)) (windowEnd e' off) ∧ off ≤ windowEnd e' off ∧
      (off < e' → off < windowEnd e' off) := by
  have hle := h.le
  have he := h.he
  unfold windowEnd
  rw [sub32_subR e (o + off) (by omega) he, sub32_subR e' off hoff (by omega)]
  by_cases hB : e' - off < 19
  · rw [if_pos hB]
    refine ⟨Or.inr ⟨rfl, ?_, ?_⟩, hoff, fun hh => hh⟩
    · split
      · omega
      · unfold add32; rw [Nat.mod_eq_of_lt (by omega)]; omega
    · split
      · exact Nat.le_refl _
      · unfold add32; rw [Nat.mod_eq_of_lt (by omega)]; omega
  · rw [if_neg hB, if_neg (by omega)]
    unfold add32
    rw [Nat.mod_eq_of_lt (by omega), Nat.mod_eq_of_lt (by omega)]
    exact ⟨Or.inl ⟨by omega, by omega⟩, by omega, fun _ => by omega⟩


theorem scanDigits_stopR (c : List Nat) (e k p num x : Nat) (hx : rd c e p = some x) (hd : isDigit x = false) :
    scanDigits c e k p num x = some (p, num, x) := by
  cases k with
  | zero => rfl
  | succ k => rw [scanDigits, hx]; simp [hd]

theorem iter1_nondigitR (c : List Nat) (e w num p x : Nat) (isReal : Bool) (hx : rd c e p = some x)
    (hd : isDigit x = false) (h46 : x ≠ 46) :
    iter1 c e w num p x false 0 isReal = some (.inr ⟨num, p, false, 0, isReal⟩) := by
  unfold iter1
  simp only [Bool.false_eq_true, if_false, rd_lt hx, if_true, scanDigits_stopR c e _ p num x hx hd, h46]

theorem iter2_hasDotR {c : List Nat} {e w n off d dot : Nat} {s : Scan} (h : iter2 c e w n off d dot = some (.inr s)) :
    s.hasDot = true := by
  unfold iter2 at h
  split at h
  · split at h
    · cases h
    · rename_i a b cc hh
      split at h
      · cases h
      · injection h with h; injection h with h; subst h; rfl
  · injection h with h; injection h with h; subst h; rfl

/-- `thenScan` of related scans with related continuations -/
theorem thenScan_sim {o e' lo : Nat} {RA RB : Option (Res ⊕ Scan)} {kA kB : Scan → Option Res}
    (hr : RelSum o e' lo RA RB)
    (hk : ∀ sA sB, RA = some (.inr sA) → RB = some (.inr sB) → RelScan o sA sB → sB.off ≤ e' →
      (sB.hasDot = true → sB.dotOff ≤ e') → lo ≤ sB.off → RelOpt o (kA sA) (kB sB)) :
    RelOpt o (thenScan RA kA) (thenScan RB kB) := by
  match RA, RB, hr with
  | some (.inl a), some (.inl b), hh => exact hh
  | some (.inr a), some (.inr b), hh => exact hk a b rfl rfl hh.1 hh.2.1 hh.2.2.1 hh.2.2.2


theorem iter1_dotR (c : List Nat) (e w num off dg dot : Nat) (isReal : Bool) :
    iter1 c e w num off dg true dot isReal = iter2 c e w num off dg dot := by
  unfold iter1; simp

/-- the part of `afterSign` after the leading-zero look-ahead -/
theorem rest_sim (h : Emb c e c' e' o) (neg : Bool) (off off1 dg : Nat) (hoff1 : off1 < e')
    (hdgB : rd c' e' off1 = some dg) (hcase : dg = 46 ∨ (isDigit dg = false ∧ 1 ≤ off1))
    (hdot : ∀ p, rd c' e' p = some 46 → p + 1 < e') :
    RelOpt o
      (if dg = 46 then
        match skipZeros c e (e - (o + off1 + 1)) (o + off1 + 1) dg with
        | none => none
        | some (off2, dg2) =>
          if o + off1 + 1 = off2 ∧ o + off1 = o + off ∧ (!isDigit dg2) = true then
            some { kind := Kind.notANumber, bits := 0, offset := off2 }
          else thenScan (iter1 c e (windowEnd e off2) 0 off2 dg2 true (o + off1) true) (afterScan c e neg off2 true)
      else thenScan (iter1 c e (windowEnd e (o + off1)) 0 (o + off1) dg false 0 false) (afterScan c e neg 0 false))
      (if dg = 46 then
        match skipZeros c' e' (e' - (off1 + 1)) (off1 + 1) dg with
        | none => none
        | some (off2, dg2) =>
          if off1 + 1 = off2 ∧ off1 = off ∧ (!isDigit dg2) = true then
            some { kind := Kind.notANumber, bits := 0, offset := off2 }
          else thenScan (iter1 c' e' (windowEnd e' off2) 0 off2 dg2 true off1 true) (afterScan c' e' neg off2 true)
      else thenScan (iter1 c' e' (windowEnd e' off1) 0 off1 dg false 0 false) (afterScan c' e' neg 0 false)) := by
  have hle := h.le
  obtain ⟨x, hxB, hdgA⟩ := h.rdIn off1 hoff1
  rw [hdgB] at hxB; injection hxB with hxB; subst hxB
  by_cases h46 : dg = 46
  · rw [if_pos h46, if_pos h46]
    subst h46
    have hd1 := hdot off1 hdgB
    obtain ⟨off2, dA, dB, hA, hB, g1, g2, g3⟩ := skipZeros_sim h (e' - (off1 + 1)) (e - (o + off1 + 1)) (off1 + 1) 46 46
      (by omega) (by omega)
    rw [show o + (off1 + 1) = o + off1 + 1 by omega] at hA
    rw [hA, hB]
    simp only []
    rcases g3 with ⟨a1, a2, a3, a4⟩ | ⟨a1, a2, a3, a4⟩ | ⟨a1, a2, _, _⟩
    · subst a2
      have hcond : (o + off1 + 1 = o + off2 ∧ o + off1 = o + off ∧ (!isDigit dA) = true) ↔
          (off1 + 1 = off2 ∧ off1 = off ∧ (!isDigit dA) = true) := by
        constructor
        · rintro ⟨x1, x2, x3⟩; exact ⟨by omega, by omega, x3⟩
        · rintro ⟨x1, x2, x3⟩; exact ⟨by omega, by omega, x3⟩
      by_cases hc : off1 + 1 = off2 ∧ off1 = off ∧ (!isDigit dA) = true
      · rw [if_pos hc, if_pos (hcond.mpr hc)]; exact ⟨rfl, rfl, rfl⟩
      · rw [if_neg hc, if_neg (fun hh => hc (hcond.mp hh)), iter1_dotR, iter1_dotR]
        obtain ⟨hwin, hwle, hwlt⟩ := windowEnd_rel h off2 g2
        apply thenScan_sim (iter2_sim h _ _ 0 off2 dA dA off1 hwin hwle (Or.inr (hwlt a1)) (by omega))
        intro sA sB _ hsB hrel hoffE hdotE hlo
        exact afterScan_sim h neg (o + off2) off2 true sA sB hrel hoffE (by omega) hdotE (fun _ => iter2_hasDotR hsB)
          (by omega) (Or.inl rfl)
    · have hcA : ¬ (o + off1 + 1 = o + off2 ∧ o + off1 = o + off ∧ (!isDigit dA) = true) := fun hh => by omega
      have hcB : ¬ (off1 + 1 = off2 ∧ off1 = off ∧ (!isDigit dB) = true) := fun hh => by omega
      rw [if_neg hcA, if_neg hcB, iter1_dotR, iter1_dotR]
      obtain ⟨hwin, hwle, hwlt⟩ := windowEnd_rel h off2 g2
      have hdA46 : dA ≠ 46 := by
        rcases a4 with a4 | a4
        · omega
        · exact (stopChar_facts a4).2.1
      apply thenScan_sim (iter2_sim h _ _ 0 off2 dA dB off1 hwin hwle (Or.inl ⟨hdA46, by omega⟩) (by omega))
      intro sA sB _ hsB hrel hoffE hdotE hlo
      exact afterScan_sim h neg (o + off2) off2 true sA sB hrel hoffE (by omega) hdotE (fun _ => iter2_hasDotR hsB)
        (by omega) (Or.inl rfl)
    · omega
  · rw [if_neg h46, if_neg h46]
    obtain ⟨hnd, hone⟩ : isDigit dg = false ∧ 1 ≤ off1 := by
      rcases hcase with hc | hc
      · exact absurd hc h46
      · exact hc
    rw [iter1_nondigitR c e _ 0 (o + off1) dg false hdgA hnd h46, iter1_nondigitR c' e' _ 0 off1 dg false hdgB hnd h46]
    show RelOpt o (afterScan c e neg 0 false ⟨0, o + off1, false, 0, false⟩) (afterScan c' e' neg 0 false ⟨0, off1, false, 0, false⟩)
    exact afterScan_sim h neg 0 0 false _ _ (relScan_nodot o 0 off1 false) (by show off1 ≤ e'; omega) hone
      (fun hc => Bool.noConfusion hc) (fun hc => Bool.noConfusion hc) (Nat.zero_le _)
      (Or.inr ⟨rfl, Or.inr ⟨dg, hdgB, hnd⟩⟩)

theorem pushDigit_zeroR : pushDigit 0 48 = 0 := by decide

/-- the scan of the lone `0` that ends the buffer -/
theorem iter1_single_zeroR (c : List Nat) (e off : Nat) (he : e < 2 ^ 32) (h48 : rd c e off = some 48) (hend : off + 1 = e) :
    iter1 c e (windowEnd e off) 0 off 48 false 0 false = some (.inr ⟨0, off + 1, false, 0, false⟩) := by
  have hw : windowEnd e off = e := by
    unfold windowEnd
    rw [sub32_subR e off (by omega) he, if_pos (by omega)]
  rw [hw]
  unfold iter1
  simp only [Bool.false_eq_true, if_false, show off < e by omega, if_true, show e - off = 1 by omega]
  rw [scanDigits, h48]
  simp only [show isDigit 48 = true by decide, if_true, scanDigits, pushDigit_zeroR, show ¬ ((48 : Nat) = 46) by decide, if_false]

theorem afterSign_sim (h : Emb c e c' e' o) (neg : Bool) (off : Nat) (hoff : off ≤ e')
    (hnohex : ∀ x, rd c' e' off = some 48 → rd c' e' (off + 1) = some x → x ≠ 120 ∧ x ≠ 88)
    (hdot : ∀ p, rd c' e' p = some 46 → p + 1 < e') :
    RelOpt o (afterSign c e neg (o + off)) (afterSign c' e' neg off) := by
  have hle := h.le
  by_cases hlt : off < e'
  · have hA : o + off < e := by omega
    obtain ⟨d, hdB, hdA⟩ := h.rdIn off hlt
    obtain ⟨hwin, hwle, hwlt⟩ := windowEnd_rel h off hoff
    unfold afterSign
    rw [if_pos hA, if_pos hlt, hdA, hdB]
    simp only []
    by_cases hnz : isNonZeroDigit d = true
    · simp only [hnz, if_true]
      have hd46 : d ≠ 46 := by intro hc; subst hc; simp [isNonZeroDigit] at hnz
      have hsim := iter1_sim h (windowEnd e (o + off)) (windowEnd e' off) (d - 48) (off + 1) d d false hwin (hwlt hlt) hd46 hd46
      rw [show o + (off + 1) = o + off + 1 by omega] at hsim
      apply thenScan_sim hsim
      intro sA sB _ _ hrel hoffE hdotE hlo
      exact afterScan_sim h neg (o + off) off false sA sB hrel hoffE (by omega) hdotE (fun hc => Bool.noConfusion hc)
        (by omega) (Or.inl rfl)
    · simp only [hnz, Bool.false_eq_true, if_false]
      by_cases hz : d = 48 ∨ d = 46
      · simp only [hz, if_true]
        by_cases hz1 : d = 48 ∧ off + 1 < e'
        · -- a unit follows the leading zero
          have hz1A : d = 48 ∧ o + off + 1 < e := ⟨hz1.1, by omega⟩
          rw [if_pos hz1A, if_pos hz1]
          obtain ⟨d1, hd1B, hd1A⟩ := h.rdIn (off + 1) hz1.2
          rw [show o + off + 1 = o + (off + 1) by omega, hd1A, hd1B]
          simp only []
          have hnx := hnohex d1 (by rw [hdB, hz1.1]) hd1B
          have hnx' : ¬ (d1 = 120 ∨ d1 = 88) := fun hc => hc.elim hnx.1 hnx.2
          rw [if_neg hnx', if_neg hnx']
          by_cases hdd : isDigit d1 = true
          · rw [if_pos hdd, if_pos hdd]; exact ⟨rfl, rfl, rfl⟩
          · rw [if_neg hdd, if_neg hdd]
            simp only []
            have hr := rest_sim h neg off (off + 1) d1 hz1.2 hd1B
              (by by_cases h46 : d1 = 46
                  · exact Or.inl h46
                  · exact Or.inr ⟨by simpa using hdd, by omega⟩) hdot
            have e1 : (o + (off + 1) = o + off) = False := by
              apply propext; constructor
              · intro hh; omega
              · intro hh; exact hh.elim
            have e2 : (off + 1 = off) = False := by
              apply propext; constructor
              · intro hh; omega
              · intro hh; exact hh.elim
            simp only [e1, e2, false_and, and_false, if_false] at hr ⊢
            exact hr
        · rw [if_neg hz1]
          by_cases hd46 : d = 46
          · -- a leading dot
            have hzA : ¬ (d = 48 ∧ o + off + 1 < e) := by intro hc; omega
            rw [if_neg hzA]
            simp only []
            have hr := rest_sim h neg off off d hlt hdB (Or.inl hd46) hdot
            simp only [true_and] at hr ⊢
            exact hr
          · -- the lone zero at the end of the numeral
            have hd48 : d = 48 := by rcases hz with hz | hz; exact hz; exact absurd hz hd46
            subst hd48
            have hend : off + 1 = e' := by
              by_cases hc : off + 1 < e'
              · exact absurd ⟨rfl, hc⟩ hz1
              · omega
            have hB := iter1_single_zeroR c' e' off (by have := h.he; omega) hdB hend
            simp only [show ¬ ((48 : Nat) = 46) by decide, if_false]
            rw [hB]
            by_cases hzA : o + off + 1 < e
            · rw [if_pos (⟨trivial, hzA⟩ : True ∧ o + off + 1 < e)]
              obtain ⟨x, hx, hst⟩ := rd_stop_or_end h (w := e) (by omega) (Nat.le_refl _)
              have hf := stopChar_facts hst
              rw [show o + off + 1 = o + e' by omega, hx]
              have hnx' : ¬ (x = 120 ∨ x = 88) := fun hc => hc.elim hf.2.2.2.2.2.2.1 hf.2.2.2.2.2.2.2.1
              simp only [hnx', if_false, hf.1, Bool.false_eq_true, hf.2.1]
              rw [iter1_nondigitR c e _ 0 (o + e') x false hx hf.1 hf.2.1]
              show RelOpt o (afterScan c e neg 0 false ⟨0, o + e', false, 0, false⟩)
                (afterScan c' e' neg 0 false ⟨0, off + 1, false, 0, false⟩)
              rw [show o + e' = o + (off + 1) by omega]
              exact afterScan_sim h neg 0 0 false _ _ (relScan_nodot o 0 (off + 1) false) (by show off + 1 ≤ e'; omega)
                (by show 1 ≤ off + 1; omega) (fun hc => Bool.noConfusion hc) (fun hc => Bool.noConfusion hc) (Nat.zero_le _)
                (Or.inr ⟨rfl, Or.inl hend⟩)
            · rw [if_neg (fun hh : True ∧ o + off + 1 < e => hzA hh.2)]
              simp only [show ¬ ((48 : Nat) = 46) by decide, if_false]
              have hendA : o + off + 1 = e := by omega
              rw [iter1_single_zeroR c e (o + off) h.he hdA hendA]
              show RelOpt o (afterScan c e neg 0 false ⟨0, o + off + 1, false, 0, false⟩)
                (afterScan c' e' neg 0 false ⟨0, off + 1, false, 0, false⟩)
              rw [show o + off + 1 = o + (off + 1) by omega]
              exact afterScan_sim h neg 0 0 false _ _ (relScan_nodot o 0 (off + 1) false) (by show off + 1 ≤ e'; omega)
                (by show 1 ≤ off + 1; omega) (fun hc => Bool.noConfusion hc) (fun hc => Bool.noConfusion hc) (Nat.zero_le _)
                (Or.inr ⟨rfl, Or.inl hend⟩)
      · simp only [hz, if_false]
        exact ⟨rfl, rfl, rfl⟩
  · have hoe : off = e' := by omega
    subst hoe
    unfold afterSign
    rw [if_neg hlt]
    by_cases hA : o + off < e
    · rw [if_pos hA]
      obtain ⟨x, hx, hst⟩ := rd_stop_or_end h (w := e) (by omega) (Nat.le_refl _)
      have hf := stopChar_facts hst
      rw [hx]
      have hz : ¬ (x = 48 ∨ x = 46) := fun hc => hc.elim (fun a => hf.2.2.2.2.2.2.2.2.1 a) (fun a => hf.2.1 a)
      simp only [hf.2.2.2.2.2.2.2.2.2.1, Bool.false_eq_true, if_false, hz]
      exact ⟨rfl, rfl, rfl⟩
    · rw [if_neg hA]; exact ⟨rfl, rfl, rfl⟩


/-- **relocation of `stringToNumber`**: embedded at offset `o` and followed by the end or a stopping unit, the routine
does what it does on the text alone (shifted by `o`) — provided the text contains no `x`/`X` and does not end with a
dot -/
theorem strToNum_sim (h : Emb c e c' e' o) (hne : 0 < e')
    (hnox : ∀ p x, rd c' e' p = some x → x ≠ 120 ∧ x ≠ 88)
    (hdot : ∀ p, rd c' e' p = some 46 → p + 1 < e') :
    RelOpt o (strToNum c o e) (strToNum c' 0 e') := by
  have hle := h.le
  obtain ⟨d, hdB, hdA⟩ := h.rdIn 0 hne
  rw [Nat.add_zero] at hdA
  unfold strToNum
  rw [if_pos (show o < e by omega), if_pos hne, hdA, hdB]
  simp only []
  have hx : ∀ off, ∀ x, rd c' e' off = some 48 → rd c' e' (off + 1) = some x → x ≠ 120 ∧ x ≠ 88 :=
    fun off x _ hh => hnox (off + 1) x hh
  by_cases h45 : d = 45
  · rw [if_pos h45, if_pos h45]
    have := afterSign_sim h true 1 (by omega) (hx 1) hdot
    rw [show o + 1 = o + 1 from rfl] at this
    exact this
  · rw [if_neg h45, if_neg h45]
    by_cases h43 : d = 43
    · rw [if_pos h43, if_pos h43]
      exact afterSign_sim h false 1 (by omega) (hx 1) hdot
    · rw [if_neg h43, if_neg h43]
      have := afterSign_sim h false 0 (by omega) (hx 0) hdot
      rw [Nat.add_zero] at this
      exact this

end Qentem.StrToNum

namespace Qentem.Json
open Qentem.StrToNum

theorem rd_list (l : List Nat) (p : Nat) (hp : p < l.length) : Qentem.StrToNum.rd l l.length p = some l[p] := by
  unfold Qentem.StrToNum.rd; rw [if_pos hp]; exact List.getElem?_eq_getElem hp

theorem emb_of_at (c : Array Nat) (o : Nat) (tok : List Nat) (hsz : c.size < 2 ^ 32) (hat : At c o tok)
    (hf : FollowOK c (o + tok.length)) (hne : tok ≠ []) : Emb c.toList c.size tok tok.length o := by
  have hlen := At.len hat hne
  obtain ⟨t, ht⟩ := hat
  refine ⟨?_, hlen, ?_, hsz⟩
  · intro p hp
    refine ⟨tok[p], rd_list tok p hp, ?_⟩
    unfold Qentem.StrToNum.rd
    rw [if_pos (by omega)]
    have h1 : c.toList[o + p]? = (c.toList.drop o)[p]? := by rw [List.getElem?_drop]
    rw [h1, ← ht, List.getElem?_append_left hp]
    exact List.getElem?_eq_getElem hp
  · rcases hf with hf | ⟨hlt, hd⟩
    · exact Or.inl hf
    · refine Or.inr ⟨c[o + tok.length], rd_of_lt c _ hlt, ?_⟩
      rcases delim_cases _ hd with hx | hx | hx | hx | hx | hx | hx <;> rw [hx] <;> decide

/-- RFC 8259 §6: `[-] (0 | [1-9][0-9]*) [. [0-9]+] [(e|E) [+|-] [0-9]+]` -/
def RfcNumeral (tok : List Nat) : Prop :=
  ∃ sign ip fp ex : List Nat, tok = sign ++ ip ++ fp ++ ex ∧ (sign = [] ∨ sign = [45]) ∧
    (ip = [48] ∨ ∃ d ds, ip = d :: ds ∧ isNonZeroDigit d = true ∧ AllDigits ds) ∧
    (fp = [] ∨ ∃ ds, fp = 46 :: ds ∧ ds ≠ [] ∧ AllDigits ds) ∧
    (ex = [] ∨ ∃ m sg ds, ex = m :: sg ++ ds ∧ (m = 101 ∨ m = 69) ∧ (sg = [] ∨ sg = [43] ∨ sg = [45]) ∧
      ds ≠ [] ∧ AllDigits ds)

/-- units an RFC numeral can contain -/
def numUnit (u : Nat) : Prop := isDigit u = true ∨ u = 45 ∨ u = 43 ∨ u = 46 ∨ u = 101 ∨ u = 69

theorem rfc_facts {tok : List Nat} (h : RfcNumeral tok) :
    (∀ u ∈ tok, numUnit u) ∧ (∃ pre l, tok = pre ++ [l] ∧ isDigit l = true) ∧
    (∃ x xs, tok = x :: xs ∧ (x = 45 ∨ isDigit x = true)) := by
  obtain ⟨sign, ip, fp, ex, rfl, hs, hip, hfp, hex⟩ := h
  have hdig : ∀ ds : List Nat, AllDigits ds → ∀ u ∈ ds, numUnit u := fun ds hd u hu => Or.inl (hd u hu)
  have hlastd : ∀ ds : List Nat, ds ≠ [] → AllDigits ds → ∃ pre l, ds = pre ++ [l] ∧ isDigit l = true := by
    intro ds hne hd
    refine ⟨ds.dropLast, ds.getLast hne, (List.dropLast_append_getLast hne).symm, hd _ (List.getLast_mem hne)⟩
  have hsU : ∀ u ∈ sign, numUnit u := by
    intro u hu; rcases hs with rfl | rfl
    · cases hu
    · simp at hu; subst hu; exact Or.inr (Or.inl rfl)
  have hipU : ∀ u ∈ ip, numUnit u := by
    intro u hu
    rcases hip with rfl | ⟨d, ds, rfl, hd, hds⟩
    · simp at hu; subst hu; exact Or.inl (by decide)
    · rcases List.mem_cons.1 hu with hu | hu
      · subst hu; exact Or.inl (isNonZeroDigit_isDigit hd)
      · exact Or.inl (hds u hu)
  have hfpU : ∀ u ∈ fp, numUnit u := by
    intro u hu
    rcases hfp with rfl | ⟨ds, rfl, _, hds⟩
    · cases hu
    · rcases List.mem_cons.1 hu with hu | hu
      · subst hu; exact Or.inr (Or.inr (Or.inr (Or.inl rfl)))
      · exact Or.inl (hds u hu)
  have hexU : ∀ u ∈ ex, numUnit u := by
    intro u hu
    rcases hex with rfl | ⟨m, sg, ds, rfl, hm, hsg, _, hds⟩
    · cases hu
    · rcases List.mem_cons.1 hu with hu | hu
      · subst hu; rcases hm with rfl | rfl
        · exact Or.inr (Or.inr (Or.inr (Or.inr (Or.inl rfl))))
        · exact Or.inr (Or.inr (Or.inr (Or.inr (Or.inr rfl))))
      · rcases List.mem_append.1 hu with hu | hu
        · rcases hsg with rfl | rfl | rfl
          · cases hu
          · simp at hu; subst hu; exact Or.inr (Or.inr (Or.inl rfl))
          · simp at hu; subst hu; exact Or.inr (Or.inl rfl)
        · exact Or.inl (hds u hu)
  have hipLast : ∃ pre l, ip = pre ++ [l] ∧ isDigit l = true := by
    rcases hip with rfl | ⟨d, ds, rfl, hd, hds⟩
    · exact ⟨[], 48, rfl, by decide⟩
    · exact hlastd (d :: ds) (by simp) (fun u hu => by
        rcases List.mem_cons.1 hu with hu | hu
        · subst hu; exact isNonZeroDigit_isDigit hd
        · exact hds u hu)
  refine ⟨?_, ?_, ?_⟩
  · intro u hu
    simp only [List.mem_append] at hu
    rcases hu with ((hu | hu) | hu) | hu
    · exact hsU u hu
    · exact hipU u hu
    · exact hfpU u hu
    · exact hexU u hu
  · rcases hex with rfl | ⟨m, sg, ds, rfl, hm, hsg, hne, hds⟩
    · rcases hfp with rfl | ⟨ds, rfl, hne, hds⟩
      · obtain ⟨pre, l, hp, hl⟩ := hipLast
        exact ⟨sign ++ pre, l, by rw [hp]; simp, hl⟩
      · obtain ⟨pre, l, hp, hl⟩ := hlastd ds hne hds
        exact ⟨sign ++ ip ++ 46 :: pre, l, by rw [hp]; simp, hl⟩
    · obtain ⟨pre, l, hp, hl⟩ := hlastd ds hne hds
      exact ⟨sign ++ ip ++ fp ++ m :: sg ++ pre, l, by rw [hp]; simp, hl⟩
  · obtain ⟨pre, l, hp, hl⟩ := hipLast
    rcases hs with rfl | rfl
    · rcases hip with rfl | ⟨d, ds, rfl, hd, hds⟩
      · exact ⟨48, fp ++ ex, by simp, Or.inr (by decide)⟩
      · exact ⟨d, ds ++ fp ++ ex, by simp, Or.inr (isNonZeroDigit_isDigit hd)⟩
    · exact ⟨45, ip ++ fp ++ ex, by simp, Or.inl rfl⟩

/-- **`numSpec_of_standalone`**: for every RFC 8259 numeral, what `StringToNumber` returns on the numeral alone (kind,
bits, everything consumed) is what it returns on the numeral inside any document — the token contract of
`parse_print` with `bits` = the standalone result -/
theorem numSpec_of_standalone (w : Nat) (tok : List Nat) (k : Qentem.StrToNum.Kind) (bits : Nat) (hrfc : RfcNumeral tok)
    (hrun : Qentem.StrToNum.strToNum tok 0 tok.length = some ⟨k, bits, tok.length⟩) (hk : k ≠ .notANumber) :
    NumSpec (jsonDeps w) tok (kindOf k) bits := by
  obtain ⟨hunits, ⟨pre, l, hlast, hld⟩, ⟨x, xs, hx, hx1⟩⟩ := rfc_facts hrfc
  have hne : tok ≠ [] := by rw [hx]; simp
  refine ⟨by cases k <;> simp [kindOf] at hk ⊢, ⟨x, xs, hx, ?_⟩, ?_⟩
  · rcases hx1 with rfl | hx1
    · decide
    · exact digit_head_ok x hx1
  · intro c o hsz hat hf
    have hemb := emb_of_at c o tok hsz hat hf hne
    have hnox : ∀ p y, Qentem.StrToNum.rd tok tok.length p = some y → y ≠ 120 ∧ y ≠ 88 := by
      intro p y hy
      have hp := rd_lt hy
      rw [rd_list tok p hp] at hy
      injection hy with hy
      have hu := hunits y (by rw [← hy]; exact List.getElem_mem hp)
      rcases hu with hu | hu | hu | hu | hu | hu
      · simp [isDigit] at hu; omega
      all_goals omega
    have hdot : ∀ p, Qentem.StrToNum.rd tok tok.length p = some 46 → p + 1 < tok.length := by
      intro p hp
      have hlt := rd_lt hp
      rw [rd_list tok p hlt] at hp
      injection hp with hp
      by_cases hpl : p + 1 < tok.length
      · exact hpl
      · exfalso
        have hlen : tok.length = pre.length + 1 := by rw [hlast]; simp
        have hpe : p = pre.length := by omega
        have : tok[p] = l := by
          subst hpe
          simp [hlast]
        rw [this] at hp; subst hp; simp [isDigit] at hld
    have hsim := strToNum_sim hemb (List.length_pos_iff.mpr hne) hnox hdot
    rw [hrun] at hsim
    show strToNumDep c o c.size = _
    unfold strToNumDep
    revert hsim
    generalize Qentem.StrToNum.strToNum c.toList o c.size = rA
    intro hsim
    match rA, hsim with
    | some a, hh =>
      obtain ⟨h1, h2, h3⟩ := hh
      simp only at h1 h2 h3
      simp only [h1, h2, h3]

end Qentem.Json
