import Qentem.Proofs.BigIntSimple
import Qentem.Proofs.BigIntMul
/-! Comparisons with a word, predicates, narrowing to a word, FindLastBit; add/sub of a small operand. -/
namespace Qentem.BigInt

theorem Inv.val_of_idx_zero {W : Nat} {s : Big} (h : Inv W s) (h0 : s.idx = 0) :
    s.val W = s.words[0]'(Nat.lt_of_le_of_lt (Nat.zero_le _) h.idx_lt) := by
  have hz : ZeroFrom s.words 1 := by have := h.above; rwa [h0] at this
  exact valW_of_zeroFrom_one W s.words _ hz

theorem Inv.big_of_idx_ne_zero {W : Nat} {s : Big} (h : Inv W s) (h0 : s.idx ≠ 0) : 2 ^ W ≤ s.val W := by
  have := h.le_val h0
  have h2 : 2 ^ W ≤ 2 ^ (W * s.idx) := Nat.pow_le_pow_right (by decide) (Nat.le_mul_of_pos_right _ (by omega))
  omega

theorem cmpWord_spec {W : Nat} (s : Big) (r : Cmp) (x : Nat) (h : Inv W s) (hx : x < 2 ^ W) :
    cmpWord s r x = .ok (cmpSpec r (s.val W) x) := by
  have h0 : 0 < s.words.length := Nat.lt_of_le_of_lt (Nat.zero_le _) h.idx_lt
  unfold cmpWord
  rw [rd_ok h0]
  simp only [bind, Except.bind, pure, Except.pure]
  congr 1
  by_cases hi : s.idx = 0
  · have hv := h.val_of_idx_zero hi
    cases r <;> simp [cmpSpec, hi, hv]
  · have hv := h.big_of_idx_ne_zero hi
    have hw : s.words[0] < 2 ^ W := h.bound.getElem h0
    have hb1 : (s.idx == 0) = false := by simp [hi]
    have hb2 : (s.idx != 0) = true := by simp [hi]
    cases r <;> simp [cmpSpec, hb1, hb2] <;> omega

/-- The reversed comparisons `number OP x` agree with the mathematical comparison `number OP value`. -/
theorem rcmpWord_spec {W : Nat} (s : Big) (r : Cmp) (x : Nat) (h : Inv W s) (hx : x < 2 ^ W) :
    rcmpWord s r x = .ok (cmpSpec r x (s.val W)) := by
  unfold rcmpWord
  rw [cmpWord_spec s r.mirror x h hx]
  congr 1
  cases r
  · rfl
  · rfl
  · rfl
  · rfl
  · show (s.val W == x) = (x == s.val W)
    exact BEq.comm
  · show (s.val W != x) = (x != s.val W)
    simp only [bne, BEq.comm (a := x)]

theorem isBig_spec {W : Nat} (s : Big) (h : Inv W s) : isBig s = decide (s.val W ≥ 2 ^ W) := by
  have h0 : 0 < s.words.length := Nat.lt_of_le_of_lt (Nat.zero_le _) h.idx_lt
  unfold isBig
  by_cases hi : s.idx = 0
  · have hv := h.val_of_idx_zero hi
    have hw : s.words[0] < 2 ^ W := h.bound.getElem h0
    simp [hi]; omega
  · have hv := h.big_of_idx_ne_zero hi
    have hb2 : (s.idx != 0) = true := by simp [hi]
    simp [hb2]; omega

theorem number_spec {W : Nat} (s : Big) (h : Inv W s) : number s = .ok (s.val W % 2 ^ W) := by
  have h0 : 0 < s.words.length := Nat.lt_of_le_of_lt (Nat.zero_le _) h.idx_lt
  obtain ⟨r, hr⟩ : ∃ r, s.val W = s.words[0] + 2 ^ W * r := valW_eq_head_add W s.words h0
  unfold number
  rw [rd_ok h0, hr, Nat.add_mul_mod_self_left, Nat.mod_eq_of_lt (h.bound.getElem h0)]

/-- narrowing conversion to an unsigned type of `K ≤ W` bits -/
theorem narrow_small_spec {W K : Nat} (s : Big) (h : Inv W s) (hK : K ≤ W) :
    narrow W K s = .ok (s.val W % 2 ^ K) := by
  have h0 : 0 < s.words.length := Nat.lt_of_le_of_lt (Nat.zero_le _) h.idx_lt
  obtain ⟨r, hr⟩ : ∃ r, s.val W = s.words[0] + 2 ^ W * r := valW_eq_head_add W s.words h0
  unfold narrow
  rw [if_pos hK, rd_ok h0]
  simp only [bind, Except.bind, pure, Except.pure]
  congr 1
  have hd : 2 ^ W = 2 ^ K * 2 ^ (W - K) := by rw [← Nat.pow_add]; congr 1; omega
  rw [hr, hd, Nat.mul_assoc, Nat.add_mul_mod_self_left]

theorem log2_add_mul_pow (t low k : Nat) (ht : t ≠ 0) (hlow : low < 2 ^ k) :
    (low + t * 2 ^ k).log2 = t.log2 + k := by
  have hpos : 0 < 2 ^ k := Nat.pow_pos (by decide)
  have hne : low + t * 2 ^ k ≠ 0 := by
    have : 1 * 2 ^ k ≤ t * 2 ^ k := Nat.mul_le_mul_right _ (by omega)
    omega
  rw [Nat.log2_eq_iff hne]
  have h1 := Nat.log2_self_le ht
  have h2 := @Nat.lt_log2_self t
  constructor
  · rw [Nat.pow_add]
    have : 2 ^ t.log2 * 2 ^ k ≤ t * 2 ^ k := Nat.mul_le_mul_right _ h1
    omega
  · have e : 2 ^ (t.log2 + k + 1) = 2 ^ (t.log2 + 1) * 2 ^ k := by rw [← Nat.pow_add]; congr 1; omega
    rw [e]
    have : (t + 1) * 2 ^ k ≤ 2 ^ (t.log2 + 1) * 2 ^ k := Nat.mul_le_mul_right _ h2
    rw [Nat.add_mul] at this
    omega

theorem findLastBit_spec {W : Nat} (s : Big) (h : Inv W s) (hv : s.val W ≠ 0) :
    findLastBit W s = .ok (s.val W).log2 := by
  have hlt := h.idx_lt
  have htop : s.words[s.idx] ≠ 0 := by
    by_cases hi : s.idx = 0
    · have := h.val_of_idx_zero hi
      intro hz
      apply hv
      rw [this]
      have e : s.words[0] = s.words[s.idx] := by congr 1; exact hi.symm
      rw [e]; exact hz
    · have := h.top hi
      rwa [getD_eq_getElem hlt] at this
  have hval : s.val W = valW W (s.words.take s.idx) + s.words[s.idx] * 2 ^ (W * s.idx) := by
    unfold Big.val
    rw [valW_of_zeroFrom W s.words (s.idx + 1) hlt h.above, valW_take_succ W s.words s.idx hlt, Nat.mul_comm]
  have hlow : valW W (s.words.take s.idx) < 2 ^ (W * s.idx) := by
    have hb' : Bounded W (s.words.take s.idx) := fun w hw => h.bound w (List.mem_of_mem_take hw)
    have := valW_lt hb'
    rwa [List.length_take, Nat.min_eq_left (Nat.le_of_lt hlt)] at this
  unfold findLastBit platFindLastBit
  rw [rd_ok hlt]
  simp only [bind, Except.bind, pure, Except.pure]
  have hne : (s.words[s.idx] == 0) = false := by simp [htop]
  simp only [hne, Bool.false_eq_true, if_false]
  congr 1
  rw [hval, log2_add_mul_pow _ _ _ htop hlow, Nat.mul_comm W]

/-- `+= number` for an operand that fits one word. -/
theorem add_small_spec {W K : Nat} (s : Big) (x : Nat) (h : Inv W s) (hK : K ≤ W) (hx : x < 2 ^ K)
    (hfit : s.val W + x < 2 ^ (W * s.words.length)) :
    ∃ s', opK W K .add s x = .ok s' ∧ Inv W s' ∧ s'.words.length = s.words.length ∧ s'.val W = s.val W + x := by
  have hxW : x < 2 ^ W := Nat.lt_of_lt_of_le hx (Nat.pow_le_pow_right (by decide) hK)
  obtain ⟨s', hrun, hw, hl, hv, _, _, htop⟩ := add_spec s x 0 h.toWInv hxW (Nat.zero_le _) (by simpa using hfit)
  have hinv : Inv W s' := ⟨hw, htop h.top⟩
  refine ⟨s', ?_, hinv, hl, by simpa using hv⟩
  unfold opK
  by_cases hKW : K = W
  · simp [hKW, opNarrow, hrun]
  · have hlt : K < W := by omega
    have hdiv : K / W = 0 := Nat.div_eq_of_lt hlt
    have hne : (K == W) = false := by simp [hKW]
    simp [hne, opWide, Nat.mod_eq_of_lt hxW, hrun, bind, Except.bind, pure, Except.pure, hdiv]

/-- `-= number` for an operand that fits one word. -/
theorem sub_small_spec {W K : Nat} (s : Big) (x : Nat) (h : Inv W s) (hK : K ≤ W) (hx : x < 2 ^ K)
    (hfit : x ≤ s.val W) :
    ∃ s', opK W K .sub s x = .ok s' ∧ Inv W s' ∧ s'.words.length = s.words.length ∧ s'.val W = s.val W - x := by
  have hxW : x < 2 ^ W := Nat.lt_of_lt_of_le hx (Nat.pow_le_pow_right (by decide) hK)
  obtain ⟨s', hrun, hinv, hl, hv⟩ := sub_spec s x 0 h hxW (Nat.zero_le _) (by simpa using hfit)
  refine ⟨s', ?_, hinv, hl, by simp at hv; omega⟩
  unfold opK
  by_cases hKW : K = W
  · simp [hKW, opNarrow, hrun]
  · have hlt : K < W := by omega
    have hdiv : K / W = 0 := Nat.div_eq_of_lt hlt
    have hne : (K == W) = false := by simp [hKW]
    simp [hne, opWide, Nat.mod_eq_of_lt hxW, hrun, bind, Except.bind, pure, Except.pure, hdiv]

end Qentem.BigInt
