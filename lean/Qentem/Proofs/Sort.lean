import Qentem.Model.Sort
/-! Helper lemmas for C15: `Memory::Sort` (model `sortSeg`) returns an ordered permutation. -/
namespace Qentem.Sort

variable {α : Type}

/-- `b` is reached from `a` by swapping positions that all lie inside `[s, e)`. -/
inductive SwapsIn (s e : Nat) : Array α → Array α → Prop
  | refl (a : Array α) : SwapsIn s e a a
  | step {a c : Array α} (i j : Nat) (hi : i < a.size) (hj : j < a.size)
      (his : s ≤ i) (hie : i < e) (hjs : s ≤ j) (hje : j < e) :
      SwapsIn s e (a.swap i j hi hj) c → SwapsIn s e a c

namespace SwapsIn

theorem trans {s e : Nat} {a b c : Array α} (h1 : SwapsIn s e a b) (h2 : SwapsIn s e b c) :
    SwapsIn s e a c := by
  induction h1 with
  | refl => exact h2
  | step i j hi hj his hie hjs hje _ ih => exact step i j hi hj his hie hjs hje (ih h2)

theorem mono {s e s' e' : Nat} {a b : Array α} (h : SwapsIn s e a b) (hs : s' ≤ s) (he : e ≤ e') :
    SwapsIn s' e' a b := by
  induction h with
  | refl => exact refl _
  | step i j hi hj his hie hjs hje _ ih =>
    exact step i j hi hj (by omega) (by omega) (by omega) (by omega) ih

theorem single {s e : Nat} (a : Array α) (i j : Nat) (hi : i < a.size) (hj : j < a.size)
    (his : s ≤ i) (hie : i < e) (hjs : s ≤ j) (hje : j < e) : SwapsIn s e a (a.swap i j hi hj) :=
  step i j hi hj his hie hjs hje (refl _)

theorem size_eq {s e : Nat} {a b : Array α} (h : SwapsIn s e a b) : b.size = a.size := by
  induction h with
  | refl => rfl
  | step i j hi hj _ _ _ _ _ ih => simpa using ih

theorem perm {s e : Nat} {a b : Array α} (h : SwapsIn s e a b) : b.toList.Perm a.toList := by
  induction h with
  | refl => exact List.Perm.refl _
  | step i j hi hj _ _ _ _ _ ih =>
    exact ih.trans (Array.perm_iff_toList_perm.mp (Array.swap_perm hi hj))

/-- Positions outside `[s, e)` are untouched. -/
theorem outside {s e : Nat} {a b : Array α} (h : SwapsIn s e a b) (k : Nat) (hk : k < s ∨ e ≤ k) :
    b[k]? = a[k]? := by
  induction h with
  | refl => rfl
  | step i j hi hj his hie hjs hje _ ih =>
    rw [ih, Array.getElem?_swap]
    have h1 : ¬ j = k := by omega
    have h2 : ¬ i = k := by omega
    simp [h1, h2]

/-- A predicate true of every element of the segment stays true of every element of it. -/
theorem all_in {s e : Nat} {a b : Array α} (h : SwapsIn s e a b) (P : α → Prop)
    (ha : ∀ k x, s ≤ k → k < e → a[k]? = some x → P x) :
    ∀ k x, s ≤ k → k < e → b[k]? = some x → P x := by
  induction h with
  | refl => exact ha
  | step i j hi hj his hie hjs hje _ ih =>
    apply ih
    intro k x hks hke hx
    rw [Array.getElem?_swap] at hx
    by_cases h1 : j = k
    · simp only [h1, if_true] at hx
      exact ha i x his hie (by rw [Array.getElem?_eq_getElem hi]; exact hx)
    · by_cases h2 : i = k
      · simp only [h1, h2, if_true, if_false] at hx
        exact ha j x hjs hje (by rw [Array.getElem?_eq_getElem hj]; exact hx)
      · simp only [h1, h2, if_false] at hx
        exact ha k x hks hke hx

end SwapsIn

theorem swap?_eq_some (a : Array α) (i j : Nat) (hi : i < a.size) (hj : j < a.size) :
    swap? a i j = some (a.swap i j hi hj) := by
  simp [swap?, hi, hj]

theorem getElem?_swap' (a : Array α) (i j k : Nat) (hi : i < a.size) (hj : j < a.size) :
    (a.swap i j hi hj)[k]? = if j = k then a[i]? else if i = k then a[j]? else a[k]? := by
  rw [Array.getElem?_swap, Array.getElem?_eq_getElem hi, Array.getElem?_eq_getElem hj]

/-- No later element of `a[s, e)` goes before an earlier one. -/
def SortedSeg (before : α → α → Bool) (a : Array α) (s e : Nat) : Prop :=
  ∀ i j x y, s ≤ i → i < j → j < e → a[i]? = some x → a[j]? = some y → before y x = false

/-- The scan of `Memory::Sort`: invariant "`(start, index]` goes before the pivot, `(index, offset)`
    does not", established for the whole segment at exit; no out-of-range access. -/
theorem partLoop_spec (before : α → α → Bool) (arr : Array α) (start index offset stop : Nat) (p : α)
    (hp : arr[start]? = some p) (h1 : start ≤ index) (h2 : index < offset) (h3 : offset ≤ stop)
    (h4 : stop ≤ arr.size)
    (hL : ∀ k x, start < k → k ≤ index → arr[k]? = some x → before x p = true)
    (hR : ∀ k x, index < k → k < offset → arr[k]? = some x → before x p = false) :
    ∃ arr' index', partLoop before arr start index offset stop = some (arr', index') ∧
      SwapsIn (start + 1) stop arr arr' ∧ start ≤ index' ∧ index' < stop ∧
      (∀ k x, start < k → k ≤ index' → arr'[k]? = some x → before x p = true) ∧
      (∀ k x, index' < k → k < stop → arr'[k]? = some x → before x p = false) := by
  induction hn : stop - offset generalizing arr index offset with
  | zero =>
    have : offset = stop := by omega
    subst this
    refine ⟨arr, index, ?_, SwapsIn.refl _, h1, h2, hL, hR⟩
    simp [partLoop, partLoopN]
  | succ n ih =>
    have hlt : offset < stop := by omega
    have hoff : offset < arr.size := by omega
    obtain ⟨x0, hx0⟩ : ∃ x0, arr[offset]? = some x0 := ⟨arr[offset], Array.getElem?_eq_getElem hoff⟩
    have hstep : ∀ (a : Array α) (i : Nat), partLoopN before n a start i (offset + 1) stop =
        partLoop before a start i (offset + 1) stop := by
      intro a i; simp only [partLoop]; congr 1; omega
    simp only [partLoop, hn, partLoopN]
    simp only [hlt, if_true, hp, hx0, hstep]
    by_cases hb : before x0 p = true
    · have hi1 : index + 1 < arr.size := by omega
      simp only [hb, if_true, swap?_eq_some arr (index + 1) offset hi1 hoff]
      have hsw := SwapsIn.single (s := start + 1) (e := stop) arr (index + 1) offset hi1 hoff
        (by omega) (by omega) (by omega) hlt
      have hp' : (arr.swap (index + 1) offset hi1 hoff)[start]? = some p := by
        rw [hsw.outside start (by omega)]; exact hp
      obtain ⟨arr', index', he, hs, hle, hlt', hL', hR'⟩ :=
        ih (arr.swap (index + 1) offset hi1 hoff) (index + 1) (offset + 1) hp' (by omega) (by omega)
          (by omega) (by simpa using h4)
          (by
            intro k x hk1 hk2 hx
            rw [getElem?_swap'] at hx
            by_cases e1 : offset = k
            · have e3 : index + 1 = offset := by omega
              simp only [e1, if_true] at hx
              rw [e3, hx0] at hx
              rw [← Option.some.inj hx]; exact hb
            · by_cases e2 : index + 1 = k
              · simp only [e1, e2, if_true, if_false] at hx
                rw [hx] at hx0
                rw [Option.some.inj hx0]; exact hb
              · simp only [e1, e2, if_false] at hx
                exact hL k x hk1 (by omega) hx)
          (by
            intro k x hk1 hk2 hx
            rw [getElem?_swap'] at hx
            by_cases e1 : offset = k
            · simp only [e1, if_true] at hx
              exact hR (index + 1) x (by omega) (by omega) hx
            · by_cases e2 : index + 1 = k
              · omega
              · simp only [e1, e2, if_false] at hx
                exact hR k x (by omega) (by omega) hx)
          (by omega)
      exact ⟨arr', index', he, hsw.trans hs, by omega, hlt', hL', hR'⟩
    · have hb' : before x0 p = false := by simpa using hb
      simp only [hb', Bool.false_eq_true, if_false]
      obtain ⟨arr', index', he, hs, hle, hlt', hL', hR'⟩ :=
        ih arr index (offset + 1) hp h1 (by omega) (by omega) h4 hL
          (by
            intro k x hk1 hk2 hx
            by_cases e1 : k = offset
            · subst e1
              rw [hx] at hx0
              rw [Option.some.inj hx0]; exact hb'
            · exact hR k x hk1 (by omega) hx)
          (by omega)
      exact ⟨arr', index', he, hs, hle, hlt', hL', hR'⟩

/-- What `sortSeg` needs of the comparison, on the elements that satisfy `P` only
    (a strict partial order: asymmetric and transitive). -/
structure StrictOn (P : α → Prop) (before : α → α → Bool) : Prop where
  asymm : ∀ x y, P x → P y → before x y = true → before y x = false
  trans : ∀ x y z, P x → P y → P z → before x y = true → before y z = true → before x z = true

/-- Every irreflexive, transitive comparison (in particular every strict weak order) qualifies. -/
theorem StrictOn.of_irrefl_trans {P : α → Prop} {before : α → α → Bool}
    (hirr : ∀ x, P x → before x x = false)
    (htr : ∀ x y z, P x → P y → P z → before x y = true → before y z = true → before x z = true) :
    StrictOn P before where
  asymm := by
    intro x y hx hy h
    cases h' : before y x with
    | false => rfl
    | true =>
      have := htr x y x hx hy hx h h'
      rw [hirr x hx] at this; cases this
  trans := htr

/-- `Memory::Sort` on `[s, e)`: enough fuel, never out of range, only swaps inside the segment,
    and the segment ends up ordered. -/
theorem sortSeg_spec (before : α → α → Bool) (P : α → Prop) (hord : StrictOn P before) :
    ∀ (fuel : Nat) (arr : Array α) (s e : Nat), s ≤ e → e ≤ arr.size → e - s ≤ fuel →
      (∀ k x, s ≤ k → k < e → arr[k]? = some x → P x) →
      ∃ arr', sortSeg before fuel arr s e = some arr' ∧ SwapsIn s e arr arr' ∧ SortedSeg before arr' s e := by
  intro fuel
  induction fuel with
  | zero =>
    intro arr s e hse _ hf _
    have : s = e := by omega
    subst this
    refine ⟨arr, by simp [sortSeg], SwapsIn.refl _, ?_⟩
    intro i j x y h1 h2 h3; omega
  | succ fuel ih =>
    intro arr s e hse hsz hf hP
    by_cases hEq : s = e
    · subst hEq
      refine ⟨arr, by simp [sortSeg], SwapsIn.refl _, ?_⟩
      intro i j x y h1 h2 h3; omega
    · have hlt : s < e := by omega
      have hs : s < arr.size := by omega
      obtain ⟨p, hp⟩ : ∃ p, arr[s]? = some p := ⟨arr[s], Array.getElem?_eq_getElem hs⟩
      obtain ⟨arr1, idx, hpl, hsw1, hle1, hlt1, hL1, hR1⟩ :=
        partLoop_spec before arr s s (s + 1) e p hp (Nat.le_refl _) (by omega) (by omega) hsz
          (by intro k x a b; omega) (by intro k x a b; omega)
      have hsz1 : arr1.size = arr.size := hsw1.size_eq
      have hp1 : arr1[s]? = some p := by rw [hsw1.outside s (by omega)]; exact hp
      have hidx : idx < arr1.size := by omega
      have hs1 : s < arr1.size := by omega
      -- the pivot moves to `idx`
      obtain ⟨arr2, hsw?, hsw2, hA, hB, hC⟩ : ∃ arr2,
          (if idx ≠ s then swap? arr1 idx s else some arr1) = some arr2 ∧ SwapsIn s e arr1 arr2 ∧
          arr2[idx]? = some p ∧
          (∀ k x, s ≤ k → k < idx → arr2[k]? = some x → before x p = true) ∧
          (∀ k x, idx < k → k < e → arr2[k]? = some x → before x p = false) := by
        by_cases hi : idx = s
        · subst hi
          refine ⟨arr1, by simp, SwapsIn.refl _, hp1, ?_, hR1⟩
          intro k x a b; omega
        · refine ⟨arr1.swap idx s hidx hs1, by simp [hi, swap?_eq_some arr1 idx s hidx hs1],
            SwapsIn.single arr1 idx s hidx hs1 hle1 hlt1 (Nat.le_refl _) hlt, ?_, ?_, ?_⟩
          · rw [getElem?_swap']
            have : ¬ s = idx := fun h => hi h.symm
            simp [this, hp1]
          · intro k x hk1 hk2 hx
            rw [getElem?_swap'] at hx
            by_cases e1 : s = k
            · simp only [e1, if_true] at hx
              exact hL1 idx x (by omega) (Nat.le_refl _) hx
            · have e2 : ¬ idx = k := by omega
              simp only [e1, e2, if_false] at hx
              exact hL1 k x (by omega) (by omega) hx
          · intro k x hk1 hk2 hx
            rw [getElem?_swap'] at hx
            have e1 : ¬ s = k := by omega
            have e2 : ¬ idx = k := by omega
            simp only [e1, e2, if_false] at hx
            exact hR1 k x hk1 hk2 hx
      have hsw02 : SwapsIn s e arr arr2 := (hsw1.mono (by omega) (Nat.le_refl _)).trans hsw2
      have hsz2 : arr2.size = arr.size := hsw02.size_eq
      have hP2 := hsw02.all_in P hP
      -- left part
      obtain ⟨arr3, hs3, hsw3, hsorted3⟩ := ih arr2 s idx hle1 (by omega) (by omega)
        (by intro k x a b c; exact hP2 k x a (by omega) c)
      have hsz3 : arr3.size = arr.size := by rw [hsw3.size_eq]; exact hsz2
      have hP3 := (hsw3.mono (Nat.le_refl s) (Nat.le_of_lt hlt1)).all_in P hP2
      have hA3 : arr3[idx]? = some p := by rw [hsw3.outside idx (by omega)]; exact hA
      have hB3 := hsw3.all_in (fun x => before x p = true) hB
      have hC3 : ∀ k x, idx < k → k < e → arr3[k]? = some x → before x p = false := by
        intro k x a b c; rw [hsw3.outside k (by omega)] at c; exact hC k x a b c
      -- right part
      obtain ⟨arr4, hs4, hsw4, hsorted4⟩ := ih arr3 (idx + 1) e (by omega) (by omega) (by omega)
        (by intro k x a b c; exact hP3 k x (by omega) b c)
      have hP4 := (hsw4.mono (by omega : s ≤ idx + 1) (Nat.le_refl e)).all_in P hP3
      have hA4 : arr4[idx]? = some p := by rw [hsw4.outside idx (by omega)]; exact hA3
      have hB4 : ∀ k x, s ≤ k → k < idx → arr4[k]? = some x → before x p = true := by
        intro k x a b c; rw [hsw4.outside k (by omega)] at c; exact hB3 k x a b c
      have hC4 := hsw4.all_in (fun x => before x p = false) (by
        intro k x a b c; exact hC3 k x (by omega) b c)
      have hPp : P p := hP4 idx p hle1 hlt1 hA4
      refine ⟨arr4, ?_, ?_, ?_⟩
      · rw [sortSeg]
        simp only [hEq, if_false, hpl, hsw?, hs3, hs4]
      · exact hsw02.trans ((hsw3.mono (Nat.le_refl s) (Nat.le_of_lt hlt1)).trans
          (hsw4.mono (by omega) (Nat.le_refl e)))
      · intro i j x y hi hij hj hx hy
        have hPx : P x := hP4 i x hi (by omega) hx
        have hPy : P y := hP4 j y (by omega) hj hy
        by_cases c1 : j < idx
        · -- both in the left part
          apply hsorted3 i j x y hi hij c1
          · rw [← hsw4.outside i (by omega)]; exact hx
          · rw [← hsw4.outside j (by omega)]; exact hy
        · by_cases c2 : idx < i
          · exact hsorted4 i j x y (by omega) hij hj hx hy
          · by_cases c3 : i = idx
            · -- x is the pivot, y to its right
              subst c3
              rw [hA4] at hx
              rw [← Option.some.inj hx]
              exact hC4 j y (by omega) hj hy
            · have hxb : before x p = true := hB4 i x hi (by omega) hx
              by_cases c4 : j = idx
              · subst c4
                rw [hA4] at hy
                rw [← Option.some.inj hy]
                exact hord.asymm x p hPx hPp hxb
              · have hyb : before y p = false := hC4 j y (by omega) hj hy
                cases hyx : before y x with
                | false => rfl
                | true =>
                  have := hord.trans y x p hPy hPx hPp hyx hxb
                  rw [hyb] at this; cases this

/-- Whole-array form: `Memory::Sort(arr, 0, size)` with fuel `size` returns an ordered
    permutation, for any comparison that is a strict partial order on the elements present. -/
theorem sortSeg_full (before : α → α → Bool) (P : α → Prop) (hord : StrictOn P before)
    (arr : Array α) (hP : ∀ x, x ∈ arr → P x) :
    ∃ arr', sortSeg before arr.size arr 0 arr.size = some arr' ∧
      arr'.toList.Perm arr.toList ∧
      arr'.toList.Pairwise (fun x y => before y x = false) := by
  obtain ⟨arr', h1, h2, h3⟩ := sortSeg_spec before P hord arr.size arr 0 arr.size (Nat.zero_le _)
    (Nat.le_refl _) (by omega) (by intro k x _ _ hx; exact hP x (Array.mem_of_getElem? hx))
  refine ⟨arr', h1, h2.perm, ?_⟩
  rw [List.pairwise_iff_getElem]
  intro i j hi hj hij
  have hsz : arr'.size = arr.size := h2.size_eq
  have hi' : i < arr'.size := by simpa using hi
  have hj' : j < arr'.size := by simpa using hj
  exact h3 i j _ _ (Nat.zero_le _) hij (by omega)
    (by rw [Array.getElem?_eq_getElem hi', Array.getElem_toList])
    (by rw [Array.getElem?_eq_getElem hj', Array.getElem_toList])

/-- The executable "ordered" predicate is `List.Pairwise`. -/
theorem orderedBy_iff (before : α → α → Bool) (l : List α) :
    orderedBy before l = true ↔ l.Pairwise (fun x y => before y x = false) := by
  induction l with
  | nil => simp [orderedBy]
  | cons x rest ih =>
    simp only [orderedBy, Bool.and_eq_true, List.all_eq_true, Bool.not_eq_eq_eq_not, Bool.not_true,
      List.pairwise_cons, ih]

/-- Judging by the printed comparison table is judging by `orderedBy`. -/
theorem tableOrdered_pairsTable (before : α → α → Bool) (l : List α) :
    tableOrdered (pairsTable before l) = orderedBy before l := by
  induction l with
  | nil => rfl
  | cons x rest ih =>
    simp only [pairsTable, orderedBy, ← ih, tableOrdered, List.all_append, List.all_map]
    rfl

theorem tableChain_chainTable (le : α → α → Bool) (l : List α) :
    tableChain (chainTable le l) = true ↔ l.Pairwise (fun x y => le x y = true) := by
  induction l with
  | nil => simp [chainTable, tableChain]
  | cons x rest ih =>
    simp only [chainTable, tableChain, List.all_append, List.all_map, Bool.and_eq_true,
      List.pairwise_cons] at ih ⊢
    rw [ih]
    simp [List.all_eq_true]

/-- The executable "rearrangement" predicate is `List.Perm`. -/
theorem isPermOf_iff [BEq α] [LawfulBEq α] (out inp : List α) :
    isPermOf out inp = true ↔ out.Perm inp := by
  constructor
  · intro h
    simp only [isPermOf, List.all_eq_true, beq_iff_eq, List.mem_append] at h
    rw [List.perm_iff_count]
    intro a
    by_cases ha : a ∈ out
    · exact h a (Or.inl ha)
    · by_cases hb : a ∈ inp
      · exact h a (Or.inr hb)
      · rw [List.count_eq_zero_of_not_mem ha, List.count_eq_zero_of_not_mem hb]
  · intro h
    simp only [isPermOf, List.all_eq_true, beq_iff_eq]
    exact fun x _ => h.count_eq x

/-- A strict order pulled back along a projection (sorting records by a key). -/
theorem StrictOn.comap {β : Type} {P : β → Prop} {before : β → β → Bool} (h : StrictOn P before)
    (f : α → β) : StrictOn (fun x => P (f x)) (fun x y => before (f x) (f y)) where
  asymm := fun x y hx hy => h.asymm (f x) (f y) hx hy
  trans := fun x y z hx hy hz => h.trans (f x) (f y) (f z) hx hy hz

/-- Rearranging an association list with pairwise distinct keys does not change any lookup. -/
theorem perm_lookup {κ β : Type} [BEq κ] [LawfulBEq κ] {l l' : List (κ × β)} (hp : l.Perm l')
    (hnd : l.Pairwise (fun a b => a.1 ≠ b.1)) (k : κ) : l.lookup k = l'.lookup k := by
  induction hp with
  | nil => rfl
  | cons x _ ih =>
    rw [List.pairwise_cons] at hnd
    cases x with
    | mk a b => simp only [List.lookup_cons, ih hnd.2]
  | swap x y l =>
    rw [List.pairwise_cons, List.pairwise_cons] at hnd
    have hne : y.1 ≠ x.1 := hnd.1 x (List.mem_cons_self ..)
    cases x with
    | mk a b =>
      cases y with
      | mk c d =>
        simp only [List.lookup_cons]
        by_cases h1 : k = a
        · subst h1
          have : (k == c) = false := by
            simp only [beq_eq_false_iff_ne, ne_eq]; exact fun e => hne e.symm
          simp [this]
        · have : (k == a) = false := by simpa using h1
          simp [this]
  | trans h1 _ ih1 ih2 =>
    rw [ih1 hnd]
    exact ih2 ((h1.pairwise_iff (fun {a b} (h : a.1 ≠ b.1) => Ne.symm h)).mp hnd)

theorem liveAssoc_perm {a b : List Slot3} (h : a.Perm b) : (liveAssoc a).Perm (liveAssoc b) :=
  (h.filter _).map _

end Qentem.Sort
