import Qentem.Proofs.NumToStrRound
import Qentem.Props.C09
/-! C11 helper: the round trip through the **real parser model** (`Qentem.StrToNum.strToNum`, property C09)
for doubles that hold an integer below 2^53: `format17` prints the plain numeral and C09's
`int_exact_natural` / `int_exact_negative` read it back exactly. -/
set_option linter.unusedSimpArgs false
set_option linter.unusedVariables false
namespace Qentem.Proofs.NumToStr
open Qentem.NumToStr Qentem.Generated.NumToStr Qentem

/-! ### C11: the round trip through the real parser model, for integers -/

theorem D_head_nonzero : ∀ n, 0 < n → ∃ d1 xs, D n = d1 :: xs ∧ 48 < d1 ∧ d1 ≤ 57 := by
  intro n
  induction n using Nat.strong_induction_on with
  | _ n ih =>
    intro hn
    by_cases h : n < 10
    · exact ⟨48 + n, [], D_lt10 h, by omega, by omega⟩
    · obtain ⟨d1, xs, hD, h1, h2⟩ := ih (n / 10) (by omega) (by omega)
      exact ⟨d1, xs ++ [48 + n % 10], by rw [D_step (by omega), hD]; rfl, h1, h2⟩

theorem unitsAt_self : ∀ (l pre : List Nat), StrToNum.unitsAt (pre ++ l) (pre ++ l).length pre.length l := by
  intro l
  induction l with
  | nil => intro pre; trivial
  | cons x xs ih =>
    intro pre
    refine ⟨?_, ?_⟩
    · unfold StrToNum.rd
      rw [if_pos (by simp)]; simp
    · have := ih (pre ++ [x])
      simp only [List.append_assoc, List.singleton_append, List.length_append, List.length_singleton] at this
      simpa [List.length_append] using this

theorem decVal_D (n : Nat) : StrToNum.decVal (D n) = n := digitsValue_D n

theorem allDigits_of_D {n : Nat} {d1 : Nat} {xs : List Nat} (h : D n = d1 :: xs) : StrToNum.AllDigits xs := by
  intro x hx
  have := D_mem_range n x (by rw [h]; simp [hx])
  simp [StrToNum.isDigit]; omega

/-- **C11 for integers, with the real parser model**: a double holding an integer `n`, `0 < n < 2^53`, either sign,
is printed with 17 digits as its plain numeral, and `stringToNumber` on exactly that text returns the exact
integer: kind Natural with value `n`, or kind Integer with the two's-complement pattern of `-n`, the whole text
consumed.  (The library then converts that integer to `double`, which is exact below 2^53.) -/
theorem roundtrip17_int_parser (bits j : Nat)
    (h : IntValued64 ((bits / 2 ^ 52) % 2 ^ 11) (bits % 2 ^ 52) j) (hsmall : (bits / 2 ^ 52) % 2 ^ 11 - 1023 ≤ 52) :
    ∃ t n den, 0 < den ∧ format17 bits = .ok t ∧
      FmtSpec.decode64 bits = .fin (decide (bits / 2 ^ 63 % 2 = 1)) (n * den) den ∧
      StrToNum.strToNum t 0 t.length =
        some (if bits / 2 ^ 63 % 2 = 1 then ⟨.integer, 2 ^ 64 - n, t.length⟩ else ⟨.natural, n, t.length⟩) := by
  obtain ⟨den, hden, hdec⟩ := decode64_int h
  have hfmt := format17_small_int bits j h hsmall
  generalize hn : intValue64 ((bits / 2 ^ 52) % 2 ^ 11) (bits % 2 ^ 52) = n at *
  have hnpos : 0 < n := by rw [← hn]; exact intValue64_pos h
  have hnlt : n < 2 ^ 53 := by
    rw [← hn]
    have hbig : ¬ 52 < (bits / 2 ^ 52) % 2 ^ 11 - 1023 := by omega
    rw [intValue64_small h.he1 hbig]
    have hf := h.hf
    calc (2 ^ 52 + bits % 2 ^ 52) / 2 ^ (52 - ((bits / 2 ^ 52) % 2 ^ 11 - 1023)) ≤ 2 ^ 52 + bits % 2 ^ 52 := Nat.div_le_self _ _
      _ < 2 ^ 53 := by omega
  obtain ⟨d1, xs, hD, h1, h2⟩ := D_head_nonzero n hnpos
  have hnz : StrToNum.isNonZeroDigit d1 = true := by simp [StrToNum.isNonZeroDigit]; omega
  have hxs := allDigits_of_D hD
  have hlen : (D n).length ≤ 4294967295 := by
    have := D_length_le n 17 (by decide) (by omega); omega
  refine ⟨_, n, den, hden, hfmt, hdec, ?_⟩
  have hv : StrToNum.decVal (d1 :: xs) = n := by rw [← hD]; exact decVal_D n
  have hlen2 : xs.length ≤ 17 := by
    have := D_length_le n 17 (by decide) (by omega); rw [hD] at this; simp at this; omega
  by_cases hs : bits / 2 ^ 63 % 2 = 1
  · simp only [hs, decide_true, FmtSpec.signed, if_true, FmtSpec.cMinus]
    have hu := unitsAt_self (45 :: D n) []
    simp only [List.nil_append, List.length_nil] at hu
    rw [hD] at hu ⊢
    have := Qentem.Props.C09.int_exact_negative (45 :: d1 :: xs) 0 (45 :: d1 :: xs).length d1 xs
      (by simp; omega) hnz hxs hu (Or.inl (by simp; omega)) (by rw [hv]; omega)
    rw [this, hv]; simp; omega
  · simp only [hs, decide_false, FmtSpec.signed, Bool.false_eq_true, if_false]
    have hu := unitsAt_self (D n) []
    simp only [List.nil_append, List.length_nil] at hu
    rw [hD] at hu ⊢
    have := Qentem.Props.C09.int_exact_natural (d1 :: xs) 0 (d1 :: xs).length false d1 xs
      (by simp; omega) hnz hxs (by simpa using hu) (Or.inl (by simp [StrToNum.b2n]; omega)) (by rw [hv]; omega)
    rw [this, hv]; simp [StrToNum.b2n]; omega

end Qentem.Proofs.NumToStr
