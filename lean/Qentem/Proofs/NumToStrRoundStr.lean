import Qentem.Proofs.NumToStrDefault
import Mathlib.Tactic.IntervalCases
/-! C10 helper: `roundStringNumber` on a digit run.

* `Rl b` — the run as a list, least significant digit first; `Rl_get`, `Rl_drop`, `Rl_take`.
* `skipWhile_spec`; runs of zeros / nines in the decimal digits of a number.
* `upCode` — the test `roundStringNumber` performs, as a function of the number; `upCode_iff`,
  `roundHalfEven_digits`: it is arithmetic round-half-even of `N / (den · 10^(i+1))` when the run is
  `⌊N/den⌋` and the sticky flag says whether `N/den` is an integer.
* `round_test`, `roundCarry_spec` — what the model does to the run: the incremented digit, the carry
  over nines, the carry out of the top digit (appended '1' or the top '9' turned into '1'). -/
set_option linter.unusedSimpArgs false
set_option linter.unusedVariables false
namespace Qentem.Proofs.NumToStr
open Qentem.NumToStr Qentem.Generated.NumToStr Qentem

/-! ### the reversed digit run as a list: `Rl b = (D b).reverse`, least significant digit first -/

abbrev Rl (b : Nat) : List Nat := (D b).reverse

theorem Rl_lt10 {b : Nat} (h : b < 10) : Rl b = [48 + b] := by simp [Rl, D_lt10 h]

theorem Rl_step {b : Nat} (h : 10 ≤ b) : Rl b = (48 + b % 10) :: Rl (b / 10) := by
  simp [Rl, D_step h]

theorem Rl_length (b : Nat) : (Rl b).length = (D b).length := by simp [Rl]

/-- digit `k` of the run -/
theorem Rl_get : ∀ (k b : Nat), k < (D b).length → (Rl b)[k]? = some (48 + b / 10 ^ k % 10) := by
  intro k
  induction k with
  | zero =>
    intro b _
    by_cases h : b < 10
    · simp [Rl_lt10 h, Nat.mod_eq_of_lt h]
    · simp [Rl_step (by omega : 10 ≤ b)]
  | succ k ih =>
    intro b hk
    by_cases h : b < 10
    · rw [D_lt10 h] at hk; simp at hk
    · have h10 : 10 ≤ b := by omega
      have hlen : (D b).length = (D (b / 10)).length + 1 := by rw [D_step h10]; simp
      rw [Rl_step h10, List.getElem?_cons_succ, ih (b / 10) (by omega), Nat.div_div_eq_div_mul, Nat.pow_succ, Nat.mul_comm]

theorem pow_le_of_len {b k : Nat} (hk0 : 0 < k) (hk : k < (D b).length) : 10 ^ k ≤ b := by
  by_contra hcon
  have := (D_length_le_iff hk0).mpr (by omega : b < 10 ^ k); omega

theorem Rl_drop {b k : Nat} (hk : k < (D b).length) : (Rl b).drop k = Rl (b / 10 ^ k) := by
  by_cases hk0 : k = 0
  · subst hk0; simp
  · rw [Rl, List.drop_reverse, D_take (pow_le_of_len (by omega) hk)]

theorem Rl_take {b k : Nat} (hk : k < (D b).length) : (Rl b).take k = (Dk k (b % 10 ^ k)).reverse := by
  by_cases hk0 : k = 0
  · subst hk0; simp [Dk]
  · rw [Rl, List.take_reverse, D_drop (pow_le_of_len (by omega) hk)]

/-- a fixed-width digit string is all zeros exactly when the number is zero -/
theorem Dk_any_nonzero : ∀ (k x : Nat), x < 10 ^ k → ((Dk k x).any (· != 48) = decide (x ≠ 0)) := by
  intro k
  induction k with
  | zero => intro x hx; simp at hx; simp [Dk, hx]
  | succ k ih =>
    intro x hx
    have hx' : x / 10 < 10 ^ k := by rw [Nat.pow_succ] at hx; omega
    simp only [Dk, List.any_append, ih _ hx', List.any_cons, List.any_nil, Bool.or_false]
    rw [Bool.eq_iff_iff]
    simp only [Bool.or_eq_true, decide_eq_true_eq, bne_iff_ne, ne_eq]
    omega

/-! ### the skipping loops -/

theorem skipWhile_spec (c : Nat) : ∀ (fuel : Nat) (s : List Nat) (idx : Nat), s.length ≤ idx + fuel + 1 →
    idx ≤ skipWhile c fuel s idx ∧
    (∀ m, idx ≤ m → m < skipWhile c fuel s idx → s[m]? = some c) ∧
    ¬ (skipWhile c fuel s idx + 1 < s.length ∧ s[skipWhile c fuel s idx]? = some c) ∧
    (skipWhile c fuel s idx = idx ∨ skipWhile c fuel s idx + 1 ≤ s.length) := by
  intro fuel
  induction fuel with
  | zero =>
    intro s idx h
    simp only [skipWhile]
    exact ⟨Nat.le_refl _, fun m h1 h2 => by omega, fun hc => by omega, by simp⟩
  | succ f ih =>
    intro s idx h
    rw [skipWhile]
    by_cases hc : idx + 1 < s.length ∧ s[idx]? = some c
    · rw [if_pos hc]
      obtain ⟨h1, h2, h3, h4⟩ := ih s (idx + 1) (by omega)
      refine ⟨by omega, ?_, h3, ?_⟩
      · intro m hm1 hm2
        by_cases hm : m = idx
        · rw [hm]; exact hc.2
        · exact h2 m (by omega) hm2
      · rcases h4 with h4 | h4
        · right; rw [h4]; omega
        · right; exact h4
    · rw [if_neg hc]
      exact ⟨Nat.le_refl _, fun m h1 h2 => by omega, hc, Or.inl rfl⟩

/-! ### runs of equal digits -/

/-- digits `a … k-1` of `b` are all zero -/
theorem digits_zero_run {b a : Nat} : ∀ (n : Nat), (∀ m, a ≤ m → m < a + n → b / 10 ^ m % 10 = 0) →
    b / 10 ^ a = (b / 10 ^ (a + n)) * 10 ^ n := by
  intro n
  induction n with
  | zero => intro _; simp
  | succ n ih =>
    intro h
    have h1 := ih (fun m h1 h2 => h m h1 (by omega))
    have h2 := h (a + n) (by omega) (by omega)
    have e : b / 10 ^ (a + (n + 1)) = b / 10 ^ (a + n) / 10 := by
      rw [← Nat.add_assoc, Nat.pow_succ, Nat.div_div_eq_div_mul]
    rw [h1, e, Nat.pow_succ]
    generalize b / 10 ^ (a + n) = x at *
    have : x = x / 10 * 10 := by omega
    calc x * 10 ^ n = x / 10 * 10 * 10 ^ n := by rw [← this]
      _ = x / 10 * (10 ^ n * 10) := by ring

/-- digits `a … k-1` of `b` are all nine -/
theorem digits_nine_run {b a : Nat} : ∀ (n : Nat), (∀ m, a ≤ m → m < a + n → b / 10 ^ m % 10 = 9) →
    b / 10 ^ a + 1 = (b / 10 ^ (a + n) + 1) * 10 ^ n := by
  intro n
  induction n with
  | zero => intro _; simp
  | succ n ih =>
    intro h
    have h1 := ih (fun m h1 h2 => h m h1 (by omega))
    have h2 := h (a + n) (by omega) (by omega)
    have e : b / 10 ^ (a + (n + 1)) = b / 10 ^ (a + n) / 10 := by
      rw [← Nat.add_assoc, Nat.pow_succ, Nat.div_div_eq_div_mul]
    rw [h1, e, Nat.pow_succ]
    generalize b / 10 ^ (a + n) = x at *
    have : x + 1 = (x / 10 + 1) * 10 := by omega
    calc (x + 1) * 10 ^ n = (x / 10 + 1) * 10 * 10 ^ n := by rw [← this]
      _ = (x / 10 + 1) * (10 ^ n * 10) := by ring

/-! ### the rounding decision: digit-level test = arithmetic round-half-even -/

/-- what `roundStringNumber` tests, on the number `b` of the run: rounding digit `d`, the digits below it, the
sticky flag, the parity of the kept part -/
def upCode (b i : Nat) (ru : Bool) : Bool :=
  decide (5 < b / 10 ^ i % 10) ||
    (decide (b / 10 ^ i % 10 = 5) && (ru || decide (b % 10 ^ i ≠ 0) || decide (b / 10 ^ (i + 1) % 2 = 1)))

theorem upCode_iff (b i : Nat) (ru : Bool) :
    upCode b i ru = true ↔
      (10 ^ (i + 1) < 2 * (b % 10 ^ (i + 1)) ∨
        (2 * (b % 10 ^ (i + 1)) = 10 ^ (i + 1) ∧ (ru = true ∨ b / 10 ^ (i + 1) % 2 = 1))) := by
  have hrem : b % 10 ^ (i + 1) = b % 10 ^ i + 10 ^ i * (b / 10 ^ i % 10) := by
    rw [Nat.pow_succ, Nat.mod_mul]
  have hlow : b % 10 ^ i < 10 ^ i := Nat.mod_lt _ (Nat.pow_pos (by decide))
  have hd : b / 10 ^ i % 10 < 10 := Nat.mod_lt _ (by decide)
  have hT : 0 < 10 ^ i := Nat.pow_pos (by decide)
  unfold upCode
  rw [hrem, Nat.pow_succ]
  clear hrem
  generalize b / 10 ^ i % 10 = d at *
  generalize b % 10 ^ i = low at *
  generalize 10 ^ i = T at *
  generalize b / (T * 10) % 2 = par
  simp only [Bool.or_eq_true, Bool.and_eq_true, decide_eq_true_eq, ne_eq]
  cases ru <;> by_cases hl : low = 0 <;> by_cases hp : par = 1 <;> interval_cases d <;> simp [hl, hp] <;> omega

/-- `N / (den · 10^(i+1))` rounded half-even, when `b = ⌊N/den⌋` and `ru ↔ N/den` is not an integer -/
theorem roundHalfEven_digits {N den b i : Nat} {ru : Bool} (hden : 0 < den) (hb : b = N / den)
    (hru : ru = true ↔ N % den ≠ 0) :
    FmtSpec.roundHalfEven N (den * 10 ^ (i + 1)) = b / 10 ^ (i + 1) + (if upCode b i ru then 1 else 0) := by
  have hc : 0 < 10 ^ (i + 1) := Nat.pow_pos (by decide)
  have hq : N / (den * 10 ^ (i + 1)) = b / 10 ^ (i + 1) := by rw [hb, Nat.div_div_eq_div_mul]
  have hr : N % (den * 10 ^ (i + 1)) = N % den + den * (b % 10 ^ (i + 1)) := by rw [hb, Nat.mod_mul]
  have he : N % den < den := Nat.mod_lt _ hden
  have hrem : b % 10 ^ (i + 1) < 10 ^ (i + 1) := Nat.mod_lt _ hc
  have heven : 10 ^ (i + 1) = 2 * (5 * 10 ^ i) := by rw [Nat.pow_succ]; ring
  unfold FmtSpec.roundHalfEven
  simp only [hq, hr]
  have hiff := upCode_iff b i ru
  generalize upCode b i ru = u at *
  generalize b % 10 ^ (i + 1) = rem at *
  generalize N % den = e at *
  generalize b / 10 ^ (i + 1) = K at *
  rw [heven] at hiff hrem ⊢
  generalize 5 * 10 ^ i = h at *
  have hX1 : h < rem → den * h + den ≤ den * rem := by
    intro hlt
    calc den * h + den = den * (h + 1) := by ring
      _ ≤ den * rem := Nat.mul_le_mul_left _ hlt
  have hX2 : rem < h → den * rem + den ≤ den * h := by
    intro hlt
    calc den * rem + den = den * (rem + 1) := by ring
      _ ≤ den * h := Nat.mul_le_mul_left _ hlt
  have hX3 : rem = h → den * rem = den * h := fun h => by rw [h]
  have hY : den * (2 * h) = 2 * (den * h) := by ring
  rw [hY]
  generalize den * h = Y at *
  generalize den * rem = X at *
  cases u
  · simp only [Bool.false_eq_true, if_false, Nat.add_zero]
    have hn := hiff.not.mp (by simp)
    rw [if_neg]
    intro hcon
    apply hn
    rcases Nat.lt_trichotomy rem h with hlt | heq | hgt
    · have := hX2 hlt; omega
    · have := hX3 heq
      rcases hcon with hcon | hcon
      · have : ru = true := hru.mpr (by omega)
        right; exact ⟨by omega, Or.inl this⟩
      · right; exact ⟨by omega, Or.inr hcon.2⟩
    · left; omega
  · simp only [if_true]
    have hy := hiff.mp rfl
    rw [if_pos]
    rcases hy with hy | ⟨hy1, hy2⟩
    · left; have := hX1 (by omega); omega
    · have hrh : rem = h := by omega
      have := hX3 hrh
      rcases hy2 with hy2 | hy2
      · left; have : e ≠ 0 := hru.mp hy2; omega
      · by_cases he0 : e = 0
        · right; exact ⟨by omega, hy2⟩
        · left; omega

/-! ### `roundStringNumber` on a digit run -/

theorem rdAt_append (s t : List Nat) (k v : Nat) (h : t[k]? = some v) : rdAt (s ++ t) (s.length + k) = .ok v := by
  unfold rdAt
  rw [List.getElem?_append_right (by omega), Nat.add_sub_cancel_left, h]
  rfl

theorem rdAt_Rl (s : List Nat) {b k : Nat} (hk : k < (D b).length) :
    rdAt (s ++ Rl b) (s.length + k) = .ok (48 + b / 10 ^ k % 10) :=
  rdAt_append s _ k _ (Rl_get k b hk)

theorem anyNonZero_Rl (s : List Nat) {b i : Nat} (hi : i < (D b).length) :
    anyNonZero (s ++ Rl b) s.length (s.length + i) = decide (b % 10 ^ i ≠ 0) := by
  unfold anyNonZero
  have h1 : ((s ++ Rl b).take (s.length + i)).drop s.length = (Rl b).take i := by
    rw [List.take_append, List.take_of_length_le (by omega), Nat.add_sub_cancel_left, List.drop_left']
    rfl
  rw [h1, Rl_take hi, List.any_reverse, Ch.zero]
  exact Dk_any_nonzero i _ (Nat.mod_lt _ (Nat.pow_pos (by decide)))

theorem five_lt (x : Nat) : decide (Ch.five < 48 + x) = decide (5 < x) := by
  by_cases hx : 5 < x
  · have : Ch.five < 48 + x := by show 53 < 48 + x; omega
    simp [hx, this]
  · have : ¬ (Ch.five < 48 + x) := by show ¬ (53 < 48 + x); omega
    simp [hx, this]

theorem five_eq (x : Nat) : (48 + x = Ch.five) ↔ x = 5 := by
  show 48 + x = 53 ↔ _; omega

/-- the test `roundStringNumber` performs is `upCode` -/
theorem round_test (s : List Nat) {b i : Nat} (hi : i < (D b).length) (ru : Bool) :
    roundTest s.length (s ++ Rl b) (s.length + i) ru = .ok (upCode b i ru) := by
  unfold roundTest
  rw [anyNonZero_Rl s hi, rdAt_Rl s hi, ok_bind]
  simp only [five_lt, five_eq, Ch.zero]
  unfold upCode
  have hd : b / 10 ^ i % 10 < 10 := Nat.mod_lt _ (by decide)
  by_cases h5 : b / 10 ^ i % 10 = 5
  · have e1 : True := trivial
    by_cases hru : (ru || decide (b % 10 ^ i ≠ 0)) = true
    · have hne : ¬ (ru = false ∧ b % 10 ^ i = 0) := by
        intro hc; rw [hc.1] at hru; simp [hc.2] at hru
      have hor : (ru || decide (b % 10 ^ i ≠ 0) || decide (b / 10 ^ (i + 1) % 2 = 1)) = true := by rw [hru, Bool.true_or]
      simp only [h5, hru, Bool.not_true, Bool.false_eq_true, and_false, if_false, pure_bind, Bool.true_or, hor]
      simp [h5, pure, Except.pure]
    · simp only [Bool.not_eq_true] at hru
      simp only [h5, hru, Bool.not_false, and_self, if_true]
      have hru' : ru = false ∧ decide (b % 10 ^ i ≠ 0) = false := by simpa using hru
      by_cases hl : s.length + i + 1 < (s ++ Rl b).length
      · have hi1 : i + 1 < (D b).length := by simp at hl; omega
        rw [if_pos hl, Nat.add_assoc, rdAt_Rl s hi1, ok_bind]
        have e2 : (48 + b / 10 ^ (i + 1) % 10 - 48) % 2 = b / 10 ^ (i + 1) % 2 := by omega
        simp [h5, hru'.1, hru'.2, e2, pure, Except.pure, bind, Except.bind]
      · rw [if_neg hl]
        have hK : b / 10 ^ (i + 1) = 0 := by
          apply Nat.div_eq_of_lt
          have : (D b).length ≤ i + 1 := by simp at hl; omega
          exact (D_length_le_iff (by omega)).mp this
        simp [h5, hru'.1, hru'.2, hK, pure, Except.pure, bind, Except.bind]
  · simp [h5, pure, Except.pure, bind, Except.bind]

theorem Rl_succ {x : Nat} (h9 : x % 10 ≠ 9) : (Rl x).set 0 (48 + x % 10 + 1) = Rl (x + 1) := by
  by_cases h : x < 10
  · rw [Rl_lt10 h, Rl_lt10 (by omega : x + 1 < 10), Nat.mod_eq_of_lt h]; simp; omega
  · have h10 : 10 ≤ x := by omega
    rw [Rl_step h10, Rl_step (by omega : 10 ≤ x + 1)]
    have e1 : (x + 1) % 10 = x % 10 + 1 := by omega
    have e2 : (x + 1) / 10 = x / 10 := by omega
    simp [e1, e2]; omega

theorem drop_set_self : ∀ (l : List Nat) (k a : Nat), k < l.length → (l.set k a).drop k = a :: l.drop (k + 1) := by
  intro l
  induction l with
  | nil => intro k a h; simp at h
  | cons x xs ih =>
    intro k a h
    cases k with
    | zero => simp
    | succ k => simp at h; simp [ih k a h]

theorem getElem?_append_len (s t : List Nat) (k : Nat) : (s ++ t)[s.length + k]? = t[k]? := by
  rw [List.getElem?_append_right (by omega), Nat.add_sub_cancel_left]

/-- what the carry block does to the run `Rl b` when the digits above position `i` have to be incremented -/
theorem roundCarry_spec (s : List Nat) {b i : Nat} (hb : 0 < b) (hi : i < (D b).length) :
    ∃ k t' pi, roundCarry s.length (s ++ Rl b) (s.length + i + 1) = .ok (s ++ t', s.length + k, pi) ∧
      i + 1 ≤ k ∧
      ((pi = false ∧ k < (D b).length ∧ t'.length = (D b).length ∧ t'.drop k = Rl (b / 10 ^ k + 1) ∧
          (b / 10 ^ k) % 10 ≠ 9 ∧ b / 10 ^ (i + 1) + 1 = (b / 10 ^ k + 1) * 10 ^ (k - (i + 1)))
       ∨ (pi = true ∧ t'.drop k = [49] ∧ t'.length = k + 1 ∧ b / 10 ^ (i + 1) + 1 = 10 ^ ((D b).length - (i + 1)) ∧
          (k = (D b).length - 1 ∧ i + 1 < (D b).length ∨ k = (D b).length ∧ i + 1 = (D b).length))) := by
  have hlen : (s ++ Rl b).length = s.length + (D b).length := by simp
  obtain ⟨h1, h2, h3, h4⟩ := skipWhile_spec Ch.nine (s ++ Rl b).length (s ++ Rl b) (s.length + i + 1) (by omega)
  unfold roundCarry
  generalize skipWhile Ch.nine (s ++ Rl b).length (s ++ Rl b) (s.length + i + 1) = j at *
  by_cases hA : (s ++ Rl b).length ≤ j
  · -- push
    have hj : j = s.length + i + 1 := by rcases h4 with h4 | h4 <;> omega
    have hL : (D b).length = i + 1 := by omega
    refine ⟨(D b).length, Rl b ++ [49], true, ?_, by omega, Or.inr ⟨rfl, ?_, by simp, ?_, Or.inr ⟨rfl, hL.symm⟩⟩⟩
    · simp only [hA, if_true, Ch.one, pure, Except.pure]
      rw [hj, hL, List.append_assoc, Nat.add_assoc]
    · rw [List.drop_append_of_le_length (by simp), List.drop_of_length_le (by simp)]; simp
    · have : b < 10 ^ (i + 1) := (D_length_le_iff (by omega)).mp (by omega)
      rw [Nat.div_eq_of_lt this, hL]; simp
  · have hjlt : j < s.length + (D b).length := by omega
    obtain ⟨k, rfl⟩ : ∃ k, j = s.length + k := ⟨j - s.length, by omega⟩
    have hk : k < (D b).length := by omega
    have hik : i + 1 ≤ k := by omega
    have hnines : ∀ m, i + 1 ≤ m → m < (i + 1) + (k - (i + 1)) → b / 10 ^ m % 10 = 9 := by
      intro m hm1 hm2
      have := h2 (s.length + m) (by omega) (by omega)
      rw [getElem?_append_len, Rl_get m b (by omega)] at this
      have h57 : Ch.nine = 57 := rfl
      rw [h57] at this
      injection this with this; omega
    have hrun := digits_nine_run (b := b) (a := i + 1) (k - (i + 1)) hnines
    rw [show (i + 1) + (k - (i + 1)) = k by omega] at hrun
    rw [if_neg hA, rdAt_Rl s hk, ok_bind]
    by_cases h9 : b / 10 ^ k % 10 = 9
    · -- all nines up to the top digit
      have hd9 : (48 + b / 10 ^ k % 10 = Ch.nine) := by rw [h9]; rfl
      have htop : k + 1 = (D b).length := by
        by_contra hne
        apply h3
        refine ⟨by omega, ?_⟩
        rw [getElem?_append_len, Rl_get k b hk, h9]; rfl
      have hw : ∀ v, wrAt s.length (s ++ Rl b) (s.length + k) v = .ok (s ++ (Rl b).set k v) := by
        intro v
        unfold wrAt
        rw [if_neg (by omega), if_pos (by rw [hlen]; omega), List.set_append_right _ _ (by omega), Nat.add_sub_cancel_left]; rfl
      have hklen : k < (Rl b).length := by rw [Rl_length]; omega
      refine ⟨k, (Rl b).set k 49, true, ?_, hik, Or.inr ⟨rfl, ?_, by rw [List.length_set, Rl_length]; omega, ?_, Or.inl ⟨by omega, by omega⟩⟩⟩
      · simp only [hd9, if_true, hw, ok_bind, pure, Except.pure, Ch.one]
      · rw [drop_set_self _ _ _ hklen, List.drop_of_length_le (by rw [Rl_length]; omega)]
      · have hx : b / 10 ^ k < 10 := by
          have : b < 10 ^ (k + 1) := (D_length_le_iff (by omega)).mp (by omega)
          rw [Nat.div_lt_iff_lt_mul (Nat.pow_pos (by decide)), Nat.mul_comm, ← Nat.pow_succ]; exact this
        have hx9 : b / 10 ^ k = 9 := by rw [← Nat.mod_eq_of_lt hx]; exact h9
        rw [hrun, hx9, ← htop, show k + 1 - (i + 1) = (k - (i + 1)) + 1 by omega, Nat.pow_succ]; ring
    · have hd9 : ¬ (48 + b / 10 ^ k % 10 = Ch.nine) := by
        intro h; apply h9; have : Ch.nine = 57 := rfl; omega
      have hw : ∀ v, wrAt s.length (s ++ Rl b) (s.length + k) v = .ok (s ++ (Rl b).set k v) := by
        intro v
        unfold wrAt
        rw [if_neg (by omega), if_pos (by rw [hlen]; omega), List.set_append_right _ _ (by omega), Nat.add_sub_cancel_left]; rfl
      have hklen : k < (Rl b).length := by rw [Rl_length]; omega
      refine ⟨k, (Rl b).set k (48 + b / 10 ^ k % 10 + 1), false, ?_, hik, Or.inl ⟨rfl, hk, by simp, ?_, h9, hrun⟩⟩
      · simp only [hd9, if_false, hw, ok_bind, pure, Except.pure]
      · rw [drop_set_self _ _ _ hklen, ← Rl_succ h9, ← Rl_drop hk]
        have hdk : (Rl b).drop k = (48 + b / 10 ^ k % 10) :: (Rl b).drop (k + 1) := by
          rw [List.drop_eq_getElem_cons hklen]
          congr 1
          have := Rl_get k b hk
          rw [List.getElem?_eq_getElem hklen] at this
          injection this
        rw [hdk]; simp

end Qentem.Proofs.NumToStr
