import Qentem.Props.C11Parser
/-! C11, formatter side of the parser-half hypothesis (`Props.C11P.roundtrip17_of_formatter`): every `%.17g` text of
a finite double has one of the parser's shapes (`shape17_format`: `Text17` for plain texts, `Shape17.sci` — `Text17.sci`
without its mantissa premise — for exponent texts) and keeps the 1/32-ulp margin in the parser's units
(`marginText_format`, via `margin32_of_close`, `binade_cases`, `marginPair_of_near`).  `generalBody_form`: a `%.{p}g`
text as a `P`-digit integer and a decimal exponent. -/
set_option linter.unusedSimpArgs false
set_option linter.unusedVariables false
namespace Qentem.Proofs.Ident
open Qentem Qentem.Proofs.NumToStr Qentem.Round Qentem.Props.C11P

/-! ### the margin of a `%.17g` text in the parser's units -/

theorem flog2_eq (n d : Nat) : flog2 n d = floorLog2Frac n d := by
  unfold flog2; simp only; exact their_exponent n d

/-- a quotient within 15/32 of an integer keeps 1/32 away from the half-way points -/
theorem marginPair_of_near (A B K : Nat) (hB : 0 < B) (h : |(A : ℚ) / B - K| ≤ 15 / 32) : MarginPair A B := by
  have hBq : (0 : ℚ) < B := by exact_mod_cast hB
  rw [abs_le] at h
  obtain ⟨h1, h2⟩ := h
  obtain ⟨X, hX⟩ : ∃ X, X = K * B := ⟨_, rfl⟩
  have hXq : (X : ℚ) = K * B := by exact_mod_cast hX
  have e1 : (A : ℚ) / B - K = ((A : ℚ) - X) / B := by rw [hXq]; field_simp
  rw [e1] at h1 h2
  rw [le_div_iff₀ hBq] at h1
  rw [div_le_iff₀ hBq] at h2
  have g1 : 32 * X ≤ 32 * A + 15 * B := by
    have : (32 : ℚ) * X ≤ 32 * A + 15 * B := by linarith
    exact_mod_cast this
  have g2 : 32 * A ≤ 32 * X + 15 * B := by
    have : (32 : ℚ) * A ≤ 32 * X + 15 * B := by linarith
    exact_mod_cast this
  unfold MarginPair
  by_cases hc : X ≤ A
  · left
    have hdiv : A / B = K := Nat.div_eq_of_lt_le (by rw [← hX]; exact hc) (by rw [Nat.succ_mul, ← hX]; omega)
    have hmod : A % B = A - X := by rw [Nat.mod_def, hdiv, Nat.mul_comm, hX]
    rw [hmod]; omega
  · right
    have hK : 1 ≤ K := by
      by_contra h0
      have : K = 0 := by omega
      subst this; simp at hX; omega
    have hXB : (K - 1) * B = X - B := by rw [Nat.sub_mul, Nat.one_mul, hX]
    have hBX : B ≤ X := by rw [hX]; exact Nat.le_mul_of_pos_left _ hK
    have hdiv : A / B = K - 1 := Nat.div_eq_of_lt_le (by rw [hXB]; omega)
      (by rw [show K - 1 + 1 = K by omega, ← hX]; omega)
    have hmod : A % B = A - (X - B) := by rw [Nat.mod_def, hdiv, Nat.mul_comm, hXB]
    rw [hmod]; omega


/-- the binade `nearestBits` works in, for a rational between the midpoints around `M·2^q0` -/
theorem binade_cases (mb : Nat) (bias e : Int) (r : ℚ) (e1 M : Nat) (hbias0 : 0 ≤ bias) (he1 : 1 ≤ e1)
    (hM : M < 2 ^ (mb + 1)) (hnorm : 1 < e1 → 2 ^ mb ≤ M)
    (hlo : (2 : ℚ) ^ e ≤ r) (hhi : r < 2 ^ (e + 1))
    (H1l : ((2 * M : ℚ) - 1) * 2 ^ ((e1 : Int) - bias - mb - 1) ≤ r)
    (H1u : r ≤ (2 * M + 1) * 2 ^ ((e1 : Int) - bias - mb - 1)) :
    (if e < 1 - bias then 1 - bias else e) = (e1 : Int) - bias ∨
      ((if e < 1 - bias then 1 - bias else e) = (e1 : Int) - bias - 1 ∧ 1 < e1 ∧ r < 2 ^ ((e1 : Int) - bias) ∧
        M = 2 ^ mb) := by
  have h2 : (1 : ℚ) < 2 := by norm_num
  have hMq : (M : ℚ) + 1 ≤ 2 ^ (mb + 1) := by exact_mod_cast hM
  have hmbz : ((2 : ℚ) ^ (mb : Int)) = 2 ^ mb := zpow_natCast 2 mb
  have hup : r < 2 ^ ((e1 : Int) - bias + 1) := by
    calc r ≤ (2 * M + 1) * 2 ^ ((e1 : Int) - bias - mb - 1) := H1u
      _ < (2 * 2 ^ (mb + 1)) * 2 ^ ((e1 : Int) - bias - mb - 1) := by
          apply mul_lt_mul_of_pos_right _ (by positivity); linarith
      _ = 2 ^ ((e1 : Int) - bias + 1) := by
          rw [show (2 : ℚ) * 2 ^ (mb + 1) = 2 ^ ((mb : Int) + 2) by
            rw [zpow_add₀ (by norm_num), hmbz]; ring, ← zpow_add₀ (by norm_num)]
          congr 1; ring
  have he_le : e ≤ (e1 : Int) - bias := by
    have : (2 : ℚ) ^ e < 2 ^ ((e1 : Int) - bias + 1) := lt_of_le_of_lt hlo hup
    have := (zpow_lt_zpow_iff_right₀ h2).mp this
    omega
  have hlow2 : 1 < e1 → (e1 : Int) - bias - 1 ≤ e := by
    intro h1
    have hMnq : (2 : ℚ) ^ mb ≤ M := by exact_mod_cast hnorm h1
    have h2mb : (1 : ℚ) ≤ 2 ^ mb := one_le_pow₀ (by norm_num)
    have : (2 : ℚ) ^ ((e1 : Int) - bias - 1) < 2 ^ (e + 1) := by
      calc (2 : ℚ) ^ ((e1 : Int) - bias - 1) = 2 ^ mb * 2 ^ ((e1 : Int) - bias - mb - 1) := by
            rw [← hmbz, ← zpow_add₀ (by norm_num)]; congr 1; ring
        _ ≤ ((2 * M : ℚ) - 1) * 2 ^ ((e1 : Int) - bias - mb - 1) := by
            apply mul_le_mul_of_nonneg_right _ (by positivity); linarith
        _ ≤ r := H1l
        _ < 2 ^ (e + 1) := hhi
    have := (zpow_lt_zpow_iff_right₀ h2).mp this
    omega
  by_cases h1 : 1 < e1
  · have := hlow2 h1
    have hne : ¬ (e < 1 - bias) := by omega
    rw [if_neg hne]
    by_cases hee : e = (e1 : Int) - bias
    · left; exact hee
    · right
      have heq : e = (e1 : Int) - bias - 1 := by omega
      have hrlt : r < 2 ^ ((e1 : Int) - bias) := by
        have : e + 1 = (e1 : Int) - bias := by omega
        rw [← this]; exact hhi
      refine ⟨heq, h1, hrlt, ?_⟩
      have hMn := hnorm h1
      by_contra hne
      have hgt : 2 ^ mb + 1 ≤ M := by omega
      have hgtq : (2 : ℚ) ^ mb + 1 ≤ M := by exact_mod_cast hgt
      have : r < r := by
        calc r < 2 ^ ((e1 : Int) - bias) := hrlt
          _ = (2 * 2 ^ mb) * 2 ^ ((e1 : Int) - bias - mb - 1) := by
              rw [show (2 : ℚ) * 2 ^ mb = 2 ^ ((mb : Int) + 1) by rw [zpow_add₀ (by norm_num), hmbz]; ring,
                ← zpow_add₀ (by norm_num)]
              congr 1; ring
          _ ≤ ((2 * M : ℚ) - 1) * 2 ^ ((e1 : Int) - bias - mb - 1) := by
              apply mul_le_mul_of_nonneg_right _ (by positivity); linarith
          _ ≤ r := H1l
      exact lt_irrefl _ this
  · left
    split <;> omega

theorem roundPair_ratio (n d : Nat) (hd : 0 < d) :
    0 < (roundPair n d).2 ∧
    ((roundPair n d).1 : ℚ) / (roundPair n d).2 = (n : ℚ) / d / 2 ^ (binadeExp n d - 52) := by
  have hdq : (0 : ℚ) < d := by exact_mod_cast hd
  unfold roundPair
  by_cases hq : 0 ≤ binadeExp n d - 52
  · rw [if_pos hq]
    obtain ⟨k, hk⟩ := Int.eq_ofNat_of_zero_le hq
    rw [hk, Int.toNat_natCast, zpow_natCast]
    exact ⟨Nat.mul_pos hd (Nat.pow_pos (by decide)), by push_cast; rw [div_div]⟩
  · rw [if_neg hq]
    obtain ⟨k, hk⟩ : ∃ k : Nat, binadeExp n d - 52 = -(k : Int) := ⟨(-(binadeExp n d - 52)).toNat, by omega⟩
    rw [hk, neg_neg, Int.toNat_natCast, zpow_neg, zpow_natCast, div_inv_eq_mul]
    exact ⟨hd, by push_cast; ring⟩

/-- **`Margin32` for a rational close to a double**: within `15/32` ulp of a finite non-zero double (`15/64` at the
bottom of a binade) the parser-side margin holds -/
theorem margin32_of_close (b m d : Nat) (hb : b < 2 ^ 64) (hfin : (b / 2 ^ 52) % 2 ^ 11 ≠ 2 ^ 11 - 1)
    (hnz : (b / 2 ^ 52) % 2 ^ 11 ≠ 0 ∨ b % 2 ^ 52 ≠ 0) (hd : 0 < d)
    (hV : |(m : ℚ) / d - magQ 52 11 b| ≤ 15 / 32 * ulpQ 52 11 b)
    (hVb : sigField 52 11 b = 2 ^ 52 → |(m : ℚ) / d - magQ 52 11 b| ≤ 15 / 64 * ulpQ 52 11 b) :
    Margin32 m d := by
  obtain ⟨num, den, e1, M, hdec, he1eq, hMeq, hnum, hden, he1, he1', hM0, hM, hnorm, hv, hbits, hdb⟩ :=
    decode_fin 52 11 b (by decide) (by decide) hfin hnz hb
  obtain ⟨hE, hSg, hU⟩ := magQ_of_fields he1eq hMeq
  unfold magQ ulpQ at hV hVb
  rw [hSg, hU] at hV hVb
  have hbias : ((2 : Int) ^ (11 - 1) - 1) = 1023 := by norm_num
  rw [hbias] at hU hV hVb
  generalize hq0 : (e1 : Int) - 1023 - (52 : Nat) = q0 at *
  generalize hr : (m : ℚ) / d = r at *
  have hp : (0 : ℚ) < 2 ^ q0 := by positivity
  have hsplit : (2 : ℚ) ^ q0 = 2 * 2 ^ (q0 - 1) := by
    rw [show q0 = 1 + (q0 - 1) by ring, zpow_add₀ (by norm_num)]; simp
  have hp1 : (0 : ℚ) < 2 ^ (q0 - 1) := by positivity
  have hM0q : (1 : ℚ) ≤ M := by exact_mod_cast hM0
  rw [abs_le] at hV
  have hMP : (2 : ℚ) ^ (q0 - 1) ≤ M * 2 ^ (q0 - 1) := le_mul_of_one_le_left (le_of_lt hp1) hM0q
  rw [hsplit] at hV
  have hrpos : 0 < r := by linarith
  have hm : 0 < m := by
    have hdq : (0 : ℚ) < d := by exact_mod_cast hd
    rw [← hr] at hrpos
    have := (div_pos_iff_of_pos_right hdq).mp hrpos
    exact_mod_cast this
  obtain ⟨hlo, hhi⟩ := flog2_spec m d hm hd
  rw [flog2_eq, hr] at hlo hhi
  have hkey := binade_cases 52 1023 (floorLog2Frac m d) r e1 M (by norm_num) he1 hM hnorm hlo hhi
    (by rw [hq0]; linarith) (by rw [hq0]; linarith)
  have hbe : binadeExp m d = (if floorLog2Frac m d < 1 - 1023 then 1 - 1023 else floorLog2Frac m d) := by
    unfold binadeExp; norm_num
  rw [← hbe] at hkey
  obtain ⟨hBpos, hratio⟩ := roundPair_ratio m d hd
  rw [margin32_iff]
  rw [hr] at hratio
  rcases hkey with hk | ⟨hk, h1, hrlt, hM2⟩
  · apply marginPair_of_near _ _ M hBpos
    rw [hratio, hk, show (e1 : Int) - 1023 - 52 = q0 by rw [← hq0]; push_cast; ring]
    rw [abs_le]
    constructor
    · rw [le_sub_iff_add_le, le_div_iff₀ hp, hsplit]; linarith
    · rw [sub_le_iff_le_add, div_le_iff₀ hp, hsplit]; linarith
  · apply marginPair_of_near _ _ (2 * M) hBpos
    have hVb' := hVb hM2
    rw [abs_le] at hVb'
    rw [hratio, hk, show (e1 : Int) - 1023 - 1 - 52 = q0 - 1 by rw [← hq0]; push_cast; ring]
    rw [abs_le]
    push_cast
    constructor
    · rw [le_sub_iff_add_le, le_div_iff₀ hp1]; rw [hsplit] at hVb'; linarith
    · rw [sub_le_iff_le_add, div_le_iff₀ hp1]; rw [hsplit] at hVb'; linarith


/-! ### the form of a `%.{p}g` text -/

/-- `%.{p}g` as "`P`-digit integer `K`, decimal exponent `x`": plain when `-4 ≤ x < P`, scientific otherwise; the
value is `K·10^(x-(P-1))` -/
theorem generalBody_form (num den p : Nat) (hnum : 0 < num) (hden : 0 < den) (hsmall : den ≤ num * 10 ^ 1199) :
    ∃ (K : Nat) (x : Int), 10 ^ ((if p = 0 then 1 else p) - 1) ≤ K ∧ K < 10 ^ (if p = 0 then 1 else p) ∧
      (K : ℚ) * 10 ^ (x - (((if p = 0 then 1 else p) - 1 : Nat) : Int)) =
        ((FmtSpec.scaleRound num den (((if p = 0 then 1 else p : Nat) : Int) - 1 - FmtSpec.floorLog10 num den) : Nat) : ℚ) *
          10 ^ (-((((if p = 0 then 1 else p : Nat) : Int)) - 1 - FmtSpec.floorLog10 num den)) ∧
      FmtSpec.generalBody num den p =
        (if (-4 : Int) ≤ x ∧ x < ((if p = 0 then 1 else p : Nat) : Int) then
          FmtSpec.stripFraction (fixedText K ((((if p = 0 then 1 else p : Nat) : Int)) - 1 - x).toNat)
        else FmtSpec.stripFraction (fixedText K ((if p = 0 then 1 else p) - 1)) ++ FmtSpec.expText x) := by
  generalize hP : (if p = 0 then 1 else p) = P at *
  have hPpos : 0 < P := by rw [← hP]; split <;> omega
  have hnd : num ≠ 0 := by omega
  have hdq : (0 : ℚ) < den := by exact_mod_cast hden
  obtain ⟨hlo, hhi⟩ := floorLog10_spec num den hnum hden hsmall
  have hclose := scaleRound_close num den hden ((P : Int) - 1 - FmtSpec.floorLog10 num den)
  generalize hx0 : FmtSpec.floorLog10 num den = x0 at *
  generalize hK0 : FmtSpec.scaleRound num den ((P : Int) - 1 - x0) = K0 at *
  generalize hv : (num : ℚ) / den = v at *
  have hs_lo : (10 : ℚ) ^ (P - 1) ≤ v * 10 ^ ((P : Int) - 1 - x0) := by
    calc (10 : ℚ) ^ (P - 1) = 10 ^ x0 * 10 ^ ((P : Int) - 1 - x0) := by
          rw [← zpow_add₀ (by norm_num), ← zpow_natCast]; congr 1; omega
      _ ≤ v * 10 ^ ((P : Int) - 1 - x0) := mul_le_mul_of_nonneg_right hlo (by positivity)
  have hs_hi : v * 10 ^ ((P : Int) - 1 - x0) < 10 ^ P := by
    calc v * 10 ^ ((P : Int) - 1 - x0) < 10 ^ (x0 + 1) * 10 ^ ((P : Int) - 1 - x0) :=
          mul_lt_mul_of_pos_right hhi (by positivity)
      _ = 10 ^ P := by rw [← zpow_add₀ (by norm_num), ← zpow_natCast]; congr 1; omega
  rw [abs_le] at hclose
  have hK0lo : 10 ^ (P - 1) ≤ K0 := by
    have : ((10 ^ (P - 1) : Nat) : ℚ) < (K0 : ℚ) + 1 := by push_cast; linarith
    have : 10 ^ (P - 1) < K0 + 1 := by exact_mod_cast this
    omega
  have hK0hi : K0 ≤ 10 ^ P := by
    have : (K0 : ℚ) < ((10 ^ P : Nat) : ℚ) + 1 := by push_cast; linarith
    have : K0 < 10 ^ P + 1 := by exact_mod_cast this
    omega
  have hsci : FmtSpec.sciDigits num den P = (if K0 = 10 ^ P then (10 ^ (P - 1), x0 + 1) else (K0, x0)) := by
    unfold FmtSpec.sciDigits
    simp only [hx0, hK0]
  unfold FmtSpec.generalBody
  simp only [hP, hnd, if_false]
  by_cases hc : K0 = 10 ^ P
  · have hsci' : FmtSpec.sciDigits num den P = (10 ^ (P - 1), x0 + 1) := by rw [hsci, if_pos hc]
    refine ⟨10 ^ (P - 1), x0 + 1, Nat.le_refl _, Nat.pow_lt_pow_right (by decide) (by omega), ?_, ?_⟩
    · rw [hc]; push_cast
      rw [← zpow_natCast (10 : ℚ) (P - 1), ← zpow_natCast (10 : ℚ) P, ← zpow_add₀ (by norm_num),
        ← zpow_add₀ (by norm_num)]
      congr 1; omega
    · simp only [hsci']
      by_cases hrange : (-4 : Int) ≤ x0 + 1 ∧ x0 + 1 < (P : Int)
      · rw [if_pos hrange, if_pos hrange, fixedBody_eq_text]
        obtain ⟨q, hq⟩ : ∃ q : Nat, (P : Int) - 1 - (x0 + 1) = (q : Int) := ⟨((P : Int) - 1 - (x0 + 1)).toNat, by omega⟩
        rw [hq, Int.toNat_natCast]
        have hs : (P : Int) - 1 - x0 = ((q + 1 : Nat) : Int) := by omega
        have hdown : FmtSpec.roundHalfEven (num * 10 ^ q) den = 10 ^ (P - 1) := by
          apply roundHalfEven_carry_down hden (Nat.pow_pos (by decide))
          · have h1 : v * 10 ^ (q : Int) < 10 ^ (P - 1) := by
              calc v * 10 ^ (q : Int) < 10 ^ (x0 + 1) * 10 ^ (q : Int) := mul_lt_mul_of_pos_right hhi (by positivity)
                _ = 10 ^ (P - 1) := by rw [← zpow_add₀ (by norm_num), ← zpow_natCast]; congr 1; omega
            rw [zpow_natCast, ← hv, div_mul_eq_mul_div, div_lt_iff₀ hdq] at h1
            exact_mod_cast h1
          · have : FmtSpec.scaleRound num den ((q + 1 : Nat) : Int) = FmtSpec.roundHalfEven (num * 10 ^ (q + 1)) den :=
              scaleRound_nat _ _ _
            rw [Nat.mul_assoc, ← Nat.pow_succ, ← this, ← hs, hK0, hc, Nat.mul_comm, ← Nat.pow_succ]
            congr 1; omega
        rw [hdown]
      · rw [if_neg hrange, if_neg hrange, sciBody_eq]
        simp only [hnd, if_false, hsci']
        rw [show FmtSpec.digitsOf (10 ^ (P - 1)) = D (10 ^ (P - 1)) from rfl,
          sci_eq_fixedText _ P hPpos (Nat.pow_lt_pow_right (by decide) (by omega))]
  · have hK0lt : K0 < 10 ^ P := by omega
    have hsci' : FmtSpec.sciDigits num den P = (K0, x0) := by rw [hsci, if_neg hc]
    refine ⟨K0, x0, hK0lo, hK0lt, ?_, ?_⟩
    · congr 1
      congr 1
      have : (((P - 1 : Nat)) : Int) = (P : Int) - 1 := by omega
      rw [this]; ring
    · simp only [hsci']
      by_cases hrange : (-4 : Int) ≤ x0 ∧ x0 < (P : Int)
      · rw [if_pos hrange, if_pos hrange, fixedBody_eq_text]
        obtain ⟨q, hq⟩ : ∃ q : Nat, (P : Int) - 1 - x0 = (q : Int) := ⟨((P : Int) - 1 - x0).toNat, by omega⟩
        have hKq : FmtSpec.roundHalfEven (num * 10 ^ q) den = K0 := by
          rw [← hK0, hq, scaleRound_nat]
        rw [hq, Int.toNat_natCast, hKq]
      · rw [if_neg hrange, if_neg hrange, sciBody_eq]
        simp only [hnd, if_false, hsci']
        rw [show FmtSpec.digitsOf K0 = D K0 from rfl, sci_eq_fixedText _ P hPpos hK0lt]


/-! ### the shapes of the stripped `%f` text -/

theorem strip_fixedText_cases (r q : Nat) :
    (r % 10 ^ q = 0 ∧ FmtSpec.stripFraction (fixedText r q) = D (r / 10 ^ q)) ∨
    (∃ k c', c' % 10 ≠ 0 ∧ 0 < c' ∧ c' < 10 ^ (k + 1) ∧ k + 1 ≤ q ∧ r % 10 ^ q = c' * 10 ^ (q - (k + 1)) ∧
      FmtSpec.stripFraction (fixedText r q) = D (r / 10 ^ q) ++ 46 :: Dk (k + 1) c') := by
  by_cases hc : r % 10 ^ q = 0
  · left
    refine ⟨hc, ?_⟩
    unfold fixedText
    rw [hc, Dk_zero, stripFraction_int]
  · right
    have hq0 : q ≠ 0 := by
      intro h; subst h; simp [Nat.mod_one] at hc
    have hcpos : 0 < r % 10 ^ q := by omega
    have hclt : r % 10 ^ q < 10 ^ q := Nat.mod_lt _ (Nat.pow_pos (by decide))
    obtain ⟨c', t, hct, hc10⟩ := trailing_zeros _ hcpos
    have hc'pos : 0 < c' := by
      by_contra h0
      have : c' = 0 := by omega
      subst this; simp at hc10
    have htq : t < q := by
      by_contra hge
      have h1 : 10 ^ q ≤ 10 ^ t := Nat.pow_le_pow_right (by decide) (by omega)
      have h2 : 10 ^ t ≤ c' * 10 ^ t := Nat.le_mul_of_pos_left _ hc'pos
      omega
    obtain ⟨k, hk⟩ : ∃ k, q - t = k + 1 := ⟨q - t - 1, by omega⟩
    have hDk : Dk q (r % 10 ^ q) = Dk (k + 1) c' ++ List.replicate t 48 := by
      have := Dk_mul_pow (k + 1) t c'
      rw [show k + 1 + t = q by omega, ← hct] at this
      exact this
    have hc'lt : c' < 10 ^ (k + 1) := by
      by_contra hge
      have h1 : 10 ^ (k + 1) * 10 ^ t ≤ c' * 10 ^ t := Nat.mul_le_mul_right _ (by omega)
      rw [← Nat.pow_add, show k + 1 + t = q by omega] at h1
      omega
    refine ⟨k, c', hc10, hc'pos, hc'lt, by omega, by rw [hct]; congr 2; omega, ?_⟩
    unfold fixedText
    rw [if_neg hq0, hDk, stripFraction_exact _ _ _ _ hc10]

/-- the numeral of a positive number starts with a non-zero digit -/
theorem D_pos_head (n : Nat) (hn : 0 < n) :
    ∃ d1 xs, D n = d1 :: xs ∧ StrToNum.isNonZeroDigit d1 = true ∧ StrToNum.AllDigits xs := by
  have hLpos : 0 < (D n).length := List.length_pos_iff.mpr (D_ne_nil n)
  have hall : ∀ c ∈ D n, StrToNum.isDigit c = true := by
    intro c hc
    have := D_mem_range n c hc
    simp [StrToNum.isDigit]; omega
  by_cases h1 : (D n).length = 1
  · have hlt : n < 10 ^ 1 := (D_length_le_iff (b := n) (k := 1) (by decide)).mp (by omega)
    rw [Nat.pow_one] at hlt
    refine ⟨48 + n, [], D_lt10 hlt, by simp [StrToNum.isNonZeroDigit]; omega, by intro x hx; cases hx⟩
  · have hge : 10 ^ ((D n).length - 1) ≤ n := pow_le_of_len (k := (D n).length - 1) (by omega) (by omega)
    have hlt : n < 10 ^ (D n).length := (D_length_le_iff hLpos).mp (Nat.le_refl _)
    have hy : n / 10 ^ ((D n).length - 1) < 10 := by
      rw [Nat.div_lt_iff_lt_mul (Nat.pow_pos (by decide)), Nat.mul_comm, ← Nat.pow_succ,
        show ((D n).length - 1).succ = (D n).length by omega]
      exact hlt
    have hy0 : 0 < n / 10 ^ ((D n).length - 1) := Nat.div_pos hge (Nat.pow_pos (by decide))
    have hs := D_split hge
    rw [D_lt10 hy] at hs
    refine ⟨48 + n / 10 ^ ((D n).length - 1), Dk ((D n).length - 1) (n % 10 ^ ((D n).length - 1)), hs,
      by simp [StrToNum.isNonZeroDigit]; omega, ?_⟩
    intro x hx
    apply hall
    rw [hs]; simp [hx]

theorem allDigits_Dk (k x : Nat) : StrToNum.AllDigits (Dk k x) := by
  intro c hc
  have := isDigit_Dk k x c hc
  simpa [FmtSpec.isDigit, StrToNum.isDigit] using this

theorem allDigits_D (n : Nat) : StrToNum.AllDigits (D n) := by
  intro c hc
  have := D_mem_range n c hc
  simp [StrToNum.isDigit]; omega


/-! ### `%.17g` texts have the parser's shapes -/

/-- `Text17` with the scientific case stated without the mantissa premise -/
inductive Shape17 : List Nat → Prop
  | plain (t : List Nat) : Text17 t → Shape17 t
  | sci (neg : Bool) (d1 : Nat) (ys : List Nat) (eneg : Bool) (ks : List Nat) :
      StrToNum.isNonZeroDigit d1 = true → StrToNum.AllDigits ys →
      ys ≠ [48] → 1 + ys.length ≤ 17 → StrToNum.AllDigits ks → ks ≠ [] → ks.length ≤ 8 →
      (if (StrToNum.netExp false (StrToNum.decVal ks) eneg ys.length).2 then
          (StrToNum.netExp false (StrToNum.decVal ks) eneg ys.length).1 ≤ 1 + ys.length + 324
        else (StrToNum.netExp false (StrToNum.decVal ks) eneg ys.length).1 + (1 + ys.length) ≤ 309) →
      (eneg = false → ys.length ≤ StrToNum.decVal ks) → (eneg = true → StrToNum.decVal ks ≠ 0) →
      Shape17 (FmtSpec.signed neg ([d1] ++ (if ys = [] then [] else 46 :: ys) ++ 101 :: (if eneg then 45 else 43) :: ks))

theorem Dk_ne_48 {k c' : Nat} (hc : c' % 10 ≠ 0) : Dk (k + 1) c' ≠ [48] := by
  intro h
  have hl := congrArg List.length h
  simp [Dk_length] at hl
  subst hl
  simp [Dk] at h
  omega

theorem Dk_succ_ne_nil (k c' : Nat) : Dk (k + 1) c' ≠ [] := by
  intro h; have := congrArg List.length h; simp [Dk_length] at this

theorem len17 {K : Nat} (h1 : 10 ^ 16 ≤ K) (h2 : K < 10 ^ 17) : (D K).length = 17 := by
  have a := D_length_gt h1
  have b := (D_length_le_iff (b := K) (k := 17) (by decide)).mpr h2
  omega

/-- the plain (non-exponent) `%.17g` texts -/
theorem shape_plain (neg : Bool) (K q : Nat) (h1 : 10 ^ 16 ≤ K) (h2 : K < 10 ^ 17) (hq : q ≤ 20) :
    Text17 (FmtSpec.signed neg (FmtSpec.stripFraction (fixedText K q))) := by
  have hKpos : 0 < K := lt_of_lt_of_le (Nat.pow_pos (by decide)) h1
  by_cases hq16 : q ≤ 16
  · -- an integer part is present
    have ha1 : 1 ≤ K / 10 ^ q := by
      rw [Nat.le_div_iff_mul_le (Nat.pow_pos (by decide)), Nat.one_mul]
      exact le_trans (Nat.pow_le_pow_right (by decide) hq16) h1
    have halt : K / 10 ^ q < 10 ^ (17 - q) := by
      rw [Nat.div_lt_iff_lt_mul (Nat.pow_pos (by decide)), ← Nat.pow_add, show 17 - q + q = 17 by omega]; exact h2
    have hlen : (D (K / 10 ^ q)).length ≤ 17 - q := (D_length_le_iff (by omega)).mpr halt
    obtain ⟨d1, xs, hD, hd1, hxs⟩ := D_pos_head (K / 10 ^ q) ha1
    rcases strip_fixedText_cases K q with ⟨_, hs⟩ | ⟨k, c', hc10, hc0, hclt, hkq, hmod, hs⟩
    · rw [hs]
      refine Text17.int neg _ (allDigits_D _) (D_ne_nil _) (Or.inr ?_) (by omega)
      rw [hD]; simp [StrToNum.isNonZeroDigit] at hd1 ⊢; omega
    · rw [hs, hD]
      have := Text17.fixed neg d1 xs (Dk (k + 1) c') hd1 hxs (allDigits_Dk _ _) (Dk_succ_ne_nil _ _) (Dk_ne_48 hc10)
        (by
          have : xs.length + 1 = (D (K / 10 ^ q)).length := by rw [hD]; simp
          rw [Dk_length]; omega)
      simpa using this
  · -- a pure fraction
    have hq17 : 17 ≤ q := by omega
    have hKlt : K < 10 ^ q := lt_of_lt_of_le h2 (Nat.pow_le_pow_right (by decide) hq17)
    have ha0 : K / 10 ^ q = 0 := Nat.div_eq_of_lt hKlt
    have hKmod : K % 10 ^ q = K := Nat.mod_eq_of_lt hKlt
    rcases strip_fixedText_cases K q with ⟨h0, _⟩ | ⟨k, c', hc10, hc0, hclt, hkq, hmod, hs⟩
    · omega
    · rw [hs, ha0, show D 0 = [48] by decide]
      rw [hKmod] at hmod
      have hpad := Dk_eq_pad (k + 1) c' hclt (by omega)
      obtain ⟨d1, ys, hD, hd1, hys⟩ := D_pos_head c' hc0
      have hlenK : (D K).length = (D c').length + (q - (k + 1)) := by rw [hmod, D_mul_pow c' _ hc0]; simp
      have h17 := len17 h1 h2
      rw [hpad, hD]
      have hDl : (D c').length = 1 + ys.length := by rw [hD]; simp; omega
      have := Text17.small neg (List.replicate (k + 1 - (D c').length) 48) d1 ys
        (by intro z hz; exact (List.mem_replicate.mp hz).2) (by simp; omega) hd1 hys (by omega)
      rw [hD] at this
      simpa using this

theorem decVal_expDigits (n : Nat) : StrToNum.decVal (FmtSpec.padLeft 2 (D n)) = n := by
  have : FmtSpec.digitsValue (FmtSpec.padLeft 2 (D n)) = n := by
    unfold FmtSpec.padLeft
    rw [digitsValue_app, show FmtSpec.cZero = 48 from rfl, digitsValue_zeros, digitsValue_D]; simp
  exact this

/-- the exponent-style `%.17g` texts (without the mantissa premise) -/
theorem shape_sci (neg : Bool) (K : Nat) (x : Int) (h1 : 10 ^ 16 ≤ K) (h2 : K < 10 ^ 17)
    (hx : (17 ≤ x ∧ x ≤ 308) ∨ (-324 ≤ x ∧ x ≤ -5)) :
    Shape17 (FmtSpec.signed neg (FmtSpec.stripFraction (fixedText K 16) ++ FmtSpec.expText x)) := by
  have ha1 : 1 ≤ K / 10 ^ 16 := by rw [Nat.le_div_iff_mul_le (by norm_num)]; omega
  have ha9 : K / 10 ^ 16 < 10 := by rw [Nat.div_lt_iff_lt_mul (by norm_num)]; omega
  have hD : D (K / 10 ^ 16) = [48 + K / 10 ^ 16] := D_lt10 ha9
  have hd1 : StrToNum.isNonZeroDigit (48 + K / 10 ^ 16) = true := by simp [StrToNum.isNonZeroDigit]; omega
  have hexp : FmtSpec.expText x = 101 :: (if decide (x < 0) then 45 else 43) :: FmtSpec.padLeft 2 (D x.natAbs) := by
    unfold FmtSpec.expText
    by_cases hx0 : x < 0 <;> simp [hx0, FmtSpec.cE, FmtSpec.cMinus, FmtSpec.cPlus, D]
  have hks : StrToNum.AllDigits (FmtSpec.padLeft 2 (D x.natAbs)) := by
    intro c hc
    unfold FmtSpec.padLeft at hc
    rw [List.mem_append] at hc
    rcases hc with hc | hc
    · simp [FmtSpec.cZero] at hc; rw [hc.2]; decide
    · exact allDigits_D _ c hc
  have hks0 : FmtSpec.padLeft 2 (D x.natAbs) ≠ [] := by unfold FmtSpec.padLeft; simp [D_ne_nil]
  have hkl : (FmtSpec.padLeft 2 (D x.natAbs)).length ≤ 8 := by
    have : (D x.natAbs).length ≤ 3 := D_length_le _ 3 (by decide) (by omega)
    unfold FmtSpec.padLeft; simp; omega
  have hrange : ∀ f : Nat, f ≤ 16 →
      (if (StrToNum.netExp false (StrToNum.decVal (FmtSpec.padLeft 2 (D x.natAbs))) (decide (x < 0)) f).2 then
          (StrToNum.netExp false (StrToNum.decVal (FmtSpec.padLeft 2 (D x.natAbs))) (decide (x < 0)) f).1 ≤ 1 + f + 324
        else (StrToNum.netExp false (StrToNum.decVal (FmtSpec.padLeft 2 (D x.natAbs))) (decide (x < 0)) f).1 + (1 + f) ≤ 309) := by
    intro f hf
    rw [decVal_expDigits]
    unfold StrToNum.netExp
    rcases hx with ⟨ha, hb⟩ | ⟨ha, hb⟩
    · have hn : ¬ (x < 0) := by omega
      have hk : x.natAbs ≥ f := by omega
      simp only [hn, decide_false, Bool.false_and, Bool.false_eq_true, if_false, hk, if_true]
      omega
    · have hn : x < 0 := by omega
      have hk : x.natAbs ≠ 0 := by omega
      simp only [hn, decide_true, Bool.true_and, Bool.false_or, hk, ne_eq, not_false_eq_true, if_true]
      omega
  have hpos : ∀ f : Nat, f ≤ 16 → decide (x < 0) = false → f ≤ StrToNum.decVal (FmtSpec.padLeft 2 (D x.natAbs)) := by
    intro f hf hd; rw [decVal_expDigits]; simp at hd; omega
  have hnegk : decide (x < 0) = true → StrToNum.decVal (FmtSpec.padLeft 2 (D x.natAbs)) ≠ 0 := by
    intro hd; rw [decVal_expDigits]; simp at hd; omega
  rcases strip_fixedText_cases K 16 with ⟨_, hs⟩ | ⟨k, c', hc10, hc0, hclt, hkq, hmod, hs⟩
  · rw [hs, hD, hexp]
    have := Shape17.sci neg (48 + K / 10 ^ 16) [] (decide (x < 0)) (FmtSpec.padLeft 2 (D x.natAbs)) hd1
      (by intro c hc; cases hc) (by simp) (by simp) hks hks0 hkl (hrange 0 (by omega)) (hpos 0 (by omega)) hnegk
    simpa using this
  · rw [hs, hD, hexp]
    have := Shape17.sci neg (48 + K / 10 ^ 16) (Dk (k + 1) c') (decide (x < 0)) (FmtSpec.padLeft 2 (D x.natAbs)) hd1
      (allDigits_Dk _ _) (Dk_ne_48 hc10) (by rw [Dk_length]; omega) hks hks0 hkl
      (by rw [Dk_length]; exact hrange (k + 1) hkq) (by rw [Dk_length]; exact hpos (k + 1) hkq) hnegk
    simpa [Dk_succ_ne_nil] using this


/-! ### every `%.17g` text of a finite double: shape and margin -/

theorem shape17_format (b : Nat) (hb : b < 2 ^ 64) (hfin : (b / 2 ^ 52) % 2 ^ 11 ≠ 2 ^ 11 - 1) :
    Shape17 (FmtSpec.format64 b 17 .default) := by
  by_cases hnz : (b / 2 ^ 52) % 2 ^ 11 ≠ 0 ∨ b % 2 ^ 52 ≠ 0
  · obtain ⟨num, den, e1, M, hdec, he1eq, hMeq, hnum, hden, he1, he1', hM0, hM, hnorm, hv, hbits, hdb⟩ :=
      decode_fin 52 11 b (by decide) (by decide) hfin hnz hb
    have hsmall : den ≤ num * 10 ^ 1199 := le_trans hdb (Nat.mul_le_mul_left _ range64)
    generalize hneg : decide ((b / 2 ^ (52 + 11)) % 2 = 1) = neg at *
    obtain ⟨K, x, hK1, hK2, hlink, hform⟩ := generalBody_form num den 17 hnum hden hsmall
    obtain ⟨m, d, hd, hread, hval, hslo⟩ := generalBody_value num den 17 neg hnum hden hsmall
    have hclose := scaleRound_close num den hden (((if (17 : Nat) = 0 then 1 else 17 : Nat) : Int) - 1 - FmtSpec.floorLog10 num den)
    clear hsmall hdb hread hval
    simp only [show ¬ ((17 : Nat) = 0) by decide, if_false] at hK1 hK2 hlink hform hslo hclose
    have hbias : ((2 : Int) ^ (11 - 1) - 1) = 1023 := by norm_num
    rw [hbias] at hv
    generalize hs : ((17 : Nat) : Int) - 1 - FmtSpec.floorLog10 num den = s at *
    generalize hK0 : FmtSpec.scaleRound num den s = K0 at *
    generalize hvv : (num : ℚ) / den = v at *
    -- bounds on the value
    have hvhi : v < 2 ^ (1024 : Int) := by
      rw [hv]
      have hMq : (M : ℚ) < 2 ^ (53 : Int) := by
        have : (M : ℚ) < ((2 ^ (52 + 1) : Nat) : ℚ) := by exact_mod_cast hM
        rw [zpow_ofNat]; push_cast at this; exact this
      calc (M : ℚ) * 2 ^ ((e1 : Int) - 1023 - (52 : Nat)) < 2 ^ (53 : Int) * 2 ^ ((e1 : Int) - 1023 - (52 : Nat)) :=
            mul_lt_mul_of_pos_right hMq (by positivity)
        _ = 2 ^ ((e1 : Int) - 1022) := by rw [← zpow_add₀ (by norm_num)]; congr 1; push_cast; ring
        _ ≤ 2 ^ (1024 : Int) := zpow_le_zpow_right₀ (by norm_num) (by omega)
    have hvlo : (2 : ℚ) ^ (-1074 : Int) ≤ v := by
      rw [hv]
      have hM1 : (1 : ℚ) ≤ M := by exact_mod_cast hM0
      calc (2 : ℚ) ^ (-1074 : Int) ≤ 2 ^ ((e1 : Int) - 1023 - (52 : Nat)) :=
            zpow_le_zpow_right₀ (by norm_num) (by push_cast; omega)
        _ ≤ (M : ℚ) * 2 ^ ((e1 : Int) - 1023 - (52 : Nat)) := le_mul_of_one_le_left (by positivity) hM1
    -- the text's value V = K·10^(x-16) is between v/2 and 2v
    have hS : (0 : ℚ) < 10 ^ (-s) := by positivity
    have hvS : v = v * 10 ^ s * 10 ^ (-s) := by rw [mul_assoc, ← zpow_add₀ (by norm_num)]; simp
    rw [abs_le] at hclose
    have hvpos : 0 < v := lt_of_lt_of_le (by positivity) hvlo
    have h16 : (1 : ℚ) ≤ v * 10 ^ s := le_trans (by norm_num) hslo
    have hVhi : (K0 : ℚ) * 10 ^ (-s) < 2 * v := by
      calc (K0 : ℚ) * 10 ^ (-s) ≤ (v * 10 ^ s + 1 / 2) * 10 ^ (-s) :=
            mul_le_mul_of_nonneg_right (by linarith) (le_of_lt hS)
        _ < (2 * (v * 10 ^ s)) * 10 ^ (-s) := mul_lt_mul_of_pos_right (by linarith) hS
        _ = 2 * v := by rw [mul_assoc 2, ← hvS]
    have hVlo : v / 2 ≤ (K0 : ℚ) * 10 ^ (-s) := by
      calc v / 2 = ((v * 10 ^ s) / 2) * 10 ^ (-s) := by rw [div_mul_eq_mul_div, ← hvS]
        _ ≤ (K0 : ℚ) * 10 ^ (-s) := mul_le_mul_of_nonneg_right (by linarith) (le_of_lt hS)
    rw [← hlink] at hVhi hVlo
    have hK1q : (10 : ℚ) ^ (16 : Int) ≤ K := by
      have : ((10 ^ 16 : Nat) : ℚ) ≤ K := by exact_mod_cast hK1
      rw [zpow_ofNat]; push_cast at this; exact this
    have hK2q : (K : ℚ) < 10 ^ (17 : Int) := by
      have : (K : ℚ) < ((10 ^ 17 : Nat) : ℚ) := by exact_mod_cast hK2
      rw [zpow_ofNat]; push_cast at this; exact this
    have hp10 : (0 : ℚ) < 10 ^ (x - ((17 - 1 : Nat) : Int)) := by positivity
    have hxhi : x ≤ 308 := by
      have : (10 : ℚ) ^ x < 10 ^ (309 : Int) := by
        calc (10 : ℚ) ^ x = 10 ^ (16 : Int) * 10 ^ (x - ((17 - 1 : Nat) : Int)) := by
              rw [← zpow_add₀ (by norm_num)]; congr 1; push_cast; ring
          _ ≤ (K : ℚ) * 10 ^ (x - ((17 - 1 : Nat) : Int)) := mul_le_mul_of_nonneg_right hK1q (le_of_lt hp10)
          _ < 2 * v := hVhi
          _ < 2 * 2 ^ (1024 : Int) := by linarith
          _ ≤ 10 ^ (309 : Int) := by
              have h : (2 * 2 ^ 1024 : Nat) ≤ 10 ^ 309 := by decide +kernel
              have hq : ((2 * 2 ^ 1024 : Nat) : ℚ) ≤ ((10 ^ 309 : Nat) : ℚ) := by exact_mod_cast h
              rw [zpow_ofNat, zpow_ofNat]; push_cast at hq; exact hq
      have := (zpow_lt_zpow_iff_right₀ (by norm_num : (1 : ℚ) < 10)).mp this
      omega
    have hxlo : -324 ≤ x := by
      have : (10 : ℚ) ^ (-324 : Int) < 10 ^ (x + 1) := by
        calc (10 : ℚ) ^ (-324 : Int) ≤ 2 ^ (-1074 : Int) / 2 := by
              have h : (2 * 2 ^ 1074 : Nat) ≤ 10 ^ 324 := by decide +kernel
              have hq : ((2 * 2 ^ 1074 : Nat) : ℚ) ≤ ((10 ^ 324 : Nat) : ℚ) := by exact_mod_cast h
              push_cast at hq
              rw [zpow_neg, zpow_neg, zpow_ofNat, zpow_ofNat, inv_eq_one_div, inv_eq_one_div, div_div]
              exact one_div_le_one_div_of_le (by positivity) (by rw [mul_comm]; exact hq)
          _ ≤ v / 2 := by linarith
          _ ≤ (K : ℚ) * 10 ^ (x - ((17 - 1 : Nat) : Int)) := hVlo
          _ < 10 ^ (17 : Int) * 10 ^ (x - ((17 - 1 : Nat) : Int)) := mul_lt_mul_of_pos_right hK2q hp10
          _ = 10 ^ (x + 1) := by rw [← zpow_add₀ (by norm_num)]; congr 1; push_cast; ring
      have := (zpow_lt_zpow_iff_right₀ (by norm_num : (1 : ℚ) < 10)).mp this
      omega
    show Shape17 (FmtSpec.formatVal (FmtSpec.decode 52 11 b) 17 .default)
    rw [hdec]
    show Shape17 (FmtSpec.signed neg (FmtSpec.generalBody num den 17))
    rw [hform]
    by_cases hrange : (-4 : Int) ≤ x ∧ x < ((17 : Nat) : Int)
    · rw [if_pos hrange]
      exact Shape17.plain _ (shape_plain neg K _ hK1 hK2 (by push_cast at hrange ⊢; omega))
    · rw [if_neg hrange]
      exact shape_sci neg K x hK1 hK2 (by push_cast at hrange; omega)
  · simp only [not_or, ne_eq, not_not] at hnz
    have : b = 0 ∨ b = 2 ^ 63 := by omega
    rcases this with rfl | rfl
    · have h : FmtSpec.format64 0 17 .default = FmtSpec.signed false [48] := by decide +kernel
      rw [h]
      exact Shape17.plain _ (Text17.int false [48] (by intro c hc; simp at hc; subst hc; decide) (by simp) (Or.inl rfl) (by simp))
    · have h : FmtSpec.format64 (2 ^ 63) 17 .default = FmtSpec.signed true [48] := by decide +kernel
      rw [h]
      exact Shape17.plain _ (Text17.int true [48] (by intro c hc; simp at hc; subst hc; decide) (by simp) (Or.inl rfl) (by simp))

theorem marginText_format (b : Nat) (hb : b < 2 ^ 64) (hfin : (b / 2 ^ 52) % 2 ^ 11 ≠ 2 ^ 11 - 1) :
    MarginText (FmtSpec.format64 b 17 .default) := by
  intro neg num den hrd hnum0
  by_cases hnz : (b / 2 ^ 52) % 2 ^ 11 ≠ 0 ∨ b % 2 ^ 52 ≠ 0
  · obtain ⟨m, d, hd, hread, hV, hVb⟩ := text_value_close 52 11 17 b (by decide) (by decide) range64 hb hfin hnz
    have hread' : FmtSpec.readDecimal (FmtSpec.format64 b 17 .default) = some (decide ((b / 2 ^ (52 + 11)) % 2 = 1), m, d) := hread
    rw [hrd] at hread'
    injection hread' with h1
    injection h1 with _ h2
    injection h2 with hm hdd
    subst hm; subst hdd
    simp only [show ¬ ((17 : Nat) = 0) by decide, if_false] at hV hVb
    have hu := ulpQ_pos 52 11 b
    have hδ : (2 : ℚ) ^ 52 / 10 ^ (17 - 1) ≤ 15 / 32 := by norm_num
    apply margin32_of_close b num den hb hfin hnz hd
    · exact le_trans (le_of_lt hV) (mul_le_mul_of_nonneg_right hδ (le_of_lt hu))
    · intro hsg
      refine le_trans (hVb hsg) (mul_le_mul_of_nonneg_right ?_ (le_of_lt hu))
      linarith
  · simp only [not_or, ne_eq, not_not] at hnz
    have : b = 0 ∨ b = 2 ^ 63 := by omega
    obtain ⟨z1, z2, _, _⟩ := zero_text17
    rcases this with rfl | rfl
    · rw [z1] at hrd; injection hrd with h; injection h with _ h2; injection h2 with h3 _; exact absurd h3.symm hnum0
    · rw [z2] at hrd; injection hrd with h; injection h with _ h2; injection h2 with h3 _; exact absurd h3.symm hnum0

end Qentem.Proofs.Ident
