import Qentem.Proofs.TmplFinderFacts
import Qentem.Proofs.TmplLoopVar
/-!
# C01 — `ParseWF`, stage "loops": `}` `{var:` `{raw:` `{math:` `<loop …>` `</loop>`

Part 1 (this section): `skipW` facts, `parseLoopAttributes` (lemma L2): the attribute scan of a
`<loop …>` tag makes no out-of-range read and leaves the tag's value / group / set fields inside the
tag interior `[tag.off, position of '>']`.
-/
set_option linter.unusedSectionVars false
set_option linter.unusedVariables false
namespace Qentem.Tmpl
open Qentem.Expr (Fault rd Safe ScanCfg RealLike VarRef)
open Qentem.Generated.Tmpl

theorem skipWhile_facts (c : List Nat) (endO : Nat) (p : Nat → Bool) (he : endO ≤ c.length) :
    ∀ f off, Safe (skipWhile c endO p f off)
      (fun o => off ≤ o ∧ (off ≤ endO → o ≤ endO) ∧ (endO ≤ off → o = off) ∧
        (∀ i, off ≤ i → i < o → ∀ x, c[i]? = some x → p x = true) ∧
        (o < endO → endO + 1 - off ≤ f → ∀ x, c[o]? = some x → p x = false)) := by
  intro f
  induction f with
  | zero =>
    intro off
    exact Safe.ok _ ⟨Nat.le_refl _, fun h => h, fun _ => rfl, by intro i h1 h2; omega, by intro h1 h2; omega⟩
  | succ f ih =>
    intro off
    simp only [skipWhile]
    split
    · rename_i hlt
      have hl : off < c.length := by omega
      simp only [rd_ok c off hl, bind, Except.bind]
      split
      · rename_i hp
        apply Safe.mono (ih (off + 1))
        intro o ho
        refine ⟨by omega, fun _ => ho.2.1 (by omega), fun h => by omega, ?_, ?_⟩
        · intro i h1 h2 x hx
          by_cases hi : i = off
          · subst hi; rw [List.getElem?_eq_getElem hl] at hx; cases hx; exact hp
          · exact ho.2.2.2.1 i (by omega) h2 x hx
        · intro h1 h2; exact ho.2.2.2.2 h1 (by omega)
      · rename_i hp
        refine Safe.ok _ ⟨Nat.le_refl _, fun h => h, fun _ => rfl, by intro i h1 h2; omega, ?_⟩
        intro _ _ x hx
        rw [List.getElem?_eq_getElem hl] at hx; cases hx
        simpa using hp
    · exact Safe.ok _ ⟨Nat.le_refl _, fun h => h, fun _ => rfl, by intro i h1 h2; omega, by intro h1; omega⟩

theorem skipW_facts (c : List Nat) (endO : Nat) (p : Nat → Bool) (he : endO ≤ c.length) (off : Nat) :
    Safe (skipW c endO p off)
      (fun o => off ≤ o ∧ (off ≤ endO → o ≤ endO) ∧ (endO ≤ off → o = off) ∧
        (∀ i, off ≤ i → i < o → ∀ x, c[i]? = some x → p x = true) ∧
        (o < endO → ∀ x, c[o]? = some x → p x = false)) := by
  apply Safe.mono (skipWhile_facts c endO p he (endO + 1 - off) off)
  intro o ho
  exact ⟨ho.1, ho.2.1, ho.2.2.1, ho.2.2.2.1, fun h => ho.2.2.2.2 h (Nat.le_refl _)⟩

theorem isEqualAt_safe (c : List Nat) : ∀ (s : List Nat) (off : Nat), off + s.length ≤ c.length →
    Safe (isEqualAt c off s) (fun _ => True) := by
  intro s
  induction s with
  | nil => intro off _; exact Safe.ok _ trivial
  | cons x xs ih =>
    intro off h
    simp only [isEqualAt]
    simp only [List.length_cons] at h
    simp only [rd_ok c off (by omega), bind, Except.bind]
    split
    · exact ih _ (by omega)
    · exact Safe.ok _ trivial

theorem andEqualAt_safe (cond : Bool) (c : List Nat) (off : Nat) (s : List Nat)
    (h : cond = true → off + s.length ≤ c.length) : Safe (andEqualAt cond c off s) (fun _ => True) := by
  simp only [andEqualAt]
  split
  · rename_i hc; exact isEqualAt_safe c s off (h hc)
  · exact Safe.ok _ trivial

theorem trunc_le (b x : Nat) : trunc b x ≤ x := Nat.mod_le _ _

/-- what the attribute scan keeps true of the loop record -/
structure AttOk (n lv endO : Nat) (f0 f : LoopFields) : Prop where
  off : f.off = f0.off
  level : f.level = f0.level
  endOff : f.endOff = f0.endOff
  contentOff : f.contentOff = f0.contentOff
  value : f.off + f.valueOff + f.valueLen ≤ endO
  group : f.off + f.groupOff + f.groupLen ≤ endO
  set : wfVar n lv f.set = true

theorem setVar_safe (c : List Nat) (lv : Nat) (chain : List LoopRef) (hch : ChainOk c chain)
    (hlv : ∀ l ∈ chain, l.level < lv) (old : VarRef) (hold : wfVar c.length lv old = true)
    (off len : Nat) (hb : off + len ≤ c.length)
    (hstop : ∃ j x, off ≤ j ∧ c[j]? = some x ∧ isStop x) :
    Safe (setVar c chain old off len) (fun v => wfVar c.length lv v = true) := by
  have hgen : ∀ (ch : List LoopRef), ChainOk c ch → (∀ l ∈ ch, l.level < lv) →
      Safe (checkLoopVariable c off ch) (fun r => ∀ a b, r = some (a, b) → b < lv) := by
    intro ch
    induction ch with
    | nil => intro _ _; exact Safe.ok _ (by intro a b h; cases h)
    | cons l rest ih =>
      intro h1 h2
      have hl := h1 l (List.mem_cons_self ..)
      simp only [checkLoopVariable]
      apply Safe.bind (isEqualRange_safe c l.valueLen off l.valueStart hl.1 hl.2 hstop)
      intro b _
      cases b
      · exact ih (fun x hx => h1 x (List.mem_cons_of_mem _ hx)) (fun x hx => h2 x (List.mem_cons_of_mem _ hx))
      · refine Safe.ok _ ?_
        intro a b h
        simp only [Option.some.injEq, Prod.mk.injEq] at h
        rw [← h.2]; exact h2 l (List.mem_cons_self ..)
  simp only [setVar]
  apply Safe.bind (hgen chain hch hlv)
  intro r hr
  cases r with
  | none =>
    refine Safe.ok _ ?_
    simp only [wfVar, Bool.and_eq_true, decide_eq_true_eq, Bool.or_eq_true, beq_iff_eq] at hold ⊢
    exact ⟨hb, hold.2⟩
  | some p =>
    obtain ⟨a, b⟩ := p
    refine Safe.ok _ ?_
    simp only [wfVar, Bool.and_eq_true, decide_eq_true_eq, Bool.or_eq_true, beq_iff_eq]
    exact ⟨hb, Or.inr (hr a b rfl)⟩

theorem mkVar_safe (c : List Nat) (lv : Nat) (chain : List LoopRef) (hch : ChainOk c chain)
    (hlv : ∀ l ∈ chain, l.level < lv) (off len : Nat) (hb : off + len ≤ c.length)
    (hstop : ∃ j x, off ≤ j ∧ c[j]? = some x ∧ isStop x) :
    Safe (mkVar c chain off len) (fun v => wfVar c.length lv v = true ∧ v.off = off ∧ v.len = len) := by
  have := setVar_safe c lv chain hch hlv ⟨0, 0, 0, 0⟩ (by simp [wfVar]) off len hb hstop
  simp only [setVar, mkVar] at this ⊢
  cases h : checkLoopVariable c off chain with
  | error e => rw [h] at this; exact this
  | ok r =>
    rw [h] at this
    cases r with
    | none => exact Safe.ok _ ⟨this, rfl, rfl⟩
    | some p => obtain ⟨a, b⟩ := p; exact Safe.ok _ ⟨this, rfl, rfl⟩


/-- lemma (L2): the attribute scan of `<loop …>`; `endO` = position of the tag's `>` -/
theorem parseLoopAttributes_safe (c : List Nat) (lv endO : Nat) (he : endO < c.length)
    (hgt : c[endO]? = some 62) (chain : List LoopRef) (hch : ChainOk c chain)
    (hlv : ∀ l ∈ chain, l.level < lv) (f0 : LoopFields) :
    ∀ (fuel off0 : Nat) (att0 : LoopAtt) (f : LoopFields), f0.off ≤ off0 → off0 ≤ endO →
      AttOk c.length lv endO f0 f →
      Safe (parseLoopAttributes c endO chain fuel off0 att0 f) (AttOk c.length lv endO f0) := by
  intro fuel
  induction fuel with
  | zero => intro off0 att0 f _ _ hf; exact Safe.ok _ hf
  | succ fuel ih =>
    intro off0 att0 f h0 h0e hf
    simp only [parseLoopAttributes]
    apply Safe.bind (skipW_safe c endO _ (by omega) off0)
    intro off hoff
    have hoe : off ≤ endO := hoff.2.1 h0e
    refine Safe.bind (P := fun sw => ∀ o a, sw = some (o, a) → off ≤ o) ?_ ?_
    · split
      · rename_i hlt
        simp only [rd_ok c off (by omega), bind, Except.bind]
        have hset : W1.setStr.length = W1.setLength := by decide
        have hsort : W1.sortStr.length = W1.sortLength := by decide
        have hval : W1.valueStr.length = W1.valueLength := by decide
        have hgrp : W1.groupStr.length = W1.groupLength := by decide
        split
        · apply Safe.bind (andEqualAt_safe _ c off W1.setStr (by
            intro hc; simp only [decide_eq_true_eq] at hc; rw [hset]; omega))
          intro b1 _
          split
          · exact Safe.ok _ (by intro o a h; simp only [pure, Except.pure, Option.some.injEq, Prod.mk.injEq] at h; omega)
          · apply Safe.bind (andEqualAt_safe _ c off W1.sortStr (by
              intro hc; simp only [decide_eq_true_eq] at hc; rw [hsort]; omega))
            intro b2 _
            split <;>
              exact Safe.ok _ (by intro o a h; simp only [pure, Except.pure, Option.some.injEq, Prod.mk.injEq] at h; omega)
        · split
          · apply Safe.bind (andEqualAt_safe _ c off W1.valueStr (by
              intro hc; simp only [decide_eq_true_eq] at hc; rw [hval]; omega))
            intro b1 _
            split <;>
              exact Safe.ok _ (by intro o a h; simp only [pure, Except.pure, Option.some.injEq, Prod.mk.injEq] at h; omega)
          · split
            · apply Safe.bind (andEqualAt_safe _ c off W1.groupStr (by
                intro hc; simp only [decide_eq_true_eq] at hc; rw [hgrp]; omega))
              intro b1 _
              split <;>
                exact Safe.ok _ (by intro o a h; simp only [pure, Except.pure, Option.some.injEq, Prod.mk.injEq] at h; omega)
            · exact Safe.ok _ (by intro o a h; cases h)
      · exact Safe.ok _ (by intro o a h; simp only [pure, Except.pure, Option.some.injEq, Prod.mk.injEq] at h; omega)
    · intro sw hsw
      cases sw with
      | none =>
        simp only []
        split
        · exact ih _ _ _ (by omega) (by omega) hf
        · exact Safe.ok _ hf
      | some p =>
        obtain ⟨o1, att⟩ := p
        have ho1 := hsw o1 att rfl
        simp only []
        apply Safe.bind (skipW_safe c endO _ (by omega) o1)
        intro o2 ho2
        simp only [doSkipW]
        apply Safe.bind (skipW_safe c endO _ (by omega) (o2 + 1))
        intro o3 ho3
        split
        · rename_i hlt3
          simp only [rd_ok c o3 (by omega), bind, Except.bind]
          apply Safe.bind (skipW_safe c endO _ (by omega) (o3 + 1))
          intro o4 ho4
          have h4e : o4 ≤ endO := ho4.2.1 (by omega)
          have h34 : o3 + 1 ≤ o4 := ho4.1
          have hbase : f0.off ≤ o3 + 1 := by omega
          refine Safe.bind (P := AttOk c.length lv endO f0) ?_ ?_
          · cases att with
            | none => exact Safe.ok _ hf
            | set =>
              simp only []
              apply Safe.bind (setVar_safe c lv chain hch hlv f.set hf.set (o3 + 1)
                (trunc bits_VariableTag_Length (o4 - (o3 + 1))) (by
                  have := trunc_le bits_VariableTag_Length (o4 - (o3 + 1)); omega)
                ⟨endO, 62, by omega, hgt, Or.inr rfl⟩)
              intro v hv
              exact Safe.ok _ ⟨hf.off, hf.level, hf.endOff, hf.contentOff, hf.value, hf.group, hv⟩
            | value =>
              refine Safe.ok _ ⟨hf.off, hf.level, hf.endOff, hf.contentOff, ?_, hf.group, hf.set⟩
              have h1 := trunc_le bits_LoopTag_ValueOffset (o3 + 1 - f.off)
              have h2 := trunc_le bits_LoopTag_ValueLength (o4 - (o3 + 1))
              have := hf.off
              simp only []
              omega
            | sort =>
              simp only [rd_ok c (o3 + 1) (by omega), bind, Except.bind, pure, Except.pure]
              exact Safe.ok _ ⟨hf.off, hf.level, hf.endOff, hf.contentOff, hf.value, hf.group, hf.set⟩
            | group =>
              refine Safe.ok _ ⟨hf.off, hf.level, hf.endOff, hf.contentOff, hf.value, ?_, hf.set⟩
              have h1 := trunc_le bits_LoopTag_GroupOffset (o3 + 1 - f.off)
              have h2 := trunc_le bits_LoopTag_GroupLength (o4 - (o3 + 1))
              have := hf.off
              simp only []
              omega
          · intro f' hf'
            split
            · exact ih _ _ _ (by omega) (by omega) hf'
            · exact Safe.ok _ hf'
        · exact Safe.ok _ hf

end Qentem.Tmpl
