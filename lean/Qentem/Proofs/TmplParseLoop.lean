import Qentem.Proofs.TmplFinderFacts
import Qentem.Proofs.TmplLoopVar
import Qentem.Proofs.ExprScanAll
/-!
# C01 — `ParseWF`, stage "loops": `}` `{var:` `{raw:` `{math:` `<loop …>` `</loop>`

Part 1 (this section): `skipW` facts, `parseLoopAttributes` (lemma L2): the attribute scan of a
`<loop …>` tag makes no out-of-range read and leaves the tag's value / group / set fields inside the
tag interior `[tag.off, position of '>']`.
-/
set_option linter.unusedSectionVars false
set_option linter.unusedVariables false
namespace Qentem.Tmpl
open Qentem.Expr (Fault rd Safe ScanCfg RealLike VarRef)
open Qentem.Generated.Tmpl

theorem skipWhile_facts (c : List Nat) (endO : Nat) (p : Nat → Bool) (he : endO ≤ c.length) :
    ∀ f off, Safe (skipWhile c endO p f off)
      (fun o => off ≤ o ∧ (off ≤ endO → o ≤ endO) ∧ (endO ≤ off → o = off) ∧
        (∀ i, off ≤ i → i < o → ∀ x, c[i]? = some x → p x = true) ∧
        (o < endO → endO + 1 - off ≤ f → ∀ x, c[o]? = some x → p x = false)) := by
  intro f
  induction f with
  | zero =>
    intro off
    exact Safe.ok _ ⟨Nat.le_refl _, fun h => h, fun _ => rfl, by intro i h1 h2; omega, by intro h1 h2; omega⟩
  | succ f ih =>
    intro off
    simp only [skipWhile]
    split
    · rename_i hlt
      have hl : off < c.length := by omega
      simp only [rd_ok c off hl, bind, Except.bind]
      split
      · rename_i hp
        apply Safe.mono (ih (off + 1))
        intro o ho
        refine ⟨by omega, fun _ => ho.2.1 (by omega), fun h => by omega, ?_, ?_⟩
        · intro i h1 h2 x hx
          by_cases hi : i = off
          · subst hi; rw [List.getElem?_eq_getElem hl] at hx; cases hx; exact hp
          · exact ho.2.2.2.1 i (by omega) h2 x hx
        · intro h1 h2; exact ho.2.2.2.2 h1 (by omega)
      · rename_i hp
        refine Safe.ok _ ⟨Nat.le_refl _, fun h => h, fun _ => rfl, by intro i h1 h2; omega, ?_⟩
        intro _ _ x hx
        rw [List.getElem?_eq_getElem hl] at hx; cases hx
        simpa using hp
    · exact Safe.ok _ ⟨Nat.le_refl _, fun h => h, fun _ => rfl, by intro i h1 h2; omega, by intro h1; omega⟩

theorem skipW_facts (c : List Nat) (endO : Nat) (p : Nat → Bool) (he : endO ≤ c.length) (off : Nat) :
    Safe (skipW c endO p off)
      (fun o => off ≤ o ∧ (off ≤ endO → o ≤ endO) ∧ (endO ≤ off → o = off) ∧
        (∀ i, off ≤ i → i < o → ∀ x, c[i]? = some x → p x = true) ∧
        (o < endO → ∀ x, c[o]? = some x → p x = false)) := by
  apply Safe.mono (skipWhile_facts c endO p he (endO + 1 - off) off)
  intro o ho
  exact ⟨ho.1, ho.2.1, ho.2.2.1, ho.2.2.2.1, fun h => ho.2.2.2.2 h (Nat.le_refl _)⟩

theorem isEqualAt_safe (c : List Nat) : ∀ (s : List Nat) (off : Nat), off + s.length ≤ c.length →
    Safe (isEqualAt c off s) (fun _ => True) := by
  intro s
  induction s with
  | nil => intro off _; exact Safe.ok _ trivial
  | cons x xs ih =>
    intro off h
    simp only [isEqualAt]
    simp only [List.length_cons] at h
    simp only [rd_ok c off (by omega), bind, Except.bind]
    split
    · exact ih _ (by omega)
    · exact Safe.ok _ trivial

theorem andEqualAt_safe (cond : Bool) (c : List Nat) (off : Nat) (s : List Nat)
    (h : cond = true → off + s.length ≤ c.length) : Safe (andEqualAt cond c off s) (fun _ => True) := by
  simp only [andEqualAt]
  split
  · rename_i hc; exact isEqualAt_safe c s off (h hc)
  · exact Safe.ok _ trivial

theorem trunc_le (b x : Nat) : trunc b x ≤ x := Nat.mod_le _ _

/-- what the attribute scan keeps true of the loop record -/
structure AttOk (n lv endO : Nat) (f0 f : LoopFields) : Prop where
  off : f.off = f0.off
  level : f.level = f0.level
  endOff : f.endOff = f0.endOff
  contentOff : f.contentOff = f0.contentOff
  value : f.off + f.valueOff + f.valueLen ≤ endO
  group : f.off + f.groupOff + f.groupLen ≤ endO
  set : wfVar n lv f.set = true

theorem setVar_safe (c : List Nat) (lv : Nat) (chain : List LoopRef) (hch : ChainOk c chain)
    (hlv : ∀ l ∈ chain, l.level < lv) (old : VarRef) (hold : wfVar c.length lv old = true)
    (off len : Nat) (hb : off + len ≤ c.length)
    (hstop : ∃ j x, off ≤ j ∧ c[j]? = some x ∧ isStop x) :
    Safe (setVar c chain old off len) (fun v => wfVar c.length lv v = true) := by
  have hgen : ∀ (ch : List LoopRef), ChainOk c ch → (∀ l ∈ ch, l.level < lv) →
      Safe (checkLoopVariable c off ch) (fun r => ∀ a b, r = some (a, b) → b < lv) := by
    intro ch
    induction ch with
    | nil => intro _ _; exact Safe.ok _ (by intro a b h; cases h)
    | cons l rest ih =>
      intro h1 h2
      have hl := h1 l (List.mem_cons_self ..)
      simp only [checkLoopVariable]
      apply Safe.bind (isEqualRange_safe c l.valueLen off l.valueStart hl.1 hl.2 hstop)
      intro b _
      cases b
      · exact ih (fun x hx => h1 x (List.mem_cons_of_mem _ hx)) (fun x hx => h2 x (List.mem_cons_of_mem _ hx))
      · refine Safe.ok _ ?_
        intro a b h
        simp only [Option.some.injEq, Prod.mk.injEq] at h
        rw [← h.2]; exact h2 l (List.mem_cons_self ..)
  simp only [setVar]
  apply Safe.bind (hgen chain hch hlv)
  intro r hr
  cases r with
  | none =>
    refine Safe.ok _ ?_
    simp only [wfVar, Bool.and_eq_true, decide_eq_true_eq, Bool.or_eq_true, beq_iff_eq] at hold ⊢
    exact ⟨hb, hold.2⟩
  | some p =>
    obtain ⟨a, b⟩ := p
    refine Safe.ok _ ?_
    simp only [wfVar, Bool.and_eq_true, decide_eq_true_eq, Bool.or_eq_true, beq_iff_eq]
    exact ⟨hb, Or.inr (hr a b rfl)⟩

theorem mkVar_safe (c : List Nat) (lv : Nat) (chain : List LoopRef) (hch : ChainOk c chain)
    (hlv : ∀ l ∈ chain, l.level < lv) (off len : Nat) (hb : off + len ≤ c.length)
    (hstop : ∃ j x, off ≤ j ∧ c[j]? = some x ∧ isStop x) :
    Safe (mkVar c chain off len) (fun v => wfVar c.length lv v = true ∧ v.off = off ∧ v.len = len) := by
  have := setVar_safe c lv chain hch hlv ⟨0, 0, 0, 0⟩ (by simp [wfVar]) off len hb hstop
  simp only [setVar, mkVar] at this ⊢
  cases h : checkLoopVariable c off chain with
  | error e => rw [h] at this; exact this
  | ok r =>
    rw [h] at this
    cases r with
    | none => exact Safe.ok _ ⟨this, rfl, rfl⟩
    | some p => obtain ⟨a, b⟩ := p; exact Safe.ok _ ⟨this, rfl, rfl⟩


/-- lemma (L2): the attribute scan of `<loop …>`; `endO` = position of the tag's `>` -/
theorem parseLoopAttributes_safe (c : List Nat) (lv endO : Nat) (he : endO < c.length)
    (hgt : c[endO]? = some 62) (chain : List LoopRef) (hch : ChainOk c chain)
    (hlv : ∀ l ∈ chain, l.level < lv) (f0 : LoopFields) :
    ∀ (fuel off0 : Nat) (att0 : LoopAtt) (f : LoopFields), f0.off ≤ off0 → off0 ≤ endO →
      AttOk c.length lv endO f0 f →
      Safe (parseLoopAttributes c endO chain fuel off0 att0 f) (AttOk c.length lv endO f0) := by
  intro fuel
  induction fuel with
  | zero => intro off0 att0 f _ _ hf; exact Safe.ok _ hf
  | succ fuel ih =>
    intro off0 att0 f h0 h0e hf
    simp only [parseLoopAttributes]
    apply Safe.bind (skipW_safe c endO _ (by omega) off0)
    intro off hoff
    have hoe : off ≤ endO := hoff.2.1 h0e
    refine Safe.bind (P := fun sw => ∀ o a, sw = some (o, a) → off ≤ o) ?_ ?_
    · split
      · rename_i hlt
        simp only [rd_ok c off (by omega), bind, Except.bind]
        have hset : W1.setStr.length = W1.setLength := by decide
        have hsort : W1.sortStr.length = W1.sortLength := by decide
        have hval : W1.valueStr.length = W1.valueLength := by decide
        have hgrp : W1.groupStr.length = W1.groupLength := by decide
        split
        · apply Safe.bind (andEqualAt_safe _ c off W1.setStr (by
            intro hc; simp only [decide_eq_true_eq] at hc; rw [hset]; omega))
          intro b1 _
          split
          · exact Safe.ok _ (by intro o a h; simp only [pure, Except.pure, Option.some.injEq, Prod.mk.injEq] at h; omega)
          · apply Safe.bind (andEqualAt_safe _ c off W1.sortStr (by
              intro hc; simp only [decide_eq_true_eq] at hc; rw [hsort]; omega))
            intro b2 _
            split <;>
              exact Safe.ok _ (by intro o a h; simp only [pure, Except.pure, Option.some.injEq, Prod.mk.injEq] at h; omega)
        · split
          · apply Safe.bind (andEqualAt_safe _ c off W1.valueStr (by
              intro hc; simp only [decide_eq_true_eq] at hc; rw [hval]; omega))
            intro b1 _
            split <;>
              exact Safe.ok _ (by intro o a h; simp only [pure, Except.pure, Option.some.injEq, Prod.mk.injEq] at h; omega)
          · split
            · apply Safe.bind (andEqualAt_safe _ c off W1.groupStr (by
                intro hc; simp only [decide_eq_true_eq] at hc; rw [hgrp]; omega))
              intro b1 _
              split <;>
                exact Safe.ok _ (by intro o a h; simp only [pure, Except.pure, Option.some.injEq, Prod.mk.injEq] at h; omega)
            · exact Safe.ok _ (by intro o a h; cases h)
      · exact Safe.ok _ (by intro o a h; simp only [pure, Except.pure, Option.some.injEq, Prod.mk.injEq] at h; omega)
    · intro sw hsw
      cases sw with
      | none =>
        simp only []
        split
        · exact ih _ _ _ (by omega) (by omega) hf
        · exact Safe.ok _ hf
      | some p =>
        obtain ⟨o1, att⟩ := p
        have ho1 := hsw o1 att rfl
        simp only []
        apply Safe.bind (skipW_safe c endO _ (by omega) o1)
        intro o2 ho2
        simp only [doSkipW]
        apply Safe.bind (skipW_safe c endO _ (by omega) (o2 + 1))
        intro o3 ho3
        split
        · rename_i hlt3
          simp only [rd_ok c o3 (by omega), bind, Except.bind]
          apply Safe.bind (skipW_safe c endO _ (by omega) (o3 + 1))
          intro o4 ho4
          have h4e : o4 ≤ endO := ho4.2.1 (by omega)
          have h34 : o3 + 1 ≤ o4 := ho4.1
          have hbase : f0.off ≤ o3 + 1 := by omega
          refine Safe.bind (P := AttOk c.length lv endO f0) ?_ ?_
          · cases att with
            | none => exact Safe.ok _ hf
            | set =>
              simp only []
              apply Safe.bind (setVar_safe c lv chain hch hlv f.set hf.set (o3 + 1)
                (trunc bits_VariableTag_Length (o4 - (o3 + 1))) (by
                  have := trunc_le bits_VariableTag_Length (o4 - (o3 + 1)); omega)
                ⟨endO, 62, by omega, hgt, Or.inr rfl⟩)
              intro v hv
              exact Safe.ok _ ⟨hf.off, hf.level, hf.endOff, hf.contentOff, hf.value, hf.group, hv⟩
            | value =>
              refine Safe.ok _ ⟨hf.off, hf.level, hf.endOff, hf.contentOff, ?_, hf.group, hf.set⟩
              have h1 := trunc_le bits_LoopTag_ValueOffset (o3 + 1 - f.off)
              have h2 := trunc_le bits_LoopTag_ValueLength (o4 - (o3 + 1))
              have := hf.off
              simp only []
              omega
            | sort =>
              simp only [rd_ok c (o3 + 1) (by omega), bind, Except.bind, pure, Except.pure]
              exact Safe.ok _ ⟨hf.off, hf.level, hf.endOff, hf.contentOff, hf.value, hf.group, hf.set⟩
            | group =>
              refine Safe.ok _ ⟨hf.off, hf.level, hf.endOff, hf.contentOff, hf.value, ?_, hf.set⟩
              have h1 := trunc_le bits_LoopTag_GroupOffset (o3 + 1 - f.off)
              have h2 := trunc_le bits_LoopTag_GroupLength (o4 - (o3 + 1))
              have := hf.off
              simp only []
              omega
          · intro f' hf'
            split
            · exact ih _ _ _ (by omega) (by omega) hf'
            · exact Safe.ok _ hf'
        · exact Safe.ok _ hf


/-! ## Part 2: the invariant of the main loop with open `<loop>` tags -/

variable {R : Type}

/-- the matches of this stage -/
def stageOk (m : Nat) : Prop := m ≤ 4 ∨ m = 7 ∨ m = 8

def OnlyLoops (c : List Nat) : Prop :=
  ∀ off o m, off ≤ c.length → next c off = .ok (o, m) → stageOk m

/-- an open `<loop …>` record, checked at the level `lvP` of the list that will contain it -/
structure OpenLoop (c : List Nat) (lvP : Nat) (f : LoopFields) : Prop where
  set : wfVar c.length lvP f.set = true
  group : f.off + f.groupOff + f.groupLen ≤ c.length
  value : f.off + f.valueOff + f.valueLen ≤ c.length
  clean : ∀ i, i < f.valueLen → ∀ x, c[f.off + f.valueOff + i]? = some x → ¬ isStop x
  content : f.off + f.contentOff ≤ c.length

/-- the stack of open containers (this stage: loops only), with the level / start offset / loop
chain of the list currently being filled -/
inductive StackOk (c : List Nat) : List (Frame R) → Nat → Nat → List LoopRef → Prop
  | nil : StackOk c [] 0 0 []
  | loop (pre : List (Tag R)) (f : LoopFields) (pc : List LoopRef) (rest : List (Frame R))
      (lvP loP b : Nat) :
      StackOk c rest lvP loP pc →
      wfTags c.length lvP loP b pre = true → b ≤ f.off →
      OpenLoop c lvP f →
      StackOk c (.loop pre f pc :: rest) (max lvP (f.level + 1)) (f.off + f.contentOff)
        (⟨f.off + f.valueOff, f.valueLen, f.level⟩ :: pc)

theorem StackOk.chain {c : List Nat} {stack : List (Frame R)} {lv lo : Nat} {chain : List LoopRef}
    (h : StackOk c stack lv lo chain) : ChainOk c chain ∧ ∀ l ∈ chain, l.level < lv := by
  induction h with
  | nil => exact ⟨(by intro l hl; cases hl), (by intro l hl; cases hl)⟩
  | loop pre f pc rest lvP loP b _ _ _ hopen ih =>
    refine ⟨?_, ?_⟩
    · intro l hl
      rcases List.mem_cons.mp hl with h | h
      · subst h; exact ⟨hopen.value, hopen.clean⟩
      · exact ih.1 l h
    · intro l hl
      rcases List.mem_cons.mp hl with h | h
      · subst h; simp only []; omega
      · have := ih.2 l h; omega

/-- the current match `m`, ending at `off`: it fits, and unless it is `</loop>` its units are
neither `}` nor `>` -/
def CurOk (c : List Nat) (off m : Nat) : Prop :=
  mLen m ≤ off ∧
  (2 ≤ m → m ≠ 8 → ∀ i, off ≤ i + mLen m → i < off → ∀ x, c[i]? = some x → ¬ isStop x)

theorem NextFacts.cur {c : List Nat} {off0 o m : Nat} (hs : stageOk m) (h : NextFacts c off0 o m) :
    CurOk c o m := by
  refine ⟨by have := h.start; omega, ?_⟩
  intro h2 h8 i h1 h3 x hx hstop
  rcases hstop with h125 | h62
  · exact h.word h2 i h1 h3 x hx h125
  · exact h.nogt h2 h8 (by rcases hs with h | h | h <;> omega) i h1 h3 x hx h62

structure LInv (c : List Nat) (st : PState R) : Prop where
  child : st.isChild = false
  off : st.off ≤ c.length
  mtch : stageOk st.mtch
  cur : CurOk c st.off st.mtch
  ctx : ∃ lv lo, StackOk c st.stack lv lo st.loopChain ∧
    ((∃ b, wfTags c.length lv lo b st.storage = true ∧ b + mLen st.mtch ≤ st.off) ∨
     (st.storage = [] ∧ st.mtch = 8 ∧ lo ≤ st.off))

/-- what `finder.Next()` leaves untouched and guarantees -/
def NextPostL (c : List Nat) (st st' : PState R) : Prop :=
  st'.storage = st.storage ∧ st'.stack = st.stack ∧ st'.loopChain = st.loopChain ∧
  st'.isChild = st.isChild ∧ stageOk st'.mtch ∧ NextFacts c st.off st'.off st'.mtch

theorem finderNext_L (c : List Nat) (hn : c.length + 16 < 4294967296) (h : OnlyLoops c)
    (st : PState R) (hoff : st.off ≤ c.length) : Safe (finderNext c st) (NextPostL c st) := by
  obtain ⟨o, m, h1, _⟩ := next_safe_total c st.off hoff
  have hf := next_facts c hn st.off o m hoff h1
  have : finderNext c st = .ok { st with off := o, mtch := m } := by
    simp [finderNext, h1, bind, Except.bind]
  rw [this]
  exact ⟨rfl, rfl, rfl, rfl, h st.off o m hoff h1, hf⟩

theorem wfTags_lo (n lv : Nat) : ∀ (tags : List (Tag R)) (lo lo' b : Nat),
    wfTags n lv lo b tags = true → lo' ≤ lo → wfTags n lv lo' b tags = true := by
  intro tags
  cases tags with
  | nil => intro lo lo' b h hl; simp only [wfTags, decide_eq_true_eq] at h ⊢; omega
  | cons t rest =>
    intro lo lo' b h hl
    simp only [wfTags] at h ⊢
    cases hw : wfTag n lv t with
    | none => simp [hw] at h
    | some p =>
      obtain ⟨s, e⟩ := p
      simp only [hw, Bool.and_eq_true, decide_eq_true_eq] at h ⊢
      exact ⟨by omega, h.2⟩

theorem wfTags_bounds (n lv : Nat) : ∀ (tags : List (Tag R)) (lo b : Nat),
    wfTags n lv lo b tags = true → b ≤ n := by
  intro tags
  induction tags with
  | nil => intro lo b h; simp only [wfTags, decide_eq_true_eq] at h; omega
  | cons t rest ih =>
    intro lo b h
    simp only [wfTags] at h
    cases hw : wfTag n lv t with
    | none => simp [hw] at h
    | some p =>
      obtain ⟨s, e⟩ := p
      simp only [hw, Bool.and_eq_true, decide_eq_true_eq] at h
      exact ih _ _ h.2

theorem wfTag_le (n lv : Nat) (t : Tag R) (s e : Nat) (h : wfTag n lv t = some (s, e)) : s ≤ e := by
  cases t with
  | var v =>
    simp only [wfTag] at h
    split at h
    · simp only [Option.some.injEq, Prod.mk.injEq] at h; omega
    · cases h
  | raw v =>
    simp only [wfTag] at h
    split at h
    · simp only [Option.some.injEq, Prod.mk.injEq] at h; omega
    · cases h
  | math ex off endOff =>
    simp only [wfTag] at h
    split at h
    · rename_i hc
      simp only [Bool.and_eq_true, decide_eq_true_eq] at hc
      simp only [Option.some.injEq, Prod.mk.injEq] at h; omega
    · cases h
  | svar sub v off endOff =>
    simp only [wfTag] at h
    split at h
    · rename_i hc
      simp only [Bool.and_eq_true, decide_eq_true_eq] at hc
      simp only [Option.some.injEq, Prod.mk.injEq] at h; omega
    · cases h
  | iif cs sub f =>
    simp only [wfTag, Option.ite_none_right_eq_some, Option.some.injEq, Prod.mk.injEq] at h
    omega
  | loop sub f =>
    simp only [wfTag] at h
    split at h
    · rename_i hc
      simp only [Bool.and_eq_true, decide_eq_true_eq] at hc
      simp only [Option.some.injEq, Prod.mk.injEq] at h; omega
    · cases h
  | ifT cases off endOff =>
    simp only [wfTag] at h
    split at h
    · rename_i hc
      simp only [Bool.and_eq_true, decide_eq_true_eq] at hc
      simp only [Option.some.injEq, Prod.mk.injEq] at h; omega
    · cases h

theorem wfTags_le (n lv : Nat) : ∀ (tags : List (Tag R)) (lo b : Nat),
    wfTags n lv lo b tags = true → lo ≤ b := by
  intro tags
  induction tags with
  | nil => intro lo b h; simp only [wfTags, decide_eq_true_eq] at h; omega
  | cons t rest ih =>
    intro lo b h
    simp only [wfTags] at h
    cases hw : wfTag n lv t with
    | none => simp [hw] at h
    | some p =>
      obtain ⟨s, e⟩ := p
      simp only [hw, Bool.and_eq_true, decide_eq_true_eq] at h
      have := ih _ _ h.2
      have := wfTag_le n lv t s e hw
      omega

/-- a stray `}` -/
theorem stepLineEnd_L (c : List Nat) (hn : c.length + 16 < 4294967296) (h : OnlyLoops c)
    (st : PState R) (hi : LInv c st) (hm : st.mtch = 1) : Safe (stepLineEnd c st) (LInv c) := by
  have hstep : stepLineEnd c st = finderNext c st := by
    simp only [stepLineEnd, hi.child]
    rfl
  rw [hstep]
  apply Safe.mono (finderNext_L c hn h st hi.off)
  intro st' hp
  obtain ⟨p1, p2, p3, p4, p5, p6⟩ := hp
  obtain ⟨lv, lo, hs, hw⟩ := hi.ctx
  refine ⟨p4.trans hi.child, p6.le, p5, p6.cur p5, lv, lo, by rw [p2, p3]; exact hs, ?_⟩
  rcases hw with ⟨b, hb, hbo⟩ | ⟨_, h8, _⟩
  · refine Or.inl ⟨b, by rw [p1]; exact hb, ?_⟩
    rw [hm] at hbo; simp only [mLen] at hbo
    have := p6.start; omega
  · omega


/-- `{var:…}` / `{raw:…}` at any loop depth -/
theorem stepVar_L (c : List Nat) (hn : c.length + 16 < 4294967296) (h : OnlyLoops c)
    (st : PState R) (hi : LInv c st) (raw : Bool) (hm : st.mtch = 2 ∨ st.mtch = 3) :
    Safe (stepVar c st raw) (LInv c) := by
  obtain ⟨lv, lo, hs, hw⟩ := hi.ctx
  have hml : mLen st.mtch = 5 := by rcases hm with h | h <;> rw [h] <;> rfl
  obtain ⟨b, hb, hbo⟩ : ∃ b, wfTags c.length lv lo b st.storage = true ∧ b + mLen st.mtch ≤ st.off := by
    rcases hw with hw | ⟨_, h8, _⟩
    · exact hw
    · omega
  obtain ⟨hchain, hlevels⟩ := hs.chain
  simp only [stepVar]
  apply Safe.bind (finderNext_L c hn h st hi.off)
  intro st1 hp1
  obtain ⟨p1, p2, p3, p4, p5, p6⟩ := hp1
  split
  · rename_i hle
    have hm1 : st1.mtch = 1 := hle
    have hstart : st.off + 1 ≤ st1.off := by have := p6.start; rw [hm1] at this; simpa [mLen] using this
    have hclose : c[st1.off - 1]? = some 125 := p6.close hm1
    have ho1 : st1.off ≤ c.length := p6.le
    refine Safe.bind (P := fun s2 : PState R => s2.stack = st.stack ∧ s2.loopChain = st.loopChain ∧
      s2.isChild = false ∧ s2.off = st1.off ∧
      ∃ b', wfTags c.length lv lo b' s2.storage = true ∧ b' ≤ st1.off) ?_ ?_
    · split
      · rename_i hlen
        have hsuf : W1.inLineSuffixLength = 1 := by decide
        have hbits : bits_VariableTag_Length = 16 := by decide
        have hL : trunc bits_VariableTag_Length ((st1.off - st.off - W1.inLineSuffixLength) % 256) ≤ st1.off - st.off - 1 := by
          have h1 := trunc_le bits_VariableTag_Length ((st1.off - st.off - W1.inLineSuffixLength) % 256)
          have h2 : (st1.off - st.off - W1.inLineSuffixLength) % 256 ≤ st1.off - st.off - W1.inLineSuffixLength := Nat.mod_le _ _
          rw [hsuf] at h1 h2; rw [hsuf]; omega
        generalize trunc bits_VariableTag_Length ((st1.off - st.off - W1.inLineSuffixLength) % 256) = L at hL
        apply Safe.bind (mkVar_safe c lv st1.loopChain (by rw [p3]; exact hchain) (by rw [p3]; exact hlevels)
          st.off L (by omega) ⟨st1.off - 1, 125, by omega, hclose, Or.inl rfl⟩)
        intro v hv
        obtain ⟨hv1, hv2, hv3⟩ := hv
        have hpre : W1.variablePrefixLength = 5 := by decide
        have hprr : W1.rawVariablePrefixLength = 5 := by decide
        have htag : wfTag c.length lv (if raw = true then (Tag.raw v : Tag R) else Tag.var v)
            = some (st.off - 5, st.off + L + 1) := by
          cases raw <;> simp [wfTag, hv1, hv2, hv3, hpre, hprr, hsuf] <;> omega
        refine Safe.ok _ ⟨p2, p3, p4.trans hi.child, rfl, st1.off, ?_, Nat.le_refl _⟩
        simp only [p1]
        exact wfTags_snoc _ _ _ _ _ htag _ _ _ _ hb (by omega) (by omega) ho1
      · exact Safe.ok _ ⟨p2, p3, p4.trans hi.child, rfl, b, by rw [p1]; exact hb, by omega⟩
    · intro s2 hs2
      obtain ⟨q1, q2, q3, q4, b', hb', hbo'⟩ := hs2
      apply Safe.mono (finderNext_L c hn h s2 (by rw [q4]; exact ho1))
      intro st3 hp3
      obtain ⟨r1, r2, r3, r4, r5, r6⟩ := hp3
      refine ⟨r4.trans q3, r6.le, r5, r6.cur r5, lv, lo, by rw [r2, r3, q1, q2]; exact hs, Or.inl ⟨b', by rw [r1]; exact hb', ?_⟩⟩
      have := r6.start; rw [q4] at this; omega
  · refine Safe.ok _ ⟨p4.trans hi.child, p6.le, p5, p6.cur p5, lv, lo, by rw [p2, p3]; exact hs,
      Or.inl ⟨b, by rw [p1]; exact hb, ?_⟩⟩
    have := p6.start; omega


/-- state during the scan of a `{math:` tag: `lo` = offset right after `{math:` -/
def MathQL (c : List Nat) (st0 : PState R) (lo : Nat) (st : PState R) : Prop :=
  st.storage = st0.storage ∧ st.stack = st0.stack ∧ st.loopChain = st0.loopChain ∧
  st.isChild = st0.isChild ∧ st.off ≤ c.length ∧ stageOk st.mtch ∧ lo + mLen st.mtch ≤ st.off ∧
  CurOk c st.off st.mtch

theorem mathQL_next (c : List Nat) (hn : c.length + 16 < 4294967296) (h : OnlyLoops c)
    (st0 : PState R) (lo : Nat) (st : PState R) (hq : MathQL c st0 lo st) :
    Safe (finderNext c st) (fun st' => MathQL c st0 lo st' ∧ st.off + mLen st'.mtch ≤ st'.off) := by
  obtain ⟨q1, q2, q3, q4, q5, q6, q7, q8⟩ := hq
  apply Safe.mono (finderNext_L c hn h st q5)
  intro st' hp
  obtain ⟨p1, p2, p3, p4, p5, p6⟩ := hp
  have := p6.start
  exact ⟨⟨p1.trans q1, p2.trans q2, p3.trans q3, p4.trans q4, p6.le, p5, by omega, p6.cur p5⟩, this⟩

theorem mathScan_L (c : List Nat) (hn : c.length + 16 < 4294967296) (h : OnlyLoops c)
    (st0 : PState R) (lo : Nat) : ∀ (fuel : Nat) (st : PState R) (skip : Nat),
    MathQL c st0 lo st →
    Safe (mathScan c fuel st skip) (fun r => MathQL c st0 lo r.1 ∧
      (r.2 ≠ 0 → lo + 1 ≤ r.2 ∧ r.2 + mLen r.1.mtch ≤ r.1.off)) := by
  intro fuel
  induction fuel with
  | zero => intro st skip hq; exact Safe.ok _ ⟨hq, fun h => absurd rfl h⟩
  | succ fuel ih =>
    intro st skip hq
    simp only [mathScan]
    have hfirst : Safe (if st.mtch < W1.mathID ∧ st.mtch ≠ W1.lineEndID then (do
        let st ← finderNext c st
        pure (st, skip + 1)) else (pure (st, skip) : Except Fault (PState R × Nat)))
        (fun r => MathQL c st0 lo r.1) := by
      split
      · apply Safe.bind (mathQL_next c hn h st0 lo st hq)
        intro st' hst'
        exact Safe.ok _ hst'.1
      · exact Safe.ok _ hq
    apply Safe.bind hfirst
    intro r hr
    obtain ⟨st1, skip1⟩ := r
    simp only [] at hr ⊢
    split
    · rename_i hle
      split
      · apply Safe.bind (mathQL_next c hn h st0 lo st1 hr)
        intro st2 hst2
        exact ih st2 _ hst2.1
      · apply Safe.bind (mathQL_next c hn h st0 lo st1 hr)
        intro st2 hst2
        refine Safe.ok _ ⟨hst2.1, fun _ => ?_⟩
        obtain ⟨q1, q2, q3, q4, q5, q6, q7, q8⟩ := hr
        have hm1 : st1.mtch = 1 := hle
        rw [hm1] at q7; simp only [mLen] at q7
        exact ⟨q7, hst2.2⟩
    · exact Safe.ok _ ⟨hr, fun h => absurd rfl h⟩

/-- a loop-bound reference found by `checkLoopVariable` refers to a level of the chain -/
theorem checkLoopVariable_level (c : List Nat) (off lv : Nat) : ∀ (ch : List LoopRef),
    (∀ l ∈ ch, l.level < lv) → ∀ a b, checkLoopVariable c off ch = .ok (some (a, b)) → b < lv := by
  intro ch
  induction ch with
  | nil => intro _ a b h; simp [checkLoopVariable] at h
  | cons l rest ih =>
    intro hl a b h
    simp only [checkLoopVariable] at h
    cases hq : isEqualRange c l.valueLen off l.valueStart with
    | error e => simp [hq, bind, Except.bind] at h
    | ok bb =>
      simp only [hq, bind, Except.bind] at h
      cases bb with
      | true =>
        simp only [if_true, Except.ok.injEq, Option.some.injEq, Prod.mk.injEq] at h
        rw [← h.2]; exact hl l (List.mem_cons_self ..)
      | false =>
        simp only [Bool.false_eq_true, if_false] at h
        exact ih (fun x hx => hl x (List.mem_cons_of_mem _ hx)) a b h

/-- what holds of every `{var:}` operand of an expression scanned inside the loops `chain` -/
def VarGood (c : List Nat) (lv : Nat) (chain : List LoopRef) (v : VarRef) : Prop :=
  wfVar c.length lv v = true ∧ Safe (checkLoopVariable c v.off chain) (fun _ => True)

theorem exprs_L (cfg : ScanCfg R) (c : List Nat) (lv : Nat) (chain : List LoopRef)
    (hch : ChainOk c chain) (hlv : ∀ l ∈ chain, l.level < lv) (off endO : Nat) (he : endO < c.length) :
    Safe (exprs cfg c chain off endO) (fun r => Qentem.Expr.itemsAll (VarGood c lv chain) r) := by
  simp only [exprs]
  apply Qentem.Expr.parseTop_all _ c (VarGood c lv chain) _ off endO he
  intro o e hoe hel hce
  have hmod : (e - o) % 2 ^ Qentem.Generated.Expr.variableLengthBits ≤ e - o := Nat.mod_le _ _
  refine ⟨?_, checkLoopVariable_safe c o chain hch ⟨e, 125, hoe, hce, Or.inl rfl⟩⟩
  simp only [wfVar, Bool.and_eq_true, decide_eq_true_eq, Bool.or_eq_true, beq_iff_eq]
  refine ⟨by omega, ?_⟩
  simp only [loopVarPure]
  cases hq : checkLoopVariable c o chain with
  | error e => exact Or.inl rfl
  | ok r =>
    cases r with
    | none => exact Or.inl rfl
    | some p =>
      obtain ⟨a, b⟩ := p
      exact Or.inr (checkLoopVariable_level c o lv chain hlv a b hq)

mutual
theorem operandAll_wf (c : List Nat) (lv : Nat) (chain : List LoopRef) : ∀ (x : Qentem.Expr.Operand R),
    Qentem.Expr.operandAll (VarGood c lv chain) x → wfOperand c.length lv x = true
  | .var v, h => by
    simp only [Qentem.Expr.operandAll] at h
    simp only [wfOperand]; exact h.1
  | .sub items, h => by
    simp only [Qentem.Expr.operandAll] at h
    simp only [wfOperand]
    exact itemsAll_wf c lv chain items h
  | .num _, _ => by simp [wfOperand]
  | .text _ _, _ => by simp [wfOperand]
theorem itemsAll_wf (c : List Nat) (lv : Nat) (chain : List LoopRef) : ∀ (items : List (Qentem.Expr.Item R)),
    Qentem.Expr.itemsAll (VarGood c lv chain) items → wfItemVars c.length lv items = true
  | [], _ => by simp [wfItemVars]
  | (x, _) :: rest, h => by
    simp only [Qentem.Expr.itemsAll] at h
    simp only [wfItemVars, Bool.and_eq_true]
    exact ⟨operandAll_wf c lv chain x h.1, itemsAll_wf c lv chain rest h.2⟩
end

/-- `{math:…}` at any loop depth -/
theorem stepMath_L (cfg : ScanCfg R) (c : List Nat) (hn : c.length + 16 < 4294967296) (h : OnlyLoops c)
    (st : PState R) (hi : LInv c st) (hm : st.mtch = 4) : Safe (stepMath cfg c st) (LInv c) := by
  obtain ⟨lv, lo, hs, hw⟩ := hi.ctx
  have hml : mLen st.mtch = 6 := by rw [hm]; rfl
  obtain ⟨b, hb, hbo⟩ : ∃ b, wfTags c.length lv lo b st.storage = true ∧ b + mLen st.mtch ≤ st.off := by
    rcases hw with hw | ⟨_, h8, _⟩
    · exact hw
    · omega
  obtain ⟨hchain, hlevels⟩ := hs.chain
  simp only [stepMath]
  apply Safe.bind (finderNext_L c hn h st hi.off)
  intro st1 hp1
  obtain ⟨p1, p2, p3, p4, p5, p6⟩ := hp1
  have hq1 : MathQL c st st.off st1 := ⟨p1, p2, p3, p4, p6.le, p5, p6.start, p6.cur p5⟩
  apply Safe.bind (mathScan_L c hn h st st.off _ st1 0 hq1)
  intro r hr
  obtain ⟨st2, e⟩ := r
  obtain ⟨⟨q1, q2, q3, q4, q5, q6, q7, q8⟩, he⟩ := hr
  simp only [] at q1 q2 q3 q4 q5 q6 q7 q8 he ⊢
  split
  · rename_i hne
    obtain ⟨e1, e2⟩ := he hne
    have hsuf : W1.inLineSuffixLength = 1 := by decide
    have hmp : W1.mathPrefixLength = 6 := by decide
    have hlen : e ≤ c.length := by omega
    apply Safe.bind (exprs_L cfg c lv st2.loopChain (by rw [q3]; exact hchain) (by rw [q3]; exact hlevels)
      st.off (e - W1.inLineSuffixLength) (by omega))
    intro ex hex
    have htag : wfTag c.length lv (Tag.math ex (st.off - W1.mathPrefixLength) e : Tag R) =
        some (st.off - W1.mathPrefixLength, e) := by
      simp only [wfTag, itemsAll_wf c lv _ ex hex, Bool.true_and, decide_eq_true_eq]
      simp [show (st.off - W1.mathPrefixLength ≤ e) from (by omega), hlen]
    have hst : wfTags c.length lv lo e (st2.storage ++ [Tag.math ex (st.off - W1.mathPrefixLength) e]) = true := by
      rw [q1]
      exact wfTags_snoc _ _ _ _ _ htag _ _ _ _ hb (by omega) (Nat.le_refl _) hlen
    exact Safe.ok _ ⟨q4.trans hi.child, q5, q6, q8, lv, lo, by rw [q2, q3]; exact hs, Or.inl ⟨e, hst, e2⟩⟩
  · exact Safe.ok _ ⟨q4.trans hi.child, q5, q6, q8, lv, lo, by rw [q2, q3]; exact hs,
      Or.inl ⟨b, by rw [q1]; exact hb, by omega⟩⟩


/-- `<loop …>`: a new open container -/
theorem stepLoop_L (c : List Nat) (hn : c.length + 16 < 4294967296) (h : OnlyLoops c)
    (st : PState R) (hi : LInv c st) (hm : st.mtch = 7) : Safe (stepLoop c st) (LInv c) := by
  obtain ⟨lv, lo, hs, hw⟩ := hi.ctx
  have hml : mLen st.mtch = 5 := by rw [hm]; rfl
  obtain ⟨b, hb, hbo⟩ : ∃ b, wfTags c.length lv lo b st.storage = true ∧ b + mLen st.mtch ≤ st.off := by
    rcases hw with hw | ⟨_, h8, _⟩
    · exact hw
    · omega
  obtain ⟨hchain, hlevels⟩ := hs.chain
  obtain ⟨hcur1, hcur2⟩ := hi.cur
  have hcurw := hcur2 (by omega) (by omega)
  have h5 : W1.loopPrefixLength = 5 := by decide
  simp only [stepLoop]
  apply Safe.bind (finderNext_L c hn h st hi.off)
  intro st1 hp1
  obtain ⟨p1, p2, p3, p4, p5, p6⟩ := hp1
  have ho1 : st1.off ≤ c.length := p6.le
  have hstart := p6.start
  apply Safe.bind (skipW_facts c st1.off (· != W1.multiLineLastChar) ho1 st.off)
  intro gt hgt
  obtain ⟨g1, g2, _, g4, g5⟩ := hgt
  have hge : gt ≤ st1.off := g2 (by omega)
  split
  · rename_i hlt
    have hgn : gt < c.length := by omega
    have hc62 : c[gt]? = some 62 := by
      have := g5 hlt c[gt] (List.getElem?_eq_getElem hgn)
      rw [List.getElem?_eq_getElem hgn]
      simp only [show W1.multiLineLastChar = 62 by decide, bne_eq_false_iff_eq] at this
      rw [this]
    -- the interior `[st.off - 5, gt)` holds neither `}` nor `>`
    have hclean : ∀ i, st.off - 5 ≤ i → i < gt → ∀ x, c[i]? = some x → ¬ isStop x := by
      intro i hi1 hi2 x hx
      by_cases hin : i < st.off
      · exact hcurw i (by rw [hml]; omega) hin x hx
      · intro hstop
        rcases hstop with h125 | h62
        · -- not a `}`: skipped by the Finder, or inside the next match
          by_cases hsk : i + mLen st1.mtch < st1.off
          · exact p6.skipped i (by omega) hsk x hx h125
          · by_cases hm2 : 2 ≤ st1.mtch
            · exact p6.word hm2 i (by omega) (by omega) x hx h125
            · have : st1.mtch = 0 ∨ st1.mtch = 1 := by omega
              rcases this with h0 | h1
              · rw [h0] at hsk; simp only [mLen] at hsk; omega
              · rw [h1] at hsk; simp only [mLen] at hsk
                have hi3 : i = st1.off - 1 := by omega
                omega
        · have := g4 i (by omega) hi2 x hx
          simp only [show W1.multiLineLastChar = 62 by decide, h62] at this
          exact absurd this (by decide)
    let tag0 : LoopFields := { off := st.off - W1.loopPrefixLength, level := trunc bits_LoopTag_Level st1.stack.length }
    have hatt0 : AttOk c.length lv gt tag0 tag0 := by
      refine ⟨rfl, rfl, rfl, rfl, ?_, ?_, by simp [tag0, wfVar]⟩ <;> simp only [tag0, h5] <;> omega
    apply Safe.bind (parseLoopAttributes_safe c lv gt hgn hc62 st1.loopChain (by rw [p3]; exact hchain)
      (by rw [p3]; exact hlevels) tag0 (gt + 2) (st.off - W1.loopPrefixLength + W1.loopPrefixLength) .none tag0
      (by simp only [tag0]; omega) (by rw [h5]; omega) hatt0)
    intro tag htag
    have hoff : tag.off = st.off - 5 := by rw [htag.off]; simp only [tag0, h5]
    have hco : trunc bits_LoopTag_ContentOffset (gt + W1.multiLineSuffixLength - (st.off - W1.loopPrefixLength)) ≤ gt + 1 - (st.off - 5) := by
      have := trunc_le bits_LoopTag_ContentOffset (gt + W1.multiLineSuffixLength - (st.off - W1.loopPrefixLength))
      have h1 : W1.multiLineSuffixLength = 1 := by decide
      rw [h1, h5] at this; rw [h1, h5]; exact this
    generalize trunc bits_LoopTag_ContentOffset (gt + W1.multiLineSuffixLength - (st.off - W1.loopPrefixLength)) = co at hco
    have hopen : OpenLoop c lv { tag with contentOff := co } := by
      refine ⟨htag.set, ?_, ?_, ?_, ?_⟩
      · have := htag.group; simp only []; omega
      · have := htag.value; simp only []; omega
      · intro i hi x hx
        have := htag.value
        simp only [] at hi hx
        exact hclean _ (by rw [hoff]; omega) (by omega) x hx
      · simp only [hoff]; omega
    have hstack := StackOk.loop (c := c) st.storage { tag with contentOff := co } st.loopChain st.stack lv lo b hs hb
      (by simp only [hoff]; omega) hopen
    refine Safe.ok _ ⟨?_, ho1, p5, p6.cur p5, max lv (tag.level + 1), tag.off + co, ?_, ?_⟩
    · simp only [push]; exact p4.trans hi.child
    · simp only [push, p1, p2, p3]; exact hstack
    · simp only [push]
      by_cases hfit : gt + 1 + mLen st1.mtch ≤ st1.off
      · refine Or.inl ⟨gt + 1, ?_, hfit⟩
        simp only [wfTags, decide_eq_true_eq, hoff]
        omega
      · refine Or.inr ⟨trivial, ?_, ?_⟩
        · -- the `>` lies inside the next match: only `</loop>` has one
          by_cases hm2 : 2 ≤ st1.mtch
          · by_cases h8 : st1.mtch = 8
            · exact h8
            · exfalso
              have h10 : st1.mtch ≠ 10 := by rcases p5 with h | h | h <;> omega
              exact p6.nogt hm2 h8 h10 gt (by omega) hlt 62 hc62 rfl
          · exfalso
            have : st1.mtch = 0 ∨ st1.mtch = 1 := by omega
            rcases this with h0 | h1
            · rw [h0] at hfit; simp only [mLen] at hfit; omega
            · rw [h1] at hfit; simp only [mLen] at hfit
              have hi3 : gt = st1.off - 1 := by omega
              have := p6.close h1
              rw [← hi3, hc62] at this
              cases this
        · simp only [hoff]; omega
  · exact Safe.ok _ ⟨p4.trans hi.child, ho1, p5, p6.cur p5, lv, lo, by rw [p2, p3]; exact hs,
      Or.inl ⟨b, by rw [p1]; exact hb, by omega⟩⟩


/-- after the container handling of `</loop>`: a list at some level with a bound `≤ off`, then
`finder.Next()` -/
theorem loopEnd_finish (c : List Nat) (hn : c.length + 16 < 4294967296) (h : OnlyLoops c)
    (s2 : PState R) (hc : s2.isChild = false) (ho : s2.off ≤ c.length)
    (hctx : ∃ lv2 lo2 b2, StackOk c s2.stack lv2 lo2 s2.loopChain ∧
      wfTags c.length lv2 lo2 b2 s2.storage = true ∧ b2 ≤ s2.off) :
    Safe (finderNext c s2) (LInv c) := by
  obtain ⟨lv2, lo2, b2, hs2, hb2, hbo2⟩ := hctx
  apply Safe.mono (finderNext_L c hn h s2 ho)
  intro st3 hp3
  obtain ⟨r1, r2, r3, r4, r5, r6⟩ := hp3
  refine ⟨r4.trans hc, r6.le, r5, r6.cur r5, lv2, lo2, by rw [r2, r3]; exact hs2,
    Or.inl ⟨b2, by rw [r1]; exact hb2, ?_⟩⟩
  have := r6.start; omega

/-- `</loop>`: the innermost open loop is closed (or dropped when its end lies before its content) -/
theorem stepLoopEnd_L (c : List Nat) (hn : c.length + 16 < 4294967296) (h : OnlyLoops c)
    (st : PState R) (hi : LInv c st) (hm : st.mtch = 8) : Safe (stepLoopEnd c st) (LInv c) := by
  obtain ⟨storage, stack, chain, child, off, mtch⟩ := st
  obtain ⟨lv, lo, hs, hw⟩ := hi.ctx
  have hchild := hi.child
  have hoff := hi.off
  have hcur := hi.cur.1
  simp only [] at hs hw hm hchild hoff hcur
  subst hm
  have h7 : off ≥ 7 := by simp only [mLen] at hcur; omega
  have hsuf : W1.loopSuffixLength = 7 := by decide
  simp only [stepLoopEnd]
  cases hs with
  | nil =>
    simp only [pure, Except.pure, bind, Except.bind]
    apply loopEnd_finish c hn h _ hchild hoff
    rcases hw with ⟨b, hb, hbo⟩ | ⟨he, _, _⟩
    · exact ⟨0, 0, b, .nil, hb, by simp only []; omega⟩
    · exact ⟨0, 0, 0, .nil, by simp only [] at he ⊢; rw [he]; simp [wfTags], by omega⟩
  | loop pre f pc rest lvP loP bP hsr hbP hbf hopen =>
    simp only [pure, Except.pure, bind, Except.bind]
    apply loopEnd_finish c hn h _ hchild hoff
    simp only []
    by_cases hdrop : off - W1.loopSuffixLength < f.off + f.contentOff
    · simp only [hdrop, if_true]
      refine ⟨lvP, loP, bP, hsr, hbP, ?_⟩
      rcases hw with ⟨b, hb, hbo⟩ | ⟨_, _, hlo⟩
      · have := wfTags_bounds _ _ _ _ _ hb
        have hlob : f.off + f.contentOff ≤ b := wfTags_le _ _ _ _ _ hb
        simp only [mLen] at hbo
        omega
      · omega
    · simp only [hdrop, if_false]
      have hend : f.off + f.contentOff ≤ off - 7 := by rw [hsuf] at hdrop; omega
      have hsub : wfTags c.length (max lvP (f.level + 1)) (f.off + f.contentOff) (off - 7) storage = true := by
        rcases hw with ⟨b, hb, hbo⟩ | ⟨he, _, _⟩
        · simp only [mLen] at hbo
          exact wfTags_mono _ _ _ _ _ _ hb (by omega) (by omega)
        · rw [he]; simp only [wfTags, decide_eq_true_eq]; omega
      have htag : wfTag c.length lvP (Tag.loop storage { f with endOff := off - W1.loopSuffixLength } : Tag R) =
          some (f.off, off) := by
        simp only [wfTag, hopen.set, Bool.or_true, Bool.true_and, hsuf, hsub, Bool.and_true]
        have hg := hopen.group
        simp only [show (f.off + f.groupOff + f.groupLen ≤ c.length) from hg, decide_true, Bool.true_and]
        rw [if_pos (by simp only [decide_eq_true_eq]; omega)]
        congr 2; omega
      exact ⟨lvP, loP, off, hsr, wfTags_snoc _ _ _ _ _ htag _ _ _ _ hbP hbf (Nat.le_refl _) hoff, Nat.le_refl _⟩

/-- one iteration of the main loop -/
theorem step_L (cfg : ScanCfg R) (c : List Nat) (hn : c.length + 16 < 4294967296) (h : OnlyLoops c)
    (st : PState R) (hi : LInv c st) (hm : st.mtch ≠ 0) : Safe (step cfg c st) (LInv c) := by
  have hcases : st.mtch = 1 ∨ st.mtch = 2 ∨ st.mtch = 3 ∨ st.mtch = 4 ∨ st.mtch = 7 ∨ st.mtch = 8 := by
    rcases hi.mtch with h | h | h <;> omega
  rcases hcases with h1 | h2 | h3 | h4 | h7 | h8
  · have hstep : step cfg c st = stepLineEnd c st := by simp only [step, h1]; rfl
    rw [hstep]; exact stepLineEnd_L c hn h st hi h1
  · have hstep : step cfg c st = stepVar c st false := by simp only [step, h2]; rfl
    rw [hstep]; exact stepVar_L c hn h st hi false (Or.inl h2)
  · have hstep : step cfg c st = stepVar c st true := by simp only [step, h3]; rfl
    rw [hstep]; exact stepVar_L c hn h st hi true (Or.inr h3)
  · have hstep : step cfg c st = stepMath cfg c st := by simp only [step, h4]; rfl
    rw [hstep]; exact stepMath_L cfg c hn h st hi h4
  · have hstep : step cfg c st = stepLoop c st := by simp only [step, h7]; rfl
    rw [hstep]; exact stepLoop_L c hn h st hi h7
  · have hstep : step cfg c st = stepLoopEnd c st := by simp only [step, h8]; rfl
    rw [hstep]; exact stepLoopEnd_L c hn h st hi h8

theorem parseMain_L (cfg : ScanCfg R) (c : List Nat) (hn : c.length + 16 < 4294967296)
    (h : OnlyLoops c) : ∀ (fuel : Nat) (st : PState R), LInv c st →
      Safe (parseMain cfg c fuel st) (LInv c) := by
  intro fuel
  induction fuel with
  | zero => intro st _; simp only [parseMain]; exact Safe.fuel
  | succ fuel ih =>
    intro st hi
    simp only [parseMain]
    split
    · rename_i hm
      apply Safe.bind (step_L cfg c hn h st hi hm)
      intro st' hst'
      exact ih st' hst'
    · exact Safe.ok _ hi

/-- whatever is still open at the end is dropped: the outermost list remains -/
theorem cleanup_L (c : List Nat) : ∀ (stack : List (Frame R)) (lv lo : Nat) (chain : List LoopRef)
    (storage : List (Tag R)), StackOk c stack lv lo chain →
    (∃ b, wfTags c.length lv lo b storage = true) →
    wfTags c.length 0 0 c.length (cleanup stack storage) = true := by
  intro stack
  induction stack with
  | nil =>
    intro lv lo chain storage hs hb
    cases hs
    obtain ⟨b, hb⟩ := hb
    simp only [cleanup]
    exact wfTags_mono _ _ _ _ _ _ hb (wfTags_bounds _ _ _ _ _ hb) (Nat.le_refl _)
  | cons fr rest ih =>
    intro lv lo chain storage hs _
    cases hs with
    | loop pre f pc rest lvP loP bP hsr hbP hbf hopen =>
      simp only [cleanup, Frame.pre]
      exact ih lvP loP pc pre hsr ⟨bP, hbP⟩

/-- `parse_wf`, stage "loops": a content whose Finder matches are `}`, `{var:`, `{raw:`, `{math:`,
`<loop` and `</loop>` — any nesting, any attributes, closed or not — is scanned without an
out-of-range read (including the length-unchecked comparisons of `checkLoopVariable`), and the tag
tree returned is well-formed. -/
theorem parse_wf_loops (cfg : ScanCfg R) (c : List Nat) (hn : c.length + 16 < 4294967296)
    (h : OnlyLoops c) : Safe (parse cfg c) (fun tags => wf c.length tags = true) := by
  simp only [parse]
  apply Safe.bind (finderNext_L c hn h ({} : PState R) (Nat.zero_le _))
  intro st0 hp
  obtain ⟨p1, p2, p3, p4, p5, p6⟩ := hp
  have hi0 : LInv c st0 := by
    refine ⟨p4, p6.le, p5, p6.cur p5, 0, 0, by rw [p2, p3]; exact .nil, Or.inl ⟨0, ?_, ?_⟩⟩
    · rw [p1]; simp [wfTags]
    · have := p6.start; simpa using this
  apply Safe.bind (parseMain_L cfg c hn h _ st0 hi0)
  intro st' hi'
  obtain ⟨lv, lo, hs, hw⟩ := hi'.ctx
  refine Safe.ok _ ?_
  simp only [wf]
  apply cleanup_L c st'.stack lv lo st'.loopChain st'.storage hs
  rcases hw with ⟨b, hb, _⟩ | ⟨he, _, hlo⟩
  · exact ⟨b, hb⟩
  · exact ⟨lo, by rw [he]; simp only [wfTags, decide_eq_true_eq]; have := hi'.off; omega⟩

theorem render_safe_loops [RealLike R] (cx : RCtx R) (hg : cx.guardIndexRead = true)
    (cfg : ScanCfg R) (hn : cx.content.length + 16 < 4294967296) (h : OnlyLoops cx.content)
    (fuel : Nat) :
    Safe ((parse cfg cx.content).bind (fun tags => renderTop cx tags fuel)) (fun _ => True) := by
  have hp := parse_wf_loops cfg cx.content hn h
  cases hpe : parse cfg cx.content with
  | error e => rw [hpe] at hp; exact hp
  | ok tags =>
    rw [hpe] at hp
    exact render_safe_of_wf cx hg tags hp fuel

/-- decidable form of `OnlyLoops` -/
def onlyLoopsB (c : List Nat) : Bool :=
  (List.range (c.length + 1)).all (fun off =>
    match next c off with
    | .ok (_, m) => decide (m ≤ 4 ∨ m = 7 ∨ m = 8)
    | .error _ => true)

theorem onlyLoops_of_check (c : List Nat) (h : onlyLoopsB c = true) : OnlyLoops c := by
  intro off o m hoff hn
  simp only [onlyLoopsB, List.all_eq_true, List.mem_range] at h
  have := h off (by omega)
  simp only [hn, decide_eq_true_eq] at this
  exact this

end Qentem.Tmpl
