import Qentem.Model.HashTree
import Mathlib.Data.List.Basic
/-!
Path lemmas of the nested-table value model: reading back what was written, and paths that a write
cannot affect.
-/
namespace Qentem.HashTree

theorem lookupKid_cons (e : List Nat × Node) (t : Kids) (k : List Nat) :
    lookupKid (e :: t) k = if e.1 = k then some e.2 else lookupKid t k := by
  unfold lookupKid
  rw [List.find?_cons]
  by_cases h : e.1 = k
  · simp [h]
  · have : (e.1 == k) = false := by simpa using h
    simp [h, this]

theorem lookupKid_setKid_self {kids : Kids} {k : List Nat} {c : Node} (n : Node)
    (h : lookupKid kids k = some c) : lookupKid (setKid kids k n) k = some n := by
  induction kids with
  | nil => simp [lookupKid] at h
  | cons e t ih =>
    rw [lookupKid_cons] at h
    simp only [setKid, List.map_cons]
    by_cases he : e.1 = k
    · simp [he, lookupKid_cons]
    · rw [if_neg he] at h
      rw [if_neg he, lookupKid_cons, if_neg he]
      exact ih h

theorem lookupKid_setKid_ne {kids : Kids} {k k' : List Nat} (n : Node) (hne : k' ≠ k) :
    lookupKid (setKid kids k n) k' = lookupKid kids k' := by
  induction kids with
  | nil => rfl
  | cons e t ih =>
    simp only [setKid, List.map_cons]
    by_cases he : e.1 = k
    · have : ¬ k = k' := fun h => hne h.symm
      have h2 : ¬ e.1 = k' := fun h => hne (h.symm.trans he)
      rw [if_pos he, lookupKid_cons, lookupKid_cons]
      simp only [this, h2, if_false]
      exact ih
    · rw [if_neg he, lookupKid_cons, lookupKid_cons]
      by_cases h2 : e.1 = k'
      · simp [h2]
      · simp only [h2, if_false]; exact ih

/-- Reading back the node that was written. -/
theorem getAt_setAt_self : ∀ (p : List (List Nat)) (root : Node) {n : Node} (x : Node),
    getAt root p = some n → getAt (setAt root p x) p = some x
  | [], _, _, _, _ => rfl
  | k :: p, root, n, x, h => by
    simp only [getAt] at h
    cases hl : lookupKid root.kids k with
    | none => rw [hl] at h; cases h
    | some c =>
      rw [hl] at h
      simp only [setAt, hl, getAt, lookupKid_setKid_self _ hl]
      exact getAt_setAt_self p c x h

/-- A write at `p` is invisible at every path that neither contains `p` nor lies under it. -/
theorem getAt_setAt_incomparable : ∀ (p q : List (List Nat)) (root : Node) (x : Node),
    ¬ p <+: q → ¬ q <+: p → getAt (setAt root p x) q = getAt root q
  | [], q, _, _, h, _ => absurd (List.nil_prefix) h
  | _ :: _, [], _, _, _, h => absurd (List.nil_prefix) h
  | k :: p, k' :: q, root, x, h1, h2 => by
    cases hl : lookupKid root.kids k with
    | none => simp only [setAt, hl]
    | some c =>
      simp only [setAt, hl, getAt]
      by_cases hk : k' = k
      · subst hk
        rw [lookupKid_setKid_self _ hl, hl]
        refine getAt_setAt_incomparable p q c x ?_ ?_
        · intro hp; exact h1 (by simpa using hp)
        · intro hq; exact h2 (by simpa using hq)
      · rw [lookupKid_setKid_ne _ hk]

theorem setKidsAt_eq {root : Node} {p : List (List Nat)} {n : Node} (ks : Kids) (h : getAt root p = some n) :
    setKidsAt root p ks = setAt root p ⟨n.tag, ks⟩ := by
  simp [setKidsAt, h]

/-- A write below the root keeps the path to it readable. -/
theorem getAt_setAt_exists : ∀ (p : List (List Nat)) (root : Node) {n : Node} (x : Node),
    getAt root p = some n → ∃ m, getAt (setAt root p x) p = some m :=
  fun p root _ x h => ⟨x, getAt_setAt_self p root x h⟩

end Qentem.HashTree
