import Qentem.Proofs.StrToNumSmall
import Qentem.Proofs.StrToNumTail
import Qentem.Proofs.StrToNumNegTrunc
import Qentem.Proofs.StrToNumPrefix
/-! C09 helper lemmas: mantissas whose **fraction digits** do not fit the 19-unit window. The scan stops at the window
end holding the first 19 (fraction-only) or 18 (with an integer part and the dot) significant digits; the tail loop
skips the rest, which only truncates the value (`decVal_trunc`). -/
set_option linter.unusedSimpArgs false
namespace Qentem.StrToNum
open Qentem.Round

theorem decVal_append (l m : List Nat) : decVal (l ++ m) = decVal l * 10 ^ m.length + decVal m := by
  unfold decVal
  rw [List.foldl_append, foldl_dec m]
  rfl

/-- keeping the digits `l` and dropping the digits `m` truncates: `v·10^j ≤ vt < (v+1)·10^j` -/
theorem decVal_trunc (l m : List Nat) (hm : AllDigits m) :
    decVal l * 10 ^ m.length ≤ decVal (l ++ m) ∧ decVal (l ++ m) < (decVal l + 1) * 10 ^ m.length := by
  rw [decVal_append]
  have := decVal_lt_pow m hm
  constructor
  · omega
  · rw [Nat.add_mul, Nat.one_mul]; omega

/-- `0 . 0…0 d₁ ys …` with `d₁ ys` exactly 19 digits (the whole window): the scan skips the zeros and stops at the
window end holding `d₁ ys`, whatever follows (further digits are left to the tail loop). -/
theorem afterSign_small_cut (c : List Nat) (e : Nat) (neg : Bool) (off : Nat) (zs : List Nat) (d1 : Nat) (ys : List Nat)
    (he : e < 2 ^ 32) (hz : ∀ z ∈ zs, z = 48) (h1 : isNonZeroDigit d1 = true) (hys : AllDigits ys) (hlen : ys.length = 18)
    (hu : unitsAt c e off ([48, 46] ++ zs ++ d1 :: ys))
    :
    afterSign c e neg off =
      finishReal c e neg (decVal (d1 :: ys)) (off + 2 + zs.length + 1 + ys.length)
        (off + 2 + zs.length + 1 + ys.length) (off + 2 + zs.length) true true (off + 1) := by
  have hA := (unitsAt_append c e ([48, 46] ++ zs) (d1 :: ys) off).1 hu
  have hB := (unitsAt_append c e [48, 46] zs off).1 hA.1
  have h48 : rd c e off = some 48 := hB.1.1
  have h46 : rd c e (off + 1) = some 46 := hB.1.2.1
  have hzs : unitsAt c e (off + 2) zs := by simpa using hB.2
  have hdy : unitsAt c e (off + 2 + zs.length) (d1 :: ys) := by
    have := hA.2; simp only [List.length_append, List.length_cons, List.length_nil] at this
    rw [show off + 2 + zs.length = off + (0 + 1 + 1 + zs.length) by omega]; exact this
  have hoff := rd_lt h48
  have hoff1 := rd_lt h46
  have hd1 : rd c e (off + 2 + zs.length) = some d1 := hdy.1
  have hzlt := rd_lt hd1
  have hd1dig := isNonZeroDigit_isDigit h1
  have hd148 : d1 ≠ 48 := by simp [isNonZeroDigit] at h1; omega
  have hQe : off + 2 + zs.length + 1 + ys.length ≤ e := by
    have := unitsAt_le c e (d1 :: ys) _ hdy (by simp); simp at this; omega
  -- the zero skipping
  have hskip : skipZeros c e (e - (off + 1 + 1)) (off + 1 + 1) 46 = some (off + 2 + zs.length, d1) := by
    rw [skipZeros_zeros c e zs (e - (off + 1 + 1)) (off + 1 + 1) 46 hz (by simpa using hzs) (by omega)]
    obtain ⟨j, hj⟩ : ∃ j, e - (off + 1 + 1) - zs.length = j + 1 := ⟨e - (off + 1 + 1) - zs.length - 1, by omega⟩
    rw [hj, skipZeros, show off + 1 + 1 + zs.length = off + 2 + zs.length by omega, hd1]
    simp [hd148]
  -- the windowed scan over the significant digits
  obtain ⟨hW1, hW2⟩ := windowEnd_bounds e (off + 2 + zs.length) he hzlt
  have hW3 : off + 2 + zs.length + 1 + ys.length ≤ windowEnd e (off + 2 + zs.length) := by
    rw [windowEnd_eq e _ he hzlt]; split <;> omega
  have hall : AllDigits (d1 :: ys) := by
    intro y hy
    rcases List.mem_cons.1 hy with h | h
    · subst h; exact hd1dig
    · exact hys y h
  have hv64 : decVal (d1 :: ys) < 2 ^ 64 := by
    have := decVal_lt_pow _ hall
    exact Nat.lt_of_lt_of_le this (Nat.le_trans (Nat.pow_le_pow_right (by decide) (by simp; omega)) (by decide : (10 : Nat) ^ 19 ≤ 2 ^ 64))
  have hfold : (d1 :: ys).foldl pushDigit 0 = decVal (d1 :: ys) := by
    rw [foldl_pushDigit (d1 :: ys) 0 (by simpa using hv64)]; simp
  rw [afterSign]
  simp only [hoff, if_true, h48, show isNonZeroDigit 48 = false by decide, Bool.false_eq_true, if_false, true_or, true_and,
    hoff1, h46, show ¬ ((46 : Nat) = 120 ∨ (46 : Nat) = 88) by decide, show isDigit 46 = false by decide, hskip]
  have hnd : ¬ (off + 1 + 1 = off + 2 + zs.length ∧ off + 1 = off ∧ (!isDigit d1) = true) := by omega
  simp only [hnd, if_false]
  have hW4 : windowEnd e (off + 2 + zs.length) = off + 2 + zs.length + 19 := by
    rw [windowEnd_eq e _ he hzlt, if_neg (by omega)]
  generalize windowEnd e (off + 2 + zs.length) = W at hW1 hW2 hW3 hW4 ⊢
  have hiter : iter1 c e W 0 (off + 2 + zs.length) d1 true (off + 1) true =
      some (.inr ⟨decVal (d1 :: ys), off + 2 + zs.length + 1 + ys.length, true, off + 1, true⟩) := by
    rw [iter1]; simp only [if_true]
    rw [iter2]; simp only [hzlt, if_true]
    have hk19 : W - (off + 2 + zs.length) = (d1 :: ys).length := by simp; omega
    rw [hk19, scanDigits_run c e (d1 :: ys) _ _ 0 d1 hall hdy (Nat.le_refl _), Nat.sub_self]
    simp only [scanDigits]
    rw [hfold]
    have hne : (d1 :: ys).getLast?.getD d1 ≠ 46 := isDigit_ne_dot (getLast_digit (d1 :: ys) d1 hall (by simp))
    simp only [hne, if_false]
    congr 3
    simp; omega
  rw [hiter]
  simp only [thenScan]
  rw [afterScan_mk_real]


/-- `d₁ xs . ys …` with `d₁ xs . ys` exactly the 19 units of the window (18 digits and the dot): the scan stops at
the window end holding `d₁ xs ys`, whatever follows (further digits are left to the tail loop). -/
theorem afterSign_frac_cut (c : List Nat) (e : Nat) (neg : Bool) (off d1 : Nat) (xs ys : List Nat) (he : e < 2 ^ 32)
    (h1 : isNonZeroDigit d1 = true) (hxs : AllDigits xs) (hys : AllDigits ys) (hy0 : ys ≠ []) (hy48 : ys ≠ [48])
    (hlen : xs.length + ys.length = 17)
    (hu : unitsAt c e off (d1 :: xs ++ [46] ++ ys)) :
    afterSign c e neg off =
      finishReal c e neg (decVal (d1 :: xs ++ ys)) (off + 1 + xs.length + 1 + ys.length)
        (off + 1 + xs.length + 1 + ys.length) off false true (off + 1 + xs.length) := by
  have hu1 := (unitsAt_append c e (d1 :: xs ++ [46]) ys off).1 hu
  have hu2 := (unitsAt_append c e (d1 :: xs) [46] off).1 hu1.1
  have hd1xs : unitsAt c e off (d1 :: xs) := hu2.1
  have hP : rd c e (off + 1 + xs.length) = some 46 := by
    have := hu2.2.1; simp only [List.length_cons] at this
    rw [show off + 1 + xs.length = off + (xs.length + 1) by omega]; exact this
  have huy : unitsAt c e (off + 1 + xs.length + 1) ys := by
    have := hu1.2; simp only [List.length_cons, List.length_append, List.length_nil] at this
    rw [show off + 1 + xs.length + 1 = off + (xs.length + 1 + (0 + 1)) by omega]; exact this
  have hoff : off < e := rd_lt hd1xs.1
  have hQe : off + 1 + xs.length + 1 + ys.length ≤ e := by
    have := unitsAt_le c e ys _ huy hy0; omega
  have hd1dig := isNonZeroDigit_isDigit h1
  -- window
  have hW : off + 1 + xs.length + 1 + ys.length ≤ windowEnd e off := by
    rw [windowEnd_eq e off he hoff]; split <;> omega
  have hWe : windowEnd e off ≤ e := (windowEnd_bounds e off he hoff).2
  -- digits' value
  have hall : AllDigits (d1 :: xs ++ ys) := by
    intro y hy
    simp only [List.cons_append, List.mem_cons, List.mem_append] at hy
    rcases hy with h | h | h
    · subst h; exact hd1dig
    · exact hxs y h
    · exact hys y h
  have hv64 : decVal (d1 :: xs ++ ys) < 2 ^ 64 := by
    have := decVal_lt_pow _ hall
    have hl : (d1 :: xs ++ ys).length ≤ 18 := by simp; omega
    exact Nat.lt_of_lt_of_le this (Nat.le_trans (Nat.pow_le_pow_right (by decide) hl) (by decide))
  have hfold : ys.foldl pushDigit (xs.foldl pushDigit (d1 - 48)) = decVal (d1 :: xs ++ ys) := by
    rw [← foldl_pushDigit_append]
    have hd : decVal (d1 :: xs ++ ys) = decVal (d1 :: (xs ++ ys)) := by simp
    rw [hd] at hv64 ⊢
    rw [foldl_pushDigit (xs ++ ys) (d1 - 48) (by rw [decVal_cons] at hv64; exact hv64), decVal_cons]
  rw [afterSign]
  simp only [hoff, if_true, hd1xs.1, h1]
  have hW4 : windowEnd e off = off + 19 := by
    rw [windowEnd_eq e off he hoff, if_neg (by omega)]
  generalize windowEnd e off = W at hW hWe hW4 ⊢
  -- first pass: up to the dot
  obtain ⟨dd, hsc, hdd⟩ := scanDigits_stop c e xs (W - (off + 1)) (off + 1) (d1 - 48) d1 hxs hd1xs.2 (by omega)
    (Or.inr ⟨46, hP, by decide⟩)
  have hdd46 : dd = 46 := by
    rcases hdd with h | ⟨h, _⟩
    · -- the run ended by the window: impossible, the dot is inside
      exfalso
      rw [scanDigits_run c e xs (W - (off + 1)) (off + 1) (d1 - 48) d1 hxs hd1xs.2 (by omega)] at hsc
      obtain ⟨j, hj⟩ : ∃ j, W - (off + 1) - xs.length = j + 1 := ⟨W - (off + 1) - xs.length - 1, by omega⟩
      rw [hj, scanDigits, hP] at hsc
      simp [isDigit] at hsc
      rw [h] at hsc
      by_cases hnil : xs = []
      · subst hnil; simp at hsc; subst hsc; simp [isDigit] at hd1dig
      · have := getLast_digit xs d1 hxs hnil
        rw [← hsc] at this; simp [isDigit] at this
    · rw [hP] at h; exact (Option.some.inj h).symm
  subst hdd46
  obtain ⟨y1, yt, hyseq⟩ : ∃ y1 yt, ys = y1 :: yt := by
    cases ys with
    | nil => exact absurd rfl hy0
    | cons a b => exact ⟨a, b, rfl⟩
  have hy1 : rd c e (off + 1 + xs.length + 1) = some y1 := by rw [hyseq] at huy; exact huy.1
  have hy1d : isDigit y1 = true := hys y1 (by rw [hyseq]; simp)
  have hylen : ys.length = yt.length + 1 := by rw [hyseq]; simp
  -- second pass over the fraction digits
  have hiter2 : ∀ dg, iter2 c e W (xs.foldl pushDigit (d1 - 48)) (off + 1 + xs.length + 1) dg (off + 1 + xs.length) =
      some (.inr ⟨decVal (d1 :: xs ++ ys), off + 1 + xs.length + 1 + ys.length, true, off + 1 + xs.length, true⟩) := by
    intro dg
    rw [iter2]
    have : off + 1 + xs.length + 1 < e := rd_lt hy1
    simp only [this, if_true]
    have hk : W - (off + 1 + xs.length + 1) = ys.length := by omega
    rw [hk, scanDigits_run c e ys _ _ _ dg hys huy (Nat.le_refl _), Nat.sub_self]
    simp only [scanDigits]
    rw [hfold]
    have hne : ys.getLast?.getD dg ≠ 46 := isDigit_ne_dot (getLast_digit ys dg hys hy0)
    simp [hne]
  rw [iter1]
  simp only [Bool.false_eq_true, if_false, show off + 1 < e by have := rd_lt hP; omega, if_true, hsc]
  have hlt2 : off + 1 + xs.length + 1 < W := by omega
  simp only [hlt2, if_true, hy1]
  by_cases hnz : isNonZeroDigit y1 = true
  · simp only [hnz, if_true, hiter2, thenScan]
    rw [afterScan_mk_real]
  · have h48 : y1 = 48 := by simp [isDigit] at hy1d; simp [isNonZeroDigit] at hnz; omega
    have hnz' : isNonZeroDigit y1 = false := by simpa using hnz
    obtain ⟨y2, yt2, hyt⟩ : ∃ y2 yt2, yt = y2 :: yt2 := by
      cases yt with
      | nil => exact absurd (by rw [hyseq, h48]) hy48
      | cons a b => exact ⟨a, b, rfl⟩
    have hy2 : rd c e (off + 1 + xs.length + 1 + 1) = some y2 := by
      have := huy; rw [hyseq, hyt] at this; exact this.2.1
    have hy2d : isDigit y2 = true := hys y2 (by rw [hyseq, hyt]; simp)
    have hytlen : yt.length = yt2.length + 1 := by rw [hyt]; simp
    have hlt3 : off + 1 + xs.length + 1 + 1 < W := by omega
    simp only [hnz', show isNonZeroDigit 48 = false by decide, Bool.false_eq_true, if_false, h48, true_and, hlt3, if_true, hy2, hy2d]
    rw [hiter2]
    simp only [thenScan]
    rw [afterScan_mk_real]


end Qentem.StrToNum
