import Qentem.Proofs.TmplGenBase
/-!
# C02 stage 8 — inline `{if case="e" true="T" false="F"}` in trees

The segment lemmas once more for a state inside an inline container (`isChild`), exact
`iifQuote` / `stepIif` / `iifAttrs` / `closeIif` on the printed tag, rendering through the start ids.
-/
set_option linter.unusedSectionVars false
set_option linter.unusedVariables false
set_option linter.unnecessarySimpa false
namespace Qentem.Tmpl
open Qentem.Expr (Fault rd ScanCfg VarRef Item Num Val Env RealLike)
open Qentem.Generated.Tmpl

variable {R : Type}

/-- the parser state in general position: any loop chain, inside or outside an inline container -/
def stAtC (ch : List LoopRef) (child : Bool) (stk : List (Frame R)) (acc : List (Tag R)) (o m : Nat) : PState R :=
  { storage := acc, stack := stk, loopChain := ch, isChild := child, off := o, mtch := m }

theorem finderNext_stAtC (c : List Nat) (ch : List LoopRef) (child : Bool) (stk : List (Frame R)) (acc : List (Tag R))
    (o m o' m' : Nat) (h : next c o = .ok (o', m')) :
    finderNext c (stAtC ch child stk acc o m) = .ok (stAtC ch child stk acc o' m') := by
  simp [finderNext, stAtC, h, bind, Except.bind]


theorem stepVar_segC (c : List Nat) (hn : c.length + 16 < 4294967296) (child : Bool) (raw : Bool)
    (pre pa post : List Nat) (w : List Nat) (hw : w.length = 5)
    (hc : c = pre ++ ((w ++ pa ++ [125]) ++ post))
    (hp : plainL pa) (h0 : 0 < pa.length) (h255 : pa.length ≤ 255)
    (ch : List LoopRef) (stk : List (Frame R)) (acc : List (Tag R)) (m o' m' : Nat)
    (hnext : next c (pre.length + 5 + pa.length + 1) = .ok (o', m'))
    (r : Option (Nat × Nat)) (hck : checkLoopVariable c (pre.length + 5) ch = .ok r) :
    stepVar c (stAtC ch child stk acc (pre.length + 5) m) raw =
      .ok (stAtC ch child stk (acc ++ [if raw then Tag.raw (mkV r (pre.length + 5) pa.length)
                          else Tag.var (mkV r (pre.length + 5) pa.length)]) o' m') := by
  have hskip : next c (pre.length + 5) = next c (pre.length + 5 + pa.length) := by
    apply next_skip c pa.length (pre.length + 5)
    · rw [hc]; simp; omega
    · intro i hi
      have := plain_at (pre ++ w) pa ([125] ++ post) hp i hi
      simpa [hc, List.append_assoc, hw, Nat.add_assoc] using this
  have hclose : next c (pre.length + 5 + pa.length) = .ok (pre.length + 5 + pa.length + 1, 1) := by
    apply next_at_close
    have := get_mid (pre ++ w ++ pa) [125] post 0 (by simp)
    simpa [hc, List.append_assoc, hw, Nat.add_assoc] using this
  have h1 : finderNext c (stAtC ch child stk acc (pre.length + 5) m) =
      .ok (stAtC ch child stk acc (pre.length + 5 + pa.length + 1) 1) :=
    finderNext_stAtC c ch child stk acc _ m _ _ (by rw [hskip, hclose])
  have hlen : (pre.length + 5 + pa.length + 1 - (pre.length + 5) - W1.inLineSuffixLength) % 256 = pa.length := by
    have : W1.inLineSuffixLength = 1 := by decide
    rw [this]; omega
  have htr : trunc bits_VariableTag_Length pa.length = pa.length := by
    have : bits_VariableTag_Length = 16 := by decide
    simp only [trunc, this]; omega
  simp only [stepVar, h1, bind, Except.bind]
  have hle : (stAtC ch child stk acc (pre.length + 5 + pa.length + 1) 1 : PState R).mtch = W1.lineEndID := rfl
  simp only [hle, if_true]
  have hoff : (stAtC ch child stk acc (pre.length + 5) m : PState R).off = pre.length + 5 := rfl
  have hoff2 : (stAtC ch child stk acc (pre.length + 5 + pa.length + 1) 1 : PState R).off = pre.length + 5 + pa.length + 1 := rfl
  have hch : (stAtC ch child stk acc (pre.length + 5 + pa.length + 1) 1 : PState R).loopChain = ch := rfl
  simp only [hoff, hoff2, hlen, hch]
  have hne : pa.length ≠ 0 := by omega
  simp only [ne_eq, hne, not_false_eq_true, if_true, htr]
  simp only [mkVar, hck, bind, Except.bind, pure, Except.pure]
  cases r with
  | none => cases raw <;> simp [finderNext, hnext, bind, Except.bind, stAtC, mkV]
  | some ab => obtain ⟨a, b⟩ := ab; cases raw <;> simp [finderNext, hnext, bind, Except.bind, stAtC, mkV]


/-- the `while (true)` of `case MathID` over the operands of the expression text: every
`{var:path}` is skipped, the `}` after the last stretch ends the tag -/
theorem mathScan_partsC (c : List Nat) (ch : List LoopRef) (child : Bool) (hn : c.length + 16 < 4294967296) (stk : List (Frame R))
    (acc : List (Tag R)) (last post : List Nat) (hl : plainL last) :
    ∀ (parts : List (List Nat × List Nat)) (A : List Nat) (fuel o m o' m' : Nat),
      c = A ++ (printMP parts ++ last ++ [125] ++ post) → (∀ tp ∈ parts, plainL tp.1 ∧ plainL tp.2) →
      parts.length + 1 ≤ fuel →
      next c A.length = .ok (o, m) →
      next c (A.length + (printMP parts ++ last).length + 1) = .ok (o', m') →
      mathScan c fuel (stAtC ch child stk acc o m : PState R) 0 =
        .ok (stAtC ch child stk acc o' m', A.length + (printMP parts ++ last).length + 1) := by
  have hle : W1.lineEndID = 1 := by decide
  have hmi : W1.mathID = 4 := by decide
  intro parts
  induction parts with
  | nil =>
    intro A fuel o m o' m' hc _ hf hnext hfin
    simp only [printMP, List.nil_append] at hc hfin ⊢
    have hc1 : c = A ++ (last ++ ([125] ++ post)) := by rw [hc]; simp [List.append_assoc]
    have hrun := next_run c A last _ hc1 hl
    have hclose : next c (A.length + last.length) = .ok (A.length + last.length + 1, 1) := by
      apply next_at_close
      have := get_mid (A ++ last) [125] post 0 (by simp)
      simpa [hc, List.append_assoc] using this
    rw [hrun, hclose] at hnext
    simp only [Except.ok.injEq, Prod.mk.injEq] at hnext
    obtain ⟨rfl, rfl⟩ := hnext
    obtain ⟨f, rfl⟩ : ∃ f, fuel = f + 1 := ⟨fuel - 1, by omega⟩
    have h2 : finderNext c (stAtC ch child stk acc (A.length + last.length + 1) 1) = .ok (stAtC ch child stk acc o' m') :=
      finderNext_stAtC c ch child stk acc _ 1 _ _ hfin
    have hm : (stAtC ch child stk acc (A.length + last.length + 1) 1 : PState R).mtch = 1 := rfl
    simp only [mathScan, hm, hle, ne_eq, not_true_eq_false, and_false, if_false, pure, Except.pure, bind,
      Except.bind, if_true, h2]
    rfl
  | cons tp r ih =>
    obtain ⟨t, p⟩ := tp
    intro A fuel o m o' m' hc hall hf hnext hfin
    have htp := hall (t, p) (List.mem_cons_self ..)
    simp only at htp
    have hallr : ∀ tp ∈ r, plainL tp.1 ∧ plainL tp.2 := fun x hx => hall x (List.mem_cons_of_mem _ hx)
    simp only [List.length_cons] at hf
    obtain ⟨f, rfl⟩ : ∃ f, fuel = f + 1 := ⟨fuel - 1, by omega⟩
    have hc1 : c = A ++ (t ++ ([123, 118, 97, 114, 58] ++ p ++ [125] ++ (printMP r ++ last ++ [125] ++ post))) := by
      rw [hc]; simp [printMP, List.append_assoc]
    have hrun := next_run c A t _ hc1 htp.1
    have g := fun i (hi : i < 5) => get_mid (A ++ t) [123, 118, 97, 114, 58]
      (p ++ [125] ++ (printMP r ++ last ++ [125] ++ post)) i (by simpa using hi)
    have hc2 : c = (A ++ t) ++ ([123, 118, 97, 114, 58] ++ (p ++ [125] ++ (printMP r ++ last ++ [125] ++ post))) := by
      rw [hc1]; simp [List.append_assoc]
    have hlat : (A ++ t).length = A.length + t.length := by simp
    have hvar : next c (A.length + t.length) = .ok (A.length + t.length + 5, 2) := by
      rw [← hlat]
      apply next_at_var c _ (by omega)
      · have := g 0 (by omega); rw [hc2]; simpa using this
      · have := g 1 (by omega); rw [hc2]; simpa using this
      · have := g 2 (by omega); rw [hc2]; simpa using this
      · have := g 3 (by omega); rw [hc2]; simpa using this
      · have := g 4 (by omega); rw [hc2]; simpa using this
    rw [hrun, hvar] at hnext
    simp only [Except.ok.injEq, Prod.mk.injEq] at hnext
    obtain ⟨rfl, rfl⟩ := hnext
    have hc3 : c = (A ++ t ++ [123, 118, 97, 114, 58]) ++ (p ++ ([125] ++ (printMP r ++ last ++ [125] ++ post))) := by
      rw [hc1]; simp [List.append_assoc]
    have hl3 : (A ++ t ++ [123, 118, 97, 114, 58]).length = A.length + t.length + 5 := by simp; omega
    have hrun2 := next_run c _ p _ hc3 htp.2
    rw [hl3] at hrun2
    have hclose : next c (A.length + t.length + 5 + p.length) = .ok (A.length + t.length + 5 + p.length + 1, 1) := by
      apply next_at_close
      have := get_mid (A ++ t ++ [123, 118, 97, 114, 58] ++ p) [125] (printMP r ++ last ++ [125] ++ post) 0 (by simp)
      have hl5 : (A ++ t ++ [123, 118, 97, 114, 58] ++ p).length + 0 = A.length + t.length + 5 + p.length := by
        simp; omega
      rw [hl5] at this
      have hX : c = (A ++ t ++ [123, 118, 97, 114, 58] ++ p) ++ ([125] ++ (printMP r ++ last ++ [125] ++ post)) := by
        rw [hc1]; simp [List.append_assoc]
      rw [hX, this]; rfl
    have hc4 : c = (A ++ (t ++ ([123, 118, 97, 114, 58] ++ p ++ [125]))) ++ (printMP r ++ last ++ [125] ++ post) := by
      rw [hc1]; simp [List.append_assoc]
    have hl4 : (A ++ (t ++ ([123, 118, 97, 114, 58] ++ p ++ [125]))).length = A.length + t.length + 5 + p.length + 1 := by
      simp; omega
    have hle4 : A.length + t.length + 5 + p.length + 1 ≤ c.length := by
      rw [← hl4, hc4]; simp
    obtain ⟨o2, m2, hn2, _⟩ := next_safe_total c _ hle4
    have hih := ih (A ++ (t ++ ([123, 118, 97, 114, 58] ++ p ++ [125]))) f o2 m2 o' m' hc4 hallr (by omega)
      (by rw [hl4]; exact hn2)
      (by rw [hl4, ← hfin, printMP_cons_len]; congr 1; omega)
    rw [hl4] at hih
    have h1 : finderNext c (stAtC ch child stk acc (A.length + t.length + 5) 2) =
        .ok (stAtC ch child stk acc (A.length + t.length + 5 + p.length + 1) 1) :=
      finderNext_stAtC c ch child stk acc _ 2 _ _ (by rw [hrun2, hclose])
    have h2 : finderNext c (stAtC ch child stk acc (A.length + t.length + 5 + p.length + 1) 1) = .ok (stAtC ch child stk acc o2 m2) :=
      finderNext_stAtC c ch child stk acc _ 1 _ _ hn2
    have hm : (stAtC ch child stk acc (A.length + t.length + 5) 2 : PState R).mtch = 2 := rfl
    have hm1 : (stAtC ch child stk acc (A.length + t.length + 5 + p.length + 1) 1 : PState R).mtch = 1 := rfl
    have hcond : (2 : Nat) < 4 ∧ (2 : Nat) ≠ 1 := by decide
    simp only [mathScan, hm, hle, hmi, hcond, and_self, if_true, h1, bind, Except.bind, pure, Except.pure, hm1,
      ne_eq, show ¬ ((0 : Nat) + 1 = 0) by omega, not_false_eq_true, h2, Nat.add_sub_cancel]
    rw [hih, printMP_cons_len]
    congr 2
    omega



/-- `{math:e}` at `pre.length`: `stepMath` appends the Math tag with the scanned list -/
theorem stepMath_segC (cfg : ScanCfg R) (c : List Nat) (ch : List LoopRef) (child : Bool) (hn : c.length + 16 < 4294967296)
    (pre e post : List Nat) (w : List Nat) (hw : w.length = 6)
    (hc : c = pre ++ ((w ++ e ++ [125]) ++ post)) (hp : MathOk e)
    (stk : List (Frame R)) (acc : List (Tag R)) (o' m' : Nat)
    (hnext : next c (pre.length + 6 + e.length + 1) = .ok (o', m'))
    (items : List (Item R))
    (hex : exprs cfg c ch (pre.length + 6) (pre.length + 6 + e.length) = .ok items) :
    stepMath cfg c (stAtC ch child stk acc (pre.length + 6) 4) =
      .ok (stAtC ch child stk (acc ++ [.math items pre.length (pre.length + 6 + e.length + 1)]) o' m') := by
  obtain ⟨parts, last, rfl, hl, hall⟩ := hp
  have hc1 : c = (pre ++ w) ++ (printMP parts ++ last ++ [125] ++ post) := by
    rw [hc]; simp [List.append_assoc]
  have hl1 : (pre ++ w).length = pre.length + 6 := by simp [hw]
  have hle1 : pre.length + 6 ≤ c.length := by rw [← hl1, hc1]; simp
  obtain ⟨o1, m1, hn1, _⟩ := next_safe_total c _ hle1
  have hplen : parts.length + 1 ≤ c.length + 2 := by
    have : parts.length ≤ (printMP parts).length := by
      clear hc hc1 hall hnext hex
      induction parts with
      | nil => simp
      | cons tp r ih => obtain ⟨t, p⟩ := tp; simp [printMP] at ih ⊢; omega
    have : (printMP parts).length ≤ c.length := by rw [hc1]; simp; omega
    omega
  have hscan := mathScan_partsC c ch child hn stk acc last post hl parts (pre ++ w) (c.length + 2) o1 m1 o' m' hc1 hall hplen
    (by rw [hl1]; exact hn1) (by rw [hl1]; exact hnext)
  rw [hl1] at hscan
  have h1 : finderNext c (stAtC ch child stk acc (pre.length + 6) 4) = .ok (stAtC ch child stk acc o1 m1) :=
    finderNext_stAtC c ch child stk acc _ 4 _ _ hn1
  simp only [stepMath, h1, hscan, bind, Except.bind]
  have hoff : (stAtC ch child stk acc (pre.length + 6) 4 : PState R).off = pre.length + 6 := rfl
  have hch : (stAtC ch child stk acc o' m' : PState R).loopChain = ch := rfl
  have hsuf : pre.length + 6 + (printMP parts ++ last).length + 1 - W1.inLineSuffixLength =
      pre.length + 6 + (printMP parts ++ last).length := by
    have : W1.inLineSuffixLength = 1 := by decide
    rw [this]; omega
  have hpre : pre.length + 6 - W1.mathPrefixLength = pre.length := by
    have : W1.mathPrefixLength = 6 := by decide
    rw [this]; omega
  simp only [hoff, hch, hsuf, hpre, hex, ne_eq,
    show ¬ (pre.length + 6 + (printMP parts ++ last).length + 1 = 0) by omega, not_false_eq_true, if_true]
  rfl



/-- a run of segments under any loop chain -/
theorem parseMain_segsC (cfg : ScanCfg R) (c : List Nat) (hn : c.length + 16 < 4294967296)
    (D : List LoopD) (hD : ChainD c D) (child : Bool) (stk : List (Frame R)) (post : List Nat) :
    ∀ (segs : List Seg) (pre : List Nat) (acc : List (Tag R)) (fuel o m o' m' : Nat),
      c = pre ++ (printSegs segs ++ post) → (∀ s ∈ segs, s.ok) →
      next c pre.length = .ok (o, m) →
      next c (pre.length + (printSegs segs).length) = .ok (o', m') →
      parseMain cfg c (fuel + nTags segs) (stAtC (refsD D) child stk acc o m) =
        parseMain cfg c fuel (stAtC (refsD D) child stk (acc ++ tagsOfD cfg c D pre.length segs) o' m') := by
  intro segs
  induction segs with
  | nil =>
    intro pre acc fuel o m o' m' hc _ hnext hfin
    simp only [printSegs, List.length_nil, Nat.add_zero] at hfin
    rw [hnext] at hfin
    simp only [Except.ok.injEq, Prod.mk.injEq] at hfin
    obtain ⟨rfl, rfl⟩ := hfin
    simp [nTags, tagsOfD]
  | cons sg rest ih =>
    intro pre acc fuel o m o' m' hc hok hnext hfin
    have hokr : ∀ s ∈ rest, s.ok := fun s hs => hok s (List.mem_cons_of_mem _ hs)
    have hsg := hok sg (List.mem_cons_self ..)
    have hvar : ∀ (raw : Bool) (w pa : List Nat) (mid : Nat), w.length = 5 →
        c = pre ++ ((w ++ pa ++ [125]) ++ (printSegs rest ++ post)) → plainL pa → 0 < pa.length → pa.length ≤ 255 →
        mid ≠ 0 →
        (∀ st : PState R, st.mtch = mid → step cfg c st = stepVar c st raw) →
        next c (pre.length + ((w ++ pa ++ [125]) ++ printSegs rest).length) = .ok (o', m') →
        parseMain cfg c (fuel + nTags rest + 1) (stAtC (refsD D) child stk acc (pre.length + 5) mid) =
          parseMain cfg c fuel (stAtC (refsD D) child stk
            (acc ++ ((if raw then Tag.raw (refD D (pre.length + 5) pa) else Tag.var (refD D (pre.length + 5) pa)) ::
              tagsOfD cfg c D (pre.length + 5 + pa.length + 1) rest)) o' m') := by
      intro raw w pa mid hw hc' hp h0 h255 hmid hdisp hfin'
      have hlen_le : pre.length + 5 + pa.length + 1 ≤ c.length := by rw [hc']; simp [hw]; omega
      obtain ⟨o1, m1, hn1, _⟩ := next_safe_total c (pre.length + 5 + pa.length + 1) hlen_le
      have hcA : c = (pre ++ w) ++ (pa ++ 125 :: (printSegs rest ++ post)) := by
        rw [hc']; simp [List.append_assoc]
      have hlA : (pre ++ w).length = pre.length + 5 := by simp [hw]
      have hck := checkLoopVariable_D c (pre ++ w) _ hcA ⟨pa.length, 125, by simp, Or.inl rfl⟩ D hD
      rw [hlA, findV_stop c 125 (Or.inl rfl) pa _ D hD] at hck
      have hstep := stepVar_segC c hn child raw pre pa (printSegs rest ++ post) w hw hc' hp h0 h255
        (refsD D) stk acc mid o1 m1 hn1 _ hck
      rw [parseMain_step cfg c _ _ _ (by simpa [stAtC] using hmid) ((hdisp _ rfl).trans hstep)]
      have := ih (pre ++ (w ++ pa ++ [125]))
        (acc ++ [if raw then Tag.raw (refD D (pre.length + 5) pa) else Tag.var (refD D (pre.length + 5) pa)])
        fuel o1 m1 o' m' (by rw [hc']; simp [List.append_assoc]) hokr
        (by simp only [List.length_append, List.length_cons, List.length_nil, hw]
            rw [show pre.length + (5 + pa.length + (0 + 1)) = pre.length + 5 + pa.length + 1 by omega]
            exact hn1)
        (by rw [← hfin']; congr 1; simp [List.length_append]; omega)
      have hL : (pre ++ (w ++ pa ++ [125])).length = pre.length + 5 + pa.length + 1 := by simp [hw]; omega
      rw [hL] at this
      simp only [refD] at this ⊢
      rw [this]
      simp [List.append_assoc]
    cases sg with
    | text s =>
      simp only [Seg.ok] at hsg
      simp only [printSegs, printSeg] at hc hfin
      have hskip : next c pre.length = next c (pre.length + s.length) := by
        apply next_skip c s.length pre.length (by rw [hc]; simp)
        intro i hi
        have := plain_at pre s (printSegs rest ++ post) hsg i hi
        rw [hc]; simpa [List.append_assoc] using this
      have := ih (pre ++ s) acc fuel o m o' m' (by rw [hc]; simp [List.append_assoc]) hokr
        (by rw [List.length_append, ← hskip]; exact hnext)
        (by rw [← hfin]; congr 1; simp [List.length_append]; omega)
      simpa [tagsOfD, nTags, List.length_append] using this
    | var pa =>
      simp only [Seg.ok] at hsg
      obtain ⟨hp, h0, h255⟩ := hsg
      simp only [printSegs, printSeg] at hc hfin
      have hat : next c pre.length = .ok (pre.length + 5, 2) := by
        have g := fun i (hi : i < 5) => get_mid pre [123, 118, 97, 114, 58] (pa ++ [125] ++ (printSegs rest ++ post)) i (by simpa using hi)
        have hc' : c = pre ++ ([123, 118, 97, 114, 58] ++ (pa ++ [125] ++ (printSegs rest ++ post))) := by
          rw [hc]; simp [List.append_assoc]
        apply next_at_var c pre.length (by omega)
        · have := g 0 (by omega); rw [hc']; simpa using this
        · have := g 1 (by omega); rw [hc']; simpa using this
        · have := g 2 (by omega); rw [hc']; simpa using this
        · have := g 3 (by omega); rw [hc']; simpa using this
        · have := g 4 (by omega); rw [hc']; simpa using this
      rw [hat] at hnext
      simp only [Except.ok.injEq, Prod.mk.injEq] at hnext
      obtain ⟨rfl, rfl⟩ := hnext
      have := hvar false [123, 118, 97, 114, 58] pa 2 rfl (by rw [hc]; simp [List.append_assoc]) hp h0 h255
        (by decide)
        (by intro st hst; simp only [step, hst]; first | done | rfl) (by rw [← hfin])
      rw [show fuel + nTags (Seg.var pa :: rest) = fuel + nTags rest + 1 by simp [nTags]; omega]
      simpa [tagsOfD] using this
    | raw pa =>
      simp only [Seg.ok] at hsg
      obtain ⟨hp, h0, h255⟩ := hsg
      simp only [printSegs, printSeg] at hc hfin
      have hat : next c pre.length = .ok (pre.length + 5, 3) := by
        have g := fun i (hi : i < 5) => get_mid pre [123, 114, 97, 119, 58] (pa ++ [125] ++ (printSegs rest ++ post)) i (by simpa using hi)
        have hc' : c = pre ++ ([123, 114, 97, 119, 58] ++ (pa ++ [125] ++ (printSegs rest ++ post))) := by
          rw [hc]; simp [List.append_assoc]
        apply next_at_raw c pre.length (by omega)
        · have := g 0 (by omega); rw [hc']; simpa using this
        · have := g 1 (by omega); rw [hc']; simpa using this
        · have := g 2 (by omega); rw [hc']; simpa using this
        · have := g 3 (by omega); rw [hc']; simpa using this
        · have := g 4 (by omega); rw [hc']; simpa using this
      rw [hat] at hnext
      simp only [Except.ok.injEq, Prod.mk.injEq] at hnext
      obtain ⟨rfl, rfl⟩ := hnext
      have := hvar true [123, 114, 97, 119, 58] pa 3 rfl (by rw [hc]; simp [List.append_assoc]) hp h0 h255
        (by decide)
        (by intro st hst; simp only [step, hst]; first | done | rfl) (by rw [← hfin])
      rw [show fuel + nTags (Seg.raw pa :: rest) = fuel + nTags rest + 1 by simp [nTags]; omega]
      simpa [tagsOfD] using this
    | math e =>
      simp only [Seg.ok] at hsg
      simp only [printSegs, printSeg] at hc hfin
      have hat : next c pre.length = .ok (pre.length + 6, 4) := by
        have g := fun i (hi : i < 6) => get_mid pre [123, 109, 97, 116, 104, 58] (e ++ [125] ++ (printSegs rest ++ post)) i (by simpa using hi)
        have hc' : c = pre ++ ([123, 109, 97, 116, 104, 58] ++ (e ++ [125] ++ (printSegs rest ++ post))) := by
          rw [hc]; simp [List.append_assoc]
        apply next_at_math c pre.length (by omega)
        · have := g 0 (by omega); rw [hc']; simpa using this
        · have := g 1 (by omega); rw [hc']; simpa using this
        · have := g 2 (by omega); rw [hc']; simpa using this
        · have := g 3 (by omega); rw [hc']; simpa using this
        · have := g 4 (by omega); rw [hc']; simpa using this
        · have := g 5 (by omega); rw [hc']; simpa using this
      rw [hat] at hnext
      simp only [Except.ok.injEq, Prod.mk.injEq] at hnext
      obtain ⟨rfl, rfl⟩ := hnext
      have hlen_le : pre.length + 6 + e.length + 1 ≤ c.length := by rw [hc]; simp; omega
      obtain ⟨o1, m1, hn1, _⟩ := next_safe_total c (pre.length + 6 + e.length + 1) hlen_le
      obtain ⟨items', hex⟩ := Qentem.Expr.parseTop_total
        ({ cfg with loopVar := loopVarPure c (refsD D) } : ScanCfg R) c (pre.length + 6) (pre.length + 6 + e.length) (by omega)
      have hex' : exprs cfg c (refsD D) (pre.length + 6) (pre.length + 6 + e.length) = .ok items' := hex
      have hstep := stepMath_segC cfg c (refsD D) child hn pre e (printSegs rest ++ post) [123, 109, 97, 116, 104, 58] rfl
        (by rw [hc]; simp [List.append_assoc]) hsg stk acc o1 m1 hn1 items' hex'
      rw [show fuel + nTags (Seg.math e :: rest) = (fuel + nTags rest) + 1 by simp [nTags]; omega]
      have hd : step cfg c (stAtC (refsD D) child stk acc (pre.length + 6) 4) = stepMath cfg c (stAtC (refsD D) child stk acc (pre.length + 6) 4) := by
        simp only [step, stAtC]; rfl
      rw [parseMain_step cfg c _ _ _ (by simp [stAtC]) (hd.trans hstep)]
      have := ih (pre ++ ([123, 109, 97, 116, 104, 58] ++ e ++ [125]))
        (acc ++ [Tag.math items' pre.length (pre.length + 6 + e.length + 1)])
        fuel o1 m1 o' m' (by rw [hc]; simp [List.append_assoc]) hokr
        (by simp only [List.length_append, List.length_cons, List.length_nil]
            rw [show pre.length + (6 + e.length + (0 + 1)) = pre.length + 6 + e.length + 1 by omega]
            exact hn1)
        (by rw [← hfin]; congr 1; simp [List.length_append]; omega)
      have hL : (pre ++ ([123, 109, 97, 116, 104, 58] ++ e ++ [125])).length = pre.length + 6 + e.length + 1 := by
        simp; omega
      rw [hL] at this
      rw [this]
      simp [tagsOfD, itemsAtC, hex', List.append_assoc]


/-- `{if` at `p` (followed by ` ca…`) -/
theorem next_at_iif (c : List Nat) (p : Nat) (hn : c.length + 16 < 4294967296)
    (h0 : c[p]? = some 123) (h1 : c[p + 1]? = some 105) (h2 : c[p + 2]? = some 102)
    (h4 : c[p + 4]? = some 99) (h5 : c[p + 5]? = some 97) : next c p = .ok (p + 3, 6) := by
  have hlt : p < c.length := (List.getElem?_eq_some_iff.mp h0).1
  have hlt2 : p + 2 < c.length := (List.getElem?_eq_some_iff.mp h2).1
  have hlt4 : p + 4 < c.length := (List.getElem?_eq_some_iff.mp h4).1
  have hlt5 : p + 5 < c.length := (List.getElem?_eq_some_iff.mp h5).1
  have e2 : c[p + 2] = 102 := by have := List.getElem?_eq_getElem hlt2; rw [h2] at this; exact (Option.some.inj this).symm
  have e4 : c[p + 4] = 99 := by have := List.getElem?_eq_getElem hlt4; rw [h4] at this; exact (Option.some.inj this).symm
  have e5 : c[p + 5] = 97 := by have := List.getElem?_eq_getElem hlt5; rw [h5] at this; exact (Option.some.inj this).symm
  unfold next
  have : c.length + 1 - p = (c.length - p) + 1 := by omega
  rw [this]
  simp only [nextF, hlt, if_true, rd_some c p 123 h0, bind, Except.bind]
  have hid : firstCharID 123 = 0 := by decide
  have hg : W1.groups.getD 0 [] = [1, 2, 3, 4, 5] := by decide
  have hfc : (0 : Nat) < W1.firstCharsCount := by decide
  have h32 : (2 : Nat) ^ sizeTBits = 4294967296 := by decide
  simp only [hid, hfc, if_true, hg]
  have s1 : tryWords c (p + 1) (1 :: [2, 3, 4, 5]) = tryWords c (p + 1) [2, 3, 4, 5] := by
    apply tryWords_skip
    have hwl : W1.wordLengths.getD 1 0 = 3 := by decide
    have hwd : W1.words.getD 1 [] = [118, 97, 114, 58] := by decide
    simp only [hwl, hwd, h32, show (p + 1 + 3) % 4294967296 = p + 4 by omega]
    intro _ he; rw [e4] at he; simp at he
  have s2 : tryWords c (p + 1) (2 :: [3, 4, 5]) = tryWords c (p + 1) [3, 4, 5] := by
    apply tryWords_skip
    have hwl : W1.wordLengths.getD 2 0 = 3 := by decide
    have hwd : W1.words.getD 2 [] = [114, 97, 119, 58] := by decide
    simp only [hwl, hwd, h32, show (p + 1 + 3) % 4294967296 = p + 4 by omega]
    intro _ he; rw [e4] at he; simp at he
  have s3 : tryWords c (p + 1) (3 :: [4, 5]) = tryWords c (p + 1) [4, 5] := by
    apply tryWords_skip
    have hwl : W1.wordLengths.getD 3 0 = 4 := by decide
    have hwd : W1.words.getD 3 [] = [109, 97, 116, 104, 58] := by decide
    simp only [hwl, hwd, h32, show (p + 1 + 4) % 4294967296 = p + 5 by omega]
    intro _ he; rw [e5] at he; simp at he
  have s4 : tryWords c (p + 1) (4 :: [5]) = tryWords c (p + 1) [5] := by
    apply tryWords_skip
    have hwl : W1.wordLengths.getD 4 0 = 4 := by decide
    have hwd : W1.words.getD 4 [] = [115, 118, 97, 114, 58] := by decide
    simp only [hwl, hwd, h32, show (p + 1 + 4) % 4294967296 = p + 5 by omega]
    intro _ he; rw [e5] at he; simp at he
  have s5 : tryWords c (p + 1) (5 :: []) = .ok (some (p + 3, 6)) := by
    have hwl : W1.wordLengths.getD 5 0 = 1 := by decide
    have hwd : W1.words.getD 5 [] = [105, 102] := by decide
    have := tryWords_hit c (p + 1) 5 []
    simp only [hwl, hwd, h32, show (p + 1 + 1) % 4294967296 = p + 2 by omega] at this
    apply this hlt2 (by rw [e2]; rfl)
    simp [matchMiddle, rd_some c (p + 1) 105 h1, bind, Except.bind, show p + 1 < p + 2 by omega]
  rw [s1, s2, s3, s4, s5]


theorem printMP_no34 : ∀ (parts : List (List Nat × List Nat)), (∀ tp ∈ parts, (∀ x ∈ tp.1, x ≠ 34) ∧ ∀ x ∈ tp.2, x ≠ 34) →
    ∀ x ∈ printMP parts, x ≠ 34 := by
  intro parts
  induction parts with
  | nil => intro _ x hx; simp [printMP] at hx
  | cons tp r ih =>
    obtain ⟨t, p⟩ := tp
    intro h x hx
    have h1 := h (t, p) (List.mem_cons_self ..)
    simp only [printMP, List.mem_append] at hx
    rcases hx with (hx | hx) | hx
    · exact h1.1 x hx
    · simp only [List.mem_append, List.mem_cons, List.mem_singleton] at hx
      rcases hx with (hx | hx) | hx
      · simp at hx; rcases hx with h | h | h | h | h <;> subst h <;> decide
      · exact h1.2 x hx
      · simp at hx; subst hx; decide
    · exact ih (fun y hy => h y (List.mem_cons_of_mem _ hy)) x hx

/-- the `while` of `case InLineIfID` that looks for the closing quote of the case text, over the
`{var:}` operands of the text -/
theorem iifQuote_parts (c : List Nat) (hn : c.length + 16 < 4294967296) (ch : List LoopRef) (child : Bool)
    (stk : List (Frame R)) (acc : List (Tag R)) (last rest : List Nat) (hl : plainL last) (hl34 : ∀ x ∈ last, x ≠ 34) :
    ∀ (parts : List (List Nat × List Nat)) (A : List Nat) (off fuel o m oF mF : Nat),
      c = A ++ (printMP parts ++ last ++ [34] ++ rest) →
      (∀ tp ∈ parts, plainL tp.1 ∧ plainL tp.2) → (∀ tp ∈ parts, (∀ x ∈ tp.1, x ≠ 34) ∧ ∀ x ∈ tp.2, x ≠ 34) →
      off ≤ A.length → (∀ i, off ≤ i → i < A.length → ∀ x, c[i]? = some x → x ≠ 34) →
      parts.length + 1 ≤ fuel → next c A.length = .ok (o, m) →
      next c (A.length + (printMP parts ++ last).length + 1) = .ok (oF, mF) → mF ≠ 0 →
      iifQuote c 34 fuel (stAtC ch child stk acc o m : PState R) off o =
        .ok (stAtC ch child stk acc oF mF, A.length + (printMP parts ++ last).length) := by
  have hp34 : plainL [34] := by intro x hx; simp at hx; subst hx; unfold plainU; decide
  intro parts
  induction parts with
  | nil =>
    intro A off fuel o m oF mF hc _ _ hoff hno hf hnext hfin hmF
    simp only [printMP, List.nil_append] at hc hfin ⊢
    have hc1 : c = A ++ ((last ++ [34]) ++ rest) := by rw [hc]
    have hrun := next_run c A (last ++ [34]) rest hc1 (plainL_append hl hp34)
    have hl34' : A.length + (last ++ [34]).length = A.length + last.length + 1 := by
      simp only [List.length_append, List.length_cons, List.length_nil]; omega
    rw [hl34', hfin] at hrun
    rw [hrun] at hnext
    simp only [Except.ok.injEq, Prod.mk.injEq] at hnext
    obtain ⟨rfl, rfl⟩ := hnext
    obtain ⟨f, rfl⟩ : ∃ f, fuel = f + 1 := ⟨fuel - 1, by omega⟩
    have hle : A.length + last.length + 1 ≤ c.length := by rw [hc1]; simp; omega
    obtain ⟨o', m', hn', _, hge, _, _⟩ := next_safe_total c _ hle
    rw [hfin] at hn'
    simp only [Except.ok.injEq, Prod.mk.injEq] at hn'
    obtain ⟨rfl, rfl⟩ := hn'
    have hq : c[A.length + last.length]? = some 34 := by
      have := get_mid (A ++ last) [34] rest 0 (by simp)
      simpa [hc, List.append_assoc] using this
    have hsk : skipW c oF (· != 34) off = .ok (A.length + last.length) := by
      have := skipW_run c oF (· != 34) (A.length + last.length - off) off
        (by
          intro i hi
          by_cases hA : off + i < A.length
          · have hlt : off + i < c.length := by omega
            exact ⟨c[off + i], List.getElem?_eq_getElem hlt, by
              have := hno (off + i) (by omega) hA _ (List.getElem?_eq_getElem hlt); simpa using this⟩
          · have hj : off + i - A.length < last.length := by omega
            have := get_at A last ([34] ++ rest) (off + i - A.length) hj
            rw [show A.length + (off + i - A.length) = off + i by omega] at this
            refine ⟨last[off + i - A.length], by rw [hc]; simpa [List.append_assoc] using this, ?_⟩
            have := hl34 _ (List.getElem_mem hj); simpa using this)
        (by omega) (Or.inr ⟨34, by rw [show off + (A.length + last.length - off) = A.length + last.length by omega]; exact hq, by decide⟩)
      rw [this]; congr 1; omega
    have hm : (stAtC ch child stk acc oF mF : PState R).mtch = mF := rfl
    simp only [iifQuote, hm, ne_eq, hmF, not_false_eq_true, if_true, hsk, bind, Except.bind,
      show A.length + last.length < oF by omega]
  | cons tp r ih =>
    obtain ⟨t, p⟩ := tp
    intro A off fuel o m oF mF hc hall h34 hoff hno hf hnext hfin hmF
    have htp := hall (t, p) (List.mem_cons_self ..)
    have h34tp := h34 (t, p) (List.mem_cons_self ..)
    simp only at htp h34tp
    have hallr : ∀ tp ∈ r, plainL tp.1 ∧ plainL tp.2 := fun x hx => hall x (List.mem_cons_of_mem _ hx)
    have h34r : ∀ tp ∈ r, (∀ x ∈ tp.1, x ≠ 34) ∧ ∀ x ∈ tp.2, x ≠ 34 := fun x hx => h34 x (List.mem_cons_of_mem _ hx)
    simp only [List.length_cons] at hf
    obtain ⟨f, rfl⟩ : ∃ f, fuel = f + 1 := ⟨fuel - 1, by omega⟩
    have hc1 : c = A ++ (t ++ ([123, 118, 97, 114, 58] ++ p ++ [125] ++ (printMP r ++ last ++ [34] ++ rest))) := by
      rw [hc]; simp [printMP, List.append_assoc]
    have hrun := next_run c A t _ hc1 htp.1
    have g := fun i (hi : i < 5) => get_mid (A ++ t) [123, 118, 97, 114, 58]
      (p ++ [125] ++ (printMP r ++ last ++ [34] ++ rest)) i (by simpa using hi)
    have hc2 : c = (A ++ t) ++ ([123, 118, 97, 114, 58] ++ (p ++ [125] ++ (printMP r ++ last ++ [34] ++ rest))) := by
      rw [hc1]; simp [List.append_assoc]
    have hlat : (A ++ t).length = A.length + t.length := by simp
    have hvar : next c (A.length + t.length) = .ok (A.length + t.length + 5, 2) := by
      rw [← hlat]
      apply next_at_var c _ (by omega)
      · have := g 0 (by omega); rw [hc2]; simpa using this
      · have := g 1 (by omega); rw [hc2]; simpa using this
      · have := g 2 (by omega); rw [hc2]; simpa using this
      · have := g 3 (by omega); rw [hc2]; simpa using this
      · have := g 4 (by omega); rw [hc2]; simpa using this
    rw [hrun, hvar] at hnext
    simp only [Except.ok.injEq, Prod.mk.injEq] at hnext
    obtain ⟨rfl, rfl⟩ := hnext
    have hc3 : c = (A ++ t ++ [123, 118, 97, 114, 58]) ++ (p ++ ([125] ++ (printMP r ++ last ++ [34] ++ rest))) := by
      rw [hc1]; simp [List.append_assoc]
    have hl3 : (A ++ t ++ [123, 118, 97, 114, 58]).length = A.length + t.length + 5 := by simp; omega
    have hrun2 := next_run c _ p _ hc3 htp.2
    rw [hl3] at hrun2
    have hclose : next c (A.length + t.length + 5 + p.length) = .ok (A.length + t.length + 5 + p.length + 1, 1) := by
      apply next_at_close
      have := get_mid (A ++ t ++ [123, 118, 97, 114, 58] ++ p) [125] (printMP r ++ last ++ [34] ++ rest) 0 (by simp)
      have hl5 : (A ++ t ++ [123, 118, 97, 114, 58] ++ p).length + 0 = A.length + t.length + 5 + p.length := by
        simp; omega
      rw [hl5] at this
      have hX : c = (A ++ t ++ [123, 118, 97, 114, 58] ++ p) ++ ([125] ++ (printMP r ++ last ++ [34] ++ rest)) := by
        rw [hc1]; simp [List.append_assoc]
      rw [hX, this]; rfl
    have hc4 : c = (A ++ (t ++ ([123, 118, 97, 114, 58] ++ p ++ [125]))) ++ (printMP r ++ last ++ [34] ++ rest) := by
      rw [hc1]; simp [List.append_assoc]
    have hl4 : (A ++ (t ++ ([123, 118, 97, 114, 58] ++ p ++ [125]))).length = A.length + t.length + 5 + p.length + 1 := by
      simp; omega
    have hle4 : A.length + t.length + 5 + p.length + 1 ≤ c.length := by
      rw [← hl4, hc4]; simp
    obtain ⟨o2, m2, hn2, _⟩ := next_safe_total c _ hle4
    -- no quote before the `{var:` match
    have hno1 : ∀ i, off ≤ i → i < A.length + t.length + 5 → ∀ x, c[i]? = some x → x ≠ 34 := by
      intro i h1 h2 x hx
      by_cases hA : i < A.length
      · exact hno i h1 hA x hx
      · have hj : i - A.length < (t ++ [123, 118, 97, 114, 58]).length := by simp; omega
        have hc5 : c = A ++ ((t ++ [123, 118, 97, 114, 58]) ++ (p ++ [125] ++ (printMP r ++ last ++ [34] ++ rest))) := by
          rw [hc1]; simp [List.append_assoc]
        have := get_mid A (t ++ [123, 118, 97, 114, 58]) (p ++ [125] ++ (printMP r ++ last ++ [34] ++ rest)) (i - A.length) hj
        rw [show A.length + (i - A.length) = i by omega, ← hc5, hx, List.getElem?_eq_getElem hj] at this
        have hmem := List.getElem_mem hj
        rw [← Option.some.inj this] at hmem
        simp only [List.mem_append] at hmem
        rcases hmem with h | h
        · exact h34tp.1 x h
        · simp at h; rcases h with h | h | h | h | h <;> subst h <;> decide
    have hsk : skipW c (A.length + t.length + 5) (· != 34) off = .ok (A.length + t.length + 5) := by
      have := skipW_run c (A.length + t.length + 5) (· != 34) (A.length + t.length + 5 - off) off
        (by
          intro i hi
          have hlt : off + i < c.length := by omega
          exact ⟨c[off + i], List.getElem?_eq_getElem hlt, by
            have := hno1 (off + i) (by omega) (by omega) _ (List.getElem?_eq_getElem hlt); simpa using this⟩)
        (by omega) (Or.inl (by omega))
      rw [this]; congr 1; omega
    have hih := ih (A ++ (t ++ ([123, 118, 97, 114, 58] ++ p ++ [125]))) (A.length + t.length + 5) f o2 m2 oF mF hc4
      hallr h34r (by rw [hl4]; omega)
      (by
        intro i h1 h2 x hx
        rw [hl4] at h2
        have hj : i - (A.length + t.length + 5) < (p ++ [125]).length := by simp; omega
        have hc6 : c = (A ++ t ++ [123, 118, 97, 114, 58]) ++ ((p ++ [125]) ++ (printMP r ++ last ++ [34] ++ rest)) := by
          rw [hc1]; simp [List.append_assoc]
        have := get_mid (A ++ t ++ [123, 118, 97, 114, 58]) (p ++ [125]) (printMP r ++ last ++ [34] ++ rest)
          (i - (A.length + t.length + 5)) hj
        rw [hl3, show A.length + t.length + 5 + (i - (A.length + t.length + 5)) = i by omega, ← hc6, hx,
          List.getElem?_eq_getElem hj] at this
        have hmem := List.getElem_mem hj
        rw [← Option.some.inj this] at hmem
        simp only [List.mem_append] at hmem
        rcases hmem with h | h
        · exact h34tp.2 x h
        · simp at h; subst h; decide)
      (by omega) (by rw [hl4]; exact hn2)
      (by rw [hl4, ← hfin, printMP_cons_len]; congr 1; omega) hmF
    rw [hl4] at hih
    have h1 : finderNext c (stAtC ch child stk acc (A.length + t.length + 5) 2) =
        .ok (stAtC ch child stk acc (A.length + t.length + 5 + p.length + 1) 1) :=
      finderNext_stAtC c ch child stk acc _ 2 _ _ (by rw [hrun2, hclose])
    have h2 : finderNext c (stAtC ch child stk acc (A.length + t.length + 5 + p.length + 1) 1) = .ok (stAtC ch child stk acc o2 m2) :=
      finderNext_stAtC c ch child stk acc _ 1 _ _ hn2
    have hm : (stAtC ch child stk acc (A.length + t.length + 5) 2 : PState R).mtch = 2 := rfl
    have hm1 : (stAtC ch child stk acc (A.length + t.length + 5 + p.length + 1) 1 : PState R).mtch = 1 := rfl
    have hoff2 : (stAtC ch child stk acc o2 m2 : PState R).off = o2 := rfl
    simp only [iifQuote, hm, ne_eq, show ¬ ((2 : Nat) = 0) by decide, not_false_eq_true, if_true, hsk, bind, Except.bind,
      Nat.lt_irrefl, if_false, h1, hm1, show W1.lineEndID = 1 by decide, h2, hoff2]
    rw [hih, printMP_cons_len]
    congr 2
    omega


/-- `{if case="` -/
def IIF1 : List Nat := [123, 105, 102, 32, 99, 97, 115, 101, 61, 34]

theorem printMP_len_ge : ∀ (parts : List (List Nat × List Nat)), parts.length ≤ (printMP parts).length := by
  intro parts
  induction parts with
  | nil => simp
  | cons tp r ih => obtain ⟨t, p⟩ := tp; simp [printMP] at ih ⊢; omega

/-- `stepIif` on a printed `{if case="e"…`: the inline-if frame -/
theorem stepIif_print (cfg : ScanCfg R) (c : List Nat) (hn : c.length + 16 < 4294967296) (ch : List LoopRef)
    (stk : List (Frame R)) (acc : List (Tag R)) (pre rest last : List Nat) (parts : List (List Nat × List Nat))
    (hc : c = pre ++ (IIF1 ++ (printMP parts ++ last ++ [34] ++ rest)))
    (hl : plainL last) (hl34 : ∀ x ∈ last, x ≠ 34)
    (hall : ∀ tp ∈ parts, plainL tp.1 ∧ plainL tp.2) (h34 : ∀ tp ∈ parts, (∀ x ∈ tp.1, x ≠ 34) ∧ ∀ x ∈ tp.2, x ≠ 34)
    (oF mF : Nat) (hfin : next c (pre.length + 10 + (printMP parts ++ last).length + 1) = .ok (oF, mF)) (hmF : mF ≠ 0)
    (hto : (printMP parts ++ last).length + 11 < 65536)
    (cs : List (Item R))
    (hex : exprs cfg c ch (pre.length + 10) (pre.length + 10 + (printMP parts ++ last).length) = .ok cs) :
    stepIif cfg c (stAtC ch false stk acc (pre.length + 3) 6) =
      .ok (stAtC ch true (.iif acc cs { off := pre.length, trueOff := 11 + (printMP parts ++ last).length } :: stk) [] oF mF) := by
  have hc1 : c = (pre ++ [123, 105, 102]) ++ ([32, 99, 97, 115, 101, 61, 34] ++ (printMP parts ++ last ++ [34] ++ rest)) := by
    rw [hc]; simp [IIF1, List.append_assoc]
  have hl3 : (pre ++ [123, 105, 102]).length = pre.length + 3 := by simp
  have hp7 : plainL [32, 99, 97, 115, 101, 61, 34] := by
    intro x hx; simp at hx; rcases hx with h | h | h | h | h | h | h <;> subst h <;> (unfold plainU; decide)
  have hrun := next_run c _ _ _ hc1 hp7
  rw [hl3, show pre.length + 3 + [32, 99, 97, 115, 101, 61, 34].length = pre.length + 10 from rfl] at hrun
  have hle10 : pre.length + 10 ≤ c.length := by rw [hc]; simp [IIF1]
  obtain ⟨o1, m1, hn1, _, hge1, _, _⟩ := next_safe_total c (pre.length + 10) hle10
  have h1 : finderNext c (stAtC ch false stk acc (pre.length + 3) 6) = .ok (stAtC ch false stk acc o1 m1) :=
    finderNext_stAtC c ch false stk acc _ 6 _ _ (by rw [hrun, hn1])
  have g := fun i (hi : i < 10) => get_mid pre IIF1 (printMP parts ++ last ++ [34] ++ rest) i (by simpa [IIF1] using hi)
  have gi : ∀ i (hi : i < 10), c[pre.length + i]? = IIF1[i]? := by intro i hi; rw [hc]; exact g i hi
  have c3 : c[pre.length + 3]? = some 32 := gi 3 (by omega)
  have c4 : c[pre.length + 4]? = some 99 := gi 4 (by omega)
  have c5 : c[pre.length + 5]? = some 97 := gi 5 (by omega)
  have c6 : c[pre.length + 6]? = some 115 := gi 6 (by omega)
  have c7 : c[pre.length + 7]? = some 101 := gi 7 (by omega)
  have c8 : c[pre.length + 8]? = some 61 := gi 8 (by omega)
  have c9 : c[pre.length + 9]? = some 34 := gi 9 (by omega)
  have s1 : skipW c o1 (· == W1.spaceChar) (pre.length + 3) = .ok (pre.length + 4) := by
    apply skipW_run c o1 _ 1 (pre.length + 3)
    · intro i hi
      have : i = 0 := by omega
      subst this
      exact ⟨32, c3, by decide⟩
    · omega
    · right; exact ⟨99, c4, by decide⟩
  have s2 : andEqualAt (decide (pre.length + 4 < o1) && decide (o1 - (pre.length + 4) > W1.caseLength))
      c (pre.length + 4) W1.caseStr = .ok true := by
    have : (decide (pre.length + 4 < o1) && decide (o1 - (pre.length + 4) > W1.caseLength)) = true := by
      simp only [show W1.caseLength = 4 by decide, Bool.and_eq_true, decide_eq_true_eq]; omega
    simp only [andEqualAt, this, if_true]
    apply isEqualAt_true
    intro i hi
    have hi4 : i < 4 := by simpa [show W1.caseStr = [99, 97, 115, 101] by decide] using hi
    have : i = 0 ∨ i = 1 ∨ i = 2 ∨ i = 3 := by omega
    rcases this with h | h | h | h <;> subst h
    · rw [show pre.length + 4 + 0 = pre.length + 4 by omega, c4]; rfl
    · rw [show pre.length + 4 + 1 = pre.length + 5 by omega, c5]; rfl
    · rw [show pre.length + 4 + 2 = pre.length + 6 by omega, c6]; rfl
    · rw [show pre.length + 4 + 3 = pre.length + 7 by omega, c7]; rfl
  have s3 : skipW c o1 (· != W1.equalChar) (pre.length + 4 + W1.caseLength) = .ok (pre.length + 8) := by
    rw [show W1.caseLength = 4 by decide]
    exact skipW_run c o1 _ 0 (pre.length + 8) (by intro i hi; omega) (by omega) (Or.inr ⟨61, c8, by decide⟩)
  have s4 : doSkipW c o1 (· == W1.spaceChar) (pre.length + 8) = .ok (pre.length + 9) := by
    exact skipW_run c o1 _ 0 (pre.length + 9) (by intro i hi; omega) (by omega) (Or.inr ⟨34, c9, by decide⟩)
  have hcA : c = (pre ++ IIF1) ++ (printMP parts ++ last ++ [34] ++ rest) := by rw [hc]; simp [List.append_assoc]
  have hlA : (pre ++ IIF1).length = pre.length + 10 := by simp [IIF1]
  have hq := iifQuote_parts c hn ch false stk acc last rest hl hl34 parts (pre ++ IIF1) (pre.length + 10) (c.length + 2)
    o1 m1 oF mF hcA hall h34 (by rw [hlA]; exact Nat.le_refl _) (by intro i h1 h2; rw [hlA] at h2; omega)
    (by
      have := printMP_len_ge parts
      have : (printMP parts).length ≤ c.length := by rw [hcA]; simp; omega
      omega)
    (by rw [hlA]; exact hn1) (by rw [hlA]; exact hfin) hmF
  rw [hlA] at hq
  have hoff : (stAtC ch false stk acc (pre.length + 3) 6 : PState R).off = pre.length + 3 := rfl
  have hoff1 : (stAtC ch false stk acc o1 m1 : PState R).off = o1 := rfl
  have hmf : (stAtC ch false stk acc oF mF : PState R).mtch = mF := rfl
  have hchf : (stAtC ch false stk acc oF mF : PState R).loopChain = ch := rfl
  have h3 : W1.inLineIfPrefixLength = 3 := by decide
  have hto' : trunc bits_InLineIfTag_TrueOffset (pre.length + 10 + (printMP parts ++ last).length + 1 - pre.length) =
      11 + (printMP parts ++ last).length := by
    simp only [trunc, show bits_InLineIfTag_TrueOffset = 16 by decide]; omega
  simp only [stepIif, hoff, h1, bind, Except.bind, hoff1, s1, s2, if_true, s3, s4,
    show pre.length + 9 < o1 by omega, rd_some c (pre.length + 9) 34 c9, hq, hmf, ne_eq, hmF, not_false_eq_true, hchf,
    hex, h3, Nat.add_sub_cancel, hto']
  rfl


/-- ` true="` -/
def TRUEA : List Nat := [32, 116, 114, 117, 101, 61, 34]
/-- ` false="` -/
def FALSEA : List Nat := [32, 102, 97, 108, 115, 101, 61, 34]

/-- one iteration of the attribute scan on ` true="T"` -/
theorem iifAttrs_true (c A T rest : List Nat) (hc : c = A ++ (TRUEA ++ (T ++ ([34] ++ rest)))) (hT : ∀ x ∈ T, x ≠ 34)
    (endO to fuel : Nat) (tru0 : Bool) (f : IifFields) (he : A.length + 8 + T.length < endO) (hle : endO ≤ c.length) :
    iifAttrs c endO to (fuel + 1) A.length tru0 f =
      iifAttrs c endO to fuel (A.length + 8 + T.length) false
        { f with trueOff := trunc bits_InLineIfTag_TrueOffset (A.length + 7 - f.off),
                 trueLen := trunc bits_InLineIfTag_TrueLength T.length } := by
  have g := fun i (hi : i < 7) => get_mid A TRUEA (T ++ ([34] ++ rest)) i (by simpa [TRUEA] using hi)
  have gi : ∀ i (hi : i < 7), c[A.length + i]? = TRUEA[i]? := by intro i hi; rw [hc]; exact g i hi
  have c0 : c[A.length]? = some 32 := gi 0 (by omega)
  have c1 : c[A.length + 1]? = some 116 := gi 1 (by omega)
  have c2 : c[A.length + 2]? = some 114 := gi 2 (by omega)
  have c3 : c[A.length + 3]? = some 117 := gi 3 (by omega)
  have c4 : c[A.length + 4]? = some 101 := gi 4 (by omega)
  have c5 : c[A.length + 5]? = some 61 := gi 5 (by omega)
  have c6 : c[A.length + 6]? = some 34 := gi 6 (by omega)
  have hcT : c = (A ++ TRUEA) ++ (T ++ ([34] ++ rest)) := by rw [hc]; simp [List.append_assoc]
  have hlT : (A ++ TRUEA).length = A.length + 7 := by simp [TRUEA]
  have cq : c[A.length + 7 + T.length]? = some 34 := by
    have := get_after (A ++ TRUEA) T 34 rest
    rw [hlT] at this; rw [hcT]; exact this
  have s1 : skipW c endO (· == W1.spaceChar) A.length = .ok (A.length + 1) := by
    apply skipW_run c endO _ 1 A.length
    · intro i hi
      have : i = 0 := by omega
      subst this
      exact ⟨32, c0, by decide⟩
    · omega
    · right; exact ⟨116, c1, by decide⟩
  have s2 : andEqualAt (decide (endO - (A.length + 1) > W1.trueLength)) c (A.length + 1) W1.trueStr = .ok true := by
    have : decide (endO - (A.length + 1) > W1.trueLength) = true := by
      simp only [show W1.trueLength = 4 by decide, decide_eq_true_eq]; omega
    simp only [andEqualAt, this, if_true]
    apply isEqualAt_true
    intro i hi
    have hi4 : i < 4 := by simpa [show W1.trueStr = [116, 114, 117, 101] by decide] using hi
    have : i = 0 ∨ i = 1 ∨ i = 2 ∨ i = 3 := by omega
    rcases this with h | h | h | h <;> subst h
    · rw [show A.length + 1 + 0 = A.length + 1 by omega, c1]; rfl
    · rw [show A.length + 1 + 1 = A.length + 2 by omega, c2]; rfl
    · rw [show A.length + 1 + 2 = A.length + 3 by omega, c3]; rfl
    · rw [show A.length + 1 + 3 = A.length + 4 by omega, c4]; rfl
  have s3 : skipW c endO (· != W1.equalChar) (A.length + 1 + W1.trueLength) = .ok (A.length + 5) := by
    rw [show W1.trueLength = 4 by decide]
    exact skipW_run c endO _ 0 (A.length + 5) (by intro i hi; omega) (by omega) (Or.inr ⟨61, c5, by decide⟩)
  have s4 : doSkipW c endO (· == W1.spaceChar) (A.length + 5) = .ok (A.length + 6) := by
    exact skipW_run c endO _ 0 (A.length + 6) (by intro i hi; omega) (by omega) (Or.inr ⟨34, c6, by decide⟩)
  have s5 : skipW c endO (· != 34) (A.length + 6 + 1) = .ok (A.length + 7 + T.length) := by
    rw [show A.length + 6 + 1 = A.length + 7 by omega]
    apply skipW_run c endO _ T.length (A.length + 7)
    · intro i hi
      have := get_at (A ++ TRUEA) T ([34] ++ rest) i hi
      rw [hlT] at this
      refine ⟨T[i], by rw [hcT]; exact this, ?_⟩
      have := hT T[i] (List.getElem_mem hi)
      simpa using this
    · omega
    · right; exact ⟨34, cq, by decide⟩
  simp only [iifAttrs, s1, bind, Except.bind, show A.length + 1 < endO by omega, if_true, rd_some c (A.length + 1) 116 c1,
    show W1.trueChar = 116 by decide, s2, pure, Except.pure, s3, s4, show A.length + 6 < endO by omega,
    rd_some c (A.length + 6) 34 c6, s5, show A.length + 7 + T.length < endO by omega,
    show A.length + 7 + T.length + 1 < endO by omega]
  rw [show A.length + 7 + T.length + 1 = A.length + 8 + T.length by omega,
    show A.length + 7 + T.length - (A.length + 6 + 1) = T.length by omega,
    show A.length + 6 + 1 - f.off = A.length + 7 - f.off by omega]

/-- one iteration of the attribute scan on ` false="F"` -/
theorem iifAttrs_false (c A F rest : List Nat) (hc : c = A ++ (FALSEA ++ (F ++ ([34] ++ rest)))) (hF : ∀ x ∈ F, x ≠ 34)
    (endO to fuel : Nat) (f : IifFields) (he : A.length + 9 + F.length < endO) (hle : endO ≤ c.length) :
    iifAttrs c endO to (fuel + 1) A.length false f =
      iifAttrs c endO to fuel (A.length + 9 + F.length) false
        { f with falseOff := trunc bits_InLineIfTag_FalseOffset (A.length + 8 - f.off),
                 falseLen := trunc bits_InLineIfTag_FalseLength F.length } := by
  have g := fun i (hi : i < 8) => get_mid A FALSEA (F ++ ([34] ++ rest)) i (by simpa [FALSEA] using hi)
  have gi : ∀ i (hi : i < 8), c[A.length + i]? = FALSEA[i]? := by intro i hi; rw [hc]; exact g i hi
  have c0 : c[A.length]? = some 32 := gi 0 (by omega)
  have c1 : c[A.length + 1]? = some 102 := gi 1 (by omega)
  have c2 : c[A.length + 2]? = some 97 := gi 2 (by omega)
  have c3 : c[A.length + 3]? = some 108 := gi 3 (by omega)
  have c4 : c[A.length + 4]? = some 115 := gi 4 (by omega)
  have c5 : c[A.length + 5]? = some 101 := gi 5 (by omega)
  have c6 : c[A.length + 6]? = some 61 := gi 6 (by omega)
  have c7 : c[A.length + 7]? = some 34 := gi 7 (by omega)
  have hcF : c = (A ++ FALSEA) ++ (F ++ ([34] ++ rest)) := by rw [hc]; simp [List.append_assoc]
  have hlF : (A ++ FALSEA).length = A.length + 8 := by simp [FALSEA]
  have cq : c[A.length + 8 + F.length]? = some 34 := by
    have := get_after (A ++ FALSEA) F 34 rest
    rw [hlF] at this; rw [hcF]; exact this
  have s1 : skipW c endO (· == W1.spaceChar) A.length = .ok (A.length + 1) := by
    apply skipW_run c endO _ 1 A.length
    · intro i hi
      have : i = 0 := by omega
      subst this
      exact ⟨32, c0, by decide⟩
    · omega
    · right; exact ⟨102, c1, by decide⟩
  have s2 : andEqualAt (decide ((102 : Nat) = W1.falseChar) && decide (endO - (A.length + 1) > W1.falseLength)) c
      (A.length + 1) W1.falseStr = .ok true := by
    have : (decide ((102 : Nat) = W1.falseChar) && decide (endO - (A.length + 1) > W1.falseLength)) = true := by
      simp only [show W1.falseLength = 5 by decide, show W1.falseChar = 102 by decide, Bool.and_eq_true, decide_eq_true_eq]
      exact ⟨trivial, by omega⟩
    simp only [andEqualAt, this, if_true]
    apply isEqualAt_true
    intro i hi
    have hi5 : i < 5 := by simpa [show W1.falseStr = [102, 97, 108, 115, 101] by decide] using hi
    have : i = 0 ∨ i = 1 ∨ i = 2 ∨ i = 3 ∨ i = 4 := by omega
    rcases this with h | h | h | h | h <;> subst h
    · rw [show A.length + 1 + 0 = A.length + 1 by omega, c1]; rfl
    · rw [show A.length + 1 + 1 = A.length + 2 by omega, c2]; rfl
    · rw [show A.length + 1 + 2 = A.length + 3 by omega, c3]; rfl
    · rw [show A.length + 1 + 3 = A.length + 4 by omega, c4]; rfl
    · rw [show A.length + 1 + 4 = A.length + 5 by omega, c5]; rfl
  have s3 : skipW c endO (· != W1.equalChar) (A.length + 1 + W1.falseLength) = .ok (A.length + 6) := by
    rw [show W1.falseLength = 5 by decide]
    exact skipW_run c endO _ 0 (A.length + 6) (by intro i hi; omega) (by omega) (Or.inr ⟨61, c6, by decide⟩)
  have s4 : doSkipW c endO (· == W1.spaceChar) (A.length + 6) = .ok (A.length + 7) := by
    exact skipW_run c endO _ 0 (A.length + 7) (by intro i hi; omega) (by omega) (Or.inr ⟨34, c7, by decide⟩)
  have s5 : skipW c endO (· != 34) (A.length + 7 + 1) = .ok (A.length + 8 + F.length) := by
    rw [show A.length + 7 + 1 = A.length + 8 by omega]
    apply skipW_run c endO _ F.length (A.length + 8)
    · intro i hi
      have := get_at (A ++ FALSEA) F ([34] ++ rest) i hi
      rw [hlF] at this
      refine ⟨F[i], by rw [hcF]; exact this, ?_⟩
      have := hF F[i] (List.getElem_mem hi)
      simpa using this
    · omega
    · right; exact ⟨34, cq, by decide⟩
  simp only [iifAttrs, s1, bind, Except.bind, show A.length + 1 < endO by omega, if_true, rd_some c (A.length + 1) 102 c1,
    show W1.trueChar = 116 by decide, show ¬ ((102 : Nat) = 116) by decide, if_false, s2, pure, Except.pure, s3, s4,
    show A.length + 7 < endO by omega, rd_some c (A.length + 7) 34 c7, s5, show A.length + 8 + F.length < endO by omega,
    show A.length + 8 + F.length + 1 < endO by omega, Bool.false_eq_true]
  rw [show A.length + 8 + F.length + 1 = A.length + 9 + F.length by omega,
    show A.length + 8 + F.length - (A.length + 7 + 1) = F.length by omega,
    show A.length + 7 + 1 - f.off = A.length + 8 - f.off by omega]

/-- the attribute scan at the closing `}` -/
theorem iifAttrs_end (c : List Nat) (endO to fuel off0 : Nat) (tru0 : Bool) (f : IifFields)
    (h0 : c[off0]? = some 125) (he : off0 < endO) :
    iifAttrs c endO to (fuel + 1) off0 tru0 f = .ok { f := f } := by
  have s1 : skipW c endO (· == W1.spaceChar) off0 = .ok off0 := by
    exact skipW_run c endO _ 0 off0 (by intro i hi; omega) (by omega) (Or.inr ⟨125, h0, by decide⟩)
  simp only [iifAttrs, s1, bind, Except.bind, he, if_true, rd_some c off0 125 h0, show W1.trueChar = 116 by decide,
    show ¬ ((125 : Nat) = 116) by decide, if_false, show W1.falseChar = 102 by decide,
    show decide ((125 : Nat) = 102) = false by decide, Bool.false_and, andEqualAt, Bool.false_eq_true, pure, Except.pure]


/-- a sub tag of an inline-if value: a var / raw / math tag occupying `[s, e)`, its offset `o` -/
def SubIn (t : Tag R) (lo hi : Nat) : Prop :=
  ∃ s e o, subTagRange t = some (s, e) ∧ subTagOffset t = some o ∧ lo ≤ s ∧ s ≤ o ∧ o < e ∧ e ≤ hi

theorem tagsOfD_sub (cfg : ScanCfg R) (c : List Nat) (D : List LoopD) : ∀ (segs : List Seg) (p : Nat),
    (∀ s ∈ segs, s.ok) → ∀ t ∈ tagsOfD cfg c D p segs, SubIn t p (p + (printSegs segs).length) := by
  intro segs
  induction segs with
  | nil => intro p _ t ht; simp [tagsOfD] at ht
  | cons sg rest ih =>
    intro p hok t ht
    have hokr : ∀ s ∈ rest, s.ok := fun s hs => hok s (List.mem_cons_of_mem _ hs)
    have hsg := hok sg (List.mem_cons_self ..)
    have widen : ∀ k, SubIn t (p + k) (p + k + (printSegs rest).length) → k = (printSeg sg).length →
        SubIn t p (p + (printSegs (sg :: rest)).length) := by
      intro k ⟨s, e, o, h1, h2, h3, h4, h5, h6⟩ hk
      refine ⟨s, e, o, h1, h2, by omega, h4, h5, ?_⟩
      simp only [printSegs, List.length_append]; omega
    cases sg with
    | text s =>
      simp only [tagsOfD] at ht
      exact widen s.length (ih _ hokr t ht) (by simp [printSeg])
    | var pa =>
      simp only [tagsOfD, List.mem_cons] at ht
      rcases ht with h | h
      · subst h
        refine ⟨p, p + 5 + pa.length + 1, p + 5, ?_, ?_, Nat.le_refl _, by omega, by omega, ?_⟩
        · simp [subTagRange, refD_off, refD_len, show W1.variablePrefixLength = 5 by decide, show W1.inLineSuffixLength = 1 by decide]
        · simp [subTagOffset, refD_off]
        · simp [printSegs, printSeg]; omega
      · have := ih (p + 5 + pa.length + 1) hokr t h
        exact widen (5 + pa.length + 1) (by rw [show p + (5 + pa.length + 1) = p + 5 + pa.length + 1 by omega]; exact this)
          (by simp [printSeg]; omega)
    | raw pa =>
      simp only [tagsOfD, List.mem_cons] at ht
      rcases ht with h | h
      · subst h
        refine ⟨p, p + 5 + pa.length + 1, p + 5, ?_, ?_, Nat.le_refl _, by omega, by omega, ?_⟩
        · simp [subTagRange, refD_off, refD_len, show W1.variablePrefixLength = 5 by decide, show W1.inLineSuffixLength = 1 by decide]
        · simp [subTagOffset, refD_off]
        · simp [printSegs, printSeg]; omega
      · have := ih (p + 5 + pa.length + 1) hokr t h
        exact widen (5 + pa.length + 1) (by rw [show p + (5 + pa.length + 1) = p + 5 + pa.length + 1 by omega]; exact this)
          (by simp [printSeg]; omega)
    | math e =>
      simp only [tagsOfD, List.mem_cons] at ht
      rcases ht with h | h
      · subst h
        refine ⟨p, p + 6 + e.length + 1, p, ?_, ?_, Nat.le_refl _, Nat.le_refl _, by omega, ?_⟩
        · simp [subTagRange]
        · simp [subTagOffset]
        · simp [printSegs, printSeg]; omega
      · have := ih (p + 6 + e.length + 1) hokr t h
        exact widen (6 + e.length + 1) (by rw [show p + (6 + e.length + 1) = p + 6 + e.length + 1 by omega]; exact this)
          (by simp [printSeg]; omega)

/-- the "Set StartID" scan: tags before `first`, then tags at or after it -/
theorem startIdScan_split (first : Nat) : ∀ (a b : List (Tag R)) (i : Nat),
    (∀ t ∈ a, ∃ o, subTagOffset t = some o ∧ o < first) → (∀ t ∈ b, ∃ o, subTagOffset t = some o ∧ first ≤ o) →
    startIdScan first (a ++ b) i = (i + a.length, false) := by
  intro a
  induction a with
  | nil =>
    intro b i _ hb
    cases b with
    | nil => simp [startIdScan]
    | cons t r =>
      obtain ⟨o, h1, h2⟩ := hb t (List.mem_cons_self ..)
      simp [startIdScan, h1, h2]
  | cons t r ih =>
    intro b i ha hb
    obtain ⟨o, h1, h2⟩ := ha t (List.mem_cons_self ..)
    simp only [List.cons_append, startIdScan, h1, show ¬ (o ≥ first) by omega, if_false]
    rw [ih b (i + 1) (fun x hx => ha x (List.mem_cons_of_mem _ hx)) hb]
    simp; omega

/-- every sub tag lies inside the value it is rendered with -/
theorem allRole_of (f : IifFields) (id : Nat) : ∀ (l : List (Tag R)) (i : Nat),
    (∀ (k : Nat) (t : Tag R), l[k]? = some t → insideRole f id (i + k) t = true) → allRole f id i l = true := by
  intro l
  induction l with
  | nil => intro i _; rfl
  | cons t r ih =>
    intro i h
    simp only [allRole, Bool.and_eq_true]
    refine ⟨by simpa using h 0 t (by simp), ih (i + 1) (fun k t' hk => ?_)⟩
    have := h (k + 1) t' (by simpa using hk)
    rw [show i + (k + 1) = i + 1 + k by omega] at this
    exact this


/-- the record `closeIif` stores: the start id goes to the value that comes second -/
def iifFinal (f2 : IifFields) (id : Nat) : IifFields :=
  if f2.trueOff < f2.falseOff then { f2 with falseStart := trunc bits_InLineIfTag_FalseTagsStartID id }
  else { f2 with trueStart := trunc bits_InLineIfTag_TrueTagsStartID id }

/-- `case LineEndID` on the closing `}` of an inline-if whose attribute scan gives `f2` -/
theorem closeIif_gen (c : List Nat) (ch : List LoopRef) (pre sub : List (Tag R)) (cs : List (Item R)) (f0 f2 : IifFields)
    (rest : List (Frame R)) (endO m : Nat)
    (hstart : f0.off + f0.trueOff < endO)
    (hattr : iifAttrs c endO f0.trueOff (endO + 2) (f0.off + f0.trueOff) false
      { f0 with trueOff := 0, len := trunc bits_InLineIfTag_Length (endO - f0.off) } = .ok { f := f2 })
    (hnz : f2.trueOff ≠ 0 ∨ f2.falseOff ≠ 0) (hne : f2.trueOff ≠ f2.falseOff) (id : Nat)
    (hscan : startIdScan ((if f2.trueOff < f2.falseOff then f2.falseOff else f2.trueOff) + f2.off) sub 0 = (id, false))
    (hrole : allRole f2 id 0 sub = true) :
    closeIif c (stAtC ch true (.iif pre cs f0 :: rest) sub endO m) pre cs f0 rest =
      .ok (stAtC ch false rest (pre ++ [.iif cs sub (iifFinal f2 id)]) endO m) := by
  have hoff : (stAtC ch true (.iif pre cs f0 :: rest) sub endO m : PState R).off = endO := rfl
  have hsto : (stAtC ch true (.iif pre cs f0 :: rest) sub endO m : PState R).storage = sub := rfl
  simp only [closeIif, hoff, hsto, hstart, if_true, hattr, bind, Except.bind, hnz, hscan, Bool.not_false, Bool.true_and,
    hne, ne_eq, not_false_eq_true, decide_true, hrole, Bool.and_self, Bool.not_true, Bool.false_eq_true, if_false,
    iifFinal]
  by_cases h : f2.trueOff < f2.falseOff <;> simp [h, stAtC]

/-- the main loop's step on that `}` -/
theorem stepLineEnd_iif (c : List Nat) (ch : List LoopRef) (pre sub : List (Tag R)) (cs : List (Item R)) (f0 : IifFields)
    (rest : List (Frame R)) (endO : Nat) (st' : PState R)
    (hclose : closeIif c (stAtC ch true (.iif pre cs f0 :: rest) sub endO 1) pre cs f0 rest = .ok st') :
    stepLineEnd c (stAtC ch true (.iif pre cs f0 :: rest) sub endO 1) = finderNext c st' := by
  simp only [stepLineEnd, stAtC, bind, Except.bind]
  simp only [stAtC] at hclose
  rw [hclose]


theorem insideRole_true (f : IifFields) (id i : Nat) (t : Tag R)
    (h : SubIn t (f.off + f.trueOff) (f.off + f.trueOff + f.trueLen))
    (hin : (decide (i < id) == decide (f.trueOff < f.falseOff)) = true) : insideRole f id i t = true := by
  obtain ⟨s, e, o, h1, _, h3, h4, h5, h6⟩ := h
  simp only [insideRole, h1, hin, if_true, Bool.and_eq_true, decide_eq_true_eq]
  exact ⟨by omega, by omega, by omega⟩

theorem insideRole_false (f : IifFields) (id i : Nat) (t : Tag R)
    (h : SubIn t (f.off + f.falseOff) (f.off + f.falseOff + f.falseLen))
    (hin : (decide (i < id) == decide (f.trueOff < f.falseOff)) = false) : insideRole f id i t = true := by
  obtain ⟨s, e, o, h1, _, h3, h4, h5, h6⟩ := h
  simp only [insideRole, h1, hin, Bool.false_eq_true, if_false, Bool.and_eq_true, decide_eq_true_eq]
  exact ⟨by omega, by omega, by omega⟩

/-- what `closeIif` needs to know about the sub tags of the two values -/
theorem iif_facts (f2 : IifFields) (tagsT tagsF : List (Tag R))
    (hT : ∀ t ∈ tagsT, SubIn t (f2.off + f2.trueOff) (f2.off + f2.trueOff + f2.trueLen))
    (hF : ∀ t ∈ tagsF, SubIn t (f2.off + f2.falseOff) (f2.off + f2.falseOff + f2.falseLen))
    (hcase : (f2.trueOff ≠ 0 ∧ f2.trueOff + f2.trueLen < f2.falseOff) ∨ (f2.falseOff = 0 ∧ f2.trueOff ≠ 0 ∧ tagsF = []) ∨
      (f2.trueOff = 0 ∧ f2.falseOff ≠ 0 ∧ tagsT = [])) :
    (f2.trueOff ≠ 0 ∨ f2.falseOff ≠ 0) ∧ f2.trueOff ≠ f2.falseOff ∧
    ∃ id, id ≤ tagsT.length ∧
      startIdScan ((if f2.trueOff < f2.falseOff then f2.falseOff else f2.trueOff) + f2.off) (tagsT ++ tagsF) 0 = (id, false) ∧
      allRole f2 id 0 (tagsT ++ tagsF) = true ∧
      (f2.trueOff < f2.falseOff → id = tagsT.length) ∧ (¬ f2.trueOff < f2.falseOff → id = 0) := by
  have hoT : ∀ t ∈ tagsT, ∃ o, subTagOffset t = some o ∧ f2.off + f2.trueOff ≤ o ∧ o < f2.off + f2.trueOff + f2.trueLen := by
    intro t ht; obtain ⟨s, e, o, _, h2, h3, h4, h5, h6⟩ := hT t ht; exact ⟨o, h2, by omega, by omega⟩
  have hoF : ∀ t ∈ tagsF, ∃ o, subTagOffset t = some o ∧ f2.off + f2.falseOff ≤ o := by
    intro t ht; obtain ⟨s, e, o, _, h2, h3, h4, h5, h6⟩ := hF t ht; exact ⟨o, h2, by omega⟩
  rcases hcase with ⟨h1, h2⟩ | ⟨h1, h2, h3⟩ | ⟨h1, h2, h3⟩
  · -- both values: true first
    have hlt : f2.trueOff < f2.falseOff := by omega
    refine ⟨Or.inl h1, by omega, tagsT.length, Nat.le_refl _, ?_, ?_, fun _ => rfl, fun h => absurd hlt h⟩
    · simp only [hlt, if_true]
      have := startIdScan_split (f2.falseOff + f2.off) tagsT tagsF 0
        (fun t ht => by obtain ⟨o, ho, _, ho2⟩ := hoT t ht; exact ⟨o, ho, by omega⟩)
        (fun t ht => by obtain ⟨o, ho, ho2⟩ := hoF t ht; exact ⟨o, ho, by omega⟩)
      simpa using this
    · apply allRole_of
      intro k t hk
      simp only [Nat.zero_add]
      by_cases hkl : k < tagsT.length
      · rw [List.getElem?_append_left hkl] at hk
        exact insideRole_true f2 _ k t (hT t (List.mem_of_getElem? hk)) (by simp [hkl, hlt])
      · rw [List.getElem?_append_right (by omega)] at hk
        exact insideRole_false f2 _ k t (hF t (List.mem_of_getElem? hk)) (by simp [hkl, hlt])
  · -- only `true`
    subst h3
    have hnlt : ¬ f2.trueOff < f2.falseOff := by omega
    refine ⟨Or.inl h2, by omega, 0, Nat.zero_le _, ?_, ?_, fun h => absurd h hnlt, fun _ => rfl⟩
    · simp only [hnlt, if_false, List.append_nil]
      have := startIdScan_split (f2.trueOff + f2.off) [] tagsT 0 (by intro t ht; cases ht)
        (fun t ht => by obtain ⟨o, ho, ho2, _⟩ := hoT t ht; exact ⟨o, ho, by omega⟩)
      simpa using this
    · apply allRole_of
      intro k t hk
      simp only [List.append_nil] at hk
      exact insideRole_true f2 _ _ t (hT t (List.mem_of_getElem? hk)) (by simp [hnlt])
  · -- only `false`
    subst h3
    have hlt : f2.trueOff < f2.falseOff := by omega
    refine ⟨Or.inr h2, by omega, 0, Nat.zero_le _, ?_, ?_, fun _ => rfl, fun _ => rfl⟩
    · simp only [hlt, if_true, List.nil_append]
      have := startIdScan_split (f2.falseOff + f2.off) [] tagsF 0 (by intro t ht; cases ht)
        (fun t ht => by obtain ⟨o, ho, ho2⟩ := hoF t ht; exact ⟨o, ho, by omega⟩)
      simpa using this
    · apply allRole_of
      intro k t hk
      simp only [List.nil_append] at hk
      exact insideRole_false f2 _ _ t (hF t (List.mem_of_getElem? hk)) (by simp [hlt])


/-- the printed attributes of an inline-if -/
def attrText (ts fs : Option (List Seg)) : List Nat :=
  (match ts with | some l => TRUEA ++ (printSegs l ++ [34]) | none => []) ++
  (match fs with | some l => FALSEA ++ (printSegs l ++ [34]) | none => [])

/-- the same as a run of segments (the attribute names and quotes are text) -/
def attrSegs (ts fs : Option (List Seg)) : List Seg :=
  (match ts with | some l => .text TRUEA :: (l ++ [.text [34]]) | none => []) ++
  (match fs with | some l => .text FALSEA :: (l ++ [.text [34]]) | none => [])

theorem printSegs_append : ∀ (a b : List Seg), printSegs (a ++ b) = printSegs a ++ printSegs b := by
  intro a
  induction a with
  | nil => intro b; simp [printSegs]
  | cons s r ih => intro b; simp [printSegs, ih, List.append_assoc]

theorem printSegs_attrSegs (ts fs : Option (List Seg)) : printSegs (attrSegs ts fs) = attrText ts fs := by
  cases ts <;> cases fs <;> simp [attrSegs, attrText, printSegs, printSeg, printSegs_append, List.append_assoc]

/-- units of the `true` attribute -/
def tLen (ts : Option (List Seg)) : Nat := match ts with | some l => 8 + (printSegs l).length | none => 0
def fLen (fs : Option (List Seg)) : Nat := match fs with | some l => 9 + (printSegs l).length | none => 0

theorem attrText_len (ts fs : Option (List Seg)) : (attrText ts fs).length = tLen ts + fLen fs := by
  cases ts <;> cases fs <;> simp [attrText, tLen, fLen, TRUEA, FALSEA] <;> omega

/-- the fields the attribute scan sets (`start` = offset after the case's closing quote) -/
def attrFields (p start : Nat) (ts fs : Option (List Seg)) (f1 : IifFields) : IifFields :=
  let fT : IifFields := match ts with
    | some l => { f1 with trueOff := start + 7 - p, trueLen := (printSegs l).length }
    | none => f1
  match fs with
  | some l => { fT with falseOff := start + tLen ts + 8 - p, falseLen := (printSegs l).length }
  | none => fT

/-- the attribute scan on the printed attributes -/
theorem iifAttrs_chain (c A rest : List Nat) (ts fs : Option (List Seg))
    (hc : c = A ++ (attrText ts fs ++ ([125] ++ rest)))
    (hT : ∀ l, ts = some l → ∀ x ∈ printSegs l, x ≠ 34) (hF : ∀ l, fs = some l → ∀ x ∈ printSegs l, x ≠ 34)
    (p to : Nat) (f1 : IifFields) (hp : f1.off = p) (hpA : p ≤ A.length)
    (hsz : A.length + (attrText ts fs).length + 1 - p < 65536) :
    iifAttrs c (A.length + (attrText ts fs).length + 1) to (A.length + (attrText ts fs).length + 1 + 2) A.length false f1 =
      .ok { f := attrFields p A.length ts fs f1 } := by
  have hlen := attrText_len ts fs
  have t16 : ∀ n, n < 65536 → trunc bits_InLineIfTag_TrueOffset n = n ∧ trunc bits_InLineIfTag_TrueLength n = n ∧
      trunc bits_InLineIfTag_FalseOffset n = n ∧ trunc bits_InLineIfTag_FalseLength n = n := by
    intro n hn
    simp only [trunc, show bits_InLineIfTag_TrueOffset = 16 by decide, show bits_InLineIfTag_TrueLength = 16 by decide,
      show bits_InLineIfTag_FalseOffset = 16 by decide, show bits_InLineIfTag_FalseLength = 16 by decide]
    have : n % 2 ^ 16 = n := Nat.mod_eq_of_lt (by omega)
    exact ⟨this, this, this, this⟩
  cases ts with
  | none =>
    cases fs with
    | none =>
      simp only [attrText, List.append_nil, List.nil_append, List.length_nil, Nat.add_zero] at hc ⊢
      have h0 : c[A.length]? = some 125 := by rw [hc]; simp
      rw [show A.length + 1 + 2 = (A.length + 2) + 1 by omega]
      rw [iifAttrs_end c _ _ _ _ _ _ h0 (by omega)]
      simp [attrFields]
    | some lf =>
      simp only [attrText, List.nil_append] at hc hsz ⊢
      have hF' := hF lf rfl
      have hl : (FALSEA ++ (printSegs lf ++ [34])).length = 9 + (printSegs lf).length := by simp [FALSEA]; omega
      rw [hl] at hsz ⊢
      have hc1 : c = A ++ (FALSEA ++ (printSegs lf ++ ([34] ++ ([125] ++ rest)))) := by rw [hc]; simp [List.append_assoc]
      rw [show A.length + (9 + (printSegs lf).length) + 1 + 2 = (A.length + (9 + (printSegs lf).length) + 2) + 1 by omega]
      have hcl : A.length + (9 + (printSegs lf).length) + 1 ≤ c.length := by rw [hc1]; simp [FALSEA]; omega
      rw [iifAttrs_false c A (printSegs lf) ([125] ++ rest) hc1 hF' _ _ _ _ (by omega) hcl]
      have h0 : c[A.length + 9 + (printSegs lf).length]? = some 125 := by
        have := get_after (A ++ FALSEA ++ printSegs lf ++ [34]) [] 125 rest
        have hlx : (A ++ FALSEA ++ printSegs lf ++ [34]).length + ([] : List Nat).length = A.length + 9 + (printSegs lf).length := by
          simp [FALSEA]; omega
        rw [hlx] at this
        rw [hc1, ← this]; simp [List.append_assoc]
      rw [show A.length + (9 + (printSegs lf).length) + 2 = (A.length + (9 + (printSegs lf).length) + 1) + 1 by omega]
      rw [iifAttrs_end c _ _ _ _ _ _ h0 (by omega)]
      simp only [attrFields, tLen, hp, Nat.add_zero]
      rw [(t16 (A.length + 8 - p) (by omega)).2.2.1, (t16 (printSegs lf).length (by omega)).2.2.2]
  | some lt =>
    have hT' := hT lt rfl
    cases fs with
    | none =>
      simp only [attrText, List.append_nil] at hc hsz ⊢
      have hl : (TRUEA ++ (printSegs lt ++ [34])).length = 8 + (printSegs lt).length := by simp [TRUEA]; omega
      rw [hl] at hsz ⊢
      have hc1 : c = A ++ (TRUEA ++ (printSegs lt ++ ([34] ++ ([125] ++ rest)))) := by rw [hc]; simp [List.append_assoc]
      rw [show A.length + (8 + (printSegs lt).length) + 1 + 2 = (A.length + (8 + (printSegs lt).length) + 2) + 1 by omega]
      have hcl : A.length + (8 + (printSegs lt).length) + 1 ≤ c.length := by rw [hc1]; simp [TRUEA]; omega
      rw [iifAttrs_true c A (printSegs lt) ([125] ++ rest) hc1 hT' _ _ _ _ _ (by omega) hcl]
      have h0 : c[A.length + 8 + (printSegs lt).length]? = some 125 := by
        have := get_after (A ++ TRUEA ++ printSegs lt ++ [34]) [] 125 rest
        have hlx : (A ++ TRUEA ++ printSegs lt ++ [34]).length + ([] : List Nat).length = A.length + 8 + (printSegs lt).length := by
          simp [TRUEA]; omega
        rw [hlx] at this
        rw [hc1, ← this]; simp [List.append_assoc]
      rw [show A.length + (8 + (printSegs lt).length) + 2 = (A.length + (8 + (printSegs lt).length) + 1) + 1 by omega]
      rw [iifAttrs_end c _ _ _ _ _ _ h0 (by omega)]
      simp only [attrFields, hp]
      rw [(t16 (A.length + 7 - p) (by omega)).1, (t16 (printSegs lt).length (by omega)).2.1]
    | some lf =>
      have hF' := hF lf rfl
      simp only [attrText] at hc hsz ⊢
      have hl : (TRUEA ++ (printSegs lt ++ [34]) ++ (FALSEA ++ (printSegs lf ++ [34]))).length =
          8 + (printSegs lt).length + (9 + (printSegs lf).length) := by simp [TRUEA, FALSEA]; omega
      rw [hl] at hsz ⊢
      have hcl : A.length + (8 + (printSegs lt).length + (9 + (printSegs lf).length)) + 1 ≤ c.length := by
        rw [hc]; simp [TRUEA, FALSEA]; omega
      have hc1 : c = A ++ (TRUEA ++ (printSegs lt ++ ([34] ++ (FALSEA ++ (printSegs lf ++ [34]) ++ ([125] ++ rest))))) := by
        rw [hc]; simp [List.append_assoc]
      rw [show A.length + (8 + (printSegs lt).length + (9 + (printSegs lf).length)) + 1 + 2 =
        (A.length + (8 + (printSegs lt).length + (9 + (printSegs lf).length)) + 2) + 1 by omega]
      rw [iifAttrs_true c A (printSegs lt) _ hc1 hT' _ _ _ _ _ (by omega) hcl]
      have hc2 : c = (A ++ TRUEA ++ printSegs lt ++ [34]) ++ (FALSEA ++ (printSegs lf ++ ([34] ++ ([125] ++ rest)))) := by
        rw [hc]; simp [List.append_assoc]
      have hl2 : (A ++ TRUEA ++ printSegs lt ++ [34]).length = A.length + 8 + (printSegs lt).length := by
        simp [TRUEA]; omega
      rw [show A.length + (8 + (printSegs lt).length + (9 + (printSegs lf).length)) + 2 =
        (A.length + (8 + (printSegs lt).length + (9 + (printSegs lf).length)) + 1) + 1 by omega, ← hl2]
      rw [iifAttrs_false c _ (printSegs lf) ([125] ++ rest) hc2 hF' _ _ _ _ (by rw [hl2]; omega) hcl]
      have h0 : c[(A ++ TRUEA ++ printSegs lt ++ [34]).length + 9 + (printSegs lf).length]? = some 125 := by
        have := get_after (A ++ TRUEA ++ printSegs lt ++ [34] ++ FALSEA ++ printSegs lf ++ [34]) [] 125 rest
        have hlx : (A ++ TRUEA ++ printSegs lt ++ [34] ++ FALSEA ++ printSegs lf ++ [34]).length + ([] : List Nat).length =
            (A ++ TRUEA ++ printSegs lt ++ [34]).length + 9 + (printSegs lf).length := by
          simp [TRUEA, FALSEA]; omega
        rw [hlx] at this
        rw [hc2, ← this]; simp [List.append_assoc]
      rw [show A.length + (8 + (printSegs lt).length + (9 + (printSegs lf).length)) + 1 =
        (A.length + (8 + (printSegs lt).length + (9 + (printSegs lf).length))) + 1 by omega]
      rw [iifAttrs_end c _ _ _ _ _ _ h0 (by rw [hl2]; omega)]
      simp only [attrFields, tLen, hp, hl2]
      rw [(t16 (A.length + 7 - p) (by omega)).1, (t16 (printSegs lt).length (by omega)).2.1,
        (t16 (A.length + 8 + (printSegs lt).length + 8 - p) (by omega)).2.2.1, (t16 (printSegs lf).length (by omega)).2.2.2]
      rw [show A.length + 8 + (printSegs lt).length + 8 - p = A.length + (8 + (printSegs lt).length) + 8 - p by omega]


theorem tagsOfD_append (cfg : ScanCfg R) (c : List Nat) (D : List LoopD) : ∀ (a b : List Seg) (p : Nat),
    tagsOfD cfg c D p (a ++ b) = tagsOfD cfg c D p a ++ tagsOfD cfg c D (p + (printSegs a).length) b := by
  intro a
  induction a with
  | nil => intro b p; simp [tagsOfD, printSegs]
  | cons s r ih =>
    intro b p
    cases s with
    | text t => simp only [List.cons_append, tagsOfD, ih, printSegs, printSeg, List.length_append]; congr 2; omega
    | var pa => simp only [List.cons_append, tagsOfD, ih, printSegs, printSeg, List.length_append, List.cons_append]; congr 3; simp; omega
    | raw pa => simp only [List.cons_append, tagsOfD, ih, printSegs, printSeg, List.length_append, List.cons_append]; congr 3; simp; omega
    | math e => simp only [List.cons_append, tagsOfD, ih, printSegs, printSeg, List.length_append, List.cons_append]; congr 3; simp; omega

/-- the sub tags of the `true` / `false` values -/
def tagsVal (cfg : ScanCfg R) (c : List Nat) (D : List LoopD) (p : Nat) (v : Option (List Seg)) : List (Tag R) :=
  match v with
  | some l => tagsOfD cfg c D p l
  | none => []

theorem tagsOfD_attrSegs (cfg : ScanCfg R) (c : List Nat) (D : List LoopD) (start : Nat) (ts fs : Option (List Seg)) :
    tagsOfD cfg c D start (attrSegs ts fs) =
      tagsVal cfg c D (start + 7) ts ++ tagsVal cfg c D (start + tLen ts + 8) fs := by
  cases ts <;> cases fs <;>
    simp [attrSegs, tagsVal, tagsOfD, tagsOfD_append, tLen, printSegs, printSeg, TRUEA, FALSEA, printSegs_append,
      Nat.add_assoc] <;> (congr 1; omega)

theorem nTags_append : ∀ (a b : List Seg), nTags (a ++ b) = nTags a + nTags b := by
  intro a
  induction a with
  | nil => intro b; simp [nTags]
  | cons s r ih => intro b; cases s <;> simp [nTags, ih] <;> omega

def nTagsVal (v : Option (List Seg)) : Nat := match v with | some l => nTags l | none => 0

theorem nTags_attrSegs (ts fs : Option (List Seg)) : nTags (attrSegs ts fs) = nTagsVal ts + nTagsVal fs := by
  cases ts <;> cases fs <;> simp [attrSegs, nTagsVal, nTags, nTags_append]


/-- the printed inline-if -/
def printIif (e : List Nat) (ts fs : Option (List Seg)) : List Nat :=
  IIF1 ++ (e ++ ([34] ++ (attrText ts fs ++ [125])))

theorem printIif_len (e : List Nat) (ts fs : Option (List Seg)) :
    (printIif e ts fs).length = 12 + e.length + tLen ts + fLen fs := by
  simp [printIif, IIF1, attrText_len]; omega

/-- side conditions on a value of an inline-if: covered segments free of `"` -/
def ValOk (v : Option (List Seg)) : Prop := ∀ l, v = some l → (∀ s ∈ l, s.ok) ∧ ∀ x ∈ printSegs l, x ≠ 34

/-- the record of the printed inline-if before the start id is set -/
def iifF2 (p : Nat) (e : List Nat) (ts fs : Option (List Seg)) : IifFields :=
  attrFields p (p + 11 + e.length) ts fs { off := p, trueOff := 0, len := 12 + e.length + tLen ts + fLen fs }

/-- the start id: the number of sub tags of the `true` value when both values are present -/
def iifId (cfg : ScanCfg R) (c : List Nat) (D : List LoopD) (p : Nat) (e : List Nat) (ts fs : Option (List Seg)) : Nat :=
  if (iifF2 p e ts fs).trueOff < (iifF2 p e ts fs).falseOff then (tagsVal cfg c D (p + 11 + e.length + 7) ts : List (Tag R)).length else 0

/-- the tag `parse` stores for the printed inline-if at `p` -/
def iifTag (cfg : ScanCfg R) (c : List Nat) (D : List LoopD) (p : Nat) (e : List Nat) (ts fs : Option (List Seg)) : Tag R :=
  .iif (itemsAtC cfg c (refsD D) (p + 10) (p + 10 + e.length))
    (tagsVal cfg c D (p + 11 + e.length + 7) ts ++ tagsVal cfg c D (p + 11 + e.length + tLen ts + 8) fs)
    (iifFinal (iifF2 p e ts fs) (iifId cfg c D p e ts fs))

theorem attrFields_off (p start : Nat) (ts fs : Option (List Seg)) (f1 : IifFields) :
    (attrFields p start ts fs f1).off = f1.off := by
  cases ts <;> cases fs <;> rfl

theorem tagsVal_sub (cfg : ScanCfg R) (c : List Nat) (D : List LoopD) (p : Nat) (v : Option (List Seg)) (hv : ValOk v) :
    ∀ t ∈ (tagsVal cfg c D p v : List (Tag R)), SubIn t p (p + (match v with | some l => (printSegs l).length | none => 0)) := by
  cases v with
  | none => intro t ht; simp [tagsVal] at ht
  | some l => intro t ht; exact tagsOfD_sub cfg c D l p (hv l rfl).1 t ht

theorem SubIn.cast {t : Tag R} {a b a' b' : Nat} (h : SubIn t a b) (ha : a = a') (hb : b = b') : SubIn t a' b' :=
  ha ▸ hb ▸ h

theorem mem_printMP : ∀ (parts : List (List Nat × List Nat)) (tp : List Nat × List Nat), tp ∈ parts →
    (∀ x ∈ tp.1, x ∈ printMP parts) ∧ (∀ x ∈ tp.2, x ∈ printMP parts) := by
  intro parts
  induction parts with
  | nil => intro tp h; cases h
  | cons a r ih =>
    obtain ⟨t, p⟩ := a
    intro tp htp
    rcases List.mem_cons.mp htp with h | h
    · subst h
      exact ⟨fun x hx => by simp [printMP, hx], fun x hx => by simp [printMP, hx]⟩
    · obtain ⟨h1, h2⟩ := ih tp h
      exact ⟨fun x hx => by simp only [printMP, List.mem_append]; exact Or.inr (h1 x hx),
        fun x hx => by simp only [printMP, List.mem_append]; exact Or.inr (h2 x hx)⟩

/-- a printed inline-if: the main loop from its `{if` to the unit after its `}` -/
theorem parse_iif (cfg : ScanCfg R) (c : List Nat) (hn : c.length + 16 < 4294967296) (D : List LoopD) (hD : ChainD c D)
    (stk : List (Frame R)) (e : List Nat) (ts fs : Option (List Seg)) (pre post : List Nat) (acc : List (Tag R))
    (fuel o m o' m' : Nat)
    (hc : c = pre ++ (printIif e ts fs ++ post)) (he : MathOk e) (he34 : ∀ x ∈ e, x ≠ 34)
    (hts : ValOk ts) (hfs : ValOk fs) (hone : ts ≠ none ∨ fs ≠ none) (hsz : (printIif e ts fs).length < 65536)
    (hnext : next c pre.length = .ok (o, m))
    (hfin : next c (pre.length + (printIif e ts fs).length) = .ok (o', m')) :
    parseMain cfg c (fuel + (2 + nTagsVal ts + nTagsVal fs)) (stAtC (refsD D) false stk acc o m) =
      parseMain cfg c fuel (stAtC (refsD D) false stk (acc ++ [iifTag cfg c D pre.length e ts fs]) o' m') := by
  obtain ⟨parts, last, rfl, hl, hall⟩ := he
  have hlen := printIif_len (printMP parts ++ last) ts fs
  have hatl := attrText_len ts fs
  -- no quote in the case text
  have hl34 : ∀ x ∈ last, x ≠ 34 := fun x hx => he34 x (List.mem_append_right _ hx)
  have hp34 : ∀ x ∈ printMP parts, x ≠ 34 := fun x hx => he34 x (List.mem_append_left _ hx)
  have h34 : ∀ tp ∈ parts, (∀ x ∈ tp.1, x ≠ 34) ∧ ∀ x ∈ tp.2, x ≠ 34 := fun tp htp =>
    ⟨fun x hx => hp34 x ((mem_printMP parts tp htp).1 x hx), fun x hx => hp34 x ((mem_printMP parts tp htp).2 x hx)⟩
  -- positions
  have hc1 : c = pre ++ (IIF1 ++ (printMP parts ++ last ++ [34] ++ (attrText ts fs ++ [125] ++ post))) := by
    rw [hc]; simp [printIif, List.append_assoc]
  have g := fun i (hi : i < 10) => get_mid pre IIF1 (printMP parts ++ last ++ [34] ++ (attrText ts fs ++ [125] ++ post)) i
    (by simpa [IIF1] using hi)
  have gi : ∀ i (hi : i < 10), c[pre.length + i]? = IIF1[i]? := by intro i hi; rw [hc1]; exact g i hi
  have hat : next c pre.length = .ok (pre.length + 3, 6) :=
    next_at_iif c pre.length hn (gi 0 (by omega)) (gi 1 (by omega)) (gi 2 (by omega)) (gi 4 (by omega)) (gi 5 (by omega))
  rw [hat] at hnext
  simp only [Except.ok.injEq, Prod.mk.injEq] at hnext
  obtain ⟨rfl, rfl⟩ := hnext
  -- the attribute region as segments
  have hcs : c = (pre ++ IIF1 ++ (printMP parts ++ last) ++ [34]) ++ (printSegs (attrSegs ts fs) ++ ([125] ++ post)) := by
    rw [hc1, printSegs_attrSegs]; simp [List.append_assoc]
  have hls : (pre ++ IIF1 ++ (printMP parts ++ last) ++ [34]).length = pre.length + 11 + (printMP parts ++ last).length := by
    simp [IIF1]; omega
  have hle : pre.length + 11 + (printMP parts ++ last).length ≤ c.length := by rw [← hls, hcs]; simp
  obtain ⟨oF, mF, hnF, _, _, _, hzero⟩ := next_safe_total c _ hle
  -- the closing `}`
  have hcl : c[pre.length + 11 + (printMP parts ++ last).length + (attrText ts fs).length]? = some 125 := by
    have := get_after (pre ++ IIF1 ++ (printMP parts ++ last) ++ [34]) (printSegs (attrSegs ts fs)) 125 post
    rw [hls, printSegs_attrSegs] at this
    rw [hcs, printSegs_attrSegs]; exact this
  have hmF : mF ≠ 0 := by
    intro h0
    have hfacts := next_facts c hn _ oF mF hle hnF
    have hoc := hzero h0
    have hpos := (List.getElem?_eq_some_iff.mp hcl).1
    have hsk := hfacts.skipped (pre.length + 11 + (printMP parts ++ last).length + (attrText ts fs).length) (by omega)
      (by rw [h0, hoc]; simp only [mLen]; omega) 125 hcl
    exact hsk rfl
  have hclose : next c (pre.length + 11 + (printMP parts ++ last).length + (attrText ts fs).length) =
      .ok (pre.length + 11 + (printMP parts ++ last).length + (attrText ts fs).length + 1, 1) := next_at_close c _ hcl
  -- step 1: `{if`
  obtain ⟨cs, hex0⟩ := Qentem.Expr.parseTop_total ({ cfg with loopVar := loopVarPure c (refsD D) } : ScanCfg R) c
    (pre.length + 10) (pre.length + 10 + (printMP parts ++ last).length) (by omega)
  have hex : exprs cfg c (refsD D) (pre.length + 10) (pre.length + 10 + (printMP parts ++ last).length) = .ok cs := hex0
  have hstep1 := stepIif_print cfg c hn (refsD D) stk acc pre (attrText ts fs ++ [125] ++ post) last parts hc1 hl hl34 hall h34
    oF mF (by rw [show pre.length + 10 + (printMP parts ++ last).length + 1 = pre.length + 11 + (printMP parts ++ last).length by omega]; exact hnF)
    hmF (by rw [hlen] at hsz; omega) cs hex
  have hd6 : step cfg c (stAtC (refsD D) false stk acc (pre.length + 3) 6) = stepIif cfg c (stAtC (refsD D) false stk acc (pre.length + 3) 6) := by
    simp only [step, stAtC]; rfl
  -- step 2: the values
  have hseg : ∀ s ∈ attrSegs ts fs, s.ok := by
    intro s hs
    have hpT : plainL TRUEA := by intro x hx; simp [TRUEA] at hx; rcases hx with h | h | h | h | h | h | h <;> subst h <;> (unfold plainU; decide)
    have hpF : plainL FALSEA := by intro x hx; simp [FALSEA] at hx; rcases hx with h | h | h | h | h | h | h | h <;> subst h <;> (unfold plainU; decide)
    have hpq : plainL [34] := by intro x hx; simp at hx; subst hx; unfold plainU; decide
    cases ts <;> cases fs <;> simp [attrSegs] at hs
    · rcases hs with h | h | h
      · subst h; exact hpF
      · exact (hfs _ rfl).1 s h
      · subst h; exact hpq
    · rcases hs with h | h | h
      · subst h; exact hpT
      · exact (hts _ rfl).1 s h
      · subst h; exact hpq
    · rcases hs with h | h | h | h | h | h
      · subst h; exact hpT
      · exact (hts _ rfl).1 s h
      · subst h; exact hpq
      · subst h; exact hpF
      · exact (hfs _ rfl).1 s h
      · subst h; exact hpq
  have hrun := parseMain_segsC cfg c hn D hD true (.iif acc cs { off := pre.length, trueOff := 11 + (printMP parts ++ last).length } :: stk)
    ([125] ++ post) (attrSegs ts fs) (pre ++ IIF1 ++ (printMP parts ++ last) ++ [34]) [] (fuel + 1) oF mF _ _ hcs hseg
    (by rw [hls]; exact hnF) (by rw [hls, printSegs_attrSegs]; exact hclose)
  rw [hls, tagsOfD_attrSegs, nTags_attrSegs] at hrun
  simp only [List.nil_append] at hrun
  -- step 3: the closing `}`
  have hlenE : pre.length + 11 + (printMP parts ++ last).length + (attrText ts fs).length + 1 =
      pre.length + (printIif (printMP parts ++ last) ts fs).length := by rw [hlen, hatl]; omega
  have hattr := iifAttrs_chain c (pre ++ IIF1 ++ (printMP parts ++ last) ++ [34]) post ts fs
    (by rw [hcs, printSegs_attrSegs]) (fun l h => (hts l h).2) (fun l h => (hfs l h).2) pre.length
    (11 + (printMP parts ++ last).length)
    { off := pre.length, trueOff := 0, len := 12 + (printMP parts ++ last).length + tLen ts + fLen fs } rfl
    (by rw [hls]; omega) (by rw [hls, hatl]; rw [hlen] at hsz; omega)
  rw [hls] at hattr
  have hf2 : attrFields pre.length (pre.length + 11 + (printMP parts ++ last).length) ts fs
      { off := pre.length, trueOff := 0, len := 12 + (printMP parts ++ last).length + tLen ts + fLen fs } =
      iifF2 pre.length (printMP parts ++ last) ts fs := rfl
  rw [hf2] at hattr
  have hoff2 : (iifF2 pre.length (printMP parts ++ last) ts fs).off = pre.length := by
    simp [iifF2, attrFields_off]
  have hfacts := iif_facts (iifF2 pre.length (printMP parts ++ last) ts fs)
    (tagsVal cfg c D (pre.length + 11 + (printMP parts ++ last).length + 7) ts)
    (tagsVal cfg c D (pre.length + 11 + (printMP parts ++ last).length + tLen ts + 8) fs)
    (by
      intro t ht
      have := tagsVal_sub cfg c D _ ts hts t ht
      rw [hoff2]
      cases ts with
      | none => simp [tagsVal] at ht
      | some l =>
        cases fs <;> exact this.cast (by simp [iifF2, attrFields]; omega) (by simp [iifF2, attrFields]; omega))
    (by
      intro t ht
      have := tagsVal_sub cfg c D _ fs hfs t ht
      rw [hoff2]
      cases fs with
      | none => simp [tagsVal] at ht
      | some l =>
        cases ts <;> exact this.cast (by simp [iifF2, attrFields, tLen]; omega) (by simp [iifF2, attrFields, tLen]; omega))
    (by
      cases ts with
      | none =>
        cases fs with
        | none => rcases hone with h | h <;> exact absurd rfl h
        | some lf => right; right; simp [iifF2, attrFields, tagsVal, tLen]; omega
      | some lt =>
        cases fs with
        | none => right; left; simp [iifF2, attrFields, tagsVal]; omega
        | some lf => left; simp [iifF2, attrFields, tLen]; omega)
  obtain ⟨hnz, hne, id, _, hscan, hrole, hid1, hid2⟩ := hfacts
  have hidE : id = iifId cfg c D pre.length (printMP parts ++ last) ts fs := by
    unfold iifId
    by_cases h : (iifF2 pre.length (printMP parts ++ last) ts fs).trueOff < (iifF2 pre.length (printMP parts ++ last) ts fs).falseOff
    · simp only [h, if_true]; exact hid1 h
    · simp only [h, if_false]; exact hid2 h
  have hcloseI := closeIif_gen c (refsD D) acc
    (tagsVal cfg c D (pre.length + 11 + (printMP parts ++ last).length + 7) ts ++
      tagsVal cfg c D (pre.length + 11 + (printMP parts ++ last).length + tLen ts + 8) fs) cs
    { off := pre.length, trueOff := 11 + (printMP parts ++ last).length }
    (iifF2 pre.length (printMP parts ++ last) ts fs) stk
    (pre.length + 11 + (printMP parts ++ last).length + (attrText ts fs).length + 1) 1
    (by simp only []; omega)
    (by
      simp only []
      have htl : trunc bits_InLineIfTag_Length (pre.length + 11 + (printMP parts ++ last).length + (attrText ts fs).length + 1 - pre.length) =
          12 + (printMP parts ++ last).length + tLen ts + fLen fs := by
        simp only [trunc, show bits_InLineIfTag_Length = 16 by decide]
        rw [hlen] at hsz
        rw [hatl]
        have : pre.length + 11 + (printMP parts ++ last).length + (tLen ts + fLen fs) + 1 - pre.length =
          12 + (printMP parts ++ last).length + tLen ts + fLen fs := by omega
        rw [this]; exact Nat.mod_eq_of_lt (by omega)
      rw [htl]
      rw [show pre.length + (11 + (printMP parts ++ last).length) = pre.length + 11 + (printMP parts ++ last).length by omega]
      exact hattr)
    hnz hne id (by rw [hoff2] at hscan ⊢; exact hscan) hrole
  have hfn : finderNext c (stAtC (refsD D) false stk
      (acc ++ [.iif cs (tagsVal cfg c D (pre.length + 11 + (printMP parts ++ last).length + 7) ts ++
        tagsVal cfg c D (pre.length + 11 + (printMP parts ++ last).length + tLen ts + 8) fs)
        (iifFinal (iifF2 pre.length (printMP parts ++ last) ts fs) id)])
      (pre.length + 11 + (printMP parts ++ last).length + (attrText ts fs).length + 1) 1) =
      .ok (stAtC (refsD D) false stk _ o' m') :=
    finderNext_stAtC c (refsD D) false stk _ _ 1 _ _ (by rw [hlenE]; exact hfin)
  have hstep3 := (stepLineEnd_iif c (refsD D) acc _ cs _ stk _ _ hcloseI).trans hfn
  have hd1 : ∀ st : PState R, st.mtch = 1 → step cfg c st = stepLineEnd c st := by
    intro st hst; simp only [step, hst]; first | done | rfl
  rw [show fuel + (2 + nTagsVal ts + nTagsVal fs) = (fuel + 1 + (nTagsVal ts + nTagsVal fs)) + 1 by omega,
    parseMain_step cfg c _ _ _ (by simp [stAtC]) (hd6.trans hstep1), hrun,
    parseMain_step cfg c _ _ _ (by simp [stAtC]) ((hd1 _ rfl).trans hstep3)]
  simp only [iifTag, itemsAtC, hex, hidE]

end Qentem.Tmpl
