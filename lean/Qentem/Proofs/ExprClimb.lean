import Qentem.Model.ExprSpec
/-!
# C04 — the flat-list recursion of `evaluate` builds the precedence tree

Stage 1 (this file, trees only): `loopT`/`evaluateT` have the control flow of the C++ `evaluate`
(repaired) but build `Tree`s instead of computing values.  `loopT_eq_run` shows that they compute
`run`, a fold of `attach` over the items that stops at the first operator whose rank is not above
the caller's operator; `run_noOp_wf` shows that the top-level run is `climbGo`.
Stage 2 is `Proofs/ExprEval.lean`: evaluation commutes with the tree construction.
-/
namespace Qentem.Expr
variable {R : Type}

theorem rank_noOp : Op.noOp.rank = 0 := by decide

theorem rank_pos (op : Op) (h : op ≠ .noOp) : 0 < op.rank := by
  cases op <;> first | (exact absurd rfl h) | decide

/-- `attach t op _` does not descend into `t` -/
def closedFor : Tree R → Op → Prop
  | .bin o _ _, op => ¬ (o.rank < op.rank)
  | _, _ => True

theorem attach_closed (t : Tree R) (op : Op) (x : Tree R) (h : closedFor t op) :
    attach t op x = .bin op t x := by
  cases t with
  | leaf y => simp [attach]
  | paren t => simp [attach]
  | bin o l r =>
    simp only [closedFor] at h
    simp [attach, h]

theorem closedFor_climbOperand (x : Operand R) (op : Op) : closedFor (climbOperand x) op := by
  cases x <;> simp [climbOperand, closedFor]

/-- fold `attach` over the items while the pending operator `op` ranks above `prev` -/
def run (prev : Op) : Tree R → Op → List (Item R) → Tree R × Op × List (Item R)
  | t, op, [] => (t, op, [])
  | t, op, (x, o') :: rest =>
    if prev.rank < op.rank then run prev (attach t op (climbOperand x)) o' rest
    else (t, op, (x, o') :: rest)

theorem run_under (o : Op) (L : Tree R) (rest : List (Item R)) :
    ∀ (R0 : Tree R) (op : Op), run o (.bin o L R0) op rest =
      (.bin o L (run o R0 op rest).1, (run o R0 op rest).2.1, (run o R0 op rest).2.2) := by
  induction rest with
  | nil => intro R0 op; simp [run]
  | cons it rest ih =>
    intro R0 op
    obtain ⟨x, o'⟩ := it
    by_cases h : o.rank < op.rank
    · simp only [run, h, if_true, attach]
      exact ih _ _
    · simp [run, h]

theorem run_split (prev o : Op) (hpo : prev.rank ≤ o.rank) (rest : List (Item R)) :
    ∀ (t : Tree R) (op : Op), run prev t op rest =
      run prev (run o t op rest).1 (run o t op rest).2.1 (run o t op rest).2.2 := by
  induction rest with
  | nil => intro t op; simp [run]
  | cons it rest ih =>
    intro t op
    obtain ⟨x, o'⟩ := it
    by_cases h : o.rank < op.rank
    · have h' : prev.rank < op.rank := by omega
      simp only [run, h, h', if_true]
      exact ih _ _
    · simp [run, h]

theorem run_stop (p : Op) (rest : List (Item R)) :
    ∀ (t : Tree R) (op : Op), (run p t op rest).2.2 = [] ∨ ¬ p.rank < (run p t op rest).2.1.rank := by
  induction rest with
  | nil => intro t op; simp [run]
  | cons it rest ih =>
    intro t op
    obtain ⟨x, o'⟩ := it
    by_cases h : p.rank < op.rank
    · simp only [run, h, if_true]; exact ih _ _
    · simp [run, h]

theorem run_wfTail (p : Op) (rest : List (Item R)) :
    ∀ (t : Tree R) (op : Op), wfTail op rest = true →
      wfTail (run p t op rest).2.1 (run p t op rest).2.2 = true := by
  induction rest with
  | nil => intro t op h; simpa [run] using h
  | cons it rest ih =>
    intro t op hw
    obtain ⟨x, o'⟩ := it
    by_cases h : p.rank < op.rank
    · simp only [run, h, if_true]
      apply ih
      simp [wfTail] at hw
      exact hw.2
    · simpa [run, h] using hw

theorem run_size (p : Op) (rest : List (Item R)) :
    ∀ (t : Tree R) (op : Op), sizeItems (run p t op rest).2.2 ≤ sizeItems rest := by
  induction rest with
  | nil => intro t op; simp [run]
  | cons it rest ih =>
    intro t op
    obtain ⟨x, o'⟩ := it
    by_cases h : p.rank < op.rank
    · simp only [run, h, if_true, sizeItems]
      have := ih (attach t op (climbOperand x)) o'
      omega
    · simp [run, h]

/-- with nothing pending above, a well-formed tail is consumed completely: `run` = `climbGo` -/
theorem run_noOp_wf (rest : List (Item R)) :
    ∀ (t : Tree R) (op : Op), wfTail op rest = true →
      run .noOp t op rest = (climbGo t op rest, .noOp, []) := by
  induction rest with
  | nil =>
    intro t op h
    simp [wfTail] at h
    simp [run, climbGo, h]
  | cons it rest ih =>
    intro t op hw
    obtain ⟨x, o'⟩ := it
    simp [wfTail] at hw
    have hp : Op.noOp.rank < op.rank := by rw [rank_noOp]; exact rank_pos op hw.1.1
    simp only [run, hp, if_true, climbGo]
    exact ih _ _ hw.2

/-! ### the C++ control flow on trees -/

mutual
def evaluateT : Nat → Op → List (Item R) → Option (Tree R × Op × List (Item R))
  | 0, _, _ => none
  | _, _, [] => none
  | f + 1, prev, (x, o) :: rest => loopT f prev (climbOperand x) o rest
def loopT : Nat → Op → Tree R → Op → List (Item R) → Option (Tree R × Op × List (Item R))
  | 0, _, _, _, _ => none
  | f + 1, prev, left, op, rest =>
    if op = .noOp then some (left, op, rest)
    else
      match rest with
      | [] => none
      | (x, o') :: rest' =>
        if op.rank ≥ o'.rank then
          if prev.rank < o'.rank then loopT f prev (.bin op left (climbOperand x)) o' rest'
          else some (.bin op left (climbOperand x), o', rest')
        else
          match evaluateT f op ((x, o') :: rest') with
          | none => none
          | some (right, o'', rest'') =>
            if prev.rank < o''.rank then loopT f prev (.bin op left right) o'' rest''
            else some (.bin op left right, o'', rest'')
end

theorem run_of_not_lt (prev : Op) (t : Tree R) (op : Op) (rest : List (Item R))
    (h : ¬ prev.rank < op.rank) : run prev t op rest = (t, op, rest) := by
  cases rest with
  | nil => simp [run]
  | cons it rest => obtain ⟨x, o'⟩ := it; simp [run, h]

/-- Stage 1: the recursion computes `run`. -/
theorem loopT_eq_run : ∀ (f : Nat) (prev : Op) (left : Tree R) (op : Op) (rest : List (Item R)),
    2 * sizeItems rest + 1 ≤ f → wfTail op rest = true → closedFor left op →
    (op = .noOp ∨ prev.rank < op.rank) →
    loopT f prev left op rest = some (run prev left op rest) := by
  intro f
  induction f using Nat.strongRecOn with
  | _ f ih =>
    intro prev left op rest hf hw hc hp
    cases f with
    | zero => omega
    | succ f =>
      by_cases hop : op = .noOp
      · subst hop
        cases rest with
        | nil => simp [loopT, run]
        | cons it rest => obtain ⟨x, o'⟩ := it; simp [wfTail] at hw
      · have hlt : prev.rank < op.rank := by
          rcases hp with h | h
          · exact absurd h hop
          · exact h
        cases rest with
        | nil => simp [wfTail] at hw; exact absurd hw hop
        | cons it rest' =>
          obtain ⟨x, o'⟩ := it
          have hw' : wfTail o' rest' = true := by simp [wfTail] at hw; exact hw.2
          have hsz : sizeItems ((x, o') :: rest') = x.size + 1 + sizeItems rest' := by
            simp [sizeItems]
          rw [hsz] at hf
          have hrun : run prev left op ((x, o') :: rest') =
              run prev (.bin op left (climbOperand x)) o' rest' := by
            simp only [run, hlt, if_true]
            rw [attach_closed _ _ _ hc]
          rw [hrun]
          by_cases hge : op.rank ≥ o'.rank
          · -- direct branch
            have hc' : closedFor (Tree.bin op left (climbOperand x)) o' := by
              simp [closedFor]; omega
            by_cases hcont : prev.rank < o'.rank
            · simp only [loopT, hop, if_false, hge, if_true, hcont]
              exact ih f (by omega) prev _ o' rest' (by omega) hw' hc' (Or.inr hcont)
            · simp only [loopT, hop, if_false, hge, if_true, hcont]
              rw [run_of_not_lt _ _ _ _ hcont]
          · -- recursive branch
            have hlt' : op.rank < o'.rank := by omega
            cases f with
            | zero => omega
            | succ g =>
              have hinner : loopT g op (climbOperand x) o' rest' =
                  some (run op (climbOperand x) o' rest') :=
                ih g (by omega) op _ o' rest' (by omega) hw' (closedFor_climbOperand x o')
                  (Or.inr hlt')
              have hsplit := run_split prev op (by omega) rest' (.bin op left (climbOperand x)) o'
              rw [run_under] at hsplit
              simp only [] at hsplit
              rw [hsplit]
              generalize hr : run op (climbOperand x) o' rest' = r at hinner hsplit
              obtain ⟨right, o'', rest''⟩ := r
              have hstop := run_stop op rest' (climbOperand x) o'
              have hwf'' := run_wfTail op rest' (climbOperand x) o' hw'
              have hsize := run_size op rest' (climbOperand x) o'
              rw [hr] at hstop hwf'' hsize
              simp only [] at hstop hwf'' hsize
              have hnl : ¬ op.rank < o''.rank := by
                rcases hstop with h | h
                · subst h
                  simp [wfTail] at hwf''
                  rw [hwf'', rank_noOp]; omega
                · exact h
              simp only [loopT, hop, if_false, hge, evaluateT, hinner]
              by_cases hcont : prev.rank < o''.rank
              · simp only [hcont, if_true]
                exact ih (g + 1) (by omega) prev _ o'' rest'' (by omega) hwf''
                  (by simp [closedFor]; omega) (Or.inr hcont)
              · simp only [hcont, if_false]
                rw [run_of_not_lt _ _ _ _ hcont]

end Qentem.Expr
