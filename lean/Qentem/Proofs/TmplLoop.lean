import Qentem.Proofs.TmplBlocks
/-!
# C02 stage 6 (partial) — one `<loop set="S" value="V">body</loop>` between segment runs

The body is a run of text / `{var:}` / `{raw:}` segments that may use the loop variable.
Parse: exact `next` at `<loop` / `</loop>`, exact `parseLoopAttributes` on the printed attributes,
`stepVar` under the loop's chain.  Render: `loopIter` over arrays and objects against
`loopArr` / `loopObj` of the reference interpreter.
-/
set_option linter.unusedSectionVars false
set_option linter.unusedVariables false
set_option linter.unnecessarySimpa false
namespace Qentem.Tmpl
open Qentem.Expr (Fault rd ScanCfg VarRef Item Num Env RealLike)
open Qentem.Generated.Tmpl

variable {R : Type}

/-- `<loop` at `p` -/
theorem next_at_loop (c : List Nat) (p : Nat) (hn : c.length + 16 < 4294967296)
    (h0 : c[p]? = some 60) (h1 : c[p + 1]? = some 108) (h2 : c[p + 2]? = some 111)
    (h3 : c[p + 3]? = some 111) (h4 : c[p + 4]? = some 112) : next c p = .ok (p + 5, 7) := by
  have hlt : p < c.length := (List.getElem?_eq_some_iff.mp h0).1
  have hlt4 : p + 4 < c.length := (List.getElem?_eq_some_iff.mp h4).1
  have e4 : c[p + 4] = 112 := by have := List.getElem?_eq_getElem hlt4; rw [h4] at this; exact (Option.some.inj this).symm
  unfold next
  have : c.length + 1 - p = (c.length - p) + 1 := by omega
  rw [this]
  simp only [nextF, hlt, if_true, rd_some c p 60 h0, bind, Except.bind]
  have hid : firstCharID 60 = 1 := by decide
  have hg : W1.groups.getD 1 [] = [6, 7, 8, 9, 10] := by decide
  have hfc : (1 : Nat) < W1.firstCharsCount := by decide
  have h32 : (2 : Nat) ^ sizeTBits = 4294967296 := by decide
  simp only [hid, hfc, if_true, hg]
  have s6 : tryWords c (p + 1) (6 :: [7, 8, 9, 10]) = .ok (some (p + 5, 7)) := by
    have hwl : W1.wordLengths.getD 6 0 = 3 := by decide
    have hwd : W1.words.getD 6 [] = [108, 111, 111, 112] := by decide
    have := tryWords_hit c (p + 1) 6 [7, 8, 9, 10]
    simp only [hwl, hwd, h32, show (p + 1 + 3) % 4294967296 = p + 4 by omega] at this
    apply this hlt4 (by rw [e4]; rfl)
    have h2' : c[p + 1 + 1]? = some 111 := by rw [show p + 1 + 1 = p + 2 by omega]; exact h2
    have h3' : c[p + 1 + 1 + 1]? = some 111 := by rw [show p + 1 + 1 + 1 = p + 3 by omega]; exact h3
    simp [matchMiddle, rd_some c (p + 1) 108 h1, rd_some c _ 111 h2', rd_some c _ 111 h3', bind, Except.bind,
      show p + 1 < p + 4 by omega, show p + 1 + 1 < p + 4 by omega, show p + 1 + 1 + 1 < p + 4 by omega]
  rw [s6]

/-- `</loop>` at `q` -/
theorem next_at_loopend (c : List Nat) (q : Nat) (hn : c.length + 16 < 4294967296)
    (h0 : c[q]? = some 60) (h1 : c[q + 1]? = some 47) (h2 : c[q + 2]? = some 108)
    (h3 : c[q + 3]? = some 111) (h4 : c[q + 4]? = some 111) (h5 : c[q + 5]? = some 112)
    (h6 : c[q + 6]? = some 62) : next c q = .ok (q + 7, 8) := by
  have hlt : q < c.length := (List.getElem?_eq_some_iff.mp h0).1
  have hlt4 : q + 4 < c.length := (List.getElem?_eq_some_iff.mp h4).1
  have hlt6 : q + 6 < c.length := (List.getElem?_eq_some_iff.mp h6).1
  have e4 : c[q + 4] = 111 := by have := List.getElem?_eq_getElem hlt4; rw [h4] at this; exact (Option.some.inj this).symm
  have e6 : c[q + 6] = 62 := by have := List.getElem?_eq_getElem hlt6; rw [h6] at this; exact (Option.some.inj this).symm
  unfold next
  have : c.length + 1 - q = (c.length - q) + 1 := by omega
  rw [this]
  simp only [nextF, hlt, if_true, rd_some c q 60 h0, bind, Except.bind]
  have hid : firstCharID 60 = 1 := by decide
  have hg : W1.groups.getD 1 [] = [6, 7, 8, 9, 10] := by decide
  have hfc : (1 : Nat) < W1.firstCharsCount := by decide
  have h32 : (2 : Nat) ^ sizeTBits = 4294967296 := by decide
  simp only [hid, hfc, if_true, hg]
  have s6 : tryWords c (q + 1) (6 :: [7, 8, 9, 10]) = tryWords c (q + 1) [7, 8, 9, 10] := by
    apply tryWords_skip
    have hwl : W1.wordLengths.getD 6 0 = 3 := by decide
    have hwd : W1.words.getD 6 [] = [108, 111, 111, 112] := by decide
    simp only [hwl, hwd, h32, show (q + 1 + 3) % 4294967296 = q + 4 by omega]
    intro _ he; rw [e4] at he; simp at he
  have s7 : tryWords c (q + 1) (7 :: [8, 9, 10]) = .ok (some (q + 7, 8)) := by
    have hwl : W1.wordLengths.getD 7 0 = 5 := by decide
    have hwd : W1.words.getD 7 [] = [47, 108, 111, 111, 112, 62] := by decide
    have := tryWords_hit c (q + 1) 7 [8, 9, 10]
    simp only [hwl, hwd, h32, show (q + 1 + 5) % 4294967296 = q + 6 by omega] at this
    apply this hlt6 (by rw [e6]; rfl)
    have h2' : c[q + 1 + 1]? = some 108 := by rw [show q + 1 + 1 = q + 2 by omega]; exact h2
    have h3' : c[q + 1 + 1 + 1]? = some 111 := by rw [show q + 1 + 1 + 1 = q + 3 by omega]; exact h3
    have h4' : c[q + 1 + 1 + 1 + 1]? = some 111 := by rw [show q + 1 + 1 + 1 + 1 = q + 4 by omega]; exact h4
    have h5' : c[q + 1 + 1 + 1 + 1 + 1]? = some 112 := by rw [show q + 1 + 1 + 1 + 1 + 1 = q + 5 by omega]; exact h5
    simp [matchMiddle, rd_some c (q + 1) 47 h1, rd_some c _ 108 h2', rd_some c _ 111 h3', rd_some c _ 111 h4',
      rd_some c _ 112 h5', bind, Except.bind,
      show q + 1 < q + 6 by omega, show q + 1 + 1 < q + 6 by omega, show q + 1 + 1 + 1 < q + 6 by omega,
      show q + 1 + 1 + 1 + 1 < q + 6 by omega, show q + 1 + 1 + 1 + 1 + 1 < q + 6 by omega]
  rw [s6, s7]

/-! ### the printed loop header -/

/-- `<loop set="` -/
def LH1 : List Nat := [60, 108, 111, 111, 112, 32, 115, 101, 116, 61, 34]
/-- `" value="` -/
def LH2 : List Nat := [34, 32, 118, 97, 108, 117, 101, 61, 34]
/-- `">` -/
def LH3 : List Nat := [34, 62]
/-- `</loop>` -/
def LOOPEND : List Nat := [60, 47, 108, 111, 111, 112, 62]

/-- the units of `<loop set="S" value="V">` at `L` -/
structure LoopText (c : List Nat) (L : Nat) (S V : List Nat) : Prop where
  h1 : ∀ i (hi : i < 11), c[L + i]? = LH1[i]?
  s : ∀ i (hi : i < S.length), c[L + 11 + i]? = some S[i]
  h2 : ∀ i (hi : i < 9), c[L + 11 + S.length + i]? = LH2[i]?
  v : ∀ i (hi : i < V.length), c[L + 20 + S.length + i]? = some V[i]
  h3 : ∀ i (hi : i < 2), c[L + 20 + S.length + V.length + i]? = LH3[i]?

theorem loopText_of (c pre S V rest : List Nat)
    (hc : c = pre ++ (LH1 ++ (S ++ (LH2 ++ (V ++ (LH3 ++ rest)))))) : LoopText c pre.length S V := by
  refine ⟨?_, ?_, ?_, ?_, ?_⟩
  · intro i hi
    rw [hc]; exact get_mid pre LH1 _ i (by simpa [LH1] using hi)
  · intro i hi
    have := get_mid (pre ++ LH1) S (LH2 ++ (V ++ (LH3 ++ rest))) i hi
    rw [List.getElem?_eq_getElem hi] at this
    rw [hc, ← this]
    simp [LH1, List.append_assoc]
  · intro i hi
    have := get_mid (pre ++ LH1 ++ S) LH2 (V ++ (LH3 ++ rest)) i (by simpa [LH2] using hi)
    rw [hc, ← this]
    simp [LH1, List.append_assoc]
    congr 1
    omega
  · intro i hi
    have := get_mid (pre ++ LH1 ++ S ++ LH2) V (LH3 ++ rest) i hi
    rw [List.getElem?_eq_getElem hi] at this
    rw [hc, ← this]
    simp [LH1, LH2, List.append_assoc]
    congr 1
    omega
  · intro i hi
    have := get_mid (pre ++ LH1 ++ S ++ LH2 ++ V) LH3 rest i (by simpa [LH3] using hi)
    rw [hc, ← this]
    simp [LH1, LH2, List.append_assoc]
    congr 1
    omega

/-- `parseLoopAttributes` on the printed attributes ` set="S" value="V"` of a top-level loop -/
theorem pla_print (c : List Nat) (L : Nat) (S V : List Nat) (ht : LoopText c L S V)
    (hS : ∀ x ∈ S, x ≠ 34) (hV : ∀ x ∈ V, x ≠ 34) (fuel lv : Nat)
    (hS16 : S.length < 236) (hV8 : V.length < 256) :
    parseLoopAttributes c (L + 21 + S.length + V.length) [] (fuel + 2) (L + 5) .none
        ({ off := L, level := lv } : LoopFields) =
      .ok { off := L, level := lv, set := ⟨L + 11, S.length, 0, 0⟩, valueOff := 20 + S.length,
            valueLen := V.length } := by
  have g1 := fun i (hi : i < 11) => ht.h1 i hi
  have g2 := fun i (hi : i < 9) => ht.h2 i hi
  have g3 := fun i (hi : i < 2) => ht.h3 i hi
  have c5 : c[L + 5]? = some 32 := g1 5 (by omega)
  have c6 : c[L + 6]? = some 115 := g1 6 (by omega)
  have c7 : c[L + 7]? = some 101 := g1 7 (by omega)
  have c8 : c[L + 8]? = some 116 := g1 8 (by omega)
  have c9 : c[L + 9]? = some 61 := g1 9 (by omega)
  have c10 : c[L + 10]? = some 34 := g1 10 (by omega)
  have d0 : c[L + 11 + S.length]? = some 34 := g2 0 (by omega)
  have d1 : c[L + 12 + S.length]? = some 32 := by have := g2 1 (by omega); rw [show L + 11 + S.length + 1 = L + 12 + S.length by omega] at this; exact this
  have d2 : c[L + 13 + S.length]? = some 118 := by have := g2 2 (by omega); rw [show L + 11 + S.length + 2 = L + 13 + S.length by omega] at this; exact this
  have d3 : c[L + 14 + S.length]? = some 97 := by have := g2 3 (by omega); rw [show L + 11 + S.length + 3 = L + 14 + S.length by omega] at this; exact this
  have d4 : c[L + 15 + S.length]? = some 108 := by have := g2 4 (by omega); rw [show L + 11 + S.length + 4 = L + 15 + S.length by omega] at this; exact this
  have d5 : c[L + 16 + S.length]? = some 117 := by have := g2 5 (by omega); rw [show L + 11 + S.length + 5 = L + 16 + S.length by omega] at this; exact this
  have d6 : c[L + 17 + S.length]? = some 101 := by have := g2 6 (by omega); rw [show L + 11 + S.length + 6 = L + 17 + S.length by omega] at this; exact this
  have d7 : c[L + 18 + S.length]? = some 61 := by have := g2 7 (by omega); rw [show L + 11 + S.length + 7 = L + 18 + S.length by omega] at this; exact this
  have d8 : c[L + 19 + S.length]? = some 34 := by have := g2 8 (by omega); rw [show L + 11 + S.length + 8 = L + 19 + S.length by omega] at this; exact this
  have e0 : c[L + 20 + S.length + V.length]? = some 34 := g3 0 (by omega)
  -- iteration 1
  have a1 : skipW c (L + 21 + S.length + V.length) (· == W1.spaceChar) (L + 5) = .ok (L + 6) := by
    apply skipW_run c _ _ 1 (L + 5)
    · intro i hi
      have : i = 0 := by omega
      subst this
      exact ⟨32, c5, by decide⟩
    · omega
    · right; exact ⟨115, c6, by decide⟩
  have b1 : andEqualAt (decide (L + 21 + S.length + V.length - (L + 6) > W1.setLength)) c (L + 6) W1.setStr = .ok true := by
    have : decide (L + 21 + S.length + V.length - (L + 6) > W1.setLength) = true := by
      simp only [show W1.setLength = 3 by decide, decide_eq_true_eq]; omega
    simp only [andEqualAt, this, if_true]
    apply isEqualAt_true
    intro i hi
    have hi3 : i < 3 := by simpa [show W1.setStr = [115, 101, 116] by decide] using hi
    have : i = 0 ∨ i = 1 ∨ i = 2 := by omega
    rcases this with h | h | h <;> subst h
    · rw [show L + 6 + 0 = L + 6 by omega, c6]; rfl
    · rw [show L + 6 + 1 = L + 7 by omega, c7]; rfl
    · rw [show L + 6 + 2 = L + 8 by omega, c8]; rfl
  have c1 : skipW c (L + 21 + S.length + V.length) (· != W1.equalChar) (L + 6 + W1.setLength) = .ok (L + 9) := by
    rw [show W1.setLength = 3 by decide]
    exact skipW_run c _ _ 0 (L + 9) (by intro i hi; omega) (by omega) (Or.inr ⟨61, c9, by decide⟩)
  have dd1 : doSkipW c (L + 21 + S.length + V.length) (· == W1.spaceChar) (L + 9) = .ok (L + 10) := by
    exact skipW_run c _ _ 0 (L + 10) (by intro i hi; omega) (by omega) (Or.inr ⟨34, c10, by decide⟩)
  have ee1 : doSkipW c (L + 21 + S.length + V.length) (· != 34) (L + 10) = .ok (L + 11 + S.length) := by
    apply skipW_run c _ _ S.length (L + 11)
    · intro i hi
      refine ⟨S[i], ht.s i hi, ?_⟩
      have := hS S[i] (List.getElem_mem hi)
      simpa using this
    · omega
    · right; exact ⟨34, d0, by decide⟩
  simp only [parseLoopAttributes, a1, bind, Except.bind, show L + 6 < L + 21 + S.length + V.length by omega, if_true,
    rd_some c (L + 6) 115 c6, show W1.setSortChar = 115 by decide, b1, pure, Except.pure, c1, dd1,
    show L + 10 < L + 21 + S.length + V.length by omega, rd_some c (L + 10) 34 c10, ee1]
  have hsv : setVar c [] ({ off := 0, len := 0, idLen := 0, level := 0 } : VarRef) (L + 10 + 1)
      (trunc bits_VariableTag_Length (L + 11 + S.length - (L + 10 + 1))) = .ok ⟨L + 11, S.length, 0, 0⟩ := by
    have : trunc bits_VariableTag_Length (L + 11 + S.length - (L + 10 + 1)) = S.length := by
      simp only [trunc, show bits_VariableTag_Length = 16 by decide]; omega
    simp only [setVar, checkLoopVariable, bind, Except.bind, this]
  -- iteration 2
  have a2 : skipW c (L + 21 + S.length + V.length) (· == W1.spaceChar) (L + 11 + S.length + 1) = .ok (L + 13 + S.length) := by
    rw [show L + 13 + S.length = L + 11 + S.length + 1 + 1 by omega]
    apply skipW_run c _ _ 1 (L + 11 + S.length + 1)
    · intro i hi
      have : i = 0 := by omega
      subst this
      exact ⟨32, by rw [show L + 11 + S.length + 1 + 0 = L + 12 + S.length by omega]; exact d1, by decide⟩
    · omega
    · right; exact ⟨118, by rw [show L + 11 + S.length + 1 + 1 = L + 13 + S.length by omega]; exact d2, by decide⟩
  have b2 : andEqualAt (decide (L + 21 + S.length + V.length - (L + 13 + S.length) > W1.valueLength)) c
      (L + 13 + S.length) W1.valueStr = .ok true := by
    have : decide (L + 21 + S.length + V.length - (L + 13 + S.length) > W1.valueLength) = true := by
      simp only [show W1.valueLength = 5 by decide, decide_eq_true_eq]; omega
    simp only [andEqualAt, this, if_true]
    apply isEqualAt_true
    intro i hi
    have hi5 : i < 5 := by simpa [show W1.valueStr = [118, 97, 108, 117, 101] by decide] using hi
    have : i = 0 ∨ i = 1 ∨ i = 2 ∨ i = 3 ∨ i = 4 := by omega
    rcases this with h | h | h | h | h <;> subst h
    · rw [show L + 13 + S.length + 0 = L + 13 + S.length by omega, d2]; rfl
    · rw [show L + 13 + S.length + 1 = L + 14 + S.length by omega, d3]; rfl
    · rw [show L + 13 + S.length + 2 = L + 15 + S.length by omega, d4]; rfl
    · rw [show L + 13 + S.length + 3 = L + 16 + S.length by omega, d5]; rfl
    · rw [show L + 13 + S.length + 4 = L + 17 + S.length by omega, d6]; rfl
  have c2 : skipW c (L + 21 + S.length + V.length) (· != W1.equalChar) (L + 13 + S.length + W1.valueLength) =
      .ok (L + 18 + S.length) := by
    rw [show W1.valueLength = 5 by decide, show L + 13 + S.length + 5 = L + 18 + S.length by omega]
    exact skipW_run c _ _ 0 (L + 18 + S.length) (by intro i hi; omega) (by omega) (Or.inr ⟨61, d7, by decide⟩)
  have dd2 : doSkipW c (L + 21 + S.length + V.length) (· == W1.spaceChar) (L + 18 + S.length) = .ok (L + 19 + S.length) := by
    have := skipW_run c (L + 21 + S.length + V.length) (· == W1.spaceChar) 0 (L + 18 + S.length + 1)
      (by intro i hi; omega) (by omega)
      (Or.inr ⟨34, by rw [show L + 18 + S.length + 1 + 0 = L + 19 + S.length by omega]; exact d8, by decide⟩)
    simp only [doSkipW, this]
    congr 1
    omega
  have ee2 : doSkipW c (L + 21 + S.length + V.length) (· != 34) (L + 19 + S.length) = .ok (L + 20 + S.length + V.length) := by
    have := skipW_run c (L + 21 + S.length + V.length) (· != 34) V.length (L + 19 + S.length + 1)
      (by
        intro i hi
        refine ⟨V[i], by rw [show L + 19 + S.length + 1 + i = L + 20 + S.length + i by omega]; exact ht.v i hi, ?_⟩
        have := hV V[i] (List.getElem_mem hi)
        simpa using this)
      (by omega)
      (Or.inr ⟨34, by rw [show L + 19 + S.length + 1 + V.length = L + 20 + S.length + V.length by omega]; exact e0, by decide⟩)
    simp only [doSkipW, this]
    congr 1
    omega
  have hvo : trunc bits_LoopTag_ValueOffset (L + 19 + S.length + 1 - L) = 20 + S.length := by
    simp only [trunc, show bits_LoopTag_ValueOffset = 8 by decide]; omega
  have hvl : trunc bits_LoopTag_ValueLength (L + 20 + S.length + V.length - (L + 19 + S.length + 1)) = V.length := by
    simp only [trunc, show bits_LoopTag_ValueLength = 8 by decide]; omega
  simp only [hsv, show L + 11 + S.length + 1 < L + 21 + S.length + V.length by omega, if_true, a2,
    show L + 13 + S.length < L + 21 + S.length + V.length by omega, rd_some c _ 118 d2,
    show W1.valueChar = 118 by decide, show ¬ ((118 : Nat) = 115) by decide,
    if_false, b2, c2, dd2,
    show L + 19 + S.length < L + 21 + S.length + V.length by omega, rd_some c _ 34 d8, ee2, hvo, hvl,
    show ¬ (L + 20 + S.length + V.length + 1 < L + 21 + S.length + V.length) by omega]

/-! ### `stepLoop` on the printed header -/

/-- the parser state inside a loop body -/
def stAtL (ch : List LoopRef) (stk : List (Frame R)) (acc : List (Tag R)) (o m : Nat) : PState R :=
  { storage := acc, stack := stk, loopChain := ch, isChild := false, off := o, mtch := m }

theorem plainL_append {a b : List Nat} (ha : plainL a) (hb : plainL b) : plainL (a ++ b) := by
  intro x hx
  rcases List.mem_append.mp hx with h | h
  · exact ha x h
  · exact hb x h

theorem all_at (P : Nat → Prop) (pre mid post : List Nat) (hm : ∀ x ∈ mid, P x) (i : Nat) (h : i < mid.length) :
    ∃ x, (pre ++ (mid ++ post))[pre.length + i]? = some x ∧ P x := by
  refine ⟨mid[i], ?_, hm _ (List.getElem_mem h)⟩
  rw [get_mid pre mid post i h]
  exact List.getElem?_eq_getElem h

/-! ### any printed header -/

/-- `<loop` -/
def LOOPW : List Nat := [60, 108, 111, 111, 112]

/-- `stepLoop` on a printed header `<loop` ++ `Hm` ++ `>` whose attribute scan gives `f0` -/
theorem stepLoop_gen (c pre Hm rest : List Nat)
    (hc : c = pre ++ (LOOPW ++ (Hm ++ ([62] ++ rest))))
    (hn : c.length + 16 < 4294967296) (hHm : plainL Hm) (hgt : ∀ x ∈ Hm, x ≠ 62) (hlen : Hm.length + 6 < 65536)
    (stk : List (Frame R)) (acc : List (Tag R)) (f0 : LoopFields)
    (hpla : parseLoopAttributes c (pre.length + 5 + Hm.length) [] (pre.length + 5 + Hm.length + 2) (pre.length + 5) .none
      ({ off := pre.length, level := trunc bits_LoopTag_Level stk.length } : LoopFields) = .ok f0)
    (hoff0 : f0.off = pre.length)
    (o1 m1 : Nat) (hnext : next c (pre.length + 6 + Hm.length) = .ok (o1, m1)) :
    stepLoop c (stAt stk acc (pre.length + 5) 7) =
      .ok (stAtL [⟨f0.off + f0.valueOff, f0.valueLen, f0.level⟩]
        (.loop acc { f0 with contentOff := 6 + Hm.length } [] :: stk) [] o1 m1) := by
  have hp62 : plainL [62] := by intro x hx; simp at hx; subst hx; unfold plainU; decide
  have hc5 : c = (pre ++ LOOPW) ++ ((Hm ++ [62]) ++ rest) := by
    rw [hc]; simp [List.append_assoc]
  have hrun := next_run c _ _ rest hc5 (plainL_append hHm hp62)
  have hl5 : (pre ++ LOOPW).length = pre.length + 5 := by simp [LOOPW]
  have hl62 : (Hm ++ [62]).length = Hm.length + 1 := by simp
  rw [hl5, hl62, show pre.length + 5 + (Hm.length + 1) = pre.length + 6 + Hm.length by omega, hnext] at hrun
  have hle : pre.length + 6 + Hm.length ≤ c.length := by
    rw [hc]; simp [LOOPW]; omega
  obtain ⟨o', m', hn', _, hge, _, _⟩ := next_safe_total c _ hle
  rw [hnext] at hn'
  simp only [Except.ok.injEq, Prod.mk.injEq] at hn'
  obtain ⟨rfl, rfl⟩ := hn'
  have h1 : finderNext c (stAt stk acc (pre.length + 5) 7) = .ok (stAt stk acc o1 m1) :=
    finderNext_stAt c stk acc _ 7 _ _ hrun
  have hc6 : c = (pre ++ LOOPW) ++ (Hm ++ ([62] ++ rest)) := by rw [hc]; simp [List.append_assoc]
  have hgt62 : c[pre.length + 5 + Hm.length]? = some 62 := by
    have := get_after (pre ++ LOOPW) Hm 62 rest
    rw [hl5] at this
    rw [hc6]; exact this
  have hsk : skipW c o1 (· != W1.multiLineLastChar) (pre.length + 5) = .ok (pre.length + 5 + Hm.length) := by
    apply skipW_run c o1 (· != W1.multiLineLastChar) Hm.length (pre.length + 5)
    · intro i hi
      have hmid : ∀ x ∈ Hm, (x != W1.multiLineLastChar) = true := by
        intro x hx
        have h62 : W1.multiLineLastChar = 62 := by decide
        simp only [h62, bne_iff_ne, ne_eq]
        exact hgt x hx
      have hpl := all_at (fun x => (x != W1.multiLineLastChar) = true) (pre ++ LOOPW) Hm ([62] ++ rest) hmid i hi
      rw [hl5] at hpl
      rw [hc6]; exact hpl
    · omega
    · right; exact ⟨62, hgt62, by decide⟩
  have hoff : (stAt stk acc (pre.length + 5) 7 : PState R).off = pre.length + 5 := rfl
  have hoff1 : (stAt stk acc o1 m1 : PState R).off = o1 := rfl
  have hch : (stAt stk acc o1 m1 : PState R).loopChain = [] := rfl
  have hstk : (stAt stk acc o1 m1 : PState R).stack = stk := rfl
  have h5 : W1.loopPrefixLength = 5 := by decide
  have hco : trunc bits_LoopTag_ContentOffset (pre.length + 5 + Hm.length + W1.multiLineSuffixLength - pre.length) =
      6 + Hm.length := by
    simp only [trunc, show bits_LoopTag_ContentOffset = 16 by decide, show W1.multiLineSuffixLength = 1 by decide]
    omega
  simp only [stepLoop, hoff, h1, bind, Except.bind, hoff1, h5, Nat.add_sub_cancel, hsk,
    show pre.length + 5 + Hm.length < o1 by omega, if_true, hch, hstk, hpla, hco]
  rfl

/-- `parseLoopAttributes` on the printed attribute ` value="V"` of a top-level loop without `set` -/
theorem pla_print0 (c : List Nat) (L : Nat) (V : List Nat)
    (hh : ∀ i (hi : i < 8), c[L + 5 + i]? = [32, 118, 97, 108, 117, 101, 61, 34][i]?)
    (hv : ∀ i (hi : i < V.length), c[L + 13 + i]? = some V[i])
    (hq : c[L + 13 + V.length]? = some 34)
    (hV : ∀ x ∈ V, x ≠ 34) (fuel lv : Nat) (hV8 : V.length < 256) :
    parseLoopAttributes c (L + 14 + V.length) [] (fuel + 1) (L + 5) .none
        ({ off := L, level := lv } : LoopFields) =
      .ok { off := L, level := lv, valueOff := 13, valueLen := V.length } := by
  have c5 : c[L + 5]? = some 32 := hh 0 (by omega)
  have c6 : c[L + 6]? = some 118 := hh 1 (by omega)
  have c7 : c[L + 7]? = some 97 := hh 2 (by omega)
  have c8 : c[L + 8]? = some 108 := hh 3 (by omega)
  have c9 : c[L + 9]? = some 117 := hh 4 (by omega)
  have c10 : c[L + 10]? = some 101 := hh 5 (by omega)
  have c11 : c[L + 11]? = some 61 := hh 6 (by omega)
  have c12 : c[L + 12]? = some 34 := hh 7 (by omega)
  have a1 : skipW c (L + 14 + V.length) (· == W1.spaceChar) (L + 5) = .ok (L + 6) := by
    apply skipW_run c _ _ 1 (L + 5)
    · intro i hi
      have : i = 0 := by omega
      subst this
      exact ⟨32, c5, by decide⟩
    · omega
    · right; exact ⟨118, c6, by decide⟩
  have b1 : andEqualAt (decide (L + 14 + V.length - (L + 6) > W1.valueLength)) c (L + 6) W1.valueStr = .ok true := by
    have : decide (L + 14 + V.length - (L + 6) > W1.valueLength) = true := by
      simp only [show W1.valueLength = 5 by decide, decide_eq_true_eq]; omega
    simp only [andEqualAt, this, if_true]
    apply isEqualAt_true
    intro i hi
    have hi5 : i < 5 := by simpa [show W1.valueStr = [118, 97, 108, 117, 101] by decide] using hi
    have : i = 0 ∨ i = 1 ∨ i = 2 ∨ i = 3 ∨ i = 4 := by omega
    rcases this with h | h | h | h | h <;> subst h
    · rw [show L + 6 + 0 = L + 6 by omega, c6]; rfl
    · rw [show L + 6 + 1 = L + 7 by omega, c7]; rfl
    · rw [show L + 6 + 2 = L + 8 by omega, c8]; rfl
    · rw [show L + 6 + 3 = L + 9 by omega, c9]; rfl
    · rw [show L + 6 + 4 = L + 10 by omega, c10]; rfl
  have c1 : skipW c (L + 14 + V.length) (· != W1.equalChar) (L + 6 + W1.valueLength) = .ok (L + 11) := by
    rw [show W1.valueLength = 5 by decide]
    exact skipW_run c _ _ 0 (L + 11) (by intro i hi; omega) (by omega) (Or.inr ⟨61, c11, by decide⟩)
  have dd1 : doSkipW c (L + 14 + V.length) (· == W1.spaceChar) (L + 11) = .ok (L + 12) := by
    exact skipW_run c _ _ 0 (L + 12) (by intro i hi; omega) (by omega) (Or.inr ⟨34, c12, by decide⟩)
  have ee1 : doSkipW c (L + 14 + V.length) (· != 34) (L + 12) = .ok (L + 13 + V.length) := by
    apply skipW_run c _ _ V.length (L + 13)
    · intro i hi
      refine ⟨V[i], hv i hi, ?_⟩
      have := hV V[i] (List.getElem_mem hi)
      simpa using this
    · omega
    · right; exact ⟨34, hq, by decide⟩
  have hvo : trunc bits_LoopTag_ValueOffset (L + 12 + 1 - L) = 13 := by
    simp only [trunc, show bits_LoopTag_ValueOffset = 8 by decide]; omega
  have hvl : trunc bits_LoopTag_ValueLength (L + 13 + V.length - (L + 12 + 1)) = V.length := by
    simp only [trunc, show bits_LoopTag_ValueLength = 8 by decide]; omega
  simp only [parseLoopAttributes, a1, bind, Except.bind, show L + 6 < L + 14 + V.length by omega, if_true,
    rd_some c (L + 6) 118 c6, show W1.setSortChar = 115 by decide, show W1.valueChar = 118 by decide,
    show ¬ ((118 : Nat) = 115) by decide, if_false, b1, pure, Except.pure, c1, dd1,
    show L + 12 < L + 14 + V.length by omega, rd_some c (L + 12) 34 c12, ee1, hvo, hvl,
    show ¬ (L + 13 + V.length + 1 < L + 14 + V.length) by omega]

/-! ### variables under the loop's chain -/

theorem isEqualRange_pref (c : List Nat) : ∀ (V X A B R : List Nat), c = A ++ X → c = B ++ (V ++ R) →
    (∃ j : Nat, X[j]? = some 125) → (∀ x ∈ V, x ≠ 125) →
    isEqualRange c V.length A.length B.length = .ok (V.isPrefixOf X) := by
  intro V
  induction V with
  | nil => intro X A B R _ _ _ _; simp [isEqualRange]
  | cons v V' ih =>
    intro X A B R h1 h2 hstop hV
    obtain ⟨j, hj⟩ := hstop
    cases X with
    | nil => simp at hj
    | cons x X' =>
      have ha : c[A.length]? = some x := by rw [h1]; simp
      have hb : c[B.length]? = some v := by rw [h2]; simp
      simp only [List.length_cons, isEqualRange, rd_some c _ x ha, rd_some c _ v hb, bind, Except.bind]
      by_cases hxv : x = v
      · subst hxv
        simp only [if_true]
        have hj0 : j ≠ 0 := by
          intro h0; subst h0
          simp at hj
          exact hV x (List.mem_cons_self ..) hj
        have := ih X' (A ++ [x]) (B ++ [x]) R (by rw [h1]; simp) (by rw [h2]; simp)
          ⟨j - 1, by
            have : j = (j - 1) + 1 := by omega
            rw [this] at hj; simpa using hj⟩
          (fun y hy => hV y (List.mem_cons_of_mem _ hy))
        simp only [List.length_append, List.length_cons, List.length_nil, Nat.zero_add] at this
        rw [this]
        simp [List.isPrefixOf]
      · simp only [hxv, if_false]
        have : (v == x) = false := by simpa using fun h => hxv h.symm
        simp [List.isPrefixOf, this]

/-- `checkLoopVariable` for a variable at `A.length` inside one loop whose value name `V` stands at `B.length` -/
theorem checkLoopVariable_one (c V X A B R : List Nat) (lv : Nat) (h1 : c = A ++ X) (h2 : c = B ++ (V ++ R))
    (hstop : ∃ j : Nat, X[j]? = some 125) (hV : ∀ x ∈ V, x ≠ 125) :
    checkLoopVariable c A.length [⟨B.length, V.length, lv⟩] =
      .ok (if V.isPrefixOf X then some (V.length, lv) else none) := by
  simp only [checkLoopVariable, isEqualRange_pref c V X A B R h1 h2 hstop hV, bind, Except.bind]
  cases V.isPrefixOf X <;> simp

theorem finderNext_stAtL (c : List Nat) (ch : List LoopRef) (stk : List (Frame R)) (acc : List (Tag R))
    (o m o' m' : Nat) (h : next c o = .ok (o', m')) :
    finderNext c (stAtL ch stk acc o m) = .ok (stAtL ch stk acc o' m') := by
  simp [finderNext, stAtL, h, bind, Except.bind]

/-- the variable record `mkVar` makes from the answer of `checkLoopVariable` -/
def mkV (r : Option (Nat × Nat)) (off len : Nat) : VarRef :=
  match r with
  | some (a, b) => ⟨off, len, a, b⟩
  | none => ⟨off, len, 0, 0⟩

/-- one `{var:path}` / `{raw:path}` inside a loop body -/
theorem stepVar_segL (c : List Nat) (hn : c.length + 16 < 4294967296) (raw : Bool)
    (pre pa post : List Nat) (w : List Nat) (hw : w.length = 5)
    (hc : c = pre ++ ((w ++ pa ++ [125]) ++ post))
    (hp : plainL pa) (h0 : 0 < pa.length) (h255 : pa.length ≤ 255)
    (ch : List LoopRef) (stk : List (Frame R)) (acc : List (Tag R)) (m o' m' : Nat)
    (hnext : next c (pre.length + 5 + pa.length + 1) = .ok (o', m'))
    (r : Option (Nat × Nat)) (hck : checkLoopVariable c (pre.length + 5) ch = .ok r) :
    stepVar c (stAtL ch stk acc (pre.length + 5) m) raw =
      .ok (stAtL ch stk (acc ++ [if raw then Tag.raw (mkV r (pre.length + 5) pa.length)
                          else Tag.var (mkV r (pre.length + 5) pa.length)]) o' m') := by
  have hskip : next c (pre.length + 5) = next c (pre.length + 5 + pa.length) := by
    apply next_skip c pa.length (pre.length + 5)
    · rw [hc]; simp; omega
    · intro i hi
      have := plain_at (pre ++ w) pa ([125] ++ post) hp i hi
      simpa [hc, List.append_assoc, hw, Nat.add_assoc] using this
  have hclose : next c (pre.length + 5 + pa.length) = .ok (pre.length + 5 + pa.length + 1, 1) := by
    apply next_at_close
    have := get_mid (pre ++ w ++ pa) [125] post 0 (by simp)
    simpa [hc, List.append_assoc, hw, Nat.add_assoc] using this
  have h1 : finderNext c (stAtL ch stk acc (pre.length + 5) m) =
      .ok (stAtL ch stk acc (pre.length + 5 + pa.length + 1) 1) :=
    finderNext_stAtL c ch stk acc _ m _ _ (by rw [hskip, hclose])
  have hlen : (pre.length + 5 + pa.length + 1 - (pre.length + 5) - W1.inLineSuffixLength) % 256 = pa.length := by
    have : W1.inLineSuffixLength = 1 := by decide
    rw [this]; omega
  have htr : trunc bits_VariableTag_Length pa.length = pa.length := by
    have : bits_VariableTag_Length = 16 := by decide
    simp only [trunc, this]; omega
  simp only [stepVar, h1, bind, Except.bind]
  have hle : (stAtL ch stk acc (pre.length + 5 + pa.length + 1) 1 : PState R).mtch = W1.lineEndID := rfl
  simp only [hle, if_true]
  have hoff : (stAtL ch stk acc (pre.length + 5) m : PState R).off = pre.length + 5 := rfl
  have hoff2 : (stAtL ch stk acc (pre.length + 5 + pa.length + 1) 1 : PState R).off = pre.length + 5 + pa.length + 1 := rfl
  have hch : (stAtL ch stk acc (pre.length + 5 + pa.length + 1) 1 : PState R).loopChain = ch := rfl
  simp only [hoff, hoff2, hlen, hch]
  have hne : pa.length ≠ 0 := by omega
  simp only [ne_eq, hne, not_false_eq_true, if_true, htr]
  simp only [mkVar, hck, bind, Except.bind, pure, Except.pure]
  cases r with
  | none => cases raw <;> simp [finderNext, hnext, bind, Except.bind, stAtL, mkV]
  | some ab => obtain ⟨a, b⟩ := ab; cases raw <;> simp [finderNext, hnext, bind, Except.bind, stAtL, mkV]

theorem isPrefixOf_stop : ∀ (V pa rest : List Nat), (∀ x ∈ V, x ≠ 125) →
    V.isPrefixOf (pa ++ 125 :: rest) = V.isPrefixOf pa := by
  intro V
  induction V with
  | nil => intro pa rest _; simp [List.isPrefixOf]
  | cons v V' ih =>
    intro pa rest hV
    cases pa with
    | nil =>
      have : (v == 125) = false := by simpa using hV v (List.mem_cons_self ..)
      simp [List.isPrefixOf, this]
    | cons a pa' =>
      simp only [List.cons_append, List.isPrefixOf]
      rw [ih pa' rest (fun y hy => hV y (List.mem_cons_of_mem _ hy))]

/-- body segments of the partial loop theorem: text, `{var:}`, `{raw:}` -/
def Seg.okB : Seg → Prop
  | .math _ => False
  | s => s.ok

/-- the variable record of a body variable: a loop variable when its path starts with the value name -/
def bodyV (V : List Nat) (lv off : Nat) (pa : List Nat) : VarRef :=
  mkV (if V.isPrefixOf pa then some (V.length, lv) else none) off pa.length

def tagsOfLB (V : List Nat) (lv : Nat) (p : Nat) : List Seg → List (Tag R)
  | [] => []
  | .text s :: r => tagsOfLB V lv (p + s.length) r
  | .var pa :: r => .var (bodyV V lv (p + 5) pa) :: tagsOfLB V lv (p + 5 + pa.length + 1) r
  | .raw pa :: r => .raw (bodyV V lv (p + 5) pa) :: tagsOfLB V lv (p + 5 + pa.length + 1) r
  | .math e :: r => tagsOfLB V lv (p + 6 + e.length + 1) r

theorem parseMain_body (cfg : ScanCfg R) (c : List Nat) (hn : c.length + 16 < 4294967296)
    (V Bv Rv : List Nat) (lv : Nat) (hcv : c = Bv ++ (V ++ Rv)) (hV : ∀ x ∈ V, x ≠ 125)
    (stk : List (Frame R)) (post : List Nat) :
    ∀ (segs : List Seg) (pre : List Nat) (acc : List (Tag R)) (fuel o m o' m' : Nat),
      c = pre ++ (printSegs segs ++ post) → (∀ s ∈ segs, s.okB) →
      next c pre.length = .ok (o, m) →
      next c (pre.length + (printSegs segs).length) = .ok (o', m') →
      parseMain cfg c (fuel + nTags segs) (stAtL [⟨Bv.length, V.length, lv⟩] stk acc o m) =
        parseMain cfg c fuel (stAtL [⟨Bv.length, V.length, lv⟩] stk (acc ++ tagsOfLB V lv pre.length segs) o' m') := by
  intro segs
  induction segs with
  | nil =>
    intro pre acc fuel o m o' m' hc _ hnext hfin
    simp only [printSegs, List.length_nil, Nat.add_zero] at hfin
    rw [hnext] at hfin
    simp only [Except.ok.injEq, Prod.mk.injEq] at hfin
    obtain ⟨rfl, rfl⟩ := hfin
    simp [nTags, tagsOfLB]
  | cons sg rest ih =>
    intro pre acc fuel o m o' m' hc hok hnext hfin
    have hokr : ∀ s ∈ rest, s.okB := fun s hs => hok s (List.mem_cons_of_mem _ hs)
    have hsg := hok sg (List.mem_cons_self ..)
    -- a `{var:}` / `{raw:}` segment
    have hvar : ∀ (raw : Bool) (w pa : List Nat) (mid : Nat), w.length = 5 →
        c = pre ++ ((w ++ pa ++ [125]) ++ (printSegs rest ++ post)) → plainL pa → 0 < pa.length → pa.length ≤ 255 →
        mid ≠ 0 →
        (∀ st : PState R, st.mtch = mid → step cfg c st = stepVar c st raw) →
        next c (pre.length + ((w ++ pa ++ [125]) ++ printSegs rest).length) = .ok (o', m') →
        parseMain cfg c (fuel + nTags rest + 1) (stAtL [⟨Bv.length, V.length, lv⟩] stk acc (pre.length + 5) mid) =
          parseMain cfg c fuel (stAtL [⟨Bv.length, V.length, lv⟩] stk
            (acc ++ ((if raw then Tag.raw (bodyV V lv (pre.length + 5) pa) else Tag.var (bodyV V lv (pre.length + 5) pa)) ::
              tagsOfLB V lv (pre.length + 5 + pa.length + 1) rest)) o' m') := by
      intro raw w pa mid hw hc' hp h0 h255 hmid hdisp hfin'
      have hlen_le : pre.length + 5 + pa.length + 1 ≤ c.length := by rw [hc']; simp [hw]; omega
      obtain ⟨o1, m1, hn1, _⟩ := next_safe_total c (pre.length + 5 + pa.length + 1) hlen_le
      have hcA : c = (pre ++ w) ++ (pa ++ ([125] ++ (printSegs rest ++ post))) := by
        rw [hc']; simp [List.append_assoc]
      have hlA : (pre ++ w).length = pre.length + 5 := by simp [hw]
      have hck := checkLoopVariable_one c V (pa ++ ([125] ++ (printSegs rest ++ post))) (pre ++ w) Bv Rv lv hcA hcv
        ⟨pa.length, by simp⟩ hV
      rw [hlA, show pa ++ ([125] ++ (printSegs rest ++ post)) = pa ++ 125 :: (printSegs rest ++ post) from rfl,
        isPrefixOf_stop V pa _ hV] at hck
      have hstep := stepVar_segL c hn raw pre pa (printSegs rest ++ post) w hw hc' hp h0 h255
        [⟨Bv.length, V.length, lv⟩] stk acc mid o1 m1 hn1 _ hck
      rw [parseMain_step cfg c _ _ _ (by simpa [stAtL] using hmid) ((hdisp _ rfl).trans hstep)]
      have := ih (pre ++ (w ++ pa ++ [125]))
        (acc ++ [if raw then Tag.raw (bodyV V lv (pre.length + 5) pa) else Tag.var (bodyV V lv (pre.length + 5) pa)])
        fuel o1 m1 o' m' (by rw [hc']; simp [List.append_assoc]) hokr
        (by simp only [List.length_append, List.length_cons, List.length_nil, hw]
            rw [show pre.length + (5 + pa.length + (0 + 1)) = pre.length + 5 + pa.length + 1 by omega]
            exact hn1)
        (by rw [← hfin']; congr 1; simp [List.length_append]; omega)
      have hL : (pre ++ (w ++ pa ++ [125])).length = pre.length + 5 + pa.length + 1 := by simp [hw]; omega
      rw [hL] at this
      simp only [bodyV] at this ⊢
      rw [this]
      simp [List.append_assoc]
    cases sg with
    | text s =>
      simp only [Seg.okB, Seg.ok] at hsg
      simp only [printSegs, printSeg] at hc hfin
      have hskip : next c pre.length = next c (pre.length + s.length) := by
        apply next_skip c s.length pre.length (by rw [hc]; simp)
        intro i hi
        have := plain_at pre s (printSegs rest ++ post) hsg i hi
        rw [hc]; simpa [List.append_assoc] using this
      have := ih (pre ++ s) acc fuel o m o' m' (by rw [hc]; simp [List.append_assoc]) hokr
        (by rw [List.length_append, ← hskip]; exact hnext)
        (by rw [← hfin]; congr 1; simp [List.length_append]; omega)
      simpa [tagsOfLB, nTags, List.length_append] using this
    | var pa =>
      simp only [Seg.okB, Seg.ok] at hsg
      obtain ⟨hp, h0, h255⟩ := hsg
      simp only [printSegs, printSeg] at hc hfin
      have hat : next c pre.length = .ok (pre.length + 5, 2) := by
        have g := fun i (hi : i < 5) => get_mid pre [123, 118, 97, 114, 58] (pa ++ [125] ++ (printSegs rest ++ post)) i (by simpa using hi)
        have hc' : c = pre ++ ([123, 118, 97, 114, 58] ++ (pa ++ [125] ++ (printSegs rest ++ post))) := by
          rw [hc]; simp [List.append_assoc]
        apply next_at_var c pre.length (by omega)
        · have := g 0 (by omega); rw [hc']; simpa using this
        · have := g 1 (by omega); rw [hc']; simpa using this
        · have := g 2 (by omega); rw [hc']; simpa using this
        · have := g 3 (by omega); rw [hc']; simpa using this
        · have := g 4 (by omega); rw [hc']; simpa using this
      rw [hat] at hnext
      simp only [Except.ok.injEq, Prod.mk.injEq] at hnext
      obtain ⟨rfl, rfl⟩ := hnext
      have := hvar false [123, 118, 97, 114, 58] pa 2 rfl (by rw [hc]; simp [List.append_assoc]) hp h0 h255
        (by decide)
        (by intro st hst; simp only [step, hst]; first | done | rfl) (by rw [← hfin])
      rw [show fuel + nTags (Seg.var pa :: rest) = fuel + nTags rest + 1 by simp [nTags]; omega]
      simpa [tagsOfLB] using this
    | raw pa =>
      simp only [Seg.okB, Seg.ok] at hsg
      obtain ⟨hp, h0, h255⟩ := hsg
      simp only [printSegs, printSeg] at hc hfin
      have hat : next c pre.length = .ok (pre.length + 5, 3) := by
        have g := fun i (hi : i < 5) => get_mid pre [123, 114, 97, 119, 58] (pa ++ [125] ++ (printSegs rest ++ post)) i (by simpa using hi)
        have hc' : c = pre ++ ([123, 114, 97, 119, 58] ++ (pa ++ [125] ++ (printSegs rest ++ post))) := by
          rw [hc]; simp [List.append_assoc]
        apply next_at_raw c pre.length (by omega)
        · have := g 0 (by omega); rw [hc']; simpa using this
        · have := g 1 (by omega); rw [hc']; simpa using this
        · have := g 2 (by omega); rw [hc']; simpa using this
        · have := g 3 (by omega); rw [hc']; simpa using this
        · have := g 4 (by omega); rw [hc']; simpa using this
      rw [hat] at hnext
      simp only [Except.ok.injEq, Prod.mk.injEq] at hnext
      obtain ⟨rfl, rfl⟩ := hnext
      have := hvar true [123, 114, 97, 119, 58] pa 3 rfl (by rw [hc]; simp [List.append_assoc]) hp h0 h255
        (by decide)
        (by intro st hst; simp only [step, hst]; first | done | rfl) (by rw [← hfin])
      rw [show fuel + nTags (Seg.raw pa :: rest) = fuel + nTags rest + 1 by simp [nTags]; omega]
      simpa [tagsOfLB] using this
    | math e => exact absurd hsg (by simp [Seg.okB])

/-! ### the whole parse -/

/-- `</loop>` at `q` closing the loop opened by the printed header -/
theorem stepLoopEnd_print (c : List Nat) (ref : LoopRef) (acc sub : List (Tag R)) (f : LoopFields)
    (stk : List (Frame R)) (q o' m' : Nat) (hq : f.off + f.contentOff ≤ q)
    (hnext : next c (q + 7) = .ok (o', m')) :
    stepLoopEnd c (stAtL [ref] (.loop acc f [] :: stk) sub (q + 7) 8) =
      .ok (stAt stk (acc ++ [.loop sub { f with endOff := q }]) o' m') := by
  have h7 : W1.loopSuffixLength = 7 := by decide
  simp only [stepLoopEnd, stAtL, h7, Nat.add_sub_cancel, pure, Except.pure, bind, Except.bind,
    show ¬ (q < f.off + f.contentOff) by omega, if_false, finderNext, hnext, stAt]

/-! ### the whole parse, any header -/

/-- segments, `<loop` ++ `Hm` ++ `>`, body, `</loop>`, segments -/
def printLoopG (segs0 : List Seg) (Hm : List Nat) (body segs1 : List Seg) : List Nat :=
  printSegs segs0 ++ (LOOPW ++ (Hm ++ ([62] ++ (printSegs body ++ (LOOPEND ++ printSegs segs1)))))

def tagsLoopG (cfg : ScanCfg R) (c : List Nat) (segs0 : List Seg) (Hm : List Nat) (f0 : LoopFields) (V : List Nat)
    (body segs1 : List Seg) : List (Tag R) :=
  tagsOf cfg c 0 segs0 ++
    (.loop (tagsOfLB V 0 ((printSegs segs0).length + 6 + Hm.length) body)
      { f0 with contentOff := 6 + Hm.length,
                endOff := (printSegs segs0).length + 6 + Hm.length + (printSegs body).length } ::
    tagsOf cfg c ((printSegs segs0).length + 6 + Hm.length + (printSegs body).length + 7) segs1)

theorem parse_loopG (cfg : ScanCfg R) (segs0 : List Seg) (Hm V : List Nat) (body segs1 : List Seg) (f0 : LoopFields)
    (h0 : ∀ s ∈ segs0, s.ok) (h1 : ∀ s ∈ segs1, s.ok) (hb : ∀ s ∈ body, s.okB)
    (hHm : plainL Hm) (hgt : ∀ x ∈ Hm, x ≠ 62) (hlen : Hm.length + 6 < 65536) (hV : ∀ x ∈ V, x ≠ 125)
    (hn : (printLoopG segs0 Hm body segs1).length + 16 < 4294967296)
    (hpla : parseLoopAttributes (printLoopG segs0 Hm body segs1) ((printSegs segs0).length + 5 + Hm.length) []
      ((printSegs segs0).length + 5 + Hm.length + 2) ((printSegs segs0).length + 5) .none
      ({ off := (printSegs segs0).length, level := 0 } : LoopFields) = .ok f0)
    (hoff0 : f0.off = (printSegs segs0).length) (hlv0 : f0.level = 0) (hvl0 : f0.valueLen = V.length)
    (Bv Rv : List Nat) (hcv : printLoopG segs0 Hm body segs1 = Bv ++ (V ++ Rv))
    (hBv : Bv.length = (printSegs segs0).length + f0.valueOff) :
    parse cfg (printLoopG segs0 Hm body segs1) =
      .ok (tagsLoopG cfg (printLoopG segs0 Hm body segs1) segs0 Hm f0 V body segs1) := by
  generalize hcdef : printLoopG segs0 Hm body segs1 = c at hn hpla hcv ⊢
  have hc : c = printSegs segs0 ++ (LOOPW ++ (Hm ++ ([62] ++ (printSegs body ++ (LOOPEND ++ printSegs segs1))))) :=
    hcdef.symm
  have hLW : LOOPW.length = 5 := rfl
  have hLE : LOOPEND.length = 7 := rfl
  have hclen : c.length = (printSegs segs0).length + 6 + Hm.length + (printSegs body).length + 7 +
      (printSegs segs1).length := by
    rw [hc]; simp only [List.length_append, hLW, hLE, List.length_cons, List.length_nil]; omega
  obtain ⟨o, m, hnx, _⟩ := next_safe_total c 0 (Nat.zero_le _)
  have hst0 : finderNext c ({} : PState R) = .ok (stAt [] [] o m) := by
    simp [finderNext, hnx, bind, Except.bind, stAt]
  have hc0 : c = ([] : List Nat) ++ (printSegs segs0 ++ (LOOPW ++ (Hm ++ ([62] ++ (printSegs body ++ (LOOPEND ++ printSegs segs1)))))) := by
    rw [hc]; rfl
  have gl := fun i (hi : i < 5) => get_mid (printSegs segs0) LOOPW (Hm ++ ([62] ++ (printSegs body ++ (LOOPEND ++ printSegs segs1)))) i
    (by rw [hLW]; exact hi)
  have hloop : next c (printSegs segs0).length = .ok ((printSegs segs0).length + 5, 7) := by
    apply next_at_loop c _ hn
    · rw [hc]; exact gl 0 (by omega)
    · rw [hc]; exact gl 1 (by omega)
    · rw [hc]; exact gl 2 (by omega)
    · rw [hc]; exact gl 3 (by omega)
    · rw [hc]; exact gl 4 (by omega)
  obtain ⟨o2, m2, hn2, _⟩ := next_safe_total c ((printSegs segs0).length + 6 + Hm.length) (by omega)
  have hcq : c = (printSegs segs0 ++ (LOOPW ++ (Hm ++ ([62] ++ printSegs body)))) ++ (LOOPEND ++ printSegs segs1) := by
    rw [hc]; simp [List.append_assoc]
  have hlq : (printSegs segs0 ++ (LOOPW ++ (Hm ++ ([62] ++ printSegs body)))).length =
      (printSegs segs0).length + 6 + Hm.length + (printSegs body).length := by
    simp only [List.length_append, hLW, List.length_cons, List.length_nil]; omega
  have gq : ∀ i (hi : i < 7),
      c[(printSegs segs0).length + 6 + Hm.length + (printSegs body).length + i]? = LOOPEND[i]? := by
    intro i hi
    have := get_mid (printSegs segs0 ++ (LOOPW ++ (Hm ++ ([62] ++ printSegs body)))) LOOPEND
      (printSegs segs1) i (by rw [hLE]; exact hi)
    rw [hlq] at this
    rw [hcq]; exact this
  have hend : next c ((printSegs segs0).length + 6 + Hm.length + (printSegs body).length) =
      .ok ((printSegs segs0).length + 6 + Hm.length + (printSegs body).length + 7, 8) :=
    next_at_loopend c _ hn (gq 0 (by omega)) (gq 1 (by omega)) (gq 2 (by omega)) (gq 3 (by omega)) (gq 4 (by omega))
      (gq 5 (by omega)) (gq 6 (by omega))
  obtain ⟨o4, m4, hn4, _⟩ := next_safe_total c
    ((printSegs segs0).length + 6 + Hm.length + (printSegs body).length + 7) (by omega)
  have hfinal : next c c.length = .ok (c.length, 0) :=
    next_plain_end c c.length (Nat.le_refl _) (by intro i h1 h2; omega)
  have hlv : trunc bits_LoopTag_Level ([] : List (Frame R)).length = 0 := by simp [trunc]
  have hN : nTags segs0 + nTags body + nTags segs1 + 2 ≤ c.length := by
    have a := nTags_le segs0
    have b := nTags_le body
    have d := nTags_le segs1
    omega
  have hm1 := parseMain_segs cfg c hn [] _ segs0 [] []
    (2 * c.length + 4 - (nTags segs0 + nTags body + nTags segs1 + 2) + nTags segs1 + 1 + nTags body + 1)
    o m _ _ hc0 h0 (fun s _ => Seg.scanOk_all _ s) hnx (by simpa using hloop)
  simp only [List.nil_append, List.length_nil] at hm1
  have hs2 := stepLoop_gen c (printSegs segs0) Hm _ hc hn hHm hgt hlen
    ([] : List (Frame R)) (tagsOf cfg c 0 segs0) f0 (by rw [hlv]; exact hpla) hoff0 o2 m2 hn2
  have href : (⟨f0.off + f0.valueOff, f0.valueLen, f0.level⟩ : LoopRef) =
      ⟨(printSegs segs0).length + f0.valueOff, V.length, 0⟩ := by rw [hoff0, hlv0, hvl0]
  rw [href] at hs2
  have hd7 : step cfg c (stAt [] (tagsOf cfg c 0 segs0) ((printSegs segs0).length + 5) 7) =
      stepLoop c (stAt [] (tagsOf cfg c 0 segs0) ((printSegs segs0).length + 5) 7) := by
    simp only [step, stAt]; rfl
  have hcb : c = (printSegs segs0 ++ (LOOPW ++ (Hm ++ [62]))) ++ (printSegs body ++ (LOOPEND ++ printSegs segs1)) := by
    rw [hc]; simp [List.append_assoc]
  have hlb : (printSegs segs0 ++ (LOOPW ++ (Hm ++ [62]))).length = (printSegs segs0).length + 6 + Hm.length := by
    simp only [List.length_append, hLW, List.length_cons, List.length_nil]; omega
  have hm3 := parseMain_body cfg c hn V Bv Rv 0 hcv hV
    [.loop (tagsOf cfg c 0 segs0) { f0 with contentOff := 6 + Hm.length } []] (LOOPEND ++ printSegs segs1) body _ []
    (2 * c.length + 4 - (nTags segs0 + nTags body + nTags segs1 + 2) + nTags segs1 + 1)
    o2 m2 _ _ hcb hb (by rw [hlb]; exact hn2) (by rw [hlb]; exact hend)
  rw [hBv, hlb] at hm3
  simp only [List.nil_append] at hm3
  have hs4 := stepLoopEnd_print c ⟨(printSegs segs0).length + f0.valueOff, V.length, 0⟩ (tagsOf cfg c 0 segs0)
    (tagsOfLB V 0 ((printSegs segs0).length + 6 + Hm.length) body)
    { f0 with contentOff := 6 + Hm.length } [] _ o4 m4 (by simp [hoff0]; omega) hn4
  have hd8 : ∀ st : PState R, st.mtch = 8 → step cfg c st = stepLoopEnd c st := by
    intro st hst; simp only [step, hst]; first | done | rfl
  have hc5 : c = (printSegs segs0 ++ (LOOPW ++ (Hm ++ ([62] ++ (printSegs body ++ LOOPEND))))) ++ (printSegs segs1 ++ []) := by
    rw [hc]; simp [List.append_assoc]
  have hl5 : (printSegs segs0 ++ (LOOPW ++ (Hm ++ ([62] ++ (printSegs body ++ LOOPEND))))).length =
      (printSegs segs0).length + 6 + Hm.length + (printSegs body).length + 7 := by
    simp only [List.length_append, hLW, hLE, List.length_cons, List.length_nil]; omega
  have hm5 := parseMain_segs cfg c hn [] [] segs1 _
    (tagsOf cfg c 0 segs0 ++ [.loop (tagsOfLB V 0 ((printSegs segs0).length + 6 + Hm.length) body)
      { f0 with contentOff := 6 + Hm.length,
                endOff := (printSegs segs0).length + 6 + Hm.length + (printSegs body).length }])
    (2 * c.length + 4 - (nTags segs0 + nTags body + nTags segs1 + 2)) o4 m4 c.length 0 hc5 h1
    (fun s _ => Seg.scanOk_all _ s) (by rw [hl5]; exact hn4) (by rw [hl5]; rw [← hclen]; exact hfinal)
  rw [hl5] at hm5
  have hlast : ∀ acc : List (Tag R), parseMain cfg c (2 * c.length + 4 - (nTags segs0 + nTags body + nTags segs1 + 2))
      (stAt [] acc c.length 0) = .ok (stAt [] acc c.length 0) := by
    intro acc
    rw [show 2 * c.length + 4 - (nTags segs0 + nTags body + nTags segs1 + 2) =
      (2 * c.length + 3 - (nTags segs0 + nTags body + nTags segs1 + 2)) + 1 by omega]
    simp [parseMain, stAt]
  have htotal : parseMain cfg c (2 * c.length + 4) (stAt [] [] o m) =
      .ok (stAt [] (tagsLoopG cfg c segs0 Hm f0 V body segs1) c.length 0) := by
    rw [show 2 * c.length + 4 = 2 * c.length + 4 - (nTags segs0 + nTags body + nTags segs1 + 2) + nTags segs1 + 1 +
      nTags body + 1 + nTags segs0 by omega, hm1,
      parseMain_step cfg c _ _ _ (by simp [stAt]) (hd7.trans hs2), hm3,
      parseMain_step cfg c _ _ _ (by simp [stAtL]) ((hd8 _ rfl).trans hs4), hm5, hlast]
    simp [tagsLoopG, List.append_assoc]
  simp only [stAt] at hst0 htotal
  simp only [parse, hst0, bind, Except.bind, htotal, cleanup]

/-! ### rendering -/

section
variable [RealLike R]

/-- `getValue` of a loop variable `name[k1]…` whose loop item is `it` -/
theorem getValue_loopvar (cx : RCtx R) (hg : cx.guardIndexRead = true) (st : RState)
    (A post name : List Nat) (keys : List (List Nat))
    (hc : cx.content = A ++ ((name ++ brk keys) ++ post))
    (hne : name ≠ []) (hn : noB name) (hk : ∀ k ∈ keys, noB k) (lv : Nat) (it : LoopItem)
    (hit : st.items[lv]? = some it) :
    getValue cx st ⟨A.length, (name ++ brk keys).length, name.length, lv⟩ = .ok (follow it.value keys) := by
  have hnl : 0 < name.length := List.length_pos_iff.mpr hne
  have hia : itemAt st lv = .ok it := by simp [itemAt, hit]
  cases keys with
  | nil =>
    simp only [brk, List.append_nil] at hc ⊢
    have hlast : rd cx.content (A.length + name.length - 1) = .ok name[name.length - 1] := by
      apply rd_some
      rw [show A.length + name.length - 1 = A.length + (name.length - 1) by omega, hc]
      exact get_at A name post _ (by omega)
    have hne93 : (name[name.length - 1] == W1.variableIndexSuffix) = false := by
      have := (hn _ (List.getElem_mem (show name.length - 1 < name.length by omega))).2
      simp only [show W1.variableIndexSuffix = 93 by decide]; simpa using this
    simp [getValue, hlast, hne93, hia, bind, Except.bind, pure, Except.pure, follow,
      show name.length ≠ 0 by omega]
  | cons k ks =>
    obtain ⟨ini, hini⟩ := brk_last k ks
    have hlen : (name ++ brk (k :: ks)).length = name.length + ini.length + 1 := by
      rw [hini]; simp; omega
    have hlast : rd cx.content (A.length + (name ++ brk (k :: ks)).length - 1) = .ok 93 := by
      apply rd_some
      rw [hlen, show A.length + (name.length + ini.length + 1) - 1 = (A ++ name).length + ini.length by simp; omega,
        hc, hini]
      have := get_after (A ++ name) ini 93 post
      simpa [List.append_assoc] using this
    have hb : brk (k :: ks) = 91 :: (k ++ 93 :: brk ks) := by simp [brk]
    have hp := getValuePath_keys cx hg A.length (name ++ brk (k :: ks)).length ks k it.value
      (A ++ name ++ [91]) post (name.length + 1) ((name ++ brk (k :: ks)).length + 2)
      (by rw [hc, hb]; simp [List.append_assoc]) (by simp [Nat.add_assoc]) (by rw [hb]; simp; omega)
      (hk k (List.mem_cons_self ..)) (fun x hx => hk x (List.mem_cons_of_mem _ hx))
      (by have := brk_length (k :: ks); simp only [List.length_append, List.length_cons] at this ⊢; omega)
    simp only [getValue, hlast, bind, Except.bind, pure, Except.pure,
      show (name ++ brk (k :: ks)).length ≠ 0 by omega, ne_eq, not_false_eq_true, if_true,
      show ((93 : Nat) == W1.variableIndexSuffix) = true by decide, Bool.not_true, Bool.false_eq_true, if_false,
      show ¬ name.length = 0 by omega, hia, hp]

theorem isPrefixOf_self_append : ∀ (V rest : List Nat), V.isPrefixOf (V ++ rest) = true := by
  intro V
  induction V with
  | nil => intro rest; simp [List.isPrefixOf]
  | cons v V' ih => intro rest; simp [List.isPrefixOf, ih]

/-- paths of body variables: the documented shape, and a path that starts with the loop's value
name IS the loop variable (its name part is the value name) -/
def BodyPathOk (V p : List Nat) : Prop :=
  ∃ name keys, p = name ++ brk keys ∧ name ≠ [] ∧ noB name ∧ (∀ k ∈ keys, noB k) ∧
    (V.isPrefixOf p = true → name = V)

theorem getValue_body (cx : RCtx R) (hg : cx.guardIndexRead = true) (st : RState)
    (A post p : List Nat) (hc : cx.content = A ++ (p ++ post)) (V : List Nat) (lv : Nat) (x : Doc) (key : List Nat)
    (hp : BodyPathOk V p) (hit : st.items[lv]? = some ⟨some x, key⟩) :
    getValue cx st (bodyV V lv A.length p) = .ok (resolve cx.root [⟨V, x, key⟩] p).1 ∧
    loopKeyText st (bodyV V lv A.length p) =
      .ok (match (resolve cx.root [⟨V, x, key⟩] p).2 with
        | some bd => if bd.key.length = 0 then none else some bd.key
        | none => none) := by
  obtain ⟨name, keys, rfl, hne, hn, hk, hpre⟩ := hp
  have hsp := splitPath_ok name keys hn hk
  by_cases hv : V.isPrefixOf (name ++ brk keys) = true
  · have hnv := hpre hv
    subst hnv
    have hres : resolve cx.root [⟨name, x, key⟩] (name ++ brk keys) = (follow (some x) keys, some ⟨name, x, key⟩) := by
      simp [resolve, hsp]
    have hbv : bodyV name lv A.length (name ++ brk keys) = ⟨A.length, (name ++ brk keys).length, name.length, lv⟩ := by
      simp [bodyV, hv, mkV]
    rw [hbv, hres]
    refine ⟨getValue_loopvar cx hg st A post name keys hc hne hn hk lv _ hit, ?_⟩
    have hnl : name.length ≠ 0 := by
      have := List.length_pos_iff.mpr hne; omega
    simp [loopKeyText, hnl, itemAt, hit]
  · have hnv : name ≠ V := by
      intro h; subst h; exact hv (isPrefixOf_self_append name _)
    have hres : resolve cx.root [⟨V, x, key⟩] (name ++ brk keys) = (follow (cx.root.getKey name) keys, none) := by
      have : (V == name) = false := by simpa using fun h => hnv h.symm
      simp [resolve, hsp, this]
    have hbv : bodyV V lv A.length (name ++ brk keys) = ⟨A.length, (name ++ brk keys).length, 0, 0⟩ := by
      simp [bodyV, hv, mkV]
    rw [hbv, hres]
    exact ⟨getValue_top cx hg st A post name keys hc hne hn hk, by simp [loopKeyText]⟩


/-- what the document says a body segment prints under the bindings `sc` -/
def expSegB (cx : RCtx R) (sc : List Binding) : Seg → List Nat
  | .text s => s
  | .var p =>
    match (resolve cx.root sc p).1.bind (copyValue cx true) with
    | some t => t
    | none =>
      match (resolve cx.root sc p).2 with
      | some bd =>
        if bd.key.isEmpty then Qentem.Escape.escapeCfg cx.autoEscape (printSeg (.var p))
        else Qentem.Escape.escapeCfg cx.autoEscape bd.key
      | none => Qentem.Escape.escapeCfg cx.autoEscape (printSeg (.var p))
  | .raw p =>
    match (resolve cx.root sc p).1.bind (copyValue cx false) with
    | some t => t
    | none => printSeg (.raw p)
  | .math e =>
    match (evalText (specOf cx) sc e).bind (numText (specOf cx)) with
    | some t => t
    | none => printSeg (.math e)

def expSegsB (cx : RCtx R) (sc : List Binding) : List Seg → List Nat
  | [] => []
  | s :: r => expSegB cx sc s ++ expSegsB cx sc r

theorem renderVariable_body (cx : RCtx R) (hg : cx.guardIndexRead = true) (st : RState)
    (B txt p post : List Nat)
    (hc : cx.content = B ++ (txt ++ (([123, 118, 97, 114, 58] ++ p ++ [125]) ++ post)))
    (V : List Nat) (lv : Nat) (x : Doc) (key : List Nat) (hp : BodyPathOk V p)
    (hit : st.items[lv]? = some ⟨some x, key⟩) :
    renderVariable cx st (bodyV V lv ((B ++ txt).length + 5) p) B.length =
      .ok (emit (emit st txt) (expSegB cx [⟨V, x, key⟩] (.var p)), (B ++ txt).length + 5 + p.length + 1) := by
  have h5 : W1.variablePrefixLength = 5 := by decide
  have h6 : W1.variableFullLength = 6 := by decide
  have hsl : slice cx.content B.length (B ++ txt).length = .ok txt := by rw [hc]; exact slice_from B txt _
  have hA : (B ++ txt).length + 5 = (B ++ txt ++ [123, 118, 97, 114, 58]).length := by simp [Nat.add_assoc]
  have hgk := getValue_body cx hg (emit st txt) (B ++ txt ++ [123, 118, 97, 114, 58]) ([125] ++ post) p
    (by rw [hc]; simp [List.append_assoc]) V lv x key hp (by simpa [emit] using hit)
  rw [← hA] at hgk
  obtain ⟨hgv, hkt⟩ := hgk
  have hsrc : slice cx.content (B ++ txt).length ((B ++ txt).length + (p.length + 6)) =
      .ok (printSeg (.var p)) := by
    have := slice_mid (B ++ txt) ([123, 118, 97, 114, 58] ++ p ++ [125]) post
    rw [hc]
    simpa [printSeg, List.append_assoc, Nat.add_assoc] using this
  have hoff : (bodyV V lv ((B ++ txt).length + 5) p).off = (B ++ txt).length + 5 := by
    simp only [bodyV, mkV]; split <;> rfl
  have hlen : (bodyV V lv ((B ++ txt).length + 5) p).len = p.length := by
    simp only [bodyV, mkV]; split <;> rfl
  simp only [renderVariable, subChk, h5, h6, hoff, hlen, show 5 ≤ (B ++ txt).length + 5 by omega, if_true,
    Nat.add_sub_cancel, bind, Except.bind, hsl, hgv, hkt, expSegB]
  cases hv : (resolve cx.root [⟨V, x, key⟩] p).1.bind (copyValue cx true) with
  | some t => simp; omega
  | none =>
    cases hb : (resolve cx.root [⟨V, x, key⟩] p).2 with
    | none => simp only [hsrc]; simp; omega
    | some bd =>
      by_cases hk0 : bd.key.length = 0
      · have : bd.key.isEmpty = true := by simpa [List.isEmpty_iff_length_eq_zero] using hk0
        simp only [hk0, if_true, hsrc, this]; simp; omega
      · have : bd.key.isEmpty = false := by
          cases hbk : bd.key with
          | nil => simp [hbk] at hk0
          | cons a b => rfl
        simp only [hk0, if_false, this]; simp; omega

theorem renderRaw_body (cx : RCtx R) (hg : cx.guardIndexRead = true) (st : RState)
    (B txt p post : List Nat)
    (hc : cx.content = B ++ (txt ++ (([123, 114, 97, 119, 58] ++ p ++ [125]) ++ post)))
    (V : List Nat) (lv : Nat) (x : Doc) (key : List Nat) (hp : BodyPathOk V p)
    (hit : st.items[lv]? = some ⟨some x, key⟩) :
    renderRawVariable cx st (bodyV V lv ((B ++ txt).length + 5) p) B.length =
      .ok (emit (emit st txt) (expSegB cx [⟨V, x, key⟩] (.raw p)), (B ++ txt).length + 5 + p.length + 1) := by
  have h5 : W1.rawVariablePrefixLength = 5 := by decide
  have h6 : W1.rawVariableFullLength = 6 := by decide
  have hsl : slice cx.content B.length (B ++ txt).length = .ok txt := by rw [hc]; exact slice_from B txt _
  have hA : (B ++ txt).length + 5 = (B ++ txt ++ [123, 114, 97, 119, 58]).length := by simp [Nat.add_assoc]
  have hgk := getValue_body cx hg (emit st txt) (B ++ txt ++ [123, 114, 97, 119, 58]) ([125] ++ post) p
    (by rw [hc]; simp [List.append_assoc]) V lv x key hp (by simpa [emit] using hit)
  rw [← hA] at hgk
  obtain ⟨hgv, _⟩ := hgk
  have hsrc : slice cx.content (B ++ txt).length ((B ++ txt).length + (p.length + 6)) =
      .ok (printSeg (.raw p)) := by
    have := slice_mid (B ++ txt) ([123, 114, 97, 119, 58] ++ p ++ [125]) post
    rw [hc]
    simpa [printSeg, List.append_assoc, Nat.add_assoc] using this
  have hoff : (bodyV V lv ((B ++ txt).length + 5) p).off = (B ++ txt).length + 5 := by
    simp only [bodyV, mkV]; split <;> rfl
  have hlen : (bodyV V lv ((B ++ txt).length + 5) p).len = p.length := by
    simp only [bodyV, mkV]; split <;> rfl
  simp only [renderRawVariable, subChk, h5, h6, hoff, hlen, show 5 ≤ (B ++ txt).length + 5 by omega, if_true,
    Nat.add_sub_cancel, bind, Except.bind, hsl, hgv, expSegB]
  cases hv : (resolve cx.root [⟨V, x, key⟩] p).1.bind (copyValue cx false) with
  | some t => simp; omega
  | none => simp only [hsrc]; simp; omega


def Seg.pathB (V : List Nat) : Seg → Prop
  | .var p => BodyPathOk V p
  | .raw p => BodyPathOk V p
  | _ => True

/-- rendering the body tags for one loop item -/
theorem render_body_end (cx : RCtx R) (hg : cx.guardIndexRead = true) (V : List Nat) (lv : Nat) (x : Doc)
    (key : List Nat) (post : List Nat) :
    ∀ (body : List Seg) (B txt : List Nat) (st : RState) (fuel : Nat),
      cx.content = B ++ (txt ++ (printSegs body ++ post)) → (∀ s ∈ body, s.okB) → (∀ s ∈ body, s.pathB V) →
      st.items[lv]? = some ⟨some x, key⟩ → 1 ≤ fuel →
      render cx (fuel + nTags body) (tagsOfLB V lv (B ++ txt).length body) B.length
          ((B ++ txt).length + (printSegs body).length) st =
        .ok (emit st (txt ++ expSegsB cx [⟨V, x, key⟩] body)) := by
  intro body
  induction body with
  | nil =>
    intro B txt st fuel hc _ _ _ hf
    obtain ⟨f, rfl⟩ : ∃ f, fuel = f + 1 := ⟨fuel - 1, by omega⟩
    have hsl : slice cx.content B.length (B.length + txt.length) = .ok txt := by
      rw [hc]; exact slice_mid B txt _
    simp [nTags, tagsOfLB, render, printSegs, hsl, bind, Except.bind, expSegsB]
  | cons sg rest ih =>
    intro B txt st fuel hc hok hpath hit hf
    have hokr : ∀ s ∈ rest, s.okB := fun s hs => hok s (List.mem_cons_of_mem _ hs)
    have hpr : ∀ s ∈ rest, s.pathB V := fun s hs => hpath s (List.mem_cons_of_mem _ hs)
    have hsg := hok sg (List.mem_cons_self ..)
    have hpg := hpath sg (List.mem_cons_self ..)
    have htag : ∀ (T : Tag R) (X : List Nat) (w : Nat),
        cx.content = (B ++ txt ++ printSeg sg) ++ ([] ++ (printSegs rest ++ post)) →
        (B ++ txt ++ printSeg sg).length = w →
        renderTag cx (fuel + nTags rest) T B.length st = .ok (emit (emit st txt) X, w) →
        render cx (fuel + nTags rest + 1) (T :: tagsOfLB V lv w rest) B.length
            (w + (printSegs rest).length) st =
          .ok (emit st (txt ++ (X ++ expSegsB cx [⟨V, x, key⟩] rest))) := by
      intro T X w hc' hw hrt
      have := ih (B ++ txt ++ printSeg sg) [] (emit (emit st txt) X) fuel hc' hokr hpr (by simpa [emit] using hit) hf
      simp only [render, hrt, bind, Except.bind]
      rw [← hw]
      simp only [List.append_nil] at this
      rw [this]
      congr 1
      apply RState.ext' <;> simp [emit, List.append_assoc]
    cases sg with
    | text s =>
      have := ih B (txt ++ s) st fuel (by rw [hc]; simp [printSegs, printSeg, List.append_assoc]) hokr hpr hit hf
      simp only [tagsOfLB, nTags, printSegs, printSeg, expSegsB, expSegB]
      rw [show (B ++ txt).length + s.length = (B ++ (txt ++ s)).length by simp [Nat.add_assoc]]
      rw [show (B ++ txt).length + (s ++ printSegs rest).length = (B ++ (txt ++ s)).length + (printSegs rest).length by
        simp [Nat.add_assoc]]
      rw [this]; simp [List.append_assoc]
    | var p =>
      simp only [Seg.pathB] at hpg
      have hv := renderVariable_body cx hg st B txt p (printSegs rest ++ post)
        (by rw [hc]; simp [printSegs, printSeg, List.append_assoc]) V lv x key hpg hit
      have hl : (B ++ txt ++ printSeg (.var p)).length = (B ++ txt).length + 5 + p.length + 1 := by
        simp [printSeg]; omega
      have := htag (.var (bodyV V lv ((B ++ txt).length + 5) p)) (expSegB cx [⟨V, x, key⟩] (.var p)) _
        (by rw [hc]; simp [printSegs, List.append_assoc]) hl (by
          rw [show fuel + nTags rest = (fuel - 1 + nTags rest) + 1 by omega]
          simp only [renderTag]; exact hv)
      simp only [tagsOfLB, nTags, printSegs, expSegsB]
      rw [show (B ++ txt).length + (printSeg (.var p) ++ printSegs rest).length =
        (B ++ txt).length + 5 + p.length + 1 + (printSegs rest).length by simp [printSeg]; omega]
      exact this
    | raw p =>
      simp only [Seg.pathB] at hpg
      have hv := renderRaw_body cx hg st B txt p (printSegs rest ++ post)
        (by rw [hc]; simp [printSegs, printSeg, List.append_assoc]) V lv x key hpg hit
      have hl : (B ++ txt ++ printSeg (.raw p)).length = (B ++ txt).length + 5 + p.length + 1 := by
        simp [printSeg]; omega
      have := htag (.raw (bodyV V lv ((B ++ txt).length + 5) p)) (expSegB cx [⟨V, x, key⟩] (.raw p)) _
        (by rw [hc]; simp [printSegs, List.append_assoc]) hl (by
          rw [show fuel + nTags rest = (fuel - 1 + nTags rest) + 1 by omega]
          simp only [renderTag]; exact hv)
      simp only [tagsOfLB, nTags, printSegs, expSegsB]
      rw [show (B ++ txt).length + (printSeg (.raw p) ++ printSegs rest).length =
        (B ++ txt).length + 5 + p.length + 1 + (printSegs rest).length by simp [printSeg]; omega]
      exact this
    | math e => exact absurd hsg (by simp [Seg.okB])


/-- the (key, item) pairs a loop runs over: array items have no key -/
def entsOf : Doc → List (List Nat × Doc)
  | .arr xs => xs.map (fun x => ([], x))
  | .obj ms => ms
  | _ => []

theorem entsOf_length (d : Doc) : (entsOf d).length = d.size := by
  cases d <;> simp [entsOf, Doc.size]

/-- what the items print: undefined ones nothing, the others `E item key` -/
def outEnts (E : Doc → List Nat → List Nat) : List (List Nat × Doc) → List Nat
  | [] => []
  | (k, v) :: r => (if v.isUndefined then [] else E v k) ++ outEnts E r

/-- the loop item of iteration `idx` -/
def itemOf (set : Doc) (idx : Nat) (it : LoopItem) : LoopItem :=
  if set.isObject then
    match set with
    | .obj ms => (match ms[idx]? with
      | some (k, v) => if v.isUndefined then { it with value := none } else { value := some v, key := k }
      | none => { it with value := none })
    | _ => it
  else { value := set.getIdx idx, key := [] }

theorem loopIter_succ (cx : RCtx R) (g : Nat) (sub : List (Tag R)) (f : LoopFields) (set : Doc) (size idx : Nat)
    (st : RState) :
    loopIter cx (g + 1) sub f set size idx st =
      if idx < size then do
        let it ← itemAt st f.level
        let st := { st with items := st.items.set f.level (itemOf set idx it) }
        let st ← (if (itemOf set idx it).value.isSome then render cx g sub (f.off + f.contentOff) f.endOff st else pure st)
        loopIter cx g sub f set size (idx + 1) st
      else .ok st := by
  simp only [loopIter, itemOf]
  rfl

theorem itemOf_ents (set : Doc) (idx : Nat) (it : LoopItem) (h : idx < (entsOf set).length) :
    (itemOf set idx it).value = (if (entsOf set)[idx].2.isUndefined then none else some (entsOf set)[idx].2) ∧
    ((entsOf set)[idx].2.isUndefined = false → (itemOf set idx it).key = (entsOf set)[idx].1) := by
  cases set with
  | arr xs =>
    simp only [entsOf, List.length_map] at h
    simp only [itemOf, Doc.isObject, Bool.false_eq_true, if_false, Doc.getIdx, List.getElem?_eq_getElem h, entsOf,
      List.getElem_map]
    refine ⟨?_, fun _ => trivial⟩
    by_cases hu : xs[idx].isUndefined = true <;> simp [hu]
  | obj ms =>
    simp only [entsOf] at h
    simp only [itemOf, Doc.isObject, if_true, List.getElem?_eq_getElem h, entsOf]
    by_cases hu : ms[idx].2.isUndefined = true
    · simp [hu]
    · simp [hu]
  | _ => simp [entsOf] at h

theorem loopIter_ents (cx : RCtx R) (sub : List (Tag R)) (f : LoopFields) (set : Doc)
    (E : Doc → List Nat → List Nat) (nb : Nat)
    (hbody : ∀ (x : Doc) (key : List Nat) (st : RState) (g : Nat), st.items[f.level]? = some ⟨some x, key⟩ → 1 ≤ g →
      render cx (g + nb) sub (f.off + f.contentOff) f.endOff st = .ok (emit st (E x key))) :
    ∀ (n idx : Nat) (st : RState) (fuel : Nat), idx + n = (entsOf set).length → f.level < st.items.length →
      n + nb + 1 ≤ fuel →
      ∃ st', loopIter cx fuel sub f set set.size idx st = .ok st' ∧
        st'.out = st.out ++ outEnts E ((entsOf set).drop idx) ∧ st'.items.length = st.items.length := by
  intro n
  induction n with
  | zero =>
    intro idx st fuel hn hl hf
    obtain ⟨g, rfl⟩ : ∃ g, fuel = g + 1 := ⟨fuel - 1, by omega⟩
    have : ¬ idx < set.size := by rw [← entsOf_length]; omega
    refine ⟨st, by simp [loopIter, this], ?_, rfl⟩
    rw [List.drop_of_length_le (by omega)]; simp [outEnts]
  | succ n ih =>
    intro idx st fuel hn hl hf
    obtain ⟨g, rfl⟩ : ∃ g, fuel = g + 1 := ⟨fuel - 1, by omega⟩
    have hlt : idx < set.size := by rw [← entsOf_length]; omega
    have hlt' : idx < (entsOf set).length := by omega
    obtain ⟨it, hit⟩ : ∃ it, st.items[f.level]? = some it := ⟨st.items[f.level], List.getElem?_eq_getElem hl⟩
    have hia : itemAt st f.level = .ok it := by simp [itemAt, hit]
    have hdrop : (entsOf set).drop idx = (entsOf set)[idx] :: (entsOf set).drop (idx + 1) :=
      List.drop_eq_getElem_cons hlt'
    obtain ⟨hval, hkey⟩ := itemOf_ents set idx it hlt'
    generalize hkv : (entsOf set)[idx] = kv at hval hkey
    obtain ⟨k, v⟩ := kv
    simp only at hval hkey
    generalize hit0 : itemOf set idx it = it0 at hval hkey
    have hset_len : (st.items.set f.level it0).length = st.items.length := by simp
    have hget : (st.items.set f.level it0)[f.level]? = some it0 := by
      simp [List.getElem?_set_self hl]
    rw [hdrop, hkv, loopIter_succ]
    simp only [hlt, if_true, hia, bind, Except.bind, hit0]
    cases hu : v.isUndefined
    · -- an item
      simp only [hu, Bool.false_eq_true, if_false] at hval
      have hk := hkey hu
      have hitem : it0 = ⟨some v, k⟩ := by cases it0; simp_all
      have hr := hbody v k { st with items := st.items.set f.level it0 } (g - nb) (by show (st.items.set f.level it0)[f.level]? = some ⟨some v, k⟩; rw [hget, hitem]) (by omega)
      rw [show g - nb + nb = g by omega] at hr
      simp only [hval, Option.isSome_some, if_true, hr]
      obtain ⟨st', h1, h2, h3⟩ := ih (idx + 1) (emit { st with items := st.items.set f.level it0 } (E v k)) g
        (by omega) (by simp [emit]; exact hl) (by omega)
      refine ⟨st', h1, ?_, ?_⟩
      · rw [h2]; simp [emit, outEnts, hu, List.append_assoc]
      · rw [h3]; simp [emit]
    · simp only [hu, if_true] at hval
      simp only [hval, Option.isSome_none, Bool.false_eq_true, if_false, pure, Except.pure]
      obtain ⟨st', h1, h2, h3⟩ := ih (idx + 1) { st with items := st.items.set f.level it0 } g
        (by omega) (by simp; exact hl) (by omega)
      refine ⟨st', h1, ?_, ?_⟩
      · rw [h2]; simp [outEnts, hu]
      · rw [h3]; simp


/-- the pairs a loop over the collection `coll` runs over -/
def entsO (coll : Option Doc) : List (List Nat × Doc) :=
  match coll with
  | some d => entsOf d
  | none => []

/-- rendering the `Loop` tag of a printed loop with any header -/
theorem renderLoop_gen (cx : RCtx R) (hg : cx.guardIndexRead = true) (B txt Hm V : List Nat) (body : List Seg)
    (post : List Nat) (f0 : LoopFields)
    (hc : cx.content = B ++ (txt ++ (LOOPW ++ (Hm ++ ([62] ++ (printSegs body ++ (LOOPEND ++ post)))))))
    (hoff0 : f0.off = (B ++ txt).length) (hlv0 : f0.level = 0) (hg0 : f0.groupLen = 0) (hop : f0.options = 0)
    (coll : Option Doc)
    (hset : ∀ st, (if f0.set.len ≠ 0 then getValue cx st f0.set else pure (some cx.root)) = .ok coll)
    (hb : ∀ s ∈ body, s.okB) (hpb : ∀ s ∈ body, s.pathB V) (st : RState) (fuel : Nat)
    (hf : (entsO coll).length + nTags body + 3 ≤ fuel) :
    ∃ st', renderTag cx fuel
        (.loop (tagsOfLB V 0 ((B ++ txt).length + 6 + Hm.length) body)
          { f0 with contentOff := 6 + Hm.length,
                    endOff := (B ++ txt).length + 6 + Hm.length + (printSegs body).length }) B.length st =
        .ok (st', (B ++ txt).length + 6 + Hm.length + (printSegs body).length + 7) ∧
      st'.out = st.out ++ (txt ++ outEnts (fun x key => expSegsB cx [⟨V, x, key⟩] body) (entsO coll)) := by
  obtain ⟨g, rfl⟩ : ∃ g, fuel = g + 1 := ⟨fuel - 1, by omega⟩
  have hsl : slice cx.content B.length (B ++ txt).length = .ok txt := by rw [hc]; exact slice_from B txt _
  have h7 : W1.loopSuffixLength = 7 := by decide
  simp only [renderTag, hoff0, hsl, bind, Except.bind, hset, h7, hg0, hop, hlv0]
  cases coll with
  | none =>
    refine ⟨emit st txt, rfl, ?_⟩
    simp [emit, entsO, outEnts]
  | some set0 =>
    simp only [not_true_eq_false, ne_eq, if_false, pure, Except.pure, show ¬ ((0 : Nat) > 1) by omega]
    have hcb : cx.content = (B ++ txt ++ LOOPW ++ Hm ++ [62]) ++ ([] ++ (printSegs body ++ (LOOPEND ++ post))) := by
      rw [hc]; simp [List.append_assoc]
    have hlb : (B ++ txt ++ LOOPW ++ Hm ++ [62]).length = (B ++ txt).length + 6 + Hm.length := by
      simp [LOOPW]; omega
    have hbody : ∀ (x : Doc) (key : List Nat) (s1 : RState) (k : Nat), s1.items[(0 : Nat)]? = some ⟨some x, key⟩ → 1 ≤ k →
        render cx (k + nTags body) (tagsOfLB V 0 ((B ++ txt).length + 6 + Hm.length) body)
          ((B ++ txt).length + (6 + Hm.length))
          ((B ++ txt).length + 6 + Hm.length + (printSegs body).length) s1 =
        .ok (emit s1 (expSegsB cx [⟨V, x, key⟩] body)) := by
      intro x key s1 k h1 hk
      have := render_body_end cx hg V 0 x key (LOOPEND ++ post) body (B ++ txt ++ LOOPW ++ Hm ++ [62]) [] s1 k
        hcb hb hpb h1 hk
      simp only [List.append_nil, hlb, List.nil_append] at this
      rw [show (B ++ txt).length + (6 + Hm.length) = (B ++ txt).length + 6 + Hm.length by omega]
      exact this
    obtain ⟨st', h1, h2, _⟩ := loopIter_ents cx (tagsOfLB V 0 ((B ++ txt).length + 6 + Hm.length) body)
      { f0 with off := (B ++ txt).length, level := 0, groupLen := 0, options := 0, contentOff := 6 + Hm.length,
                endOff := (B ++ txt).length + 6 + Hm.length + (printSegs body).length }
      set0 (fun x key => expSegsB cx [⟨V, x, key⟩] body) (nTags body) hbody (entsOf set0).length 0
      ⟨(emit st txt).out, (emit st txt).items ++ List.replicate (0 + 1 - (emit st txt).items.length) ({} : LoopItem)⟩
      g (by omega) (by simp; omega) (by simp only [entsO] at hf; omega)
    refine ⟨st', ?_, ?_⟩
    · simp only [h1]
    · rw [h2]; simp [emit, entsO, List.append_assoc]


/-! ### the reference interpreter on the loop -/

theorem expandList_body (cx : RCtx R) (sc : List Binding) :
    ∀ (segs : List Seg) (fuel : Nat), segs.length + 1 ≤ fuel →
      expandList (specOf cx) fuel sc (segsTpl segs) = expSegsB cx sc segs := by
  intro segs
  induction segs with
  | nil => intro fuel _; cases fuel <;> simp [expandList, segsTpl, expSegsB]
  | cons sg rest ih =>
    intro fuel hf
    cases fuel with
    | zero => omega
    | succ f =>
      cases f with
      | zero => simp at hf
      | succ g =>
        simp only [segsTpl, expandList, expSegsB]
        rw [ih (g + 1) (by simp at hf ⊢; omega)]
        congr 1
        cases sg with
        | text s => simp [Seg.toTpl, expandTpl, expSegB]
        | var p =>
          simp only [Seg.toTpl, expandTpl, expSegB, show (specOf cx).root = cx.root from rfl]
          rw [show printable (specOf cx) true = copyValue cx true from funext (printable_eq cx true)]
          cases hv : (resolve cx.root sc p).1.bind (copyValue cx true) with
          | some t => simp
          | none =>
            simp only [escapeS, show (specOf cx).autoEscape = cx.autoEscape from rfl]
            cases hb : (resolve cx.root sc p).2 with
            | none => simp [printTpl, printSeg, str]
            | some bd => simp [printTpl, printSeg, str]
        | raw p =>
          simp only [Seg.toTpl, expandTpl, expSegB, show (specOf cx).root = cx.root from rfl]
          rw [show printable (specOf cx) false = copyValue cx false from funext (printable_eq cx false)]
          cases hv : (resolve cx.root sc p).1.bind (copyValue cx false) with
          | some t => simp
          | none => simp [printTpl, printSeg, str]
        | math e =>
          simp only [Seg.toTpl, expandTpl, expSegB]
          cases hv : (evalText (specOf cx) sc e).bind (numText (specOf cx)) with
          | some t => rfl
          | none => simp [printTpl, printSeg, str]

theorem loopArr_ents (cx : RCtx R) (V : List Nat) (body : List Seg) :
    ∀ (xs : List Doc) (fuel : Nat), xs.length + body.length + 2 ≤ fuel →
      loopArr (specOf cx) fuel [] V (segsTpl body) xs =
        outEnts (fun x key => expSegsB cx [⟨V, x, key⟩] body) (xs.map (fun x => ([], x))) := by
  intro xs
  induction xs with
  | nil => intro fuel _; cases fuel <;> simp [loopArr, outEnts]
  | cons x xs ih =>
    intro fuel hf
    obtain ⟨g, rfl⟩ : ∃ g, fuel = g + 1 := ⟨fuel - 1, by omega⟩
    simp only [loopArr, List.map_cons, outEnts]
    rw [ih g (by simp at hf; omega), expandList_body cx _ body g (by simp at hf; omega)]

theorem loopObj_ents (cx : RCtx R) (V : List Nat) (body : List Seg) :
    ∀ (ms : List (List Nat × Doc)) (fuel : Nat), ms.length + body.length + 2 ≤ fuel →
      loopObj (specOf cx) fuel [] V (segsTpl body) ms =
        outEnts (fun x key => expSegsB cx [⟨V, x, key⟩] body) ms := by
  intro ms
  induction ms with
  | nil => intro fuel _; cases fuel <;> simp [loopObj, outEnts]
  | cons kx ms ih =>
    obtain ⟨k, x⟩ := kx
    intro fuel hf
    obtain ⟨g, rfl⟩ : ∃ g, fuel = g + 1 := ⟨fuel - 1, by omega⟩
    simp only [loopObj, outEnts]
    rw [ih g (by simp at hf; omega), expandList_body cx _ body g (by simp at hf; omega)]

/-- the template -/
def loopTpl (segs0 : List Seg) (S V : List Nat) (body segs1 : List Seg) : List Tpl :=
  segsTpl segs0 ++ (.loop S V (segsTpl body) :: segsTpl segs1)

/-! ### any header: render and reference -/

theorem renderTop_loopG (cx : RCtx R) (cfg : ScanCfg R) (hg : cx.guardIndexRead = true)
    (hrn : cfg.readNum = cx.readNum) (segs0 : List Seg) (Hm V : List Nat) (body segs1 : List Seg) (f0 : LoopFields)
    (hc : cx.content = printLoopG segs0 Hm body segs1)
    (h0 : ∀ s ∈ segs0, s.ok) (hp0 : ∀ s ∈ segs0, s.pathOk cfg.readNum)
    (h1 : ∀ s ∈ segs1, s.ok) (hp1 : ∀ s ∈ segs1, s.pathOk cfg.readNum)
    (hoff0 : f0.off = (printSegs segs0).length) (hlv0 : f0.level = 0) (hg0 : f0.groupLen = 0) (hop : f0.options = 0)
    (coll : Option Doc)
    (hset : ∀ st, (if f0.set.len ≠ 0 then getValue cx st f0.set else pure (some cx.root)) = .ok coll)
    (hb : ∀ s ∈ body, s.okB) (hpb : ∀ s ∈ body, s.pathB V) (fuel : Nat) :
    renderTop cx (tagsLoopG cfg cx.content segs0 Hm f0 V body segs1)
        ((entsO coll).length + nTags body + nTags segs1 + 5 + fuel + nTags segs0) =
      .ok (expSegs cx segs0 ++ (outEnts (fun x key => expSegsB cx [⟨V, x, key⟩] body) (entsO coll) ++
        expSegs cx segs1)) := by
  simp only [printLoopG] at hc
  have hc0 : cx.content = ([] : List Nat) ++ ([] ++ (printSegs segs0 ++
      (LOOPW ++ (Hm ++ ([62] ++ (printSegs body ++ (LOOPEND ++ printSegs segs1))))))) := by
    rw [hc]; rfl
  obtain ⟨B2, txt2, st2, e1, e2, e3, e4, e5⟩ := render_segs_more cx cfg hg hrn
    (.loop (tagsOfLB V 0 ((printSegs segs0).length + 6 + Hm.length) body)
      { f0 with contentOff := 6 + Hm.length,
                endOff := (printSegs segs0).length + 6 + Hm.length + (printSegs body).length } ::
      tagsOf cfg cx.content ((printSegs segs0).length + 6 + Hm.length + (printSegs body).length + 7) segs1)
    cx.content.length _ segs0 [] [] {} ((entsO coll).length + nTags body + nTags segs1 + 5 + fuel) hc0 hp0 h0 (by omega)
  simp only [List.append_nil, List.length_nil, Nat.zero_add, List.nil_append] at e2 e3 e5
  have hL : (B2 ++ txt2).length = (printSegs segs0).length := e2
  obtain ⟨st3, r1, r2⟩ := renderLoop_gen cx hg B2 txt2 Hm V body (printSegs segs1) f0 e1 (by rw [hL]; exact hoff0)
    hlv0 hg0 hop coll hset hb hpb st2
    ((entsO coll).length + nTags body + nTags segs1 + 4 + fuel) (by omega)
  rw [hL] at r1
  have hc5 : cx.content = (printSegs segs0 ++ (LOOPW ++ (Hm ++ ([62] ++ (printSegs body ++ LOOPEND))))) ++
      ([] ++ (printSegs segs1 ++ [])) := by
    rw [hc]; simp [List.append_assoc]
  have hl5 : (printSegs segs0 ++ (LOOPW ++ (Hm ++ ([62] ++ (printSegs body ++ LOOPEND))))).length =
      (printSegs segs0).length + 6 + Hm.length + (printSegs body).length + 7 := by
    simp [LOOPW, LOOPEND]; omega
  have hend := render_segs_end cx cfg hg hrn [] segs1 _ [] st3
    ((entsO coll).length + nTags body + 4 + fuel) hc5 hp1 h1 (by omega)
  simp only [List.append_nil, hl5, List.nil_append] at hend
  have hclen : cx.content.length = (printSegs segs0).length + 6 + Hm.length + (printSegs body).length + 7 +
      (printSegs segs1).length := by
    rw [hc]; simp [LOOPW, LOOPEND]; omega
  rw [← hclen] at hend
  have hfu : (entsO coll).length + nTags body + nTags segs1 + 5 + fuel =
      ((entsO coll).length + nTags body + nTags segs1 + 4 + fuel) + 1 := by omega
  have hfu2 : (entsO coll).length + nTags body + nTags segs1 + 4 + fuel =
      (entsO coll).length + nTags body + 4 + fuel + nTags segs1 := by omega
  simp only [renderTop, tagsLoopG, e5, bind, Except.bind]
  rw [hfu]
  simp only [render, r1, bind, Except.bind]
  rw [hfu2, hend]
  simp only [emit, r2]
  rw [← List.append_assoc st2.out, e3]
  simp [List.append_assoc]

/-- what `print` writes between `<loop` and `>` -/
def hdrOf (S V : List Nat) : List Nat :=
  (if S.isEmpty then [] else [32, 115, 101, 116, 61, 34] ++ S ++ [34]) ++ ([32, 118, 97, 108, 117, 101, 61, 34] ++ V ++ [34])

theorem printLoopG_eq (segs0 : List Seg) (S V : List Nat) (body segs1 : List Seg) :
    printList (loopTpl segs0 S V body segs1) = printLoopG segs0 (hdrOf S V) body segs1 := by
  have happ : ∀ (a b : List Tpl), printList (a ++ b) = printList a ++ printList b := by
    intro a b
    induction a with
    | nil => simp [printList]
    | cons t a ih => simp [printList, ih, List.append_assoc]
  simp only [loopTpl, happ, printList, printTpl, printSegs_eq, printLoopG, hdrOf]
  cases S <;> simp [str, LOOPW, LOOPEND, List.append_assoc]

/-- the collection a loop runs over: the value of `S`, the root without `set` -/
def collOf (cx : RCtx R) (S : List Nat) : Option Doc :=
  if S.isEmpty then some cx.root else (resolve cx.root [] S).1

theorem expand_loopG (cx : RCtx R) (segs0 : List Seg) (S V : List Nat) (body segs1 : List Seg) (fuel : Nat) :
    expandList (specOf cx) (segs0.length + segs1.length + (entsO (collOf cx S)).length + body.length + 4 + fuel) []
        (loopTpl segs0 S V body segs1) =
      expSegs cx segs0 ++ (outEnts (fun x key => expSegsB cx [⟨V, x, key⟩] body) (entsO (collOf cx S)) ++
        expSegs cx segs1) := by
  rw [loopTpl, expandList_segs_app cx segs0 _ _ (by omega)]
  congr 1
  rw [show segs0.length + segs1.length + (entsO (collOf cx S)).length + body.length + 4 + fuel - segs0.length =
    (segs1.length + (entsO (collOf cx S)).length + body.length + 2 + fuel) + 1 + 1 by omega]
  simp only [expandList, expandTpl, show (specOf cx).root = cx.root from rfl]
  rw [expandList_segs cx (specOf cx) ⟨rfl, rfl, rfl, rfl, rfl, rfl⟩ segs1 _ (by omega)]
  congr 1
  have hcoll : (if S.isEmpty = true then some cx.root else (resolve cx.root [] S).1) = collOf cx S := rfl
  rw [hcoll]
  cases hres : collOf cx S with
  | none => simp [entsO, outEnts]
  | some d =>
    cases d with
    | arr xs =>
      simp only [entsO, entsOf]
      exact loopArr_ents cx V body xs _ (by first | omega | (simp; omega))
    | obj ms =>
      simp only [entsO, entsOf]
      exact loopObj_ents cx V body ms _ (by first | omega | (simp; omega))
    | _ => simp [entsO, entsOf, outEnts]


theorem plainL_hdr (S V : List Nat) (hS : plainL S) (hV : plainL V) : plainL (hdrOf S V) := by
  have hp1 : plainL [32, 115, 101, 116, 61, 34] := by
    intro x hx; simp at hx; rcases hx with h | h | h | h | h | h <;> subst h <;> (unfold plainU; decide)
  have hp2 : plainL [32, 118, 97, 108, 117, 101, 61, 34] := by
    intro x hx; simp at hx; rcases hx with h | h | h | h | h | h | h | h <;> subst h <;> (unfold plainU; decide)
  have hp3 : plainL [34] := by intro x hx; simp at hx; subst hx; unfold plainU; decide
  have hv := plainL_append (plainL_append hp2 hV) hp3
  unfold hdrOf
  split
  · exact plainL_append (by intro x hx; cases hx) hv
  · exact plainL_append (plainL_append (plainL_append hp1 hS) hp3) hv

theorem nogt_hdr (S V : List Nat) (hS : ∀ x ∈ S, x ≠ 62) (hV : ∀ x ∈ V, x ≠ 62) : ∀ x ∈ hdrOf S V, x ≠ 62 := by
  intro x hx
  unfold hdrOf at hx
  simp only [List.mem_append] at hx
  rcases hx with h | h
  · split at h
    · cases h
    · simp only [List.mem_append] at h
      rcases h with (h | h) | h
      · simp at h; rcases h with h | h | h | h | h | h <;> subst h <;> decide
      · exact hS x h
      · simp at h; subst h; decide
  · rcases h with (h | h) | h
    · simp at h; rcases h with h | h | h | h | h | h | h | h <;> subst h <;> decide
    · exact hV x h
    · simp at h; subst h; decide

/-- the main equation for one top-level loop between segment runs (reference run with the renderer's parameters) -/
theorem loop_partial (cx : RCtx R) (cfg : ScanCfg R) (segs0 : List Seg) (S V : List Nat) (body segs1 : List Seg)
    (hg : cx.guardIndexRead = true) (hrn : cfg.readNum = cx.readNum)
    (hc : cx.content = printList (loopTpl segs0 S V body segs1))
    (h0 : ∀ s ∈ segs0, s.ok) (hp0 : ∀ s ∈ segs0, s.pathOk cfg.readNum)
    (h1 : ∀ s ∈ segs1, s.ok) (hp1 : ∀ s ∈ segs1, s.pathOk cfg.readNum)
    (hb : ∀ s ∈ body, s.okB) (hpb : ∀ s ∈ body, s.pathB V)
    (hS : plainL S) (hS34 : ∀ x ∈ S, x ≠ 34) (hSgt : ∀ x ∈ S, x ≠ 62) (hSp : S ≠ [] → PathOk S) (hS236 : S.length < 236)
    (hV : plainL V) (hV34 : ∀ x ∈ V, x ≠ 34) (hVgt : ∀ x ∈ V, x ≠ 62) (hV256 : V.length < 256)
    (hn : cx.content.length + 16 < 4294967296) (fuel fuel' : Nat) :
    (parse cfg cx.content).bind (fun tags => renderTop cx tags
        ((entsO (collOf cx S)).length + nTags body + nTags segs1 + 5 + fuel + nTags segs0)) =
      .ok (expandList (specOf cx)
        (segs0.length + segs1.length + (entsO (collOf cx S)).length + body.length + 4 + fuel') []
        (loopTpl segs0 S V body segs1)) := by
  rw [printLoopG_eq] at hc
  have hn' := hn
  rw [hc] at hn'
  have hHm := plainL_hdr S V hS hV
  have hgt := nogt_hdr S V hSgt hVgt
  have hV125 : ∀ x ∈ V, x ≠ 125 := fun x hx => (hV x hx).2.2
  rw [expand_loopG cx segs0 S V body segs1 fuel']
  by_cases hSe : S = []
  · -- no `set`
    subst hSe
    have hhd : hdrOf [] V = [32, 118, 97, 108, 117, 101, 61, 34] ++ V ++ [34] := by simp [hdrOf]
    have hlen : (hdrOf [] V).length = 9 + V.length := by rw [hhd]; simp; omega
    have hcl : printLoopG segs0 (hdrOf [] V) body segs1 =
        (printSegs segs0 ++ LOOPW) ++ ([32, 118, 97, 108, 117, 101, 61, 34] ++ (V ++ ([34] ++ ([62] ++
          (printSegs body ++ (LOOPEND ++ printSegs segs1)))))) := by
      simp [printLoopG, hhd, List.append_assoc]
    have hl5 : (printSegs segs0 ++ LOOPW).length = (printSegs segs0).length + 5 := by simp [LOOPW]
    have hl13 : (printSegs segs0 ++ LOOPW ++ [32, 118, 97, 108, 117, 101, 61, 34]).length = (printSegs segs0).length + 13 := by
      simp [LOOPW]
    have hpla := pla_print0 (printLoopG segs0 (hdrOf [] V) body segs1) (printSegs segs0).length V
      (by
        intro i hi
        have := get_mid (printSegs segs0 ++ LOOPW) [32, 118, 97, 108, 117, 101, 61, 34]
          (V ++ ([34] ++ ([62] ++ (printSegs body ++ (LOOPEND ++ printSegs segs1))))) i (by simpa using hi)
        rw [hl5] at this
        rw [hcl]; exact this)
      (by
        intro i hi
        have := get_at (printSegs segs0 ++ LOOPW ++ [32, 118, 97, 108, 117, 101, 61, 34]) V
          ([34] ++ ([62] ++ (printSegs body ++ (LOOPEND ++ printSegs segs1)))) i hi
        rw [hl13] at this
        rw [hcl, ← this]; simp [List.append_assoc])
      (by
        have := get_after (printSegs segs0 ++ LOOPW ++ [32, 118, 97, 108, 117, 101, 61, 34]) V 34
          ([62] ++ (printSegs body ++ (LOOPEND ++ printSegs segs1)))
        rw [hl13] at this
        rw [hcl, ← this]; simp [List.append_assoc])
      hV34 ((printSegs segs0).length + 5 + (hdrOf [] V).length + 1) 0 hV256
    rw [show (printSegs segs0).length + 14 + V.length = (printSegs segs0).length + 5 + (hdrOf [] V).length by rw [hlen]; omega] at hpla
    have hp := parse_loopG cfg segs0 (hdrOf [] V) V body segs1 _ h0 h1 hb hHm hgt (by rw [hlen]; omega) hV125 hn' hpla
      rfl rfl rfl (printSegs segs0 ++ LOOPW ++ [32, 118, 97, 108, 117, 101, 61, 34])
      ([34] ++ ([62] ++ (printSegs body ++ (LOOPEND ++ printSegs segs1))))
      (by rw [hcl]; simp [List.append_assoc]) hl13
    rw [← hc] at hp
    rw [hp]
    simp only [Except.bind]
    exact renderTop_loopG cx cfg hg hrn segs0 (hdrOf [] V) V body segs1 _ hc h0 hp0 h1 hp1 rfl rfl rfl rfl
      (collOf cx []) (by intro st; simp [collOf, pure, Except.pure]) hb hpb fuel
  · -- `set="S"`
    have hSpo := hSp hSe
    have hSi : S.isEmpty = false := by cases S <;> simp_all
    have hhd : hdrOf S V = [32, 115, 101, 116, 61, 34] ++ S ++ [34] ++ ([32, 118, 97, 108, 117, 101, 61, 34] ++ V ++ [34]) := by
      simp [hdrOf, hSi]
    have hlen : (hdrOf S V).length = 16 + S.length + V.length := by rw [hhd]; simp; omega
    have hcl : printLoopG segs0 (hdrOf S V) body segs1 =
        printSegs segs0 ++ (LH1 ++ (S ++ (LH2 ++ (V ++ (LH3 ++ (printSegs body ++ (LOOPEND ++ printSegs segs1))))))) := by
      simp [printLoopG, hhd, LH1, LH2, LH3, LOOPW, List.append_assoc]
    have ht := loopText_of _ (printSegs segs0) S V _ hcl
    have hpla := pla_print (printLoopG segs0 (hdrOf S V) body segs1) (printSegs segs0).length S V ht hS34 hV34
      ((printSegs segs0).length + 5 + (hdrOf S V).length) 0 hS236 hV256
    rw [show (printSegs segs0).length + 21 + S.length + V.length = (printSegs segs0).length + 5 + (hdrOf S V).length by
      rw [hlen]; omega] at hpla
    have hp := parse_loopG cfg segs0 (hdrOf S V) V body segs1 _ h0 h1 hb hHm hgt (by rw [hlen]; omega) hV125 hn' hpla
      rfl rfl rfl (printSegs segs0 ++ (LH1 ++ (S ++ LH2)))
      (LH3 ++ (printSegs body ++ (LOOPEND ++ printSegs segs1)))
      (by rw [hcl]; simp [List.append_assoc]) (by simp [LH1, LH2]; omega)
    rw [← hc] at hp
    rw [hp]
    simp only [Except.bind]
    have hA : (printSegs segs0 ++ LH1).length = (printSegs segs0).length + 11 := by simp [LH1]
    have hgv : ∀ st, getValue cx st ⟨(printSegs segs0).length + 11, S.length, 0, 0⟩ = .ok (resolve cx.root [] S).1 := by
      intro st
      rw [← hA]
      exact getValue_path cx hg st (printSegs segs0 ++ LH1) (LH2 ++ (V ++ (LH3 ++ (printSegs body ++ (LOOPEND ++ printSegs segs1))))) S
        (by rw [hc, hcl]; simp [List.append_assoc]) hSpo
    have hSl : S.length ≠ 0 := by cases S <;> simp_all
    exact renderTop_loopG cx cfg hg hrn segs0 (hdrOf S V) V body segs1 _ hc h0 hp0 h1 hp1 rfl rfl rfl rfl
      (collOf cx S) (by intro st; simp only [hSl, ne_eq, not_false_eq_true, if_true, hgv, collOf, hSi, Bool.false_eq_true, if_false])
      hb hpb fuel


end

end Qentem.Tmpl
