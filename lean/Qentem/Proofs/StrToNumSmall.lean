import Qentem.Proofs.StrToNumFrac
/-! C09/C11 helper lemmas: the fraction-only path `0.000ddd` (zero skipping after the dot). -/
namespace Qentem.StrToNum
open Qentem.Round

theorem skipZeros_zeros (c : List Nat) (e : Nat) : ∀ (zs : List Nat) (k off dg : Nat), (∀ z ∈ zs, z = 48) →
    unitsAt c e off zs → zs.length ≤ k →
    skipZeros c e k off dg = skipZeros c e (k - zs.length) (off + zs.length) (if zs = [] then dg else 48)
  | [], k, off, dg, _, _, _ => by simp
  | z :: zs, 0, _, _, _, _, hk => by simp at hk
  | z :: zs, k + 1, off, dg, hz, hu, hk => by
    have hz48 : z = 48 := hz z (by simp)
    subst hz48
    rw [skipZeros, hu.1]
    simp only [if_true]
    rw [skipZeros_zeros c e zs k (off + 1) 48 (fun y hy => hz y (by simp [hy])) hu.2 (by simp at hk; omega)]
    simp only [List.length_cons]
    rw [show k + 1 - (zs.length + 1) = k - zs.length by omega, show off + 1 + zs.length = off + (zs.length + 1) by omega]
    congr 1
    cases zs <;> simp

theorem decVal_zero_cons (l : List Nat) : decVal (48 :: l) = decVal l := by
  rw [decVal_cons]; simp

theorem decVal_zeros (zs l : List Nat) (hz : ∀ z ∈ zs, z = 48) : decVal (zs ++ l) = decVal l := by
  induction zs with
  | nil => rfl
  | cons z zs ih =>
    have : z = 48 := hz z (by simp)
    subst this
    rw [List.cons_append, decVal_zero_cons, ih (fun y hy => hz y (by simp [hy]))]

/-- `0 . 0…0 d₁ ys` (the significant digits `d₁ ys` inside the window): the scan skips the zeros and
ends at `Q` holding `d₁ ys`; `start_offset` is the first significant digit, `fraction_only` is set. -/
theorem afterSign_small (c : List Nat) (e : Nat) (neg : Bool) (off : Nat) (zs : List Nat) (d1 : Nat) (ys : List Nat)
    (he : e < 2 ^ 32) (hz : ∀ z ∈ zs, z = 48) (h1 : isNonZeroDigit d1 = true) (hys : AllDigits ys) (hlen : ys.length ≤ 17)
    (hu : unitsAt c e off ([48, 46] ++ zs ++ d1 :: ys))
    (hstop : off + 2 + zs.length + 1 + ys.length = e ∨
      ∃ x, rd c e (off + 2 + zs.length + 1 + ys.length) = some x ∧ isDigit x = false ∧ x ≠ 46) :
    afterSign c e neg off =
      finishReal c e neg (decVal (d1 :: ys)) (off + 2 + zs.length + 1 + ys.length)
        (off + 2 + zs.length + 1 + ys.length) (off + 2 + zs.length) true true (off + 1) := by
  have hA := (unitsAt_append c e ([48, 46] ++ zs) (d1 :: ys) off).1 hu
  have hB := (unitsAt_append c e [48, 46] zs off).1 hA.1
  have h48 : rd c e off = some 48 := hB.1.1
  have h46 : rd c e (off + 1) = some 46 := hB.1.2.1
  have hzs : unitsAt c e (off + 2) zs := by simpa using hB.2
  have hdy : unitsAt c e (off + 2 + zs.length) (d1 :: ys) := by
    have := hA.2; simp only [List.length_append, List.length_cons, List.length_nil] at this
    rw [show off + 2 + zs.length = off + (0 + 1 + 1 + zs.length) by omega]; exact this
  have hoff := rd_lt h48
  have hoff1 := rd_lt h46
  have hd1 : rd c e (off + 2 + zs.length) = some d1 := hdy.1
  have hzlt := rd_lt hd1
  have hd1dig := isNonZeroDigit_isDigit h1
  have hd148 : d1 ≠ 48 := by simp [isNonZeroDigit] at h1; omega
  have hQe : off + 2 + zs.length + 1 + ys.length ≤ e := by
    have := unitsAt_le c e (d1 :: ys) _ hdy (by simp); simp at this; omega
  -- the zero skipping
  have hskip : skipZeros c e (e - (off + 1 + 1)) (off + 1 + 1) 46 = some (off + 2 + zs.length, d1) := by
    rw [skipZeros_zeros c e zs (e - (off + 1 + 1)) (off + 1 + 1) 46 hz (by simpa using hzs) (by omega)]
    obtain ⟨j, hj⟩ : ∃ j, e - (off + 1 + 1) - zs.length = j + 1 := ⟨e - (off + 1 + 1) - zs.length - 1, by omega⟩
    rw [hj, skipZeros, show off + 1 + 1 + zs.length = off + 2 + zs.length by omega, hd1]
    simp [hd148]
  -- the windowed scan over the significant digits
  obtain ⟨hW1, hW2⟩ := windowEnd_bounds e (off + 2 + zs.length) he hzlt
  have hW3 : off + 2 + zs.length + 1 + ys.length ≤ windowEnd e (off + 2 + zs.length) := by
    rw [windowEnd_eq e _ he hzlt]; split <;> omega
  have hall : AllDigits (d1 :: ys) := by
    intro y hy
    rcases List.mem_cons.1 hy with h | h
    · subst h; exact hd1dig
    · exact hys y h
  have hv64 : decVal (d1 :: ys) < 2 ^ 64 := by
    have := decVal_lt_pow _ hall
    exact Nat.lt_of_lt_of_le this (Nat.le_trans (Nat.pow_le_pow_right (by decide) (by simp; omega)) (by decide : (10 : Nat) ^ 19 ≤ 2 ^ 64))
  have hfold : (d1 :: ys).foldl pushDigit 0 = decVal (d1 :: ys) := by
    rw [foldl_pushDigit (d1 :: ys) 0 (by simpa using hv64)]; simp
  rw [afterSign]
  simp only [hoff, if_true, h48, show isNonZeroDigit 48 = false by decide, Bool.false_eq_true, if_false, true_or, true_and,
    hoff1, h46, show ¬ ((46 : Nat) = 120 ∨ (46 : Nat) = 88) by decide, show isDigit 46 = false by decide, hskip]
  have hnd : ¬ (off + 1 + 1 = off + 2 + zs.length ∧ off + 1 = off ∧ (!isDigit d1) = true) := by omega
  simp only [hnd, if_false]
  generalize windowEnd e (off + 2 + zs.length) = W at hW1 hW2 hW3 ⊢
  have hiter : iter1 c e W 0 (off + 2 + zs.length) d1 true (off + 1) true =
      some (.inr ⟨decVal (d1 :: ys), off + 2 + zs.length + 1 + ys.length, true, off + 1, true⟩) := by
    rw [iter1]; simp only [if_true]
    rw [iter2]; simp only [hzlt, if_true]
    obtain ⟨d', hs2, hd'⟩ := scanDigits_stop c e (d1 :: ys) (W - (off + 2 + zs.length)) (off + 2 + zs.length) 0 d1 hall hdy
      (by simp; omega)
      (by
        rcases hstop with h | ⟨x, hx, hxd, _⟩
        · left; simp; omega
        · by_cases hk : W - (off + 2 + zs.length) = (d1 :: ys).length
          · exact Or.inl hk
          · exact Or.inr ⟨x, by
              rw [show off + 2 + zs.length + (d1 :: ys).length = off + 2 + zs.length + 1 + ys.length by simp; omega]
              exact hx, hxd⟩)
    rw [hs2, hfold]
    have hne : d' ≠ 46 := by
      rcases hd' with h | ⟨h1', h2'⟩
      · rw [h]; exact isDigit_ne_dot (getLast_digit (d1 :: ys) d1 hall (by simp))
      · rcases hstop with h | ⟨x, hx, _, hx46⟩
        · have := rd_lt h1'; simp at this; omega
        · have hx' : rd c e (off + 2 + zs.length + (d1 :: ys).length) = some x := by
            rw [show off + 2 + zs.length + (d1 :: ys).length = off + 2 + zs.length + 1 + ys.length by simp; omega]
            exact hx
          rw [hx'] at h1'; cases h1'; exact hx46
    simp only [hne, if_false]
    congr 3
    simp; omega
  rw [hiter]
  simp only [thenScan]
  rw [afterScan_mk_real]

end Qentem.StrToNum
