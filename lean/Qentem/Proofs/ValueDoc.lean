import Qentem.Model.Value
import Qentem.Proofs.ValueSlots
/-! Document-level lemmas: subscripts, appends, removals, compress, copy, readers. -/
namespace Qentem.Value
open Doc

theorem allocCap_two : allocCap 2 = 2 := by decide

theorem deref_nonptr (env : Env) (d : Doc) (h : ∀ r, d ≠ ptr r) : deref env d = d := by
  unfold deref
  cases d <;> simp_all [derefF]

/-! ### list helpers -/

theorem setAtIdx_length (i : Nat) (f : Doc → Doc) (l : List Doc) : (setAtIdx i f l).length = l.length := by
  induction l generalizing i with
  | nil => simp [setAtIdx]
  | cons a t ih => cases i <;> simp [setAtIdx, ih]

theorem setAtIdx_get_same (i : Nat) (f : Doc → Doc) (l : List Doc) :
    (setAtIdx i f l)[i]? = (l[i]?).map f := by
  induction l generalizing i with
  | nil => simp [setAtIdx]
  | cons a t ih => cases i <;> simp [setAtIdx, ih]

theorem setAtIdx_get_other (i j : Nat) (f : Doc → Doc) (l : List Doc) (h : j ≠ i) :
    (setAtIdx i f l)[j]? = l[j]? := by
  induction l generalizing i j with
  | nil => simp [setAtIdx]
  | cons a t ih =>
    cases i with
    | zero => cases j with
      | zero => exact absurd rfl h
      | succ j => simp [setAtIdx]
    | succ i => cases j with
      | zero => simp [setAtIdx]
      | succ j => simp [setAtIdx]; exact ih i j (by omega)

theorem mapDocs_eq_map (f : Doc → Doc) (l : List Doc) : mapDocs f l = l.map f := by
  induction l with
  | nil => rfl
  | cons a t ih => simp [mapDocs, ih]

theorem copyItems_eq_map (l : List Doc) : copyItems l = l.map copyDoc := by
  induction l with
  | nil => simp [copyItems]
  | cons a t ih => simp [copyItems, ih]

theorem dropUndef_eq_filter (l : List Doc) : dropUndef l = l.filter (fun d => !d.isUndef) := by
  induction l with
  | nil => rfl
  | cons a t ih => cases a <;> simp [dropUndef, isUndef, ih]

/-! ### copy and compress on the item storage -/

theorem liveEntries_copySlots (s : List Slot) :
    liveEntries (copySlots s) = (liveEntries s).map (fun e => (e.1, copyDoc e.2)) := by
  induction s with
  | nil => simp [copySlots, liveEntries]
  | cons a t ih =>
    cases a with
    | none => simp [copySlots, liveEntries, ih]
    | some e => obtain ⟨k, v⟩ := e; simp [copySlots, liveEntries, ih]

theorem noTombstones_copySlots (s : List Slot) : noTombstones (copySlots s) = true := by
  induction s with
  | nil => simp [copySlots, noTombstones]
  | cons a t ih =>
    cases a with
    | none => simp [copySlots, ih]
    | some e => obtain ⟨k, v⟩ := e; simp [copySlots, noTombstones, ih]

theorem liveEntries_compressSlots (s : List Slot) :
    liveEntries (compressSlots s) = (liveEntries s).map (fun e => (e.1, compress e.2)) := by
  induction s with
  | nil => simp [compressSlots, liveEntries]
  | cons a t ih =>
    cases a with
    | none => simp [compressSlots, liveEntries, ih]
    | some e => obtain ⟨k, v⟩ := e; simp [compressSlots, liveEntries, ih]

theorem noTombstones_compressSlots (s : List Slot) : noTombstones (compressSlots s) = true := by
  induction s with
  | nil => simp [compressSlots, noTombstones]
  | cons a t ih =>
    cases a with
    | none => simp [compressSlots, ih]
    | some e => obtain ⟨k, v⟩ := e; simp [compressSlots, noTombstones, ih]

theorem compress_undef : compress undef = undef := by simp [compress]

theorem compressItems_eq (l : List Doc) : compressItems l = (dropUndef l).map compress := by
  induction l with
  | nil => simp [compressItems, dropUndef]
  | cons a t ih => cases a <;> simp [compressItems, dropUndef, ih]

theorem length_liveSlots (s : List Slot) : (liveSlots s).length = liveCount s := by
  induction s with
  | nil => rfl
  | cons a t ih => cases a <;> simp [liveSlots, liveCount, ih]

/-! ### slot access without removed items -/

theorem slot_get_of_noTombstones (s : List Slot) (h : noTombstones s = true) (i : Nat) :
    s[i]? = ((liveEntries s)[i]?).map some := by
  induction s generalizing i with
  | nil => simp [liveEntries]
  | cons a t ih =>
    cases a with
    | none => simp [noTombstones] at h
    | some e =>
      cases i with
      | zero => simp [liveEntries]
      | succ i => simpa [liveEntries] using ih (by simpa [noTombstones] using h) i

end Qentem.Value
