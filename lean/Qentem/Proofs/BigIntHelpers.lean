import Qentem.Proofs.BigIntMul
/-! Exactness of the `DoubleSize` helpers. -/
namespace Qentem.BigInt

theorem two_pow_two_mul (h : Nat) : 2 ^ (2 * h) = 2 ^ h * 2 ^ h := by
  rw [Nat.two_mul, Nat.pow_add]

theorem lor_eq_add_of_lt {X i : Nat} (hX : X = 2 ^ i) {b : Nat} (hb : b < X) (a : Nat) : b ||| a * X = a * X + b := by
  subst hX
  rw [Nat.mul_comm a, Nat.two_pow_add_eq_or_of_lt hb a, Nat.or_comm]

/-- `DoubleSize<_, 8|16|32>::Multiply` is exact. -/
theorem mulNative_exact (W a b : Nat) (ha : a < 2 ^ W) (hb : b < 2 ^ W) :
    (mulNative W a b).1 * 2 ^ W + (mulNative W a b).2 = a * b ∧ (mulNative W a b).2 < 2 ^ W := by
  have hB : 0 < 2 ^ W := Nat.pow_pos (by decide)
  have hp : a * b < 2 ^ (2 * W) := by
    rw [two_pow_two_mul]; exact Nat.mul_lt_mul'' ha hb
  unfold mulNative
  simp only [Nat.shiftRight_eq_div_pow, Nat.mod_eq_of_lt hp]
  have hd : a * b / 2 ^ W < 2 ^ W := Nat.div_lt_of_lt_mul (by rw [← two_pow_two_mul]; exact hp)
  rw [Nat.mod_eq_of_lt hd]
  refine ⟨?_, Nat.mod_lt _ hB⟩
  rw [Nat.mul_comm]; exact Nat.div_add_mod _ _

/-- The half-word multiply (`DoubleSize<_, 64>::Multiply`) is exact for every half width. -/
theorem mulHand_exact (h a b : Nat) (ha : a < 2 ^ (2 * h)) (hb : b < 2 ^ (2 * h)) :
    (mulHand h a b).1 * 2 ^ (2 * h) + (mulHand h a b).2 = a * b ∧ (mulHand h a b).2 < 2 ^ (2 * h) := by
  unfold mulHand
  simp only [Nat.and_two_pow_sub_one_eq_mod, Nat.shiftRight_eq_div_pow, Nat.shiftLeft_eq]
  rw [two_pow_two_mul] at *
  have hX0 : 0 < 2 ^ h := Nat.pow_pos (by decide)
  obtain ⟨Y, hY⟩ : ∃ Y, 2 ^ h = Y + 1 := ⟨2 ^ h - 1, by omega⟩
  have haL : a % 2 ^ h ≤ Y := by have := Nat.mod_lt a hX0; omega
  have hbL : b % 2 ^ h ≤ Y := by have := Nat.mod_lt b hX0; omega
  have haH : a / 2 ^ h ≤ Y := by have := Nat.div_lt_of_lt_mul ha; omega
  have hbH : b / 2 ^ h ≤ Y := by have := Nat.div_lt_of_lt_mul hb; omega
  have hda := Nat.div_add_mod a (2 ^ h)
  have hdb := Nat.div_add_mod b (2 ^ h)
  generalize hX : 2 ^ h = X at *
  generalize a % X = aL at *
  generalize a / X = aH at *
  generalize b % X = bL at *
  generalize b / X = bH at *
  have hXX : X * X = Y * Y + 2 * Y + 1 := by subst hY; ring
  have p1 : aL * bL ≤ Y * Y := Nat.mul_le_mul haL hbL
  have p2 : bL * aH ≤ Y * Y := Nat.mul_le_mul hbL haH
  have p3 : aH * bH ≤ Y * Y := Nat.mul_le_mul haH hbH
  have p4 : aL * bH ≤ Y * Y := Nat.mul_le_mul haL hbH
  have hX1 : 0 < X := by omega
  rw [Nat.mod_eq_of_lt (by omega : aL * bL < X * X), Nat.mod_eq_of_lt (by omega : bL * aH < X * X),
    Nat.mod_eq_of_lt (by omega : aH * bH < X * X)]
  have q1 : aL * bL / X ≤ Y := by
    have : aL * bL / X < X := Nat.div_lt_of_lt_mul (by omega)
    omega
  rw [Nat.mod_eq_of_lt (by omega : bL * aH + aL * bL / X < X * X)]
  generalize ht1 : bL * aH + aL * bL / X = t1 at *
  have q2 : t1 / X ≤ Y := by
    have : t1 / X < X := Nat.div_lt_of_lt_mul (by omega)
    omega
  rw [Nat.mod_eq_of_lt (by omega : aH * bH + t1 / X < X * X)]
  have q3 : t1 % X ≤ Y := by have := Nat.mod_lt t1 hX1; omega
  rw [Nat.mod_eq_of_lt (by omega : t1 % X + aL * bH < X * X)]
  generalize ht2 : t1 % X + aL * bH = t2 at *
  have q4 : t2 / X ≤ Y := by
    have : t2 / X < X := Nat.div_lt_of_lt_mul (by omega)
    omega
  rw [Nat.mod_eq_of_lt (by omega : aH * bH + t1 / X + t2 / X < X * X)]
  rw [Nat.mul_mod_mul_right]
  have q5 : aL * bL % X < X := Nat.mod_lt _ hX1
  have q6 : t2 % X < X := Nat.mod_lt _ hX1
  rw [lor_eq_add_of_lt hX.symm q5]
  constructor
  · have e1 := Nat.div_add_mod (aL * bL) X
    have e2 := Nat.div_add_mod t1 X
    have e3 := Nat.div_add_mod t2 X
    have ea : a * b = (X * aH + aL) * (X * bH + bL) := by rw [hda, hdb]
    rw [ea]
    have f1 : (aH * bH + t1 / X + t2 / X) * (X * X) + (t2 % X * X + aL * bL % X)
        = aH * bH * (X * X) + X * (X * (t1 / X)) + X * (X * (t2 / X) + t2 % X) + aL * bL % X := by ring
    rw [f1, e3]
    have f2 : X * (X * (t1 / X)) = X * (X * (t1 / X) + t1 % X) - X * (t1 % X) := by
      rw [Nat.mul_add]; omega
    have e2' : X * (X * (t1 / X)) + X * (t1 % X) = X * t1 := by rw [← Nat.mul_add, e2]
    have g1 : X * t2 = X * (t1 % X) + X * (aL * bH) := by rw [← ht2]; ring
    have g2 : X * t1 = X * (bL * aH) + X * (aL * bL / X) := by rw [← ht1]; ring
    have g3 : (X * aH + aL) * (X * bH + bL) = aH * bH * (X * X) + X * (bL * aH) + X * (aL * bH) + aL * bL := by ring
    rw [g3]
    omega
  · have : t2 % X * X ≤ Y * X := Nat.mul_le_mul_right _ (by omega)
    have : Y * X + X = X * X := by subst hY; ring
    omega

theorem mulOK_native (W : Nat) : MulOK ⟨W, false⟩ := by
  intro a b ha hb
  exact mulNative_exact W a b ha hb

theorem mulOK_hand (h : Nat) : MulOK ⟨2 * h, true⟩ := by
  intro a b ha hb
  have : (2 * h) / 2 = h := by omega
  simp only [dmul, if_true, this]
  exact mulHand_exact h a b ha hb

/-- `DoubleSize<_, 8|16|32>::Divide` is exact when `hi < d`. -/
theorem divNative_exact (W hi lo d : Nat) (hd0 : 0 < d) (hd : d < 2 ^ W) (hhi : hi < d) (hlo : lo < 2 ^ W) :
    ∃ r q, divNative W hi lo d = .ok (r, q) ∧ q * d + r = hi * 2 ^ W + lo ∧ r < d ∧ q < 2 ^ W := by
  unfold divNative
  have hne : (d == 0) = false := by simp; omega
  simp only [hne, Nat.shiftLeft_eq]
  have h1 : hi * 2 ^ W < 2 ^ (2 * W) := by
    rw [two_pow_two_mul]; exact Nat.mul_lt_mul_of_pos_right (by omega) (Nat.pow_pos (by decide))
  rw [Nat.mod_eq_of_lt h1, Nat.or_comm, lor_eq_add_of_lt rfl hlo]
  have hr : (hi * 2 ^ W + lo) % d < d := Nat.mod_lt _ hd0
  have hq : (hi * 2 ^ W + lo) / d < 2 ^ W := by
    apply Nat.div_lt_of_lt_mul
    have : (hi + 1) * 2 ^ W ≤ d * 2 ^ W := Nat.mul_le_mul_right _ hhi
    rw [Nat.add_mul] at this
    omega
  refine ⟨_, _, rfl, ?_, ?_, ?_⟩
  · rw [Nat.mod_eq_of_lt (by omega : (hi * 2 ^ W + lo) % d < 2 ^ W), Nat.mod_eq_of_lt hq, Nat.mul_comm]
    exact Nat.div_add_mod _ _
  · rw [Nat.mod_eq_of_lt (by omega : (hi * 2 ^ W + lo) % d < 2 ^ W)]; exact hr
  · rw [Nat.mod_eq_of_lt hq]; exact hq

theorem divOK_native (W : Nat) : DivOK ⟨W, false⟩ := by
  intro hi lo d hd0 hd hhi hlo
  simp only [ddiv]
  exact divNative_exact W hi lo d hd0 hd hhi hlo

end Qentem.BigInt
