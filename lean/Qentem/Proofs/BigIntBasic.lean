import Qentem.Model.BigInt
import Mathlib.Tactic.Ring
import Mathlib.Tactic.Linarith
/-! Basic lemmas for the BigInt model: checked accessors, the value of a word list, the
representation invariant. -/
namespace Qentem.BigInt

theorem rd_ok {ws : List Nat} {i : Nat} (h : i < ws.length) : rd ws i = .ok ws[i] := by
  simp [rd, h]

theorem wr_ok {ws : List Nat} {i : Nat} (v : Nat) (h : i < ws.length) : wr ws i v = .ok (ws.set i v) := by
  simp [wr, h]

/-- all words below 2^W -/
def Bounded (W : Nat) (ws : List Nat) : Prop := ∀ w ∈ ws, w < 2 ^ W

theorem Bounded.getElem {W : Nat} {ws : List Nat} (hb : Bounded W ws) {i : Nat} (h : i < ws.length) :
    ws[i] < 2 ^ W := hb _ (List.getElem_mem h)

theorem Bounded.set {W : Nat} {ws : List Nat} (hb : Bounded W ws) (i : Nat) {v : Nat} (hv : v < 2 ^ W) :
    Bounded W (ws.set i v) := by
  intro w hw
  rcases List.mem_or_eq_of_mem_set hw with h | h
  · exact hb w h
  · exact h ▸ hv

theorem valW_nil (W : Nat) : valW W [] = 0 := rfl
theorem valW_cons (W w : Nat) (ws : List Nat) : valW W (w :: ws) = w + 2 ^ W * valW W ws := rfl

theorem valW_lt {W : Nat} : ∀ {ws : List Nat}, Bounded W ws → valW W ws < 2 ^ (W * ws.length)
  | [], _ => by simp [valW]
  | w :: ws, hb => by
    have h1 : w < 2 ^ W := hb w (by simp)
    have h2 : valW W ws < 2 ^ (W * ws.length) := valW_lt (fun x hx => hb x (by simp [hx]))
    have : 2 ^ (W * (ws.length + 1)) = 2 ^ W * 2 ^ (W * ws.length) := by
      rw [Nat.mul_add, Nat.mul_one, Nat.pow_add, Nat.mul_comm]
    simp only [valW, List.length_cons, this]
    have h3 : valW W ws + 1 ≤ 2 ^ (W * ws.length) := h2
    calc w + 2 ^ W * valW W ws < 2 ^ W + 2 ^ W * valW W ws := by omega
      _ = 2 ^ W * (valW W ws + 1) := by ring
      _ ≤ 2 ^ W * 2 ^ (W * ws.length) := Nat.mul_le_mul_left _ h3

theorem valW_append (W : Nat) : ∀ (a b : List Nat), valW W (a ++ b) = valW W a + 2 ^ (W * a.length) * valW W b
  | [], b => by simp [valW]
  | x :: a, b => by
    simp only [List.cons_append, valW, List.length_cons, valW_append W a b]
    have : 2 ^ (W * (a.length + 1)) = 2 ^ W * 2 ^ (W * a.length) := by
      rw [Nat.mul_add, Nat.mul_one, Nat.pow_add, Nat.mul_comm]
    rw [this]; ring

theorem valW_replicate_zero (W n : Nat) : valW W (List.replicate n 0) = 0 := by
  induction n with
  | zero => rfl
  | succ n ih => simp [List.replicate_succ, valW, ih]

/-- splitting the value at word `i` -/
theorem valW_split (W : Nat) (ws : List Nat) (i : Nat) (h : i ≤ ws.length) :
    valW W ws = valW W (ws.take i) + 2 ^ (W * i) * valW W (ws.drop i) := by
  have := valW_append W (ws.take i) (ws.drop i)
  rw [List.take_append_drop] at this
  rw [this, List.length_take, Nat.min_eq_left h]

theorem valW_drop_cons (W : Nat) (ws : List Nat) (i : Nat) (h : i < ws.length) :
    valW W (ws.drop i) = ws[i] + 2 ^ W * valW W (ws.drop (i + 1)) := by
  rw [List.drop_eq_getElem_cons h]; rfl

/-- the value after overwriting one word -/
theorem valW_set (W : Nat) : ∀ (ws : List Nat) (i v : Nat) (h : i < ws.length),
    valW W (ws.set i v) + ws[i] * 2 ^ (W * i) = valW W ws + v * 2 ^ (W * i)
  | w :: ws, 0, v, _ => by simp [valW]; omega
  | w :: ws, i + 1, v, h => by
    have hi : i < ws.length := by simpa using h
    have ih := valW_set W ws i v hi
    have : 2 ^ (W * (i + 1)) = 2 ^ W * 2 ^ (W * i) := by
      rw [Nat.mul_add, Nat.mul_one, Nat.pow_add, Nat.mul_comm]
    simp only [List.set_cons_succ, valW, List.getElem_cons_succ, this]
    have e1 : ws[i] * (2 ^ W * 2 ^ (W * i)) = 2 ^ W * (ws[i] * 2 ^ (W * i)) := by ring
    have e2 : v * (2 ^ W * 2 ^ (W * i)) = 2 ^ W * (v * 2 ^ (W * i)) := by ring
    rw [e1, e2, Nat.add_assoc, ← Nat.mul_add, ih, Nat.mul_add, Nat.add_assoc]

theorem pow_mul_succ (W i : Nat) : 2 ^ (W * (i + 1)) = 2 ^ W * 2 ^ (W * i) := by
  rw [Nat.mul_add, Nat.mul_one, Nat.pow_add, Nat.mul_comm]

/-- words from `i` upward are all zero -/
def ZeroFrom (ws : List Nat) (i : Nat) : Prop := ∀ j, i ≤ j → ws.getD j 0 = 0

theorem valW_eq_zero_of_zeroFrom0 (W : Nat) : ∀ (ws : List Nat), ZeroFrom ws 0 → valW W ws = 0
  | [], _ => rfl
  | w :: ws, h => by
    have h0 : w = 0 := by simpa using h 0 (Nat.le_refl _)
    have ht : ZeroFrom ws 0 := fun j _ => by simpa using h (j + 1) (Nat.zero_le _)
    simp [valW, h0, valW_eq_zero_of_zeroFrom0 W ws ht]

theorem zeroFrom_drop {ws : List Nat} {i : Nat} (h : ZeroFrom ws i) : ZeroFrom (ws.drop i) 0 := by
  intro j _
  have := h (i + j) (Nat.le_add_right _ _)
  simpa [List.getD_eq_getElem?_getD, List.getElem?_drop] using this

theorem valW_of_zeroFrom (W : Nat) (ws : List Nat) (i : Nat) (hi : i ≤ ws.length) (h : ZeroFrom ws i) :
    valW W ws = valW W (ws.take i) := by
  rw [valW_split W ws i hi, valW_eq_zero_of_zeroFrom0 W _ (zeroFrom_drop h)]; simp

theorem valW_lt_of_zeroFrom {W : Nat} {ws : List Nat} (hb : Bounded W ws) (i : Nat) (hi : i ≤ ws.length)
    (h : ZeroFrom ws i) : valW W ws < 2 ^ (W * i) := by
  rw [valW_of_zeroFrom W ws i hi h]
  have hb' : Bounded W (ws.take i) := fun w hw => hb w (List.mem_of_mem_take hw)
  have := valW_lt hb'
  rwa [List.length_take, Nat.min_eq_left hi] at this

/-- a non-zero word at `i` bounds the value from below -/
theorem le_valW_of_getElem (W : Nat) (ws : List Nat) (i : Nat) (h : i < ws.length) :
    ws[i] * 2 ^ (W * i) ≤ valW W ws := by
  rw [valW_split W ws i (Nat.le_of_lt h), valW_drop_cons W ws i h]
  have : ws[i] * 2 ^ (W * i) ≤ 2 ^ (W * i) * (ws[i] + 2 ^ W * valW W (List.drop (i + 1) ws)) := by
    rw [Nat.mul_add, Nat.mul_comm]; exact Nat.le_add_right _ _
  omega

/-- The representation invariant without the "index_ is the top word" clause. -/
structure WInv (W : Nat) (s : Big) : Prop where
  wpos : 0 < W
  bound : Bounded W s.words
  idx_lt : s.idx < s.words.length
  above : ZeroFrom s.words (s.idx + 1)

/-- The representation invariant of `BigInt`: n = words.length ≥ 1 words below 2^W, the words above
`index_` are zero, `index_` is the highest non-zero word (0 when the value is zero). -/
structure Inv (W : Nat) (s : Big) : Prop extends WInv W s where
  top : s.idx ≠ 0 → s.words.getD s.idx 0 ≠ 0

theorem WInv.val_lt {W : Nat} {s : Big} (h : WInv W s) : s.val W < 2 ^ (W * (s.idx + 1)) :=
  valW_lt_of_zeroFrom h.bound _ h.idx_lt h.above

theorem WInv.val_lt_total {W : Nat} {s : Big} (h : WInv W s) : s.val W < 2 ^ (W * s.words.length) :=
  valW_lt h.bound

theorem Inv.le_val {W : Nat} {s : Big} (h : Inv W s) (h0 : s.idx ≠ 0) : 2 ^ (W * s.idx) ≤ s.val W := by
  have ht := h.top h0
  have hl := h.idx_lt
  rw [List.getD_eq_getElem?_getD, List.getElem?_eq_getElem hl] at ht
  simp only [Option.getD_some] at ht
  have := le_valW_of_getElem W s.words s.idx hl
  calc 2 ^ (W * s.idx) = 1 * 2 ^ (W * s.idx) := by simp
    _ ≤ s.words[s.idx] * 2 ^ (W * s.idx) := Nat.mul_le_mul_right _ (by omega)
    _ ≤ _ := this

/-- value characterisation of `top` -/
theorem top_of_le_val {W : Nat} {s : Big} (h : WInv W s) (hv : s.idx ≠ 0 → 2 ^ (W * s.idx) ≤ s.val W) : Inv W s := by
  refine ⟨h, fun h0 hz => ?_⟩
  have hl := h.idx_lt
  have : ZeroFrom s.words s.idx := by
    intro j hj
    rcases Nat.eq_or_lt_of_le hj with e | l
    · exact e ▸ hz
    · exact h.above j l
  have := valW_lt_of_zeroFrom h.bound s.idx (Nat.le_of_lt hl) this
  have := hv h0
  unfold Big.val at *
  omega

theorem inv_zero {W n : Nat} (hW : 0 < W) (hn : 0 < n) : Inv W (zero n) := by
  refine ⟨⟨hW, ?_, by simpa [zero] using hn, ?_⟩, by simp [zero]⟩
  · intro w hw; simp [zero] at hw; rw [hw.2]; exact Nat.pow_pos (by decide)
  · intro j _; simp [zero, List.getD_eq_getElem?_getD, List.getElem?_replicate]; split <;> rfl

theorem val_zero (W n : Nat) : (zero n).val W = 0 := valW_replicate_zero W n

theorem getD_set_ne {ws : List Nat} {i j v : Nat} (h : i ≠ j) : (ws.set i v).getD j 0 = ws.getD j 0 := by
  simp [List.getD_eq_getElem?_getD, List.getElem?_set_ne h]

theorem getD_set_eq {ws : List Nat} {i v : Nat} (h : i < ws.length) : (ws.set i v).getD i 0 = v := by
  simp [List.getD_eq_getElem?_getD, List.getElem?_set_self h]

theorem getD_eq_getElem {ws : List Nat} {i : Nat} (h : i < ws.length) : ws.getD i 0 = ws[i] := by
  simp [List.getD_eq_getElem?_getD, List.getElem?_eq_getElem h]

end Qentem.BigInt
