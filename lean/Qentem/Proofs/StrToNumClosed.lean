import Qentem.Proofs.StrToNumSign
import Qentem.Proofs.StrToNumReal
/-! C09 helper lemmas: the `BigInt` pipelines of `powerOfNegativeTen` / `powerOfPositiveTen` never
exceed the 256-bit object (so the `% 2^256` of the model never fires) and equal closed forms in
`Nat` with floor divisions. -/
namespace Qentem.StrToNum
open Qentem.Generated.StrToNum

/-- `n` times `b ↦ ⌊b·r / 2^64⌋` -/
def negIter (r : Nat) : Nat → Nat → Nat
  | 0, b => b
  | n + 1, b => negIter r n (b * r / 2 ^ 64)

/-- `n` times: multiply by `p`; when the product reaches the fourth word divide by `2^64` and count it -/
def posIter (p : Nat) : Nat → Nat → Nat → Nat × Nat
  | 0, b, s => (b, s)
  | n + 1, b, s => if 2 ^ 192 ≤ b * p then posIter p n (b * p / 2 ^ 64) (add32 s 64) else posIter p n (b * p) s

theorem bmul_exact (b m : Nat) (h : b * m < 2 ^ 256) : bmul b m = b * m := by
  unfold bmul bigW
  rw [show bigIntTotalBits = 256 from rfl]
  exact Nat.mod_eq_of_lt h

theorem mul_lt_pow (a b i j : Nat) (ha : a < 2 ^ i) (hb : b < 2 ^ j) : a * b < 2 ^ (i + j) := by
  rw [Nat.pow_add]
  exact Nat.mul_lt_mul'' ha hb

theorem add32_lt (a b : Nat) : add32 a b < 2 ^ 32 := Nat.mod_lt _ (by decide)

theorem negLoop_closed (r s : Nat) (hr : r < 2 ^ 64) : ∀ (n b sh : Nat), b < 2 ^ 128 → sh < 2 ^ 32 →
    negLoop r s n b sh = (negIter r n b, (sh + n * s) % 2 ^ 32) ∧ negIter r n b < 2 ^ 128
  | 0, b, sh, hb, hsh => by
    constructor
    · simp only [negLoop, negIter, Nat.zero_mul, Nat.add_zero]
      rw [Nat.mod_eq_of_lt hsh]
    · exact hb
  | n + 1, b, sh, hb, hsh => by
    have hmul : b * r < 2 ^ 256 := Nat.lt_of_lt_of_le (mul_lt_pow b r 128 64 hb hr) (by decide)
    have hdiv : b * r / 2 ^ 64 < 2 ^ 128 := by
      have := mul_lt_pow b r 128 64 hb hr
      exact Nat.div_lt_of_lt_mul (by rw [← Nat.pow_add]; exact this)
    obtain ⟨h1, h2⟩ := negLoop_closed r s hr n (b * r / 2 ^ 64) (add32 sh s) hdiv (add32_lt _ _)
    constructor
    · rw [negLoop, bmul_exact b r hmul]
      simp only [bshr, show maxShift = 64 from rfl, negIter]
      rw [h1]
      congr 1
      unfold add32
      rw [Nat.mod_add_mod, Nat.succ_mul]
      congr 1; omega
    · simpa [negIter] using h2

/-- `bindex b > 2` (the product occupies the fourth 64-bit word) is `b ≥ 2^192` -/
theorem bindex_gt_two (b : Nat) : bindex b > 2 ↔ 2 ^ 192 ≤ b := by
  unfold bindex
  rw [show bigIntTypeWidth = 64 from rfl]
  by_cases h0 : b = 0
  · subst h0; simp
  · simp only [h0, if_false]
    rw [← Nat.le_log2 h0]
    omega

theorem posLoop_closed (p : Nat) (hp : p < 2 ^ 63) : ∀ (n b s : Nat), b < 2 ^ 192 →
    posLoop p n b s = posIter p n b s ∧ (posIter p n b s).1 < 2 ^ 192
  | 0, b, s, hb => ⟨rfl, hb⟩
  | n + 1, b, s, hb => by
    have hmul : b * p < 2 ^ 256 := Nat.lt_of_lt_of_le (mul_lt_pow b p 192 63 hb hp) (by decide)
    have hdiv : b * p / 2 ^ 64 < 2 ^ 192 := by
      exact Nat.div_lt_of_lt_mul (by rw [← Nat.pow_add]; exact hmul)
    rw [posLoop, bmul_exact b p hmul, posIter]
    simp only [bindex_gt_two, bshr, show maxShift = 64 from rfl]
    split
    · exact posLoop_closed p hp n _ _ hdiv
    · rename_i h
      exact posLoop_closed p hp n _ _ (by omega)

/-- both table lookups used by the loops are 64-bit (resp. 63-bit) words -/
theorem tables_bounds : (∀ x ∈ powerOfFive, x < 2 ^ 63) ∧ (∀ x ∈ powerOfOneOverFive, x < 2 ^ 64) := by decide

/-- `powerOfNegativeTen`'s big integer before normalisation, in closed form: the 256-bit object
never overflows and `b_int = ⌊…⌊⌊num·2^64·r₂₇/2^64⌋·r₂₇/2^64⌋…·r_j/2^64⌋`. -/
theorem negScale_closed (num x : Nat) (hn : num < 2 ^ 64) :
    ∃ r27 s27, powerOfOneOverFive[27]? = some r27 ∧ powerOfOneOverFiveShift[27]? = some s27 ∧
      ((x % 27 = 0 ∧ negScale num x = some (negIter r27 (x / 27) (num * 2 ^ 64), (add32 x 64 + x / 27 * s27) % 2 ^ 32)) ∨
       (x % 27 ≠ 0 ∧ ∃ rj sj, powerOfOneOverFive[x % 27]? = some rj ∧ powerOfOneOverFiveShift[x % 27]? = some sj ∧
          negScale num x = some (negIter r27 (x / 27) (num * 2 ^ 64) * rj / 2 ^ 64,
            add32 ((add32 x 64 + x / 27 * s27) % 2 ^ 32) sj))) := by
  obtain ⟨_, h2, h3, _⟩ := tables_len
  obtain ⟨r27, hr27e⟩ : ∃ r, powerOfOneOverFive[27]? = some r := ⟨_, List.getElem?_eq_getElem (by rw [h2]; decide)⟩
  obtain ⟨s27, hs27e⟩ : ∃ r, powerOfOneOverFiveShift[27]? = some r := ⟨_, List.getElem?_eq_getElem (by rw [h3]; decide)⟩
  refine ⟨r27, s27, hr27e, hs27e, ?_⟩
  have hr27 : r27 < 2 ^ 64 := tables_bounds.2 _ (List.mem_of_getElem? hr27e)
  have hb0 : num * 2 ^ 64 < 2 ^ 128 := by omega
  have hshl : bshl num 64 = num * 2 ^ 64 := by
    unfold bshl bigW; rw [show bigIntTotalBits = 256 from rfl]
    exact Nat.mod_eq_of_lt (Nat.lt_of_lt_of_le hb0 (by decide))
  obtain ⟨hl, hlt⟩ := negLoop_closed r27 s27 hr27 (x / 27) (num * 2 ^ 64) (add32 x 64) hb0 (add32_lt _ _)
  unfold negScale
  simp only [show maxPowerOfFive = 27 from rfl, hr27e, hs27e, hshl]
  rw [hl]
  by_cases hx : x % 27 = 0
  · left; simp [hx]
  · right
    have hjlt : x % 27 < 28 := by omega
    obtain ⟨rj, hrje⟩ : ∃ r, powerOfOneOverFive[x % 27]? = some r := ⟨_, List.getElem?_eq_getElem (by rw [h2]; exact hjlt)⟩
    obtain ⟨sj, hsje⟩ : ∃ r, powerOfOneOverFiveShift[x % 27]? = some r := ⟨_, List.getElem?_eq_getElem (by rw [h3]; exact hjlt)⟩
    refine ⟨hx, rj, sj, hrje, hsje, ?_⟩
    have hrjb : rj < 2 ^ 64 := tables_bounds.2 _ (List.mem_of_getElem? hrje)
    have hmul := mul_lt_pow _ _ 128 64 hlt hrjb
    simp only [hx, ne_eq, not_false_eq_true, if_true, hrje, hsje]
    rw [bmul_exact _ _ (Nat.lt_of_lt_of_le hmul (by decide))]
    simp [bshr, show maxShift = 64 from rfl]

/-- `powerOfPositiveTen`'s big integer before normalisation, in closed form: products by `5^27`
(`5^j` last) with a division by `2^64` whenever the fourth word is reached; never beyond 255 bits. -/
theorem posScale_closed (num x : Nat) (hn : num < 2 ^ 64) :
    ∃ p27, powerOfFive[27]? = some p27 ∧
      ((x % 27 = 0 ∧ posScale num x = some (posIter p27 (x / 27) num x)) ∨
       (x % 27 ≠ 0 ∧ ∃ pj, powerOfFive[x % 27]? = some pj ∧
          posScale num x = some ((posIter p27 (x / 27) num x).1 * pj, (posIter p27 (x / 27) num x).2) ∧
          (posIter p27 (x / 27) num x).1 * pj < 2 ^ 255)) := by
  obtain ⟨h1, _, _, _⟩ := tables_len
  obtain ⟨p27, hp27e⟩ : ∃ r, powerOfFive[27]? = some r := ⟨_, List.getElem?_eq_getElem (by rw [h1]; decide)⟩
  refine ⟨p27, hp27e, ?_⟩
  have hp27 : p27 < 2 ^ 63 := tables_bounds.1 _ (List.mem_of_getElem? hp27e)
  obtain ⟨hl, hlt⟩ := posLoop_closed p27 hp27 (x / 27) num x (Nat.lt_of_lt_of_le hn (by decide))
  unfold posScale
  simp only [show maxPowerOfFive = 27 from rfl, hp27e]
  rw [hl]
  by_cases hx : x % 27 = 0
  · left; simp [hx]
  · right
    obtain ⟨pj, hpje⟩ : ∃ r, powerOfFive[x % 27]? = some r := ⟨_, List.getElem?_eq_getElem (by rw [h1]; omega)⟩
    have hpjb : pj < 2 ^ 63 := tables_bounds.1 _ (List.mem_of_getElem? hpje)
    have hmul := mul_lt_pow _ _ 192 63 hlt hpjb
    refine ⟨hx, pj, hpje, ?_, hmul⟩
    simp only [hx, ne_eq, not_false_eq_true, if_true, hpje, Option.map_some]
    rw [bmul_exact _ _ (Nat.lt_of_lt_of_le hmul (by decide))]

end Qentem.StrToNum
