import Qentem.Proofs.ExprScanSafe
import Qentem.Model.ExprSpec
/-!
# C04 — every list the (repaired) scanner returns is a well-formed flat list

`scan_wf`: inside a tag, `parseTop` returns either the empty list ("not an expression") or a list
satisfying `wfItems` — exactly the hypothesis of `evaluate_eq_tree`.  Needs the second conjunct of
the final test of `parseExpressions` (`last_oper == NoOp`, notes/fix-expr-scan-dangling-operator.diff):
before it a two-unit operator straddling `end_offset` produced a list ending in an operator.
-/
namespace Qentem.Expr
open Qentem.Generated.Expr
variable {R : Type}

/-- operands well-formed, every entry followed by a real operator (a list still being extended) -/
def wfOpen : List (Item R) → Bool
  | [] => true
  | (x, o) :: rest => x.wf && o != .noOp && wfOpen rest

theorem wfOpen_snoc (x : Operand R) (o : Op) : ∀ (a : List (Item R)),
    wfOpen (a ++ [(x, o)]) = (wfOpen a && x.wf && o != .noOp) := by
  intro a
  induction a with
  | nil => simp [wfOpen]
  | cons y rest ih =>
    obtain ⟨y1, y2⟩ := y
    simp only [List.cons_append, wfOpen, ih]
    cases y1.wf <;> cases (y2 != Op.noOp) <;> simp

theorem wfTail_snoc (x : Operand R) (hx : x.wf = true) : ∀ (a : List (Item R)) (o : Op),
    o ≠ .noOp → wfOpen a = true → wfTail o (a ++ [(x, .noOp)]) = true := by
  intro a
  induction a with
  | nil => intro o ho _; simp [wfTail, ho, hx]
  | cons y rest ih =>
    intro o ho hw
    obtain ⟨y1, y2⟩ := y
    simp only [wfOpen, Bool.and_eq_true, bne_iff_ne, ne_eq] at hw
    simp only [List.cons_append, wfTail, Bool.and_eq_true, bne_iff_ne, ne_eq]
    exact ⟨⟨ho, hw.1.1⟩, ih y2 hw.1.2 hw.2⟩

theorem wfItems_snoc (x : Operand R) (hx : x.wf = true) (a : List (Item R)) (hw : wfOpen a = true) :
    wfItems (a ++ [(x, .noOp)]) = true := by
  cases a with
  | nil => simp [wfItems, wfTail, hx]
  | cons y rest =>
    obtain ⟨y1, y2⟩ := y
    simp only [wfOpen, Bool.and_eq_true, bne_iff_ne, ne_eq] at hw
    simp only [List.cons_append, wfItems, Bool.and_eq_true]
    exact ⟨hw.1.1, wfTail_snoc x hx rest y2 hw.1.2 hw.2⟩

/-- result of the scanner: nothing, or a well-formed list -/
def ScanOk (r : List (Item R)) : Prop := r = [] ∨ wfItems r = true

theorem scan_wf (cfg : ScanCfg R) (c : List Nat) : ∀ f,
    (∀ off endO, endO < c.length → Safe (parseExpressions cfg c f off endO) ScanOk) ∧
    (∀ endO off exprs lastOp, endO < c.length →
      ((wfOpen exprs = true ∧ (lastOp = .noOp → exprs = [])) ∨
       (lastOp = .noOp ∧ wfItems exprs = true ∧ endO < off)) →
      Safe (parseLoop cfg c f endO off exprs lastOp) ScanOk) ∧
    (∀ exprs oper lastOp off0 end0, end0 < c.length → wfOpen exprs = true →
      Safe (parseValue cfg c f exprs oper lastOp off0 end0)
        (fun r => ∀ l, r = some l →
          (oper ≠ .noOp → wfOpen l = true) ∧ (oper = .noOp → wfItems l = true))) := by
  intro f
  induction f with
  | zero =>
    refine ⟨?_, ?_, ?_⟩ <;> intros <;> simp only [parseExpressions, parseLoop, parseValue] <;> exact Safe.fuel
  | succ f ih =>
    obtain ⟨ihE, ihL, ihV⟩ := ih
    refine ⟨?_, ?_, ?_⟩
    · intro off endO he
      simp only [parseExpressions]
      exact ihL _ _ _ _ he (Or.inl ⟨by simp [wfOpen], fun _ => rfl⟩)
    · intro endO off exprs lastOp he hinv
      simp only [parseLoop]
      split
      · rename_i hlt
        rcases hinv with ⟨hopen, _⟩ | ⟨_, _, hgt⟩
        · apply Safe.bind (getOperation_safe c endO he _ off (by omega))
          intro r hr
          obtain ⟨oper, opOff⟩ := r
          simp only [] at hr ⊢
          split
          · exact Safe.ok _ (Or.inl rfl)
          · apply Safe.bind (ihV exprs oper lastOp off opOff (by omega) hopen)
            intro v hv
            cases v with
            | none => exact Safe.ok _ (Or.inl rfl)
            | some ex =>
              obtain ⟨h1, h2⟩ := hv ex rfl
              by_cases hno : oper = .noOp
              · subst hno
                have hoff : opOff = endO := hr.2 rfl
                have hrank : Op.noOp.rank < Op.greater.rank := by decide
                apply ihL _ _ _ _ he
                right
                refine ⟨rfl, h2 rfl, ?_⟩
                simp only [hrank, if_true]; omega
              · apply ihL _ _ _ _ he
                left
                exact ⟨h1 hno, fun h => absurd h hno⟩
        · omega
      · rename_i hge
        split
        · rename_i hex
          rcases hinv with ⟨_, hnil⟩ | ⟨_, hw, _⟩
          · exact Safe.ok _ (Or.inl (hnil hex.2))
          · exact Safe.ok _ (Or.inr hw)
        · exact Safe.ok _ (Or.inl rfl)
    · intro exprs oper lastOp off0 end0 he hex
      simp only [parseValue]
      apply Safe.bind (trimLeft_safe c end0 (by omega) _ off0)
      intro off _
      apply Safe.bind (trimRight_safe c off end0 (by omega))
      intro endO hend
      have hleaf : ∀ (x : Operand R), x.wf = true → ∀ l, some (exprs ++ [(x, oper)]) = some l →
          (oper ≠ .noOp → wfOpen l = true) ∧ (oper = .noOp → wfItems l = true) := by
        intro x hx l hl
        simp only [Option.some.injEq] at hl
        subst hl
        constructor
        · intro hne; rw [wfOpen_snoc]; simp [hex, hx, hne]
        · intro heq; subst heq; exact wfItems_snoc x hx exprs hex
      split
      · rename_i hlt
        apply Safe.bind (rd_safe c off (by omega))
        intro ch _
        split
        · apply Safe.bind (ihE (off + 1) (endO - 1) (by omega))
          intro sub hsub
          split
          · split
            · exact Safe.ok _ (by intro l hl; cases hl)
            · rename_i hne
              have hw : wfItems sub = true := by
                rcases hsub with h | h
                · subst h; simp at hne
                · exact h
              exact Safe.ok _ (hleaf (.sub sub) (by simpa [Operand.wf] using hw))
          · rename_i hcond
            split
            · exact Safe.ok _ (by intro l hl; cases hl)
            · rename_i hne
              have hw : wfItems sub = true := by
                rcases hsub with h | h
                · subst h; simp at hne
                · exact h
              have hop : oper = .noOp := by
                by_cases h : oper = .noOp
                · exact h
                · exact absurd (Or.inr h) hcond
              refine Safe.ok _ ?_
              intro l hl
              simp only [Option.some.injEq] at hl
              subst hl
              exact ⟨fun h => absurd hop h, fun _ => hw⟩
        · split
          · split
            · apply Safe.bind (rd_safe c (endO - W1.inLineSuffixLength) (by
                have : W1.inLineSuffixLength = 1 := by decide
                omega))
              intro last _
              split
              · exact Safe.ok _ (hleaf _ (by simp [Operand.wf]))
              · exact Safe.ok _ (by intro l hl; cases hl)
            · exact Safe.ok _ (by intro l hl; cases hl)
          · split
            · exact Safe.ok _ (hleaf _ (by simp [Operand.wf]))
            · split
              · exact Safe.ok _ (hleaf _ (by simp [Operand.wf]))
              · exact Safe.ok _ (by intro l hl; cases hl)
      · exact Safe.ok _ (by intro l hl; cases hl)

/-- inside a tag the scanner returns nothing or a well-formed flat list -/
theorem parseTop_wf (cfg : ScanCfg R) (c : List Nat) (off endO : Nat) (he : endO < c.length) :
    Safe (parseTop cfg c off endO) ScanOk :=
  (scan_wf cfg c _).1 off endO he

end Qentem.Expr
