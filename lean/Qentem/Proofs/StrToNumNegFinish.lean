import Qentem.Proofs.StrToNumPosFinish
/-! C09 helper lemmas: `negFinish` (normalise to 54 bits, three exponent cases, round, assemble)
is the raw pattern of `b·2^-sh` rounded half-up at the effective binade `max bit (sh − 1022)`. -/
namespace Qentem.StrToNum
open Qentem.Round Qentem.Generated.StrToNum

/-- the code's raw pattern of `b·2^-sh` -/
def codeRawNeg (b sh : Nat) : Nat :=
  (max (Nat.log2 b) (sh - 1022) + 1022 - sh) * 2 ^ 52 + halfUp b (2 ^ (max (Nat.log2 b) (sh - 1022) - 53))

theorem roundBit_eq_halfUp (b k : Nat) (h : b / 2 ^ k < 2 ^ 63) : roundBit (b / 2 ^ k) = halfUp b (2 ^ k) := by
  unfold roundBit halfUp
  rw [Nat.mod_eq_of_lt (by omega)]

theorem add32_small (y : Nat) (h : y ≤ 256) : add32 1023 y = 1023 + y := by
  unfold add32; exact Nat.mod_eq_of_lt (by omega)

theorem negFinish_eq (b sh : Nat) (hb53 : 2 ^ 53 ≤ b) (hb256 : b < 2 ^ 256) (hsh : sh < 2 ^ 31) :
    negFinish b sh = codeRawNeg b sh := by
  have hb0 : b ≠ 0 := by
    intro h; subst h; exact absurd hb53 (by decide)
  obtain ⟨hlo, hhi⟩ := log2_bounds b hb0
  have hbit53 : 53 ≤ Nat.log2 b := (Nat.le_log2 hb0).2 hb53
  have hbit256 : Nat.log2 b < 256 := (Nat.log2_lt hb0).2 hb256
  have hbias : bias = 1023 := rfl
  clear hb256
  unfold negFinish codeRawNeg
  simp only [hbias]
  generalize hbit : Nat.log2 b = bit at *
  have hsub : sub32 bit 53 = bit - 53 := by unfold sub32; omega
  have htlo : 2 ^ 53 ≤ b / 2 ^ (bit - 53) := by
    rw [Nat.le_div_iff_mul_le (Nat.pow_pos (by decide)), ← Nat.pow_add]
    rw [show 53 + (bit - 53) = bit by omega]; exact hlo
  have hthi : b / 2 ^ (bit - 53) < 2 ^ 54 := by
    rw [Nat.div_lt_iff_lt_mul (Nat.pow_pos (by decide)), ← Nat.pow_add]
    rw [show 54 + (bit - 53) = bit + 1 by omega]; exact hhi
  have hmod : (bshr b (bit - 53)) % 2 ^ 64 = b / 2 ^ (bit - 53) := by
    unfold bshr; exact Nat.mod_eq_of_lt (by omega)
  rw [hsub, hmod]
  have hrb := roundBit_eq_halfUp b (bit - 53) (by omega)
  have hnlo : 2 ^ 52 ≤ halfUp b (2 ^ (bit - 53)) := by unfold halfUp; omega
  have hnhi : halfUp b (2 ^ (bit - 53)) ≤ 2 ^ 53 := by unfold halfUp; omega
  -- the two normal branches share one computation
  have normal : ∀ ex : Nat, ex + sh = 1023 + bit → 1 ≤ ex →
      (let n := roundBit (b / 2 ^ (bit - 53))
       (n &&& 0xFFFFFFFFFFFFF) ||| ((add32 ex (b2n (decide (n > 0x1FFFFFFFFFFFFF))) * 2 ^ 52) % 2 ^ 64)) =
      (bit + 1022 - sh) * 2 ^ 52 + halfUp b (2 ^ (bit - 53)) := by
    intro ex hex hex1
    simp only [hrb]
    generalize halfUp b (2 ^ (bit - 53)) = n at *
    by_cases hc : n > 0x1FFFFFFFFFFFFF
    · have hn : n = 2 ^ 53 := by omega
      subst hn
      have hsh' : add32 ex (b2n (decide ((2 : Nat) ^ 53 > 0x1FFFFFFFFFFFFF))) = ex + 1 := by
        simp [add32, b2n]; omega
      rw [hsh', pack_carry _ (by omega)]
      have : bit + 1022 - sh = ex - 1 := by omega
      rw [this]
      have : (ex + 1) * 2 ^ 52 = (ex - 1) * 2 ^ 52 + 2 ^ 53 := by
        obtain ⟨w, hw⟩ : ∃ w, ex = w + 1 := ⟨ex - 1, by omega⟩
        subst hw; simp; ring
      exact this
    · have hn : n < 2 ^ 53 := by omega
      have hsh' : add32 ex (b2n (decide (n > 0x1FFFFFFFFFFFFF))) = ex := by
        simp [add32, b2n, hc]; omega
      rw [hsh', pack_normal n _ hnlo hn (by omega)]
      have : bit + 1022 - sh = ex - 1 := by omega
      rw [this]
      obtain ⟨w, hw⟩ : ∃ w, ex = w + 1 := ⟨ex - 1, by omega⟩
      subst hw; simp; ring_nf; omega
  by_cases hA : sh ≤ bit
  · simp only [hA, if_true]
    have hmax : max bit (sh - 1022) = bit := by omega
    rw [hmax]
    rw [add32_small (bit - sh) (by omega)]
    exact normal (1023 + (bit - sh)) (by omega) (by omega)
  · simp only [hA, if_false]
    by_cases hB : 1023 > sh - bit
    · simp only [hB, if_true]
      have hmax : max bit (sh - 1022) = bit := by omega
      rw [hmax]
      exact normal (1023 - (sh - bit)) (by omega) (by omega)
    · simp only [hB, if_false]
      have hmax : max bit (sh - 1022) = sh - 1022 := by omega
      rw [hmax]
      have hq : add32 (sh - bit - 1023) 1 = sh - bit - 1022 := by unfold add32; omega
      rw [hq]
      have hdd : b / 2 ^ (bit - 53) / 2 ^ (sh - bit - 1022) = b / 2 ^ (sh - 1022 - 53) := by
        have hexp : bit - 53 + (sh - bit - 1022) = sh - 1022 - 53 := by
          clear normal hrb hmod htlo hthi hnlo hnhi hlo hhi
          omega
        rw [Nat.div_div_eq_div_mul, ← Nat.pow_add, hexp]
      rw [hdd]
      have hlt : b / 2 ^ (sh - 1022 - 53) < 2 ^ 53 := by
        rw [Nat.div_lt_iff_lt_mul (Nat.pow_pos (by decide)), ← Nat.pow_add]
        exact Nat.lt_of_lt_of_le hhi (Nat.pow_le_pow_right (by decide) (by omega))
      rw [roundBit_eq_halfUp b (sh - 1022 - 53) (by omega)]
      have hn52 : halfUp b (2 ^ (sh - 1022 - 53)) ≤ 2 ^ 52 := by unfold halfUp; omega
      generalize halfUp b (2 ^ (sh - 1022 - 53)) = n at *
      have hz : sh - 1022 + 1022 - sh = 0 := by omega
      rw [hz, Nat.zero_mul, Nat.zero_add]
      by_cases hc : n > 0xFFFFFFFFFFFFF
      · have hn : n = 2 ^ 52 := by omega
        subst hn
        simp [b2n]
      · have hn : n < 2 ^ 52 := by omega
        simp only [hc, decide_false, b2n, Bool.false_eq_true, if_false, Nat.zero_mul, Nat.zero_mod, Nat.or_zero]
        have hm : (0xFFFFFFFFFFFFF : Nat) = 2 ^ 52 - 1 := by decide
        rw [hm, Nat.and_two_pow_sub_one_eq_mod]
        exact Nat.mod_eq_of_lt hn

end Qentem.StrToNum
