import Qentem.Proofs.HashTableRename
/-!
One step of the layout model refines one step of the slot specification; lifted to operation
sequences by induction.
-/
namespace Qentem.HashTable
variable {V : Type}

/-- One step: no fault, invariant kept, same abstract effect and same output. -/
theorem step_refines [Inhabited V] {H : List Nat → Nat} (ord : Nat → Nat) (hH : ∀ k, H k ≠ 0) {s : HT V}
    (hI : Inv H s) (op : Op V) :
    ∃ s' o, step H ord s op = some (s', o) ∧ Inv H s' ∧ (abs s', o) = Spec.step ord (abs s) op := by
  cases op with
  | insert k v =>
    obtain ⟨s', hrun, hI', habs⟩ := insert_spec hI hH k v
    exact ⟨s', .unit, by simp [step, hrun], hI', by simp [Spec.step, habs]⟩
  | get k =>
    obtain ⟨s', i, it, hrun, hI', habs, hit, _, _, hv⟩ := getOrCreate_spec hI hH k
    exact ⟨s', .value it.val, by simp [step, hrun, hit], hI', by simp [Spec.step, habs, hv]⟩
  | assign k v =>
    obtain ⟨s', hrun, hI', habs⟩ := assign_spec hI hH k v
    exact ⟨s', .unit, by simp [step, hrun], hI', by simp [Spec.step, habs]⟩
  | lookup k =>
    exact ⟨s, .found (Spec.lookup (abs s) k), by simp [step, lookup_spec hI hH k], hI, by simp [Spec.step]⟩
  | lookupIdx i =>
    exact ⟨s, .entry (lookupIdx s i), by simp [step], hI, by simp [Spec.step, lookupIdx_spec]⟩
  | remove k =>
    obtain ⟨s', hrun, hI', habs⟩ := remove_spec hI hH k
    exact ⟨s', .unit, by simp [step, hrun], hI', by simp [Spec.step, habs]⟩
  | removeIdx i =>
    obtain ⟨s', hrun, hI', habs⟩ := removeIdx_spec hI hH i
    exact ⟨s', .unit, by simp [step, hrun], hI', by simp [Spec.step, habs]⟩
  | rename a b =>
    obtain ⟨s', r, hrun, hI', habs⟩ := rename_spec hI hH a b
    exact ⟨s', .flag r, by simp [step, hrun], hI', by
      have h1 : (Spec.rename (abs s) a b).1 = abs s' := by rw [← habs]
      have h2 : (Spec.rename (abs s) a b).2 = r := by rw [← habs]
      simp [Spec.step, h1, h2]⟩
  | reserve n =>
    exact ⟨reserve s n, .unit, by simp [step], (reserve_spec hI n).1, by simp [Spec.step, (reserve_spec hI n).2]⟩
  | resize n =>
    obtain ⟨s', hrun, hI', habs⟩ := resizeTo_spec hI n
    exact ⟨s', .unit, by simp [step, hrun], hI', by simp [Spec.step, habs]⟩
  | expect n =>
    obtain ⟨s', hrun, hI', habs⟩ := expect_spec hI n
    exact ⟨s', .unit, by simp [step, hrun], hI', by simp [Spec.step, habs]⟩
  | compress =>
    obtain ⟨s', hrun, hI', habs⟩ := compress_spec hI
    exact ⟨s', .unit, by simp [step, hrun], hI', by simp [Spec.step, habs]⟩
  | clear =>
    exact ⟨clear s, .unit, by simp [step], (clear_spec hI).1, by simp [Spec.step, (clear_spec hI).2]⟩
  | reset =>
    exact ⟨reset s, .unit, by simp [step], (reset_spec hI).1, by simp [Spec.step, (reset_spec hI).2]⟩
  | sort a =>
    obtain ⟨s', hrun, hI', habs⟩ := sort_spec ord hI a
    exact ⟨s', .unit, by simp [step, hrun], hI', by simp [Spec.step, habs]⟩
  | copy =>
    obtain ⟨s', hrun, hI', habs⟩ := copy_spec hI
    exact ⟨s', .unit, by simp [step, hrun], hI', by simp [Spec.step, habs]⟩
  | move =>
    exact ⟨s, .unit, by simp [step, moveFrom], hI, by simp [Spec.step]⟩
  | merge ins rem =>
    obtain ⟨src, hb, hS, habsS⟩ := buildOperand_spec hH ins rem
    obtain ⟨s', hrun, hI', habs⟩ := merge_spec hH hI hS
    exact ⟨s', .unit, by simp [step, hb, hrun], hI', by simp [Spec.step, habs, habsS]⟩
  | selfMerge => exact ⟨s, .unit, by simp [step], hI, by simp [Spec.step]⟩

/-- Every operation sequence: the run never faults, ends in a state satisfying the invariant, and
its abstract state and all outputs are those of the specification. -/
theorem run_refines [Inhabited V] {H : List Nat → Nat} (ord : Nat → Nat) (hH : ∀ k, H k ≠ 0) :
    ∀ (ops : List (Op V)) {s : HT V}, Inv H s →
    ∃ s' os, run H ord s ops = some (s', os) ∧ Inv H s' ∧ (abs s', os) = Spec.run ord (abs s) ops
  | [], s, hI => ⟨s, [], rfl, hI, rfl⟩
  | op :: ops, s, hI => by
    obtain ⟨s1, o, hstep, hI1, habs1⟩ := step_refines ord hH hI op
    obtain ⟨s2, os, hrun, hI2, habs2⟩ := run_refines ord hH ops hI1
    refine ⟨s2, o :: os, by simp [run, hstep, hrun], hI2, ?_⟩
    have h1 : (Spec.step ord (abs s) op).1 = abs s1 := by rw [← habs1]
    have h2 : (Spec.step ord (abs s) op).2 = o := by rw [← habs1]
    simp only [Spec.run, h1, h2, ← habs2]

end Qentem.HashTable
