import Qentem.Proofs.StrToNumPosIter
import Mathlib.Tactic.Positivity
/-! C09 helper lemma: `powerOfPositiveTen num x` is within one unit in the last place of the
correctly rounded value of `num · 10^x`, for every 64-bit `num > 0` (overflow included: both sides
are then capped at infinity). -/
namespace Qentem.StrToNum
open Qentem.Round Qentem.Generated.StrToNum

theorem pow5_get : ∀ i, i < 28 → powerOfFive[i]? = some (5 ^ i) := by decide

/-- from the loop invariant to the hypothesis of `raw_close` -/
theorem inv_to_close (b N j x : Nat) (hN : 0 < N) (h : PosInv b N j) (hj : j ≤ 2 ^ 20) :
    0 < b ∧ b * 2 ^ (x + 64 * j) ≤ N * 2 ^ x ∧
    (Nat.log2 b ≤ 52 → N * 2 ^ x = b * 2 ^ (x + 64 * j)) ∧
    (52 < Nat.log2 b → N * 2 ^ x < b * 2 ^ (x + 64 * j) + 2 ^ (Nat.log2 b - 53) * 2 ^ (x + 64 * j)) ∧
    (52 < Nat.log2 b →
      16 * (N * 2 ^ x) < 16 * (b * 2 ^ (x + 64 * j)) + 2 ^ (Nat.log2 b - 53) * 2 ^ (x + 64 * j)) := by
  obtain ⟨h1, h2, h3⟩ := h
  have hM : 0 < 2 ^ (64 * j) := Nat.pow_pos (by decide)
  have hX : 0 < 2 ^ x := Nat.pow_pos (by decide)
  have hpow : 2 ^ (x + 64 * j) = 2 ^ (64 * j) * 2 ^ x := by rw [Nat.pow_add, Nat.mul_comm]
  have hb : 0 < b := by
    rcases Nat.eq_zero_or_pos b with h0 | h0
    · subst h0; simp at h2; omega
    · exact h0
  have hb0 : b ≠ 0 := by omega
  obtain ⟨hlo, hhi⟩ := log2_bounds b hb0
  refine ⟨hb, ?_, ?_, ?_, ?_⟩
  · rw [hpow, ← Nat.mul_assoc]; exact Nat.mul_le_mul_right _ h1
  · intro hbit
    have hb53 : b < 2 ^ 128 := Nat.lt_of_lt_of_le hhi (Nat.pow_le_pow_right (by decide) (by omega))
    have hj0 : j = 0 := by rcases h3 with h | h <;> omega
    subst hj0
    rw [Nat.mul_zero, Nat.pow_zero, Nat.mul_one] at h1 h2
    rw [Nat.add_zero, Nat.mul_comm] at h2
    have hNb : N ≤ b := Nat.le_of_mul_le_mul_left h2 (Nat.pow_pos (by decide))
    have : N = b := Nat.le_antisymm hNb h1
    rw [this, Nat.mul_zero, Nat.add_zero]
  · intro hbit
    obtain ⟨t, ht⟩ : ∃ t, Nat.log2 b = 53 + t := ⟨Nat.log2 b - 53, by omega⟩
    rw [show Nat.log2 b - 53 = t by omega, hpow]
    have hhi' : b < 2 ^ 54 * 2 ^ t := by rw [← Nat.pow_add, show 54 + t = Nat.log2 b + 1 by omega]; exact hhi
    generalize 2 ^ (64 * j) = M at *
    generalize 2 ^ t = T at *
    -- N < b*M + T*M, otherwise j would exceed 2^73
    have key : N < b * M + T * M := by
      by_contra hcon
      have hcon' : b * M + T * M ≤ N := by omega
      have e1 : (b * M + T * M) * 2 ^ 127 ≤ (2 ^ 127 + j) * (b * M) :=
        Nat.le_trans (Nat.mul_le_mul_right _ hcon') h2
      have e2 : T * M * 2 ^ 127 ≤ j * (b * M) := by
        have a1 : (b * M + T * M) * 2 ^ 127 = b * M * 2 ^ 127 + T * M * 2 ^ 127 := by ring
        have a2 : (2 ^ 127 + j) * (b * M) = b * M * 2 ^ 127 + j * (b * M) := by ring
        rw [a1, a2] at e1
        exact Nat.le_of_add_le_add_left e1
      have e3 : j * (b * M) ≤ 2 ^ 20 * (2 ^ 54 * T * M) := by
        calc j * (b * M) ≤ 2 ^ 20 * (b * M) := Nat.mul_le_mul_right _ hj
          _ ≤ 2 ^ 20 * (2 ^ 54 * T * M) :=
              Nat.mul_le_mul_left _ (Nat.mul_le_mul_right _ (Nat.le_of_lt hhi'))
      have hT : 0 < T := by
        rcases Nat.eq_zero_or_pos T with h0 | h0
        · subst h0; simp at hhi'
        · exact h0
      have hTM : 0 < T * M := Nat.mul_pos hT hM
      have e4 : T * M * 2 ^ 127 ≤ T * M * 2 ^ 74 := by
        calc T * M * 2 ^ 127 ≤ 2 ^ 20 * (2 ^ 54 * T * M) := Nat.le_trans e2 e3
          _ = T * M * 2 ^ 74 := by rw [show (2 : Nat) ^ 74 = 2 ^ 20 * 2 ^ 54 by decide]; ring
      have := Nat.le_of_mul_le_mul_left e4 hTM
      exact absurd this (by decide)
    calc N * 2 ^ x < (b * M + T * M) * 2 ^ x := Nat.mul_lt_mul_of_pos_right key hX
      _ = b * (M * 2 ^ x) + T * (M * 2 ^ x) := by ring
  · intro hbit
    obtain ⟨t, ht⟩ : ∃ t, Nat.log2 b = 53 + t := ⟨Nat.log2 b - 53, by omega⟩
    rw [show Nat.log2 b - 53 = t by omega, hpow]
    have hhi' : b < 2 ^ 54 * 2 ^ t := by rw [← Nat.pow_add, show 54 + t = Nat.log2 b + 1 by omega]; exact hhi
    generalize 2 ^ (64 * j) = M at *
    generalize 2 ^ t = T at *
    have hT : 0 < T := by
      rcases Nat.eq_zero_or_pos T with h0 | h0
      · subst h0; simp at hhi'
      · exact h0
    have hTM : 0 < T * M := Nat.mul_pos hT hM
    have key : 16 * N < 16 * (b * M) + T * M := by
      by_contra hcon
      have hcon' : 16 * (b * M) + T * M ≤ 16 * N := by omega
      have e1 : (16 * (b * M) + T * M) * 2 ^ 127 ≤ 16 * ((2 ^ 127 + j) * (b * M)) := by
        calc (16 * (b * M) + T * M) * 2 ^ 127 ≤ 16 * N * 2 ^ 127 := Nat.mul_le_mul_right _ hcon'
          _ = 16 * (N * 2 ^ 127) := by ring
          _ ≤ 16 * ((2 ^ 127 + j) * (b * M)) := Nat.mul_le_mul_left _ h2
      have e2 : T * M * 2 ^ 127 ≤ 16 * (j * (b * M)) := by
        have a1 : (16 * (b * M) + T * M) * 2 ^ 127 = 16 * (b * M) * 2 ^ 127 + T * M * 2 ^ 127 := by ring
        have a2 : 16 * ((2 ^ 127 + j) * (b * M)) = 16 * (b * M) * 2 ^ 127 + 16 * (j * (b * M)) := by ring
        rw [a1, a2] at e1
        exact Nat.le_of_add_le_add_left e1
      have e3 : 16 * (j * (b * M)) ≤ 16 * (2 ^ 20 * (2 ^ 54 * T * M)) := by
        apply Nat.mul_le_mul_left
        calc j * (b * M) ≤ 2 ^ 20 * (b * M) := Nat.mul_le_mul_right _ hj
          _ ≤ 2 ^ 20 * (2 ^ 54 * T * M) :=
              Nat.mul_le_mul_left _ (Nat.mul_le_mul_right _ (Nat.le_of_lt hhi'))
      have e4 : T * M * 2 ^ 127 ≤ T * M * 2 ^ 78 := by
        calc T * M * 2 ^ 127 ≤ 16 * (2 ^ 20 * (2 ^ 54 * T * M)) := Nat.le_trans e2 e3
          _ = T * M * 2 ^ 78 := by rw [show (2 : Nat) ^ 78 = 16 * (2 ^ 20 * 2 ^ 54) by decide]; ring
      have := Nat.le_of_mul_le_mul_left e4 hTM
      exact absurd this (by decide)
    calc 16 * (N * 2 ^ x) = 16 * N * 2 ^ x := by ring
      _ < (16 * (b * M) + T * M) * 2 ^ x := Nat.mul_lt_mul_of_pos_right key hX
      _ = 16 * (b * (M * 2 ^ x)) + T * (M * 2 ^ x) := by ring

/-- margin of a positive integer value: it needs no rounding (at most 53 bits), or it is at least 1/32 of
its unit in the last place away from the half-way points -/
def MarginInt (V : Nat) : Prop :=
  Nat.log2 V ≤ 52 ∨
    (32 * (V % 2 ^ (Nat.log2 V - 52)) + 2 ^ (Nat.log2 V - 52) ≤ 16 * 2 ^ (Nat.log2 V - 52) ∨
     17 * 2 ^ (Nat.log2 V - 52) ≤ 32 * (V % 2 ^ (Nat.log2 V - 52)))

/-- the result is the capped raw pattern of some `(b, s)` that is within one of the specification's
raw pattern of `num·10^x` and not below its truncation -/
theorem powerOfPositiveTen_raw (num x : Nat) (hn0 : 0 < num) (hn : num < 2 ^ 64) (hx : x ≤ 2 ^ 20) :
    ∃ c, powerOfPositiveTen num x = some (cap c) ∧ specRaw (num * 10 ^ x) ≤ c + 1 ∧ c ≤ specRaw (num * 10 ^ x) + 1 ∧
      floorRaw (num * 10 ^ x) ≤ c ∧ (MarginInt (num * 10 ^ x) → specRaw (num * 10 ^ x) = c) := by
  obtain ⟨p27, hp27e, hcases⟩ := posScale_closed num x hn
  have hp27 : p27 = 5 ^ 27 := by
    have := pow5_get 27 (by decide); rw [hp27e] at this; exact Option.some.inj this
  have hp27pos : 0 < p27 := by rw [hp27]; decide
  have hp27lt : p27 < 2 ^ 63 := by rw [hp27]; decide
  have hinit : PosInv num num 0 := by
    refine ⟨by simp, ?_, Or.inl rfl⟩
    rw [Nat.mul_zero, Nat.pow_zero, Nat.mul_one, Nat.add_zero, Nat.mul_comm]
  obtain ⟨j, hinv, _, hjn, hs⟩ := posIter_inv p27 hp27pos hp27lt (x / 27) num x num 0 hinit
    (by have := Nat.div_le_self x 27; omega) (by have := Nat.div_le_self x 27; omega)
    (Nat.lt_of_lt_of_le hn (by decide))
  obtain ⟨_, hlt192⟩ := posLoop_closed p27 hp27lt (x / 27) num x (Nat.lt_of_lt_of_le hn (by decide))
  have hj20 : j ≤ 2 ^ 20 := by have := Nat.div_le_self x 27; omega
  have hV : num * 10 ^ x = num * 5 ^ x * 2 ^ x := by
    rw [show (10 : Nat) = 5 * 2 by decide, Nat.mul_pow]; ring
  have hx27 : x = 27 * (x / 27) + x % 27 := (Nat.div_add_mod x 27).symm
  -- the final (b, s, N) with the invariant, in both cases
  have final : ∃ b s, posScale num x = some (b, s) ∧ b < 2 ^ 256 ∧ s = x + 64 * j ∧ PosInv b (num * 5 ^ x) j := by
    rcases hcases with ⟨h0, hps⟩ | ⟨h0, pj, hpje, hps, hlt⟩
    · refine ⟨_, _, hps, Nat.lt_of_lt_of_le hlt192 (by decide), by simpa using hs, ?_⟩
      have : num * p27 ^ (x / 27) = num * 5 ^ x := by
        rw [hp27, ← Nat.pow_mul]; congr 2; omega
      rw [← this]; exact hinv
    · have hpj : pj = 5 ^ (x % 27) := by
        have := pow5_get (x % 27) (by omega); rw [hpje] at this; exact Option.some.inj this
      refine ⟨_, _, hps, Nat.lt_of_lt_of_le hlt (by decide), by simpa using hs, ?_⟩
      have : num * p27 ^ (x / 27) * pj = num * 5 ^ x := by
        rw [hp27, hpj, ← Nat.pow_mul, Nat.mul_assoc, ← Nat.pow_add]; congr 2; omega
      rw [← this]
      exact hinv.mul pj (by rw [hpj]; exact Nat.pow_pos (by decide))
  obtain ⟨b, s, hps, hb256, hsx, hfin⟩ := final
  have hNpos : 0 < num * 5 ^ x := Nat.mul_pos hn0 (Nat.pow_pos (by decide))
  obtain ⟨hb, k1, k2, k3, k4⟩ := inv_to_close b (num * 5 ^ x) j x hNpos hfin hj20
  refine ⟨codeRaw b s, by simp [powerOfPositiveTen, hps, posFinish_eq b s hb hb256 (by omega)], ?_⟩
  rw [hV, hsx]
  obtain ⟨r1, r2, r3, r4⟩ := raw_close b (x + 64 * j) (num * 5 ^ x * 2 ^ x) hb k1 (fun h => k2 h) (fun h => k3 h)
  refine ⟨r1, r2, r3, fun hm => r4 (fun hbit hL => ?_)⟩
  -- the exact value keeps 1/32 of a unit away from the half-way points; the code is short by < 1/32
  have hk := k4 hbit
  have hLV : ¬ (Nat.log2 (num * 5 ^ x * 2 ^ x) ≤ 52) := by omega
  rcases hm with hm | hm
  · exact absurd hm hLV
  · rw [hL, show Nat.log2 b + (x + 64 * j) - 52 = (Nat.log2 b - 53) + 1 + (x + 64 * j) by omega] at hm
    have hu : 2 ^ (Nat.log2 b - 53 + 1 + (x + 64 * j)) = 2 * (2 ^ (Nat.log2 b - 53) * 2 ^ (x + 64 * j)) := by
      rw [Nat.pow_add, Nat.pow_succ]; ring
    rw [hu] at hm
    generalize 2 ^ (Nat.log2 b - 53) * 2 ^ (x + 64 * j) = h at *
    generalize num * 5 ^ x * 2 ^ x = V at *
    generalize b * 2 ^ (x + 64 * j) = B at *
    generalize V % (2 * h) = r at *
    rcases hm with hm | hm
    · left; omega
    · right; omega

theorem powerOfPositiveTen_close (num x : Nat) (hn0 : 0 < num) (hn : num < 2 ^ 64) (hx : x ≤ 2 ^ 20) :
    ∃ p, powerOfPositiveTen num x = some p ∧ ulpDist p (nearestMag (num * 10 ^ x) 1) ≤ 1 := by
  obtain ⟨c, h1, c1, c2, _, _⟩ := powerOfPositiveTen_raw num x hn0 hn hx
  refine ⟨cap c, h1, ?_⟩
  rw [nearestMag_nat _ (Nat.mul_pos hn0 (Nat.pow_pos (by decide)))]
  exact cap_close _ _ c2 c1

theorem floorRaw_ge_maxFinite (V : Nat) (hV : (2 ^ 53 - 1) * 2 ^ 971 ≤ V) : maxFiniteBits ≤ floorRaw V := by
  have hV0 : V ≠ 0 := by
    intro h; subst h
    have : 0 < (2 ^ 53 - 1) * 2 ^ 971 := Nat.mul_pos (by norm_num) (Nat.pow_pos (by decide))
    exact absurd hV (Nat.not_le.2 this)
  obtain ⟨hlo, hhi⟩ := log2_bounds V hV0
  have h1023 : 2 ^ 1023 ≤ V := by
    have : (2 : Nat) ^ 1023 = 2 ^ 52 * 2 ^ 971 := by rw [← Nat.pow_add]
    rw [this]; exact Nat.le_trans (Nat.mul_le_mul_right _ (by norm_num)) hV
  have hL : 1023 ≤ Nat.log2 V := (Nat.le_log2 hV0).2 h1023
  unfold floorRaw maxFiniteBits
  simp only [show ¬ (Nat.log2 V ≤ 52) by omega, if_false]
  rcases Nat.lt_or_ge (Nat.log2 V) 1024 with h | h
  · have hLe : Nat.log2 V = 1023 := by omega
    rw [hLe, show 1023 - 52 = 971 from rfl]
    have hK : (0 : Nat) < 2 ^ 971 := by positivity
    have := (Nat.le_div_iff_mul_le hK).2 hV
    generalize V / 2 ^ 971 = w at *
    omega
  · have : 2 ^ 52 ≤ V / 2 ^ (Nat.log2 V - 52) := by
      rw [Nat.le_div_iff_mul_le (Nat.pow_pos (by decide)), ← Nat.pow_add]
      rw [show 52 + (Nat.log2 V - 52) = Nat.log2 V by omega]; exact hlo
    have h2 : (1024 + 1022) * 2 ^ 52 ≤ (Nat.log2 V + 1022) * 2 ^ 52 := Nat.mul_le_mul_right _ (by omega)
    omega

/-- **Overflow is reported** by the positive-exponent scaling: a value above the largest finite
double comes back as the largest finite double (only possible when that is within rounding reach)
or as infinity — never as a smaller or wrapped finite pattern. -/
theorem powerOfPositiveTen_overflow (num x : Nat) (hn0 : 0 < num) (hn : num < 2 ^ 64) (hx : x ≤ 2 ^ 20)
    (hov : (2 ^ 53 - 1) * 2 ^ 971 ≤ num * 10 ^ x) :
    ∃ p, powerOfPositiveTen num x = some p ∧ (p = maxFiniteBits ∨ p = infBits) := by
  obtain ⟨c, h1, _, _, c3, _⟩ := powerOfPositiveTen_raw num x hn0 hn hx
  refine ⟨cap c, h1, ?_⟩
  have := floorRaw_ge_maxFinite _ hov
  unfold cap
  unfold maxFiniteBits at this ⊢
  unfold infBits
  split
  · exact Or.inr rfl
  · left; omega


/-- **Exact under the margin**: the positive-exponent scaling returns the correctly rounded
(nearest-even) pattern whenever `num·10^x` keeps 1/32 ulp away from the half-way points. -/
theorem powerOfPositiveTen_exact (num x : Nat) (hn0 : 0 < num) (hn : num < 2 ^ 64) (hx : x ≤ 2 ^ 20)
    (hm : MarginInt (num * 10 ^ x)) :
    powerOfPositiveTen num x = some (nearestMag (num * 10 ^ x) 1) := by
  obtain ⟨c, h1, _, _, _, c4⟩ := powerOfPositiveTen_raw num x hn0 hn hx
  rw [h1, nearestMag_nat _ (Nat.mul_pos hn0 (Nat.pow_pos (by decide))), c4 hm]

end Qentem.StrToNum
