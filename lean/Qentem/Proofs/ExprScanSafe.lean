import Qentem.Model.Expr
/-!
# C01/C04 — the expression scanner never reads out of range inside a tag

`Safe x P`: the checked computation `x` does not fail with an out-of-range read, and its result
satisfies `P`.  (Running out of fuel is a different failure; fuel adequacy is not claimed here.)
`parseTop_safe`: for every content, reader and range `[off, endO)` with `endO < length` — inside a
template the unit at `endO` is the tag's own terminator (`}` or the closing quote) — scanning the
expression performs no out-of-range read.  The public `ParseExpressions(content, length)` has
`endO = length`: there the one-unit look-ahead of `getOperation` can read `content[length]`
(witness in `Props/C04.lean`).
-/
namespace Qentem.Expr
open Qentem.Generated.Expr

def Safe {α : Type} (x : Except Fault α) (P : α → Prop) : Prop :=
  match x with
  | .ok a => P a
  | .error e => ∀ i n, e ≠ .oobRead i n

theorem Safe.ok {α : Type} {P : α → Prop} (a : α) (h : P a) : Safe (.ok a : Except Fault α) P := h

theorem Safe.fuel {α : Type} {P : α → Prop} : Safe (.error .fuel : Except Fault α) P := by
  intro i n h; cases h

theorem Safe.bind {α β : Type} {x : Except Fault α} {f : α → Except Fault β} {P : α → Prop}
    {Q : β → Prop} (hx : Safe x P) (hf : ∀ a, P a → Safe (f a) Q) : Safe (x >>= f) Q := by
  cases x with
  | ok a => exact hf a hx
  | error e => exact hx

theorem Safe.mono {α : Type} {x : Except Fault α} {P Q : α → Prop} (hx : Safe x P)
    (h : ∀ a, P a → Q a) : Safe x Q := by
  cases x with
  | ok a => exact h a hx
  | error e => exact hx

theorem rd_safe (c : List Nat) (i : Nat) (h : i < c.length) : Safe (rd c i) (fun _ => True) := by
  simp [rd, h, Safe]

theorem isExpression_safe (c : List Nat) : ∀ off, off ≤ c.length →
    Safe (isExpression c off) (fun _ => True) := by
  intro off
  induction off with
  | zero => intro _; exact Safe.ok _ trivial
  | succ off ih =>
    intro h
    simp only [isExpression]
    apply Safe.bind (rd_safe c off (by omega))
    intro ch _
    split
    · exact ih (by omega)
    · split <;> exact Safe.ok _ trivial

theorem skipParen_safe (c : List Nat) (endO : Nat) (he : endO ≤ c.length) :
    ∀ f off skip, off ≤ endO → Safe (skipParen c endO f off skip) (fun o => o ≤ endO) := by
  intro f
  induction f with
  | zero => intro off skip _; exact Safe.fuel
  | succ f ih =>
    intro off skip h
    simp only [skipParen]
    split
    · rename_i hlt
      apply Safe.bind (rd_safe c off (by omega))
      intro ch _
      split
      · split
        · exact Safe.ok _ h
        · exact ih _ _ (by omega)
      · split <;> exact ih _ _ (by omega)
    · exact Safe.ok _ h

theorem skipBracket_safe (c : List Nat) (endO : Nat) (he : endO ≤ c.length) :
    ∀ f off, off < endO → Safe (skipBracket c endO f off) (fun o => o ≤ endO) := by
  intro f
  induction f with
  | zero => intro off _; exact Safe.fuel
  | succ f ih =>
    intro off h
    simp only [skipBracket]
    split
    · rename_i hlt
      apply Safe.bind (rd_safe c (off + 1) (by omega))
      intro ch _
      split
      · exact ih _ hlt
      · exact Safe.ok _ (by omega)
    · exact Safe.ok _ (by omega)

/-- the operators `classify` can return are real operators -/
def OpChar.good : OpChar → Bool
  | .two y n _ => y != .noOp && n != .noOp
  | .sign o => o != .noOp
  | .single o => o != .noOp
  | _ => true

theorem opTable_good : opTable.all (fun p => p.2.good) = true := by decide

theorem classify_good (ch : Nat) : (classify ch).good = true := by
  unfold classify
  cases h : opTable.find? (fun p => p.1 == ch) with
  | none => rfl
  | some p =>
    have hm := List.mem_of_find?_eq_some h
    have := List.all_eq_true.mp opTable_good p hm
    simpa using this

theorem classify_ops (ch : Nat) :
    (∀ y n s, classify ch = .two y n s → y ≠ .noOp ∧ n ≠ .noOp) ∧
    (∀ o, classify ch = .sign o → o ≠ .noOp) ∧ (∀ o, classify ch = .single o → o ≠ .noOp) := by
  have h := classify_good ch
  refine ⟨?_, ?_, ?_⟩
  · intro y n s hc; rw [hc] at h; simpa [OpChar.good] using h
  · intro o hc; rw [hc] at h; simpa [OpChar.good] using h
  · intro o hc; rw [hc] at h; simpa [OpChar.good] using h

theorem getOperation_safe (c : List Nat) (endO : Nat) (he : endO < c.length) :
    ∀ f off, off ≤ endO → Safe (getOperation c endO f off)
      (fun r => r.2 ≤ endO ∧ (r.1 = .noOp → r.2 = endO)) := by
  intro f
  induction f with
  | zero => intro off _; exact Safe.fuel
  | succ f ih =>
    intro off h
    rw [getOperation]
    split
    · rename_i hlt
      apply Safe.bind (rd_safe c off (by omega))
      intro ch _
      have hcl := classify_ops ch
      cases hc : classify ch with
      | two yes no second =>
        have := hcl.1 yes no second hc
        refine Safe.bind (rd_safe c (off + 1) (by omega)) (fun nx _ => Safe.ok _ ⟨h, ?_⟩)
        intro hn; simp only [] at hn; split at hn <;> simp_all
      | sign op =>
        have := hcl.2.1 op hc
        apply Safe.bind (isExpression_safe c off (by omega))
        intro b _
        split
        · exact Safe.ok _ ⟨h, fun hn => absurd hn this⟩
        · exact ih _ (by omega)
      | single op =>
        have := hcl.2.2 op hc
        exact Safe.ok _ ⟨h, fun hn => absurd hn this⟩
      | paren =>
        apply Safe.bind (skipParen_safe c endO (by omega) _ _ _ (by omega))
        intro o2 ho2
        split
        · exact ih _ (by omega)
        · exact Safe.ok _ ⟨ho2, fun hn => by cases hn⟩
      | bracket =>
        apply Safe.bind (skipBracket_safe c endO (by omega) _ _ hlt)
        intro o2 ho2
        split
        · exact ih _ (by omega)
        · exact Safe.ok _ ⟨Nat.le_refl _, fun hn => by cases hn⟩
      | other => exact ih _ (by omega)
    · exact Safe.ok _ ⟨h, fun _ => by omega⟩

theorem trimLeft_safe (c : List Nat) (endO : Nat) (he : endO ≤ c.length) :
    ∀ f off, Safe (trimLeft c endO f off) (fun _ => True) := by
  intro f
  induction f with
  | zero => intro off; exact Safe.ok _ trivial
  | succ f ih =>
    intro off
    simp only [trimLeft]
    split
    · apply Safe.bind (rd_safe c off (by omega))
      intro ch _
      split
      · exact ih _
      · exact Safe.ok _ trivial
    · exact Safe.ok _ trivial

theorem trimRight_safe (c : List Nat) (off : Nat) :
    ∀ e, e ≤ c.length → Safe (trimRight c off e) (fun r => r ≤ e) := by
  intro e
  induction e with
  | zero => intro _; exact Safe.ok _ (Nat.le_refl _)
  | succ e ih =>
    intro h
    simp only [trimRight]
    split
    · apply Safe.bind (rd_safe c e (by omega))
      intro ch _
      split
      · exact Safe.mono (ih (by omega)) (fun a ha => by omega)
      · exact Safe.ok _ (Nat.le_refl _)
    · exact Safe.ok _ (Nat.le_refl _)

variable {R : Type}

/-- the three mutually recursive scanner functions, by induction on the fuel -/
theorem scan_safe (cfg : ScanCfg R) (c : List Nat) : ∀ f,
    (∀ off endO, endO < c.length → Safe (parseExpressions cfg c f off endO) (fun _ => True)) ∧
    (∀ endO off exprs lastOp, endO < c.length →
      Safe (parseLoop cfg c f endO off exprs lastOp) (fun _ => True)) ∧
    (∀ exprs oper lastOp off0 end0, end0 < c.length →
      Safe (parseValue cfg c f exprs oper lastOp off0 end0) (fun _ => True)) := by
  intro f
  induction f with
  | zero =>
    refine ⟨?_, ?_, ?_⟩ <;> intros <;> simp only [parseExpressions, parseLoop, parseValue] <;> exact Safe.fuel
  | succ f ih =>
    obtain ⟨ihE, ihL, ihV⟩ := ih
    refine ⟨?_, ?_, ?_⟩
    · intro off endO he
      simp only [parseExpressions]
      exact ihL _ _ _ _ he
    · intro endO off exprs lastOp he
      simp only [parseLoop]
      split
      · rename_i hlt
        apply Safe.bind (getOperation_safe c endO he _ off (by omega))
        intro r hr
        obtain ⟨oper, opOff⟩ := r
        simp only []
        split
        · exact Safe.ok _ trivial
        · apply Safe.bind (ihV exprs oper lastOp off opOff (by simp at hr; omega))
          intro v _
          cases v with
          | none => exact Safe.ok _ trivial
          | some ex => exact ihL _ _ _ _ he
      · split <;> exact Safe.ok _ trivial
    · intro exprs oper lastOp off0 end0 he
      simp only [parseValue]
      apply Safe.bind (trimLeft_safe c end0 (by omega) _ off0)
      intro off _
      apply Safe.bind (trimRight_safe c off end0 (by omega))
      intro endO hend
      split
      · rename_i hlt
        apply Safe.bind (rd_safe c off (by omega))
        intro ch _
        split
        · apply Safe.bind (ihE (off + 1) (endO - 1) (by omega))
          intro sub _
          split <;> exact Safe.ok _ trivial
        · split
          · split
            · apply Safe.bind (rd_safe c (endO - W1.inLineSuffixLength) (by
                have : W1.inLineSuffixLength = 1 := by decide
                omega))
              intro last _
              split <;> exact Safe.ok _ trivial
            · exact Safe.ok _ trivial
          · split
            · exact Safe.ok _ trivial
            · split <;> exact Safe.ok _ trivial
      · exact Safe.ok _ trivial

/-- `expr_scan_safe`: inside a tag (`endO < length`) the expression scanner performs no
out-of-range read, for every content, every range, every number reader. -/
theorem parseTop_safe (cfg : ScanCfg R) (c : List Nat) (off endO : Nat) (he : endO < c.length) :
    Safe (parseTop cfg c off endO) (fun _ => True) :=
  (scan_safe cfg c _).1 off endO he


/-! ### what the scanner returns: every variable reference lies inside the content -/

mutual
def operandVarsOk (n : Nat) : Operand R → Bool
  | .var v => decide (v.off + v.len < n) && v.idLen == 0
  | .sub items => itemsVarsOk n items
  | _ => true
def itemsVarsOk (n : Nat) : List (Item R) → Bool
  | [] => true
  | (x, _) :: rest => operandVarsOk n x && itemsVarsOk n rest
end

theorem itemsVarsOk_snoc (n : Nat) (x : Operand R) (o : Op) : ∀ (a : List (Item R)),
    itemsVarsOk n (a ++ [(x, o)]) = (itemsVarsOk n a && operandVarsOk n x) := by
  intro a
  induction a with
  | nil => simp [itemsVarsOk]
  | cons y rest ih =>
    obtain ⟨y1, y2⟩ := y
    simp only [List.cons_append, itemsVarsOk, ih, Bool.and_assoc]

theorem scan_vars (cfg : ScanCfg R) (hcfg : ∀ o, (cfg.loopVar o).1 = 0) (c : List Nat) : ∀ f,
    (∀ off endO, endO < c.length →
      Safe (parseExpressions cfg c f off endO) (fun r => itemsVarsOk c.length r = true)) ∧
    (∀ endO off exprs lastOp, endO < c.length → itemsVarsOk c.length exprs = true →
      Safe (parseLoop cfg c f endO off exprs lastOp) (fun r => itemsVarsOk c.length r = true)) ∧
    (∀ exprs oper lastOp off0 end0, end0 < c.length → itemsVarsOk c.length exprs = true →
      Safe (parseValue cfg c f exprs oper lastOp off0 end0)
        (fun r => ∀ l, r = some l → itemsVarsOk c.length l = true)) := by
  intro f
  induction f with
  | zero =>
    refine ⟨?_, ?_, ?_⟩ <;> intros <;> simp only [parseExpressions, parseLoop, parseValue] <;> exact Safe.fuel
  | succ f ih =>
    obtain ⟨ihE, ihL, ihV⟩ := ih
    refine ⟨?_, ?_, ?_⟩
    · intro off endO he
      simp only [parseExpressions]
      exact ihL _ _ _ _ he (by simp [itemsVarsOk])
    · intro endO off exprs lastOp he hex
      simp only [parseLoop]
      split
      · rename_i hlt
        apply Safe.bind (getOperation_safe c endO he _ off (by omega))
        intro r hr
        obtain ⟨oper, opOff⟩ := r
        simp only []
        split
        · exact Safe.ok _ (by simp [itemsVarsOk])
        · apply Safe.bind (ihV exprs oper lastOp off opOff (by simp at hr; omega) hex)
          intro v hv
          cases v with
          | none => exact Safe.ok _ (by simp [itemsVarsOk])
          | some ex => exact ihL _ _ _ _ he (hv ex rfl)
      · split
        · exact Safe.ok _ hex
        · exact Safe.ok _ (by simp [itemsVarsOk])
    · intro exprs oper lastOp off0 end0 he hex
      simp only [parseValue]
      apply Safe.bind (trimLeft_safe c end0 (by omega) _ off0)
      intro off _
      apply Safe.bind (trimRight_safe c off end0 (by omega))
      intro endO hend
      split
      · rename_i hlt
        apply Safe.bind (rd_safe c off (by omega))
        intro ch _
        split
        · apply Safe.bind (ihE (off + 1) (endO - 1) (by omega))
          intro sub hsub
          split
          · split
            · exact Safe.ok _ (by intro l hl; cases hl)
            · refine Safe.ok _ ?_
              intro l hl
              simp only [Option.some.injEq] at hl
              subst hl
              rw [itemsVarsOk_snoc]
              simp [hex, operandVarsOk, hsub]
          · split
            · exact Safe.ok _ (by intro l hl; cases hl)
            · exact Safe.ok _ (by intro l hl; simp only [Option.some.injEq] at hl; subst hl; exact hsub)
        · split
          · split
            · rename_i hfull
              have h1 : W1.inLineSuffixLength = 1 := by decide
              have h5 : W1.variablePrefixLength = 5 := by decide
              have h6 : W1.variableFullLength = 6 := by decide
              apply Safe.bind (rd_safe c (endO - W1.inLineSuffixLength) (by omega))
              intro last _
              split
              · refine Safe.ok _ ?_
                intro l hl
                simp only [Option.some.injEq] at hl
                subst hl
                rw [itemsVarsOk_snoc]
                have hmod : (endO - W1.inLineSuffixLength - (off + W1.variablePrefixLength)) % 2 ^ variableLengthBits
                    ≤ endO - W1.inLineSuffixLength - (off + W1.variablePrefixLength) := Nat.mod_le _ _
                simp only [hex, Bool.true_and, operandVarsOk, Bool.and_eq_true, decide_eq_true_eq, beq_iff_eq]
                exact ⟨by omega, hcfg _⟩
              · exact Safe.ok _ (by intro l hl; cases hl)
            · exact Safe.ok _ (by intro l hl; cases hl)
          · split
            · refine Safe.ok _ ?_
              intro l hl
              simp only [Option.some.injEq] at hl
              subst hl
              rw [itemsVarsOk_snoc]
              simp [hex, operandVarsOk]
            · split
              · refine Safe.ok _ ?_
                intro l hl
                simp only [Option.some.injEq] at hl
                subst hl
                rw [itemsVarsOk_snoc]
                simp [hex, operandVarsOk]
              · exact Safe.ok _ (by intro l hl; cases hl)
      · exact Safe.ok _ (by intro l hl; cases hl)

theorem parseTop_vars (cfg : ScanCfg R) (hcfg : ∀ o, (cfg.loopVar o).1 = 0) (c : List Nat)
    (off endO : Nat) (he : endO < c.length) :
    Safe (parseTop cfg c off endO) (fun r => itemsVarsOk c.length r = true) :=
  (scan_vars cfg hcfg c _).1 off endO he

end Qentem.Expr
