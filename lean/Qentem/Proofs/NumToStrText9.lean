import Qentem.Proofs.NumToStrText17
/-! C11, floats: every `%.9g` text of a finite float has one of the parser's shapes (`Text17`, whose bounds are
upper bounds: at most 17 digits, exponent in the double range) — `shape9_format`.  The proofs are those of
`NumToStrText17` with the digit count as a parameter. -/
set_option linter.unusedSimpArgs false
set_option linter.unusedVariables false
namespace Qentem.Proofs.Ident
open Qentem Qentem.Proofs.NumToStr Qentem.Round Qentem.Props.C11P

theorem lenP {P K : Nat} (hP : 1 ≤ P) (h1 : 10 ^ (P - 1) ≤ K) (h2 : K < 10 ^ P) : (D K).length = P := by
  have a := D_length_gt h1
  have b := (D_length_le_iff (b := K) (k := P) (by omega)).mpr h2
  omega

/-- the plain (non-exponent) `%.{P}g` texts, `P ≤ 17` -/
theorem shape_plainP (P : Nat) (hP1 : 1 ≤ P) (hP17 : P ≤ 17) (neg : Bool) (K q : Nat) (h1 : 10 ^ (P - 1) ≤ K)
    (h2 : K < 10 ^ P) (hq : q ≤ P + 3) :
    Text17 (FmtSpec.signed neg (FmtSpec.stripFraction (fixedText K q))) := by
  have hKpos : 0 < K := lt_of_lt_of_le (Nat.pow_pos (by decide)) h1
  by_cases hq16 : q ≤ P - 1
  · -- an integer part is present
    have ha1 : 1 ≤ K / 10 ^ q := by
      rw [Nat.le_div_iff_mul_le (Nat.pow_pos (by decide)), Nat.one_mul]
      exact le_trans (Nat.pow_le_pow_right (by decide) hq16) h1
    have halt : K / 10 ^ q < 10 ^ (P - q) := by
      rw [Nat.div_lt_iff_lt_mul (Nat.pow_pos (by decide)), ← Nat.pow_add, show P - q + q = P by omega]; exact h2
    have hlen : (D (K / 10 ^ q)).length ≤ P - q := (D_length_le_iff (by omega)).mpr halt
    obtain ⟨d1, xs, hD, hd1, hxs⟩ := D_pos_head (K / 10 ^ q) ha1
    rcases strip_fixedText_cases K q with ⟨_, hs⟩ | ⟨k, c', hc10, hc0, hclt, hkq, hmod, hs⟩
    · rw [hs]
      refine Text17.int neg _ (allDigits_D _) (D_ne_nil _) (Or.inr ?_) (by omega)
      rw [hD]; simp [StrToNum.isNonZeroDigit] at hd1 ⊢; omega
    · rw [hs, hD]
      have := Text17.fixed neg d1 xs (Dk (k + 1) c') hd1 hxs (allDigits_Dk _ _) (Dk_succ_ne_nil _ _) (Dk_ne_48 hc10)
        (by
          have : xs.length + 1 = (D (K / 10 ^ q)).length := by rw [hD]; simp
          rw [Dk_length]; omega)
      simpa using this
  · -- a pure fraction
    have hq17 : P ≤ q := by omega
    have hKlt : K < 10 ^ q := lt_of_lt_of_le h2 (Nat.pow_le_pow_right (by decide) hq17)
    have ha0 : K / 10 ^ q = 0 := Nat.div_eq_of_lt hKlt
    have hKmod : K % 10 ^ q = K := Nat.mod_eq_of_lt hKlt
    rcases strip_fixedText_cases K q with ⟨h0, _⟩ | ⟨k, c', hc10, hc0, hclt, hkq, hmod, hs⟩
    · omega
    · rw [hs, ha0, show D 0 = [48] by decide]
      rw [hKmod] at hmod
      have hpad := Dk_eq_pad (k + 1) c' hclt (by omega)
      obtain ⟨d1, ys, hD, hd1, hys⟩ := D_pos_head c' hc0
      have hlenK : (D K).length = (D c').length + (q - (k + 1)) := by rw [hmod, D_mul_pow c' _ hc0]; simp
      have h17 := lenP hP1 h1 h2
      rw [hpad, hD]
      have hDl : (D c').length = 1 + ys.length := by rw [hD]; simp; omega
      have := Text17.small neg (List.replicate (k + 1 - (D c').length) 48) d1 ys
        (by intro z hz; exact (List.mem_replicate.mp hz).2) (by simp; omega) hd1 hys (by omega)
      rw [hD] at this
      simpa using this

/-- the exponent-style `%.{P}g` texts with a decimal exponent of at most 60 in magnitude -/
theorem shape_sciP (P : Nat) (hP1 : 1 ≤ P) (hP17 : P ≤ 17) (neg : Bool) (K : Nat) (x : Int) (h1 : 10 ^ (P - 1) ≤ K)
    (h2 : K < 10 ^ P) (hx : ((P : Int) ≤ x ∧ x ≤ 60) ∨ (-60 ≤ x ∧ x ≤ -5)) :
    Text17 (FmtSpec.signed neg (FmtSpec.stripFraction (fixedText K (P - 1)) ++ FmtSpec.expText x)) := by
  have ha1 : 1 ≤ K / 10 ^ (P - 1) := by rw [Nat.le_div_iff_mul_le (Nat.pow_pos (by decide))]; omega
  have ha9 : K / 10 ^ (P - 1) < 10 := by
    rw [Nat.div_lt_iff_lt_mul (Nat.pow_pos (by decide)), Nat.mul_comm, ← Nat.pow_succ, show (P - 1).succ = P by omega]
    exact h2
  have hD : D (K / 10 ^ (P - 1)) = [48 + K / 10 ^ (P - 1)] := D_lt10 ha9
  have hd1 : StrToNum.isNonZeroDigit (48 + K / 10 ^ (P - 1)) = true := by simp [StrToNum.isNonZeroDigit]; omega
  have hexp : FmtSpec.expText x = 101 :: (if decide (x < 0) then 45 else 43) :: FmtSpec.padLeft 2 (D x.natAbs) := by
    unfold FmtSpec.expText
    by_cases hx0 : x < 0 <;> simp [hx0, FmtSpec.cE, FmtSpec.cMinus, FmtSpec.cPlus, D]
  have hks : StrToNum.AllDigits (FmtSpec.padLeft 2 (D x.natAbs)) := by
    intro c hc
    unfold FmtSpec.padLeft at hc
    rw [List.mem_append] at hc
    rcases hc with hc | hc
    · simp [FmtSpec.cZero] at hc; rw [hc.2]; decide
    · exact allDigits_D _ c hc
  have hks0 : FmtSpec.padLeft 2 (D x.natAbs) ≠ [] := by unfold FmtSpec.padLeft; simp [D_ne_nil]
  have hkl : (FmtSpec.padLeft 2 (D x.natAbs)).length ≤ 8 := by
    have : (D x.natAbs).length ≤ 3 := D_length_le _ 3 (by decide) (by omega)
    unfold FmtSpec.padLeft; simp; omega
  have hrange : ∀ f : Nat, f ≤ P - 1 →
      (if (StrToNum.netExp false (StrToNum.decVal (FmtSpec.padLeft 2 (D x.natAbs))) (decide (x < 0)) f).2 then
          (StrToNum.netExp false (StrToNum.decVal (FmtSpec.padLeft 2 (D x.natAbs))) (decide (x < 0)) f).1 ≤ 1 + f + 324
        else (StrToNum.netExp false (StrToNum.decVal (FmtSpec.padLeft 2 (D x.natAbs))) (decide (x < 0)) f).1 + (1 + f) ≤ 309) := by
    intro f hf
    rw [decVal_expDigits]
    unfold StrToNum.netExp
    rcases hx with ⟨ha, hb⟩ | ⟨ha, hb⟩
    · have hn : ¬ (x < 0) := by omega
      have hk : x.natAbs ≥ f := by omega
      simp only [hn, decide_false, Bool.false_and, Bool.false_eq_true, if_false, hk, if_true]
      omega
    · have hn : x < 0 := by omega
      have hk : x.natAbs ≠ 0 := by omega
      simp only [hn, decide_true, Bool.true_and, Bool.false_or, hk, ne_eq, not_false_eq_true, if_true]
      omega
  have hexc : ∀ (f v : Nat), f ≤ P - 1 →
      (StrToNum.netExp false (StrToNum.decVal (FmtSpec.padLeft 2 (D x.natAbs))) (decide (x < 0)) f).2 = true →
      ¬ StrToNum.negExc v (StrToNum.netExp false (StrToNum.decVal (FmtSpec.padLeft 2 (D x.natAbs))) (decide (x < 0)) f).1 := by
    intro f v hf _ hE
    obtain ⟨_, hE⟩ := hE
    rw [decVal_expDigits] at hE
    unfold StrToNum.netExp at hE
    rcases hx with ⟨ha, hb⟩ | ⟨ha, hb⟩
    · have hn : ¬ (x < 0) := by omega
      have hk : x.natAbs ≥ f := by omega
      simp only [hn, decide_false, Bool.false_and, Bool.false_eq_true, if_false, hk, if_true] at hE
      omega
    · have hn : x < 0 := by omega
      have hk : x.natAbs ≠ 0 := by omega
      simp only [hn, decide_true, Bool.true_and, Bool.false_or, hk, ne_eq, not_false_eq_true, if_true] at hE
      omega
  rcases strip_fixedText_cases K (P - 1) with ⟨_, hs⟩ | ⟨k, c', hc10, hc0, hclt, hkq, hmod, hs⟩
  · rw [hs, hD, hexp]
    have := Text17.sci neg (48 + K / 10 ^ (P - 1)) [] (decide (x < 0)) (FmtSpec.padLeft 2 (D x.natAbs)) hd1
      (by intro c hc; cases hc) (by simp) (by simp) hks hks0 hkl (hrange 0 (by omega)) (hexc 0 _ (by omega))
    simpa using this
  · rw [hs, hD, hexp]
    have := Text17.sci neg (48 + K / 10 ^ (P - 1)) (Dk (k + 1) c') (decide (x < 0)) (FmtSpec.padLeft 2 (D x.natAbs)) hd1
      (allDigits_Dk _ _) (Dk_ne_48 hc10) (by rw [Dk_length]; omega) hks hks0 hkl
      (by rw [Dk_length]; exact hrange (k + 1) hkq) (by rw [Dk_length]; exact hexc (k + 1) _ hkq)
    simpa [Dk_succ_ne_nil] using this

/-! ### every `%.9g` text of a finite float -/

theorem shape9_format (b : Nat) (hb : b < 2 ^ 32) (hfin : (b / 2 ^ 23) % 2 ^ 8 ≠ 2 ^ 8 - 1) :
    Text17 (FmtSpec.format32 b 9 .default) := by
  by_cases hnz : (b / 2 ^ 23) % 2 ^ 8 ≠ 0 ∨ b % 2 ^ 23 ≠ 0
  · obtain ⟨num, den, e1, M, hdec, he1eq, hMeq, hnum, hden, he1, he1', hM0, hM, hnorm, hv, hbits, hdb⟩ :=
      decode_fin 23 8 b (by decide) (by decide) hfin hnz hb
    have hsmall : den ≤ num * 10 ^ 1199 := le_trans hdb (Nat.mul_le_mul_left _ range32)
    generalize hneg : decide ((b / 2 ^ (23 + 8)) % 2 = 1) = neg at *
    obtain ⟨K, x, hK1, hK2, hlink, hform⟩ := generalBody_form num den 9 hnum hden hsmall
    obtain ⟨m, d, hd, hread, hval, hslo⟩ := generalBody_value num den 9 neg hnum hden hsmall
    have hclose := scaleRound_close num den hden (((if (9 : Nat) = 0 then 1 else 9 : Nat) : Int) - 1 - FmtSpec.floorLog10 num den)
    clear hsmall hdb hread hval
    simp only [show ¬ ((9 : Nat) = 0) by decide, if_false] at hK1 hK2 hlink hform hslo hclose
    have hbias : ((2 : Int) ^ (8 - 1) - 1) = 127 := by norm_num
    rw [hbias] at hv
    generalize hs : ((9 : Nat) : Int) - 1 - FmtSpec.floorLog10 num den = s at *
    generalize hK0 : FmtSpec.scaleRound num den s = K0 at *
    generalize hvv : (num : ℚ) / den = v at *
    -- bounds on the value
    have hvhi : v < 2 ^ (128 : Int) := by
      rw [hv]
      have hMq : (M : ℚ) < 2 ^ (24 : Int) := by
        have : (M : ℚ) < ((2 ^ (23 + 1) : Nat) : ℚ) := by exact_mod_cast hM
        rw [zpow_ofNat]; push_cast at this; exact this
      calc (M : ℚ) * 2 ^ ((e1 : Int) - 127 - (23 : Nat)) < 2 ^ (24 : Int) * 2 ^ ((e1 : Int) - 127 - (23 : Nat)) :=
            mul_lt_mul_of_pos_right hMq (by positivity)
        _ = 2 ^ ((e1 : Int) - 126) := by rw [← zpow_add₀ (by norm_num)]; congr 1; push_cast; ring
        _ ≤ 2 ^ (128 : Int) := zpow_le_zpow_right₀ (by norm_num) (by omega)
    have hvlo : (2 : ℚ) ^ (-149 : Int) ≤ v := by
      rw [hv]
      have hM1 : (1 : ℚ) ≤ M := by exact_mod_cast hM0
      calc (2 : ℚ) ^ (-149 : Int) ≤ 2 ^ ((e1 : Int) - 127 - (23 : Nat)) :=
            zpow_le_zpow_right₀ (by norm_num) (by push_cast; omega)
        _ ≤ (M : ℚ) * 2 ^ ((e1 : Int) - 127 - (23 : Nat)) := le_mul_of_one_le_left (by positivity) hM1
    -- the text's value V = K·10^(x-8) is between v/2 and 2v
    have hS : (0 : ℚ) < 10 ^ (-s) := by positivity
    have hvS : v = v * 10 ^ s * 10 ^ (-s) := by rw [mul_assoc, ← zpow_add₀ (by norm_num)]; simp
    rw [abs_le] at hclose
    have hvpos : 0 < v := lt_of_lt_of_le (by positivity) hvlo
    have h16 : (1 : ℚ) ≤ v * 10 ^ s := le_trans (by norm_num) hslo
    have hVhi : (K0 : ℚ) * 10 ^ (-s) < 2 * v := by
      calc (K0 : ℚ) * 10 ^ (-s) ≤ (v * 10 ^ s + 1 / 2) * 10 ^ (-s) :=
            mul_le_mul_of_nonneg_right (by linarith) (le_of_lt hS)
        _ < (2 * (v * 10 ^ s)) * 10 ^ (-s) := mul_lt_mul_of_pos_right (by linarith) hS
        _ = 2 * v := by rw [mul_assoc 2, ← hvS]
    have hVlo : v / 2 ≤ (K0 : ℚ) * 10 ^ (-s) := by
      calc v / 2 = ((v * 10 ^ s) / 2) * 10 ^ (-s) := by rw [div_mul_eq_mul_div, ← hvS]
        _ ≤ (K0 : ℚ) * 10 ^ (-s) := mul_le_mul_of_nonneg_right (by linarith) (le_of_lt hS)
    rw [← hlink] at hVhi hVlo
    have hK1q : (10 : ℚ) ^ (8 : Int) ≤ K := by
      have : ((10 ^ 8 : Nat) : ℚ) ≤ K := by exact_mod_cast hK1
      rw [zpow_ofNat]; push_cast at this; exact this
    have hK2q : (K : ℚ) < 10 ^ (9 : Int) := by
      have : (K : ℚ) < ((10 ^ 9 : Nat) : ℚ) := by exact_mod_cast hK2
      rw [zpow_ofNat]; push_cast at this; exact this
    have hp10 : (0 : ℚ) < 10 ^ (x - ((9 - 1 : Nat) : Int)) := by positivity
    have hxhi : x ≤ 38 := by
      have : (10 : ℚ) ^ x < 10 ^ (39 : Int) := by
        calc (10 : ℚ) ^ x = 10 ^ (8 : Int) * 10 ^ (x - ((9 - 1 : Nat) : Int)) := by
              rw [← zpow_add₀ (by norm_num)]; congr 1; push_cast; ring
          _ ≤ (K : ℚ) * 10 ^ (x - ((9 - 1 : Nat) : Int)) := mul_le_mul_of_nonneg_right hK1q (le_of_lt hp10)
          _ < 2 * v := hVhi
          _ < 2 * 2 ^ (128 : Int) := by linarith
          _ ≤ 10 ^ (39 : Int) := by norm_num
      have := (zpow_lt_zpow_iff_right₀ (by norm_num : (1 : ℚ) < 10)).mp this
      omega
    have hxlo : -46 ≤ x := by
      have : (10 : ℚ) ^ (-46 : Int) < 10 ^ (x + 1) := by
        calc (10 : ℚ) ^ (-46 : Int) ≤ 2 ^ (-149 : Int) / 2 := by
              rw [zpow_neg, zpow_neg, zpow_ofNat, zpow_ofNat]; norm_num
          _ ≤ v / 2 := div_le_div_of_nonneg_right hvlo (by norm_num)
          _ ≤ (K : ℚ) * 10 ^ (x - ((9 - 1 : Nat) : Int)) := hVlo
          _ < 10 ^ (9 : Int) * 10 ^ (x - ((9 - 1 : Nat) : Int)) := mul_lt_mul_of_pos_right hK2q hp10
          _ = 10 ^ (x + 1) := by rw [← zpow_add₀ (by norm_num)]; congr 1; push_cast; ring
      have := (zpow_lt_zpow_iff_right₀ (by norm_num : (1 : ℚ) < 10)).mp this
      omega
    show Text17 (FmtSpec.formatVal (FmtSpec.decode 23 8 b) 9 .default)
    rw [hdec]
    show Text17 (FmtSpec.signed neg (FmtSpec.generalBody num den 9))
    rw [hform]
    by_cases hrange : (-4 : Int) ≤ x ∧ x < ((9 : Nat) : Int)
    · rw [if_pos hrange]
      exact shape_plainP 9 (by decide) (by decide) neg K _ hK1 hK2 (by push_cast at hrange ⊢; omega)
    · rw [if_neg hrange]
      exact shape_sciP 9 (by decide) (by decide) neg K x hK1 hK2 (by push_cast at hrange ⊢; omega)
  · simp only [not_or, ne_eq, not_not] at hnz
    have : b = 0 ∨ b = 2 ^ 31 := by omega
    rcases this with rfl | rfl
    · have h : FmtSpec.format32 0 9 .default = FmtSpec.signed false [48] := by decide +kernel
      rw [h]
      exact Text17.int false [48] (by intro c hc; simp at hc; subst hc; decide) (by simp) (Or.inl rfl) (by simp)
    · have h : FmtSpec.format32 (2 ^ 31) 9 .default = FmtSpec.signed true [48] := by decide +kernel
      rw [h]
      exact Text17.int true [48] (by intro c hc; simp at hc; subst hc; decide) (by simp) (Or.inl rfl) (by simp)

end Qentem.Proofs.Ident
