import Qentem.Proofs.TmplLoop
/-!
# C02 stage 7, part 1 — the parser lemmas for any loop chain

Generic in the chain of enclosing loops (`LoopD`): the parser lemmas of the earlier stages restated
for a state with any `loopChain`, the loop step under a parent chain, the renderer against the
reference interpreter under the bindings of the enclosing loops.
-/
set_option linter.unusedSectionVars false
set_option linter.unusedVariables false
set_option linter.unnecessarySimpa false
namespace Qentem.Tmpl
open Qentem.Expr (Fault rd ScanCfg VarRef Item Num Val Env RealLike)
open Qentem.Generated.Tmpl

variable {R : Type}

/-! ### the step lemmas of the earlier stages for any loop chain -/

/-- the `while (true)` of `case MathID` over the operands of the expression text: every
`{var:path}` is skipped, the `}` after the last stretch ends the tag -/
theorem mathScan_partsL (c : List Nat) (ch : List LoopRef) (hn : c.length + 16 < 4294967296) (stk : List (Frame R))
    (acc : List (Tag R)) (last post : List Nat) (hl : plainL last) :
    ∀ (parts : List (List Nat × List Nat)) (A : List Nat) (fuel o m o' m' : Nat),
      c = A ++ (printMP parts ++ last ++ [125] ++ post) → (∀ tp ∈ parts, plainL tp.1 ∧ plainL tp.2) →
      parts.length + 1 ≤ fuel →
      next c A.length = .ok (o, m) →
      next c (A.length + (printMP parts ++ last).length + 1) = .ok (o', m') →
      mathScan c fuel (stAtL ch stk acc o m : PState R) 0 =
        .ok (stAtL ch stk acc o' m', A.length + (printMP parts ++ last).length + 1) := by
  have hle : W1.lineEndID = 1 := by decide
  have hmi : W1.mathID = 4 := by decide
  intro parts
  induction parts with
  | nil =>
    intro A fuel o m o' m' hc _ hf hnext hfin
    simp only [printMP, List.nil_append] at hc hfin ⊢
    have hc1 : c = A ++ (last ++ ([125] ++ post)) := by rw [hc]; simp [List.append_assoc]
    have hrun := next_run c A last _ hc1 hl
    have hclose : next c (A.length + last.length) = .ok (A.length + last.length + 1, 1) := by
      apply next_at_close
      have := get_mid (A ++ last) [125] post 0 (by simp)
      simpa [hc, List.append_assoc] using this
    rw [hrun, hclose] at hnext
    simp only [Except.ok.injEq, Prod.mk.injEq] at hnext
    obtain ⟨rfl, rfl⟩ := hnext
    obtain ⟨f, rfl⟩ : ∃ f, fuel = f + 1 := ⟨fuel - 1, by omega⟩
    have h2 : finderNext c (stAtL ch stk acc (A.length + last.length + 1) 1) = .ok (stAtL ch stk acc o' m') :=
      finderNext_stAtL c ch stk acc _ 1 _ _ hfin
    have hm : (stAtL ch stk acc (A.length + last.length + 1) 1 : PState R).mtch = 1 := rfl
    simp only [mathScan, hm, hle, ne_eq, not_true_eq_false, and_false, if_false, pure, Except.pure, bind,
      Except.bind, if_true, h2]
    rfl
  | cons tp r ih =>
    obtain ⟨t, p⟩ := tp
    intro A fuel o m o' m' hc hall hf hnext hfin
    have htp := hall (t, p) (List.mem_cons_self ..)
    simp only at htp
    have hallr : ∀ tp ∈ r, plainL tp.1 ∧ plainL tp.2 := fun x hx => hall x (List.mem_cons_of_mem _ hx)
    simp only [List.length_cons] at hf
    obtain ⟨f, rfl⟩ : ∃ f, fuel = f + 1 := ⟨fuel - 1, by omega⟩
    have hc1 : c = A ++ (t ++ ([123, 118, 97, 114, 58] ++ p ++ [125] ++ (printMP r ++ last ++ [125] ++ post))) := by
      rw [hc]; simp [printMP, List.append_assoc]
    have hrun := next_run c A t _ hc1 htp.1
    have g := fun i (hi : i < 5) => get_mid (A ++ t) [123, 118, 97, 114, 58]
      (p ++ [125] ++ (printMP r ++ last ++ [125] ++ post)) i (by simpa using hi)
    have hc2 : c = (A ++ t) ++ ([123, 118, 97, 114, 58] ++ (p ++ [125] ++ (printMP r ++ last ++ [125] ++ post))) := by
      rw [hc1]; simp [List.append_assoc]
    have hlat : (A ++ t).length = A.length + t.length := by simp
    have hvar : next c (A.length + t.length) = .ok (A.length + t.length + 5, 2) := by
      rw [← hlat]
      apply next_at_var c _ (by omega)
      · have := g 0 (by omega); rw [hc2]; simpa using this
      · have := g 1 (by omega); rw [hc2]; simpa using this
      · have := g 2 (by omega); rw [hc2]; simpa using this
      · have := g 3 (by omega); rw [hc2]; simpa using this
      · have := g 4 (by omega); rw [hc2]; simpa using this
    rw [hrun, hvar] at hnext
    simp only [Except.ok.injEq, Prod.mk.injEq] at hnext
    obtain ⟨rfl, rfl⟩ := hnext
    have hc3 : c = (A ++ t ++ [123, 118, 97, 114, 58]) ++ (p ++ ([125] ++ (printMP r ++ last ++ [125] ++ post))) := by
      rw [hc1]; simp [List.append_assoc]
    have hl3 : (A ++ t ++ [123, 118, 97, 114, 58]).length = A.length + t.length + 5 := by simp; omega
    have hrun2 := next_run c _ p _ hc3 htp.2
    rw [hl3] at hrun2
    have hclose : next c (A.length + t.length + 5 + p.length) = .ok (A.length + t.length + 5 + p.length + 1, 1) := by
      apply next_at_close
      have := get_mid (A ++ t ++ [123, 118, 97, 114, 58] ++ p) [125] (printMP r ++ last ++ [125] ++ post) 0 (by simp)
      have hl5 : (A ++ t ++ [123, 118, 97, 114, 58] ++ p).length + 0 = A.length + t.length + 5 + p.length := by
        simp; omega
      rw [hl5] at this
      have hX : c = (A ++ t ++ [123, 118, 97, 114, 58] ++ p) ++ ([125] ++ (printMP r ++ last ++ [125] ++ post)) := by
        rw [hc1]; simp [List.append_assoc]
      rw [hX, this]; rfl
    have hc4 : c = (A ++ (t ++ ([123, 118, 97, 114, 58] ++ p ++ [125]))) ++ (printMP r ++ last ++ [125] ++ post) := by
      rw [hc1]; simp [List.append_assoc]
    have hl4 : (A ++ (t ++ ([123, 118, 97, 114, 58] ++ p ++ [125]))).length = A.length + t.length + 5 + p.length + 1 := by
      simp; omega
    have hle4 : A.length + t.length + 5 + p.length + 1 ≤ c.length := by
      rw [← hl4, hc4]; simp
    obtain ⟨o2, m2, hn2, _⟩ := next_safe_total c _ hle4
    have hih := ih (A ++ (t ++ ([123, 118, 97, 114, 58] ++ p ++ [125]))) f o2 m2 o' m' hc4 hallr (by omega)
      (by rw [hl4]; exact hn2)
      (by rw [hl4, ← hfin, printMP_cons_len]; congr 1; omega)
    rw [hl4] at hih
    have h1 : finderNext c (stAtL ch stk acc (A.length + t.length + 5) 2) =
        .ok (stAtL ch stk acc (A.length + t.length + 5 + p.length + 1) 1) :=
      finderNext_stAtL c ch stk acc _ 2 _ _ (by rw [hrun2, hclose])
    have h2 : finderNext c (stAtL ch stk acc (A.length + t.length + 5 + p.length + 1) 1) = .ok (stAtL ch stk acc o2 m2) :=
      finderNext_stAtL c ch stk acc _ 1 _ _ hn2
    have hm : (stAtL ch stk acc (A.length + t.length + 5) 2 : PState R).mtch = 2 := rfl
    have hm1 : (stAtL ch stk acc (A.length + t.length + 5 + p.length + 1) 1 : PState R).mtch = 1 := rfl
    have hcond : (2 : Nat) < 4 ∧ (2 : Nat) ≠ 1 := by decide
    simp only [mathScan, hm, hle, hmi, hcond, and_self, if_true, h1, bind, Except.bind, pure, Except.pure, hm1,
      ne_eq, show ¬ ((0 : Nat) + 1 = 0) by omega, not_false_eq_true, h2, Nat.add_sub_cancel]
    rw [hih, printMP_cons_len]
    congr 2
    omega


/-- `{math:e}` at `pre.length`: `stepMath` appends the Math tag with the scanned list -/
theorem stepMath_segL (cfg : ScanCfg R) (c : List Nat) (ch : List LoopRef) (hn : c.length + 16 < 4294967296)
    (pre e post : List Nat) (w : List Nat) (hw : w.length = 6)
    (hc : c = pre ++ ((w ++ e ++ [125]) ++ post)) (hp : MathOk e)
    (stk : List (Frame R)) (acc : List (Tag R)) (o' m' : Nat)
    (hnext : next c (pre.length + 6 + e.length + 1) = .ok (o', m'))
    (items : List (Item R))
    (hex : exprs cfg c ch (pre.length + 6) (pre.length + 6 + e.length) = .ok items) :
    stepMath cfg c (stAtL ch stk acc (pre.length + 6) 4) =
      .ok (stAtL ch stk (acc ++ [.math items pre.length (pre.length + 6 + e.length + 1)]) o' m') := by
  obtain ⟨parts, last, rfl, hl, hall⟩ := hp
  have hc1 : c = (pre ++ w) ++ (printMP parts ++ last ++ [125] ++ post) := by
    rw [hc]; simp [List.append_assoc]
  have hl1 : (pre ++ w).length = pre.length + 6 := by simp [hw]
  have hle1 : pre.length + 6 ≤ c.length := by rw [← hl1, hc1]; simp
  obtain ⟨o1, m1, hn1, _⟩ := next_safe_total c _ hle1
  have hplen : parts.length + 1 ≤ c.length + 2 := by
    have : parts.length ≤ (printMP parts).length := by
      clear hc hc1 hall hnext hex
      induction parts with
      | nil => simp
      | cons tp r ih => obtain ⟨t, p⟩ := tp; simp [printMP] at ih ⊢; omega
    have : (printMP parts).length ≤ c.length := by rw [hc1]; simp; omega
    omega
  have hscan := mathScan_partsL c ch hn stk acc last post hl parts (pre ++ w) (c.length + 2) o1 m1 o' m' hc1 hall hplen
    (by rw [hl1]; exact hn1) (by rw [hl1]; exact hnext)
  rw [hl1] at hscan
  have h1 : finderNext c (stAtL ch stk acc (pre.length + 6) 4) = .ok (stAtL ch stk acc o1 m1) :=
    finderNext_stAtL c ch stk acc _ 4 _ _ hn1
  simp only [stepMath, h1, hscan, bind, Except.bind]
  have hoff : (stAtL ch stk acc (pre.length + 6) 4 : PState R).off = pre.length + 6 := rfl
  have hch : (stAtL ch stk acc o' m' : PState R).loopChain = ch := rfl
  have hsuf : pre.length + 6 + (printMP parts ++ last).length + 1 - W1.inLineSuffixLength =
      pre.length + 6 + (printMP parts ++ last).length := by
    have : W1.inLineSuffixLength = 1 := by decide
    rw [this]; omega
  have hpre : pre.length + 6 - W1.mathPrefixLength = pre.length := by
    have : W1.mathPrefixLength = 6 := by decide
    rw [this]; omega
  simp only [hoff, hch, hsuf, hpre, hex, ne_eq,
    show ¬ (pre.length + 6 + (printMP parts ++ last).length + 1 = 0) by omega, not_false_eq_true, if_true]
  rfl


/-- `<if case="e">` at `pre.length`: the frame `stepIf` pushes -/
theorem stepIf_printL (cfg : ScanCfg R) (c pre e post : List Nat) (ch : List LoopRef)
    (hc : c = pre ++ (IFOPEN ++ e ++ [34, 62] ++ post)) (he : ∀ x ∈ e, x ≠ 34) (hpost : 0 < post.length)
    (stk : List (Frame R)) (acc : List (Tag R)) (items' : List (Item R))
    (hex : exprs cfg c ch (pre.length + 10) (pre.length + 10 + e.length) = .ok items')
    (o1 m1 : Nat) (hnext : next c (pre.length + 12 + e.length) = .ok (o1, m1)) :
    stepIf cfg c (stAtL ch stk acc (pre.length + 3) 9) =
      .ok (stAtL ch (.ifT acc [] items' (pre.length + 12 + e.length) pre.length :: stk) [] o1 m1) := by
  have ht := ifText_of c pre e post hc
  have hpc := parseIfCase_print c pre e ht he
  have hlt : pre.length + 12 + e.length < c.length := by rw [hc]; simp [IFOPEN]; omega
  have h3 : W1.ifPrefixLength = 3 := by decide
  simp only [stepIf, stAtL, hpc, bind, Except.bind, hlt, if_true, hex, pure, Except.pure, push, finderNext, hnext, h3,
    Nat.add_sub_cancel]



theorem stepIfEnd_printL (c : List Nat) (ch : List LoopRef) (stk : List (Frame R)) (pre0 : List (Tag R)) (done : List (IfCase R))
    (cur : List (Item R)) (curOff off : Nat) (sub : List (Tag R)) (q o2 m2 : Nat)
    (hnext : next c (q + 5) = .ok (o2, m2)) :
    stepIfEnd c (stAtL ch (.ifT pre0 done cur curOff off :: stk) sub (q + 5) 10) =
      .ok (stAtL ch stk (pre0 ++ [.ifT (done ++ [.mk cur sub curOff q]) off (q + 5)]) o2 m2) := by
  have h5 : W1.ifSuffixLength = 5 := by decide
  simp only [stepIfEnd, stAtL, finderNext, hnext, bind, Except.bind, h5, Nat.add_sub_cancel]


theorem stepElse_printL (cfg : ScanCfg R) (c : List Nat) (ch : List LoopRef) (stk : List (Frame R)) (pre0 : List (Tag R))
    (done : List (IfCase R)) (cur : List (Item R)) (curOff off : Nat) (sub : List (Tag R)) (q o2 m2 : Nat)
    (h5 : c[q + 5]? = some 32) (h6 : c[q + 6]? = some 47) (h7 : c[q + 7]? = some 62)
    (hnext : next c (q + 8) = .ok (o2, m2)) :
    stepElse cfg c (stAtL ch (.ifT pre0 done cur curOff off :: stk) sub (q + 5) 11) =
      .ok (stAtL ch (.ifT pre0 (done ++ [.mk cur sub curOff q]) [] (q + 8) off :: stk) [] o2 m2) := by
  have hlt7 : q + 7 < c.length := (List.getElem?_eq_some_iff.mp h7).1
  have hpl : W1.elsePrefixLength = 5 := by decide
  have hscan : elseScan c (c.length + 1) (q + 5) = .ok (q + 7, false) := by
    rw [show c.length + 1 = (c.length - 2) + 1 + 1 + 1 by omega]
    have h6' : c[q + 5 + 1]? = some 47 := by rw [show q + 5 + 1 = q + 6 by omega]; exact h6
    have h7' : c[q + 5 + 1 + 1]? = some 62 := by rw [show q + 5 + 1 + 1 = q + 7 by omega]; exact h7
    simp [elseScan, rd_some c (q + 5) 32 h5, rd_some c _ 47 h6', rd_some c _ 62 h7', bind, Except.bind,
      show q + 5 < c.length by omega, show q + 5 + 1 < c.length by omega, show q + 5 + 1 + 1 < c.length by omega,
      show W1.multiLineLastChar = 62 by decide, show W1.ifPrefixFirst = 105 by decide]
  simp only [stepElse, stAtL, hscan, bind, Except.bind, Bool.false_eq_true, if_false, hlt7, if_true, hpl,
    Nat.add_sub_cancel, finderNext, hnext]


theorem stepElif_printL (cfg : ScanCfg R) (c : List Nat) (ch : List LoopRef) (stk : List (Frame R)) (pre0 : List (Tag R))
    (done : List (IfCase R)) (cur : List (Item R)) (curOff off : Nat) (sub : List (Tag R)) (q : Nat) (e : List Nat)
    (h5 : c[q + 5]? = some 105) (ht : CaseText c (q + 7) e 2) (he : ∀ x ∈ e, x ≠ 34)
    (hlt : q + 18 + e.length < c.length) (items2 : List (Item R))
    (hex : exprs cfg c ch (q + 14) (q + 14 + e.length) = .ok items2) (o3 m3 : Nat)
    (hnext : next c (q + 18 + e.length) = .ok (o3, m3)) :
    stepElse cfg c (stAtL ch (.ifT pre0 done cur curOff off :: stk) sub (q + 5) 11) =
      .ok (stAtL ch (.ifT pre0 (done ++ [.mk cur sub curOff q]) items2 (q + 18 + e.length) off :: stk) [] o3 m3) := by
  have hpl : W1.elsePrefixLength = 5 := by decide
  have hscan : elseScan c (c.length + 1) (q + 5) = .ok (q + 7, true) := by
    have hl5 : q + 5 < c.length := (List.getElem?_eq_some_iff.mp h5).1
    simp [elseScan, rd_some c (q + 5) 105 h5, bind, Except.bind, hl5,
      show W1.multiLineLastChar = 62 by decide, show W1.ifPrefixFirst = 105 by decide,
      show W1.ifAfterElseLength = 2 by decide]
  have hpc := parseIfCase_at c (q + 7) e 2 ht he
  rw [show q + 7 + 9 + e.length + 2 = q + 18 + e.length by omega, show q + 7 + 7 = q + 14 by omega] at hpc
  have hcond : (q + 18 + e.length < c.length ∧ q + 14 + e.length ≠ 0) := ⟨hlt, by omega⟩
  have hne : q + 14 + e.length ≠ 0 := by omega
  simp only [stepElse, stAtL, hscan, bind, Except.bind, if_true, hpc, finderNext, hnext, hlt, hne, true_and, ne_eq,
    not_false_eq_true, hex, hpl, Nat.add_sub_cancel]


/-! ### the loop steps under a parent chain -/

/-- `parseLoopAttributes` on the printed attributes ` set="S" value="V"` of a top-level loop -/
theorem pla_printL (c : List Nat) (L : Nat) (S V : List Nat) (ht : LoopText c L S V)
    (hS : ∀ x ∈ S, x ≠ 34) (hV : ∀ x ∈ V, x ≠ 34) (fuel lv : Nat)
    (hS16 : S.length < 236) (hV8 : V.length < 256) (ch : List LoopRef)
    (r : Option (Nat × Nat)) (hck : checkLoopVariable c (L + 11) ch = .ok r) :
    parseLoopAttributes c (L + 21 + S.length + V.length) ch (fuel + 2) (L + 5) .none
        ({ off := L, level := lv } : LoopFields) =
      .ok { off := L, level := lv, set := mkV r (L + 11) S.length, valueOff := 20 + S.length,
            valueLen := V.length } := by
  have g1 := fun i (hi : i < 11) => ht.h1 i hi
  have g2 := fun i (hi : i < 9) => ht.h2 i hi
  have g3 := fun i (hi : i < 2) => ht.h3 i hi
  have c5 : c[L + 5]? = some 32 := g1 5 (by omega)
  have c6 : c[L + 6]? = some 115 := g1 6 (by omega)
  have c7 : c[L + 7]? = some 101 := g1 7 (by omega)
  have c8 : c[L + 8]? = some 116 := g1 8 (by omega)
  have c9 : c[L + 9]? = some 61 := g1 9 (by omega)
  have c10 : c[L + 10]? = some 34 := g1 10 (by omega)
  have d0 : c[L + 11 + S.length]? = some 34 := g2 0 (by omega)
  have d1 : c[L + 12 + S.length]? = some 32 := by have := g2 1 (by omega); rw [show L + 11 + S.length + 1 = L + 12 + S.length by omega] at this; exact this
  have d2 : c[L + 13 + S.length]? = some 118 := by have := g2 2 (by omega); rw [show L + 11 + S.length + 2 = L + 13 + S.length by omega] at this; exact this
  have d3 : c[L + 14 + S.length]? = some 97 := by have := g2 3 (by omega); rw [show L + 11 + S.length + 3 = L + 14 + S.length by omega] at this; exact this
  have d4 : c[L + 15 + S.length]? = some 108 := by have := g2 4 (by omega); rw [show L + 11 + S.length + 4 = L + 15 + S.length by omega] at this; exact this
  have d5 : c[L + 16 + S.length]? = some 117 := by have := g2 5 (by omega); rw [show L + 11 + S.length + 5 = L + 16 + S.length by omega] at this; exact this
  have d6 : c[L + 17 + S.length]? = some 101 := by have := g2 6 (by omega); rw [show L + 11 + S.length + 6 = L + 17 + S.length by omega] at this; exact this
  have d7 : c[L + 18 + S.length]? = some 61 := by have := g2 7 (by omega); rw [show L + 11 + S.length + 7 = L + 18 + S.length by omega] at this; exact this
  have d8 : c[L + 19 + S.length]? = some 34 := by have := g2 8 (by omega); rw [show L + 11 + S.length + 8 = L + 19 + S.length by omega] at this; exact this
  have e0 : c[L + 20 + S.length + V.length]? = some 34 := g3 0 (by omega)
  -- iteration 1
  have a1 : skipW c (L + 21 + S.length + V.length) (· == W1.spaceChar) (L + 5) = .ok (L + 6) := by
    apply skipW_run c _ _ 1 (L + 5)
    · intro i hi
      have : i = 0 := by omega
      subst this
      exact ⟨32, c5, by decide⟩
    · omega
    · right; exact ⟨115, c6, by decide⟩
  have b1 : andEqualAt (decide (L + 21 + S.length + V.length - (L + 6) > W1.setLength)) c (L + 6) W1.setStr = .ok true := by
    have : decide (L + 21 + S.length + V.length - (L + 6) > W1.setLength) = true := by
      simp only [show W1.setLength = 3 by decide, decide_eq_true_eq]; omega
    simp only [andEqualAt, this, if_true]
    apply isEqualAt_true
    intro i hi
    have hi3 : i < 3 := by simpa [show W1.setStr = [115, 101, 116] by decide] using hi
    have : i = 0 ∨ i = 1 ∨ i = 2 := by omega
    rcases this with h | h | h <;> subst h
    · rw [show L + 6 + 0 = L + 6 by omega, c6]; rfl
    · rw [show L + 6 + 1 = L + 7 by omega, c7]; rfl
    · rw [show L + 6 + 2 = L + 8 by omega, c8]; rfl
  have c1 : skipW c (L + 21 + S.length + V.length) (· != W1.equalChar) (L + 6 + W1.setLength) = .ok (L + 9) := by
    rw [show W1.setLength = 3 by decide]
    exact skipW_run c _ _ 0 (L + 9) (by intro i hi; omega) (by omega) (Or.inr ⟨61, c9, by decide⟩)
  have dd1 : doSkipW c (L + 21 + S.length + V.length) (· == W1.spaceChar) (L + 9) = .ok (L + 10) := by
    exact skipW_run c _ _ 0 (L + 10) (by intro i hi; omega) (by omega) (Or.inr ⟨34, c10, by decide⟩)
  have ee1 : doSkipW c (L + 21 + S.length + V.length) (· != 34) (L + 10) = .ok (L + 11 + S.length) := by
    apply skipW_run c _ _ S.length (L + 11)
    · intro i hi
      refine ⟨S[i], ht.s i hi, ?_⟩
      have := hS S[i] (List.getElem_mem hi)
      simpa using this
    · omega
    · right; exact ⟨34, d0, by decide⟩
  simp only [parseLoopAttributes, a1, bind, Except.bind, show L + 6 < L + 21 + S.length + V.length by omega, if_true,
    rd_some c (L + 6) 115 c6, show W1.setSortChar = 115 by decide, b1, pure, Except.pure, c1, dd1,
    show L + 10 < L + 21 + S.length + V.length by omega, rd_some c (L + 10) 34 c10, ee1]
  have hsv : setVar c ch ({ off := 0, len := 0, idLen := 0, level := 0 } : VarRef) (L + 10 + 1)
      (trunc bits_VariableTag_Length (L + 11 + S.length - (L + 10 + 1))) = .ok (mkV r (L + 11) S.length) := by
    have : trunc bits_VariableTag_Length (L + 11 + S.length - (L + 10 + 1)) = S.length := by
      simp only [trunc, show bits_VariableTag_Length = 16 by decide]; omega
    rw [show L + 10 + 1 = L + 11 by omega]
    simp only [setVar, hck, bind, Except.bind, this]
    cases r with
    | none => rfl
    | some ab => obtain ⟨a, b⟩ := ab; rfl
  -- iteration 2
  have a2 : skipW c (L + 21 + S.length + V.length) (· == W1.spaceChar) (L + 11 + S.length + 1) = .ok (L + 13 + S.length) := by
    rw [show L + 13 + S.length = L + 11 + S.length + 1 + 1 by omega]
    apply skipW_run c _ _ 1 (L + 11 + S.length + 1)
    · intro i hi
      have : i = 0 := by omega
      subst this
      exact ⟨32, by rw [show L + 11 + S.length + 1 + 0 = L + 12 + S.length by omega]; exact d1, by decide⟩
    · omega
    · right; exact ⟨118, by rw [show L + 11 + S.length + 1 + 1 = L + 13 + S.length by omega]; exact d2, by decide⟩
  have b2 : andEqualAt (decide (L + 21 + S.length + V.length - (L + 13 + S.length) > W1.valueLength)) c
      (L + 13 + S.length) W1.valueStr = .ok true := by
    have : decide (L + 21 + S.length + V.length - (L + 13 + S.length) > W1.valueLength) = true := by
      simp only [show W1.valueLength = 5 by decide, decide_eq_true_eq]; omega
    simp only [andEqualAt, this, if_true]
    apply isEqualAt_true
    intro i hi
    have hi5 : i < 5 := by simpa [show W1.valueStr = [118, 97, 108, 117, 101] by decide] using hi
    have : i = 0 ∨ i = 1 ∨ i = 2 ∨ i = 3 ∨ i = 4 := by omega
    rcases this with h | h | h | h | h <;> subst h
    · rw [show L + 13 + S.length + 0 = L + 13 + S.length by omega, d2]; rfl
    · rw [show L + 13 + S.length + 1 = L + 14 + S.length by omega, d3]; rfl
    · rw [show L + 13 + S.length + 2 = L + 15 + S.length by omega, d4]; rfl
    · rw [show L + 13 + S.length + 3 = L + 16 + S.length by omega, d5]; rfl
    · rw [show L + 13 + S.length + 4 = L + 17 + S.length by omega, d6]; rfl
  have c2 : skipW c (L + 21 + S.length + V.length) (· != W1.equalChar) (L + 13 + S.length + W1.valueLength) =
      .ok (L + 18 + S.length) := by
    rw [show W1.valueLength = 5 by decide, show L + 13 + S.length + 5 = L + 18 + S.length by omega]
    exact skipW_run c _ _ 0 (L + 18 + S.length) (by intro i hi; omega) (by omega) (Or.inr ⟨61, d7, by decide⟩)
  have dd2 : doSkipW c (L + 21 + S.length + V.length) (· == W1.spaceChar) (L + 18 + S.length) = .ok (L + 19 + S.length) := by
    have := skipW_run c (L + 21 + S.length + V.length) (· == W1.spaceChar) 0 (L + 18 + S.length + 1)
      (by intro i hi; omega) (by omega)
      (Or.inr ⟨34, by rw [show L + 18 + S.length + 1 + 0 = L + 19 + S.length by omega]; exact d8, by decide⟩)
    simp only [doSkipW, this]
    congr 1
    omega
  have ee2 : doSkipW c (L + 21 + S.length + V.length) (· != 34) (L + 19 + S.length) = .ok (L + 20 + S.length + V.length) := by
    have := skipW_run c (L + 21 + S.length + V.length) (· != 34) V.length (L + 19 + S.length + 1)
      (by
        intro i hi
        refine ⟨V[i], by rw [show L + 19 + S.length + 1 + i = L + 20 + S.length + i by omega]; exact ht.v i hi, ?_⟩
        have := hV V[i] (List.getElem_mem hi)
        simpa using this)
      (by omega)
      (Or.inr ⟨34, by rw [show L + 19 + S.length + 1 + V.length = L + 20 + S.length + V.length by omega]; exact e0, by decide⟩)
    simp only [doSkipW, this]
    congr 1
    omega
  have hvo : trunc bits_LoopTag_ValueOffset (L + 19 + S.length + 1 - L) = 20 + S.length := by
    simp only [trunc, show bits_LoopTag_ValueOffset = 8 by decide]; omega
  have hvl : trunc bits_LoopTag_ValueLength (L + 20 + S.length + V.length - (L + 19 + S.length + 1)) = V.length := by
    simp only [trunc, show bits_LoopTag_ValueLength = 8 by decide]; omega
  simp only [hsv, show L + 11 + S.length + 1 < L + 21 + S.length + V.length by omega, if_true, a2,
    show L + 13 + S.length < L + 21 + S.length + V.length by omega, rd_some c _ 118 d2,
    show W1.valueChar = 118 by decide, show ¬ ((118 : Nat) = 115) by decide,
    if_false, b2, c2, dd2,
    show L + 19 + S.length < L + 21 + S.length + V.length by omega, rd_some c _ 34 d8, ee2, hvo, hvl,
    show ¬ (L + 20 + S.length + V.length + 1 < L + 21 + S.length + V.length) by omega]


/-- `parseLoopAttributes` on the printed attribute ` value="V"` of a top-level loop without `set` -/
theorem pla_print0L (c : List Nat) (L : Nat) (V : List Nat)
    (hh : ∀ i (hi : i < 8), c[L + 5 + i]? = [32, 118, 97, 108, 117, 101, 61, 34][i]?)
    (hv : ∀ i (hi : i < V.length), c[L + 13 + i]? = some V[i])
    (hq : c[L + 13 + V.length]? = some 34)
    (hV : ∀ x ∈ V, x ≠ 34) (fuel lv : Nat) (hV8 : V.length < 256) (ch : List LoopRef) :
    parseLoopAttributes c (L + 14 + V.length) ch (fuel + 1) (L + 5) .none
        ({ off := L, level := lv } : LoopFields) =
      .ok { off := L, level := lv, valueOff := 13, valueLen := V.length } := by
  have c5 : c[L + 5]? = some 32 := hh 0 (by omega)
  have c6 : c[L + 6]? = some 118 := hh 1 (by omega)
  have c7 : c[L + 7]? = some 97 := hh 2 (by omega)
  have c8 : c[L + 8]? = some 108 := hh 3 (by omega)
  have c9 : c[L + 9]? = some 117 := hh 4 (by omega)
  have c10 : c[L + 10]? = some 101 := hh 5 (by omega)
  have c11 : c[L + 11]? = some 61 := hh 6 (by omega)
  have c12 : c[L + 12]? = some 34 := hh 7 (by omega)
  have a1 : skipW c (L + 14 + V.length) (· == W1.spaceChar) (L + 5) = .ok (L + 6) := by
    apply skipW_run c _ _ 1 (L + 5)
    · intro i hi
      have : i = 0 := by omega
      subst this
      exact ⟨32, c5, by decide⟩
    · omega
    · right; exact ⟨118, c6, by decide⟩
  have b1 : andEqualAt (decide (L + 14 + V.length - (L + 6) > W1.valueLength)) c (L + 6) W1.valueStr = .ok true := by
    have : decide (L + 14 + V.length - (L + 6) > W1.valueLength) = true := by
      simp only [show W1.valueLength = 5 by decide, decide_eq_true_eq]; omega
    simp only [andEqualAt, this, if_true]
    apply isEqualAt_true
    intro i hi
    have hi5 : i < 5 := by simpa [show W1.valueStr = [118, 97, 108, 117, 101] by decide] using hi
    have : i = 0 ∨ i = 1 ∨ i = 2 ∨ i = 3 ∨ i = 4 := by omega
    rcases this with h | h | h | h | h <;> subst h
    · rw [show L + 6 + 0 = L + 6 by omega, c6]; rfl
    · rw [show L + 6 + 1 = L + 7 by omega, c7]; rfl
    · rw [show L + 6 + 2 = L + 8 by omega, c8]; rfl
    · rw [show L + 6 + 3 = L + 9 by omega, c9]; rfl
    · rw [show L + 6 + 4 = L + 10 by omega, c10]; rfl
  have c1 : skipW c (L + 14 + V.length) (· != W1.equalChar) (L + 6 + W1.valueLength) = .ok (L + 11) := by
    rw [show W1.valueLength = 5 by decide]
    exact skipW_run c _ _ 0 (L + 11) (by intro i hi; omega) (by omega) (Or.inr ⟨61, c11, by decide⟩)
  have dd1 : doSkipW c (L + 14 + V.length) (· == W1.spaceChar) (L + 11) = .ok (L + 12) := by
    exact skipW_run c _ _ 0 (L + 12) (by intro i hi; omega) (by omega) (Or.inr ⟨34, c12, by decide⟩)
  have ee1 : doSkipW c (L + 14 + V.length) (· != 34) (L + 12) = .ok (L + 13 + V.length) := by
    apply skipW_run c _ _ V.length (L + 13)
    · intro i hi
      refine ⟨V[i], hv i hi, ?_⟩
      have := hV V[i] (List.getElem_mem hi)
      simpa using this
    · omega
    · right; exact ⟨34, hq, by decide⟩
  have hvo : trunc bits_LoopTag_ValueOffset (L + 12 + 1 - L) = 13 := by
    simp only [trunc, show bits_LoopTag_ValueOffset = 8 by decide]; omega
  have hvl : trunc bits_LoopTag_ValueLength (L + 13 + V.length - (L + 12 + 1)) = V.length := by
    simp only [trunc, show bits_LoopTag_ValueLength = 8 by decide]; omega
  simp only [parseLoopAttributes, a1, bind, Except.bind, show L + 6 < L + 14 + V.length by omega, if_true,
    rd_some c (L + 6) 118 c6, show W1.setSortChar = 115 by decide, show W1.valueChar = 118 by decide,
    show ¬ ((118 : Nat) = 115) by decide, if_false, b1, pure, Except.pure, c1, dd1,
    show L + 12 < L + 14 + V.length by omega, rd_some c (L + 12) 34 c12, ee1, hvo, hvl,
    show ¬ (L + 13 + V.length + 1 < L + 14 + V.length) by omega]


/-- `stepLoop` on a printed header `<loop` ++ `Hm` ++ `>` whose attribute scan gives `f0` -/
theorem stepLoop_genL (c pre Hm rest : List Nat)
    (hc : c = pre ++ (LOOPW ++ (Hm ++ ([62] ++ rest))))
    (hn : c.length + 16 < 4294967296) (hHm : plainL Hm) (hgt : ∀ x ∈ Hm, x ≠ 62) (hlen : Hm.length + 6 < 65536)
    (ch : List LoopRef) (stk : List (Frame R)) (acc : List (Tag R)) (f0 : LoopFields)
    (hpla : parseLoopAttributes c (pre.length + 5 + Hm.length) ch (pre.length + 5 + Hm.length + 2) (pre.length + 5) .none
      ({ off := pre.length, level := trunc bits_LoopTag_Level stk.length } : LoopFields) = .ok f0)
    (hoff0 : f0.off = pre.length)
    (o1 m1 : Nat) (hnext : next c (pre.length + 6 + Hm.length) = .ok (o1, m1)) :
    stepLoop c (stAtL ch stk acc (pre.length + 5) 7) =
      .ok (stAtL (⟨f0.off + f0.valueOff, f0.valueLen, f0.level⟩ :: ch)
        (.loop acc { f0 with contentOff := 6 + Hm.length } ch :: stk) [] o1 m1) := by
  have hp62 : plainL [62] := by intro x hx; simp at hx; subst hx; unfold plainU; decide
  have hc5 : c = (pre ++ LOOPW) ++ ((Hm ++ [62]) ++ rest) := by
    rw [hc]; simp [List.append_assoc]
  have hrun := next_run c _ _ rest hc5 (plainL_append hHm hp62)
  have hl5 : (pre ++ LOOPW).length = pre.length + 5 := by simp [LOOPW]
  have hl62 : (Hm ++ [62]).length = Hm.length + 1 := by simp
  rw [hl5, hl62, show pre.length + 5 + (Hm.length + 1) = pre.length + 6 + Hm.length by omega, hnext] at hrun
  have hle : pre.length + 6 + Hm.length ≤ c.length := by
    rw [hc]; simp [LOOPW]; omega
  obtain ⟨o', m', hn', _, hge, _, _⟩ := next_safe_total c _ hle
  rw [hnext] at hn'
  simp only [Except.ok.injEq, Prod.mk.injEq] at hn'
  obtain ⟨rfl, rfl⟩ := hn'
  have h1 : finderNext c (stAtL ch stk acc (pre.length + 5) 7) = .ok (stAtL ch stk acc o1 m1) :=
    finderNext_stAtL c ch stk acc _ 7 _ _ hrun
  have hc6 : c = (pre ++ LOOPW) ++ (Hm ++ ([62] ++ rest)) := by rw [hc]; simp [List.append_assoc]
  have hgt62 : c[pre.length + 5 + Hm.length]? = some 62 := by
    have := get_after (pre ++ LOOPW) Hm 62 rest
    rw [hl5] at this
    rw [hc6]; exact this
  have hsk : skipW c o1 (· != W1.multiLineLastChar) (pre.length + 5) = .ok (pre.length + 5 + Hm.length) := by
    apply skipW_run c o1 (· != W1.multiLineLastChar) Hm.length (pre.length + 5)
    · intro i hi
      have hmid : ∀ x ∈ Hm, (x != W1.multiLineLastChar) = true := by
        intro x hx
        have h62 : W1.multiLineLastChar = 62 := by decide
        simp only [h62, bne_iff_ne, ne_eq]
        exact hgt x hx
      have hpl := all_at (fun x => (x != W1.multiLineLastChar) = true) (pre ++ LOOPW) Hm ([62] ++ rest) hmid i hi
      rw [hl5] at hpl
      rw [hc6]; exact hpl
    · omega
    · right; exact ⟨62, hgt62, by decide⟩
  have hoff : (stAtL ch stk acc (pre.length + 5) 7 : PState R).off = pre.length + 5 := rfl
  have hoff1 : (stAtL ch stk acc o1 m1 : PState R).off = o1 := rfl
  have hch : (stAtL ch stk acc o1 m1 : PState R).loopChain = ch := rfl
  have hstk : (stAtL ch stk acc o1 m1 : PState R).stack = stk := rfl
  have h5 : W1.loopPrefixLength = 5 := by decide
  have hco : trunc bits_LoopTag_ContentOffset (pre.length + 5 + Hm.length + W1.multiLineSuffixLength - pre.length) =
      6 + Hm.length := by
    simp only [trunc, show bits_LoopTag_ContentOffset = 16 by decide, show W1.multiLineSuffixLength = 1 by decide]
    omega
  simp only [stepLoop, hoff, h1, bind, Except.bind, hoff1, h5, Nat.add_sub_cancel, hsk,
    show pre.length + 5 + Hm.length < o1 by omega, if_true, hch, hstk, hpla, hco]
  rfl


theorem stepLoopEnd_printL (c : List Nat) (ch : List LoopRef) (ref : LoopRef) (acc sub : List (Tag R)) (f : LoopFields)
    (stk : List (Frame R)) (q o' m' : Nat) (hq : f.off + f.contentOff ≤ q)
    (hnext : next c (q + 7) = .ok (o', m')) :
    stepLoopEnd c (stAtL (ref :: ch) (.loop acc f ch :: stk) sub (q + 7) 8) =
      .ok (stAtL ch stk (acc ++ [.loop sub { f with endOff := q }]) o' m') := by
  have h7 : W1.loopSuffixLength = 7 := by decide
  simp only [stepLoopEnd, stAtL, h7, Nat.add_sub_cancel, pure, Except.pure, bind, Except.bind,
    show ¬ (q < f.off + f.contentOff) by omega, if_false, finderNext, hnext]


/-! ### the chain of enclosing loops -/

/-- one enclosing loop: where its value name stands, the name, its level -/
structure LoopD where
  start : Nat
  V : List Nat
  lv : Nat

def LoopD.ref (d : LoopD) : LoopRef := ⟨d.start, d.V.length, d.lv⟩
def refsD (D : List LoopD) : List LoopRef := D.map LoopD.ref

/-- every enclosing loop's value name stands in the content at its recorded place and holds no `}` and no `"` -/
def ChainD (c : List Nat) (D : List LoopD) : Prop :=
  ∀ d ∈ D, (∃ B R, c = B ++ (d.V ++ R) ∧ B.length = d.start) ∧ (∀ x ∈ d.V, x ≠ 125 ∧ x ≠ 34)

/-- the first (innermost) loop whose value name is a prefix of `X`: (`IDLength`, `Level`) -/
def findV : List LoopD → List Nat → Option (Nat × Nat)
  | [], _ => none
  | d :: r, X => if d.V.isPrefixOf X then some (d.V.length, d.lv) else findV r X

theorem isEqualRange_prefS (c : List Nat) : ∀ (V X A B R : List Nat), c = A ++ X → c = B ++ (V ++ R) →
    (∃ (j : Nat) (s : Nat), X[j]? = some s ∧ ∀ x ∈ V, x ≠ s) →
    isEqualRange c V.length A.length B.length = .ok (V.isPrefixOf X) := by
  intro V
  induction V with
  | nil => intro X A B R _ _ _; simp [isEqualRange]
  | cons v V' ih =>
    intro X A B R h1 h2 hstop
    obtain ⟨j, s, hj, hs⟩ := hstop
    cases X with
    | nil => simp at hj
    | cons x X' =>
      have ha : c[A.length]? = some x := by rw [h1]; simp
      have hb : c[B.length]? = some v := by rw [h2]; simp
      simp only [List.length_cons, isEqualRange, rd_some c _ x ha, rd_some c _ v hb, bind, Except.bind]
      by_cases hxv : x = v
      · subst hxv
        simp only [if_true]
        have hj0 : j ≠ 0 := by
          intro h0; subst h0
          simp at hj
          exact hs x (List.mem_cons_self ..) hj
        have := ih X' (A ++ [x]) (B ++ [x]) R (by rw [h1]; simp) (by rw [h2]; simp)
          ⟨j - 1, s, by
            have : j = (j - 1) + 1 := by omega
            rw [this] at hj; simpa using hj, fun y hy => hs y (List.mem_cons_of_mem _ hy)⟩
        simp only [List.length_append, List.length_cons, List.length_nil, Nat.zero_add] at this
        rw [this]
        simp [List.isPrefixOf]
      · simp only [hxv, if_false]
        have : (v == x) = false := by simpa using fun h => hxv h.symm
        simp [List.isPrefixOf, this]

theorem checkLoopVariable_D (c : List Nat) (A X : List Nat) (h1 : c = A ++ X)
    (hstop : ∃ (j : Nat) (s : Nat), X[j]? = some s ∧ (s = 125 ∨ s = 34)) :
    ∀ (D : List LoopD), ChainD c D → checkLoopVariable c A.length (refsD D) = .ok (findV D X) := by
  intro D
  induction D with
  | nil => intro _; rfl
  | cons d r ih =>
    intro hD
    obtain ⟨⟨B, Rr, hB, hBl⟩, hV⟩ := hD d (List.mem_cons_self ..)
    obtain ⟨j, s, hj, hs⟩ := hstop
    have hpre := isEqualRange_prefS c d.V X A B Rr h1 hB
      ⟨j, s, hj, fun x hx => by rcases hs with h | h <;> subst h; exact (hV x hx).1; exact (hV x hx).2⟩
    rw [hBl] at hpre
    simp only [refsD, List.map_cons, LoopD.ref, checkLoopVariable, hpre, bind, Except.bind, findV]
    cases d.V.isPrefixOf X
    · simp only [Bool.false_eq_true, if_false]
      exact ih (fun x hx => hD x (List.mem_cons_of_mem _ hx))
    · simp

theorem isPrefixOf_stopS (s : Nat) : ∀ (V pa rest : List Nat), (∀ x ∈ V, x ≠ s) →
    V.isPrefixOf (pa ++ s :: rest) = V.isPrefixOf pa := by
  intro V
  induction V with
  | nil => intro pa rest _; simp [List.isPrefixOf]
  | cons v V' ih =>
    intro pa rest hV
    cases pa with
    | nil =>
      have : (v == s) = false := by simpa using hV v (List.mem_cons_self ..)
      simp [List.isPrefixOf, this]
    | cons a pa' =>
      simp only [List.cons_append, List.isPrefixOf]
      rw [ih pa' rest (fun y hy => hV y (List.mem_cons_of_mem _ hy))]

theorem findV_stop (c : List Nat) (s : Nat) (hs : s = 125 ∨ s = 34) (pa rest : List Nat) :
    ∀ (D : List LoopD), ChainD c D → findV D (pa ++ s :: rest) = findV D pa := by
  intro D
  induction D with
  | nil => intro _; rfl
  | cons d r ih =>
    intro hD
    have hV := (hD d (List.mem_cons_self ..)).2
    simp only [findV]
    rw [isPrefixOf_stopS s d.V pa rest (fun x hx => by rcases hs with h | h <;> subst h; exact (hV x hx).1; exact (hV x hx).2),
      ih (fun x hx => hD x (List.mem_cons_of_mem _ hx))]

/-- the variable record of a path at `off` under the chain -/
def refD (D : List LoopD) (off : Nat) (pa : List Nat) : VarRef := mkV (findV D pa) off pa.length

/-- the expression list `parse` stores for the text `[a, b)` under a loop chain -/
def itemsAtC (cfg : ScanCfg R) (c : List Nat) (ch : List LoopRef) (a b : Nat) : List (Item R) :=
  match exprs cfg c ch a b with
  | .ok l => l
  | .error _ => []

def tagsOfD (cfg : ScanCfg R) (c : List Nat) (D : List LoopD) (p : Nat) : List Seg → List (Tag R)
  | [] => []
  | .text s :: r => tagsOfD cfg c D (p + s.length) r
  | .var pa :: r => .var (refD D (p + 5) pa) :: tagsOfD cfg c D (p + 5 + pa.length + 1) r
  | .raw pa :: r => .raw (refD D (p + 5) pa) :: tagsOfD cfg c D (p + 5 + pa.length + 1) r
  | .math e :: r =>
    .math (itemsAtC cfg c (refsD D) (p + 6) (p + 6 + e.length)) p (p + 6 + e.length + 1) ::
      tagsOfD cfg c D (p + 6 + e.length + 1) r


/-- a run of segments under any loop chain -/
theorem parseMain_segsL (cfg : ScanCfg R) (c : List Nat) (hn : c.length + 16 < 4294967296)
    (D : List LoopD) (hD : ChainD c D) (stk : List (Frame R)) (post : List Nat) :
    ∀ (segs : List Seg) (pre : List Nat) (acc : List (Tag R)) (fuel o m o' m' : Nat),
      c = pre ++ (printSegs segs ++ post) → (∀ s ∈ segs, s.ok) →
      next c pre.length = .ok (o, m) →
      next c (pre.length + (printSegs segs).length) = .ok (o', m') →
      parseMain cfg c (fuel + nTags segs) (stAtL (refsD D) stk acc o m) =
        parseMain cfg c fuel (stAtL (refsD D) stk (acc ++ tagsOfD cfg c D pre.length segs) o' m') := by
  intro segs
  induction segs with
  | nil =>
    intro pre acc fuel o m o' m' hc _ hnext hfin
    simp only [printSegs, List.length_nil, Nat.add_zero] at hfin
    rw [hnext] at hfin
    simp only [Except.ok.injEq, Prod.mk.injEq] at hfin
    obtain ⟨rfl, rfl⟩ := hfin
    simp [nTags, tagsOfD]
  | cons sg rest ih =>
    intro pre acc fuel o m o' m' hc hok hnext hfin
    have hokr : ∀ s ∈ rest, s.ok := fun s hs => hok s (List.mem_cons_of_mem _ hs)
    have hsg := hok sg (List.mem_cons_self ..)
    have hvar : ∀ (raw : Bool) (w pa : List Nat) (mid : Nat), w.length = 5 →
        c = pre ++ ((w ++ pa ++ [125]) ++ (printSegs rest ++ post)) → plainL pa → 0 < pa.length → pa.length ≤ 255 →
        mid ≠ 0 →
        (∀ st : PState R, st.mtch = mid → step cfg c st = stepVar c st raw) →
        next c (pre.length + ((w ++ pa ++ [125]) ++ printSegs rest).length) = .ok (o', m') →
        parseMain cfg c (fuel + nTags rest + 1) (stAtL (refsD D) stk acc (pre.length + 5) mid) =
          parseMain cfg c fuel (stAtL (refsD D) stk
            (acc ++ ((if raw then Tag.raw (refD D (pre.length + 5) pa) else Tag.var (refD D (pre.length + 5) pa)) ::
              tagsOfD cfg c D (pre.length + 5 + pa.length + 1) rest)) o' m') := by
      intro raw w pa mid hw hc' hp h0 h255 hmid hdisp hfin'
      have hlen_le : pre.length + 5 + pa.length + 1 ≤ c.length := by rw [hc']; simp [hw]; omega
      obtain ⟨o1, m1, hn1, _⟩ := next_safe_total c (pre.length + 5 + pa.length + 1) hlen_le
      have hcA : c = (pre ++ w) ++ (pa ++ 125 :: (printSegs rest ++ post)) := by
        rw [hc']; simp [List.append_assoc]
      have hlA : (pre ++ w).length = pre.length + 5 := by simp [hw]
      have hck := checkLoopVariable_D c (pre ++ w) _ hcA ⟨pa.length, 125, by simp, Or.inl rfl⟩ D hD
      rw [hlA, findV_stop c 125 (Or.inl rfl) pa _ D hD] at hck
      have hstep := stepVar_segL c hn raw pre pa (printSegs rest ++ post) w hw hc' hp h0 h255
        (refsD D) stk acc mid o1 m1 hn1 _ hck
      rw [parseMain_step cfg c _ _ _ (by simpa [stAtL] using hmid) ((hdisp _ rfl).trans hstep)]
      have := ih (pre ++ (w ++ pa ++ [125]))
        (acc ++ [if raw then Tag.raw (refD D (pre.length + 5) pa) else Tag.var (refD D (pre.length + 5) pa)])
        fuel o1 m1 o' m' (by rw [hc']; simp [List.append_assoc]) hokr
        (by simp only [List.length_append, List.length_cons, List.length_nil, hw]
            rw [show pre.length + (5 + pa.length + (0 + 1)) = pre.length + 5 + pa.length + 1 by omega]
            exact hn1)
        (by rw [← hfin']; congr 1; simp [List.length_append]; omega)
      have hL : (pre ++ (w ++ pa ++ [125])).length = pre.length + 5 + pa.length + 1 := by simp [hw]; omega
      rw [hL] at this
      simp only [refD] at this ⊢
      rw [this]
      simp [List.append_assoc]
    cases sg with
    | text s =>
      simp only [Seg.ok] at hsg
      simp only [printSegs, printSeg] at hc hfin
      have hskip : next c pre.length = next c (pre.length + s.length) := by
        apply next_skip c s.length pre.length (by rw [hc]; simp)
        intro i hi
        have := plain_at pre s (printSegs rest ++ post) hsg i hi
        rw [hc]; simpa [List.append_assoc] using this
      have := ih (pre ++ s) acc fuel o m o' m' (by rw [hc]; simp [List.append_assoc]) hokr
        (by rw [List.length_append, ← hskip]; exact hnext)
        (by rw [← hfin]; congr 1; simp [List.length_append]; omega)
      simpa [tagsOfD, nTags, List.length_append] using this
    | var pa =>
      simp only [Seg.ok] at hsg
      obtain ⟨hp, h0, h255⟩ := hsg
      simp only [printSegs, printSeg] at hc hfin
      have hat : next c pre.length = .ok (pre.length + 5, 2) := by
        have g := fun i (hi : i < 5) => get_mid pre [123, 118, 97, 114, 58] (pa ++ [125] ++ (printSegs rest ++ post)) i (by simpa using hi)
        have hc' : c = pre ++ ([123, 118, 97, 114, 58] ++ (pa ++ [125] ++ (printSegs rest ++ post))) := by
          rw [hc]; simp [List.append_assoc]
        apply next_at_var c pre.length (by omega)
        · have := g 0 (by omega); rw [hc']; simpa using this
        · have := g 1 (by omega); rw [hc']; simpa using this
        · have := g 2 (by omega); rw [hc']; simpa using this
        · have := g 3 (by omega); rw [hc']; simpa using this
        · have := g 4 (by omega); rw [hc']; simpa using this
      rw [hat] at hnext
      simp only [Except.ok.injEq, Prod.mk.injEq] at hnext
      obtain ⟨rfl, rfl⟩ := hnext
      have := hvar false [123, 118, 97, 114, 58] pa 2 rfl (by rw [hc]; simp [List.append_assoc]) hp h0 h255
        (by decide)
        (by intro st hst; simp only [step, hst]; first | done | rfl) (by rw [← hfin])
      rw [show fuel + nTags (Seg.var pa :: rest) = fuel + nTags rest + 1 by simp [nTags]; omega]
      simpa [tagsOfD] using this
    | raw pa =>
      simp only [Seg.ok] at hsg
      obtain ⟨hp, h0, h255⟩ := hsg
      simp only [printSegs, printSeg] at hc hfin
      have hat : next c pre.length = .ok (pre.length + 5, 3) := by
        have g := fun i (hi : i < 5) => get_mid pre [123, 114, 97, 119, 58] (pa ++ [125] ++ (printSegs rest ++ post)) i (by simpa using hi)
        have hc' : c = pre ++ ([123, 114, 97, 119, 58] ++ (pa ++ [125] ++ (printSegs rest ++ post))) := by
          rw [hc]; simp [List.append_assoc]
        apply next_at_raw c pre.length (by omega)
        · have := g 0 (by omega); rw [hc']; simpa using this
        · have := g 1 (by omega); rw [hc']; simpa using this
        · have := g 2 (by omega); rw [hc']; simpa using this
        · have := g 3 (by omega); rw [hc']; simpa using this
        · have := g 4 (by omega); rw [hc']; simpa using this
      rw [hat] at hnext
      simp only [Except.ok.injEq, Prod.mk.injEq] at hnext
      obtain ⟨rfl, rfl⟩ := hnext
      have := hvar true [123, 114, 97, 119, 58] pa 3 rfl (by rw [hc]; simp [List.append_assoc]) hp h0 h255
        (by decide)
        (by intro st hst; simp only [step, hst]; first | done | rfl) (by rw [← hfin])
      rw [show fuel + nTags (Seg.raw pa :: rest) = fuel + nTags rest + 1 by simp [nTags]; omega]
      simpa [tagsOfD] using this
    | math e =>
      simp only [Seg.ok] at hsg
      simp only [printSegs, printSeg] at hc hfin
      have hat : next c pre.length = .ok (pre.length + 6, 4) := by
        have g := fun i (hi : i < 6) => get_mid pre [123, 109, 97, 116, 104, 58] (e ++ [125] ++ (printSegs rest ++ post)) i (by simpa using hi)
        have hc' : c = pre ++ ([123, 109, 97, 116, 104, 58] ++ (e ++ [125] ++ (printSegs rest ++ post))) := by
          rw [hc]; simp [List.append_assoc]
        apply next_at_math c pre.length (by omega)
        · have := g 0 (by omega); rw [hc']; simpa using this
        · have := g 1 (by omega); rw [hc']; simpa using this
        · have := g 2 (by omega); rw [hc']; simpa using this
        · have := g 3 (by omega); rw [hc']; simpa using this
        · have := g 4 (by omega); rw [hc']; simpa using this
        · have := g 5 (by omega); rw [hc']; simpa using this
      rw [hat] at hnext
      simp only [Except.ok.injEq, Prod.mk.injEq] at hnext
      obtain ⟨rfl, rfl⟩ := hnext
      have hlen_le : pre.length + 6 + e.length + 1 ≤ c.length := by rw [hc]; simp; omega
      obtain ⟨o1, m1, hn1, _⟩ := next_safe_total c (pre.length + 6 + e.length + 1) hlen_le
      obtain ⟨items', hex⟩ := Qentem.Expr.parseTop_total
        ({ cfg with loopVar := loopVarPure c (refsD D) } : ScanCfg R) c (pre.length + 6) (pre.length + 6 + e.length) (by omega)
      have hex' : exprs cfg c (refsD D) (pre.length + 6) (pre.length + 6 + e.length) = .ok items' := hex
      have hstep := stepMath_segL cfg c (refsD D) hn pre e (printSegs rest ++ post) [123, 109, 97, 116, 104, 58] rfl
        (by rw [hc]; simp [List.append_assoc]) hsg stk acc o1 m1 hn1 items' hex'
      rw [show fuel + nTags (Seg.math e :: rest) = (fuel + nTags rest) + 1 by simp [nTags]; omega]
      have hd : step cfg c (stAtL (refsD D) stk acc (pre.length + 6) 4) = stepMath cfg c (stAtL (refsD D) stk acc (pre.length + 6) 4) := by
        simp only [step, stAtL]; rfl
      rw [parseMain_step cfg c _ _ _ (by simp [stAtL]) (hd.trans hstep)]
      have := ih (pre ++ ([123, 109, 97, 116, 104, 58] ++ e ++ [125]))
        (acc ++ [Tag.math items' pre.length (pre.length + 6 + e.length + 1)])
        fuel o1 m1 o' m' (by rw [hc]; simp [List.append_assoc]) hokr
        (by simp only [List.length_append, List.length_cons, List.length_nil]
            rw [show pre.length + (6 + e.length + (0 + 1)) = pre.length + 6 + e.length + 1 by omega]
            exact hn1)
        (by rw [← hfin]; congr 1; simp [List.length_append]; omega)
      have hL : (pre ++ ([123, 109, 97, 116, 104, 58] ++ e ++ [125])).length = pre.length + 6 + e.length + 1 := by
        simp; omega
      rw [hL] at this
      rw [this]
      simp [tagsOfD, itemsAtC, hex', List.append_assoc]

/-! ### `stepLoop` on a printed header under any chain -/

/-- `ValueOffset` of the printed header -/
def voOf (S : List Nat) : Nat := if S.isEmpty then 13 else 20 + S.length

/-- the `Set` record of the printed header under the chain -/
def setOf (D : List LoopD) (p : Nat) (S : List Nat) : VarRef :=
  if S.isEmpty then ⟨0, 0, 0, 0⟩ else mkV (findV D S) (p + 11) S.length

/-- what `stepLoop` records for the printed header at `p` (without `endOff`) -/
def loopFG (D : List LoopD) (p lv : Nat) (S V : List Nat) : LoopFields :=
  { off := p, level := lv, set := setOf D p S, valueOff := voOf S, valueLen := V.length,
    contentOff := 6 + (hdrOf S V).length }

/-- side conditions on the two attribute texts of a printed loop -/
structure HdrOk (S V : List Nat) : Prop where
  s : plainL S
  s34 : ∀ x ∈ S, x ≠ 34
  sgt : ∀ x ∈ S, x ≠ 62
  slen : S.length < 236
  v : plainL V
  v34 : ∀ x ∈ V, x ≠ 34
  vgt : ∀ x ∈ V, x ≠ 62
  vlen : V.length < 256

theorem hdrOf_len (S V : List Nat) : (hdrOf S V).length = (if S.isEmpty then 9 else 16 + S.length) + V.length := by
  unfold hdrOf
  cases S <;> simp <;> omega

theorem stepLoop_hdr (c pre S V rest : List Nat)
    (hc : c = pre ++ (LOOPW ++ (hdrOf S V ++ ([62] ++ rest)))) (hn : c.length + 16 < 4294967296)
    (hh : HdrOk S V) (D : List LoopD) (hD : ChainD c D) (stk : List (Frame R)) (acc : List (Tag R)) (o1 m1 : Nat)
    (hnext : next c (pre.length + 6 + (hdrOf S V).length) = .ok (o1, m1)) :
    stepLoop c (stAtL (refsD D) stk acc (pre.length + 5) 7) =
      .ok (stAtL (refsD (⟨pre.length + voOf S, V, trunc bits_LoopTag_Level stk.length⟩ :: D))
        (.loop acc (loopFG D pre.length (trunc bits_LoopTag_Level stk.length) S V) (refsD D) :: stk) [] o1 m1) ∧
    ChainD c (⟨pre.length + voOf S, V, trunc bits_LoopTag_Level stk.length⟩ :: D) := by
  have hHm := plainL_hdr S V hh.s hh.v
  have hgt := nogt_hdr S V hh.sgt hh.vgt
  have hlen := hdrOf_len S V
  by_cases hSe : S = []
  · subst hSe
    have hhd : hdrOf [] V = [32, 118, 97, 108, 117, 101, 61, 34] ++ V ++ [34] := by simp [hdrOf]
    simp only [List.isEmpty_nil, if_true] at hlen
    have hcl : c = (pre ++ LOOPW) ++ ([32, 118, 97, 108, 117, 101, 61, 34] ++ (V ++ ([34] ++ ([62] ++ rest)))) := by
      rw [hc, hhd]; simp [List.append_assoc]
    have hl5 : (pre ++ LOOPW).length = pre.length + 5 := by simp [LOOPW]
    have hl13 : (pre ++ LOOPW ++ [32, 118, 97, 108, 117, 101, 61, 34]).length = pre.length + 13 := by simp [LOOPW]
    have hcv : c = (pre ++ LOOPW ++ [32, 118, 97, 108, 117, 101, 61, 34]) ++ (V ++ ([34] ++ ([62] ++ rest))) := by
      rw [hcl]; simp [List.append_assoc]
    have hpla := pla_print0L c pre.length V
      (by
        intro i hi
        have := get_mid (pre ++ LOOPW) [32, 118, 97, 108, 117, 101, 61, 34] (V ++ ([34] ++ ([62] ++ rest))) i (by simpa using hi)
        rw [hl5] at this
        rw [hcl]; exact this)
      (by
        intro i hi
        have := get_at (pre ++ LOOPW ++ [32, 118, 97, 108, 117, 101, 61, 34]) V ([34] ++ ([62] ++ rest)) i hi
        rw [hl13] at this
        rw [hcv]; exact this)
      (by
        have := get_after (pre ++ LOOPW ++ [32, 118, 97, 108, 117, 101, 61, 34]) V 34 ([62] ++ rest)
        rw [hl13] at this
        rw [hcv]; exact this)
      hh.v34 (pre.length + 5 + (hdrOf [] V).length + 1) (trunc bits_LoopTag_Level stk.length) hh.vlen (refsD D)
    rw [show pre.length + 14 + V.length = pre.length + 5 + (hdrOf [] V).length by rw [hlen]; omega] at hpla
    have hs := stepLoop_genL c pre (hdrOf [] V) rest hc hn hHm hgt (by rw [hlen]; have := hh.vlen; have := hh.slen; omega) (refsD D) stk acc _ hpla rfl o1 m1 hnext
    refine ⟨?_, ?_⟩
    · rw [hs]; simp [refsD, LoopD.ref, loopFG, voOf, setOf]
    · intro d hd
      rcases List.mem_cons.mp hd with h | h
      · subst h
        exact ⟨⟨_, _, hcv, by rw [hl13]; simp [voOf]⟩, fun x hx => ⟨(hh.v x hx).2.2, hh.v34 x hx⟩⟩
      · exact hD d h
  · have hSi : S.isEmpty = false := by cases S <;> simp_all
    simp only [hSi, Bool.false_eq_true, if_false] at hlen
    have hhd : hdrOf S V = [32, 115, 101, 116, 61, 34] ++ S ++ [34] ++ ([32, 118, 97, 108, 117, 101, 61, 34] ++ V ++ [34]) := by
      simp [hdrOf, hSi]
    have hcl : c = pre ++ (LH1 ++ (S ++ (LH2 ++ (V ++ (LH3 ++ rest))))) := by
      rw [hc, hhd]; simp [LH1, LH2, LH3, LOOPW, List.append_assoc]
    have ht := loopText_of c pre S V rest hcl
    have hcs : c = (pre ++ LH1) ++ (S ++ 34 :: ([32, 118, 97, 108, 117, 101, 61, 34] ++ (V ++ (LH3 ++ rest)))) := by
      rw [hcl]; simp [LH1, LH2, List.append_assoc]
    have hl11 : (pre ++ LH1).length = pre.length + 11 := by simp [LH1]
    have hck := checkLoopVariable_D c (pre ++ LH1) _ hcs ⟨S.length, 34, by simp, Or.inr rfl⟩ D hD
    rw [hl11, findV_stop c 34 (Or.inr rfl) S _ D hD] at hck
    have hpla := pla_printL c pre.length S V ht hh.s34 hh.v34 (pre.length + 5 + (hdrOf S V).length)
      (trunc bits_LoopTag_Level stk.length) hh.slen hh.vlen (refsD D) _ hck
    rw [show pre.length + 21 + S.length + V.length = pre.length + 5 + (hdrOf S V).length by rw [hlen]; omega] at hpla
    have hs := stepLoop_genL c pre (hdrOf S V) rest hc hn hHm hgt (by rw [hlen]; have := hh.vlen; have := hh.slen; omega) (refsD D) stk acc _ hpla rfl o1 m1 hnext
    have hcv : c = (pre ++ (LH1 ++ (S ++ LH2))) ++ (V ++ (LH3 ++ rest)) := by
      rw [hcl]; simp [List.append_assoc]
    refine ⟨?_, ?_⟩
    · rw [hs]; simp [refsD, LoopD.ref, loopFG, voOf, setOf, hSi]
    · intro d hd
      rcases List.mem_cons.mp hd with h | h
      · subst h
        exact ⟨⟨_, _, hcv, by simp [voOf, hSi, LH1, LH2]; omega⟩, fun x hx => ⟨(hh.v x hx).2.2, hh.v34 x hx⟩⟩
      · exact hD d h

theorem refD_off (D : List LoopD) (o : Nat) (pa : List Nat) : (refD D o pa).off = o := by
  simp only [refD, mkV]; split <;> rfl
theorem refD_len (D : List LoopD) (o : Nat) (pa : List Nat) : (refD D o pa).len = pa.length := by
  simp only [refD, mkV]; split <;> rfl

end Qentem.Tmpl
