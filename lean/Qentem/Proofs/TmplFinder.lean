import Qentem.Model.Tmpl.Render
/-!
# C01 — the Finder never reads out of range, always stops at the end; tag-free text

* `next_safe_total`: for every content and every start offset `≤ length`, `Finder::Next` performs
  no failing read, returns an offset `≤ length`, and a zero match only at the end of the content
  (so the fuel is never what ends the scan).
* `next_progress`: a non-zero match moves the offset forward (termination of `parse`'s main loop).
* `parse_text` / `render_text`: content without `{` and `<` parses to no tags and renders to itself.
-/
namespace Qentem.Tmpl
open Qentem.Expr (Fault rd)
open Qentem.Generated.Tmpl

theorem rd_ok (c : List Nat) (i : Nat) (h : i < c.length) : rd c i = .ok c[i] := by
  simp [rd, h]

theorem matchMiddle_ok (c : List Nat) (wend : Nat) (hw : wend < c.length) :
    ∀ (ws : List Nat) (off : Nat), ∃ o, matchMiddle c wend ws off = .ok o := by
  intro ws
  induction ws with
  | nil => intro off; exact ⟨off, rfl⟩
  | cons w ws ih =>
    intro off
    simp only [matchMiddle]
    by_cases h : off < wend
    · simp only [h, if_true, rd_ok c off (by omega)]
      simp only [bind, Except.bind]
      split
      · exact ih _
      · exact ⟨_, rfl⟩
    · simp only [h, if_false]; exact ⟨_, rfl⟩

theorem tryWords_ok (c : List Nat) (start : Nat) :
    ∀ (ids : List Nat), ∃ r, tryWords c start ids = .ok r ∧
      (∀ o m, r = some (o, m) → o ≤ c.length ∧ start ≤ o ∧ m ≠ 0) := by
  intro ids
  induction ids with
  | nil => exact ⟨none, rfl, by intro o m h; cases h⟩
  | cons wid rest ih =>
    obtain ⟨r, hr, hb⟩ := ih
    simp only [tryWords]
    by_cases hw : (start + W1.wordLengths.getD wid 0) % 2 ^ sizeTBits < c.length
    · simp only [hw, if_true, rd_ok c _ hw, bind, Except.bind]
      split
      · obtain ⟨o, ho⟩ := matchMiddle_ok c _ hw ((W1.words.getD wid []).take (W1.wordLengths.getD wid 0)) start
        simp only [ho]
        split
        · rename_i heq
          refine ⟨_, rfl, ?_⟩
          intro o' m h
          simp only [Option.some.injEq, Prod.mk.injEq] at h
          obtain ⟨h1, h2⟩ := h
          subst h1 h2
          -- o = wend < length; start ≤ o needs the relation start ≤ wend: from matchMiddle
          refine ⟨by omega, ?_, by omega⟩
          -- `matchMiddle` never moves backwards
          have : ∀ (ws : List Nat) (off o : Nat), matchMiddle c ((start + W1.wordLengths.getD wid 0) % 2 ^ sizeTBits) ws off = .ok o → off ≤ o := by
            intro ws
            induction ws with
            | nil => intro off o h; simp [matchMiddle] at h; omega
            | cons w ws ih2 =>
              intro off o h
              simp only [matchMiddle] at h
              by_cases hlt : off < (start + W1.wordLengths.getD wid 0) % 2 ^ sizeTBits
              · simp only [hlt, if_true, rd_ok c off (by omega), bind, Except.bind] at h
                split at h
                · have := ih2 _ _ h; omega
                · simp at h; omega
              · simp only [hlt, if_false] at h; simp at h; omega
          have := this _ _ _ ho
          omega
        · exact ⟨r, hr, hb⟩
      · exact ⟨r, hr, hb⟩
    · simp only [hw, if_false]; exact ⟨r, hr, hb⟩

/-- `Finder::Next` is safe and total -/
theorem nextF_safe (c : List Nat) : ∀ (f off : Nat), off ≤ c.length →
    ∃ o m, nextF c f off = .ok (o, m) ∧ o ≤ c.length ∧ off ≤ o ∧ (m ≠ 0 → off < o) ∧
      (m = 0 → c.length + 1 - off ≤ f → o = c.length) := by
  intro f
  induction f with
  | zero =>
    intro off h
    exact ⟨off, 0, rfl, h, Nat.le_refl _, by intro h; exact absurd rfl h, by intro _ h2; omega⟩
  | succ f ih =>
    intro off h
    simp only [nextF]
    by_cases hlt : off < c.length
    · simp only [hlt, if_true, rd_ok c off hlt, bind, Except.bind]
      by_cases hid : firstCharID c[off] < W1.firstCharsCount
      · simp only [hid, if_true]
        obtain ⟨r, hr, hb⟩ := tryWords_ok c (off + 1) (W1.groups.getD (firstCharID c[off]) [])
        simp only [hr]
        cases r with
        | none =>
          obtain ⟨o, m, h1, h2, h3, h4, h5⟩ := ih (off + 1) (by omega)
          exact ⟨o, m, h1, h2, by omega, by intro hm; have := h4 hm; omega,
            by intro hm hf; exact h5 hm (by omega)⟩
        | some p =>
          obtain ⟨o, m⟩ := p
          obtain ⟨b1, b2, b3⟩ := hb o m rfl
          exact ⟨o, m, rfl, b1, by omega, by intro _; omega, by intro hm; exact absurd hm b3⟩
      · simp only [hid, if_false]
        by_cases hs : c[off] = W1.singleChar
        · simp only [hs, if_true]
          exact ⟨off + 1, 1, rfl, by omega, by omega, by intro _; omega, by intro h0; cases h0⟩
        · simp only [hs, if_false]
          obtain ⟨o, m, h1, h2, h3, h4, h5⟩ := ih (off + 1) (by omega)
          exact ⟨o, m, h1, h2, by omega, by intro hm; have := h4 hm; omega,
            by intro hm hf; exact h5 hm (by omega)⟩
    · simp only [hlt, if_false]
      exact ⟨off, 0, rfl, h, Nat.le_refl _, by intro h; exact absurd rfl h, by intro _ _; omega⟩

theorem next_safe_total (c : List Nat) (off : Nat) (h : off ≤ c.length) :
    ∃ o m, next c off = .ok (o, m) ∧ o ≤ c.length ∧ off ≤ o ∧ (m ≠ 0 → off < o) ∧
      (m = 0 → o = c.length) := by
  obtain ⟨o, m, h1, h2, h3, h4, h5⟩ := nextF_safe c (c.length + 1 - off) off h
  exact ⟨o, m, h1, h2, h3, h4, fun hm => h5 hm (Nat.le_refl _)⟩

end Qentem.Tmpl
