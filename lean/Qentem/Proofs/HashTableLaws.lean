import Qentem.Proofs.HashTableRefine
/-!
What the slot specification means as an insertion-ordered map: the live entries in slot order
(`entries`), lookup as membership, and the effect of each key-level operation on them.
Pure list reasoning; the only hypothesis is that live keys are pairwise distinct (`KeysNodup`),
which the table invariant provides for every reachable state.
-/
namespace Qentem.HashTable
variable {V : Type}

/-- The live entries in iteration (slot) order. -/
def entries (sl : Slots V) : List (List Nat × V) := sl.filterMap id

def keysOf (sl : Slots V) : List (List Nat) := (entries sl).map Prod.fst

def KeysNodup (sl : Slots V) : Prop := (keysOf sl).Nodup

/-- The value a lookup by key returns. -/
def valOf (sp : Spec V) (k : List Nat) : Option V := (Spec.lookup sp k).map Prod.snd

@[simp] theorem entries_nil : entries ([] : Slots V) = [] := rfl
@[simp] theorem entries_cons_none (t : Slots V) : entries (none :: t) = entries t := rfl
@[simp] theorem entries_cons_some (e : List Nat × V) (t : Slots V) : entries (some e :: t) = e :: entries t := rfl
theorem entries_append (a b : Slots V) : entries (a ++ b) = entries a ++ entries b := by
  simp [entries, List.filterMap_append]

theorem entries_compact (sl : Slots V) : entries (Spec.compact sl) = entries sl := by
  induction sl with
  | nil => rfl
  | cons o t ih => cases o <;> simp [Spec.compact, List.filter, ih] <;> exact ih

theorem findKey_cons (o : Option (List Nat × V)) (t : Slots V) (k : List Nat) :
    Spec.findKey (o :: t) k = if Spec.hasKey k o then some 0 else (Spec.findKey t k).map (· + 1) := by
  simp only [Spec.findKey, List.findIdx_cons, List.length_cons]
  by_cases h : Spec.hasKey k o = true
  · simp [h]
  · simp only [h, Bool.false_eq_true, if_false, cond_false]
    by_cases h2 : List.findIdx (Spec.hasKey k) t < t.length
    · simp [h2]
    · simp [h2]

/-- Where a present key sits: nothing before it carries the key. -/
theorem findKey_some_split : ∀ {sl : Slots V} {k : List Nat} {i : Nat}, Spec.findKey sl k = some i →
    ∃ A B v0, sl = A ++ some (k, v0) :: B ∧ A.length = i ∧ k ∉ keysOf A
  | [], k, i, h => by simp [Spec.findKey] at h
  | o :: t, k, i, h => by
    rw [findKey_cons] at h
    by_cases hk : Spec.hasKey k o = true
    · rw [if_pos hk] at h
      cases o with
      | none => simp [Spec.hasKey] at hk
      | some e =>
        obtain ⟨k', v0⟩ := e
        simp only [Spec.hasKey, decide_eq_true_eq] at hk
        subst hk
        exact ⟨[], t, v0, rfl, by simpa using (Option.some.inj h), by simp [keysOf]⟩
    · rw [if_neg hk] at h
      obtain ⟨i', hi', rfl⟩ := Option.map_eq_some_iff.mp h
      obtain ⟨A, B, v0, hsl, hlen, hnot⟩ := findKey_some_split hi'
      refine ⟨o :: A, B, v0, by rw [hsl]; rfl, by simp [hlen], ?_⟩
      cases o with
      | none => simpa [keysOf] using hnot
      | some e =>
        simp only [Spec.hasKey, decide_eq_true_eq] at hk
        simp only [keysOf, entries_cons_some, List.map_cons, List.mem_cons, not_or]
        exact ⟨fun e' => hk e'.symm, hnot⟩

theorem keysOf_cons_none (t : Slots V) : keysOf (none :: t) = keysOf t := rfl
theorem keysOf_cons_some (k : List Nat) (v : V) (t : Slots V) : keysOf (some (k, v) :: t) = k :: keysOf t := rfl

theorem findKey_none_iff {sl : Slots V} {k : List Nat} : Spec.findKey sl k = none ↔ k ∉ keysOf sl := by
  induction sl with
  | nil => simp [Spec.findKey, keysOf]
  | cons o t ih =>
    rw [findKey_cons]
    cases o with
    | none =>
      rw [keysOf_cons_none]
      simp only [Spec.hasKey, Bool.false_eq_true, if_false, Option.map_eq_none_iff]
      exact ih
    | some e =>
      obtain ⟨k', v⟩ := e
      rw [keysOf_cons_some]
      by_cases hk : k' = k
      · simp [Spec.hasKey, hk]
      · have : ¬ k = k' := fun e => hk e.symm
        simp only [Spec.hasKey, hk, decide_false, Bool.false_eq_true, if_false, Option.map_eq_none_iff,
          List.mem_cons, this, false_or]
        exact ih

theorem set_split {A B : Slots V} {x y : Option (List Nat × V)} :
    (A ++ x :: B).set A.length y = A ++ y :: B := by
  simp

/-- A lookup by key sees exactly the live entry with that key. -/
theorem valOf_eq_some_iff {sp : Spec V} (hnd : KeysNodup sp.slots) {k : List Nat} {v : V} :
    valOf sp k = some v ↔ (k, v) ∈ entries sp.slots := by
  unfold valOf Spec.lookup
  cases hf : Spec.findKey sp.slots k with
  | none =>
    have := findKey_none_iff.mp hf
    simp only [Option.map_none, reduceCtorEq, false_iff]
    intro hm
    exact this (by simp only [keysOf, List.mem_map]; exact ⟨(k, v), hm, rfl⟩)
  | some i =>
    obtain ⟨A, B, v0, hsl, hlen, hnot⟩ := findKey_some_split hf
    have hget : sp.slots[i]? = some (some (k, v0)) := by rw [hsl, ← hlen]; simp
    simp only [hget, Option.map_some, Option.some.injEq]
    constructor
    · intro h; rw [← h, hsl, entries_append]; simp
    · intro hm
      have hnd' : ((entries A ++ (k, v0) :: entries B).map Prod.fst).Nodup := by
        have := hnd; unfold KeysNodup keysOf at this; rw [hsl, entries_append] at this; simpa using this
      rw [hsl, entries_append, entries_cons_some] at hm
      rw [List.map_append, List.map_cons, List.nodup_append] at hnd'
      obtain ⟨_, h2, h3⟩ := hnd'
      rcases List.mem_append.mp hm with h | h
      · exact absurd (by simp only [keysOf, List.mem_map]; exact ⟨(k, v), h, rfl⟩) hnot
      · rcases List.mem_cons.mp h with h | h
        · exact (Prod.mk.inj h).2.symm
        · have := (List.nodup_cons.mp h2).1
          exact absurd (List.mem_map.mpr ⟨(k, v), h, rfl⟩) this

theorem valOf_eq_none_iff {sp : Spec V} {k : List Nat} : valOf sp k = none ↔ k ∉ keysOf sp.slots := by
  unfold valOf Spec.lookup
  cases hf : Spec.findKey sp.slots k with
  | none => simp [findKey_none_iff.mp hf]
  | some i =>
    obtain ⟨A, B, v0, hsl, hlen, _⟩ := findKey_some_split hf
    have hget : sp.slots[i]? = some (some (k, v0)) := by rw [hsl, ← hlen]; simp
    have : k ∈ keysOf sp.slots := by rw [hsl]; simp [keysOf, entries_append]
    simp [hget, this]

/-! ### Effect of `put` and of removing a slot on the entries -/

theorem entries_put_absent {sl : Slots V} {k : List Nat} (v : V) (h : k ∉ keysOf sl) :
    entries (Spec.put sl k v) = entries sl ++ [(k, v)] := by
  simp [Spec.put, findKey_none_iff.mpr h, entries_append]

theorem entries_put_present {sl : Slots V} {k : List Nat} (v : V) (h : k ∈ keysOf sl) :
    ∃ A B v0, entries sl = A ++ (k, v0) :: B ∧ entries (Spec.put sl k v) = A ++ (k, v) :: B ∧
      k ∉ A.map Prod.fst := by
  cases hf : Spec.findKey sl k with
  | none => exact absurd h (findKey_none_iff.mp hf)
  | some i =>
    obtain ⟨A, B, v0, hsl, hlen, hnot⟩ := findKey_some_split hf
    refine ⟨entries A, entries B, v0, by rw [hsl, entries_append]; rfl, ?_, hnot⟩
    simp only [Spec.put, hf]
    rw [hsl, ← hlen, set_split, entries_append]; rfl

theorem keysOf_put {sl : Slots V} (k : List Nat) (v : V) :
    keysOf (Spec.put sl k v) = if k ∈ keysOf sl then keysOf sl else keysOf sl ++ [k] := by
  by_cases h : k ∈ keysOf sl
  · obtain ⟨A, B, v0, h1, h2, _⟩ := entries_put_present v h
    rw [if_pos h]; simp [keysOf, h1, h2]
  · rw [if_neg h]; simp [keysOf, entries_put_absent v h]

theorem entries_remove_present {sl : Slots V} {k : List Nat} {i : Nat} (hf : Spec.findKey sl k = some i) :
    ∃ A B v0, entries sl = A ++ (k, v0) :: B ∧ entries (sl.set i none) = A ++ B ∧ k ∉ A.map Prod.fst := by
  obtain ⟨A, B, v0, hsl, hlen, hnot⟩ := findKey_some_split hf
  refine ⟨entries A, entries B, v0, by rw [hsl, entries_append]; rfl, ?_, hnot⟩
  rw [hsl, ← hlen, set_split, entries_append]; rfl

end Qentem.HashTable
