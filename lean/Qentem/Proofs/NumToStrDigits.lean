import Qentem.Proofs.NumToStrInt
import Qentem.Proofs.NumToStrBits
import Mathlib.Tactic.Ring
/-! C10 helper: the digit run of `realToString` in closed form.

`digitRun_eq_spec`: for both configurations (double, float), every finite non-zero input, every
format and every precision ≤ 40 the model's digit run — `bigIntDropDigits`, the multiplication
loop with its mid-loop right shifts, the checked BigInt width — never faults and equals `runSpec`,
a loop-free expression in `/`, `%`, `^`.  In particular no product reaches the word at which
`realToString` starts dropping low words, so no digit is lost. -/
set_option linter.unusedSimpArgs false
set_option linter.unusedVariables false
namespace Qentem.Proofs.NumToStr
open Qentem.NumToStr Qentem.Generated.NumToStr Qentem

theorem ok_bind {α β : Type} (a : α) (f : α → M β) : (Except.ok a >>= f) = f a := rfl

theorem findFirstBitLoop_spec : ∀ (j fuel n k : Nat), n % 2 ^ j = 0 → (n / 2 ^ j) % 2 = 1 → j < fuel →
    findFirstBitLoop fuel n k = k + j := by
  intro j
  induction j with
  | zero =>
    intro fuel n k _ h1 hf
    obtain ⟨f, rfl⟩ := Nat.exists_eq_succ_of_ne_zero (by omega : fuel ≠ 0)
    simp at h1
    simp [findFirstBitLoop, h1]
  | succ j ih =>
    intro fuel n k h0 h1 hf
    obtain ⟨f, rfl⟩ := Nat.exists_eq_succ_of_ne_zero (by omega : fuel ≠ 0)
    have hpow : 2 ^ (j + 1) = 2 * 2 ^ j := by rw [Nat.pow_succ]; ring
    have h2 : n % 2 = 0 := by
      have : 2 ∣ n := Dvd.dvd.trans ⟨2 ^ j, hpow⟩ (Nat.dvd_of_mod_eq_zero h0)
      omega
    have h3 : (n / 2) % 2 ^ j = 0 := by
      have : 2 ^ (j + 1) ∣ n := Nat.dvd_of_mod_eq_zero h0
      obtain ⟨c, rfl⟩ := this
      rw [hpow, Nat.mul_assoc, Nat.mul_div_cancel_left _ (by norm_num)]
      exact Nat.mul_mod_right _ _
    have h4 : (n / 2) / 2 ^ j % 2 = 1 := by
      rw [Nat.div_div_eq_div_mul, ← hpow]; exact h1
    rw [findFirstBitLoop]
    simp only [show ¬ (n % 2 = 1) by omega, if_false]
    rw [ih f (n / 2) (k + 1) h3 h4 (by omega)]
    omega

theorem findFirstBit_spec {j n : Nat} (h0 : n % 2 ^ j = 0) (h1 : (n / 2 ^ j) % 2 = 1) (hj : j < 64) :
    findFirstBit n = j := by
  simp [findFirstBit, findFirstBitLoop_spec j 64 n 0 h0 h1 hj]


/-- every positive number is an odd number times a power of two -/
theorem exists_ctz : ∀ m, 0 < m → ∃ j, m % 2 ^ j = 0 ∧ (m / 2 ^ j) % 2 = 1 := by
  intro m
  induction m using Nat.strong_induction_on with
  | _ m ih =>
    intro hm
    by_cases hodd : m % 2 = 1
    · exact ⟨0, by simp [Nat.mod_one], by simpa using hodd⟩
    · obtain ⟨j, h1, h2⟩ := ih (m / 2) (by omega) (by omega)
      refine ⟨j + 1, ?_, ?_⟩
      · have hpow : 2 ^ (j + 1) = 2 * 2 ^ j := by rw [Nat.pow_succ]; ring
        have hm2 : m = 2 * (m / 2) := by omega
        obtain ⟨c, hc⟩ := Nat.dvd_of_mod_eq_zero h1
        rw [hpow, hm2, hc]
        rw [show 2 * (2 ^ j * c) = 2 * 2 ^ j * c by ring]
        exact Nat.mul_mod_right _ _
      · have hpow : 2 ^ (j + 1) = 2 * 2 ^ j := by rw [Nat.pow_succ]; ring
        rw [hpow, ← Nat.div_div_eq_div_mul]; exact h2


theorem pow5_ok : ∀ i, i ≤ 27 → tbl C8.powerOfFive i = .ok (5 ^ i) := by decide +kernel

/-! ### `bigIntDropDigits` -/

theorem mod_mul_ne_zero_iff (b p q : Nat) (hp : 0 < p) :
    (b % p ≠ 0 ∨ (b / p) % q ≠ 0) ↔ b % (p * q) ≠ 0 := by
  rw [Nat.mod_mul]
  constructor
  · intro h hz
    have h1 : b % p = 0 := by omega
    have h2 : p * (b / p % q) = 0 := by omega
    rcases h with h | h
    · exact h h1
    · rcases Nat.mul_eq_zero.mp h2 with h3 | h3
      · omega
      · exact h h3
  · intro h
    by_cases h1 : b % p = 0
    · right; intro h2; apply h; simp [h1, h2]
    · left; exact h1

theorem dropDigitsLoop_eq : ∀ (fuel b drop : Nat) (inexact : Bool), drop / 27 < fuel →
    dropDigitsLoop fuel b drop inexact =
      .ok (b / 5 ^ (27 * (drop / 27)), drop % 27, inexact || decide (b % 5 ^ (27 * (drop / 27)) ≠ 0)) := by
  intro fuel
  induction fuel with
  | zero => intro b drop inexact h; omega
  | succ k ih =>
    intro b drop inexact h
    rw [dropDigitsLoop]
    have h27 : C8.maxPowerOfFive = 27 := rfl
    by_cases hd : 27 ≤ drop
    · rw [h27, if_pos hd, pow5_ok 27 (Nat.le_refl _)]
      simp only [ok_bind]
      rw [ih _ _ _ (by omega)]
      have e1 : (drop - 27) / 27 = drop / 27 - 1 := by omega
      have e2 : (drop - 27) % 27 = drop % 27 := by omega
      have e3 : 27 * (drop / 27) = 27 + 27 * (drop / 27 - 1) := by omega
      rw [e1, e2, e3, Nat.pow_add, Nat.div_div_eq_div_mul]
      have := mod_mul_ne_zero_iff b (5 ^ 27) (5 ^ (27 * (drop / 27 - 1))) (Nat.pow_pos (by decide))
      have hb : ((inexact || b % 5 ^ 27 != 0) || decide (b / 5 ^ 27 % 5 ^ (27 * (drop / 27 - 1)) ≠ 0)) =
          (inexact || decide (b % (5 ^ 27 * 5 ^ (27 * (drop / 27 - 1))) ≠ 0)) := by
        rw [Bool.or_assoc]
        congr 1
        rw [Bool.eq_iff_iff]
        simp only [Bool.or_eq_true, decide_eq_true_eq, bne_iff_ne, ne_eq]
        exact this
      rw [hb]
    · have hz : drop / 27 = 0 := by omega
      rw [h27, if_neg hd, hz]
      simp [Nat.mod_eq_of_lt (by omega : drop < 27), Nat.mod_one, pure, Except.pure]

theorem dropDigits_eq (b drop : Nat) :
    dropDigits b drop = .ok (b / 5 ^ drop, decide (b % 5 ^ drop ≠ 0)) := by
  unfold dropDigits
  have h27 : C8.maxPowerOfFive = 27 := rfl
  rw [h27, dropDigitsLoop_eq _ _ _ _ (by omega)]
  simp only [ok_bind, Bool.false_or]
  have hsplit : drop = 27 * (drop / 27) + drop % 27 := by omega
  by_cases hr : drop % 27 = 0
  · simp only [hr, ne_eq, not_true_eq_false, if_false, pure, Except.pure]
    have : 27 * (drop / 27) = drop := by omega
    rw [this]
  · simp only [hr, ne_eq, not_false_eq_true, if_true, pow5_ok _ (by omega : drop % 27 ≤ 27), ok_bind, pure, Except.pure]
    have hq : 5 ^ drop = 5 ^ (27 * (drop / 27)) * 5 ^ (drop % 27) := by rw [← Nat.pow_add, ← hsplit]
    rw [hq, Nat.div_div_eq_div_mul]
    have := mod_mul_ne_zero_iff b (5 ^ (27 * (drop / 27))) (5 ^ (drop % 27)) (Nat.pow_pos (by decide))
    have hb : (decide (b % 5 ^ (27 * (drop / 27)) ≠ 0) || b / 5 ^ (27 * (drop / 27)) % 5 ^ (drop % 27) != 0) =
        decide (b % (5 ^ (27 * (drop / 27)) * 5 ^ (drop % 27)) ≠ 0) := by
      rw [Bool.eq_iff_iff]
      simp only [Bool.or_eq_true, decide_eq_true_eq, bne_iff_ne, ne_eq]
      exact this
    rw [hb]

/-! ### the multiplication loop -/

theorem bigIndex_lt {v mi : Nat} (hmi : 0 < mi) (h : v < 2 ^ (64 * mi)) : ¬ (mi ≤ bigIndex v) := by
  unfold bigIndex
  by_cases hv : v = 0
  · simp [hv]; omega
  · simp only [hv, if_false, wordBits]
    have := (Nat.log2_lt hv).mpr h
    omega

theorem bigFit_ok {tb v : Nat} (h : v < 2 ^ tb) : bigFit tb v = .ok v := by
  simp [bigFit, h, pure, Except.pure]

theorem mulLoop_eq (tb mi : Nat) (hmi : 0 < mi) (hfit : 64 * mi ≤ tb) :
    ∀ (fuel b shift times : Nat), 27 ≤ times → times / 27 ≤ fuel → b * 5 ^ times < 2 ^ (64 * mi) →
      mulLoop tb mi fuel b shift times = .ok (b * 5 ^ (27 * (times / 27)), shift, times % 27) := by
  intro fuel
  induction fuel with
  | zero => intro b shift times h27 hq _; omega
  | succ k ih =>
    intro b shift times h27 hq hlt
    have hM : C8.maxPowerOfFive = 27 := rfl
    have hsplit : 5 ^ times = 5 ^ 27 * 5 ^ (times - 27) := by rw [← Nat.pow_add]; congr 1; omega
    have hb27 : b * 5 ^ 27 * 5 ^ (times - 27) < 2 ^ (64 * mi) := by rw [Nat.mul_assoc, ← hsplit]; exact hlt
    have hle : b * 5 ^ 27 ≤ b * 5 ^ 27 * 5 ^ (times - 27) := Nat.le_mul_of_pos_right _ (Nat.pow_pos (by decide))
    have hlt27 : b * 5 ^ 27 < 2 ^ (64 * mi) := lt_of_le_of_lt hle hb27
    have hfit27 : b * 5 ^ 27 < 2 ^ tb := lt_of_lt_of_le hlt27 (Nat.pow_le_pow_right (by decide) hfit)
    rw [mulLoop, hM, pow5_ok 27 (Nat.le_refl _)]
    have hns : ¬ (mi ≤ bigIndex (b * 5 ^ 27) ∧ C8.maxShift ≤ shift) := fun h => bigIndex_lt hmi hlt27 h.1
    rw [ok_bind, bigFit_ok hfit27, ok_bind, if_neg hns]
    show (if 27 ≤ times - 27 then mulLoop tb mi k (b * 5 ^ 27) shift (times - 27)
          else pure (b * 5 ^ 27, shift, times - 27)) = _
    by_cases hmore : 27 ≤ times - 27
    · rw [if_pos hmore, ih _ _ _ hmore (by omega) hb27]
      have e1 : (times - 27) / 27 = times / 27 - 1 := by omega
      have e2 : (times - 27) % 27 = times % 27 := by omega
      have e3 : 27 * (times / 27) = 27 + 27 * (times / 27 - 1) := by omega
      rw [e1, e2, e3, Nat.pow_add, Nat.mul_assoc]
    · rw [if_neg hmore]
      have e1 : times / 27 = 1 := by omega
      have e2 : times - 27 = times % 27 := by omega
      rw [e1, e2]; rfl


/-- `runFraction` with the two derived quantities made explicit -/
def fracLen (fl0 needed0 : Nat) : Nat := if needed0 + 1 < fl0 then needed0 + 1 else fl0
def fracShift (fl0 needed0 : Nat) : Nat := if needed0 + 1 < fl0 then fl0 - (needed0 + 1) else 0

theorem runFraction_eq {c : Cfg} {m j fl0 needed0 : Nat} (hmi : 0 < c.maxIndex) (hfit : 64 * c.maxIndex ≤ c.totalBits)
    (hroom : (m / 2 ^ j) * 5 ^ fracLen fl0 needed0 < 2 ^ (64 * c.maxIndex)) :
    runFraction c m j fl0 needed0 =
      .ok ((m / 2 ^ j) * 5 ^ fracLen fl0 needed0 / 2 ^ fracShift fl0 needed0, fracLen fl0 needed0, decide (needed0 + 1 < fl0)) := by
  have hM : C8.maxPowerOfFive = 27 := rfl
  have hfitb : ∀ v, v < 2 ^ (64 * c.maxIndex) → v < 2 ^ c.totalBits :=
    fun v hv => lt_of_lt_of_le hv (Nat.pow_le_pow_right (by decide) hfit)
  show (do
      let r ←
        if C8.maxPowerOfFive ≤ fracLen fl0 needed0 then
          mulLoop c.totalBits c.maxIndex (fracLen fl0 needed0 / C8.maxPowerOfFive + 1) (m >>> j) (fracShift fl0 needed0) (fracLen fl0 needed0)
        else pure (m >>> j, fracShift fl0 needed0, fracLen fl0 needed0)
      let b ← if r.2.2 ≠ 0 then do
          let p ← tbl C8.powerOfFive r.2.2
          bigFit c.totalBits (r.1 * p)
        else pure r.1
      pure (b >>> r.2.1, fracLen fl0 needed0, decide (needed0 + 1 < fl0))) = _
  generalize fracLen fl0 needed0 = fl at *
  generalize fracShift fl0 needed0 = sh at *
  rw [Nat.shiftRight_eq_div_pow, hM]
  by_cases h27 : 27 ≤ fl
  · rw [if_pos h27, mulLoop_eq _ _ hmi hfit _ _ _ _ h27 (by omega) hroom, ok_bind]
    have hsplit : fl = 27 * (fl / 27) + fl % 27 := by omega
    have fin : ∀ X : Nat, (Except.ok X >>= fun b => (pure (b >>> sh, fl, decide (needed0 + 1 < fl0)) : M _)) =
        Except.ok (X / 2 ^ sh, fl, decide (needed0 + 1 < fl0)) := by
      intro X; rw [ok_bind, Nat.shiftRight_eq_div_pow]; rfl
    by_cases hr : fl % 27 = 0
    · have e : 27 * (fl / 27) = fl := by omega
      show (if fl % 27 ≠ 0 then _ else _) = _
      rw [if_neg (by simpa using hr), e]
      exact fin _
    · have hq : m / 2 ^ j * 5 ^ (27 * (fl / 27)) * 5 ^ (fl % 27) = m / 2 ^ j * 5 ^ fl := by
        rw [Nat.mul_assoc, ← Nat.pow_add, ← hsplit]
      show (if fl % 27 ≠ 0 then _ else _) = _
      rw [if_pos (by simpa using hr), pow5_ok _ (by omega : fl % 27 ≤ 27), ok_bind]
      show (bigFit c.totalBits (m / 2 ^ j * 5 ^ (27 * (fl / 27)) * 5 ^ (fl % 27)) >>= _) = _
      rw [hq, bigFit_ok (hfitb _ hroom)]
      exact fin _
  · rw [if_neg h27]
    have fin : ∀ X : Nat, (Except.ok X >>= fun b => (pure (b >>> sh, fl, decide (needed0 + 1 < fl0)) : M _)) =
        Except.ok (X / 2 ^ sh, fl, decide (needed0 + 1 < fl0)) := by
      intro X; rw [ok_bind, Nat.shiftRight_eq_div_pow]; rfl
    show (do
      let b ← if fl ≠ 0 then do
          let p ← tbl C8.powerOfFive fl
          bigFit c.totalBits (m / 2 ^ j * p)
        else pure (m / 2 ^ j)
      pure (b >>> sh, fl, decide (needed0 + 1 < fl0))) = _
    by_cases hr : fl = 0
    · rw [if_neg (by simpa using hr), show m / 2 ^ j * 5 ^ fl = m / 2 ^ j by rw [hr, Nat.pow_zero, Nat.mul_one]]
      exact fin _
    · rw [if_pos hr, pow5_ok _ (by omega : fl ≤ 27), ok_bind, bigFit_ok (hfitb _ hroom)]
      exact fin _

/-! ### the no-fraction block -/

/-- mantissa shifted to the integer part after `drop` binary places have been given to the decimal drop -/
def intShift (M m pe drop : Nat) : Nat :=
  if M + drop < pe then m * 2 ^ (pe - (M + drop)) else m / 2 ^ (M + drop - pe)

theorem runNoFraction_eq {c : Cfg} {m j pe drop : Nat}
    (hroom : c.mantissaSize + drop < pe → m * 2 ^ (pe - (c.mantissaSize + drop)) < 2 ^ c.totalBits) :
    runNoFraction c m j pe drop =
      .ok (intShift c.mantissaSize m pe drop / 5 ^ drop,
           (decide (¬ (c.mantissaSize + drop < pe)) && decide (j < c.mantissaSize + drop - pe)) ||
             decide (intShift c.mantissaSize m pe drop % 5 ^ drop ≠ 0)) := by
  unfold runNoFraction intShift
  by_cases hlt : c.mantissaSize + drop < pe
  · rw [if_pos hlt, if_pos hlt, Nat.shiftLeft_eq, bigFit_ok (hroom hlt), ok_bind, pure_bind]
    beta_reduce
    by_cases hd : drop = 0
    · subst hd
      rw [if_neg (by simp)]
      simp [hlt, Nat.mod_one, pure, Except.pure]
      omega
    · rw [if_pos hd, dropDigits_eq, ok_bind]
      beta_reduce
      simp [hlt, pure, Except.pure]
  · rw [if_neg hlt, if_neg hlt, Nat.shiftRight_eq_div_pow, pure_bind]
    beta_reduce
    by_cases hd : drop = 0
    · subst hd
      rw [if_neg (by simp)]
      simp [hlt, Nat.mod_one, pure, Except.pure]
      omega
    · rw [if_pos hd, dropDigits_eq, ok_bind]
      beta_reduce
      simp [hlt, pure, Except.pure]

/-! ### the digit run in closed form -/

/-- what the proofs need to know about a configuration: IEEE layout with `M` mantissa bits and bias `B`,
and a BigInt wide enough that neither the left shift nor the products by powers of five (precision ≤ 40)
reach the word where `realToString` would start dropping low words. -/
structure Shape (c : Cfg) (M B : Nat) : Prop where
  msize : c.mantissaSize = M
  bias : c.bias = B
  lead : c.leadingBit = 2 ^ M
  mlt : M < 63
  maxIdx : 0 < c.maxIndex
  fit : 64 * c.maxIndex ≤ c.totalBits
  wide : B + 1 ≤ c.totalBits
  room : 2 ^ (M + 1) * 5 ^ ((B + M) * 30103 / 100000 + 1 + 41) < 2 ^ (64 * c.maxIndex)

theorem shape64 : Shape f64 52 1023 := by
  refine ⟨rfl, rfl, by decide, by decide, by decide, by decide, by decide, ?_⟩
  show 2 ^ 53 * 5 ^ 365 < 2 ^ (64 * 20)
  decide +kernel

theorem shape32 : Shape f32 23 127 := by
  refine ⟨rfl, rfl, by decide, by decide, by decide, by decide, by decide, ?_⟩
  show 2 ^ 24 * 5 ^ 87 < 2 ^ (64 * 4)
  decide +kernel

/-- the mantissa as an integer: hidden bit for normal numbers, doubled for subnormals (whose exponent is read as `-B`) -/
def mant (M f e : Nat) : Nat := if e = 0 then 2 * f else 2 ^ M + f

/-- the decimal digit estimate `⌊e·30103/100000⌋+1` -/
def estDigits (M j pe e : Nat) : Nat := (pe + (if e = 0 then M - j else 0)) * 30103 / 100000 + 1

/-- `digitRun` without loops, faults or tables -/
def runSpec (M B f e p fmt : Nat) : Nat × Nat × Nat × Bool × Bool :=
  let m := mant M f e
  let j := findFirstBit m
  let pos := decide (B ≤ e)
  let pe := if B ≤ e then e - B else B - e
  let firstBit := M - j
  let digits := estDigits M j pe e
  let fixed := decide (fmt = fmtSemiFixed) || decide (fmt = fmtFixed)
  let extra := decide (p < digits) && !fixed
  if pos && (decide (firstBit ≤ pe) || extra) then
    let drop := if extra then digits - (p + 1) else 0
    let b0 := intShift M m pe drop
    (b0 / 5 ^ drop, digits, 0, pos,
      (decide (¬ (M + drop < pe)) && decide (j < M + drop - pe)) || decide (b0 % 5 ^ drop ≠ 0))
  else
    let fl0 := if pos then firstBit - pe else firstBit + pe
    let needed0 := if pos then (if fixed then p else p - digits) else digits + p
    ((m / 2 ^ j) * 5 ^ fracLen fl0 needed0 / 2 ^ fracShift fl0 needed0, digits, fracLen fl0 needed0, pos,
      decide (needed0 + 1 < fl0))

/-- the trailing-zero count of a mantissa: what `Platform::FindFirstBit` returns -/
theorem findFirstBit_mant {M m : Nat} (hM : M < 63) (h0 : 0 < m) (hlt : m < 2 ^ (M + 1)) :
    findFirstBit m ≤ M ∧ m % 2 ^ findFirstBit m = 0 ∧ (m / 2 ^ findFirstBit m) % 2 = 1 := by
  obtain ⟨j, h1, h2⟩ := exists_ctz m h0
  have hj : j ≤ M := by
    by_contra hcon
    have hle : 2 ^ (M + 1) ≤ 2 ^ j := Nat.pow_le_pow_right (by decide) (by omega)
    have := Nat.le_of_dvd h0 (Nat.dvd_of_mod_eq_zero h1)
    omega
  have e : findFirstBit m = j := findFirstBit_spec h1 h2 (by omega)
  rw [e]; exact ⟨hj, h1, h2⟩

theorem mant_pos {M f e : Nat} (h : e ≠ 0 ∨ f ≠ 0) : 0 < mant M f e := by
  unfold mant; split
  · omega
  · exact Nat.add_pos_left (Nat.two_pow_pos M) f

theorem mant_lt {M f e : Nat} (hf : f < 2 ^ M) : mant M f e < 2 ^ (M + 1) := by
  unfold mant; rw [Nat.pow_succ]; split <;> omega

set_option maxRecDepth 8192 in
theorem digitRun_eq_spec {c : Cfg} {M B : Nat} (hc : Shape c M B) {f e p fmt : Nat}
    (hf : f < 2 ^ M) (he : e ≤ 2 * B) (hnz : e ≠ 0 ∨ f ≠ 0) (hp : p ≤ 40) :
    digitRun c f (e * 2 ^ M) p fmt = .ok (runSpec M B f e p fmt) := by
  obtain ⟨c1, c2, c3, c4, c5, c6, c7, c8⟩ := hc
  have hm0 := mant_pos (M := M) hnz
  have hmlt := mant_lt (e := e) hf
  obtain ⟨hj, hjd, hjo⟩ := findFirstBit_mant c4 hm0 hmlt
  have hmant : (if e * 2 ^ M ≠ 0 then f ||| 2 ^ M else f <<< 1) = mant M f e := by
    unfold mant
    by_cases h0 : e = 0
    · simp [h0, Nat.shiftLeft_eq, Nat.mul_comm]
    · have : e * 2 ^ M ≠ 0 := Nat.mul_ne_zero h0 (Nat.pos_iff_ne_zero.mp (Nat.two_pow_pos M))
      have h2 := Nat.two_pow_add_eq_or_of_lt hf 1
      simp only [Nat.mul_one] at h2
      simp [h0, this, h2, Nat.or_comm]
  have hb0 : (e * 2 ^ M = 0) ↔ e = 0 := by
    constructor
    · intro h; rcases Nat.mul_eq_zero.mp h with h | h
      · exact h
      · exact absurd h (Nat.pos_iff_ne_zero.mp (Nat.two_pow_pos M))
    · intro h; simp [h]
  have hcs : csub 20 M (findFirstBit (mant M f e)) = .ok (M - findFirstBit (mant M f e)) := by
    simp [csub, hj, pure, Except.pure]
  have hpe : (if B ≤ e then e - B else B - e) ≤ B := by split <;> omega
  have hroomNF : ∀ drop, M + drop < (if B ≤ e then e - B else B - e) →
      mant M f e * 2 ^ ((if B ≤ e then e - B else B - e) - (M + drop)) < 2 ^ c.totalBits := by
    intro drop hlt
    have h1 : mant M f e * 2 ^ ((if B ≤ e then e - B else B - e) - (M + drop)) <
        2 ^ (M + 1) * 2 ^ ((if B ≤ e then e - B else B - e) - (M + drop)) :=
      Nat.mul_lt_mul_of_pos_right hmlt (Nat.two_pow_pos _)
    rw [← Nat.pow_add] at h1
    exact lt_of_lt_of_le h1 (Nat.pow_le_pow_right (by decide) (by omega))
  have hroomF : ∀ fl0 needed0, needed0 ≤ (B + M) * 30103 / 100000 + 1 + 40 →
      mant M f e / 2 ^ findFirstBit (mant M f e) * 5 ^ fracLen fl0 needed0 < 2 ^ (64 * c.maxIndex) := by
    intro fl0 needed0 hn
    have h1 : mant M f e / 2 ^ findFirstBit (mant M f e) < 2 ^ (M + 1) := lt_of_le_of_lt (Nat.div_le_self _ _) hmlt
    have h2 : fracLen fl0 needed0 ≤ (B + M) * 30103 / 100000 + 1 + 41 := by unfold fracLen; split <;> omega
    calc _ < 2 ^ (M + 1) * 5 ^ fracLen fl0 needed0 := Nat.mul_lt_mul_of_pos_right h1 (Nat.pow_pos (by decide))
      _ ≤ 2 ^ (M + 1) * 5 ^ ((B + M) * 30103 / 100000 + 1 + 41) :=
          Nat.mul_le_mul_left _ (Nat.pow_le_pow_right (by decide) h2)
      _ < _ := c8
  unfold digitRun runSpec
  simp only [c1, c2, c3, hmant, Nat.shiftRight_eq_div_pow, Nat.mul_div_cancel _ (Nat.two_pow_pos M), hcs, ok_bind, hb0]
  have hest : ∀ j pe, (pe + if e = 0 then M - j else 0) * 30103 / 100000 + 1 = estDigits M j pe e := fun _ _ => rfl
  simp only [hest]
  generalize findFirstBit (mant M f e) = j at *
  generalize hpeq : (if B ≤ e then e - B else B - e) = pe at *
  have hdgle : estDigits M j pe e ≤ (B + M) * 30103 / 100000 + 1 := by
    unfold estDigits
    have : pe + (if e = 0 then M - j else 0) ≤ B + M := by split <;> omega
    have := Nat.div_le_div_right (c := 100000) (Nat.mul_le_mul_right 30103 this)
    omega
  clear c8
  generalize estDigits M j pe e = dg at hdgle ⊢
  generalize (decide (fmt = fmtSemiFixed) || decide (fmt = fmtFixed)) = fixed
  by_cases hnf : (decide (B ≤ e) && (decide (M - j ≤ pe) || (decide (p < dg) && !fixed))) = true
  · rw [if_pos hnf, if_pos hnf]
    by_cases hx : (decide (p < dg) && !fixed) = true
    · have hpd : p < dg := by simp at hx; exact hx.1
      have hcs21 : csub 21 dg (p + 1) = .ok (dg - (p + 1)) := by simp [csub, pure, Except.pure]; omega
      simp only [hx, Bool.not_true, Bool.false_eq_true, if_false, if_true, hcs21, ok_bind]
      rw [runNoFraction_eq (by rw [c1]; exact hroomNF _), ok_bind, c1]
      rfl
    · simp only [hx, Bool.not_false, if_true, if_false, pure_bind]
      rw [runNoFraction_eq (by rw [c1]; exact hroomNF _), ok_bind, c1]
      rfl
  · rw [if_neg hnf, if_neg hnf]
    by_cases hpos : B ≤ e
    · have hnb : ¬ (M - j ≤ pe) := by
        intro h; apply hnf; simp [hpos, h]
      have hcs22 : csub 22 (M - j) pe = .ok (M - j - pe) := by simp [csub, pure, Except.pure]; omega
      simp only [hpos, decide_true, if_true, hcs22, ok_bind]
      cases hfx : fixed
      · have hnp : ¬ (p < dg) := by
          intro h; apply hnf; simp [hpos, h, hfx]
        have hcs23 : csub 23 p dg = .ok (p - dg) := by simp [csub, pure, Except.pure]; omega
        simp only [Bool.false_eq_true, if_false, hcs23, ok_bind, pure_bind]
        rw [runFraction_eq c5 c6 (hroomF _ _ (by omega)), ok_bind]
        rfl
      · simp only [if_true, pure_bind]
        rw [runFraction_eq c5 c6 (hroomF _ _ (by omega)), ok_bind]
        rfl
    · simp only [hpos, decide_false, Bool.false_eq_true, if_false, pure_bind]
      rw [runFraction_eq c5 c6 (hroomF _ _ (by omega)), ok_bind]
      rfl

end Qentem.Proofs.NumToStr
