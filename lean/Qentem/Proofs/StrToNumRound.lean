import Mathlib.Tactic.Ring
import Mathlib.Tactic.Linarith
import Qentem.Model.Round
import Qentem.Model.StrToNum
/-! C09 helper lemmas: round-half-even (`rne`, the specification) against the code's
"truncate to 54 bits, add the low bit, halve" (`roundBit`), in pure `Nat` arithmetic. -/
namespace Qentem.Round

theorem rne_decomp (q r den : Nat) (h : r < den) :
    rne (den * q + r) den =
      if 2 * r < den then q else if 2 * r > den then q + 1 else if q % 2 = 0 then q else q + 1 := by
  have hd : 0 < den := by omega
  unfold rne
  have h1 : (den * q + r) / den = q := by
    rw [Nat.mul_add_div hd, Nat.div_eq_of_lt h]; rfl
  have h2 : (den * q + r) % den = r := by
    rw [Nat.mul_add_mod, Nat.mod_eq_of_lt h]
  simp only [h1, h2]

theorem rne_one (x : Nat) : rne x 1 = x := by
  have := rne_decomp x 0 1 (by decide)
  simpa using this

theorem rne_mul_right (a d c : Nat) (hd : 0 < d) (hc : 0 < c) : rne (a * c) (d * c) = rne a d := by
  have h1 : a = d * (a / d) + a % d := (Nat.div_add_mod a d).symm
  have hr : a % d < d := Nat.mod_lt _ hd
  have e : a * c = (d * c) * (a / d) + (a % d) * c := by
    conv_lhs => rw [h1]
    ring
  rw [e, rne_decomp (a / d) ((a % d) * c) (d * c) (Nat.mul_lt_mul_of_pos_right hr hc)]
  conv_rhs => rw [h1, rne_decomp (a / d) (a % d) d hr]
  have k1 : (2 * (a % d * c) < d * c) ↔ (2 * (a % d) < d) := by
    constructor
    · intro h; by_contra hn
      have : d * c ≤ 2 * (a % d) * c := Nat.mul_le_mul_right c (by omega)
      nlinarith
    · intro h
      have : 2 * (a % d) * c < d * c := Nat.mul_lt_mul_of_pos_right h hc
      nlinarith
  have k2 : (2 * (a % d * c) > d * c) ↔ (2 * (a % d) > d) := by
    constructor
    · intro h; by_contra hn
      have : 2 * (a % d) * c ≤ d * c := Nat.mul_le_mul_right c (by omega)
      nlinarith
    · intro h
      have : d * c < 2 * (a % d) * c := Nat.mul_lt_mul_of_pos_right h hc
      nlinarith
  simp only [k1, k2]

theorem rne_ge (num den : Nat) (hd : 0 < den) : num / den ≤ rne num den := by
  have h1 : num = den * (num / den) + num % den := (Nat.div_add_mod num den).symm
  rw [h1, rne_decomp _ _ _ (Nat.mod_lt _ hd)]
  rw [← h1]
  split
  · exact Nat.le_refl _
  · split
    · omega
    · split <;> omega

theorem rne_le (num den : Nat) (hd : 0 < den) : rne num den ≤ num / den + 1 := by
  have h1 : num = den * (num / den) + num % den := (Nat.div_add_mod num den).symm
  rw [h1, rne_decomp _ _ _ (Nat.mod_lt _ hd)]
  rw [← h1]
  split
  · omega
  · split
    · omega
    · split <;> omega

/-- exact multiples are not moved -/
theorem rne_exact (q den : Nat) (hd : 0 < den) : rne (q * den) den = q := by
  have := rne_decomp q 0 den hd
  rw [Nat.add_zero, Nat.mul_comm] at this
  rw [this]; simp [hd]

/-- the code's rounding of `B / 2h`: `t = B / h` (one extra bit), `(t + t % 2) / 2` -/
def halfUp (B h : Nat) : Nat := (B / h + (B / h) % 2) / 2

/-- **Core comparison.** `B` is what the code holds (a multiple structure is not needed), `V` the
exact value, `B ≤ V < B + h` (the code's value is short by less than half a unit `2h`). Inside the
same binade the correctly rounded `V/2h` and the code's half-up of `B/2h` differ by at most one. -/
theorem rne_vs_halfUp (B V h : Nat) (hh : 0 < h) (h1 : B ≤ V) (h2 : V < B + h) :
    halfUp B h ≤ rne V (2 * h) + 1 ∧ rne V (2 * h) ≤ halfUp B h + 1 := by
  -- B = h*t + r0, t = 2q + hb
  obtain ⟨t, r0, hB, hr0⟩ : ∃ t r0, B = h * t + r0 ∧ r0 < h := ⟨B / h, B % h, (Nat.div_add_mod B h).symm, Nat.mod_lt _ hh⟩
  obtain ⟨q, hb, ht, hhb⟩ : ∃ q hb, t = 2 * q + hb ∧ hb < 2 := ⟨t / 2, t % 2, (Nat.div_add_mod t 2).symm, Nat.mod_lt _ (by decide)⟩
  have hBt : B / h = t := by rw [hB, Nat.mul_add_div hh, Nat.div_eq_of_lt hr0]; rfl
  have hcode : halfUp B h = q + hb := by
    unfold halfUp; rw [hBt, ht]
    have : (2 * q + hb) % 2 = hb := by omega
    rw [this]; omega
  rw [hcode]
  obtain ⟨d, hd⟩ : ∃ d, V = B + d := ⟨V - B, by omega⟩
  have hdh : d < h := by omega
  have e0 : h * t = 2 * (h * q) + h * hb := by rw [ht]; ring
  have hhq : 2 * h * q = 2 * (h * q) := by ring
  have hhq1 : 2 * h * (q + 1) = 2 * (h * q) + 2 * h := by ring
  rcases Nat.lt_or_ge (h * hb + r0 + d) (2 * h) with hlt | hge
  · -- quotient q
    have eV : V = 2 * h * q + (h * hb + r0 + d) := by rw [hd, hB, e0, hhq]; omega
    rw [eV, rne_decomp q _ (2 * h) hlt]
    split
    · constructor <;> omega
    · split
      · constructor <;> omega
      · split <;> constructor <;> omega
  · -- quotient q + 1 (then hb = 1 and the remainder is below h)
    have hb1 : hb = 1 := by
      rcases Nat.lt_or_ge hb 1 with h0 | h0
      · have : hb = 0 := by omega
        subst this; simp at hge; omega
      · omega
    subst hb1
    have eV : V = 2 * h * (q + 1) + (r0 + d - h) := by rw [hd, hB, e0, hhq1]; omega
    have hlt : r0 + d - h < 2 * h := by omega
    rw [eV, rne_decomp (q + 1) _ (2 * h) hlt]
    have : 2 * (r0 + d - h) < 2 * h := by omega
    simp only [this, if_true]
    constructor <;> omega

/-- **Exactness under a margin.** If the exact value `V` is not within the code's shortfall `V − B` of a
rounding boundary (a half-way point at unit `2h`), the code's truncate-then-half-up equals the
correctly rounded (nearest-even) result — no tie can occur and the truncation cannot flip the decision. -/
theorem halfUp_eq_rne_of_margin (B V h : Nat) (hh : 0 < h) (h1 : B ≤ V) (h2 : V < B + h)
    (hm : V % (2 * h) + (V - B) < h ∨ h + (V - B) < V % (2 * h)) :
    halfUp B h = rne V (2 * h) := by
  obtain ⟨q, r, hV, hr⟩ : ∃ q r, V = 2 * h * q + r ∧ r < 2 * h :=
    ⟨V / (2 * h), V % (2 * h), (Nat.div_add_mod V (2 * h)).symm, Nat.mod_lt _ (by omega)⟩
  have hmod : V % (2 * h) = r := by rw [hV, Nat.mul_add_mod, Nat.mod_eq_of_lt hr]
  rw [hmod] at hm
  obtain ⟨d, hd⟩ : ∃ d, V = B + d := ⟨V - B, by omega⟩
  have hdB : V - B = d := by omega
  rw [hdB] at hm
  have hdh : d < h := by omega
  have hq2 : 2 * h * q = h * (2 * q) := by ring
  -- halfUp from an explicit decomposition B = h*t + s, s < h
  have key : ∀ t s, B = h * t + s → s < h → halfUp B h = (t + t % 2) / 2 := by
    intro t s hB hs
    unfold halfUp
    have : B / h = t := by rw [hB, Nat.mul_add_div hh, Nat.div_eq_of_lt hs]; rfl
    rw [this]
  rw [hV, rne_decomp q r (2 * h) hr]
  rcases hm with hA | hB'
  · have hlt : 2 * r < 2 * h := by omega
    simp only [hlt, if_true]
    rcases Nat.lt_or_ge r d with hrd | hrd
    · -- the shortfall crosses a multiple of 2h downwards
      have hq1 : 1 ≤ q := by
        rcases Nat.eq_zero_or_pos q with h0 | h0
        · subst h0; simp at hV; omega
        · exact h0
      obtain ⟨q', hq'⟩ : ∃ q', q = q' + 1 := ⟨q - 1, by omega⟩
      subst hq'
      have e : h * (2 * (q' + 1)) = h * (2 * q' + 1) + h := by ring
      rw [key (2 * q' + 1) (h + r - d) (by rw [hq2, e] at hV; omega) (by omega)]
      omega
    · rw [key (2 * q) (r - d) (by rw [hq2] at hV; omega) (by omega)]
      omega
  · have hn1 : ¬ (2 * r < 2 * h) := by omega
    have hgt : 2 * r > 2 * h := by omega
    simp only [hn1, if_false, hgt, if_true]
    have e : h * (2 * q + 1) = h * (2 * q) + h := by ring
    rw [key (2 * q + 1) (r - d - h) (by rw [hq2] at hV; omega) (by omega)]
    omega

end Qentem.Round
