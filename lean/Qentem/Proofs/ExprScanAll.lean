import Qentem.Proofs.ExprScanSafe
/-!
# C01 — every variable operand the expression scanner returns satisfies `P`

`scan_all`: `P` holds of every `{var:…}` operand (at any nesting depth) of the scanner's result
whenever it holds of the reference the scanner builds when it sees `{` … `}` — offset right after
`{var:`, length up to the tested `}`, `IDLength` / `Level` as `checkLoopVariable` reports them.
Generalises `scan_vars` (which fixes `P` = "inside the content, not bound to a loop").
-/
set_option linter.unusedSectionVars false
set_option linter.unusedVariables false
namespace Qentem.Expr
open Qentem.Generated.Expr

variable {R : Type}

mutual
def operandAll (P : VarRef → Prop) : Operand R → Prop
  | .var v => P v
  | .sub items => itemsAll P items
  | _ => True
def itemsAll (P : VarRef → Prop) : List (Item R) → Prop
  | [] => True
  | (x, _) :: rest => operandAll P x ∧ itemsAll P rest
end

theorem itemsAll_snoc (P : VarRef → Prop) (x : Operand R) (o : Op) : ∀ (a : List (Item R)),
    itemsAll P (a ++ [(x, o)]) ↔ (itemsAll P a ∧ operandAll P x) := by
  intro a
  induction a with
  | nil => simp [itemsAll]
  | cons y rest ih =>
    obtain ⟨y1, y2⟩ := y
    simp only [List.cons_append, itemsAll, ih, and_assoc]

theorem scan_all (cfg : ScanCfg R) (c : List Nat) (P : VarRef → Prop)
    (hP : ∀ o e, o ≤ e → e < c.length → c[e]? = some 125 →
      P ⟨o, (e - o) % 2 ^ variableLengthBits, (cfg.loopVar o).1, (cfg.loopVar o).2⟩) : ∀ f,
    (∀ off endO, endO < c.length →
      Safe (parseExpressions cfg c f off endO) (fun r => itemsAll P r)) ∧
    (∀ endO off exprs lastOp, endO < c.length → itemsAll P exprs →
      Safe (parseLoop cfg c f endO off exprs lastOp) (fun r => itemsAll P r)) ∧
    (∀ exprs oper lastOp off0 end0, end0 < c.length → itemsAll P exprs →
      Safe (parseValue cfg c f exprs oper lastOp off0 end0)
        (fun r => ∀ l, r = some l → itemsAll P l)) := by
  intro f
  induction f with
  | zero =>
    refine ⟨?_, ?_, ?_⟩ <;> intros <;> simp only [parseExpressions, parseLoop, parseValue] <;> exact Safe.fuel
  | succ f ih =>
    obtain ⟨ihE, ihL, ihV⟩ := ih
    refine ⟨?_, ?_, ?_⟩
    · intro off endO he
      simp only [parseExpressions]
      exact ihL _ _ _ _ he (by simp [itemsAll])
    · intro endO off exprs lastOp he hex
      simp only [parseLoop]
      split
      · rename_i hlt
        apply Safe.bind (getOperation_safe c endO he _ off (by omega))
        intro r hr
        obtain ⟨oper, opOff⟩ := r
        simp only []
        split
        · exact Safe.ok _ (by simp [itemsAll])
        · apply Safe.bind (ihV exprs oper lastOp off opOff (by simp at hr; omega) hex)
          intro v hv
          cases v with
          | none => exact Safe.ok _ (by simp [itemsAll])
          | some ex => exact ihL _ _ _ _ he (hv ex rfl)
      · split
        · exact Safe.ok _ hex
        · exact Safe.ok _ (by simp [itemsAll])
    · intro exprs oper lastOp off0 end0 he hex
      simp only [parseValue]
      apply Safe.bind (trimLeft_safe c end0 (by omega) _ off0)
      intro off _
      apply Safe.bind (trimRight_safe c off end0 (by omega))
      intro endO hend
      split
      · rename_i hlt
        apply Safe.bind (rd_safe c off (by omega))
        intro ch _
        split
        · apply Safe.bind (ihE (off + 1) (endO - 1) (by omega))
          intro sub hsub
          split
          · split
            · exact Safe.ok _ (by intro l hl; cases hl)
            · refine Safe.ok _ ?_
              intro l hl
              simp only [Option.some.injEq] at hl
              subst hl
              rw [itemsAll_snoc]
              exact ⟨hex, by simpa [operandAll] using hsub⟩
          · split
            · exact Safe.ok _ (by intro l hl; cases hl)
            · exact Safe.ok _ (by intro l hl; simp only [Option.some.injEq] at hl; subst hl; exact hsub)
        · split
          · split
            · rename_i hfull
              have h1 : W1.inLineSuffixLength = 1 := by decide
              have h5 : W1.variablePrefixLength = 5 := by decide
              have h6 : W1.variableFullLength = 6 := by decide
              have hlt' : endO - W1.inLineSuffixLength < c.length := by omega
              simp only [rd, List.getElem?_eq_getElem hlt', bind, Except.bind]
              split
              · rename_i hlast
                refine Safe.ok _ ?_
                intro l hl
                simp only [Option.some.injEq] at hl
                subst hl
                rw [itemsAll_snoc]
                refine ⟨hex, ?_⟩
                simp only [operandAll]
                have := hP (off + W1.variablePrefixLength) (endO - W1.inLineSuffixLength) (by omega) hlt'
                  (by rw [List.getElem?_eq_getElem hlt', hlast]; rfl)
                exact this
              · exact Safe.ok _ (by intro l hl; cases hl)
            · exact Safe.ok _ (by intro l hl; cases hl)
          · split
            · refine Safe.ok _ ?_
              intro l hl
              simp only [Option.some.injEq] at hl
              subst hl
              rw [itemsAll_snoc]
              exact ⟨hex, by simp [operandAll]⟩
            · split
              · refine Safe.ok _ ?_
                intro l hl
                simp only [Option.some.injEq] at hl
                subst hl
                rw [itemsAll_snoc]
                exact ⟨hex, by simp [operandAll]⟩
              · exact Safe.ok _ (by intro l hl; cases hl)
      · exact Safe.ok _ (by intro l hl; cases hl)

theorem parseTop_all (cfg : ScanCfg R) (c : List Nat) (P : VarRef → Prop)
    (hP : ∀ o e, o ≤ e → e < c.length → c[e]? = some 125 →
      P ⟨o, (e - o) % 2 ^ variableLengthBits, (cfg.loopVar o).1, (cfg.loopVar o).2⟩)
    (off endO : Nat) (he : endO < c.length) :
    Safe (parseTop cfg c off endO) (fun r => itemsAll P r) :=
  (scan_all cfg c P hP _).1 off endO he

end Qentem.Expr
