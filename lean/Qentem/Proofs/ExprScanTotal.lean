import Qentem.Proofs.ExprScanWf
/-!
# C04 / C01 — the expression scanner model is total

`parseTop cfg c off endO` (fuel `2·(endO − off) + 4`) returns a list for every content, every
number reader and every range with `endO < |c|`: no checked read fails (as `parseTop_safe`) and the
fuel of the model's recursion is never exhausted.  So the `Safe` statements about the scanner are
not vacuous through fuel, and the side condition "the scanner terminates within its fuel" of the
C02 stage theorems is discharged.
-/
set_option linter.unusedSectionVars false
set_option linter.unusedVariables false
namespace Qentem.Expr
open Qentem.Generated.Expr

/-- `x` succeeds and its result satisfies `P` -/
def Tot {α : Type} (x : Except Fault α) (P : α → Prop) : Prop := ∃ a, x = .ok a ∧ P a

theorem Tot.ok {α : Type} {P : α → Prop} (a : α) (h : P a) : Tot (.ok a : Except Fault α) P := ⟨a, rfl, h⟩

theorem Tot.bind {α β : Type} {x : Except Fault α} {f : α → Except Fault β} {P : α → Prop}
    {Q : β → Prop} (hx : Tot x P) (hf : ∀ a, P a → Tot (f a) Q) : Tot (x >>= f) Q := by
  obtain ⟨a, ha, hp⟩ := hx
  rw [ha]; exact hf a hp

theorem Tot.mono {α : Type} {x : Except Fault α} {P Q : α → Prop} (hx : Tot x P)
    (h : ∀ a, P a → Q a) : Tot x Q := by
  obtain ⟨a, ha, hp⟩ := hx
  exact ⟨a, ha, h a hp⟩

theorem rd_tot (c : List Nat) (i : Nat) (h : i < c.length) : Tot (rd c i) (fun _ => True) := by
  simp [rd, h, Tot]

theorem isExpression_tot (c : List Nat) : ∀ off, off ≤ c.length →
    Tot (isExpression c off) (fun _ => True) := by
  intro off
  induction off with
  | zero => intro _; exact Tot.ok _ trivial
  | succ off ih =>
    intro h
    simp only [isExpression]
    apply Tot.bind (rd_tot c off (by omega))
    intro ch _
    split
    · exact ih (by omega)
    · split <;> exact Tot.ok _ trivial

theorem skipParen_tot (c : List Nat) (endO : Nat) (he : endO ≤ c.length) :
    ∀ f off skip, off ≤ endO → endO - off + 1 ≤ f →
      Tot (skipParen c endO f off skip) (fun o => off ≤ o ∧ o ≤ endO) := by
  intro f
  induction f with
  | zero => intro off skip _ hf; omega
  | succ f ih =>
    intro off skip h hf
    simp only [skipParen]
    split
    · rename_i hlt
      apply Tot.bind (rd_tot c off (by omega))
      intro ch _
      split
      · split
        · exact Tot.ok _ ⟨Nat.le_refl _, h⟩
        · exact Tot.mono (ih _ _ (by omega) (by omega)) (fun a ha => ⟨by omega, ha.2⟩)
      · split <;> exact Tot.mono (ih _ _ (by omega) (by omega)) (fun a ha => ⟨by omega, ha.2⟩)
    · exact Tot.ok _ ⟨Nat.le_refl _, h⟩

theorem skipBracket_tot (c : List Nat) (endO : Nat) (he : endO ≤ c.length) :
    ∀ f off, off < endO → endO - off + 1 ≤ f →
      Tot (skipBracket c endO f off) (fun o => off < o ∧ o ≤ endO) := by
  intro f
  induction f with
  | zero => intro off _ hf; omega
  | succ f ih =>
    intro off h hf
    simp only [skipBracket]
    split
    · rename_i hlt
      apply Tot.bind (rd_tot c (off + 1) (by omega))
      intro ch _
      split
      · exact Tot.mono (ih _ hlt (by omega)) (fun a ha => ⟨by omega, ha.2⟩)
      · exact Tot.ok _ ⟨by omega, by omega⟩
    · exact Tot.ok _ ⟨by omega, by omega⟩

theorem getOperation_tot (c : List Nat) (endO : Nat) (he : endO < c.length) :
    ∀ f off, off ≤ endO → endO - off + 1 ≤ f →
      Tot (getOperation c endO f off) (fun r => off ≤ r.2 ∧ r.2 ≤ endO) := by
  intro f
  induction f with
  | zero => intro off _ hf; omega
  | succ f ih =>
    intro off h hf
    rw [getOperation]
    split
    · rename_i hlt
      apply Tot.bind (rd_tot c off (by omega))
      intro ch _
      cases hc : classify ch with
      | two yes no second =>
        exact Tot.bind (rd_tot c (off + 1) (by omega)) (fun nx _ => Tot.ok _ ⟨Nat.le_refl _, h⟩)
      | sign op =>
        apply Tot.bind (isExpression_tot c off (by omega))
        intro b _
        split
        · exact Tot.ok _ ⟨Nat.le_refl _, h⟩
        · exact Tot.mono (ih _ (by omega) (by omega)) (fun a ha => ⟨by omega, ha.2⟩)
      | single op => exact Tot.ok _ ⟨Nat.le_refl _, h⟩
      | paren =>
        apply Tot.bind (skipParen_tot c endO (by omega) _ _ _ (by omega) (by omega))
        intro o2 ho2
        split
        · exact Tot.mono (ih _ (by omega) (by omega)) (fun a ha => ⟨by omega, ha.2⟩)
        · exact Tot.ok _ ⟨by simp only []; omega, ho2.2⟩
      | bracket =>
        apply Tot.bind (skipBracket_tot c endO (by omega) _ _ hlt (by omega))
        intro o2 ho2
        split
        · exact Tot.mono (ih _ (by omega) (by omega)) (fun a ha => ⟨by omega, ha.2⟩)
        · exact Tot.ok _ ⟨h, Nat.le_refl _⟩
      | other => exact Tot.mono (ih _ (by omega) (by omega)) (fun a ha => ⟨by omega, ha.2⟩)
    · exact Tot.ok _ ⟨Nat.le_refl _, h⟩

theorem trimLeft_tot (c : List Nat) (endO : Nat) (he : endO ≤ c.length) :
    ∀ f off, Tot (trimLeft c endO f off) (fun r => off ≤ r) := by
  intro f
  induction f with
  | zero => intro off; exact Tot.ok _ (Nat.le_refl _)
  | succ f ih =>
    intro off
    simp only [trimLeft]
    split
    · apply Tot.bind (rd_tot c off (by omega))
      intro ch _
      split
      · exact Tot.mono (ih _) (fun a ha => by omega)
      · exact Tot.ok _ (Nat.le_refl _)
    · exact Tot.ok _ (Nat.le_refl _)

theorem trimRight_tot (c : List Nat) (off : Nat) :
    ∀ e, e ≤ c.length → Tot (trimRight c off e) (fun r => r ≤ e) := by
  intro e
  induction e with
  | zero => intro _; exact Tot.ok _ (Nat.le_refl _)
  | succ e ih =>
    intro h
    simp only [trimRight]
    split
    · apply Tot.bind (rd_tot c e (by omega))
      intro ch _
      split
      · exact Tot.mono (ih (by omega)) (fun a ha => by omega)
      · exact Tot.ok _ (Nat.le_refl _)
    · exact Tot.ok _ (Nat.le_refl _)

variable {R : Type}

/-- the three mutually recursive scanner functions never run out of fuel -/
theorem scan_tot (cfg : ScanCfg R) (c : List Nat) : ∀ f,
    (∀ off endO, endO < c.length → 2 ≤ f → (off < endO → 2 * (endO - off) + 3 ≤ f) →
      Tot (parseExpressions cfg c f off endO) (fun _ => True)) ∧
    (∀ endO off exprs lastOp, endO < c.length → 1 ≤ f → (off < endO → 2 * (endO - off) + 2 ≤ f) →
      Tot (parseLoop cfg c f endO off exprs lastOp) (fun _ => True)) ∧
    (∀ exprs oper lastOp off0 end0, end0 < c.length → 2 * (end0 - off0) + 1 ≤ f →
      Tot (parseValue cfg c f exprs oper lastOp off0 end0) (fun _ => True)) := by
  intro f
  induction f with
  | zero =>
    refine ⟨?_, ?_, ?_⟩
    · intro off endO _ h2 _; omega
    · intro endO off exprs lastOp _ h1 _; omega
    · intro exprs oper lastOp off0 end0 _ h; omega
  | succ f ih =>
    obtain ⟨ihE, ihL, ihV⟩ := ih
    refine ⟨?_, ?_, ?_⟩
    · intro off endO he h2 hf
      simp only [parseExpressions]
      exact ihL _ _ _ _ he (by omega) (fun h => by have := hf h; omega)
    · intro endO off exprs lastOp he h1 hf
      simp only [parseLoop]
      split
      · rename_i hlt
        have hfl := hf hlt
        apply Tot.bind (getOperation_tot c endO he _ off (by omega) (by omega))
        intro r hr
        obtain ⟨oper, opOff⟩ := r
        simp only [] at hr ⊢
        split
        · exact Tot.ok _ trivial
        · apply Tot.bind (ihV exprs oper lastOp off opOff (by omega) (by omega))
          intro v _
          cases v with
          | none => exact Tot.ok _ trivial
          | some ex =>
            exact ihL _ _ _ _ he (by omega) (fun h => by omega)
      · split <;> exact Tot.ok _ trivial
    · intro exprs oper lastOp off0 end0 he hf
      simp only [parseValue]
      apply Tot.bind (trimLeft_tot c end0 (by omega) _ off0)
      intro off hoff
      apply Tot.bind (trimRight_tot c off end0 (by omega))
      intro endO hend
      split
      · rename_i hlt
        apply Tot.bind (rd_tot c off (by omega))
        intro ch _
        split
        · apply Tot.bind (ihE (off + 1) (endO - 1) (by omega) (by omega) (fun h => by omega))
          intro sub _
          split <;> exact Tot.ok _ trivial
        · split
          · split
            · apply Tot.bind (rd_tot c _ (by omega))
              intro last _
              split
              · exact Tot.ok _ trivial
              · exact Tot.ok _ trivial
            · exact Tot.ok _ trivial
          · split
            · exact Tot.ok _ trivial
            · split <;> exact Tot.ok _ trivial
      · exact Tot.ok _ trivial

/-- the expression scanner always returns a list -/
theorem parseTop_total (cfg : ScanCfg R) (c : List Nat) (off endO : Nat) (he : endO < c.length) :
    ∃ items, parseTop cfg c off endO = .ok items := by
  obtain ⟨a, ha, _⟩ := (scan_tot cfg c (2 * (endO - off) + 4)).1 off endO he (by omega) (fun _ => by omega)
  exact ⟨a, ha⟩

end Qentem.Expr
